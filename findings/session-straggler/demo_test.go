package processor

// Demonstration for seeded change C07-d: a downlink frame counter is used twice in one
// session when the handler of an uplink whose counter went backwards (device with relaxed
// counter checks that has restarted) overlaps the downlink encoder of the previous uplink.
//
// The two subtests run the same four steps on a fresh store; only the order differs.
// Nothing here depends on timing: the handler and the encoder are driven step by step on
// the calling goroutine (the handler is split where verifyAndDecryptMessage splits it:
// the read of the device row, then processMessage on that copy).

import (
	"testing"
	"time"

	"github.com/lab5e/lospan/pkg/model"
	"github.com/lab5e/lospan/pkg/protocol"
	"github.com/lab5e/lospan/pkg/server"
	"github.com/lab5e/lospan/pkg/storage"
)

type sessRig struct {
	t         *testing.T
	store     *storage.Storage
	decrypter *Decrypter
	encoder   *Encoder
	output    chan server.GatewayPacket
	devAddr   protocol.DevAddr
	eui       protocol.EUI
	received  time.Time
}

func newSessRig(t *testing.T) *sessRig {
	r := &sessRig{t: t, received: time.Unix(1700000000, 0)}
	r.store = storage.NewMemoryStorage()

	app := model.NewApplication()
	app.AppEUI = protocol.EUIFromInt64(0x0a0b0c0d0e0f0001)
	if err := r.store.CreateApplication(app); err != nil {
		t.Fatalf("create application: %v", err)
	}

	r.devAddr = protocol.DevAddrFromUint32(0x00445566)
	r.eui = protocol.EUIFromInt64(0x0a0b0c0d0e0f0002)
	dev := model.NewDevice()
	dev.DeviceEUI = r.eui
	dev.AppEUI = app.AppEUI
	dev.DevAddr = r.devAddr
	dev.AppSKey, _ = protocol.AESKeyFromString("E001 2A22 25B8 585E DCEC 7042 4798 C510")
	dev.NwkSKey, _ = protocol.AESKeyFromString("3C5E 5C9F 469E EF3E 02CC D4FF 9531 31BA")
	dev.State = model.PersonalizedDevice
	dev.RelaxedCounter = false
	dev.FCntUp = 5
	dev.FCntDn = 3
	if err := r.store.CreateDevice(dev, app.AppEUI); err != nil {
		t.Fatalf("create device: %v", err)
	}

	frameOutput := server.NewFrameOutputBuffer()
	appRouter := server.NewEventRouter[protocol.EUI, *server.PayloadMessage](5)
	ctx := &server.Context{
		Storage:     r.store,
		FrameOutput: &frameOutput,
		Config:      server.NewDefaultConfig(),
		AppRouter:   &appRouter,
	}

	r.decrypter = NewDecrypter(ctx, make(chan server.LoRaMessage))
	// The handler hands every accepted uplink to the MAC processor on an unbuffered
	// channel; drain it.
	go func() {
		for range r.decrypter.Output() {
		}
	}()

	r.output = make(chan server.GatewayPacket, 8)
	r.encoder = NewEncoder(ctx, nil, r.output)
	return r
}

// readRow is the first step of an uplink handler: it reads the device row(s) for the
// DevAddr of the frame (what verifyAndDecryptMessage does before it checks the MIC).
func (r *sessRig) readRow() model.Device {
	devices, err := r.store.GetDeviceByDevAddr(r.devAddr)
	if err != nil || len(devices) != 1 {
		r.t.Fatalf("read device row: %v (%d rows)", err, len(devices))
	}
	return devices[0]
}

// finishHandler is the rest of the uplink handler, working on the copy of the row it read.
func (r *sessRig) finishHandler(dev model.Device, fcnt uint16) {
	up := protocol.NewPHYPayload(protocol.UnconfirmedDataUp)
	up.MACPayload.FHDR.DevAddr = r.devAddr
	up.MACPayload.FHDR.FCnt = fcnt
	up.MACPayload.FPort = 1
	up.MACPayload.FRMPayload = []byte{1, 2, 3, 4}
	raw, err := up.EncodeMessage(dev.NwkSKey, dev.AppSKey)
	if err != nil {
		r.t.Fatalf("encode uplink: %v", err)
	}
	r.received = r.received.Add(time.Second)
	r.decrypter.processMessage(&dev, server.LoRaMessage{
		Payload: up,
		FrameContext: server.FrameContext{
			GatewayContext: server.GatewayPacket{RawMessage: raw, ReceivedAt: r.received},
		},
	}, 1)
}

// encodeDownlink runs the downlink encoder on the answer to an uplink whose handler read
// the row dev, and returns the frame counter of the frame that was emitted.
func (r *sessRig) encodeDownlink(dev model.Device) uint16 {
	down := protocol.NewPHYPayload(protocol.UnconfirmedDataDown)
	down.MACPayload.FHDR.DevAddr = r.devAddr
	down.MACPayload.FPort = 1
	down.MACPayload.FRMPayload = []byte{9, 8, 7}
	r.encoder.processMessage(server.LoRaMessage{
		Payload:      down,
		FrameContext: server.FrameContext{Device: dev},
	})
	select {
	case pkt := <-r.output:
		phy := protocol.NewPHYPayload(protocol.Proprietary)
		if err := phy.UnmarshalBinary(pkt.RawMessage); err != nil {
			r.t.Fatalf("emitted frame does not decode: %v", err)
		}
		return phy.MACPayload.FHDR.FCnt
	default:
		return 0xffff // nothing emitted
	}
}


// A data frame of the previous session is still being handled when the device joins again:
// the straggler must not touch the counters of the new session, and nothing may leave under
// the old keys with a counter the old session has used already.
func TestSessionStragglerDoesNotTouchTheNewSession(t *testing.T) {
	r := newSessRig(t)
	old := r.readRow() // the handler of the old session's uplink (counter 5) reads the row: fup 5, fdn 3

	// the join-request is handled to its end: new keys, both counters zero (processJoinRequest + the encoder's JoinAccept branch)
	joined := old
	joined.NwkSKey, _ = protocol.AESKeyFromString("0101 0101 0101 0101 0101 0101 0101 0101")
	joined.AppSKey, _ = protocol.AESKeyFromString("0202 0202 0202 0202 0202 0202 0202 0202")
	joined.FCntUp, joined.FCntDn = 0, 0
	if err := r.store.UpdateDevice(joined); err != nil {
		t.Fatalf("store the new session: %v", err)
	}

	r.finishHandler(old, 5)          // the straggler's handler goes on with its copy of the old row
	fcnt := r.encodeDownlink(old)    // ... and so does its encoder

	now := r.readRow()
	if now.FCntUp != 0 || now.FCntDn != 0 {
		t.Errorf("the new session's counters were moved by a frame of the old session: FCntUp=%d FCntDn=%d, want 0 and 0", now.FCntUp, now.FCntDn)
	}
	if fcnt != 0xffff && fcnt < 3 {
		t.Errorf("a frame left under the OLD session keys with frame counter %d, which the old session had used already (its stored counter was 3)", fcnt)
	}
}
