module genconsts

go 1.21
