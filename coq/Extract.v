(* Extraction of the executable models and spec oracles. ExtrOcamlBasic only:
   bool, option, unit, list, prod, sumbool, sumor map to OCaml's; N, Z,
   positive, nat stay Coq datatypes. No Extract Constant of our own. *)
Require Extraction.
Require ExtrOcamlBasic.
From Lospan Require Import Base.Bytes Base.AES Model.CMAC Model.FrameTypes Model.Crypto Spec.RFC4493.
Extraction Language OCaml.
Extraction "lospan_model.ml"
  aes_enc aes_dec aescmac rfc4493 frame_crypt payload_crypt data_mic buffer_mic
  bytes_eqb le_val le_bytes devaddr_of_u32 devaddr_u32.
