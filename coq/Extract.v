(* Extraction of the executable models and spec oracles. ExtrOcamlBasic only:
   bool, option, unit, list, prod, sumbool, sumor map to OCaml's; N, Z,
   positive, nat stay Coq datatypes. No Extract Constant of our own. *)
Require Extraction.
Require ExtrOcamlBasic.
From Lospan Require Import Base.Bytes Base.AES Base.Outcome Gen.Consts Model.CMAC Model.FrameTypes Model.Crypto Model.MacCmd Model.Frame Model.Join Model.Store Model.Server Model.Steps Model.Gateway Model.Router Model.Keygen Model.Codec Model.RegistryTypes Model.Registry Model.Api
  Spec.RFC4493 Spec.MacLayout Spec.LoRaFrame Spec.RefDevice Spec.AbsRouter Spec.AbsRegistry.
Extraction Language OCaml.
Extraction "lospan_model.ml"
  aes_enc aes_dec aescmac rfc4493 frame_crypt payload_crypt data_mic buffer_mic
  bytes_eqb le_val le_bytes devaddr_of_u32 devaddr_u32 err_code mtype_uplink
  cmd_encode cmd_decode new_cmd cmd_len new_set set_add set_remove set_list set_encoded_length set_size set_encode
  decode_bounded layout_payload layout_fields
  decode encode mk_slice new_phy spec_decode spec_cmds spec_set s_adr s_adrackreq s_ack s_fpending s_is_data s_uplink cmd_payload_dec
  prunf trace uplink_prog join_prog recover mic_ok interleave itrace exec interleaveN itraceN
  rx_event submit encode_message encode_join_accept encode_join_request decode_join_accept nwkskey_from_nonces appskey_from_nonces
  dt_by_eui dt_by_devaddr dt_get dt_put key_empty max_payload
  gw_unmarshal gw_marshal gw_step encode_and_send key_present lookup_frequency authorised
  rrun expected expected_closed
  astep eui_of exhausted
  c_run c_empty a_run a_empty c_step a_step mixed_run api_state eui_to_int64 eui_from_int64 devaddr_str devaddr_from_str eui_str eui_from_str key_str key_from_str b64_enc b64_dec hex_enc hex_dec
  ref_uplink ref_on_downlink ref_join_request ref_on_join_accept ref_mic ref_crypt mic4.
