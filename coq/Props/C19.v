(* C19 — assigned EUIs carry the MA prefix and the network id and are never issued twice. Statements only. *)
From Lospan Require Import Base.Bytes Gen.Consts Model.Keygen Proof.KeygenProof.
Open Scope N_scope.

(* Obligation on the CURRENT source (Gen/Consts.v is regenerated on every run): the exhaustion
   limit leaves the counter inside its 25-bit field, and the constructor's guards are the bounds
   under which the network id fits between the prefix and the counter. *)
Theorem C19_limit_fits_field : max_id < 2 ^ 25.
Proof. exact max_id_fits. Qed.
Theorem C19_guards_are_field_widths :
  netid_guards = [32767; 2047; 7] /\ c_MALarge = 24 /\ c_MAMedium = 28 /\ c_MASmall = 36.
Proof. exact guards_are_bounds. Qed.

(* For EVERY MA-L / MA-M / MA-S prefix, every admissible network id and every counter value below
   2^25: the EUI's leading MA bits are the prefix's, the bits between prefix and counter are the
   network id, and the low 25 bits are the counter. *)
Theorem C19_prefix_and_netid :
  forall ma_size prefix64 netid id, ma_ok ma_size netid -> id < 2 ^ 25 ->
    eui_of ma_size prefix64 netid id / 2 ^ free_bits ma_size = prefix64 / 2 ^ free_bits ma_size /\
    (eui_of ma_size prefix64 netid id mod 2 ^ free_bits ma_size) / 2 ^ 25 = netid /\
    eui_of ma_size prefix64 netid id mod 2 ^ 25 = id.
Proof. exact eui_has_prefix_and_netid. Qed.

(* For EVERY history of requests, restarts, and crashes before or after the commit of a block
   reservation, from any consistent store (fresh or at any counter position), with any block size:
   the counter values handed out are strictly increasing ... *)
Theorem C19_ids_never_repeat :
  forall interval evs s lb, ainv s lb ->
    Sorted.StronglySorted N.lt (arun interval s evs) /\ Forall (fun x => lb <= x) (arun interval s evs).
Proof. exact issued_ids_increase. Qed.

(* ... and therefore the EUIs issued while exhaustion is not reported are pairwise distinct. *)
Theorem C19_euis_never_repeat :
  forall interval ma_size prefix64 netid evs s lb, ainv s lb -> ma_ok ma_size netid ->
    NoDup (map (eui_of ma_size prefix64 netid) (filter (fun id => negb (exhausted id)) (arun interval s evs))).
Proof. exact issued_euis_distinct. Qed.

(* non-vacuity: the fresh store satisfies the invariant *)
Example C19_fresh_store_consistent : ainv {| a_dur := None; a_blk := [] |} 1.
Proof. unfold ainv, dur_val; cbn. repeat split; try constructor; discriminate. Qed.

Print Assumptions C19_limit_fits_field.
Print Assumptions C19_guards_are_field_widths.
Print Assumptions C19_prefix_and_netid.
Print Assumptions C19_ids_never_repeat.
Print Assumptions C19_euis_never_repeat.
