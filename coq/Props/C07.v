(* C07 — a downlink frame counter is never reused within a session (quiescent histories). Statements only. *)
From Coq Require Import String Sorted.
From Lospan Require Import Base.Bytes Base.Outcome Model.FrameTypes Model.Frame Model.Store Model.Server Proof.LocalProof.

(* One sequential uplink produces at most one downlink; it is the encoding of a frame whose
   FCnt is the stored downlink counter, under the device's session keys, and the stored
   counter is one above it afterwards; without a downlink the counter does not move. *)
Theorem C07_step :
  forall (E D : list N -> list N -> list N) apps st f rx n now r,
    (forall k b, length (E k b) = 16%nat) ->
    ds_row st = Some r -> fb_down st -> valid_datr rx ->
    uplink_summary E st r f (l_uplink E D apps st f rx n now).
Proof. intros E D apps st f rx n now r HE. now apply l_uplink_summary. Qed.

(* Every history of uplinks and submissions of one device within a session: the counters the
   emitted downlinks carry (data, retransmissions, acknowledgement-only frames alike) are
   strictly increasing until 65535 is reached, hence pairwise distinct per session key. *)
Theorem C07_seq :
  forall (E D : list N -> list N -> list N) apps evs st r,
    (forall k b, length (E k b) = 16%nat) ->
    ds_row st = Some r -> fb_down st -> Forall ev_ok evs ->
    let '(_, _, num) := run E D apps st evs in
    Forall (fun a => (a < 65535)%N) num -> Forall (fun a => (d_fdn r <= a)%N) num /\ StronglySorted N.lt num.
Proof.
  intros E D apps evs st r HE Hr Hfb Hok. pose proof (session_counters E D HE apps evs st r Hr Hfb Hok) as H.
  destruct (run E D apps st evs) as [[stf rec] num]. exact (proj2 H).
Qed.

From Lospan Require Import Model.Steps Model.Join Proof.SchedDataProof Proof.SessionProof.
(* Concurrent clause. ANY number of uplink handlers of one device working at the same time on ANY frames,
   interleaved operation by operation in EVERY order (storage / output-buffer operation granularity, the
   scheduler's per-device slot included) and cut after any number of operations, while the session has used
   fewer than 2^16 downlink counters: the FCnt fields of the frames that leave are pairwise different and none
   is below the counter stored when the handlers started (each encoder takes its counter from the store with
   one fetch-and-increment statement, NextFCntDn). *)
Theorem C07_concurrent_counters_unique :
  forall (E D : list N -> list N -> list N) apps
    (ups : list (frame * rxpacket * nat * N)), Forall (fun x => (fcnt (fst (fst (fst x))) < 65535)%N) ups ->
    forall st r, ds_row st = Some r -> fb_down st -> (d_fdn r < 65536)%N -> (d_fdn r + N.of_nat (length ups) <= 65536)%N ->
    forall sched fuel,
      let res := interleaveN apps sched fuel st
                   (map (fun x => uplink_prog E D (fst (fst (fst x))) (snd (fst (fst x))) (snd (fst x)) (snd x)) ups) [] in
      (exists r', ds_row (fst res) = Some r' /\ same_session r r' /\ (d_fup r <= d_fup r')%N) /\
      NoDup (counters (snd res)) /\ Forall (fun x => (d_fdn r <= x)%N) (counters (snd res)).
Proof. exact concurrent_uplinks_counters. Qed.
(* The quantifier in full - every history AND every interleaving. A history whose events are batches of uplinks of one
   device handled at the same time (any frames, each batch under its own schedule, cut after any number of operations)
   - optionally followed by a restart of the server (the output buffer is lost, the tables stay) - and submissions of messages, from any state with a data-typed buffer entry, while the session has counters left:
   over the WHOLE history the FCnt fields of the frames that leave are pairwise different, each lies between the
   stored counter at the start and that counter plus the number of handlers, and the stored uplink counter never
   moves back. *)
Theorem C07_histories_of_concurrent_uplinks :
  forall (E D : list N -> list N -> list N) apps evs st r G,
    ds_row st = Some r -> fb_down st -> d_fdn r = (G mod 65536)%N -> (G + N.of_nat (total evs) <= 65536)%N -> Forall bev_ok evs ->
    (exists r', ds_row (fst (brun E D apps st evs)) = Some r' /\ same_session r r' /\ (d_fup r <= d_fup r')%N) /\
    NoDup (counters (snd (brun E D apps st evs))) /\
    Forall (fun x => (G <= x < G + N.of_nat (total evs))%N) (counters (snd (brun E D apps st evs))).
Proof. exact batches_counters. Qed.
(* the interleaving of two handlers that the forced-schedule correspondence executes on the real pipeline *)
Theorem C07_two_handlers_counters_unique :
  forall (E D : list N -> list N -> list N) apps f1 rx1 n1 now1 f2 rx2 n2 now2,
    (fcnt f1 < 65535)%N -> (fcnt f2 < 65535)%N ->
    forall st r, ds_row st = Some r -> fb_down st -> (d_fdn r < 65535)%N ->
    forall sched fuel,
      let res := interleave apps sched fuel st (uplink_prog E D f1 rx1 n1 now1) (uplink_prog E D f2 rx2 n2 now2) [] in
      (exists r', ds_row (fst res) = Some r' /\ same_session r r' /\ (d_fup r <= d_fup r')%N) /\
      NoDup (counters (snd res)) /\ Forall (fun x => (d_fdn r <= x)%N) (counters (snd res)).
Proof. exact two_uplinks_counters. Qed.
(* the FCnt field read from the raw frame is the counter the frame was encoded with *)
Theorem C07_raw_frame_carries_its_counter :
  forall E nk ak f buf, encode_message E nk ak f = Ok buf -> le_val (firstn 2 (skipn 6 buf)) = (fcnt f mod 65536)%N.
Proof. exact encode_message_fcnt. Qed.
(* ... and across a re-join: one join handler and ANY number of uplink handlers (with their encoders) of frames of the session the
   device is leaving, interleaved in EVERY order and cut anywhere: whenever the row holds the new session key afterwards its
   downlink counter is 0 - no encoder of the old session takes (or skips, or puts back) a counter of the new session. *)
Theorem C07_old_session_encoders_do_not_take_new_counters :
  forall (E D : list N -> list N -> list N) apps cfg jf jrx appnonce newaddr (ups : list (frame * rxpacket * nat * N)) sched fuel st r acc,
    let knew := nwkskey_from_nonces E (d_appkey r) appnonce (cfg_netid cfg) (jr_devnonce (jr jf)) in
    ds_row st = Some r -> d_nwkskey r <> knew ->
    Forall (fun u => forall dev, d_nwkskey dev = knew -> mic_ok E (fst (fst (fst u))) (rx_raw (snd (fst (fst u)))) dev = false) ups ->
    forall r', ds_row (fst (interleaveN apps sched fuel st
        (join_prog E D cfg jf jrx appnonce newaddr :: map (fun u => uplink_prog E D (fst (fst (fst u))) (snd (fst (fst u))) (snd (fst u)) (snd u)) ups) acc)) = Some r' ->
      d_nwkskey r' = knew -> d_fdn r' = 0%N.
Proof. exact stragglers_leave_the_new_downlink_counter_alone. Qed.
(* ... and the frames of the session the device is leaving: one join handler and ANY number of uplink handlers (with their
   scheduler and encoder steps) of frames that do not verify under the key the join derives, from a row in another session
   with a data-typed buffer entry, while the old session has counters left for them - EVERY schedule, cut anywhere: the data
   frames that leave (handed over with the one-second delay; the join-accept goes with five, C17) carry pairwise different
   counters, each between the stored counter at the start and that plus the number of uplink handlers. Before the join
   stores the new keys the encoders reserve counters with the session-bound fetch-and-increment; afterwards no reservation
   finds the row, and an encoder that holds a counter still sends its one frame with it. With the theorem above (the new
   session's counters stay zero): the pair (session key, downlink counter) is unique per frame across the re-join. *)
From Lospan Require Import Proof.SessionDataProof.
Theorem C07_counters_unique_across_a_rejoin :
  forall (E D : list N -> list N -> list N) apps cfg jf jrx appnonce newaddr (ups : list (frame * rxpacket * nat * N)) sched fuel st r,
    let knew := nwkskey_from_nonces E (d_appkey r) appnonce (cfg_netid cfg) (jr_devnonce (jr jf)) in
    ds_row st = Some r -> fb_down st -> d_nwkskey r <> knew -> (d_fdn r < 65536)%N -> (d_fdn r + N.of_nat (length ups) <= 65536)%N ->
    Forall (fun u => (fcnt (fst (fst (fst u))) < 65535)%N /\
                     forall dev, d_nwkskey dev = knew -> mic_ok E (fst (fst (fst u))) (rx_raw (snd (fst (fst u)))) dev = false) ups ->
    let outs := snd (interleaveN apps sched fuel st
        (join_prog E D cfg jf jrx appnonce newaddr :: map (fun u => uplink_prog E D (fst (fst (fst u))) (snd (fst (fst u))) (snd (fst u)) (snd u)) ups) []) in
    NoDup (dcounters outs) /\ Forall (fun x => (d_fdn r <= x < d_fdn r + N.of_nat (length ups))%N) (dcounters outs).
Proof. exact rejoin_counters_unique. Qed.


Print Assumptions C07_step.
Print Assumptions C07_seq.
Print Assumptions C07_concurrent_counters_unique.
Print Assumptions C07_two_handlers_counters_unique.
Print Assumptions C07_raw_frame_carries_its_counter.
Print Assumptions C07_histories_of_concurrent_uplinks.
Print Assumptions C07_old_session_encoders_do_not_take_new_counters.
Print Assumptions C07_counters_unique_across_a_rejoin.
