(* C07 — a downlink frame counter is never reused within a session (quiescent histories). Statements only. *)
From Coq Require Import String Sorted.
From Lospan Require Import Base.Bytes Model.FrameTypes Model.Frame Model.Store Model.Server Proof.LocalProof.

(* One sequential uplink produces at most one downlink; it is the encoding of a frame whose
   FCnt is the stored downlink counter, under the device's session keys, and the stored
   counter is one above it afterwards; without a downlink the counter does not move. *)
Theorem C07_step :
  forall (E D : list N -> list N -> list N) apps st f rx n now r,
    (forall k b, length (E k b) = 16%nat) ->
    ds_row st = Some r -> fb_down st -> valid_datr rx ->
    uplink_summary E st r f (l_uplink E D apps st f rx n now).
Proof. intros E D apps st f rx n now r HE. now apply l_uplink_summary. Qed.

(* Every history of uplinks and submissions of one device within a session: the counters the
   emitted downlinks carry (data, retransmissions, acknowledgement-only frames alike) are
   strictly increasing until 65535 is reached, hence pairwise distinct per session key. *)
Theorem C07_seq :
  forall (E D : list N -> list N -> list N) apps evs st r,
    (forall k b, length (E k b) = 16%nat) ->
    ds_row st = Some r -> fb_down st -> Forall ev_ok evs ->
    let '(_, _, num) := run E D apps st evs in
    Forall (fun a => (a < 65535)%N) num -> Forall (fun a => (d_fdn r <= a)%N) num /\ StronglySorted N.lt num.
Proof.
  intros E D apps evs st r HE Hr Hfb Hok. pose proof (session_counters E D HE apps evs st r Hr Hfb Hok) as H.
  destruct (run E D apps st evs) as [[stf rec] num]. exact (proj2 H).
Qed.

Print Assumptions C07_step.
Print Assumptions C07_seq.
