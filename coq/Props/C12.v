(* C12 — PHY data-frame codec follows LoRaWAN framing. Statements only. *)
From Lospan Require Import Base.Bytes Base.Outcome Model.FrameTypes Gen.Consts Model.MacCmd Model.Frame
  Spec.MacLayout Spec.LoRaFrame Proof.FrameProof Proof.FrameSpecProof.

(* Whenever the library accepts a data frame, every field it reports is the one the
   specification reads from the same bytes: type, major, DevAddr, each FCtrl flag
   (pending = class B), FCnt, the commands in exactly FOptsLen option bytes (last
   one wins, CID order), port, FRMPayload for application ports (for port 0 a
   suffix of the payload), MIC. For every byte string and every spare capacity. *)
Theorem C12_decode_follows_spec :
  forall v spare f, bytes_ok v = true -> decode (mk_slice v spare) = Ok f -> is_data_mtype (mtype f) = true ->
  exists g, spec_decode v = Some g /\ agrees_with_spec f g.
Proof. exact decode_follows_spec. Qed.

(* Decoding never depends on (reads or retains) bytes outside the supplied slice. *)
Theorem C12_memory_independence :
  forall v spare, decode (mk_slice v spare) = decode (mk_slice v []).
Proof. intros v spare. exact (proj2 (decode_total_indep v spare)). Qed.

(* Frames with an unsupported major version or message type are rejected with an error. *)
Theorem C12_rejects_unsupported :
  forall v spare, bytes_ok v = true -> 12 <= length v ->
  (nth 0 v 0 mod 4 <> 0 \/ nth 0 v 0 / 32 = 6 \/ nth 0 v 0 / 32 = 7)%N ->
  exists e, decode (mk_slice v spare) = Err e.
Proof. exact decode_rejects_unsupported. Qed.

(* Conversely every data frame of major version 0 that the specification can read is accepted. *)
Theorem C12_accepts_conformant :
  forall v spare g, bytes_ok v = true -> spec_decode v = Some g -> s_is_data g = true -> s_major g = 0%N ->
  exists f, decode (mk_slice v spare) = Ok f /\ agrees_with_spec f g.
Proof. exact decode_accepts_conformant. Qed.

(* non-vacuity: a confirmed uplink with two FOpts commands, port 10, payload de ad be ef *)
Example C12_example :
  exists f, decode (mk_slice [128; 4; 3; 2; 1; 131; 7; 0; 2; 3; 5; 10; 222; 173; 190; 239; 1; 2; 3; 4]%N [238; 238]%N) = Ok f
            /\ fport f = 10%N /\ frm f = [222; 173; 190; 239]%N /\ length (cs_cmds (fopts f)) = 2.
Proof. eexists. vm_compute. repeat split; reflexivity. Qed.

From Lospan Require Import Proof.MacSetProof Proof.FrameEncodeProof.
Open Scope N_scope.
(* Encode direction. Every data frame the encoder accepts is laid out exactly as section 4 of the specification
   prescribes - MHDR = type*32 + major, the 32-bit address and the 16-bit counter little endian, FCtrl = the
   flags (pending and class B are one bit) plus the number of option bytes written, the option bytes, then
   nothing / the port and the payload / port 0 and the MAC commands, then the MIC little endian ... *)
Theorem C12_encode_layout :
  forall f bs, frame_wf f -> encode f = Ok bs ->
  exists fo body, set_encode buffer_size 8 (fopts f) = Ok fo /\ (length fo <= 15)%nat /\ body_of f body /\
    bs = spec_layout (mtype f) (major f) (nwkid (f_devaddr f) * 33554432 + nwkaddr (f_devaddr f))
           (adr (fc f)) (adrackreq (fc f)) (ack (fc f)) (fpending (fc f) || classb (fc f)) (fcnt f) fo body (mic f).
Proof. exact encode_is_the_specified_layout. Qed.
(* ... and the specification's reader recovers every field from that layout, so (C12_accepts_conformant) the
   library's own decoder accepts what the encoder wrote and reports the same values. *)
Theorem C12_layout_reads_back :
  forall mt mj addr a b c d cnt fo body m,
  mt < 8 -> mj < 4 -> addr < 4294967296 -> cnt < 65536 -> m < 4294967296 -> (length fo <= 15)%nat ->
  spec_decode (spec_layout mt mj addr a b c d cnt fo body m)
  = Some {| s_mtype := mt; s_major := mj; s_addr := addr;
            s_fctrl := b2n a * 128 + b2n b * 64 + b2n c * 32 + b2n d * 16 + N.of_nat (length fo);
            s_fcnt := cnt; s_fopts := fo; s_port := hd_error body; s_payload := tl body; s_mic := m |}.
Proof. exact spec_reads_the_layout. Qed.

Print Assumptions C12_decode_follows_spec.
Print Assumptions C12_memory_independence.
Print Assumptions C12_rejects_unsupported.
Print Assumptions C12_accepts_conformant.
Print Assumptions C12_encode_layout.
Print Assumptions C12_layout_reads_back.
