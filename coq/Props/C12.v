(* C12 — PHY data-frame codec follows LoRaWAN framing. Statements only. *)
From Lospan Require Import Base.Bytes Base.Outcome Model.FrameTypes Gen.Consts Model.MacCmd Model.Frame
  Spec.MacLayout Spec.LoRaFrame Proof.FrameProof Proof.FrameSpecProof.

(* Whenever the library accepts a data frame, every field it reports is the one the
   specification reads from the same bytes: type, major, DevAddr, each FCtrl flag
   (pending = class B), FCnt, the commands in exactly FOptsLen option bytes (last
   one wins, CID order), port, FRMPayload for application ports (for port 0 a
   suffix of the payload), MIC. For every byte string and every spare capacity. *)
Theorem C12_decode_follows_spec :
  forall v spare f, bytes_ok v = true -> decode (mk_slice v spare) = Ok f -> is_data_mtype (mtype f) = true ->
  exists g, spec_decode v = Some g /\ agrees_with_spec f g.
Proof. exact decode_follows_spec. Qed.

(* Decoding never depends on (reads or retains) bytes outside the supplied slice. *)
Theorem C12_memory_independence :
  forall v spare, decode (mk_slice v spare) = decode (mk_slice v []).
Proof. intros v spare. exact (proj2 (decode_total_indep v spare)). Qed.

(* Frames with an unsupported major version or message type are rejected with an error. *)
Theorem C12_rejects_unsupported :
  forall v spare, bytes_ok v = true -> 12 <= length v ->
  (nth 0 v 0 mod 4 <> 0 \/ nth 0 v 0 / 32 = 6 \/ nth 0 v 0 / 32 = 7)%N ->
  exists e, decode (mk_slice v spare) = Err e.
Proof. exact decode_rejects_unsupported. Qed.

(* Conversely every data frame of major version 0 that the specification can read is accepted. *)
Theorem C12_accepts_conformant :
  forall v spare g, bytes_ok v = true -> spec_decode v = Some g -> s_is_data g = true -> s_major g = 0%N ->
  exists f, decode (mk_slice v spare) = Ok f /\ agrees_with_spec f g.
Proof. exact decode_accepts_conformant. Qed.

(* non-vacuity: a confirmed uplink with two FOpts commands, port 10, payload de ad be ef *)
Example C12_example :
  exists f, decode (mk_slice [128; 4; 3; 2; 1; 131; 7; 0; 2; 3; 5; 10; 222; 173; 190; 239; 1; 2; 3; 4]%N [238; 238]%N) = Ok f
            /\ fport f = 10%N /\ frm f = [222; 173; 190; 239]%N /\ length (cs_cmds (fopts f)) = 2.
Proof. eexists. vm_compute. repeat split; reflexivity. Qed.

Print Assumptions C12_decode_follows_spec.
Print Assumptions C12_memory_independence.
Print Assumptions C12_rejects_unsupported.
Print Assumptions C12_accepts_conformant.
