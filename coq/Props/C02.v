(* C02 — uplink payloads reach the application exactly; crypto per LoRaWAN 1.0. Statements only. *)
From Coq Require Import String.
From Lospan Require Import Base.Bytes Base.Outcome Model.FrameTypes Model.Crypto Model.Frame Model.Store Model.Server
  Spec.LoRaFrame Spec.RefDevice Proof.FrameSpecProof Proof.ServerProof Proof.LocalProof Proof.QueueProof.

(* (1) every conformant data frame (any address incl. top bit set, any counter, flags, FOpts of
   known/unknown/repeated/truncated commands, port, payload) is accepted by the decoder with the
   fields the specification defines - theorem C12_accepts_conformant, restated. *)
Theorem C02_decoder_accepts :
  forall v spare g, bytes_ok v = true -> spec_decode v = Some g -> s_is_data g = true -> s_major g = 0%N ->
  exists f, decode (mk_slice v spare) = Ok f /\ agrees_with_spec f g.
Proof. exact decode_accepts_conformant. Qed.

(* (2) the MIC the server checks is the one of section 4.4 (B0 | msg under RFC 4493). *)
Theorem C02_mic_is_spec :
  forall (E : list N -> list N -> list N),
    (forall k b, length (E k b) = 16%nat /\ bytes_ok (E k b) = true) ->
    forall key up addr fcnt msg, (length msg < 256)%nat ->
      data_mic E key up addr fcnt msg = le_val (ref_mic E key (if up then 0 else 1)%N addr fcnt msg).
Proof. intros E. exact (data_mic_is_spec E E). Qed.

(* (3) what the server decrypts from the FRMPayload a conformant device built (counter-mode
   keystream A_i/S_i of 4.3.3.1) is exactly the device's plaintext, for every key, address,
   counter and every length 0..242. *)
Theorem C02_plaintext :
  forall (E : list N -> list N -> list N),
    (forall k b, length (E k b) = 16%nat) ->
    forall key addr fcnt p, (length p <= 242)%nat ->
      payload_crypt E key true addr fcnt (ref_crypt E key 0 addr fcnt p) = p.
Proof. exact uplink_plaintext_recovered. Qed.

(* (4) an uplink that passed the MIC and counter checks is recorded once, attributed to the device,
   with the decrypted payload, the gateway EUI and the radio metadata of the reception, and the
   same is published to the device's application. *)
Theorem C02_delivered :
  forall (E D : list N -> list N -> list N) apps st f rx n now r,
    ds_row st = Some r -> stale r f = false ->
    (forall x, In x (ds_inbox st) -> u_ts x <> rx_ts rx) -> has_app apps (d_appeui r) = true ->
    let plain := frm (frame_crypt E (d_nwkskey r) (d_appskey r) f) in
    let res := l_uplink E D apps st f rx n now in
    ds_inbox (fst res) = ds_inbox st ++ [{| u_eui := d_eui r; u_ts := rx_ts rx; u_data := plain; u_gweui := g_eui (rx_gw rx);
                                             u_radio := rx_radio rx; u_addr := d_addr r |}] /\
    In (OPub {| pb_app := d_appeui r; pb_eui := d_eui r; pb_payload := plain; pb_gw := g_eui (rx_gw rx); pb_radio := rx_radio rx |}) (snd res).
Proof. exact uplink_delivered. Qed.

From Lospan Require Import Base.Outcome Spec.RefDevice Proof.AnswerProof Proof.DownlinkSpecProof.
(* "Frames the library itself encodes follow the specification": every data downlink the encoder produces from a
   buffer read (any type, flags, counter, port and payload up to the EU868 limit, any session keys, any block cipher
   returning 16 octets) is accepted by the reference LoRaWAN 1.0 end device of Spec/RefDevice.v - written from the
   specification over the bytes on the air, using RFC 4493 only - which recovers exactly the type, the ACK flag, the
   counter, the port and the plaintext: header layout, direction bit, key choice, keystream and MIC all agree. *)
Theorem C02_downlink_follows_the_specification :
  forall (E D : list N -> list N -> list N),
    (forall k b, length (E k b) = 16%nat /\ bytes_ok (E k b) = true) ->
    forall nk ak dev p c buf,
      down_type (po_mtype p) -> (c < 65536)%N -> (d_addr dev < 4294967296)%N ->
      (po_frm p = [] \/ port_ok (po_port p)) -> (length (po_frm p) <= 230)%nat ->
      encode_message E nk ak (downlink_frame dev p c) = Ok buf ->
      ref_on_downlink E nk ak (d_addr dev) buf
      = Some (po_mtype p, po_ack p, c, match po_frm p with [] => None | _ => Some (po_port p) end, po_frm p).
Proof. exact downlink_is_read_by_the_reference_device. Qed.

Print Assumptions C02_decoder_accepts.
Print Assumptions C02_mic_is_spec.
Print Assumptions C02_plaintext.
Print Assumptions C02_delivered.
Print Assumptions C02_downlink_follows_the_specification.
