(* C09 — confirmed uplinks are acknowledged; at most one answer per uplink (quiescent histories). Statements only. *)
From Coq Require Import String.
From Lospan Require Import Base.Bytes Base.Outcome Model.FrameTypes Model.Frame Model.Store Model.Server
  Proof.ServerProof Proof.LocalProof.

(* every uplink - accepted or not - yields at most one downlink for the device; a stale (replayed,
   duplicate) frame of a strict device yields none and changes nothing *)
Theorem C09_at_most_one_answer :
  forall (E D : list N -> list N -> list N) apps st f rx n now r,
    (forall k b, length (E k b) = 16%nat) ->
    ds_row st = Some r -> fb_down st -> valid_datr rx ->
    uplink_summary E st r f (l_uplink E D apps st f rx n now).
Proof. intros E D apps st f rx n now r HE. now apply l_uplink_summary. Qed.

(* a frame that no device authenticates is never answered (C01) *)
Theorem C09_rejected_not_answered :
  forall (E D : list N -> list N -> list N),
    (forall k b, length (E k b) = 16%nat /\ bytes_ok (E k b) = true) ->
    forall s rx an na now,
      bytes_ok (rx_raw rx) = true -> (length (rx_raw rx) < 256)%nat ->
      (nth 0 (rx_raw rx) 0 / 32 <> 0)%N ->
      (forall dv, ~ authentic E s (rx_raw rx) dv) ->
      rx_event E D s rx an na now = (s, []).
Proof. exact no_effect_unless_authentic. Qed.

(* the ACK flag is consumed by the frame that carries it: after GetPHYPayloadForDevice the
   buffer entry's flag is clear, so it is not repeated on later downlinks *)
Theorem C09_ack_flag_cleared :
  forall st d st' p, l_get_phy st d = (st', GetOk p) ->
    match ds_fb st' with Some fd => fo_ack fd = false | None => True end.
Proof.
  intros st d st' p. unfold l_get_phy. destruct (ds_fb st) as [fd|]; [|discriminate].
  destruct (_ && _ && _); [discriminate|]. destruct (0 <? _)%nat.
  - destruct (max_payload d); [|discriminate]. destruct (_ <? _)%nat; intros [= <- _]; reflexivity.
  - intros [= <- _]. reflexivity.
Qed.

From Lospan Require Import Model.Steps Proof.SchedDataProof.
(* "Copies of one uplink received through several gateways produce a single answer": ANY number of handlers
   working at the same time on frames carrying one counter, EVERY schedule, strict-counter device: at most one
   downlink leaves (and the frame is recorded at most once, C03). *)
Theorem C09_concurrent_copies_one_answer :
  forall (E D : list N -> list N -> list N) apps c,
    (c < 65535)%N ->
    forall (copies : list (frame * rxpacket * nat * N)), Forall (fun x => fcnt (fst (fst (fst x))) = c) copies ->
    forall st r, ds_row st = Some r -> d_relaxed r = false -> fb_down st ->
    forall sched fuel,
      let res := interleaveN apps sched fuel st
                   (map (fun x => uplink_prog E D (fst (fst (fst x))) (snd (fst (fst x))) (snd (fst x)) (snd x)) copies) [] in
      (length (ds_inbox (fst res)) <= S (length (ds_inbox st)))%nat /\ (length (downs (snd res)) <= 1)%nat.
Proof. exact concurrent_copies_recorded_and_answered_once. Qed.
(* over a whole history of redeliveries of one frame (batches of concurrent copies, batch after batch): one answer at most *)
Theorem C09_redeliveries_answered_once_in_any_history :
  forall (E D : list N -> list N -> list N) apps c, (c < 65535)%N ->
  forall bs st r, Forall (cbatch_ok c) bs -> ds_row st = Some r -> d_relaxed r = false -> fb_down st ->
    (length (ds_inbox (fst (crun E D apps st bs))) <= S (length (ds_inbox st)))%nat /\
    (length (downs (snd (crun E D apps st bs))) <= 1)%nat.
Proof. exact copies_history. Qed.
Theorem C09_two_copies_one_answer :
  forall (E D : list N -> list N -> list N) apps f1 rx1 n1 now1 f2 rx2 n2 now2,
    (fcnt f1 < 65535)%N -> fcnt f2 = fcnt f1 ->
    forall st r, ds_row st = Some r -> d_relaxed r = false -> fb_down st ->
    forall sched fuel,
      let res := interleave apps sched fuel st (uplink_prog E D f1 rx1 n1 now1) (uplink_prog E D f2 rx2 n2 now2) [] in
      (length (ds_inbox (fst res)) <= S (length (ds_inbox st)))%nat /\ (length (downs (snd res)) <= 1)%nat.
Proof. exact two_copies_recorded_and_answered_once. Qed.


From Lospan Require Import Proof.AnswerProof.
(* Existence ("every accepted confirmed uplink is answered by exactly one downlink with the ACK flag set, even when
   there is nothing else to send"): for every state with a data-typed buffer entry in which what is queued can be
   sent (ports 1..223, as the service accepts), every confirmed frame that passes the counter check, from a device
   of a registered application, received with a valid data rate at a fresh receive time: exactly one downlink
   leaves, its FCtrl has the ACK bit (bit 5 of byte 5 of the raw frame) set, and it is addressed to the device. *)
Theorem C09_confirmed_uplink_is_acknowledged :
  forall (E D : list N -> list N -> list N), (forall k b, length (E k b) = 16%nat) ->
  forall apps st f rx n now r,
    ds_row st = Some r -> fb_down st -> valid_datr rx -> sendable st ->
    mtype f = ConfirmedDataUp -> stale r f = false ->
    (forall x, In x (ds_inbox st) -> u_ts x <> rx_ts rx) -> has_app apps (d_appeui r) = true ->
    exists dl, downs (snd (l_uplink E D apps st f rx n now)) = [dl] /\ N.testbit (nth 5 (dl_raw dl) 0) 5 = true /\ dl_eui dl = d_eui r.
Proof. exact confirmed_uplink_is_acknowledged. Qed.
(* "what is queued can be sent" holds in every state reached by uplinks and by submissions on sendable ports *)
Theorem C09_sendable_in_every_history :
  forall (E D : list N -> list N -> list N) apps evs st,
    sendable st -> Forall ev_sendable evs -> sendable (fst (fst (run E D apps st evs))).
Proof. exact sendable_history. Qed.

Print Assumptions C09_at_most_one_answer.
Print Assumptions C09_rejected_not_answered.
Print Assumptions C09_ack_flag_cleared.
Print Assumptions C09_concurrent_copies_one_answer.
Print Assumptions C09_two_copies_one_answer.
Print Assumptions C09_confirmed_uplink_is_acknowledged.
Print Assumptions C09_sendable_in_every_history.
Print Assumptions C09_redeliveries_answered_once_in_any_history.
