(* C09 — confirmed uplinks are acknowledged; at most one answer per uplink (quiescent histories). Statements only. *)
From Coq Require Import String.
From Lospan Require Import Base.Bytes Base.Outcome Model.FrameTypes Model.Frame Model.Store Model.Server
  Proof.ServerProof Proof.LocalProof.

(* every uplink - accepted or not - yields at most one downlink for the device; a stale (replayed,
   duplicate) frame of a strict device yields none and changes nothing *)
Theorem C09_at_most_one_answer :
  forall (E D : list N -> list N -> list N) apps st f rx n now r,
    (forall k b, length (E k b) = 16%nat) ->
    ds_row st = Some r -> fb_down st -> valid_datr rx ->
    uplink_summary E st r f (l_uplink E D apps st f rx n now).
Proof. intros E D apps st f rx n now r HE. now apply l_uplink_summary. Qed.

(* a frame that no device authenticates is never answered (C01) *)
Theorem C09_rejected_not_answered :
  forall (E D : list N -> list N -> list N),
    (forall k b, length (E k b) = 16%nat /\ bytes_ok (E k b) = true) ->
    forall s rx an na now,
      bytes_ok (rx_raw rx) = true -> (length (rx_raw rx) < 256)%nat ->
      (nth 0 (rx_raw rx) 0 / 32 <> 0)%N ->
      (forall dv, ~ authentic E s (rx_raw rx) dv) ->
      rx_event E D s rx an na now = (s, []).
Proof. exact no_effect_unless_authentic. Qed.

(* the ACK flag is consumed by the frame that carries it: after GetPHYPayloadForDevice the
   buffer entry's flag is clear, so it is not repeated on later downlinks *)
Theorem C09_ack_flag_cleared :
  forall st d st' p, l_get_phy st d = (st', GetOk p) ->
    match ds_fb st' with Some fd => fo_ack fd = false | None => True end.
Proof.
  intros st d st' p. unfold l_get_phy. destruct (ds_fb st) as [fd|]; [|discriminate].
  destruct (_ && _ && _); [discriminate|]. destruct (0 <? _)%nat.
  - destruct (max_payload d); [|discriminate]. destruct (_ <? _)%nat; intros [= <- _]; reflexivity.
  - intros [= <- _]. reflexivity.
Qed.

From Lospan Require Import Model.Steps Proof.SchedDataProof.
(* "Copies of one uplink received through several gateways produce a single answer": ANY number of handlers
   working at the same time on frames carrying one counter, EVERY schedule, strict-counter device: at most one
   downlink leaves (and the frame is recorded at most once, C03). *)
Theorem C09_concurrent_copies_one_answer :
  forall (E D : list N -> list N -> list N) apps c,
    (c < 65535)%N ->
    forall (copies : list (frame * rxpacket * nat * N)), Forall (fun x => fcnt (fst (fst (fst x))) = c) copies ->
    forall st r, ds_row st = Some r -> d_relaxed r = false -> fb_down st ->
    forall sched fuel,
      let res := interleaveN apps sched fuel st
                   (map (fun x => uplink_prog E D (fst (fst (fst x))) (snd (fst (fst x))) (snd (fst x)) (snd x)) copies) [] in
      (length (ds_inbox (fst res)) <= S (length (ds_inbox st)))%nat /\ (length (downs (snd res)) <= 1)%nat.
Proof. exact concurrent_copies_recorded_and_answered_once. Qed.
Theorem C09_two_copies_one_answer :
  forall (E D : list N -> list N -> list N) apps f1 rx1 n1 now1 f2 rx2 n2 now2,
    (fcnt f1 < 65535)%N -> fcnt f2 = fcnt f1 ->
    forall st r, ds_row st = Some r -> d_relaxed r = false -> fb_down st ->
    forall sched fuel,
      let res := interleave apps sched fuel st (uplink_prog E D f1 rx1 n1 now1) (uplink_prog E D f2 rx2 n2 now2) [] in
      (length (ds_inbox (fst res)) <= S (length (ds_inbox st)))%nat /\ (length (downs (snd res)) <= 1)%nat.
Proof. exact two_copies_recorded_and_answered_once. Qed.


Print Assumptions C09_at_most_one_answer.
Print Assumptions C09_rejected_not_answered.
Print Assumptions C09_ack_flag_cleared.
Print Assumptions C09_concurrent_copies_one_answer.
Print Assumptions C09_two_copies_one_answer.
