(* C13 — All 22 MAC commands encode to their specified layout and round-trip;
   command-set invariants. Statements only. *)
From Lospan Require Import Base.Bytes Base.Outcome Model.FrameTypes Gen.Consts Model.MacCmd Spec.MacLayout
  Proof.MacCmdProof Proof.MacSetProof.
From Coq Require Import Sorted.

(* The generated table (factory switch arms, Length() literals, macBase literals of
   the Go source as it is now) agrees with the 22 specified layouts: same commands,
   Length() = 1 + payload size, id and direction as specified. *)
Theorem C13_tables_agree : tables_agree = true.
Proof. exact tables_agree_ok. Qed.

(* For every command and all values that fit its fields (layout_payload is defined
   exactly then): the command occupies its declared length, and encode writes the CID
   followed by exactly the specified payload, into every buffer with more than
   Length() bytes left (an error, and nothing else, otherwise). *)
Theorem C13_layout_and_length :
  forall up cid vs p buflen pos,
    layout_payload up cid vs = Some p ->
    let c := {| c_up := up; c_cid := cid; c_fields := vs |} in
    cmd_len c = S (length p) /\
    cmd_encode buflen pos c = if (pos + cmd_len c <? buflen)%nat then Ok (cid :: p) else Err ErrBufferTruncated.
Proof. exact cmd_encode_spec. Qed.

(* Decoding what was encoded, followed by arbitrary bytes, returns the same field values. *)
Theorem C13_roundtrip :
  forall up cid vs p rest buflen pos z,
    layout_payload up cid vs = Some p -> new_cmd up cid = Some z ->
    cmd_decode buflen pos z (cid :: p ++ rest) =
      if (pos + S (length p) <? buflen)%nat then Ok {| c_up := up; c_cid := cid; c_fields := vs |}
      else Err ErrBufferTruncated.
Proof. exact cmd_roundtrip. Qed.

(* Any sequence of Add calls on a new set (any message type, any limit): the commands
   are strictly sorted by CID, all of the set's direction, and their encoded length
   never exceeds the limit. *)
Theorem C13_set_invariant :
  forall msg max (cs : list cmd),
    let s := fold_left (fun s c => fst (set_add s c)) cs (new_set msg max) in
    StronglySorted cid_lt (cs_cmds s) /\
    Forall (fun c => c_up c = mtype_uplink (cs_msg s)) (cs_cmds s) /\
    (Z.of_nat (set_encoded_length s) <= Z.max 0 (cs_max s))%Z.
Proof. exact set_adds_inv. Qed.

(* The set writes exactly as many bytes as it reports. *)
Theorem C13_set_encoded_length :
  forall buflen l pos bs,
    Forall shape_ok l -> cmds_encode buflen pos l = Ok bs -> length bs = cmds_len l.
Proof. exact set_encode_length. Qed.

(* non-vacuity: LinkADRReq DR=10 TXP=11 mask=0x1234 red=0x56 is 03 ab 34 12 56 *)
Example C13_linkadrreq :
  layout_payload false 3 [10; 11; 4660; 86]%N = Some [171; 52; 18; 86]%N.
Proof. vm_compute. reflexivity. Qed.

Print Assumptions C13_tables_agree.
Print Assumptions C13_layout_and_length.
Print Assumptions C13_roundtrip.
Print Assumptions C13_set_invariant.
Print Assumptions C13_set_encoded_length.
