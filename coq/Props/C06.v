(* C06 — queued downlink messages are delivered faithfully, in order, to their device. Statements only. *)
From Coq Require Import String Sorted.
From Lospan Require Import Base.Bytes Base.Outcome Model.FrameTypes Model.Frame Model.Store Model.Server
  Proof.ServerProof Proof.LocalProof Proof.QueueProof.

(* oldest first: the message loaded for transmission is an unsent message of THIS device's queue
   and no unsent message of the device is older *)
Theorem C06_oldest_first :
  forall st m, l_get_next_unsent st = Some m ->
    In m (ds_outbox st) /\ m_sent m = 0%N /\
    forall m', In m' (ds_outbox st) -> m_sent m' = 0%N -> (m_created m <= m_created m')%N.
Proof. exact next_unsent_is_oldest. Qed.

(* the loaded frame carries the queued port and bytes and is typed Confirmed exactly when
   acknowledgement was requested *)
Theorem C06_loaded_entry :
  forall st m, exists fd, ds_fb (l_set_payload st (m_data m) (m_port m) (m_ack m)) = Some fd /\
    fo_payload fd = m_data m /\ fo_port fd = m_port m /\
    fo_mtype fd = (if m_ack m then ConfirmedDataDown else UnconfirmedDataDown).
Proof. exact set_payload_entry. Qed.

(* at most one frame per uplink; it is addressed to the device, numbered with its downlink
   counter and encoded (encrypted, MIC'd) under the device's own session keys *)
Theorem C06_one_frame_per_uplink :
  forall (E D : list N -> list N -> list N) apps st f rx n now r,
    (forall k b, length (E k b) = 16%nat) ->
    ds_row st = Some r -> fb_down st -> valid_datr rx ->
    uplink_summary E st r f (l_uplink E D apps st f rx n now).
Proof. intros E D apps st f rx n now r HE. now apply l_uplink_summary. Qed.

(* no device ever receives data queued for another: an uplink touches, and emits for, only the
   devices whose key verified it (each handler works on its own device's queue and buffer entry) *)
Theorem C06_isolation :
  forall (E D : list N -> list N -> list N) s f rx now e,
    (forall dv, In dv (filter (mic_ok E f (rx_raw rx)) (dt_by_devaddr (s_tab s) (devaddr_u32 (f_devaddr f)))) -> d_eui dv <> e) ->
    dt_get (s_tab (fst (uplink_data E D s f rx now))) e = dt_get (s_tab s) e /\
    Forall (fun o => out_eui o <> e) (snd (uplink_data E D s f rx now)).
Proof. exact uplink_isolation. Qed.

From Lospan Require Import Proof.LifecycleProof.
(* the queue after one uplink, whatever the frame: untouched, or the ACK / reset rewrite of the stored statuses
   followed by "sent" marks - nothing is removed, reordered or has its port, bytes or acknowledgement request
   changed, over whole histories (C08_history_status) *)
Theorem C06_queue_after_uplink :
  forall (E D : list N -> list N -> list N) apps st f rx n now,
    exists l, ds_outbox (fst (l_uplink E D apps st f rx n now)) = marks now l (ds_outbox st) \/
              ds_outbox (fst (l_uplink E D apps st f rx n now))
              = marks now l (if ack (fc f) then ack_rows (fcnt f) now (ds_outbox st) else reset_rows (ds_outbox st)).
Proof. exact outbox_after_uplink. Qed.

From Lospan Require Import Base.Outcome Spec.RefDevice Proof.AnswerProof Proof.DownlinkSpecProof.
(* "Delivered faithfully": what the device decrypts from the frame is, byte for byte, the payload chunk and the port
   the buffer handed to the encoder (C06_loaded_entry: the queued message's), under the device's own session keys. *)
Theorem C06_delivered_bytes_are_the_queued_bytes :
  forall (E D : list N -> list N -> list N),
    (forall k b, length (E k b) = 16%nat /\ bytes_ok (E k b) = true) ->
    forall nk ak dev p c buf,
      down_type (po_mtype p) -> (c < 65536)%N -> (d_addr dev < 4294967296)%N ->
      (po_frm p = [] \/ port_ok (po_port p)) -> (length (po_frm p) <= 230)%nat ->
      encode_message E nk ak (downlink_frame dev p c) = Ok buf ->
      ref_on_downlink E nk ak (d_addr dev) buf
      = Some (po_mtype p, po_ack p, c, match po_frm p with [] => None | _ => Some (po_port p) end, po_frm p).
Proof. exact downlink_is_read_by_the_reference_device. Qed.

From Lospan Require Import Base.Outcome Spec.RefDevice Proof.AnswerProof Proof.DeliveryProof.
(* Existence and content. Any accepted uplink (confirmed or not, with or without the ACK bit) of a device of a
   registered application, at a valid data rate and a fresh receive time, when the queue - after that uplink's ACK
   bookkeeping - has an unsent message m with payload: exactly one downlink leaves, addressed to the device, and a
   conformant device holding the session keys reads from it: confirmed/unconfirmed as m asks, the pending ACK flag,
   the stored downlink counter, m's port and the first frame-sized chunk of m's bytes. (m is the oldest unsent:
   C06_oldest_first.) *)
Theorem C06_oldest_message_is_delivered :
  forall (E D : list N -> list N -> list N),
    (forall k b, length (E k b) = 16%nat /\ bytes_ok (E k b) = true) ->
    forall apps st f rx n now r m,
      ds_row st = Some r -> fb_down st -> valid_datr rx -> sendable st -> stale r f = false ->
      (forall x, In x (ds_inbox st) -> u_ts x <> rx_ts rx) -> has_app apps (d_appeui r) = true ->
      (d_addr r < 4294967296)%N -> (d_fdn r < 65536)%N ->
      l_get_next_unsent (booked st f now) = Some m -> m_data m <> [] ->
      exists dl, downs (snd (l_uplink E D apps st f rx n now)) = [dl] /\ dl_eui dl = d_eui r /\
        ref_on_downlink E (d_nwkskey r) (d_appskey r) (d_addr r) (dl_raw dl)
        = Some ((if m_ack m then ConfirmedDataDown else UnconfirmedDataDown), ack_pending st f, d_fdn r, Some (m_port m),
                chunk (r_datr (rx_radio rx)) (m_data m)).
Proof. exact queued_message_is_transmitted. Qed.

From Lospan Require Import Model.Steps Proof.CommuteProof.
(* isolation under concurrency: atomic operations performed for different devices commute (same answers, same
   emissions, same state of every device in either order), so interleavings of handlers of different devices reduce to
   the per-device runs the other theorems speak about *)
Theorem C06_operations_of_different_devices_commute :
  forall apps t e1 e2 o1 o2, e1 <> e2 ->
    let a := gexec apps t e1 o1 in let ab := gexec apps (fst (fst a)) e2 o2 in
    let b := gexec apps t e2 o2 in let ba := gexec apps (fst (fst b)) e1 o1 in
    snd (fst a) = snd (fst ba) /\ snd a = snd ba /\ snd (fst ab) = snd (fst b) /\ snd ab = snd b /\
    forall e, dt_get (fst (fst ab)) e = dt_get (fst (fst ba)) e.
Proof. exact operations_of_different_devices_commute. Qed.

Print Assumptions C06_oldest_first.
Print Assumptions C06_loaded_entry.
Print Assumptions C06_one_frame_per_uplink.
Print Assumptions C06_isolation.
Print Assumptions C06_queue_after_uplink.
Print Assumptions C06_delivered_bytes_are_the_queued_bytes.
Print Assumptions C06_oldest_message_is_delivered.
Print Assumptions C06_operations_of_different_devices_commute.
