(* C08 — confirmed downlinks: acknowledged only by an ACK, retransmitted until then. Statements only. *)
From Coq Require Import String.
From Lospan Require Import Base.Bytes Model.FrameTypes Model.Store Model.Server Proof.QueueProof.

(* a message is marked acknowledged only if it was sent, is not yet acknowledged, and the counter
   recorded at its transmission is the ACK-carrying uplink's counter *)
Theorem C08_ack_only_after_transmission :
  forall st fc now m', In m' (ds_outbox (l_update_ack_time st fc now)) ->
    In m' (ds_outbox st) \/
    exists m, In m (ds_outbox st) /\ (0 < m_sent m)%N /\ m_acktime m = 0%N /\ m_fcntup m = fc /\
              m' = set_times m (m_sent m) now (m_fcntup m).
Proof. exact ack_time_only_sent. Qed.

(* an accepted uplink without the ACK flag un-sends exactly the confirmed, sent, unacknowledged messages ... *)
Theorem C08_reset_only_confirmed :
  forall st m', In m' (ds_outbox (l_reset_active_acks st)) ->
    In m' (ds_outbox st) \/
    exists m, In m (ds_outbox st) /\ (0 < m_sent m)%N /\ m_acktime m = 0%N /\ m_ack m = true /\
              m' = set_times m 0 (m_acktime m) 0.
Proof. exact reset_only_confirmed. Qed.
(* ... every one of them ... *)
Theorem C08_retransmit_requeued :
  forall st m, In m (ds_outbox st) -> (0 < m_sent m)%N -> m_acktime m = 0%N -> m_ack m = true ->
    In (set_times m 0 (m_acktime m) 0) (ds_outbox (l_reset_active_acks st)).
Proof. exact reset_requeues. Qed.
(* ... and the next transmission takes the oldest unsent message, so a re-queued confirmed message
   goes out ahead of any later one; an unconfirmed message, once sent, is never unsent again
   (C08_reset_only_confirmed) and so is transmitted at most once. *)
Theorem C08_oldest_unsent_next :
  forall st m, l_get_next_unsent st = Some m ->
    In m (ds_outbox st) /\ m_sent m = 0%N /\
    forall m', In m' (ds_outbox st) -> m_sent m' = 0%N -> (m_created m <= m_created m')%N.
Proof. exact next_unsent_is_oldest. Qed.

From Lospan Require Import Model.Frame Proof.LocalProof Proof.LifecycleProof.
(* ---- whole histories ---- *)
(* For EVERY sequence of uplinks (accepted or not, with or without the ACK flag, any counters) and submissions:
   every message of the queue keeps its position and identity, an unconfirmed message that has been sent is
   never un-sent again (so it is loaded for transmission at most once: loading takes the oldest UNSENT message,
   C08_oldest_unsent_next), and an acknowledged message stays acknowledged; submissions only append. *)
Theorem C08_history_status :
  forall (E D : list N -> list N -> list N) apps evs, Forall positive_time evs -> forall st,
    exists later, evolves (ds_outbox st) (firstn (length (ds_outbox st)) (ds_outbox (final E D apps st evs))) /\
                  ds_outbox (final E D apps st evs) = firstn (length (ds_outbox st)) (ds_outbox (final E D apps st evs)) ++ later.
Proof. exact queue_history. Qed.
(* If, over a history, a message goes from unacknowledged to acknowledged, then the history contains an uplink
   carrying the ACK flag before which the message had been sent, was not yet acknowledged, and was waiting for
   exactly that uplink's counter. *)
Theorem C08_history_acknowledged_only_by_ack :
  forall (E D : list N -> list N -> list N) apps evs st i m m',
    nth_error (ds_outbox st) i = Some m -> nth_error (ds_outbox (final E D apps st evs)) i = Some m' ->
    m_acktime m = 0%N -> (0 < m_acktime m')%N ->
    exists evs1 f rx n now evs2 mi,
      evs = evs1 ++ LUp f rx n now :: evs2 /\ ack (fc f) = true /\
      nth_error (ds_outbox (final E D apps st evs1)) i = Some mi /\ (0 < m_sent mi)%N /\ m_acktime mi = 0%N /\ m_fcntup mi = fcnt f.
Proof. exact acknowledged_only_by_ack_uplink. Qed.

From Lospan Require Import Base.Outcome Spec.RefDevice Proof.AnswerProof Proof.DeliveryProof.
(* "every accepted uplink without ACK causes it to be transmitted again": the reset (C08_reset_only_confirmed,
   C08_retransmit_requeued) makes the unacknowledged confirmed message unsent, the oldest unsent is loaded
   (C08_oldest_unsent_next), and - this theorem - what is loaded does leave, as exactly one downlink that a conformant
   device reads as that message (confirmed, its port, its bytes), numbered with the stored downlink counter. *)
Theorem C08_unacknowledged_message_leaves_again :
  forall (E D : list N -> list N -> list N),
    (forall k b, length (E k b) = 16%nat /\ bytes_ok (E k b) = true) ->
    forall apps st f rx n now r m,
      ds_row st = Some r -> fb_down st -> valid_datr rx -> sendable st -> stale r f = false ->
      (forall x, In x (ds_inbox st) -> u_ts x <> rx_ts rx) -> has_app apps (d_appeui r) = true ->
      (d_addr r < 4294967296)%N -> (d_fdn r < 65536)%N ->
      l_get_next_unsent (booked st f now) = Some m -> m_data m <> [] ->
      exists dl, downs (snd (l_uplink E D apps st f rx n now)) = [dl] /\ dl_eui dl = d_eui r /\
        ref_on_downlink E (d_nwkskey r) (d_appskey r) (d_addr r) (dl_raw dl)
        = Some ((if m_ack m then ConfirmedDataDown else UnconfirmedDataDown), ack_pending st f, d_fdn r, Some (m_port m),
                chunk (r_datr (rx_radio rx)) (m_data m)).
Proof. exact queued_message_is_transmitted. Qed.

Print Assumptions C08_ack_only_after_transmission.
Print Assumptions C08_reset_only_confirmed.
Print Assumptions C08_retransmit_requeued.
Print Assumptions C08_oldest_unsent_next.
Print Assumptions C08_history_status.
Print Assumptions C08_history_acknowledged_only_by_ack.
Print Assumptions C08_unacknowledged_message_leaves_again.
