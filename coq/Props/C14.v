(* C14 — AES-CMAC equals RFC 4493 for every input and is pure; the frame
   cipher is an involution that leaves every other field untouched.
   Nothing but the statements, closed by the lemma that proves them. *)
From Lospan Require Import Base.Bytes Model.CMAC Model.FrameTypes Model.Crypto Spec.RFC4493
  Proof.CMACProof Proof.CryptoProof.

(* For every block cipher E producing 16-byte blocks, every key, every
   message of any length, presented with any spare capacity behind it. *)
Theorem C14_rfc :
  forall (E : list N -> list N -> list N),
    (forall k b, length (E k b) = 16%nat /\ bytes_ok (E k b) = true) ->
    forall key vis spare, fst (aescmac E key vis spare) = rfc4493 E key vis.
Proof. exact cmac_is_rfc. Qed.

(* The bytes between len and cap of the caller's array are unchanged. *)
Theorem C14_pure :
  forall (E : list N -> list N -> list N) key vis spare, snd (aescmac E key vis spare) = spare.
Proof. exact cmac_pure. Qed.

Theorem C14_involution :
  forall (E : list N -> list N -> list N),
    (forall k b, length (E k b) = 16%nat) ->
    forall nk ak f, frame_crypt E nk ak (frame_crypt E nk ak f) = f.
Proof. exact frame_crypt_involution. Qed.

Theorem C14_only_payload :
  forall (E : list N -> list N -> list N) nk ak f,
    set_frm (frame_crypt E nk ak f) (frm f) = f.
Proof. exact frame_crypt_only_frm. Qed.

Print Assumptions C14_rfc.
Print Assumptions C14_pure.
Print Assumptions C14_involution.
Print Assumptions C14_only_payload.
