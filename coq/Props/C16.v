(* C16 — only registered gateways (and, if strict, only from their IP) are served. Statements only. *)
From Coq Require Import String.
From Lospan Require Import Base.Bytes Base.Outcome Gen.Consts Model.Gateway Proof.GatewayProof.

(* a PUSH_DATA that is not authorised is neither acknowledged nor forwarded and leaves no state behind *)
Theorem C16_unauthorised_no_effect :
  forall s d, gp_ident (dg_pkt d) = gw_PushData -> authorised s d = false -> gw_step s d = (s, [], []).
Proof. exact unauthorised_no_effect. Qed.

(* authorised = checks disabled, or the EUI is in the registry AS IT IS NOW and (not strict or the
   registered IP is the datagram's source host): registering, updating or deleting a gateway
   therefore takes effect for the very next datagram *)
Theorem C16_authorisation_rule :
  forall s d, authorised s d = true <->
    gs_nochecks s = true \/
    exists g, find_reg (gs_regs s) (gp_eui (dg_pkt d)) = Some g /\ (gr_strict g = false \/ gr_ip g = dg_host d).
Proof. exact authorised_spec. Qed.

(* no datagram other than PULL_DATA / PUSH_DATA has any effect *)
Theorem C16_other_datagrams_inert :
  forall s d, gp_ident (dg_pkt d) <> gw_PullData -> gp_ident (dg_pkt d) <> gw_PushData -> gw_step s d = (s, [], []).
Proof. exact other_idents_inert. Qed.

Print Assumptions C16_unauthorised_no_effect.
Print Assumptions C16_authorisation_rule.
Print Assumptions C16_other_datagrams_inert.
