(* C16 — only registered gateways (and, if strict, only from their IP) are served. Statements only. *)
From Coq Require Import String.
From Lospan Require Import Base.Bytes Base.Outcome Gen.Consts Model.Gateway Proof.GatewayProof.

(* a PUSH_DATA that is not authorised is neither acknowledged nor forwarded and leaves no state behind *)
Theorem C16_unauthorised_no_effect :
  forall s d, gp_ident (dg_pkt d) = gw_PushData -> authorised s d = false -> gw_step s d = (s, [], []).
Proof. exact unauthorised_no_effect. Qed.

(* authorised = checks disabled, or the EUI is in the registry AS IT IS NOW and (not strict or the
   registered IP is the datagram's source host): registering, updating or deleting a gateway
   therefore takes effect for the very next datagram *)
Theorem C16_authorisation_rule :
  forall s d, authorised s d = true <->
    gs_nochecks s = true \/
    exists g, find_reg (gs_regs s) (gp_eui (dg_pkt d)) = Some g /\ (gr_strict g = false \/ gr_ip g = dg_host d).
Proof. exact authorised_spec. Qed.

(* no datagram other than PULL_DATA / PUSH_DATA has any effect *)
Theorem C16_other_datagrams_inert :
  forall s d, gp_ident (dg_pkt d) <> gw_PullData -> gp_ident (dg_pkt d) <> gw_PushData -> gw_step s d = (s, [], []).
Proof. exact other_idents_inert. Qed.

(* "Registering, updating or deleting a gateway takes effect for the very next datagram": the loop keeps no state of its
   own about who may be served - what a datagram gets depends only on the checks switch and on the registration of the
   claimed EUI as it is at that moment. *)
Theorem C16_decision_depends_on_current_registration :
  forall s s' d,
    gs_nochecks s = gs_nochecks s' -> find_reg (gs_regs s) (gp_eui (dg_pkt d)) = find_reg (gs_regs s') (gp_eui (dg_pkt d)) ->
    snd (fst (gw_step s d)) = snd (fst (gw_step s' d)) /\ snd (gw_step s d) = snd (gw_step s' d).
Proof. exact decision_depends_on_current_registration. Qed.

Print Assumptions C16_unauthorised_no_effect.
Print Assumptions C16_authorisation_rule.
Print Assumptions C16_other_datagrams_inert.
Print Assumptions C16_decision_depends_on_current_registration.
