(* C18 — registry and message store return exactly what was accepted. Statements only. *)
From Lospan Require Import Base.Bytes Model.Codec Model.RegistryTypes Model.Registry Model.Api Spec.AbsRegistry
  Proof.CodecProof Proof.RegistryProof Proof.ApiProof Proof.RegistrySpecProof.
Open Scope N_scope.

(* ---- the textual encodings lose nothing, for ALL representable values ---- *)
Theorem C18_devaddr_text : forall a, a < 4294967296 -> devaddr_from_str (devaddr_str a) = Some a.
Proof. exact devaddr_roundtrip. Qed.
Theorem C18_eui_column : forall e, e < two64 -> eui_from_int64 (eui_to_int64 e) = e.
Proof. exact eui_int64_roundtrip. Qed.
Theorem C18_eui_text : forall e, e < two64 -> eui_from_str (eui_str e) = Some e.
Proof. exact eui_str_roundtrip. Qed.
Theorem C18_key_text : forall k, bytes_ok k = true -> length k = 16%nat -> key_from_str (key_str k) = Some k.
Proof. exact key_roundtrip. Qed.
Theorem C18_nonce_column : forall n, n < 65536 -> nonce_of_col (nonce_col n) = n.
Proof. exact nonce_roundtrip. Qed.
Theorem C18_payload_text : forall l, bytes_ok l = true -> b64_dec (b64_enc l) = Some l.
Proof. exact b64_roundtrip. Qed.

(* ---- for EVERY history of storage-layer operations (any values the Go types can hold, reopen at any
   position) the storage model, with its encoded columns and row readers that may fail, answers
   exactly as the abstract registry of plain values: no listing fails, no row is unreadable ---- *)
Theorem C18_storage_is_the_registry :
  forall ops s, store_ok s -> forallb regop_ok ops = true ->
    c_run (enc_store s) ops = (enc_store (fst (a_run s ops)), snd (a_run s ops)) /\ store_ok (fst (a_run s ops)).
Proof. exact refine_run. Qed.

(* ---- ... and so does every mixed history of storage operations and service requests ---- *)
Theorem C18_service_is_the_registry :
  forall ops s, store_ok s -> forallb anyop_ok ops = true ->
    mixed_run cstore c_step (enc_store s) ops
    = (enc_store (fst (mixed_run astore a_step s ops)), snd (mixed_run astore a_step s ops))
    /\ store_ok (fst (mixed_run astore a_step s ops)).
Proof. exact mixed_refines. Qed.

(* ---- laws of the abstract registry: accepted = returned, others untouched, rejected leaves nothing,
   deleted is gone ---- *)
Theorem C18_rejected_leaves_nothing :
  forall s o, snd (a_step s o) = RFailed \/ snd (a_step s o) = RNotFound -> fst (a_step s o) = s.
Proof. exact rejected_leaves_nothing. Qed.
Theorem C18_created_device_is_returned :
  forall s d, snd (a_step s (CreateDevice d)) = ROk -> dev_at (fst (a_step s (CreateDevice d))) (rd_eui d) = Some d.
Proof. exact created_device_is_returned. Qed.
Theorem C18_device_untouched_by_others :
  forall s o e, dev_target o <> Some e -> dev_at (fst (a_step s o)) e = dev_at s e.
Proof. exact device_untouched_by_others. Qed.
Theorem C18_deleted_device_is_gone :
  forall s e, snd (a_step s (DeleteDevice e)) = ROk ->
    dev_at (fst (a_step s (DeleteDevice e))) e = None /\ forall x, In x (a_devs (fst (a_step s (DeleteDevice e)))) -> rd_eui x <> e.
Proof. exact deleted_device_is_gone. Qed.
Theorem C18_device_reads :
  forall s,
  (forall e, snd (a_step s (GetDeviceByEUI e)) = match dev_at s e with Some d => RDev d (nonces_of s e) | None => RNotFound end) /\
  (forall e d n, In (d, n) (match snd (a_step s (GetDevicesByApplicationEUI e)) with RDevs l => l | _ => [] end)
                 <-> In d (a_devs s) /\ rd_app d = e /\ n = nonces_of s (rd_eui d)) /\
  (forall a d n, In (d, n) (match snd (a_step s (GetDeviceByDevAddr a)) with RDevs l => l | _ => [] end)
                 <-> In d (a_devs s) /\ rd_addr d = a /\ n = nonces_of s (rd_eui d)).
Proof. exact device_reads. Qed.
(* the two single-statement counter operations the pipeline relies on (C03, C07, C09): a compare-and-store of the
   expected uplink counter and a fetch-and-increment of the downlink counter - refined by the SQL statements
   (C18_storage_is_the_registry) like every other operation *)
Theorem C18_advance_is_compare_and_store :
  forall s e key a nf kw,
    dev_at (fst (a_step s (AdvanceFCntUp e key a nf kw))) e
    = option_map (fun old => if (rd_fup old <=? a) && bytes_eqb (rd_nwkskey old) key then upd_dev_state old nf (rd_fdn old) kw else old) (dev_at s e).
Proof. exact advance_is_compare_and_store. Qed.
Theorem C18_advance_answers_ok_iff_not_passed :
  forall s e key a nf kw,
    snd (a_step s (AdvanceFCntUp e key a nf kw)) = ROk <-> exists d, In d (a_devs s) /\ rd_eui d = e /\ rd_fup d <= a /\ rd_nwkskey d = key.
Proof. exact advance_answers_found_iff_stored. Qed.
Theorem C18_next_is_fetch_and_increment :
  forall s e key, unique_devs s ->
    snd (a_step s (NextFCntDn e key)) = match dev_at s e with Some d => if bytes_eqb (rd_nwkskey d) key then RCnt (rd_fdn d) else RNotFound | None => RNotFound end /\
    dev_at (fst (a_step s (NextFCntDn e key))) e
    = option_map (fun old => if bytes_eqb (rd_nwkskey old) key then upd_dev_state old (rd_fup old) ((rd_fdn old + 1) mod 65536) (rd_kw old) else old) (dev_at s e).
Proof. exact next_is_fetch_and_increment. Qed.
(* the downlink queue of a device: what is created is listed, what is deleted is gone, nothing done for another device
   touches it; the status operations the pipeline uses (C06, C08) change exactly the messages their condition names and
   only in the time / counter columns; the next unsent message is the oldest with sent_time = 0 *)
Theorem C18_queue_laws :
  forall s,
  (forall o e, down_target o <> Some e -> outbox_of (fst (a_step s o)) e = outbox_of s e) /\
  (forall m, snd (a_step s (CreateDownstreamMessage m)) = ROk ->
             outbox_of (fst (a_step s (CreateDownstreamMessage m))) (dn_eui m) = outbox_of s (dn_eui m) ++ [m]) /\
  (forall e c, snd (a_step s (DeleteDownstreamMessage e c)) = ROk ->
               outbox_of (fst (a_step s (DeleteDownstreamMessage e c))) e = filter (fun x => negb (dn_created x =? c)%Z) (outbox_of s e)).
Proof. exact downstream_laws. Qed.
Theorem C18_queue_status_laws :
  forall s e,
  (forall c sent fc, outbox_of (fst (a_step s (SetMessageSentTime e c sent fc))) e
     = map (fun x => if (dn_created x =? c)%Z then dn_times x sent (dn_acktime x) fc else x) (outbox_of s e)) /\
  (forall fc ackt, outbox_of (fst (a_step s (UpdateMessageAckTime e fc ackt))) e
     = map (fun x => if (dn_fcnt x =? fc) && (0 <? dn_sent x)%Z && (dn_acktime x =? 0)%Z then dn_times x (dn_sent x) ackt (dn_fcnt x) else x) (outbox_of s e)) /\
  (outbox_of (fst (a_step s (ResetActiveAcks e))) e
     = map (fun x => if (0 <? dn_sent x)%Z && (dn_acktime x =? 0)%Z && dn_ack x then dn_times x 0%Z (dn_acktime x) 0 else x) (outbox_of s e)) /\
  (snd (a_step s (GetNextUnsentMessage e))
     = match sort_by dn_created (filter (fun x => (dn_sent x =? 0)%Z) (outbox_of s e)) with m :: _ => RDowns [m] | [] => RNotFound end).
Proof. exact message_status_laws. Qed.
From Lospan Require Import Model.Store Proof.StoreRegistryProof.
(* The per-device store model on which the theorems of C01-C10 are proved (Model/Store.v) and this registry describe the
   same operations: seen on one device - its queue (queue_is) and its row (row_is) - each registry operation the pipeline
   uses is the corresponding operation of the per-device model. *)
Theorem C18_pipeline_storage_operations_agree :
  forall s e st,
  (queue_is s e st ->
     (forall c now fc, queue_is (fst (a_step s (SetMessageSentTime e (Z.of_N c) (Z.of_N now) fc))) e (l_set_sent_time st c now fc)) /\
     (forall fc now, queue_is (fst (a_step s (UpdateMessageAckTime e fc (Z.of_N now)))) e (l_update_ack_time st fc now)) /\
     queue_is (fst (a_step s (ResetActiveAcks e))) e (l_reset_active_acks st) /\
     snd (a_step s (GetNextUnsentMessage e)) = match l_get_next_unsent st with Some m => RDowns [to_downm m] | None => RNotFound end) /\
  (row_is s e st -> unique_devs s ->
     (forall key a nf kw, row_is (fst (a_step s (AdvanceFCntUp e key a nf kw))) e (fst (l_advance_fup st key a nf kw))) /\
     (forall key, row_is (fst (a_step s (NextFCntDn e key))) e (fst (l_next_fdn st key)) /\
      snd (a_step s (NextFCntDn e key)) = match snd (l_next_fdn st key) with Some c => RCnt c | None => RNotFound end) /\
     (forall dev, row_is (fst (a_step s (UpdateDeviceState e (d_fup dev) (d_fdn dev) (d_keywarn dev)))) e (fst (l_update_device_state st dev)))).
Proof.
  intros s e st. split; [intros H | intros H Hu].
  - split; [intros; now apply set_sent_time_agrees|]. split; [intros; now apply update_ack_time_agrees|].
    split; [now apply reset_active_acks_agrees | now apply next_unsent_agrees].
  - split; [intros; now apply advance_fup_agrees|]. split; [intros; now apply next_fdn_agrees | intros; now apply update_device_state_agrees].
Qed.
Theorem C18_one_device_per_eui : forall s o, unique_devs s -> unique_devs (fst (a_step s o)).
Proof. exact one_device_per_eui. Qed.
Theorem C18_each_operation_writes_its_own_table :
  forall s o,
  (table_of o <> 1 -> a_apps (fst (a_step s o)) = a_apps s) /\
  (table_of o <> 2 -> a_devs (fst (a_step s o)) = a_devs s) /\
  (table_of o <> 3 -> a_nonces (fst (a_step s o)) = a_nonces s) /\
  (table_of o <> 4 -> a_gws (fst (a_step s o)) = a_gws s) /\
  (table_of o <> 5 -> a_ups (fst (a_step s o)) = a_ups s) /\
  (table_of o <> 6 -> a_downs (fst (a_step s o)) = a_downs s).
Proof. exact only_own_table. Qed.

(* non-vacuity: the empty store is consistent, and a device with the top address and EUI bits set is representable *)
Example C18_empty_ok : store_ok a_empty.
Proof. exact empty_ok. Qed.
Example C18_top_bits_representable :
  dev_ok {| rd_eui := 18446744073709551615; rd_addr := 4294967295; rd_appkey := repeat 255 16; rd_appskey := repeat 0 16;
            rd_nwkskey := repeat 255 16; rd_app := 9223372036854775808; rd_state := 8; rd_fup := 65535; rd_fdn := 65535;
            rd_relaxed := true; rd_kw := true; rd_tag := [0; 255; 34] |} = true.
Proof. vm_compute. reflexivity. Qed.

Print Assumptions C18_devaddr_text.
Print Assumptions C18_eui_column.
Print Assumptions C18_eui_text.
Print Assumptions C18_key_text.
Print Assumptions C18_nonce_column.
Print Assumptions C18_payload_text.
Print Assumptions C18_storage_is_the_registry.
Print Assumptions C18_service_is_the_registry.
Print Assumptions C18_rejected_leaves_nothing.
Print Assumptions C18_created_device_is_returned.
Print Assumptions C18_device_untouched_by_others.
Print Assumptions C18_deleted_device_is_gone.
Print Assumptions C18_device_reads.
Print Assumptions C18_one_device_per_eui.
Print Assumptions C18_each_operation_writes_its_own_table.
Print Assumptions C18_advance_is_compare_and_store.
Print Assumptions C18_advance_answers_ok_iff_not_passed.
Print Assumptions C18_next_is_fetch_and_increment.
Print Assumptions C18_queue_laws.
Print Assumptions C18_queue_status_laws.
Print Assumptions C18_pipeline_storage_operations_agree.
