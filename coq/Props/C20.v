(* C20 — event routing: every subscriber of an id gets each event once, in order. Statements only. *)
From Lospan Require Import Base.Bytes Model.Router Spec.AbsRouter Proof.RouterProof.

(* For EVERY sequence of subscribe / unsubscribe / publish operations over any identifiers and every
   subscription c (numbered by creation): what c has received is exactly the events published for
   its identifier between its Subscribe and its Unsubscribe, once each and in publication order;
   events of other identifiers, and events published before or after, are not delivered to it. *)
Theorem C20_delivery :
  forall ops c, chan_q (rrun ops) c = expected ops 0 None c.
Proof. exact router_delivers. Qed.

(* At every point of every sequence the routing table is well formed: a channel is routed at most
   once, every routed channel exists and is open - so nothing is delivered on a closed
   subscription and a subscription is closed (by removing its only route) at most once. *)
Theorem C20_table_well_formed :
  forall ops, wf (rrun ops).
Proof. exact routed_channels_open. Qed.

Print Assumptions C20_delivery.
Print Assumptions C20_table_well_formed.
