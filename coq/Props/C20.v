(* C20 — event routing: every subscriber of an id gets each event once, in order. Statements only. *)
From Lospan Require Import Base.Bytes Model.Router Spec.AbsRouter Proof.RouterProof Proof.StalledProof.

(* For EVERY sequence of subscribe / unsubscribe / publish operations over any identifiers and every
   subscription c (numbered by creation): what c has received is exactly the events published for
   its identifier between its Subscribe and its Unsubscribe, once each and in publication order;
   events of other identifiers, and events published before or after, are not delivered to it. *)
Theorem C20_delivery :
  forall ops c, chan_q (rrun ops) c = expected ops 0 None c.
Proof. exact router_delivers. Qed.

(* At every point of every sequence the routing table is well formed: a channel is routed at most
   once, every routed channel exists and is open - so nothing is delivered on a closed
   subscription and a subscription is closed (by removing its only route) at most once. *)
Theorem C20_table_well_formed :
  forall ops, wf (rrun ops).
Proof. exact routed_channels_open. Qed.

(* "... to every current subscriber of that identifier THAT KEEPS READING": some subscriptions (stalled) have stopped reading; their
   channel takes events until it holds cap of them, after which a publication waits for it in vain and goes on (rstep_s, the
   router of Model/Router.v otherwise). For every operation sequence, every set of stalled subscriptions and every capacity: the
   routing table and the closed flags are those of the router in which everybody reads, every subscription that keeps reading has
   received exactly the events published for its identifier between its Subscribe and its Unsubscribe, once each, in order - a
   subscriber that stalls costs nobody else an event - and a stalled one holds the first cap of its events. *)
Theorem C20_stalled_subscribers_cost_nobody_else :
  forall (stalled : N -> bool) (cap : nat) ops,
    r_routes (rrun_s stalled cap ops) = r_routes (rrun ops) /\
    (forall c, chan_closed (rrun_s stalled cap ops) c = chan_closed (rrun ops) c) /\
    (forall c, chan_q (rrun_s stalled cap ops) c = if stalled c then firstn cap (expected ops 0 None c) else expected ops 0 None c).
Proof. exact stalled_subscribers_cost_nobody_else. Qed.
Print Assumptions C20_delivery.
Print Assumptions C20_stalled_subscribers_cost_nobody_else.
Print Assumptions C20_table_well_formed.
