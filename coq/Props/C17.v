(* C17 — downlinks are scheduled into the device's RX1 window on the right gateway. Statements only. *)
From Coq Require Import String.
From Lospan Require Import Base.Bytes Base.Outcome Gen.Consts Model.Gateway Proof.GatewayProof.

(* the PULL_RESP goes to the uplink's gateway host and to the source port of that gateway's most
   recent PULL_DATA, over every history of datagrams from any sockets *)
Theorem C17_port_of_last_pull_data :
  forall ds s e, get_port (gs_ports (run_gw s ds)) e = last_pull_port ds e (get_port (gs_ports s) e).
Proof. exact pull_resp_port. Qed.

(* its txpk asks for the uplink's gateway timestamp plus RX1 delay seconds modulo 2^32, at the
   uplink's frequency and data rate, inverted polarity, with size and data of the PHY payload *)
Theorem C17_txpk :
  forall s raw clock delay freq datr e host ver,
    let r := encode_and_send s raw clock delay freq datr e host ver in
    pr_host r = host /\ pr_port r = get_port (gs_ports s) e /\
    t_tmst (pr_tx r) = ((clock + 1000000 * (delay mod 256)) mod 4294967296)%N /\ t_freq (pr_tx r) = freq /\ t_datr (pr_tx r) = datr /\
    t_ipol (pr_tx r) = true /\ t_imme (pr_tx r) = false /\ t_size (pr_tx r) = N.of_nat (length raw) /\ t_data (pr_tx r) = raw.
Proof. exact txpk_fields_spec. Qed.

(* obligation on the struct tags of the source as it is now (regenerated every run): tmst and the
   other keys a gateway needs appear in the JSON whatever their value - in particular when the
   timestamp wraps to exactly 0 *)
Theorem C17_keys_always_present :
  forall z, key_present "tmst" z = true /\ key_present "freq" z = true /\ key_present "datr" z = true /\
            key_present "size" z = true /\ key_present "data" z = true /\ key_present "imme" z = true /\
            key_present "rfch" z = true /\ key_present "modu" z = true.
Proof. exact txpk_keys_always_present. Qed.
Theorem C17_ipol_present : key_present "ipol" false = true.
Proof. exact txpk_ipol_present. Qed.

(* the data delay is 1 and the join-accept delay 5 in the encoder model (Model/Server.v encoder_data /
   encoder_join, compared with the code on every server history) *)

(* ... "plus one second for data (five seconds for a join-accept)": on the pipeline side the delay handed to the gateway
   follows the type of the frame that leaves, not the type of the uplink whose handler sends it. Any pool of join and
   uplink handlers of a device (any frames), interleaved operation by operation in EVERY order and cut anywhere, from
   any state whose buffer entry holds a three-bit message type: every downlink that leaves carries delay 5 when its
   MHDR says join-accept and delay 1 otherwise (an uplink's handler can collect the join-accept a concurrent join left
   in the device's buffer entry - the forced-schedule correspondence runs exactly that on the real pipeline). *)
From Lospan Require Import Model.FrameTypes Model.Frame Model.Store Model.Server Model.Steps Proof.LocalProof Proof.DelayProof Proof.RadioProof.
Theorem C17_delay_follows_the_frame_type :
  forall (E D : list N -> list N -> list N) apps ps sched fuel st,
    Forall (handler E D) ps -> fb_small st ->
    Forall (fun d => dl_rx1delay d = if (hd 0 (dl_raw d) / 32 =? 1)%N then 5%N else 1%N)
           (downs (snd (interleaveN apps sched fuel st ps []))).
Proof. exact delay_follows_the_frame_type. Qed.

(* Pipeline side, gateway and radio: whatever a received packet causes to be sent or published carries THAT packet's gateway
   (identity, host, port, clock, protocol version) and radio parameters (data rate, channel, RF chain, frequency) - the downlink
   is handed on for the gateway that reported the triggering uplink, to be sent at the uplink's data rate and frequency.
   For every server state, every packet, every cipher. *)
Theorem C17_downlink_is_for_the_uplinks_gateway_and_radio :
  forall (E D : list N -> list N -> list N) s rx appnonce newaddr now,
    Forall (follows rx) (snd (rx_event E D s rx appnonce newaddr now)).
Proof. exact downlinks_follow_the_uplink. Qed.

Print Assumptions C17_port_of_last_pull_data.
Print Assumptions C17_downlink_is_for_the_uplinks_gateway_and_radio.
Print Assumptions C17_txpk.
Print Assumptions C17_keys_always_present.
Print Assumptions C17_ipol_present.
Print Assumptions C17_delay_follows_the_frame_type.
