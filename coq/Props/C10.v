(* C10 — crashes and failed writes never weaken counters, nonces or sessions. Statements only. *)
From Coq Require Import String.
From Lospan Require Import Base.Bytes Base.Outcome Model.FrameTypes Model.Store Model.Server Model.Steps
  Proof.LocalProof Proof.StepsProof.
Open Scope N_scope.

Section C10.
  Variable E D : list N -> list N -> list N.   (* the block cipher, abstract *)
  Hypothesis E_len : forall k b, length (E k b) = 16%nat.   (* ... returning 16-byte blocks *)
  Variable apps : list N.

  (* The handlers as sequences of atomic operations, run to completion, ARE the sequential model the
     other properties' theorems speak about. *)
  Theorem C10_programs_are_the_handlers :
    (forall fuel st f rx n now, (13 <= fuel)%nat ->
       (forall r, ds_row st = Some r -> mic_ok E f (rx_raw rx) (load st r) = true) ->   (* the device whose key verifies the frame *)
       prun apps fuel st (uplink_prog E D f rx n now) [] = l_uplink E D apps st f rx n now) /\
    (forall fuel cfg st f rx an na, (11 <= fuel)%nat ->
       prun apps fuel st (join_prog E D cfg f rx an na) [] = join_local E D cfg apps st f rx an na).
  Proof. split; [exact (run_uplink_complete E D apps) | exact (run_join_complete E D apps)]. Qed.

  (* Uplink clause. For EVERY point at which the handling of a frame is cut (fuel), EVERY set of operations
     that fail instead of running (fails), every strict-counter device and every frame whose counter is below
     the wrap: after the restart, delivering the same frame again (with any gateway metadata) leaves at most
     one more row in the inbox than before the first delivery. *)
  Theorem C10_uplink_recorded_at_most_once :
    forall st0 r0 f, ds_row st0 = Some r0 -> d_relaxed r0 = false -> fcnt f < 65535 ->
    forall fails fuel rx n now rx' n' now', fb_down st0 -> valid_datr rx' ->
      let st1 := recover (fst (prunf apps fails 0 fuel st0 (uplink_prog E D f rx n now) [])) in
      let st2 := fst (l_uplink E D apps st1 f rx' n' now') in
      (length (ds_inbox st2) <= S (length (ds_inbox st0)))%nat.
  Proof. intros st0 r0 f H1 H2 H3. exact (uplink_recorded_at_most_once E D apps st0 r0 f H1 H2 H3 E_len). Qed.

  (* Downlink clause. Under the same quantification: if a frame has left for the gateway when the handling
     is cut, the stored downlink counter is already one past the counter that frame carries (the counter
     stored when the handling began); so after the restart that counter is not handed out again. *)
  Theorem C10_downlink_counter_stored_before_use :
    forall st0 r0 f, ds_row st0 = Some r0 -> d_relaxed r0 = false -> fcnt f < 65535 ->
    forall fails fuel rx n now, fb_down st0 ->
      let res := prunf apps fails 0 fuel st0 (uplink_prog E D f rx n now) [] in
      downs (snd res) <> [] ->
      exists r', ds_row (recover (fst res)) = Some r' /\ d_fdn r' = (d_fdn r0 + 1) mod 65536.
  Proof. intros st0 r0 f H1 H2 H3. exact (downlink_counter_stored_before_it_is_used E D apps st0 r0 f H1 H2 H3 E_len). Qed.

  (* Join clause. Under the same quantification, with the nonce check on: if a join-accept has left or the
     stored session has been replaced, the DevNonce is in the store; and after the restart the same
     join-request, delivered again, is refused and changes nothing. *)
  Theorem C10_nonce_stored_before_effects :
    forall st0 r0 cfg f, ds_row st0 = Some r0 -> cfg_disable_nonce_check cfg = false ->
    forall fails fuel rx an na,
      let res := prunf apps fails 0 fuel st0 (join_prog E D cfg f rx an na) [] in
      (snd res <> [] \/ ds_row (fst res) <> Some r0) -> stored f (fst res).
  Proof. exact (join_nonce_durable_before_effects E D apps). Qed.
  Theorem C10_replayed_join_refused_after_restart :
    forall st0 r0 cfg f, ds_row st0 = Some r0 -> cfg_disable_nonce_check cfg = false ->
    forall fails fuel rx an na rx' an' na',
      let res := prunf apps fails 0 fuel st0 (join_prog E D cfg f rx an na) [] in
      (snd res <> [] \/ ds_row (fst res) <> Some r0) ->
      join_local E D cfg apps (recover (fst res)) f rx' an' na' = (recover (fst res), []).
  Proof. exact (replayed_join_refused_after_crash E D apps). Qed.
End C10.

From Lospan Require Import Proof.SchedDataProof.
(* Crashes, restarts, interleavings and histories together (downlink clause, whole history): every handler of every
   batch may be cut after any number of operations (BUps ... fuel), the server may be restarted after any batch
   (restart = true: Steps.recover), batches may hold several handlers interleaved under any schedule - over the whole
   history no two frames that left carry the same downlink counter, and the stored uplink counter never moves back. *)
Theorem C10_counters_unique_over_crashes_and_restarts :
  forall (E D : list N -> list N -> list N) apps evs st r G,
    ds_row st = Some r -> fb_down st -> d_fdn r = G mod 65536 -> G + N.of_nat (total evs) <= 65536 -> Forall bev_ok evs ->
    (exists r', ds_row (fst (brun E D apps st evs)) = Some r' /\ same_session r r' /\ d_fup r <= d_fup r') /\
    NoDup (counters (snd (brun E D apps st evs))) /\
    Forall (fun x => G <= x < G + N.of_nat (total evs)) (counters (snd (brun E D apps st evs))).
Proof. exact batches_counters. Qed.

Print Assumptions C10_programs_are_the_handlers.
Print Assumptions C10_uplink_recorded_at_most_once.
Print Assumptions C10_downlink_counter_stored_before_use.
Print Assumptions C10_nonce_stored_before_effects.
Print Assumptions C10_replayed_join_refused_after_restart.
Print Assumptions C10_counters_unique_over_crashes_and_restarts.
