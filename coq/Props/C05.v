(* C05 — a DevNonce is honoured once; the stored session is the last join-accept's. Statements only. *)
From Coq Require Import String.
From Lospan Require Import Base.Bytes Base.Outcome Model.FrameTypes Model.Frame Model.Join Model.Store Model.Server
  Proof.LocalProof Proof.JoinProof.

(* With the nonce check on: in EVERY history of one device - uplinks, submissions and
   join-requests with repeated and fresh nonces, from any state (hence also after a restart,
   which keeps the nonce table) - no DevNonce is honoured twice, and none that is already in
   the durable nonce table is honoured at all. *)
Theorem C05_once :
  forall (E D : list N -> list N -> list N) cfg apps,
    cfg_disable_nonce_check cfg = false ->
    forall evs st, fb_down st -> Forall jev_ok evs ->
    NoDup (snd (jrun E D cfg apps st evs)) /\ Forall (fun n => ~ In n (ds_nonces st)) (snd (jrun E D cfg apps st evs)).
Proof. exact nonce_honoured_once. Qed.

(* Under both settings of the switch: at the end of every history the stored address and
   session keys are those of the most recent honoured join (those conveyed by its join-accept,
   C04_session_agrees), or the initial ones if no join was honoured. *)
Theorem C05_agree :
  forall (E D : list N -> list N -> list N) cfg apps evs st r,
    ds_row st = Some r -> fb_down st -> Forall jev_ok evs ->
    exists r', ds_row (fst (jrun E D cfg apps st evs)) = Some r' /\
               session_keys r' = last_keys E D cfg apps st evs (session_keys r).
Proof. exact stored_session_is_last_accept. Qed.

Print Assumptions C05_once.
Print Assumptions C05_agree.
