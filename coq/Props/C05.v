(* C05 — a DevNonce is honoured once; the stored session is the last join-accept's. Statements only. *)
From Coq Require Import String.
From Lospan Require Import Base.Bytes Base.Outcome Model.FrameTypes Model.Frame Model.Join Model.Store Model.Server
  Proof.LocalProof Proof.JoinProof.

(* With the nonce check on: in EVERY history of one device - uplinks, submissions and
   join-requests with repeated and fresh nonces, from any state (hence also after a restart,
   which keeps the nonce table) - no DevNonce is honoured twice, and none that is already in
   the durable nonce table is honoured at all. *)
Theorem C05_once :
  forall (E D : list N -> list N -> list N),
    (forall k b, length (E k b) = 16%nat /\ bytes_ok (E k b) = true) ->
    forall cfg apps,
    cfg_disable_nonce_check cfg = false ->
    forall evs st, fb_down st -> Forall jev_ok evs ->
    NoDup (snd (jrun E D cfg apps st evs)) /\ Forall (fun n => ~ In n (ds_nonces st)) (snd (jrun E D cfg apps st evs)).
Proof. exact nonce_honoured_once. Qed.

(* Under both settings of the switch: at the end of every history the stored address and
   session keys are those of the most recent honoured join (those conveyed by its join-accept,
   C04_session_agrees), or the initial ones if no join was honoured. *)
Theorem C05_agree :
  forall (E D : list N -> list N -> list N),
    (forall k b, length (E k b) = 16%nat /\ bytes_ok (E k b) = true) ->
    forall cfg apps evs st r,
    ds_row st = Some r -> fb_down st -> Forall jev_ok evs ->
    exists r', ds_row (fst (jrun E D cfg apps st evs)) = Some r' /\
               session_keys r' = last_keys E D cfg apps st evs (session_keys r).
Proof. exact stored_session_is_last_accept. Qed.

From Lospan Require Import Model.Steps Proof.SchedProof.
(* Concurrent clause: two handlers working on copies of one join-request (received through any gateways,
   drawing any application nonces), interleaved operation by operation in EVERY order, with the nonce check on:
   at most one join-accept leaves (the loser's insert of the nonce fails on the primary key and it stops). *)
Theorem C05_concurrent_copies_one_accept :
  forall (E D : list N -> list N -> list N) apps cfg f, cfg_disable_nonce_check cfg = false ->
  forall sched fuel st rx1 an1 na1 rx2 an2 na2,
    (length (downs (snd (interleave apps sched fuel st (join_prog E D cfg f rx1 an1 na1) (join_prog E D cfg f rx2 an2 na2) []))) <= 1)%nat.
Proof. exact concurrent_join_copies_answered_at_most_once. Qed.

(* ... and the same for ANY number of handlers (two, three, ...) working on copies of the request, under
   every schedule: at most one join-accept leaves. *)
Theorem C05_concurrent_copies_any_number :
  forall (E D : list N -> list N -> list N) apps cfg f, cfg_disable_nonce_check cfg = false ->
  forall (copies : list (rxpacket * list N * N)) sched fuel st,
    (length (downs (snd (interleaveN apps sched fuel st
                           (map (fun c => join_prog E D cfg f (fst (fst c)) (snd (fst c)) (snd c)) copies) []))) <= 1)%nat.
Proof. exact concurrent_join_copies_any_number. Qed.
(* "The stored session always matches the join-accept sent", while uplinks of the device are handled at the same time: one
   join handler and ANY number of uplink handlers (ANY frames), interleaved operation by operation in EVERY order and cut
   anywhere, from a state whose buffer entry is not a join-accept entry. Every join-accept that leaves - sent by the join's own
   handler, or collected from the device's buffer entry by an uplink handler - is the encoding under the device's AppKey of the
   record the join built (its AppNonce, the NetID, the address), and when one has left the row holds the session keys derived
   from that AppNonce and the request's DevNonce, and that address. (A conformant device derives the same from those octets:
   C04_session_agrees.) No hypothesis on the cipher. *)
From Lospan Require Import Gen.Consts Model.Steps Proof.SessionDataProof Proof.SessionAcceptProof.
Theorem C05_accept_conveys_the_stored_session_in_every_schedule :
  forall (E D : list N -> list N -> list N) apps cfg jf jrx appnonce newaddr (ups : list (frame * rxpacket * nat * N)) sched fuel st r,
    ds_row st = Some r -> fb_noja st ->
    let res := interleaveN apps sched fuel st
        (join_prog E D cfg jf jrx appnonce newaddr :: map (fun u => uplink_prog E D (fst (fst (fst u))) (snd (fst (fst u))) (snd (fst u)) (snd u)) ups) [] in
    let addr := if (d_addr r =? 0)%N then newaddr else d_addr r in
    Forall (fun raw => encode_join_accept E D (d_appkey r) JoinAccept c_MaxSupportedVersion
                         {| ja_appnonce := appnonce; ja_netid := N.land (cfg_netid cfg) 4294967295; ja_devaddr := devaddr_of_u32 addr;
                            ja_rx1droffset := 0; ja_rx2dr := 5; ja_rxdelay := 1 |} = Ok raw) (ja_raws (snd res)) /\
    (ja_raws (snd res) <> [] ->
     exists x, ds_row (fst res) = Some x /\
       d_nwkskey x = nwkskey_from_nonces E (d_appkey r) appnonce (cfg_netid cfg) (jr_devnonce (jr jf)) /\
       d_appskey x = appskey_from_nonces E (d_appkey r) appnonce (cfg_netid cfg) (jr_devnonce (jr jf)) /\
       d_addr x = addr /\ d_appkey x = d_appkey r).
Proof. exact accept_conveys_the_stored_session. Qed.


Print Assumptions C05_once.
Print Assumptions C05_agree.
Print Assumptions C05_concurrent_copies_one_accept.
Print Assumptions C05_concurrent_copies_any_number.
Print Assumptions C05_accept_conveys_the_stored_session_in_every_schedule.
