(* C15 — gateway protocol: every request acknowledged once, token echoed, data intact. Statements only. *)
From Coq Require Import String.
From Lospan Require Import Base.Bytes Base.Outcome Gen.Consts Model.Gateway Proof.GatewayProof.

(* encoding and decoding of the six packet types are mutual inverses on what each type carries *)
Theorem C15_codec_inverse :
  forall p bs, (gp_ver p < 256)%N -> (gp_token p < 65536)%N -> (gp_eui p < 18446744073709551616)%N ->
    gw_marshal p = Ok bs -> gw_unmarshal bs = Ok (canon p).
Proof. exact unmarshal_marshal. Qed.

(* every PULL_DATA: exactly one PULL_ACK with the request's token and version to the sender's address *)
Theorem C15_pull_ack :
  forall s d, gp_ident (dg_pkt d) = gw_PullData ->
    snd (fst (gw_step s d)) = [{| rp_ident := gw_PullAck; rp_token := gp_token (dg_pkt d); rp_ver := gp_ver (dg_pkt d);
                                  rp_host := dg_host d; rp_port := dg_port d |}] /\ snd (gw_step s d) = [].
Proof. exact pull_data_acked. Qed.

(* every PUSH_DATA from an authorised gateway whose entries carry valid base64: exactly one PUSH_ACK
   (token, version, sender) and every entry handed to the pipeline exactly once, in order, with
   its bytes, data rate, channel, signal quality, gateway identity and clock intact *)
Theorem C15_push_ack_and_forward :
  forall s d l, gp_ident (dg_pkt d) = gw_PushData -> authorised s d = true ->
    dg_body d = Some l -> Forall (fun k => k_data k <> None) l ->
    gw_step s d = (s, [{| rp_ident := gw_PushAck; rp_token := gp_token (dg_pkt d); rp_ver := gp_ver (dg_pkt d);
                          rp_host := dg_host d; rp_port := dg_port d |}],
                   map (fun k => mkfwd d k (match k_data k with Some r => r | None => [] end)) l).
Proof. exact push_data_acked_and_forwarded. Qed.

(* whatever the body (malformed JSON included): acknowledged exactly once, no state change *)
Theorem C15_push_always_acked_once :
  forall s d, gp_ident (dg_pkt d) = gw_PushData -> authorised s d = true ->
    fst (fst (gw_step s d)) = s /\ length (snd (fst (gw_step s d))) = 1%nat.
Proof. exact push_data_acked. Qed.

Print Assumptions C15_codec_inverse.
Print Assumptions C15_pull_ack.
Print Assumptions C15_push_ack_and_forward.
Print Assumptions C15_push_always_acked_once.
