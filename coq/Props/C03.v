(* C03 — uplink replay protection (quiescent histories). Statements only. *)
From Coq Require Import String Sorted.
From Lospan Require Import Base.Bytes Model.FrameTypes Model.Frame Model.Store Model.Server Proof.LocalProof.

(* One sequential uplink of a device (any frame, any state): the frame is recorded only if it
   is not below the expected counter of a strict device, recording it moves the expected
   counter past it, and the expected counter never moves except past an accepted counter. *)
Theorem C03_step :
  forall (E D : list N -> list N -> list N) apps st f rx n now r,
    (forall k b, length (E k b) = 16%nat) ->
    ds_row st = Some r -> fb_down st -> valid_datr rx ->
    uplink_summary E st r f (l_uplink E D apps st f rx n now).
Proof. intros E D apps st f rx n now r HE. now apply l_uplink_summary. Qed.

(* Every history of uplinks (arbitrary frames: duplicates, gaps, regressions, corrupt or
   foreign frames that verified) and message submissions of one device within a session,
   before the 16-bit counter is exhausted: the counters of the recorded frames of a strict
   device are strictly increasing, so no frame and no counter is ever recorded twice. *)
Theorem C03_seq :
  forall (E D : list N -> list N -> list N) apps evs st r,
    (forall k b, length (E k b) = 16%nat) ->
    ds_row st = Some r -> fb_down st -> Forall ev_ok evs -> d_relaxed r = false ->
    let '(_, rec, _) := run E D apps st evs in
    Forall (fun a => (d_fup r <= a)%N) rec /\ StronglySorted N.lt rec.
Proof.
  intros E D apps evs st r HE Hr Hfb Hok Hs. pose proof (session_counters E D HE apps evs st r Hr Hfb Hok) as H.
  destruct (run E D apps st evs) as [[stf rec] num]. exact (proj1 H Hs).
Qed.

From Lospan Require Import Gen.Consts Model.Server Proof.ProjectionProof.
(* The per-device step these theorems (and those of C06-C10) speak about IS the server model's global step - the
   function the history correspondence runs against the real pipeline - whenever exactly one stored device
   authenticates the frame; a frame nobody authenticates is no step at all; and the table stays keyed by EUI. *)
Theorem C03_global_step_is_device_step :
  forall (E D : list N -> list N -> list N) s f rx now dv,
    tab_wf (s_tab s) -> (N.to_nat c_MinimumMessageSize <= length (rx_raw rx))%nat ->
    filter (mic_ok E f (rx_raw rx)) (dt_by_devaddr (s_tab s) (devaddr_u32 (f_devaddr f))) = [dv] ->
    let st := dt_get (s_tab s) (d_eui dv) in
    uplink_data E D s f rx now
    = (with_tab s (dt_put (s_tab s) (d_eui dv) (fst (l_uplink E D (s_apps s) st f rx 1 now))), snd (l_uplink E D (s_apps s) st f rx 1 now)).
Proof. exact uplink_is_the_device_step. Qed.
Theorem C03_table_stays_keyed :
  forall t e st, tab_wf t -> (forall r, ds_row st = Some r -> d_eui r = e) -> tab_wf (dt_put t e st).
Proof. exact tab_wf_put. Qed.

Print Assumptions C03_step.
Print Assumptions C03_seq.
Print Assumptions C03_global_step_is_device_step.
Print Assumptions C03_table_stays_keyed.
