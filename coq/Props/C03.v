(* C03 — uplink replay protection (quiescent histories). Statements only. *)
From Coq Require Import String Sorted.
From Lospan Require Import Base.Bytes Model.FrameTypes Model.Frame Model.Store Model.Server Proof.LocalProof.

(* One sequential uplink of a device (any frame, any state): the frame is recorded only if it
   is not below the expected counter of a strict device, recording it moves the expected
   counter past it, and the expected counter never moves except past an accepted counter. *)
Theorem C03_step :
  forall (E D : list N -> list N -> list N) apps st f rx n now r,
    (forall k b, length (E k b) = 16%nat) ->
    ds_row st = Some r -> fb_down st -> valid_datr rx ->
    uplink_summary E st r f (l_uplink E D apps st f rx n now).
Proof. intros E D apps st f rx n now r HE. now apply l_uplink_summary. Qed.

(* Every history of uplinks (arbitrary frames: duplicates, gaps, regressions, corrupt or
   foreign frames that verified) and message submissions of one device within a session,
   before the 16-bit counter is exhausted: the counters of the recorded frames of a strict
   device are strictly increasing, so no frame and no counter is ever recorded twice. *)
Theorem C03_seq :
  forall (E D : list N -> list N -> list N) apps evs st r,
    (forall k b, length (E k b) = 16%nat) ->
    ds_row st = Some r -> fb_down st -> Forall ev_ok evs -> d_relaxed r = false ->
    let '(_, rec, _) := run E D apps st evs in
    Forall (fun a => (d_fup r <= a)%N) rec /\ StronglySorted N.lt rec.
Proof.
  intros E D apps evs st r HE Hr Hfb Hok Hs. pose proof (session_counters E D HE apps evs st r Hr Hfb Hok) as H.
  destruct (run E D apps st evs) as [[stf rec] num]. exact (proj1 H Hs).
Qed.

From Lospan Require Import Model.Steps Model.Join Proof.SchedDataProof Proof.SessionProof.
(* Concurrent clause ("however the copies arrive ... concurrently through several gateways"). ANY number of
   handlers working at the same time on frames that carry one counter (copies of one uplink), interleaved
   operation by operation in EVERY order and cut after any number of operations, on a strict-counter device:
   the frame is recorded at most once (and answered at most once, C09). *)
Theorem C03_concurrent_copies_recorded_once :
  forall (E D : list N -> list N -> list N) apps c,
    (c < 65535)%N ->
    forall (copies : list (frame * rxpacket * nat * N)), Forall (fun x => fcnt (fst (fst (fst x))) = c) copies ->
    forall st r, ds_row st = Some r -> d_relaxed r = false -> fb_down st ->
    forall sched fuel,
      let res := interleaveN apps sched fuel st
                   (map (fun x => uplink_prog E D (fst (fst (fst x))) (snd (fst (fst x))) (snd (fst x)) (snd x)) copies) [] in
      (length (ds_inbox (fst res)) <= S (length (ds_inbox st)))%nat /\ (length (downs (snd res)) <= 1)%nat.
Proof. exact concurrent_copies_recorded_and_answered_once. Qed.
(* ANY handlers of ANY frames of one device (copies, consecutive counters handled out of order, unrelated ones),
   every schedule: the stored expected counter never moves back (so a frame that was accepted stays refused),
   the session is untouched. (The counters of the answers: C07.) *)
Theorem C03_concurrent_counter_never_moves_back :
  forall (E D : list N -> list N -> list N) apps
    (ups : list (frame * rxpacket * nat * N)), Forall (fun x => (fcnt (fst (fst (fst x))) < 65535)%N) ups ->
    forall st r, ds_row st = Some r -> fb_down st -> (d_fdn r < 65536)%N -> (d_fdn r + N.of_nat (length ups) <= 65536)%N ->
    forall sched fuel,
      let res := interleaveN apps sched fuel st
                   (map (fun x => uplink_prog E D (fst (fst (fst x))) (snd (fst (fst x))) (snd (fst x)) (snd x)) ups) [] in
      (exists r', ds_row (fst res) = Some r' /\ same_session r r' /\ (d_fup r <= d_fup r')%N) /\
      NoDup (counters (snd res)) /\ Forall (fun x => (d_fdn r <= x)%N) (counters (snd res)).
Proof. exact concurrent_uplinks_counters. Qed.
(* ... and over whole histories of such batches and submissions (the counters of the answers: C07) *)
Theorem C03_counter_never_moves_back_in_any_history :
  forall (E D : list N -> list N -> list N) apps evs st r G,
    ds_row st = Some r -> fb_down st -> d_fdn r = (G mod 65536)%N -> (G + N.of_nat (total evs) <= 65536)%N -> Forall bev_ok evs ->
    (exists r', ds_row (fst (brun E D apps st evs)) = Some r' /\ same_session r r' /\ (d_fup r <= d_fup r')%N) /\
    NoDup (counters (snd (brun E D apps st evs))) /\
    Forall (fun x => (G <= x < G + N.of_nat (total evs))%N) (counters (snd (brun E D apps st evs))).
Proof. exact batches_counters. Qed.
(* ... and over a whole history of redeliveries: batches of copies of one frame (a batch = copies handled at the same
   time under any schedule, cut anywhere; batch after batch, as retransmissions and late gateways produce them): the
   frame is recorded at most once in total (and answered at most once, C09). *)
Theorem C03_redeliveries_recorded_once_in_any_history :
  forall (E D : list N -> list N -> list N) apps c, (c < 65535)%N ->
  forall bs st r, Forall (cbatch_ok c) bs -> ds_row st = Some r -> d_relaxed r = false -> fb_down st ->
    (length (ds_inbox (fst (crun E D apps st bs))) <= S (length (ds_inbox st)))%nat /\
    (length (downs (snd (crun E D apps st bs))) <= 1)%nat.
Proof. exact copies_history. Qed.
(* the two-handler interleaving the forced-schedule correspondence executes on the real pipeline is the
   two-element case of interleaveN, so both theorems speak about it: *)
Theorem C03_two_handlers_is_an_instance :
  forall apps fuel sched st p q acc,
    interleave apps sched fuel st p q acc = interleaveN apps (sched2 sched) fuel st [p; q] acc.
Proof. exact interleave_is_interleaveN. Qed.
Theorem C03_two_copies_recorded_once :
  forall (E D : list N -> list N -> list N) apps f1 rx1 n1 now1 f2 rx2 n2 now2,
    (fcnt f1 < 65535)%N -> fcnt f2 = fcnt f1 ->
    forall st r, ds_row st = Some r -> d_relaxed r = false -> fb_down st ->
    forall sched fuel,
      let res := interleave apps sched fuel st (uplink_prog E D f1 rx1 n1 now1) (uplink_prog E D f2 rx2 n2 now2) [] in
      (length (ds_inbox (fst res)) <= S (length (ds_inbox st)))%nat /\ (length (downs (snd res)) <= 1)%nat.
Proof. exact two_copies_recorded_and_answered_once. Qed.

From Lospan Require Import Gen.Consts Model.Server Proof.ProjectionProof.
(* The per-device step these theorems (and those of C06-C10) speak about IS the server model's global step - the
   function the history correspondence runs against the real pipeline - whenever exactly one stored device
   authenticates the frame; a frame nobody authenticates is no step at all; and the table stays keyed by EUI. *)
Theorem C03_global_step_is_device_step :
  forall (E D : list N -> list N -> list N) s f rx now dv,
    tab_wf (s_tab s) -> (N.to_nat c_MinimumMessageSize <= length (rx_raw rx))%nat ->
    filter (mic_ok E f (rx_raw rx)) (dt_by_devaddr (s_tab s) (devaddr_u32 (f_devaddr f))) = [dv] ->
    let st := dt_get (s_tab s) (d_eui dv) in
    uplink_data E D s f rx now
    = (with_tab s (dt_put (s_tab s) (d_eui dv) (fst (l_uplink E D (s_apps s) st f rx 1 now))), snd (l_uplink E D (s_apps s) st f rx 1 now)).
Proof. exact uplink_is_the_device_step. Qed.
Theorem C03_table_stays_keyed :
  forall t e st, tab_wf t -> (forall r, ds_row st = Some r -> d_eui r = e) -> tab_wf (dt_put t e st).
Proof. exact tab_wf_put. Qed.
(* A session ends where the next begins: while a join of the device is processed, handlers of uplinks of the session it is
   leaving (frames that do not verify under the key the join derives) may run at any point - one join handler and ANY number of
   such uplink handlers, interleaved operation by operation in EVERY order and cut anywhere. Whenever the row holds the new
   session key afterwards its uplink counter is 0: no frame of the old session is counted in the new one (the compare-and-store
   is bound to the session key the frame verified under). *)
Theorem C03_old_session_frames_do_not_move_the_new_counter :
  forall (E D : list N -> list N -> list N) apps cfg jf jrx appnonce newaddr (ups : list (frame * rxpacket * nat * N)) sched fuel st r acc,
    let knew := nwkskey_from_nonces E (d_appkey r) appnonce (cfg_netid cfg) (jr_devnonce (jr jf)) in
    ds_row st = Some r -> d_nwkskey r <> knew ->
    Forall (fun u => forall dev, d_nwkskey dev = knew -> mic_ok E (fst (fst (fst u))) (rx_raw (snd (fst (fst u)))) dev = false) ups ->
    forall r', ds_row (fst (interleaveN apps sched fuel st
        (join_prog E D cfg jf jrx appnonce newaddr :: map (fun u => uplink_prog E D (fst (fst (fst u))) (snd (fst (fst u))) (snd (fst u)) (snd u)) ups) acc)) = Some r' ->
      d_nwkskey r' = knew -> d_fup r' = 0%N.
Proof. exact stragglers_leave_the_new_uplink_counter_alone. Qed.


Print Assumptions C03_step.
Print Assumptions C03_seq.
Print Assumptions C03_global_step_is_device_step.
Print Assumptions C03_table_stays_keyed.
Print Assumptions C03_concurrent_copies_recorded_once.
Print Assumptions C03_concurrent_counter_never_moves_back.
Print Assumptions C03_two_handlers_is_an_instance.
Print Assumptions C03_two_copies_recorded_once.
Print Assumptions C03_counter_never_moves_back_in_any_history.
Print Assumptions C03_redeliveries_recorded_once_in_any_history.
Print Assumptions C03_old_session_frames_do_not_move_the_new_counter.
