(* C01 — only authentic uplink data frames ever have an effect. Statements only. *)
From Coq Require Import String.
From Lospan Require Import Base.Bytes Base.Outcome Model.FrameTypes Model.Crypto Model.Frame Model.Store Model.Server
  Spec.LoRaFrame Spec.RefDevice Proof.ServerProof.

(* "authentic s raw d" (Proof/ServerProof.v) is stated with the independent frame layout
   (Spec/LoRaFrame.v) and the reference MIC (Spec/RefDevice.v over RFC 4493): raw is an
   uplink data frame of major version 0, d is a registered device row with that DevAddr
   and a non-zero network session key, and the MIC over exactly raw[0..len-4) verifies. *)

(* For every server state, every population, every received byte string that is not typed
   JoinRequest (join-requests are C04) and every block cipher E: if no registered device
   authenticates the frame, the whole state is unchanged and nothing is emitted, published
   or stored. Covers every corruption, truncation, extension, wrong type, unknown address and
   all-zero key at once. *)
Theorem C01_no_effect :
  forall (E D : list N -> list N -> list N),
    (forall k b, length (E k b) = 16%nat /\ bytes_ok (E k b) = true) ->
    forall s rx an na now,
      bytes_ok (rx_raw rx) = true -> (length (rx_raw rx) < 256)%nat ->
      (nth 0 (rx_raw rx) 0 / 32 <> 0)%N ->
      (forall dv, ~ authentic E s (rx_raw rx) dv) ->
      rx_event E D s rx an na now = (s, []).
Proof. exact no_effect_unless_authentic. Qed.

(* ... and then only for the device(s) whose key verifies it: the rows, nonces, inbox, outbox
   and output-buffer entry of every other device are untouched, and no output concerns it. *)
Theorem C01_only_verified :
  forall (E D : list N -> list N -> list N) s f rx now e,
    (forall dv, In dv (filter (mic_ok E f (rx_raw rx)) (dt_by_devaddr (s_tab s) (devaddr_u32 (f_devaddr f)))) -> d_eui dv <> e) ->
    dt_get (s_tab (fst (uplink_data E D s f rx now))) e = dt_get (s_tab s) e /\
    Forall (fun o => out_eui o <> e) (snd (uplink_data E D s f rx now)).
Proof. exact uplink_isolation. Qed.

Print Assumptions C01_no_effect.
Print Assumptions C01_only_verified.
