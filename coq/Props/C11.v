(* C11 — no radio payload can crash the decoder (the part of C11 that is logic of
   the codec; the datagram side of the gateway loop follows below; liveness of the goroutines is run-time behaviour exercised by the correspondence suite). Statements only. *)
From Lospan Require Import Base.Bytes Base.Outcome Model.FrameTypes Gen.Consts Model.MacCmd Model.Frame
  Proof.FrameProof.

(* For every byte string of every length, presented with any bytes of spare capacity
   behind it, PHYPayload.UnmarshalBinary returns a frame or an error: no index or
   slice-bounds panic. Every read of the model is a checked read (rd/rdn/sub return
   Panic exactly where Go does), so this is a proof that the length guards suffice. *)
Theorem C11_decode_total :
  forall v spare, decode (mk_slice v spare) <> Panic.
Proof. intros v spare. exact (proj1 (decode_total_indep v spare)). Qed.

(* the MAC command loop terminates within its fuel and never panics *)
Theorem C11_command_loop_no_panic :
  forall buflen pos set region, decode_bounded buflen pos set region <> Panic.
Proof. exact decode_bounded_no_panic. Qed.

From Lospan Require Import Model.Gateway Proof.GatewayProof.
(* Datagram side. GwPacket.UnmarshalBinary returns a packet or an error for EVERY byte string ... *)
Theorem C11_datagram_decode_total : forall data, gw_unmarshal data <> Panic.
Proof. exact gw_unmarshal_total. Qed.
(* ... whatever datagram the main loop is given (any identifier, any body, authorised or not), it answers with at most
   ONE reply, and that reply is the ordinary acknowledgement (PULL_ACK / PUSH_ACK echoing token and version to the
   sender); registrations and the checks switch are never touched ... *)
Theorem C11_at_most_the_ordinary_acknowledgement :
  forall s d,
  (length (snd (fst (gw_step s d))) <= 1)%nat /\
  Forall (fun r => (rp_ident r = gw_PullAck \/ rp_ident r = gw_PushAck) /\ rp_token r = gp_token (dg_pkt d) /\ rp_ver r = gp_ver (dg_pkt d) /\
                   rp_host r = dg_host d /\ rp_port r = dg_port d) (snd (fst (gw_step s d))) /\
  gs_regs (fst (fst (gw_step s d))) = gs_regs s /\ gs_nochecks (fst (fst (gw_step s d))) = gs_nochecks s.
Proof. exact any_datagram_at_most_the_ordinary_ack. Qed.
(* ... so after ANY sequence of datagrams gateways are served exactly as before (who is authorised has not changed;
   C15_pull_ack and C15_push_ack_and_forward then give the acknowledgement and the forwarding of the next valid one) *)
Theorem C11_still_serving_after_any_sequence :
  forall ds s d, authorised (run_gw s ds) d = authorised s d.
Proof. exact authorised_after_anything. Qed.

Print Assumptions C11_decode_total.
Print Assumptions C11_command_loop_no_panic.
Print Assumptions C11_datagram_decode_total.
Print Assumptions C11_at_most_the_ordinary_acknowledgement.
Print Assumptions C11_still_serving_after_any_sequence.
