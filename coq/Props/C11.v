(* C11 — no radio payload can crash the decoder (the part of C11 that is logic of
   the codec; the gateway and pipeline parts are in Props/C11gw.v). Statements only. *)
From Lospan Require Import Base.Bytes Base.Outcome Model.FrameTypes Gen.Consts Model.MacCmd Model.Frame
  Proof.FrameProof.

(* For every byte string of every length, presented with any bytes of spare capacity
   behind it, PHYPayload.UnmarshalBinary returns a frame or an error: no index or
   slice-bounds panic. Every read of the model is a checked read (rd/rdn/sub return
   Panic exactly where Go does), so this is a proof that the length guards suffice. *)
Theorem C11_decode_total :
  forall v spare, decode (mk_slice v spare) <> Panic.
Proof. intros v spare. exact (proj1 (decode_total_indep v spare)). Qed.

(* the MAC command loop terminates within its fuel and never panics *)
Theorem C11_command_loop_no_panic :
  forall buflen pos set region, decode_bounded buflen pos set region <> Panic.
Proof. exact decode_bounded_no_panic. Qed.

Print Assumptions C11_decode_total.
Print Assumptions C11_command_loop_no_panic.
