(* C04 — OTAA join is authenticated and both sides derive the same session. Statements only. *)
From Coq Require Import String.
From Lospan Require Import Base.Bytes Base.Outcome Model.FrameTypes Model.Crypto Gen.Consts Model.Frame Model.Join Model.Store Model.Server
  Spec.RefDevice Proof.LocalProof Proof.JoinProof Proof.JoinDeviceProof.

(* join_guard (Proof/JoinProof.v): the MIC over MHDR|AppEUI|DevEUI|DevNonce verifies under the
   named device's AppKey, the AppEUI is the device's, the DevNonce is unused (or the check is
   off) and the application exists. A join-request that fails it - forged, altered, wrong key,
   swapped EUIs, reused nonce - changes no keys, counters or nonces and is not answered:
   the device's whole state is unchanged and nothing is emitted. *)
Theorem C04_forged_no_effect :
  forall (E D : list N -> list N -> list N) cfg apps st f rx an na,
    (forall r, ds_row st = Some r -> join_guard E cfg apps st f (rx_raw rx) r = false) ->
    join_local E D cfg apps st f rx an na = (st, []).
Proof. exact join_refused. Qed.

(* An honoured join-request is answered with exactly one join-accept (RX1 delay 5) and the
   device row then holds the new session with zeroed counters; nothing else changes. *)
Theorem C04_honoured :
  forall (E D : list N -> list N -> list N) cfg apps st f rx an na r,
    ds_row st = Some r -> join_guard E cfg apps st f (rx_raw rx) r = true -> valid_datr rx ->
    let res := join_local E D cfg apps st f rx an na in
    ds_row (fst res) = Some (session_of E cfg r f an na) /\
    ds_nonces (fst res) = (if cfg_disable_nonce_check cfg then ds_nonces st else ds_nonces st ++ [jr_devnonce (jr f)]) /\
    ds_inbox (fst res) = ds_inbox st /\ ds_outbox (fst res) = ds_outbox st /\ fb_down (fst res) /\
    exists buf, encode_join_accept E D (d_appkey r) JoinAccept c_MaxSupportedVersion (accept_of cfg r an na) = Ok buf /\
      snd res = [ODown {| dl_raw := buf; dl_radio := rx_radio rx; dl_gw := rx_gw rx; dl_rx1delay := 5; dl_eui := d_eui r |}].
Proof. exact join_honoured. Qed.

(* A conformant device (Spec/RefDevice.v: decrypts with an AES encrypt, checks the MIC, derives
   the keys from the octets on the air) obtains from that join-accept exactly the address and
   session keys the server stored - for every AppKey, AppNonce, NetID, DevNonce and address,
   and every block cipher whose decryption inverts its encryption. *)
Theorem C04_session_agrees :
  forall (E D : list N -> list N -> list N),
    (forall k b, length (E k b) = 16%nat /\ bytes_ok (E k b) = true) ->
    (forall k b, length (D k b) = 16%nat) ->
    (forall k b, length b = 16%nat -> E k (D k b) = b) ->
    forall cfg r an na d0 d1 buf,
      length an = 3%nat -> bytes_ok an = true -> (d0 < 256)%N -> (d1 < 256)%N ->
      ((if d_addr r =? 0 then na else d_addr r) < 4294967296)%N ->
      encode_join_accept E D (d_appkey r) JoinAccept c_MaxSupportedVersion (accept_of cfg r an na) = Ok buf ->
      ref_on_join_accept E (d_appkey r) [d0; d1] buf =
        Some ((if d_addr r =? 0 then na else d_addr r)%N,
              nwkskey_from_nonces E (d_appkey r) an (cfg_netid cfg) (be_val [d0; d1]),
              appskey_from_nonces E (d_appkey r) an (cfg_netid cfg) (be_val [d0; d1])).
Proof. exact device_derives_same_session. Qed.

(* The library's own device-side join-request encoder is byte-identical to the reference. *)
Theorem C04_lib_join_request :
  forall (E D : list N -> list N -> list N),
    (forall k b, length (E k b) = 16%nat /\ bytes_ok (E k b) = true) ->
    (forall k b, length (D k b) = 16%nat) ->
    (forall k b, length b = 16%nat -> E k (D k b) = b) ->
    forall appkey j,
      encode_join_request E appkey JoinRequest c_MaxSupportedVersion j =
        Ok (ref_join_request E appkey (le_bytes 8 (jr_appeui j)) (le_bytes 8 (jr_deveui j)) (be_bytes 2 (jr_devnonce j))).
Proof. exact encode_join_request_is_ref. Qed.
(* Forged join-requests handled AT THE SAME TIME as a genuine one, for every schedule: the pool is the genuine request's handler
   and any number of other handlers of the device - uplink handlers (any frames) and join handlers of requests whose MIC does
   not verify under the device's AppKey - interleaved operation by operation in every order and cut anywhere. Every join-accept
   that leaves answers the genuine request (the encoding, under the AppKey, of the record built from its AppNonce and the
   address), and when one has left the stored session is the one derived from the genuine request's DevNonce: whatever the
   interleaving, a forged request is not answered and does not change the keys. (The forced schedules of kind forged-join run
   this on the real pipeline.) *)
From Lospan Require Import Gen.Consts Model.Steps Proof.LocalProof Proof.SessionDataProof Proof.SessionAcceptProof.
Theorem C04_forged_joins_alongside_a_genuine_one :
  forall (E D : list N -> list N -> list N) apps cfg jf jrx appnonce newaddr others sched fuel st r,
    ds_row st = Some r -> fb_noja st -> Forall (bystander E D r) others ->
    let res := interleaveN apps sched fuel st (join_prog E D cfg jf jrx appnonce newaddr :: others) [] in
    let addr := if (d_addr r =? 0)%N then newaddr else d_addr r in
    Forall (fun raw => encode_join_accept E D (d_appkey r) JoinAccept c_MaxSupportedVersion
                         {| ja_appnonce := appnonce; ja_netid := N.land (cfg_netid cfg) 4294967295; ja_devaddr := devaddr_of_u32 addr;
                            ja_rx1droffset := 0; ja_rx2dr := 5; ja_rxdelay := 1 |} = Ok raw) (ja_raws (snd res)) /\
    (ja_raws (snd res) <> [] ->
     exists x, ds_row (fst res) = Some x /\
       d_nwkskey x = nwkskey_from_nonces E (d_appkey r) appnonce (cfg_netid cfg) (jr_devnonce (jr jf)) /\
       d_appskey x = appskey_from_nonces E (d_appkey r) appnonce (cfg_netid cfg) (jr_devnonce (jr jf)) /\
       d_addr x = addr /\ d_appkey x = d_appkey r).
Proof. exact forged_joins_alongside_a_genuine_one. Qed.


(* The library's device side of the join-accept (PHYPayload.DecodeJoinAccept, Model/Join.v decode_join_accept): for every cipher
   with 16-octet blocks, every key and every 17-octet message typed join-accept, it accepts exactly what a conformant device
   (Spec/RefDevice.v) accepts - and then obtains the same device address - and rejects the rest as ErrInvalidMIC. *)
Theorem C04_lib_join_accept :
  forall (E : list N -> list N -> list N),
    (forall k b, length (E k b) = 16%nat /\ bytes_ok (E k b) = true) ->
    forall appkey dn2 b0 enc, length enc = 16%nat -> (b0 / 32 = 1)%N ->
    match decode_join_accept E appkey (b0 :: enc) with
    | Ok j => exists nk ak, ref_on_join_accept E appkey dn2 (b0 :: enc) = Some (devaddr_u32 (ja_devaddr j), nk, ak)
    | Err e => e = ErrInvalidMIC /\ ref_on_join_accept E appkey dn2 (b0 :: enc) = None
    | Panic => False
    end.
Proof. exact library_device_accepts_what_the_reference_device_accepts. Qed.

Print Assumptions C04_forged_no_effect.
Print Assumptions C04_lib_join_accept.
Print Assumptions C04_honoured.
Print Assumptions C04_session_agrees.
Print Assumptions C04_lib_join_request.
Print Assumptions C04_forged_joins_alongside_a_genuine_one.
