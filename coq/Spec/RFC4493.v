(* RFC 4493 AES-CMAC, written from the RFC: subkeys by doubling in GF(2^128)
   stated on the 128-bit number, message consumed block by block with
   firstn/skipn. Deliberately not the byte-wise carry loop / index
   arithmetic of the Go code. *)
From Lospan Require Import Base.Bytes.
Open Scope nat_scope.

(* a block as the 128-bit number it denotes (big endian), and back *)
Definition be_num (l : list N) : N := be_val l.
Definition num_be (n : nat) (v : N) : list N := be_bytes n v.

Definition two128 : N := (2 ^ 128)%N.
(* multiplication by x in GF(2^128) with the polynomial x^128 + x^7 + x^2 + x + 1 *)
Definition gf_double (v : N) : N :=
  let s := ((2 * v) mod two128)%N in
  if (two128 <=? 2 * v)%N then N.lxor s 135 else s.

Definition pad (m : list N) : list N := m ++ 128%N :: repeat 0%N (15 - length m).

Section RFC.
  Variable E : list N -> list N -> list N.

  Definition rfc_subkeys (k : list N) : list N * list N :=
    let l := be_num (E k (repeat 0%N 16)) in
    let k1 := gf_double l in
    let k2 := gf_double k1 in
    (num_be 16 k1, num_be 16 k2).

  (* X := AES(K, X xor M_i) over all blocks but the last; the last block is
     xor-ed with K1 when complete, padded and xor-ed with K2 otherwise. *)
  Fixpoint rfc_go (fuel : nat) (k k1 k2 x m : list N) : list N :=
    match fuel with
    | O => []
    | S f =>
      if length m <=? 16 then
        (if length m =? 16 then E k (xorl (xorl m k1) x) else E k (xorl (xorl (pad m) k2) x))
      else rfc_go f k k1 k2 (E k (xorl x (firstn 16 m))) (skipn 16 m)
    end.
  Definition rfc4493 (k m : list N) : list N :=
    let '(k1, k2) := rfc_subkeys k in rfc_go (S (length m)) k k1 k2 (repeat 0%N 16) m.
End RFC.
