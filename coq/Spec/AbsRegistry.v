(* The registry as its users understand it: finite maps from EUI to what was stored, a set of
   nonces per device, and per-device message lists. No encodings, no SQL. This is the
   specification the storage model (Model/Registry.v) is proved to refine and the oracle the
   correspondence check applies to the implementation's own answers. *)
From Lospan Require Import Base.Bytes Model.RegistryTypes.
Open Scope N_scope.

Record astore := { a_apps : list rapp; a_devs : list rdev; a_nonces : list (N * N); a_gws : list gway;
                   a_ups : list upm; a_downs : list downm }.
Definition a_empty : astore := {| a_apps := []; a_devs := []; a_nonces := []; a_gws := []; a_ups := []; a_downs := [] |}.

Definition nonces_of (s : astore) (e : N) : list N := map snd (filter (fun p => fst p =? e) (a_nonces s)).
Definition with_nonces (s : astore) (d : rdev) : rdev * list N := (d, nonces_of s (rd_eui d)).

(* ORDER BY on a signed key, ascending; stable *)
Section Sort.
  Context {A : Type} (key : A -> Z).
  Fixpoint insert_by (x : A) (l : list A) : list A :=
    match l with [] => [x] | h :: t => if (key x <? key h)%Z then x :: l else h :: insert_by x t end.
  Definition sort_by (l : list A) : list A := fold_right insert_by [] l.
End Sort.
Definition limit_of {A} (z : Z) (l : list A) : list A := if (z <? 0)%Z then l else firstn (Z.to_nat z) l.

Definition set_apps s v := {| a_apps := v; a_devs := a_devs s; a_nonces := a_nonces s; a_gws := a_gws s; a_ups := a_ups s; a_downs := a_downs s |}.
Definition set_devs s v := {| a_apps := a_apps s; a_devs := v; a_nonces := a_nonces s; a_gws := a_gws s; a_ups := a_ups s; a_downs := a_downs s |}.
Definition set_nonces s v := {| a_apps := a_apps s; a_devs := a_devs s; a_nonces := v; a_gws := a_gws s; a_ups := a_ups s; a_downs := a_downs s |}.
Definition set_gws s v := {| a_apps := a_apps s; a_devs := a_devs s; a_nonces := a_nonces s; a_gws := v; a_ups := a_ups s; a_downs := a_downs s |}.
Definition set_ups s v := {| a_apps := a_apps s; a_devs := a_devs s; a_nonces := a_nonces s; a_gws := a_gws s; a_ups := v; a_downs := a_downs s |}.
Definition set_downs s v := {| a_apps := a_apps s; a_devs := a_devs s; a_nonces := a_nonces s; a_gws := a_gws s; a_ups := a_ups s; a_downs := v |}.

Definition upd_dev (old new : rdev) : rdev :=   (* UpdateDevice: everything but the EUI and the application *)
  {| rd_eui := rd_eui old; rd_addr := rd_addr new; rd_appkey := rd_appkey new; rd_appskey := rd_appskey new;
     rd_nwkskey := rd_nwkskey new; rd_app := rd_app old; rd_state := rd_state new; rd_fup := rd_fup new;
     rd_fdn := rd_fdn new; rd_relaxed := rd_relaxed new; rd_kw := rd_kw new; rd_tag := rd_tag new |}.
Definition upd_dev_state (old : rdev) (fup fdn : N) (kw : bool) : rdev :=
  {| rd_eui := rd_eui old; rd_addr := rd_addr old; rd_appkey := rd_appkey old; rd_appskey := rd_appskey old;
     rd_nwkskey := rd_nwkskey old; rd_app := rd_app old; rd_state := rd_state old; rd_fup := fup;
     rd_fdn := fdn; rd_relaxed := rd_relaxed old; rd_kw := kw; rd_tag := rd_tag old |}.
Definition dn_times (old : downm) (sent ackt : Z) (fc : N) : downm :=
  {| dn_eui := dn_eui old; dn_data := dn_data old; dn_port := dn_port old; dn_ack := dn_ack old; dn_created := dn_created old;
     dn_sent := sent; dn_acktime := ackt; dn_fcnt := fc |}.
Definition upd_gw (old new : gway) : gway :=
  {| gw_eui := gw_eui old; gw_lat := gw_lat new; gw_lon := gw_lon new; gw_alt := gw_alt new; gw_ip := gw_ip new; gw_strict := gw_strict new |}.

Definition a_step (s : astore) (o : regop) : astore * regres :=
  match o with
  | CreateApplication a =>
    if existsb (fun x => ap_eui x =? ap_eui a) (a_apps s) then (s, RFailed) else (set_apps s (a_apps s ++ [a]), ROk)
  | DeleteApplication e =>
    if existsb (fun x => ap_eui x =? e) (a_apps s) then (set_apps s (filter (fun x => negb (ap_eui x =? e)) (a_apps s)), ROk) else (s, RNotFound)
  | GetApplicationByEUI e =>
    (s, match find (fun x => ap_eui x =? e) (a_apps s) with Some a => RApp a | None => RNotFound end)
  | ListApplications => (s, RApps (a_apps s))
  | CreateDevice d =>
    if existsb (fun x => rd_eui x =? rd_eui d) (a_devs s) then (s, RFailed) else (set_devs s (a_devs s ++ [d]), ROk)
  | UpdateDevice d =>
    if existsb (fun x => rd_eui x =? rd_eui d) (a_devs s)
    then (set_devs s (map (fun x => if rd_eui x =? rd_eui d then upd_dev x d else x) (a_devs s)), ROk) else (s, RNotFound)
  | UpdateDeviceState e fup fdn kw =>
    if existsb (fun x => rd_eui x =? e) (a_devs s)
    then (set_devs s (map (fun x => if rd_eui x =? e then upd_dev_state x fup fdn kw else x) (a_devs s)), ROk) else (s, RNotFound)
  | DeleteDevice e =>
    if existsb (fun x => rd_eui x =? e) (a_devs s) then (set_devs s (filter (fun x => negb (rd_eui x =? e)) (a_devs s)), ROk) else (s, RNotFound)
  | GetDeviceByEUI e =>
    (s, match find (fun x => rd_eui x =? e) (a_devs s) with Some d => RDev d (nonces_of s e) | None => RNotFound end)
  | GetDeviceByDevAddr a => (s, RDevs (map (with_nonces s) (filter (fun x => rd_addr x =? a) (a_devs s))))
  | GetDevicesByApplicationEUI e => (s, RDevs (map (with_nonces s) (filter (fun x => rd_app x =? e) (a_devs s))))
  | AddDevNonce e n =>
    if existsb (fun p => (fst p =? e) && (snd p =? n)) (a_nonces s) then (s, RFailed) else (set_nonces s (a_nonces s ++ [(e, n)]), ROk)
  | CreateGateway g =>
    if existsb (fun x => gw_eui x =? gw_eui g) (a_gws s) then (s, RFailed) else (set_gws s (a_gws s ++ [g]), ROk)
  | UpdateGateway g =>
    if existsb (fun x => gw_eui x =? gw_eui g) (a_gws s)
    then (set_gws s (map (fun x => if gw_eui x =? gw_eui g then upd_gw x g else x) (a_gws s)), ROk) else (s, RNotFound)
  | DeleteGateway e =>
    if existsb (fun x => gw_eui x =? e) (a_gws s) then (set_gws s (filter (fun x => negb (gw_eui x =? e)) (a_gws s)), ROk) else (s, RNotFound)
  | GetGateway e => (s, match find (fun x => gw_eui x =? e) (a_gws s) with Some g => RGw g | None => RNotFound end)
  | GetGatewayList => (s, RGws (a_gws s))
  | CreateUpstreamMessage m =>
    if existsb (fun x => (up_eui x =? up_eui m) && (up_ts x =? up_ts m)%Z) (a_ups s) then (s, RFailed) else (set_ups s (a_ups s ++ [m]), ROk)
  | ListUpstreamMessages e lim =>
    (s, RUps (limit_of lim (rev (sort_by up_ts (filter (fun x => up_eui x =? e) (a_ups s))))))
  | CreateDownstreamMessage m =>
    if existsb (fun x => (dn_eui x =? dn_eui m) && (dn_created x =? dn_created m)%Z) (a_downs s) then (s, RFailed)
    else (set_downs s (a_downs s ++ [m]), ROk)
  | DeleteDownstreamMessage e c =>
    if existsb (fun x => (dn_eui x =? e) && (dn_created x =? c)%Z) (a_downs s)
    then (set_downs s (filter (fun x => negb ((dn_eui x =? e) && (dn_created x =? c)%Z)) (a_downs s)), ROk) else (s, RNotFound)
  | ListDownstreamMessages e =>
    (s, RDowns (firstn 100 (sort_by dn_created (filter (fun x => dn_eui x =? e) (a_downs s)))))
  | Reopen => (s, ROk)
  (* compare and store: the expected uplink counter moves to newfup only if it has not passed the accepted counter
     and the device is still in the session whose network key is given *)
  | AdvanceFCntUp e key a nf kw =>
    let hit x := (rd_eui x =? e) && (rd_fup x <=? a) && bytes_eqb (rd_nwkskey x) key in
    if existsb hit (a_devs s)
    then (set_devs s (map (fun x => if hit x then upd_dev_state x nf (rd_fdn x) kw else x) (a_devs s)), ROk) else (s, RNotFound)
  (* fetch and increment within the session: the stored downlink counter is handed out and its successor stored *)
  | NextFCntDn e key =>
    let hit x := (rd_eui x =? e) && bytes_eqb (rd_nwkskey x) key in
    match find hit (a_devs s) with
    | Some d => (set_devs s (map (fun x => if hit x then upd_dev_state x (rd_fup x) ((rd_fdn x + 1) mod 65536) (rd_kw x) else x) (a_devs s)), RCnt (rd_fdn d))
    | None => (s, RNotFound)
    end
  (* the message's transmission is recorded: when, and in answer to which uplink counter *)
  | SetMessageSentTime e c sent fc =>
    let hit x := (dn_eui x =? e) && (dn_created x =? c)%Z in
    if existsb hit (a_downs s)
    then (set_downs s (map (fun x => if hit x then dn_times x sent (dn_acktime x) fc else x) (a_downs s)), ROk) else (s, RNotFound)
  (* an ACK on uplink counter fc acknowledges what was transmitted in answer to fc and is not acknowledged yet *)
  | UpdateMessageAckTime e fc ackt =>
    let hit x := (dn_eui x =? e) && (dn_fcnt x =? fc) && (0 <? dn_sent x)%Z && (dn_acktime x =? 0)%Z in
    if existsb hit (a_downs s)
    then (set_downs s (map (fun x => if hit x then dn_times x (dn_sent x) ackt (dn_fcnt x) else x) (a_downs s)), ROk) else (s, RNotFound)
  (* transmitted, unacknowledged messages that ask for an acknowledgement become unsent again *)
  | ResetActiveAcks e =>
    let hit x := (dn_eui x =? e) && (0 <? dn_sent x)%Z && (dn_acktime x =? 0)%Z && dn_ack x in
    (set_downs s (map (fun x => if hit x then dn_times x 0%Z (dn_acktime x) 0 else x) (a_downs s)), ROk)
  (* the oldest unsent message of the device *)
  | GetNextUnsentMessage e =>
    (s, match sort_by dn_created (filter (fun x => (dn_eui x =? e) && (dn_sent x =? 0)%Z) (a_downs s)) with
        | m :: _ => RDowns [m]
        | [] => RNotFound
        end)
  end.

Fixpoint a_run (s : astore) (ops : list regop) : astore * list regres :=
  match ops with
  | [] => (s, [])
  | o :: t => let '(s1, r) := a_step s o in let '(s2, rs) := a_run s1 t in (s2, r :: rs)
  end.
