(* MAC command layouts typed in from LoRaWAN 1.0 sections 5 (class A) and 14
   (class B): for each command its payload size in bytes and, per field in the
   order of the Go struct, (bit offset, width) within the payload read as a
   little-endian number. Multi-byte fields are little endian, so a field is
   simply value * 2^offset. *)
From Lospan Require Import Base.Bytes.
Open Scope N_scope.

Definition layout_table : list (bool * N * (nat * list (N * N))) := [
  (true, 2, (0%nat, []));                                  (* LinkCheckReq *)
  (true, 3, (1%nat, [(2,1); (1,1); (0,1)]));               (* LinkADRAns: Power ACK b2, Data rate ACK b1, Channel mask ACK b0 *)
  (true, 4, (0%nat, []));                                  (* DutyCycleAns *)
  (true, 5, (1%nat, [(2,1); (1,1); (0,1)]));               (* RXParamSetupAns: RX1DRoffset ACK b2, RX2 Data rate ACK b1, Channel ACK b0 *)
  (true, 6, (2%nat, [(0,8); (8,6)]));                      (* DevStatusAns: Battery, Margin (bits 5..0) *)
  (true, 7, (1%nat, [(1,1); (0,1)]));                      (* NewChannelAns: Data rate range ok b1, Channel frequency ok b0 *)
  (true, 8, (0%nat, []));                                  (* RXTimingSetupAns *)
  (true, 16, (1%nat, [(4,3); (0,4)]));                     (* PingSlotInfoReq: Periodicity 6:4, Data rate 3:0 *)
  (true, 17, (1%nat, [(1,1); (0,1)]));                     (* PingSlotFreqAns: Data rate range ok b1, Channel frequency ok b0 *)
  (true, 18, (0%nat, []));                                 (* BeaconTimingReq *)
  (true, 19, (0%nat, []));                                 (* BeaconFreqAns *)
  (false, 2, (2%nat, [(0,8); (8,8)]));                     (* LinkCheckAns: Margin, GwCnt *)
  (false, 3, (4%nat, [(4,4); (0,4); (8,16); (24,8)]));     (* LinkADRReq: DataRate 7:4 | TXPower 3:0, ChMask, Redundancy *)
  (false, 4, (1%nat, [(0,8)]));                            (* DutyCycleReq: MaxDCycle *)
  (false, 5, (4%nat, [(4,3); (0,4); (8,24)]));             (* RXParamSetupReq: DLsettings (RX1DRoffset 6:4, RX2DataRate 3:0), Frequency *)
  (false, 6, (0%nat, []));                                 (* DevStatusReq *)
  (false, 7, (5%nat, [(0,8); (8,24); (36,4); (32,4)]));    (* NewChannelReq: ChIndex, Freq, DrRange (MaxDR 7:4, MinDR 3:0) *)
  (false, 8, (1%nat, [(0,4)]));                            (* RXTimingSetupReq: Del 3:0 *)
  (false, 16, (0%nat, []));                                (* PingSlotInfoAns *)
  (false, 17, (4%nat, [(0,24); (28,4); (24,4)]));          (* PingSlotChannelReq: Frequency, DrRange (Max DR 7:4, Min DR 3:0) *)
  (false, 18, (3%nat, [(0,16); (16,8)]));                  (* BeaconTimingAns: Delay, Channel *)
  (false, 19, (3%nat, [(0,24)]))].                         (* BeaconFreqReq: Frequency *)

Fixpoint layout_lookup (t : list (bool * N * (nat * list (N * N)))) (up : bool) (cid : N) :=
  match t with
  | [] => None
  | (u, c, r) :: rest => if Bool.eqb u up && (c =? cid) then Some r else layout_lookup rest up cid
  end.

Fixpoint layout_sum (lay : list (N * N)) (vs : list N) : N :=
  match lay, vs with
  | (off, _) :: l, v :: t => v * 2 ^ off + layout_sum l t
  | _, _ => 0
  end.
(* all values fit their fields, and there are exactly as many values as fields *)
Fixpoint layout_fits (lay : list (N * N)) (vs : list N) : bool :=
  match lay, vs with
  | [], [] => true
  | (_, w) :: l, v :: t => (v <? 2 ^ w) && layout_fits l t
  | _, _ => false
  end.
(* the specified payload (without the CID) *)
Definition layout_payload (up : bool) (cid : N) (vs : list N) : option (list N) :=
  match layout_lookup layout_table up cid with
  | Some (len, lay) => if layout_fits lay vs then Some (le_bytes len (layout_sum lay vs)) else None
  | None => None
  end.
(* fields back from a payload of the specified size *)
Definition layout_fields (up : bool) (cid : N) (payload : list N) : option (list N) :=
  match layout_lookup layout_table up cid with
  | Some (len, lay) =>
    if (length payload =? len)%nat then Some (map (fun '(off, w) => (le_val payload / 2 ^ off) mod 2 ^ w) lay) else None
  | None => None
  end.
