(* What a subscription must receive: the events published for its identifier between its
   Subscribe and its Unsubscribe, in publication order. Channels are numbered by creation. *)
From Lospan Require Import Base.Bytes Model.Router.
Open Scope N_scope.

Fixpoint expected (ops : list rop) (next : N) (active : option N) (c : N) : list N :=
  match ops with
  | [] => []
  | RSub i :: t => if next =? c then expected t (next + 1) (Some i) c else expected t (next + 1) active c
  | RUnsub c' :: t => if c' =? c then expected t next None c else expected t next active c
  | RPub i e :: t =>
    match active with
    | Some j => if i =? j then e :: expected t next active c else expected t next active c
    | None => expected t next active c
    end
  end.
(* closed exactly when an Unsubscribe of it happened after its creation *)
Fixpoint expected_closed (ops : list rop) (next : N) (created closed : bool) (c : N) : bool :=
  match ops with
  | [] => closed
  | RSub _ :: t => expected_closed t (next + 1) (created || (next =? c)) closed c
  | RUnsub c' :: t => expected_closed t next created (closed || (created && (c' =? c))) c
  | RPub _ _ :: t => expected_closed t next created closed c
  end.
