(* A reference LoRaWAN 1.0 class A end device, written from the specification
   (sections 4.3.3, 4.4, 6.2.4, 6.2.5) over the bytes on the air; uses only
   RFC 4493 (Spec/RFC4493.v), never the models of the library. *)
From Lospan Require Import Base.Bytes Spec.RFC4493.
Open Scope N_scope.

Section RefDevice.
  Variable E : list N -> list N -> list N.

  Definition mic4 (key msg : list N) : list N := firstn 4 (rfc4493 E key msg).

  (* 4.3.3.1: A_i = 0x01 | 4 x 0x00 | Dir | DevAddr (LE) | FCnt (LE, 32 bit) | 0x00 | i *)
  Definition ref_a (dir addr fcnt i : N) : list N :=
    [1; 0; 0; 0; 0; dir] ++ le_bytes 4 addr ++ le_bytes 4 fcnt ++ [0; i].
  Fixpoint ref_stream (key : list N) (dir addr fcnt : N) (i : N) (blocks : nat) : list N :=
    match blocks with O => [] | S b => E key (ref_a dir addr fcnt i) ++ ref_stream key dir addr fcnt (i + 1) b end.
  Definition ref_crypt (key : list N) (dir addr fcnt : N) (p : list N) : list N :=
    xorl p (ref_stream key dir addr fcnt 1 (Nat.div (length p + 15) 16)).

  (* 4.4: B0 = 0x49 | 4 x 0x00 | Dir | DevAddr | FCnt | 0x00 | len(msg);  MIC = cmac(NwkSKey, B0 | msg)[0..3] *)
  Definition ref_b0 (dir addr fcnt : N) (len : nat) : list N :=
    [73; 0; 0; 0; 0; dir] ++ le_bytes 4 addr ++ le_bytes 4 fcnt ++ [0; N.of_nat len].
  Definition ref_mic (nwkskey : list N) (dir addr fcnt : N) (msg : list N) : list N :=
    mic4 nwkskey (ref_b0 dir addr fcnt (length msg) ++ msg).

  (* an uplink data frame: mtype 2 (unconfirmed) or 4 (confirmed); fctrl is the flag nibble
     (ADR, ADRACKReq, ACK, ClassB) shifted into bits 7..4; fopts at most 15 bytes *)
  Definition ref_uplink (nwkskey appskey : list N) (mtype addr fcnt fctrl_hi : N) (fopts : list N)
             (port : N) (payload : list N) : list N :=
    let key := if port =? 0 then nwkskey else appskey in
    let msg := [mtype * 32] ++ le_bytes 4 addr ++ [fctrl_hi * 16 + N.of_nat (length fopts)] ++ le_bytes 2 fcnt ++
               fopts ++ [port] ++ ref_crypt key 0 addr fcnt payload in
    msg ++ ref_mic nwkskey 0 addr fcnt msg.

  (* what the device recovers from a downlink addressed to it: (mtype, ack flag, fcnt16, port, plaintext) or None *)
  Definition ref_on_downlink (nwkskey appskey : list N) (addr : N) (frame : list N)
    : option (N * bool * N * option N * list N) :=
    let n := length frame in
    if (n <? 12)%nat then None
    else
      let msg := firstn (n - 4) frame in
      let mhdr := nth 0 frame 0 in
      let mtype := mhdr / 32 in
      let faddr := le_val (firstn 4 (skipn 1 frame)) in
      let fctrl := nth 5 frame 0 in
      let fcnt := le_val (firstn 2 (skipn 6 frame)) in
      let fol := N.to_nat (fctrl mod 16) in
      if negb ((mtype =? 3) || (mtype =? 5)) || negb (faddr =? addr) || (n <? 12 + fol)%nat then None
      else if negb (bytes_eqb (ref_mic nwkskey 1 addr fcnt msg) (skipn (n - 4) frame)) then None
      else
        let body := firstn (n - 12 - fol) (skipn (8 + fol) frame) in
        match body with
        | [] => Some (mtype, (fctrl / 32) mod 2 =? 1, fcnt, None, [])
        | port :: enc =>
          let key := if port =? 0 then nwkskey else appskey in
          Some (mtype, (fctrl / 32) mod 2 =? 1, fcnt, Some port, ref_crypt key 1 addr fcnt enc)
        end.

  (* 6.2.4: join-request = MHDR(0x00) | AppEUI (LE) | DevEUI (LE) | DevNonce (2) | MIC, MIC = cmac(AppKey, first 19 bytes) *)
  Definition ref_join_request (appkey appeui_le deveui_le devnonce2 : list N) : list N :=
    let msg := [0] ++ appeui_le ++ deveui_le ++ devnonce2 in
    msg ++ mic4 appkey msg.

  (* 6.2.5: the device decrypts the join-accept with an AES *encrypt*, checks the MIC over
     MHDR | AppNonce | NetID | DevAddr | DLSettings | RxDelay and derives the session keys from
     the octets as received *)
  Definition ref_session_key (appkey : list N) (prefix : N) (appnonce3 netid3 devnonce2 : list N) : list N :=
    E appkey ([prefix] ++ appnonce3 ++ netid3 ++ devnonce2 ++ repeat 0 7).
  Definition ref_on_join_accept (appkey devnonce2 : list N) (ja : list N) : option (N * list N * list N) :=
    match ja with
    | mhdr :: enc =>
      if negb (length enc =? 16)%nat || negb (mhdr / 32 =? 1) then None
      else
        let dec := E appkey enc in
        let body := firstn 12 dec in
        if negb (bytes_eqb (mic4 appkey (mhdr :: body)) (skipn 12 dec)) then None
        else
          let an := firstn 3 dec in
          let ni := firstn 3 (skipn 3 dec) in
          Some (le_val (firstn 4 (skipn 6 dec)),
                ref_session_key appkey 1 an ni devnonce2, ref_session_key appkey 2 an ni devnonce2)
    | [] => None
    end.
End RefDevice.
