(* LoRaWAN 1.0 data-frame layout (section 4), written from the specification:
     PHYPayload = MHDR(1) | DevAddr(4, little endian) | FCtrl(1) | FCnt(2, little endian)
                  | FOpts(FOptsLen = FCtrl[3:0]) | [ FPort(1) | FRMPayload ] | MIC(4, little endian)
   arithmetic (/, mod) instead of masks and shifts; no cursor. *)
From Lospan Require Import Base.Bytes Model.FrameTypes Spec.MacLayout.
Open Scope nat_scope.

Record sframe := { s_mtype : N; s_major : N; s_addr : N; s_fctrl : N; s_fcnt : N;
                   s_fopts : list N; s_port : option N; s_payload : list N; s_mic : N }.

Definition spec_decode (bs : list N) : option sframe :=
  let n := length bs in
  if n <? 12 then None
  else
    let mhdr := nth 0 bs 0%N in
    let fctrl := nth 5 bs 0%N in
    let fol := N.to_nat (fctrl mod 16) in
    if n <? 12 + fol then None
    else
      let body := firstn (n - 12 - fol) (skipn (8 + fol) bs) in
      Some {| s_mtype := (mhdr / 32)%N; s_major := (mhdr mod 4)%N;
              s_addr := le_val (firstn 4 (skipn 1 bs)); s_fctrl := fctrl;
              s_fcnt := le_val (firstn 2 (skipn 6 bs)); s_fopts := firstn fol (skipn 8 bs);
              s_port := hd_error body; s_payload := tl body; s_mic := le_val (skipn (n - 4) bs) |}.

Definition s_adr g := ((s_fctrl g / 128) mod 2 =? 1)%N.
Definition s_adrackreq g := ((s_fctrl g / 64) mod 2 =? 1)%N.
Definition s_ack g := ((s_fctrl g / 32) mod 2 =? 1)%N.
Definition s_fpending g := ((s_fctrl g / 16) mod 2 =? 1)%N.
Definition s_is_data g : bool := (2 <=? s_mtype g)%N && (s_mtype g <=? 5)%N.
Definition s_uplink g : bool := (s_mtype g =? 2)%N || (s_mtype g =? 4)%N.

(* An option string is a sequence of commands CID | payload whose sizes are those of the
   specified layouts; it is read up to the first unknown CID or truncated command. *)
Fixpoint spec_segments (fuel : nat) (up : bool) (opts : list N) : list (N * list N) :=
  match fuel with
  | O => []
  | S fuel' =>
    match opts with
    | [] => []
    | cid :: rest =>
      match layout_lookup layout_table up cid with
      | Some (len, _) => if length rest <? len then []
                         else (cid, firstn len rest) :: spec_segments fuel' up (skipn len rest)
      | None => []
      end
    end
  end.
Definition spec_cmds (up : bool) (opts : list N) := spec_segments (length opts) up opts.
Fixpoint segments_size (l : list (N * list N)) : nat :=
  match l with [] => 0 | (_, p) :: t => S (length p) + segments_size t end.

(* a repeated command replaces the earlier one; the set is reported in CID order *)
Fixpoint sinsert (c : N * list N) (l : list (N * list N)) : list (N * list N) :=
  match l with
  | [] => [c]
  | h :: t => if (fst c <? fst h)%N then c :: l else if (fst c =? fst h)%N then c :: t else h :: sinsert c t
  end.
Definition spec_set (l : list (N * list N)) : list (N * list N) := fold_left (fun acc c => sinsert c acc) l [].
