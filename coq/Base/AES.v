(* Executable AES-128 (FIPS-197), used only to RUN the models (correspondence,
   witnesses). Theorems are proved over an abstract block cipher E/D. *)
From Lospan Require Import Base.Bytes.
Open Scope N_scope.

Definition sbox_tab : list N := [99; 124; 119; 123; 242; 107; 111; 197; 48; 1; 103; 43; 254; 215; 171; 118; 202; 130; 201; 125; 250; 89; 71; 240; 173; 212; 162; 175; 156; 164; 114; 192; 183; 253; 147; 38; 54; 63; 247; 204; 52; 165; 229; 241; 113; 216; 49; 21; 4; 199; 35; 195; 24; 150; 5; 154; 7; 18; 128; 226; 235; 39; 178; 117; 9; 131; 44; 26; 27; 110; 90; 160; 82; 59; 214; 179; 41; 227; 47; 132; 83; 209; 0; 237; 32; 252; 177; 91; 106; 203; 190; 57; 74; 76; 88; 207; 208; 239; 170; 251; 67; 77; 51; 133; 69; 249; 2; 127; 80; 60; 159; 168; 81; 163; 64; 143; 146; 157; 56; 245; 188; 182; 218; 33; 16; 255; 243; 210; 205; 12; 19; 236; 95; 151; 68; 23; 196; 167; 126; 61; 100; 93; 25; 115; 96; 129; 79; 220; 34; 42; 144; 136; 70; 238; 184; 20; 222; 94; 11; 219; 224; 50; 58; 10; 73; 6; 36; 92; 194; 211; 172; 98; 145; 149; 228; 121; 231; 200; 55; 109; 141; 213; 78; 169; 108; 86; 244; 234; 101; 122; 174; 8; 186; 120; 37; 46; 28; 166; 180; 198; 232; 221; 116; 31; 75; 189; 139; 138; 112; 62; 181; 102; 72; 3; 246; 14; 97; 53; 87; 185; 134; 193; 29; 158; 225; 248; 152; 17; 105; 217; 142; 148; 155; 30; 135; 233; 206; 85; 40; 223; 140; 161; 137; 13; 191; 230; 66; 104; 65; 153; 45; 15; 176; 84; 187; 22]%N.
Definition isbox_tab : list N := [82; 9; 106; 213; 48; 54; 165; 56; 191; 64; 163; 158; 129; 243; 215; 251; 124; 227; 57; 130; 155; 47; 255; 135; 52; 142; 67; 68; 196; 222; 233; 203; 84; 123; 148; 50; 166; 194; 35; 61; 238; 76; 149; 11; 66; 250; 195; 78; 8; 46; 161; 102; 40; 217; 36; 178; 118; 91; 162; 73; 109; 139; 209; 37; 114; 248; 246; 100; 134; 104; 152; 22; 212; 164; 92; 204; 93; 101; 182; 146; 108; 112; 72; 80; 253; 237; 185; 218; 94; 21; 70; 87; 167; 141; 157; 132; 144; 216; 171; 0; 140; 188; 211; 10; 247; 228; 88; 5; 184; 179; 69; 6; 208; 44; 30; 143; 202; 63; 15; 2; 193; 175; 189; 3; 1; 19; 138; 107; 58; 145; 17; 65; 79; 103; 220; 234; 151; 242; 207; 206; 240; 180; 230; 115; 150; 172; 116; 34; 231; 173; 53; 133; 226; 249; 55; 232; 28; 117; 223; 110; 71; 241; 26; 113; 29; 41; 197; 137; 111; 183; 98; 14; 170; 24; 190; 27; 252; 86; 62; 75; 198; 210; 121; 32; 154; 219; 192; 254; 120; 205; 90; 244; 31; 221; 168; 51; 136; 7; 199; 49; 177; 18; 16; 89; 39; 128; 236; 95; 96; 81; 127; 169; 25; 181; 74; 13; 45; 229; 122; 159; 147; 201; 156; 239; 160; 224; 59; 77; 174; 42; 245; 176; 200; 235; 187; 60; 131; 83; 153; 97; 23; 43; 4; 126; 186; 119; 214; 38; 225; 105; 20; 99; 85; 33; 12; 125]%N.

Definition lookup_tab (t : list N) (i : N) : N := nth (N.to_nat i) t 0.
Definition sbox := lookup_tab sbox_tab.
Definition isbox := lookup_tab isbox_tab.

Definition xtime (a : N) : N :=
  let a2 := a * 2 in if 256 <=? a2 then N.lxor (a2 - 256) 27 else a2.
Definition gmul2 := xtime.
Definition gmul3 a := N.lxor (xtime a) a.
Definition gmul4 a := xtime (xtime a).
Definition gmul8 a := xtime (gmul4 a).
Definition gmul9 a := N.lxor (gmul8 a) a.
Definition gmul11 a := N.lxor (N.lxor (gmul8 a) (gmul2 a)) a.
Definition gmul13 a := N.lxor (N.lxor (gmul8 a) (gmul4 a)) a.
Definition gmul14 a := N.lxor (N.lxor (gmul8 a) (gmul4 a)) (gmul2 a).

Definition x4 a b c d := N.lxor (N.lxor a b) (N.lxor c d).

(* state = 16 bytes, column major (byte i is row i mod 4, column i / 4) *)
Definition shift_rows (s : list N) : list N :=
  match s with
  | [s0;s1;s2;s3;s4;s5;s6;s7;s8;s9;s10;s11;s12;s13;s14;s15] =>
    [s0;s5;s10;s15;s4;s9;s14;s3;s8;s13;s2;s7;s12;s1;s6;s11]
  | _ => s end.
Definition inv_shift_rows (s : list N) : list N :=
  match s with
  | [s0;s1;s2;s3;s4;s5;s6;s7;s8;s9;s10;s11;s12;s13;s14;s15] =>
    [s0;s13;s10;s7;s4;s1;s14;s11;s8;s5;s2;s15;s12;s9;s6;s3]
  | _ => s end.
Definition mixcol a b c d : list N :=
  [x4 (gmul2 a) (gmul3 b) c d; x4 a (gmul2 b) (gmul3 c) d;
   x4 a b (gmul2 c) (gmul3 d); x4 (gmul3 a) b c (gmul2 d)].
Definition imixcol a b c d : list N :=
  [x4 (gmul14 a) (gmul11 b) (gmul13 c) (gmul9 d); x4 (gmul9 a) (gmul14 b) (gmul11 c) (gmul13 d);
   x4 (gmul13 a) (gmul9 b) (gmul14 c) (gmul11 d); x4 (gmul11 a) (gmul13 b) (gmul9 c) (gmul14 d)].
Fixpoint cols (f : N -> N -> N -> N -> list N) (s : list N) : list N :=
  match s with
  | a :: b :: c :: d :: t => f a b c d ++ cols f t
  | _ => []
  end.
Definition mix_columns := cols mixcol.
Definition inv_mix_columns := cols imixcol.

(* key schedule: list of 11 round keys *)
Definition rcons : list N := [1;2;4;8;16;32;64;128;27;54].
Definition next_rk (rc : N) (k : list N) : list N :=
  match k with
  | [k0;k1;k2;k3;k4;k5;k6;k7;k8;k9;k10;k11;k12;k13;k14;k15] =>
    let t0 := N.lxor (N.lxor (sbox k13) rc) k0 in
    let t1 := N.lxor (sbox k14) k1 in
    let t2 := N.lxor (sbox k15) k2 in
    let t3 := N.lxor (sbox k12) k3 in
    let t4 := N.lxor t0 k4 in let t5 := N.lxor t1 k5 in let t6 := N.lxor t2 k6 in let t7 := N.lxor t3 k7 in
    let t8 := N.lxor t4 k8 in let t9 := N.lxor t5 k9 in let t10 := N.lxor t6 k10 in let t11 := N.lxor t7 k11 in
    let t12 := N.lxor t8 k12 in let t13 := N.lxor t9 k13 in let t14 := N.lxor t10 k14 in let t15 := N.lxor t11 k15 in
    [t0;t1;t2;t3;t4;t5;t6;t7;t8;t9;t10;t11;t12;t13;t14;t15]
  | _ => k end.
Fixpoint expand (rcs : list N) (k : list N) : list (list N) :=
  match rcs with [] => [k] | rc :: t => k :: expand t (next_rk rc k) end.
Definition round_keys (k : list N) : list (list N) := expand rcons k.

Fixpoint enc_rounds (rks : list (list N)) (s : list N) : list N :=
  match rks with
  | [] => s
  | [rk] => xorl (shift_rows (map sbox s)) rk
  | rk :: t => enc_rounds t (xorl (mix_columns (shift_rows (map sbox s))) rk)
  end.
Definition aes_enc (k b : list N) : list N :=
  match round_keys k with
  | rk0 :: t => enc_rounds t (xorl b rk0)
  | [] => b end.

Fixpoint dec_rounds (rks : list (list N)) (s : list N) : list N :=
  (* rks in reverse order, without the last (= first) one *)
  match rks with
  | [] => s
  | rk :: t => dec_rounds t (inv_mix_columns (xorl (map isbox (inv_shift_rows s)) rk))
  end.
Definition aes_dec (k b : list N) : list N :=
  match rev (round_keys k) with
  | rkl :: t =>
    let s := xorl b rkl in
    match rev t with
    | rk0 :: mids => xorl (map isbox (inv_shift_rows (dec_rounds (rev mids) s))) rk0
    | [] => s end
  | [] => b end.

(* FIPS-197 appendix C.1 and B *)
Definition hexkey : list N := [0;1;2;3;4;5;6;7;8;9;10;11;12;13;14;15].
Definition fips_pt : list N := [0;17;34;51;68;85;102;119;136;153;170;187;204;221;238;255].
Definition fips_ct : list N := [105;196;224;216;106;123;4;48;216;205;183;128;112;180;197;90].
Example aes_fips197_c1 : aes_enc hexkey fips_pt = fips_ct.
Proof. vm_compute. reflexivity. Qed.
Example aes_fips197_c1_dec : aes_dec hexkey fips_ct = fips_pt.
Proof. vm_compute. reflexivity. Qed.
