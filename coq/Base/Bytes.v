(* Bytes, little/big endian words, xor: shared by every model and spec. *)
From Coq Require Export List NArith ZArith Arith Bool Lia.
Export ListNotations.
Open Scope nat_scope.

Definition byte := N.
Definition byte_ok (b : N) : bool := N.ltb b 256.
Definition bytes_ok (l : list N) : bool := forallb byte_ok l.

Fixpoint map2 {A B C} (f : A -> B -> C) (l1 : list A) (l2 : list B) : list C :=
  match l1, l2 with a :: t1, b :: t2 => f a b :: map2 f t1 t2 | _, _ => [] end.
Definition xorl : list N -> list N -> list N := map2 N.lxor.

Definition zeros (n : nat) : list N := repeat 0%N n.

(* little-endian rendering of a number on n bytes (truncating) *)
Fixpoint le_bytes (n : nat) (v : N) : list N :=
  match n with O => [] | S n' => N.modulo v 256 :: le_bytes n' (N.div v 256) end.
Fixpoint le_val (l : list N) : N :=
  match l with [] => 0%N | b :: t => (b + 256 * le_val t)%N end.
Definition be_bytes (n : nat) (v : N) : list N := rev (le_bytes n v).
Definition be_val (l : list N) : N := le_val (rev l).

Definition bit (v : N) (i : N) : bool := N.testbit v i.
Definition b2n (b : bool) : N := if b then 1%N else 0%N.

Fixpoint list_eqb {A} (eqb : A -> A -> bool) (l1 l2 : list A) : bool :=
  match l1, l2 with
  | [], [] => true
  | a :: t1, b :: t2 => eqb a b && list_eqb eqb t1 t2
  | _, _ => false
  end.
Definition bytes_eqb := list_eqb N.eqb.

Lemma list_eqb_spec {A} (eqb : A -> A -> bool) :
  (forall a b, eqb a b = true <-> a = b) ->
  forall l1 l2, list_eqb eqb l1 l2 = true <-> l1 = l2.
Proof.
  intros H l1; induction l1 as [|a t1 IH]; intros [|b t2]; cbn; try (split; congruence).
  rewrite andb_true_iff, H, IH. split; [intros [-> ->]; reflexivity | intros [= -> ->]; auto].
Qed.
Lemma bytes_eqb_spec l1 l2 : bytes_eqb l1 l2 = true <-> l1 = l2.
Proof. apply list_eqb_spec. intros; apply N.eqb_eq. Qed.

Lemma map2_length {A B C} (f : A -> B -> C) l1 l2 :
  length (map2 f l1 l2) = Nat.min (length l1) (length l2).
Proof. revert l2; induction l1 as [|a t IH]; intros [|b t2]; cbn; auto. Qed.
Lemma xorl_length l1 l2 : length (xorl l1 l2) = Nat.min (length l1) (length l2).
Proof. apply map2_length. Qed.
Lemma le_bytes_length n v : length (le_bytes n v) = n.
Proof. revert v; induction n; cbn; auto. Qed.
