(* Outcomes of Go functions: a value, one of the exported error values, or a
   run-time panic (index / slice bounds). *)
From Lospan Require Import Base.Bytes.

Inductive err :=
  | ErrBufferTruncated | ErrNilError | ErrParameterOutOfRange | ErrInvalidParameterFormat
  | ErrCryptoError | ErrInvalidSource | ErrInvalidMessageType | ErrInvalidLoRaWANVersion
  | ErrUnknownMAC | ErrInvalidMIC | ErrOutOfFuel | ErrOther.

Inductive outcome (A : Type) := Ok (a : A) | Err (e : err) | Panic.
Arguments Ok {A} a. Arguments Err {A} e. Arguments Panic {A}.

Definition bind {A B} (o : outcome A) (f : A -> outcome B) : outcome B :=
  match o with Ok a => f a | Err e => Err e | Panic => Panic end.
Notation "'do' x <- o ; k" := (bind o (fun x => k)) (at level 200, x pattern, o at level 100, k at level 200).

Definition err_code (e : err) : N :=
  match e with
  | ErrBufferTruncated => 1 | ErrNilError => 2 | ErrParameterOutOfRange => 3 | ErrInvalidParameterFormat => 4
  | ErrCryptoError => 5 | ErrInvalidSource => 6 | ErrInvalidMessageType => 7 | ErrInvalidLoRaWANVersion => 8
  | ErrUnknownMAC => 9 | ErrInvalidMIC => 10 | ErrOutOfFuel => 11 | ErrOther => 12 end%N.

(* Go slices: the backing array from the slice start up to cap, and len. *)
Record slice := { arr : list N; slen : nat }.
Definition vis (s : slice) : list N := firstn (slen s) (arr s).
Definition scap (s : slice) : nat := length (arr s).
Definition mk_slice (v spare : list N) : slice := {| arr := v ++ spare; slen := length v |}.

(* s[i]: panics unless i < len *)
Definition rd (s : slice) (i : nat) : outcome N :=
  if i <? slen s then match nth_error (arr s) i with Some b => Ok b | None => Panic end else Panic.
(* s[lo:hi]: panics unless lo <= hi <= cap; the result is the bytes lo..hi *)
Definition sub (s : slice) (lo hi : nat) : outcome (list N) :=
  if (lo <=? hi) && (hi <=? scap s) then Ok (firstn (hi - lo) (skipn lo (arr s))) else Panic.
