(* Model of pkg/protocol/mac.go, mac_a.go, mac_b.go, maccommandset.go.
   A command is (macBase.uplink, macBase.id, field values in struct order,
   booleans as 0/1). Lengths come from the generated mac_table. *)
From Lospan Require Import Base.Bytes Base.Outcome Model.FrameTypes Gen.Consts.
Open Scope N_scope.

Definition u8 (x : N) : N := N.land x 255.
Definition shl8 (x k : N) : N := N.land (N.shiftl x k) 255.       (* uint8 << k *)
Definition nz (x : N) : bool := negb (x =? 0).
Definition bitval (x : N) (v : N) : N := if nz x then v else 0.
Definition tb (b mask : N) : N := if N.land b mask =? 0 then 0 else 1.  (* b & mask != 0 *)

(* lookup in the generated table: factory direction and CID -> (Length, macBase id, macBase uplink, #fields) *)
Fixpoint mac_lookup (t : list (bool * N * nat * (N * bool * nat))) (up : bool) (cid : N)
  : option (nat * (N * bool * nat)) :=
  match t with
  | [] => None
  | (u, c, l, info) :: r => if Bool.eqb u up && (c =? cid) then Some (l, info) else mac_lookup r up cid
  end.
(* NewUplinkMACCommand / NewDownlinkMACCommand: a zero-valued command or nil *)
Definition new_cmd (up : bool) (cid : N) : option cmd :=
  match mac_lookup mac_table up cid with
  | Some (_, (bid, bup, nf)) => Some {| c_up := bup; c_cid := bid; c_fields := repeat 0 nf |}
  | None => None
  end.
(* cmd.Length(): by the command's own (uplink, id) *)
Definition cmd_len (c : cmd) : nat :=
  match mac_lookup mac_table (c_up c) (c_cid c) with Some (l, _) => l | None => 0%nat end.

(* payload bytes (after the CID) exactly as the encode methods compute them *)
Definition cmd_payload_enc (up : bool) (cid : N) (fs : list N) : option (list N) :=
  match up, cid, fs with
  | true, 2, [] => Some []                                                          (* LinkCheckReq *)
  | true, 3, [p; d; c] => Some [N.lor (N.lor (bitval p 4) (bitval d 2)) (bitval c 1)] (* LinkADRAns *)
  | true, 4, [] => Some []                                                          (* DutyCycleAns *)
  | true, 5, [a; b; c] => Some [N.lor (N.lor (bitval a 4) (bitval b 2)) (bitval c 1)] (* RXParamSetupAns *)
  | true, 6, [bat; mar] => Some [u8 bat; N.land mar 63]                              (* DevStatusAns *)
  | true, 7, [d; c] => Some [N.lor (bitval d 2) (bitval c 1)]                        (* NewChannelAns *)
  | true, 8, [] => Some []                                                          (* RXTimingSetupAns *)
  | true, 16, [per; dr] => Some [N.lor (shl8 (N.land per 7) 4) (N.land dr 15)]       (* PingSlotInfoReq *)
  | true, 17, [d; c] => Some [N.lor (bitval d 2) (bitval c 1)]                       (* PingSlotFreqAns *)
  | true, 18, [] => Some []                                                         (* BeaconTimingReq *)
  | true, 19, [] => Some []                                                         (* BeaconFreqAns *)
  | false, 2, [m; g] => Some [u8 m; u8 g]                                            (* LinkCheckAns *)
  | false, 3, [dr; txp; mask; red] =>                                                (* LinkADRReq *)
      Some (N.lor (shl8 dr 4) (N.land txp 15) :: le_bytes 2 mask ++ [u8 red])
  | false, 4, [m] => Some [u8 m]                                                     (* DutyCycleReq *)
  | false, 5, [rx1; rx2; f] =>                                                       (* RXParamSetupReq *)
      Some [N.lor (shl8 (N.land rx1 7) 4) (N.land rx2 15);
            u8 (N.land f 255); u8 (N.shiftr (N.land f 65280) 8); u8 (N.shiftr (N.land f 16711680) 16)]
  | false, 6, [] => Some []                                                         (* DevStatusReq *)
  | false, 7, [ch; f; maxdr; mindr] =>                                               (* NewChannelReq *)
      Some (u8 ch :: firstn 3 (le_bytes 4 (N.land f 16777215)) ++
            [N.lor (shl8 (N.land maxdr 15) 4) (N.land mindr 15)])
  | false, 8, [del] => Some [u8 (N.land del 15)]                                     (* RXTimingSetupReq *)
  | false, 16, [] => Some []                                                        (* PingSlotInfoAns *)
  | false, 17, [f; maxdr; mindr] =>                                                  (* PingSlotChannelReq *)
      Some [u8 (N.land f 255); u8 (N.shiftr (N.land f 65280) 8); u8 (N.shiftr (N.land f 16711680) 16);
            N.lor (shl8 (u8 (N.land maxdr 15)) 4) (u8 (N.land mindr 15))]
  | false, 18, [delay; ch] => Some (le_bytes 2 delay ++ [u8 ch])                     (* BeaconTimingAns *)
  | false, 19, [f] => Some (firstn 3 (le_bytes 4 f))                                 (* BeaconFreqReq *)
  | _, _, _ => None
  end.

(* field values from exactly Length()-1 payload bytes, as the decode methods compute them
   (NewChannelReq reads a fourth byte with Uint32 and masks it away) *)
Definition cmd_payload_dec (up : bool) (cid : N) (bs : list N) : option (list N) :=
  match up, cid, bs with
  | true, 2, [] => Some []
  | true, 3, [b] => Some [tb b 4; tb b 2; tb b 1]
  | true, 4, [] => Some []
  | true, 5, [b] => Some [tb b 4; tb b 2; tb b 1]
  | true, 6, [b0; b1] => Some [b0; b1]
  | true, 7, [b] => Some [tb b 2; tb b 1]
  | true, 8, [] => Some []
  | true, 16, [b] => Some [N.shiftr (N.land b 112) 4; N.land b 15]
  | true, 17, [b] => Some [tb b 2; tb b 1]
  | true, 18, [] => Some []
  | true, 19, [] => Some []
  | false, 2, [m; g] => Some [m; g]
  | false, 3, [b; m0; m1; r] => Some [N.shiftr (N.land b 240) 4; N.land b 15; le_val [m0; m1]; r]
  | false, 4, [m] => Some [m]
  | false, 5, [b; f0; f1; f2] =>
      Some [N.shiftr (N.land b 112) 4; N.land b 15; f0 + N.shiftl f1 8 + N.shiftl f2 16]
  | false, 6, [] => Some []
  | false, 7, [ch; f0; f1; f2; d] =>
      Some [ch; N.land (le_val [f0; f1; f2; d]) 16777215; N.shiftr (N.land d 240) 4; N.land d 15]
  | false, 8, [d] => Some [N.land d 15]
  | false, 16, [] => Some []
  | false, 17, [f0; f1; f2; d] =>
      Some [f0 + N.shiftl f1 8 + N.shiftl f2 16; N.shiftr (N.land d 240) 4; N.land d 15]
  | false, 18, [d0; d1; ch] => Some [le_val [d0; d1]; ch]
  | false, 19, [f0; f1; f2] => Some [N.shiftl f2 16 + N.shiftl f1 8 + f0]
  | _, _, _ => None
  end.

(* encodeID/decodeID guard: len(buffer) > pos + Length() *)
Definition valid_buffer (buflen pos : nat) (c : cmd) : bool := (pos + cmd_len c <? buflen)%nat.

(* cmd.encode(buffer, &pos): the bytes written at pos (the caller's buffer is
   otherwise untouched) *)
Definition cmd_encode (buflen pos : nat) (c : cmd) : outcome (list N) :=
  if valid_buffer buflen pos c then
    match cmd_payload_enc (c_up c) (c_cid c) (c_fields c) with
    | Some p => Ok (u8 (c_cid c) :: p)
    | None => Err ErrOther
    end
  else Err ErrBufferTruncated.

(* cmd.decode(buffer, &pos) on a zero command made by new_cmd: buffer bytes from pos on *)
Definition cmd_decode (buflen pos : nat) (c : cmd) (from_pos : list N) : outcome cmd :=
  if valid_buffer buflen pos c then
    match from_pos with
    | b :: rest =>
      if b =? u8 (c_cid c) then
        match cmd_payload_dec (c_up c) (c_cid c) (firstn (cmd_len c - 1) rest) with
        | Some fs => Ok {| c_up := c_up c; c_cid := c_cid c; c_fields := fs |}
        | None => Err ErrOther
        end
      else Err ErrInvalidSource
    | [] => Panic
    end
  else Err ErrBufferTruncated.

(* ---------------- MACCommandSet ---------------- *)
Definition new_set (msg : N) (max : Z) : cmdset := {| cs_cmds := []; cs_max := max; cs_msg := msg |}.
Definition set_encoded_length (s : cmdset) : nat := fold_right (fun c a => (cmd_len c + a)%nat) 0%nat (cs_cmds s).
Definition set_size (s : cmdset) : nat := length (cs_cmds s).

(* m.commands[cmd.ID()] = cmd on a map kept as a CID-sorted association list *)
Fixpoint insert_cmd (c : cmd) (l : list cmd) : list cmd :=
  match l with
  | [] => [c]
  | h :: t => if c_cid c <? c_cid h then c :: l
              else if c_cid c =? c_cid h then c :: t
              else h :: insert_cmd c t
  end.
Definition set_add (s : cmdset) (c : cmd) : cmdset * bool :=
  if (cs_max s <? Z.of_nat (set_encoded_length s + cmd_len c))%Z then (s, false)
  else if negb (Bool.eqb (c_up c) (mtype_uplink (cs_msg s))) then (s, false)
  else ({| cs_cmds := insert_cmd c (cs_cmds s); cs_max := cs_max s; cs_msg := cs_msg s |}, true).
Definition set_contains (s : cmdset) (cid : N) : bool := existsb (fun c => c_cid c =? cid) (cs_cmds s).
Definition set_remove (s : cmdset) (cid : N) : cmdset :=
  {| cs_cmds := filter (fun c => negb (c_cid c =? cid)) (cs_cmds s); cs_max := cs_max s; cs_msg := cs_msg s |}.
Definition set_clear (s : cmdset) : cmdset := {| cs_cmds := []; cs_max := cs_max s; cs_msg := cs_msg s |}.
Definition set_list (s : cmdset) : list cmd := cs_cmds s.

(* set.encode(buffer, &pos): each command of List() in turn *)
Fixpoint cmds_encode (buflen pos : nat) (l : list cmd) : outcome (list N) :=
  match l with
  | [] => Ok []
  | c :: t => do b <- cmd_encode buflen pos c;
              do r <- cmds_encode buflen (pos + length b) t;
              Ok (b ++ r)
  end.
Definition set_encode (buflen pos : nat) (s : cmdset) : outcome (list N) := cmds_encode buflen pos (cs_cmds s).

(* decodeBounded(buffer, &pos, end): region = buffer[pos:end], after = buffer[end:] (bytes
   a command decode may look at: the guard needs one byte beyond the command).
   Returns the set and the number of bytes consumed. Fuel = length of the region. *)
Fixpoint decode_bounded_go (fuel : nat) (buflen pos : nat) (s : cmdset) (region : list N) (consumed : nat)
  : outcome (cmdset * nat) :=
  match fuel with
  | O => match region with [] => Ok (s, consumed) | _ => Err ErrOutOfFuel end
  | S fuel' =>
    match region with
    | [] => Ok (s, consumed)
    | cid :: _ =>
      match new_cmd (mtype_uplink (cs_msg s)) cid with
      | None => Ok (s, consumed)
      | Some z =>
        if (length region <? cmd_len z)%nat then Ok (s, consumed)
        else
          do c <- cmd_decode buflen pos z region;
          let '(s', ok) := set_add s c in
          if ok then decode_bounded_go fuel' buflen (pos + cmd_len z) s' (skipn (cmd_len z) region) (consumed + cmd_len z)
          else Err ErrInvalidSource
      end
    end
  end.
Definition decode_bounded (buflen pos : nat) (s : cmdset) (region : list N) : outcome (cmdset * nat) :=
  decode_bounded_go (length region) buflen pos (set_clear s) region 0.
