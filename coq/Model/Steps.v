(* The per-frame handlers as sequences of atomic storage / output-buffer operations, in the order
   the code performs them (decrypter.go processMessage, otaa_join.go, scheduler.go sendAt,
   encoder.go processMessage). Each operation is atomic (one SQL statement under the storage
   mutex, or one method of the mutex-protected buffer); between two operations the process may
   die, another handler may prun, or the operation may fail. Run to completion the programs are the
   sequential model (Model/Server.v) - proved in Proof/StepsProof.v. *)
From Coq Require Import String.
From Lospan Require Import Base.Bytes Base.Outcome Model.CMAC Model.FrameTypes Model.Crypto Gen.Consts Model.MacCmd
  Model.Frame Model.Join Model.Store Model.Server.
Open Scope N_scope.

Inductive sop :=
| SGetRow                                   (* GetDeviceByDevAddr / GetDeviceByEUI: this device's row and nonces *)
| SUpdateState (dev : device)
| SAdvanceUp (key : list N) (accepted newfup : N) (kw : bool)   (* AdvanceFCntUp: compare and store in one statement, within the session *)
| SNextDn (key : list N)                                        (* NextFCntDn: reserve the next downlink counter of the session *)
| SCreateUpstream (m : umsg)
| SGetApp (eui : N)
| SSetAckFlag (b : bool)
| SUpdateAckTime (fc now : N)
| SResetAcks
| SGetNextUnsent
| SSetPayload (p : list N) (port : N) (ack : bool)
| SSetSentTime (created now fc : N)
| SGetPhy (datr : string)
| SEmit (d : downlink) (fc : N)             (* the encoder hands the frame to the gateway; fc: the FCntDn it carries *)
| SAddNonce (n : N)
| SUpdateDevice (dev : device)
| SSetJoinAccept (j : joinacc).

Inductive sres := XErr (e : option serr) | XRow (r : option device) | XMsg (m : option dmsg) | XPhy (g : getres) | XApp (b : bool) | XCnt (c : option N).

(* the name the gate hook reports for the operation *)
Definition sop_name (o : sop) : string :=
  match o with
  | SGetRow => "GetDevice" | SUpdateState _ => "UpdateDeviceState" | SAdvanceUp _ _ _ _ => "AdvanceFCntUp" | SNextDn _ => "NextFCntDn" | SCreateUpstream _ => "CreateUpstreamMessage"
  | SGetApp _ => "GetApplicationByEUI" | SSetAckFlag _ => "SetMessageAckFlag" | SUpdateAckTime _ _ => "UpdateMessageAckTime"
  | SResetAcks => "ResetActiveAcks" | SGetNextUnsent => "GetNextUnsentMessage" | SSetPayload _ _ _ => "SetPayload"
  | SSetSentTime _ _ _ => "SetMessageSentTime" | SGetPhy _ => "GetPHYPayloadForDevice" | SEmit _ _ => "handoff:encOutput"
  | SAddNonce _ => "AddDevNonce" | SUpdateDevice _ => "UpdateDevice" | SSetJoinAccept _ => "SetJoinAcceptPayload"
  end%string.

(* one atomic operation on the device's share of the state; what leaves for the gateway *)
Definition exec (apps : list N) (st : dstate) (o : sop) : dstate * sres * list out :=
  match o with
  | SGetRow => (st, XRow (match ds_row st with Some r => Some (load st r) | None => None end), [])
  | SUpdateState dev => let '(st', e) := l_update_device_state st dev in (st', XErr e, [])
  | SAdvanceUp key a nf kw => let '(st', e) := l_advance_fup st key a nf kw in (st', XErr e, [])
  | SNextDn key => let '(st', c) := l_next_fdn st key in (st', XCnt c, [])
  | SCreateUpstream m => let '(st', e) := l_create_upstream st m in (st', XErr e, [])
  | SGetApp eui => (st, XApp (has_app apps eui), [])
  | SSetAckFlag b => (l_set_ack_flag st b, XErr None, [])
  | SUpdateAckTime fc now => (l_update_ack_time st fc now, XErr None, [])
  | SResetAcks => (l_reset_active_acks st, XErr None, [])
  | SGetNextUnsent => (st, XMsg (l_get_next_unsent st), [])
  | SSetPayload p port ack => (l_set_payload st p port ack, XErr None, [])
  | SSetSentTime c now fc => (l_set_sent_time st c now fc, XErr None, [])
  | SGetPhy datr => let '(st', g) := l_get_phy st datr in (st', XPhy g, [])
  | SEmit d _ => (st, XErr None, [ODown d])
  | SAddNonce n => let '(st', e) := l_add_nonce st n in (st', XErr e, [])
  | SUpdateDevice dev => let '(st', e) := l_update_device st dev in (st', XErr e, [])
  | SSetJoinAccept j => (l_set_join_accept st j, XErr None, [])
  end.
(* an operation that fails instead of running: storage statements (and the buffer read) can; the
   buffer's setters and the hand-off cannot *)
Definition can_fail (o : sop) : bool :=
  match o with SSetAckFlag _ | SSetPayload _ _ _ | SSetJoinAccept _ | SEmit _ _ => false | _ => true end.
Definition failed (o : sop) : sres :=
  match o with
  | SGetRow => XRow None | SGetApp _ => XApp false | SGetNextUnsent => XMsg None | SGetPhy _ => XPhy GetErr
  | SNextDn _ => XCnt None
  | _ => XErr (Some SInjected)
  end.

Inductive prog := Halt (o : list out) | Do (o : sop) (k : sres -> prog).

Section Steps.
  Variable E D : list N -> list N -> list N.

  (* Encoder.processMessage, data downlink: reserve the counter, encode with it, mark the message, hand over *)
  Definition enc_data_prog (dev : device) (p : phyout) (rx : rxpacket) (created now : N) (fin : list out) : prog :=
    match encode (downlink_frame dev p 0) with
    | Ok _ =>
    Do (SNextDn (d_nwkskey dev)) (fun r =>
    match r with
    | XCnt (Some c) =>
      match encode_message E (d_nwkskey dev) (d_appskey dev) (downlink_frame dev p c) with
      | Ok buf =>
        Do (SSetSentTime created now (d_fup dev)) (fun _ =>
        if (length buf =? 0)%nat then Halt fin
        else Do (SEmit {| dl_raw := buf; dl_radio := rx_radio rx; dl_gw := rx_gw rx; dl_rx1delay := 1; dl_eui := d_eui dev |} c)
                (fun _ => Halt fin))
      | _ => Halt fin
      end
    | _ => Halt fin
    end)
    | _ => Halt fin
    end.
  (* Encoder.processMessage, join-accept *)
  Definition enc_join_prog (dev : device) (j : joinacc) (rx : rxpacket) (fin : list out) : prog :=
    Do (SUpdateState (set_counters dev 0 0 (d_keywarn dev))) (fun r =>
    match r with
    | XErr None =>
      match encode_join_accept E D (d_appkey dev) JoinAccept c_MaxSupportedVersion j with
      | Ok buf => Do (SEmit {| dl_raw := buf; dl_radio := rx_radio rx; dl_gw := rx_gw rx; dl_rx1delay := 5; dl_eui := d_eui dev |} 0)
                     (fun _ => Halt fin)
      | _ => Halt fin
      end
    | _ => Halt fin
    end).
  (* Scheduler.sendAt, then the encoder *)
  Definition send_prog (dev : device) (rx : rxpacket) (created now : N) (fin : list out) : prog :=
    Do (SGetPhy (r_datr (rx_radio rx))) (fun r =>
    match r with
    | XPhy (GetOk p) =>
      if po_mtype p =? JoinAccept then
        match po_ja p with Some j => enc_join_prog dev j rx fin | None => enc_join_prog dev zero_ja rx fin end
      else if mtype_uplink (po_mtype p) || (po_mtype p =? RFU) || (po_mtype p =? Proprietary) then Halt fin
      else enc_data_prog dev p rx created now fin
    | _ => Halt fin
    end).

  (* Decrypter.processMessage from the ACK bookkeeping on *)
  Definition queue_prog (dev1 : device) (f : frame) (rx : rxpacket) (now : N) (fin : list out) : prog :=
    let after_ack :=
      Do SGetNextUnsent (fun r =>
      match r with
      | XMsg (Some m) =>
        Do (SSetPayload (m_data m) (m_port m) (m_ack m)) (fun _ =>
        Do (SSetSentTime (m_created m) now (fcnt f)) (fun _ => send_prog dev1 rx (m_created m) now fin))
      | _ => send_prog dev1 rx 0 now fin
      end) in
    let acks := if ack (fc f) then Do (SUpdateAckTime (fcnt f) now) (fun _ => after_ack) else Do SResetAcks (fun _ => after_ack) in
    if mtype f =? ConfirmedDataUp then Do (SSetAckFlag true) (fun _ => acks) else acks.

  (* the uplink handler of one device: row read, MIC under the row's key, then the pipeline *)
  Definition uplink_prog (f : frame) (rx : rxpacket) (nmatch : nat) (now : N) : prog :=
    Do SGetRow (fun r =>
    match r with
    | XRow (Some dev) =>
      (* the MIC is verified under the key of the row as read (verifyAndDecryptMessage): a frame of a session the
         device has left meanwhile goes no further *)
      if negb (mic_ok E f (rx_raw rx) dev) then Halt []
      else if stale dev f then Halt []
      else
        let kw := if (1 <? nmatch)%nat then true else d_keywarn dev in
        let body (dev1 : device) : prog :=
          let plain := frm (frame_crypt E (d_nwkskey dev1) (d_appskey dev1) f) in
          Do (SCreateUpstream (mk_umsg dev1 rx plain)) (fun r =>
          match r with
          | XErr None =>
            Do (SGetApp (d_appeui dev1)) (fun r =>
            match r with
            | XApp true => queue_prog dev1 f rx now [OPub (mk_pub dev1 rx plain)]
            | _ => Halt []
            end)
          | _ => Halt []
          end) in
        if d_fup dev <=? fcnt f then
          let dev1 := set_counters dev ((fcnt f + 1) mod 65536) (d_fdn dev) kw in
          Do (SAdvanceUp (d_nwkskey dev) (fcnt f) ((fcnt f + 1) mod 65536) kw) (fun r =>
            match r with
            | XErr None => body dev1
            | XErr (Some SNotFound) => if d_relaxed dev then body dev1 else Halt []   (* another handler was first *)
            | _ => Halt []
            end)
        else body (set_counters dev (d_fup dev) (d_fdn dev) kw)
    | _ => Halt []
    end).

  (* verifyJoinRequestMIC + processJoinRequest *)
  Definition join_prog (cfg : config) (f : frame) (rx : rxpacket) (appnonce : list N) (newaddr : N) : prog :=
    let raw := rx_raw rx in
    let j := jr f in
    Do SGetRow (fun r =>
    match r with
    | XRow (Some dev0) =>
      if negb (buffer_mic E (d_appkey dev0) (firstn 19 raw) =? mic f) then Halt []
      else
        Do SGetRow (fun r =>
        match r with
        | XRow (Some dev) =>
          if negb (d_appeui dev =? jr_appeui j) then Halt []
          else if negb (cfg_disable_nonce_check cfg) && existsb (fun n => n =? jr_devnonce j) (d_nonces dev) then Halt []
          else
            Do (SGetApp (jr_appeui j)) (fun r =>
            match r with
            | XApp true =>
              let rest :=
                let nwk := nwkskey_from_nonces E (d_appkey dev) appnonce (cfg_netid cfg) (jr_devnonce j) in
                let app := appskey_from_nonces E (d_appkey dev) appnonce (cfg_netid cfg) (jr_devnonce j) in
                let addr := if d_addr dev =? 0 then newaddr else d_addr dev in
                let dev1 := {| d_eui := d_eui dev; d_addr := addr; d_appkey := d_appkey dev; d_appskey := app; d_nwkskey := nwk;
                               d_appeui := d_appeui dev; d_state := d_state dev; d_fup := 0; d_fdn := 0; d_relaxed := d_relaxed dev;
                               d_keywarn := d_keywarn dev; d_nonces := d_nonces dev |} in
                Do (SUpdateDevice dev1) (fun r =>
                match r with
                | XErr None =>
                  let ja_ := {| ja_appnonce := appnonce; ja_netid := N.land (cfg_netid cfg) 4294967295;
                                ja_devaddr := devaddr_of_u32 addr; ja_rx1droffset := 0; ja_rx2dr := 5; ja_rxdelay := 1 |} in
                  Do (SSetJoinAccept ja_) (fun _ => send_prog dev rx 0 0 [])
                | _ => Halt []
                end) in
              if cfg_disable_nonce_check cfg then rest
              else Do (SAddNonce (jr_devnonce j)) (fun r => match r with XErr None => rest | _ => Halt [] end)
            | _ => Halt []
            end)
        | _ => Halt []
        end)
    | _ => Halt []
    end).
End Steps.

(* ---- executions ---- *)
(* to completion, or cut after `fuel` operations (a crash: what is in st then is what was written) *)
Fixpoint prun (apps : list N) (fuel : nat) (st : dstate) (p : prog) (acc : list out) {struct p} : dstate * list out :=
  match p with
  | Halt o => (st, acc ++ o)
  | Do o k =>
    match fuel with
    | O => (st, acc)
    | S f => let '(st', r, e) := exec apps st o in prun apps f st' (k r) (acc ++ e)
    end
  end.
(* the same with injected failures: fails i says whether the i-th operation fails instead of running *)
Fixpoint prunf (apps : list N) (fails : nat -> bool) (i : nat) (fuel : nat) (st : dstate) (p : prog) (acc : list out) {struct p} : dstate * list out :=
  match p with
  | Halt o => (st, acc ++ o)
  | Do o k =>
    match fuel with
    | O => (st, acc)
    | S f =>
      if fails i && can_fail o then prunf apps fails (S i) f st (k (failed o)) acc
      else let '(st', r, e) := exec apps st o in prunf apps fails (S i) f st' (k r) (acc ++ e)
    end
  end.
(* the operation names of a prun, as the gate hook would list them *)
Fixpoint trace (apps : list N) (fails : nat -> bool) (i : nat) (fuel : nat) (st : dstate) (p : prog) {struct p} : list string :=
  match p with
  | Halt _ => []
  | Do o k =>
    match fuel with
    | O => []
    | S f =>
      if fails i && can_fail o then sop_name o :: trace apps fails (S i) f st (k (failed o))
      else let '(st', r, _) := exec apps st o in sop_name o :: trace apps fails (S i) f st' (k r)
    end
  end.
(* restart: the output buffer lives in the process *)
Definition recover (st : dstate) : dstate := with_fbe st None.

(* two handlers of one device interleaved: sched says whose turn it is (false = first); a handler
   that has finished yields to the other. The scheduler (scheduler.go) keeps one slot per device from
   the notification until the buffer has been read: a handler that reaches its buffer read while the
   other holds the slot is dropped there as a duplicate (its payload has been published already). *)
Definition at_buffer_read (p : prog) : bool := match p with Do (SGetPhy _) _ => true | _ => false end.
Definition dedupe (mine other : prog) : prog := if at_buffer_read mine && at_buffer_read other then Halt [] else mine.
Fixpoint interleave (apps : list N) (sched : list bool) (fuel : nat) (st : dstate) (p q : prog) (acc : list out) : dstate * list out :=
  match fuel with
  | O => (st, acc)
  | S f =>
    match p, q with
    | Halt a, Halt b => (st, acc ++ a ++ b)
    | Halt a, Do o k => let '(st', r, e) := exec apps st o in interleave apps (tl sched) f st' (Halt a) (k r) (acc ++ e)
    | Do o k, Halt b => let '(st', r, e) := exec apps st o in interleave apps (tl sched) f st' (k r) (Halt b) (acc ++ e)
    | Do o1 k1, Do o2 k2 =>
      if hd false sched
      then let '(st', r, e) := exec apps st o2 in interleave apps (tl sched) f st' p (dedupe (k2 r) p) (acc ++ e)
      else let '(st', r, e) := exec apps st o1 in interleave apps (tl sched) f st' (dedupe (k1 r) q) q (acc ++ e)
    end
  end.
(* the operations of an interleaved run, tagged with the handler that performed them *)
Fixpoint itrace (apps : list N) (sched : list bool) (fuel : nat) (st : dstate) (p q : prog) : list (bool * string) :=
  match fuel with
  | O => []
  | S f =>
    match p, q with
    | Halt _, Halt _ => []
    | Halt a, Do o k => let '(st', r, _) := exec apps st o in (true, sop_name o) :: itrace apps (tl sched) f st' (Halt a) (k r)
    | Do o k, Halt b => let '(st', r, _) := exec apps st o in (false, sop_name o) :: itrace apps (tl sched) f st' (k r) (Halt b)
    | Do o1 k1, Do o2 k2 =>
      if hd false sched
      then let '(st', r, _) := exec apps st o2 in (true, sop_name o2) :: itrace apps (tl sched) f st' p (dedupe (k2 r) p)
      else let '(st', r, _) := exec apps st o1 in (false, sop_name o1) :: itrace apps (tl sched) f st' (dedupe (k1 r) q) q
    end
  end.

(* any number of handlers of one device: sched names the handler that performs the next operation (when that
   handler has finished, the first unfinished one runs); the scheduler's per-device slot as above *)
Fixpoint replace_nth (i : nat) (p : prog) (ps : list prog) : list prog :=
  match ps, i with
  | [], _ => []
  | _ :: t, O => p :: t
  | h :: t, S j => h :: replace_nth j p t
  end.
Definition running (p : prog) : bool := match p with Do _ _ => true | Halt _ => false end.
Fixpoint first_running (ps : list prog) : option nat :=
  match ps with
  | [] => None
  | p :: t => if running p then Some O else match first_running t with Some j => Some (S j) | None => None end
  end.
Definition choose (want : nat) (ps : list prog) : option nat :=
  match nth_error ps want with
  | Some p => if running p then Some want else first_running ps
  | None => first_running ps
  end.
Fixpoint others_at_buffer (i : nat) (ps : list prog) : bool :=
  match ps, i with
  | [], _ => false
  | _ :: t, O => existsb at_buffer_read t
  | h :: t, S j => at_buffer_read h || others_at_buffer j t
  end.
Definition final_outs (ps : list prog) : list out := flat_map (fun p => match p with Halt o => o | Do _ _ => [] end) ps.
Fixpoint interleaveN (apps : list N) (sched : list nat) (fuel : nat) (st : dstate) (ps : list prog) (acc : list out) : dstate * list out :=
  match fuel with
  | O => (st, acc)
  | S f =>
    match choose (hd O sched) ps with
    | None => (st, acc ++ final_outs ps)
    | Some i =>
      match nth_error ps i with
      | Some (Do o k) =>
        let '(st', r, e) := exec apps st o in
        let p' := if at_buffer_read (k r) && others_at_buffer i ps then Halt [] else k r in
        interleaveN apps (tl sched) f st' (replace_nth i p' ps) (acc ++ e)
      | _ => (st, acc)
      end
    end
  end.
(* the operations of such a run, tagged with the handler that performed them *)
Fixpoint itraceN (apps : list N) (sched : list nat) (fuel : nat) (st : dstate) (ps : list prog) : list (nat * string) :=
  match fuel with
  | O => []
  | S f =>
    match choose (hd O sched) ps with
    | None => []
    | Some i =>
      match nth_error ps i with
      | Some (Do o k) =>
        let '(st', r, _) := exec apps st o in
        let p' := if at_buffer_read (k r) && others_at_buffer i ps then Halt [] else k r in
        (i, sop_name o) :: itraceN apps (tl sched) f st' (replace_nth i p' ps)
      | _ => []
      end
    end
  end.
