(* Model of the management service object (pkg/apiserver: server_application.go,
   server_device.go, server_gateway.go, server_messages.go, conversion.go, to_proto_err.go) over
   any store with the storage interface. Request text fields are byte strings as the client
   sent them; optional protobuf fields are options. Values produced by random sources and by
   the key generator (fresh keys, fresh device address, assigned EUI) are inputs (the q_gen fields):
   the correspondence check passes what the real call returned. *)
From Lospan Require Import Base.Bytes Model.Codec Model.RegistryTypes.
Open Scope N_scope.

Record devreq := {
  q_eui : option (list N); q_app : option (list N); q_state : option N; q_addr : option N;
  q_appkey : option (list N); q_appskey : option (list N); q_nwkskey : option (list N);
  q_relaxed : option bool; q_kw : option bool; q_fdn : option Z; q_fup : option Z;
  q_gen_eui : N; q_gen_appkey : list N; q_gen_appskey : list N; q_gen_nwkskey : list N; q_gen_addr : N }.
Record gwreq := {
  h_eui : list N; h_ip : option (list N) (* text as sent *); h_ip_parsed : option (list N) (* net.ParseIP(text).String(), if it parses *);
  h_lat : option Z; h_lon : option Z; h_alt : option Z; h_strict : option bool }.

Inductive areq :=
| ACreateApplication (eui : option (list N)) (gen : N) | AGetApplication (eui : list N) | ADeleteApplication (eui : list N) | AListApplications
| ACreateDevice (r : devreq) | AUpdateDevice (r : devreq) | AGetDevice (eui : list N) | ADeleteDevice (eui : list N) | AListDevices (app : list N)
| ACreateGateway (r : gwreq) | AUpdateGateway (r : gwreq) | AGetGateway (eui : list N) | ADeleteGateway (eui : list N) | AListGateways
| AInbox (eui : list N) | AOutbox (eui : list N) | ASendMessage (eui : list N) (payload : list N) (port : Z) (ack : bool) (now : Z).

Inductive ares :=
| AErr (code : N)
| AApp (a : rapp) | AApps (l : list rapp) | ADev (d : rdev) (nonces : list N) | ADevs (l : list (rdev * list N))
| AGw (g : gway) | AGws (l : list gway) | AUps (l : list upm) | ADowns (l : list downm) | ADown (m : downm).

Definition c_InvalidArgument : N := 3.
Definition c_NotFound : N := 5.
Definition c_Internal : N := 13.
(* toProtoErr: the storage layer's duplicate / constraint texts are PostgreSQL's and never match here *)
Definition proto_err (r : regres) : ares := match r with RNotFound => AErr c_NotFound | _ => AErr c_Internal end.

(* toAPIState: what a stored state is reported as (OTAA = 1, ABP = 2, DISABLED = 3) *)
Definition api_state (st : N) : N := if st =? 1 then 1 else if st =? 8 then 2 else 3.
Definition zero_key : list N := repeat 0 16.
Definition key_empty (k : list N) : bool := forallb (fun b => b =? 0) k.
(* toState *)
Definition to_state (s : option N) : option N :=
  match s with
  | None => Some 1
  | Some v => if v =? 2 then Some 8 else if v =? 1 then Some 1 else if v =? 3 then Some 0 else None
  end.
(* AESKeyFromString(hex.EncodeToString(bytes)) *)
Definition key_of_bytes (b : list N) : option (list N) := key_from_str (hex_enc b).
Definition u16_of_i32 (z : Z) : N := Z.to_N (z mod 65536)%Z.
Definition opt_default {A} (o : option A) (d : A) : A := match o with Some v => v | None => d end.
Definition nonempty (o : option (list N)) : bool := match o with Some (_ :: _) => true | _ => false end.

(* the device CreateDevice stores, or the gRPC code *)
Definition build_device (r : devreq) : rdev + N :=
  match (match q_eui r with None => Some (q_gen_eui r) | Some s => eui_from_str s end) with
  | None => inr c_InvalidArgument
  | Some eui =>
    match q_app r with
    | None | Some [] => inr c_InvalidArgument
    | Some a =>
      match eui_from_str a, to_state (q_state r) with
      | Some app, Some st =>
        let addr := opt_default (q_addr r) 0 in
        match (match q_appkey r with Some b => key_of_bytes b | None => Some zero_key end),
              (match q_appskey r with Some b => key_of_bytes b | None => Some zero_key end),
              (match q_nwkskey r with Some b => key_of_bytes b | None => Some zero_key end) with
        | Some k1, Some k2, Some k3 =>
          if (st =? 1) && (negb (key_empty k2) || negb (addr =? 0) || negb (key_empty k3)) then inr c_InvalidArgument
          else if (st =? 8) && negb (key_empty k1) then inr c_InvalidArgument
          else
            let k1' := if (st =? 1) && key_empty k1 then q_gen_appkey r else k1 in
            let k2' := if (st =? 8) && key_empty k2 then q_gen_appskey r else k2 in
            let k3' := if (st =? 8) && key_empty k3 then q_gen_nwkskey r else k3 in
            let addr' := if (st =? 8) && (addr =? 0) then q_gen_addr r else addr in
            inl {| rd_eui := eui; rd_addr := addr'; rd_appkey := k1'; rd_appskey := k2'; rd_nwkskey := k3'; rd_app := app;
                   rd_state := st; rd_fup := u16_of_i32 (opt_default (q_fup r) 0%Z); rd_fdn := u16_of_i32 (opt_default (q_fdn r) 0%Z);
                   rd_relaxed := opt_default (q_relaxed r) false; rd_kw := opt_default (q_kw r) false; rd_tag := [] |}
        | _, _, _ => inr c_InvalidArgument
        end
      | _, _ => inr c_InvalidArgument
      end
    end
  end.

Definition upd_state (s : option N) (old : N) : option N := match s with None => Some old | Some _ => to_state s end.
(* the device UpdateDevice writes back over the one it read, or the gRPC code *)
Definition apply_update (r : devreq) (d : rdev) : rdev + N :=
  match upd_state (q_state r) (rd_state d) with
  | None => inr c_InvalidArgument
  | Some st =>
    let addr := opt_default (q_addr r) (rd_addr d) in
    match (if nonempty (q_appkey r) then key_of_bytes (opt_default (q_appkey r) []) else Some (rd_appkey d)),
          (if nonempty (q_appskey r) then key_of_bytes (opt_default (q_appskey r) []) else Some (rd_appskey d)),
          (if nonempty (q_nwkskey r) then key_of_bytes (opt_default (q_nwkskey r) []) else Some (rd_nwkskey d)) with
    | Some k1, Some k2, Some k3 =>
      let fup := match q_fup r with Some z => u16_of_i32 z | None => rd_fup d end in
      let fdn := match q_fdn r with Some z => u16_of_i32 z | None => rd_fdn d end in
      let kw0 := opt_default (q_kw r) (rd_kw d) in
      let kw := if nonempty (q_appskey r) && nonempty (q_nwkskey r) then false else kw0 in
      let given := match q_state r with Some _ => true | None => false end in
      let k1' := if given && (st =? 1) && key_empty k1 then q_gen_appkey r else k1 in
      let k2' := if given && (st =? 8) && key_empty k2 then q_gen_appskey r else k2 in
      let k3' := if given && (st =? 8) && key_empty k3 then q_gen_nwkskey r else k3 in
      let addr' := if given && (st =? 8) && (addr =? 0) then q_gen_addr r else addr in
      inl {| rd_eui := rd_eui d; rd_addr := addr'; rd_appkey := k1'; rd_appskey := k2'; rd_nwkskey := k3'; rd_app := rd_app d;
             rd_state := st; rd_fup := fup; rd_fdn := fdn; rd_relaxed := rd_relaxed d; rd_kw := kw; rd_tag := rd_tag d |}
    | _, _, _ => inr c_InvalidArgument
    end
  end.

Definition coord_bad (lat lon : Z) : bool := ((lon <? -2880) || (2880 <? lon) || (lat <? -720) || (720 <? lat))%Z.
Definition build_gateway (r : gwreq) : gway + N :=
  match h_ip r, h_eui r with
  | None, _ => inr c_InvalidArgument
  | _, [] => inr c_InvalidArgument
  | Some _, _ =>
    match h_ip_parsed r with
    | None => inr c_InvalidArgument
    | Some ip =>
      if coord_bad (opt_default (h_lat r) 0%Z) (opt_default (h_lon r) 0%Z) then inr c_InvalidArgument
      else match eui_from_str (h_eui r) with
           | None => inr c_InvalidArgument
           | Some e => inl {| gw_eui := e; gw_lat := opt_default (h_lat r) 0%Z; gw_lon := opt_default (h_lon r) 0%Z;
                              gw_alt := opt_default (h_alt r) 0%Z; gw_ip := ip; gw_strict := opt_default (h_strict r) true |}
           end
    end
  end.
Definition apply_gw_update (r : gwreq) (g : gway) : gway :=
  {| gw_eui := gw_eui g; gw_lat := opt_default (h_lat r) (gw_lat g); gw_lon := opt_default (h_lon r) (gw_lon g);
     gw_alt := opt_default (h_alt r) (gw_alt g); gw_ip := gw_ip g; gw_strict := opt_default (h_strict r) (gw_strict g) |}.

(* Outbox: messages whose text is not hex are skipped; the payload is returned as bytes *)
Definition outbox_view (l : list downm) : list downm :=
  flat_map (fun m => match hex_dec (dn_data m) with
                     | Some p => [{| dn_eui := dn_eui m; dn_data := p; dn_port := dn_port m; dn_ack := dn_ack m; dn_created := dn_created m;
                                     dn_sent := dn_sent m; dn_acktime := dn_acktime m; dn_fcnt := 0 |}]
                     | None => [] end) l.

Section Api.
  Variable S : Type.
  Variable step : S -> regop -> S * regres.

  Definition api_step (s : S) (q : areq) : S * ares :=
    match q with
    | ACreateApplication eui gen =>
      match (match eui with Some t => eui_from_str t | None => Some 0 end) with
      | None => (s, AErr c_InvalidArgument)
      | Some e0 =>
        let e := if e0 =? 0 then gen else e0 in
        let a := {| ap_eui := e; ap_tag := [] |} in
        let '(s1, r) := step s (CreateApplication a) in
        (s1, match r with ROk => AApp a | _ => proto_err r end)
      end
    | AGetApplication t =>
      match eui_from_str t with
      | None => (s, AErr c_Internal)
      | Some e => let '(s1, r) := step s (GetApplicationByEUI e) in (s1, match r with RApp a => AApp a | _ => proto_err r end)
      end
    | ADeleteApplication t =>
      match eui_from_str t with
      | None => (s, AErr c_InvalidArgument)
      | Some e =>
        let '(s1, r) := step s (GetApplicationByEUI e) in
        match r with
        | RApp a => let '(s2, r2) := step s1 (DeleteApplication (ap_eui a)) in (s2, match r2 with ROk => AApp a | _ => proto_err r2 end)
        | _ => (s1, proto_err r)
        end
      end
    | AListApplications => let '(s1, r) := step s ListApplications in (s1, match r with RApps l => AApps l | _ => proto_err r end)
    | ACreateDevice q =>
      match build_device q with
      | inr c => (s, AErr c)
      | inl d => let '(s1, r) := step s (CreateDevice d) in (s1, match r with ROk => ADev d [] | _ => proto_err r end)
      end
    | AUpdateDevice q =>
      match eui_from_str (opt_default (q_eui q) []) with
      | None => (s, AErr c_InvalidArgument)
      | Some e =>
        let '(s1, r) := step s (GetDeviceByEUI e) in
        match r with
        | RDev d n =>
          match apply_update q d with
          | inr c => (s1, AErr c)
          | inl d' => let '(s2, r2) := step s1 (UpdateDevice d') in (s2, match r2 with ROk => ADev d' n | _ => proto_err r2 end)
          end
        | _ => (s1, proto_err r)
        end
      end
    | AGetDevice t =>
      match eui_from_str t with
      | None => (s, AErr c_InvalidArgument)
      | Some e => let '(s1, r) := step s (GetDeviceByEUI e) in (s1, match r with RDev d n => ADev d n | _ => proto_err r end)
      end
    | ADeleteDevice t =>
      match eui_from_str t with
      | None => (s, AErr c_InvalidArgument)
      | Some e =>
        let '(s1, r) := step s (GetDeviceByEUI e) in
        match r with
        | RDev d n => let '(s2, r2) := step s1 (DeleteDevice (rd_eui d)) in (s2, match r2 with ROk => ADev d n | _ => proto_err r2 end)
        | _ => (s1, proto_err r)
        end
      end
    | AListDevices t =>
      match eui_from_str t with
      | None => (s, AErr c_InvalidArgument)
      | Some e => let '(s1, r) := step s (GetDevicesByApplicationEUI e) in (s1, match r with RDevs l => ADevs l | _ => proto_err r end)
      end
    | ACreateGateway q =>
      match build_gateway q with
      | inr c => (s, AErr c)
      | inl g => let '(s1, r) := step s (CreateGateway g) in (s1, match r with ROk => AGw g | _ => proto_err r end)
      end
    | AUpdateGateway q =>
      match h_eui q with
      | [] => (s, AErr c_InvalidArgument)
      | _ =>
        if coord_bad (opt_default (h_lat q) 0%Z) (opt_default (h_lon q) 0%Z) then (s, AErr c_InvalidArgument)
        else match eui_from_str (h_eui q) with
             | None => (s, AErr c_InvalidArgument)
             | Some e =>
               let '(s1, r) := step s (GetGateway e) in
               match r with
               | RGw g => let g' := apply_gw_update q g in
                          let '(s2, r2) := step s1 (UpdateGateway g') in (s2, match r2 with ROk => AGw g' | _ => proto_err r2 end)
               | _ => (s1, proto_err r)
               end
             end
      end
    | AGetGateway t =>
      match t with
      | [] => (s, AErr c_InvalidArgument)
      | _ => match eui_from_str t with
             | None => (s, AErr c_InvalidArgument)
             | Some e => let '(s1, r) := step s (GetGateway e) in (s1, match r with RGw g => AGw g | _ => proto_err r end)
             end
      end
    | ADeleteGateway t =>
      match t with
      | [] => (s, AErr c_InvalidArgument)
      | _ => match eui_from_str t with
             | None => (s, AErr c_InvalidArgument)
             | Some e =>
               let '(s1, r) := step s (GetGateway e) in
               match r with
               | RGw g => let '(s2, r2) := step s1 (DeleteGateway e) in (s2, match r2 with ROk => AGw g | _ => proto_err r2 end)
               | _ => (s1, proto_err r)
               end
             end
      end
    | AListGateways => let '(s1, r) := step s GetGatewayList in (s1, match r with RGws l => AGws l | _ => proto_err r end)
    | AInbox t =>
      match eui_from_str t with
      | None => (s, AErr c_InvalidArgument)
      | Some e => let '(s1, r) := step s (ListUpstreamMessages e 1000%Z) in (s1, match r with RUps l => AUps l | _ => proto_err r end)
      end
    | AOutbox t =>
      match eui_from_str t with
      | None => (s, AErr c_InvalidArgument)
      | Some e => let '(s1, r) := step s (ListDownstreamMessages e) in (s1, match r with RDowns l => ADowns (outbox_view l) | _ => proto_err r end)
      end
    | ASendMessage t payload port ack now =>
      match eui_from_str t with
      | None => (s, AErr c_InvalidArgument)
      | Some e =>
        if ((223 <? port) || (port <? 1))%Z then (s, AErr c_InvalidArgument)   (* FPort 1..223 carries application data *)
        else
          let m := {| dn_eui := e; dn_data := hex_enc payload; dn_port := Z.to_N port; dn_ack := ack; dn_created := now;
                      dn_sent := 0%Z; dn_acktime := 0%Z; dn_fcnt := 0 |} in
          let '(s1, r) := step s (CreateDownstreamMessage m) in
          (s1, match r with
               | ROk => ADown {| dn_eui := e; dn_data := payload; dn_port := Z.to_N port; dn_ack := ack; dn_created := now;
                                 dn_sent := 0%Z; dn_acktime := 0%Z; dn_fcnt := 0 |}
               | _ => proto_err r end)
      end
    end.
End Api.

(* a history mixes calls to the storage layer and to the service *)
Inductive anyop := OStore (o : regop) | OApi (q : areq).
Inductive anyres := SRes (r : regres) | PRes (r : ares).
Section Mixed.
  Variable S : Type.
  Variable step : S -> regop -> S * regres.
  Definition mixed_step (s : S) (o : anyop) : S * anyres :=
    match o with
    | OStore x => let '(s1, r) := step s x in (s1, SRes r)
    | OApi q => let '(s1, r) := api_step S step s q in (s1, PRes r)
    end.
  Fixpoint mixed_run (s : S) (ops : list anyop) : S * list anyres :=
    match ops with
    | [] => (s, [])
    | o :: t => let '(s1, r) := mixed_step s o in let '(s2, rs) := mixed_run s1 t in (s2, r :: rs)
    end.
End Mixed.
