(* Data types mirroring pkg/protocol: PHYPayload, MHDR, FHDR, FCtrl,
   MACPayload, MACCommandSet, MAC commands, join payloads. *)
From Lospan Require Import Base.Bytes.
Open Scope N_scope.

(* MType values (mhdr.go) *)
Definition JoinRequest : N := 0.
Definition JoinAccept : N := 1.
Definition UnconfirmedDataUp : N := 2.
Definition UnconfirmedDataDown : N := 3.
Definition ConfirmedDataUp : N := 4.
Definition ConfirmedDataDown : N := 5.
Definition RFU : N := 6.
Definition Proprietary : N := 7.
(* MType.Uplink() *)
Definition mtype_uplink (m : N) : bool := (m =? JoinRequest) || (m =? UnconfirmedDataUp) || (m =? ConfirmedDataUp).
Definition is_data_mtype (m : N) : bool :=
  (m =? ConfirmedDataUp) || (m =? UnconfirmedDataUp) || (m =? UnconfirmedDataDown) || (m =? ConfirmedDataDown).

(* A MAC command: direction, CID and its field values in declaration order
   (booleans as 0/1). The Go structs are one type per command; the field
   order is that of the struct declarations in mac_a.go / mac_b.go. *)
Record cmd := { c_up : bool; c_cid : N; c_fields : list N }.

(* MACCommandSet: a Go map keyed by CID plus maxLength and message type.
   The map is modelled as an association list kept sorted by CID without
   duplicates (List() sorts, Add overwrites). *)
Record cmdset := { cs_cmds : list cmd; cs_max : Z; cs_msg : N }.

Record fctrl := { adr : bool; adrackreq : bool; ack : bool; fpending : bool; classb : bool; foptslen : N }.
Record devaddr := { nwkid : N; nwkaddr : N }.
Record joinreq := { jr_appeui : N; jr_deveui : N; jr_devnonce : N }.   (* EUIs as 64-bit numbers (big endian octets) *)
Record joinacc := { ja_appnonce : list N; ja_netid : N; ja_devaddr : devaddr;
                    ja_rx1droffset : N; ja_rx2dr : N; ja_rxdelay : N }.

Record frame := {
  mtype : N; major : N;
  f_devaddr : devaddr; fc : fctrl; fcnt : N; fopts : cmdset;
  fport : N; frm : list N; maccmds : cmdset;
  mic : N;
  jr : joinreq; ja : joinacc }.

Definition set_frm (f : frame) (p : list N) : frame :=
  {| mtype := mtype f; major := major f; f_devaddr := f_devaddr f; fc := fc f; fcnt := fcnt f;
     fopts := fopts f; fport := fport f; frm := p; maccmds := maccmds f; mic := mic f;
     jr := jr f; ja := ja f |}.
Definition set_mic (f : frame) (m : N) : frame :=
  {| mtype := mtype f; major := major f; f_devaddr := f_devaddr f; fc := fc f; fcnt := fcnt f;
     fopts := fopts f; fport := fport f; frm := frm f; maccmds := maccmds f; mic := m;
     jr := jr f; ja := ja f |}.

(* DevAddr.ToUint32 *)
Definition devaddr_u32 (d : devaddr) : N :=
  N.lor (N.land (N.shiftl (nwkid d) 25) 4294967295) (N.land (nwkaddr d) 33554431).
Definition devaddr_of_u32 (v : N) : devaddr :=
  {| nwkid := N.land (N.shiftr v 25) 127; nwkaddr := N.land v 33554431 |}.
