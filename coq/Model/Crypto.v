(* Model of the frame cipher (phypayload.go Decrypt/encrypt) and of mic.go. *)
From Lospan Require Import Base.Bytes Model.CMAC Model.FrameTypes.
Open Scope N_scope.

Section Crypto.
  Variable E : list N -> list N -> list N.

  (* A_i block of [4.3.3.1]; A[15] = byte(i+1) *)
  Definition a_block (uplink : bool) (addr fcnt i : N) : list N :=
    [1; 0; 0; 0; 0; if uplink then 0 else 1] ++ le_bytes 4 addr ++ le_bytes 4 fcnt ++ [0; i mod 256].

  (* S = S_1 | S_2 | ... | S_k, k = ceil(len/16) *)
  Fixpoint keystream (key : list N) (uplink : bool) (addr fcnt : N) (i : N) (k : nat) : list N :=
    match k with
    | O => []
    | S k' => E key (a_block uplink addr fcnt (i + 1)) ++ keystream key uplink addr fcnt (i + 1) k'
    end.

  Definition payload_crypt (key : list N) (uplink : bool) (addr fcnt : N) (p : list N) : list N :=
    let k := ((length p + 15) / 16)%nat in
    xorl p (keystream key uplink addr fcnt 0 k).

  (* PHYPayload.Decrypt: key by port, direction by MType, counter as uint32(FCnt) *)
  Definition frame_crypt (nwkskey appskey : list N) (f : frame) : frame :=
    let key := if fport f =? 0 then nwkskey else appskey in
    set_frm f (payload_crypt key (mtype_uplink (mtype f)) (devaddr_u32 (f_devaddr f)) (fcnt f) (frm f)).

  (* CalculateMIC: B0 | message, CMAC, first four bytes little endian *)
  Definition b0_block (uplink : bool) (addr fcnt : N) (len : nat) : list N :=
    [73; 0; 0; 0; 0; if uplink then 0 else 1] ++ le_bytes 4 addr ++ le_bytes 4 fcnt ++ [0; N.of_nat len mod 256].
  Definition mic_of_tag (t : list N) : N := le_val (firstn 4 t).
  Definition data_mic (key : list N) (uplink : bool) (addr fcnt : N) (msg : list N) : N :=
    mic_of_tag (cmac E key (b0_block uplink addr fcnt (length msg) ++ msg)).
  (* calculateMICFromBuffer, used for join-request and join-accept *)
  Definition buffer_mic (key : list N) (msg : list N) : N := mic_of_tag (cmac E key msg).
End Crypto.
