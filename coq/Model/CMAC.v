(* Model of pkg/cmac/cmac.go and utils.go (after the padblock repair).
   A Go []byte argument is (vis, spare): the visible bytes and the bytes
   between len and cap of the same backing array; the function returns the
   tag and the spare bytes as they are after the call. *)
From Lospan Require Import Base.Bytes.
Open Scope nat_scope.

Definition zero16 : list N := repeat 0%N 16.
Definition rb : list N := repeat 0%N 15 ++ [135%N].

(* shiftLeft of utils.go: from the last byte to the first, carrying the top bit *)
Fixpoint shl_aux (l : list N) : list N * N (* shifted, carry out of the head *) :=
  match l with
  | [] => ([], 0%N)
  | b :: t => let '(t', c) := shl_aux t in
              (N.lor (N.land (N.shiftl b 1) 255) c :: t', N.shiftr (N.land b 128) 7)
  end.
Definition shift_left l := fst (shl_aux l).
Definition msb (l : list N) : N := match l with b :: _ => N.shiftr b 7 | [] => 0%N end.

(* padblock: pads a COPY of the last block (make + copy); the caller's array is untouched *)
Definition pad_block (mn : list N) : list N := mn ++ 128%N :: repeat 0%N (16 - length mn - 1).
Definition pad_spare (missing : nat) (spare : list N) : list N := spare.

Section CMAC.
  Variable E : list N -> list N -> list N.

  Definition subkeys (k : list N) : list N * list N :=
    let l := E k zero16 in
    let k1 := if N.eqb (msb l) 0 then shift_left l else xorl (shift_left l) rb in
    let k2 := if N.eqb (msb k1) 0 then shift_left k1 else xorl (shift_left k1) rb in
    (k1, k2).

  (* the loop "for i := 1; i < n; i++" with pos advancing by 16 *)
  Fixpoint chain (k : list N) (i : nat) (pos : nat) (buf x : list N) : list N :=
    match i with
    | O => x
    | S i' => chain k i' (pos + 16) buf (E k (xorl x (firstn 16 (skipn pos buf))))
    end.

  (* n := int(math.Ceil(float64(len)/16)) is (len+15)/16, exact below 2^53 *)
  Definition aescmac (k vis spare : list N) : list N * list N :=
    let '(k1, k2) := subkeys k in
    let len := length vis in
    let n0 := (len + 15) / 16 in
    let n := if n0 =? 0 then 1 else n0 in
    let flag := if n0 =? 0 then false else (len mod 16 =? 0) in
    let mn := skipn ((n - 1) * 16) vis in
    let '(mlast, spare') :=
      if flag then (xorl mn k1, spare)
      else (xorl (pad_block mn) k2, pad_spare (16 - length mn) spare) in
    let x := chain k (n - 1) 0 vis zero16 in
    (E k (xorl mlast x), spare').

  Definition cmac (k m : list N) : list N := fst (aescmac k m []).
End CMAC.
