(* Model of the join messages: phypayload.go EncodeJoinAccept / DecodeJoinAccept /
   EncodeJoinRequest, joinaccept.go encode, aeskey.go key derivation. *)
From Lospan Require Import Base.Bytes Base.Outcome Model.CMAC Model.FrameTypes Model.Crypto Model.Frame.
Open Scope N_scope.

Section Join.
  Variable E D : list N -> list N -> list N.

  (* keyFromNonce: netID as three bytes big endian, devNonce as two bytes big endian *)
  Definition key_from_nonce (appkey : list N) (prefix : N) (appnonce : list N) (netid devnonce : N) : list N :=
    E appkey ([prefix] ++ firstn 3 appnonce ++ [N.land (N.shiftr netid 16) 255; N.land (N.shiftr netid 8) 255; N.land netid 255;
              N.land (N.shiftr devnonce 8) 255; N.land devnonce 255] ++ repeat 0 7).
  Definition nwkskey_from_nonces k an netid dn := key_from_nonce k 1 an netid dn.
  Definition appskey_from_nonces k an netid dn := key_from_nonce k 2 an netid dn.

  (* JoinAcceptPayload.encode: 12 bytes *)
  Definition joinacc_payload (j : joinacc) : outcome (list N) :=
    let d := ja_devaddr j in
    if (127 <? nwkid d) || (33554431 <? nwkaddr d) then Err ErrParameterOutOfRange
    else Ok (firstn 3 (ja_appnonce j) ++
             [N.land (N.shiftr (ja_netid j) 16) 255; N.land (N.shiftr (ja_netid j) 8) 255; N.land (ja_netid j) 255] ++
             le_bytes 4 (devaddr_u32 d) ++
             [N.lor (N.land (N.shiftl (N.land (ja_rx1droffset j) 7) 4) 255) (N.land (ja_rx2dr j) 15); N.land (ja_rxdelay j) 255]).

  (* PHYPayload.EncodeJoinAccept(appKey): MHDR, then one AES block (payload | MIC) run through Decrypt *)
  Definition encode_join_accept (appkey : list N) (mt mj : N) (j : joinacc) : outcome (list N) :=
    if negb (mt =? JoinAccept) then Err ErrInvalidMessageType
    else
      do p <- joinacc_payload j;
      let b0 := mhdr_byte mt mj in
      let m := buffer_mic E appkey (b0 :: p) in
      Ok (b0 :: D appkey (p ++ le_bytes 4 m)).

  (* PHYPayload.EncodeJoinRequest(appKey): 23 bytes, MIC over the first 19 *)
  Definition joinreq_payload (j : joinreq) : list N :=
    le_bytes 8 (jr_appeui j) ++ le_bytes 8 (jr_deveui j) ++ be_bytes 2 (jr_devnonce j).
  Definition encode_join_request (appkey : list N) (mt mj : N) (j : joinreq) : outcome (list N) :=
    if negb (mt =? JoinRequest) then Err ErrInvalidMessageType
    else
      let b := mhdr_byte mt mj :: joinreq_payload j in
      Ok (b ++ le_bytes 4 (buffer_mic E appkey b)).

  (* PHYPayload.DecodeJoinAccept(aesKey, buffer) for a 17-byte join-accept (no CFList):
     result (appnonce, netid, devaddr, rx1droffset, rx2dr, rxdelay) or an error *)
  Definition decode_join_accept (appkey : list N) (buf : list N) : outcome joinacc :=
    match buf with
    | b0 :: enc =>
      if negb (length enc =? 16)%nat then Err ErrOther
      else
        let dec := E appkey enc in
        let an := firstn 3 dec in
        let ni := be_val (firstn 3 (skipn 3 dec)) in
        let da := le_val (firstn 4 (skipn 6 dec)) in
        let dl := nth 10 dec 0 in
        let rx := nth 11 dec 0 in
        let m := buffer_mic E appkey (b0 :: firstn 12 dec) in
        if m =? le_val (skipn 12 dec) then
          Ok {| ja_appnonce := an; ja_netid := ni;
                ja_devaddr := {| nwkid := N.land (N.shiftr (N.land da 4261412864) 25) 255; nwkaddr := N.land da 33554431 |};
                ja_rx1droffset := N.shiftr (N.land dl 112) 4; ja_rx2dr := N.land dl 15; ja_rxdelay := rx |}
        else Err ErrInvalidMIC
    | [] => Panic
    end.
End Join.
