(* Model of the EUI allocator: protocol/eui_generator.go (MA.Combine, NewDeviceEUI / NewApplicationEUI),
   keys/eui_keygen.go (dispatcher, exhaustion test) and storage/sequence.go (AllocateKeys). *)
From Lospan Require Import Base.Bytes Gen.Consts.
Open Scope N_scope.

(* free bits below the MA prefix: 64 - size *)
Definition free_bits (ma_size : N) : N := 64 - ma_size.
(* MA.Combine on 64-bit numbers: the prefix octets above, the low (64 - size) bits of the counter part below *)
Definition combine (ma_size prefix64 x : N) : N :=
  (prefix64 / 2 ^ free_bits ma_size) * 2 ^ free_bits ma_size + x mod 2 ^ free_bits ma_size.
(* NewDeviceEUI / NewApplicationEUI: int64(netID)<<25 | int64(uint32(id)) *)
Definition eui_of (ma_size prefix64 netid id : N) : N :=
  combine ma_size prefix64 (N.lor (N.shiftl netid 25) (id mod 4294967296)).
Definition exhausted (id : N) : bool := max_id <? id.

(* the durable counter row (None = no row yet) and the block of ids held in memory *)
Record alloc := { a_dur : option N; a_blk : list N }.
Fixpoint nseq (start : N) (n : nat) : list N := match n with O => [] | S k => start :: nseq (start + 1) k end.
(* AllocateKeys(identifier, interval, 1): reserve the next block and commit *)
Definition first_free (s : alloc) : N := match a_dur s with Some d => d | None => 1 end.
Definition reserve (interval : N) (s : alloc) : alloc :=
  {| a_dur := Some (first_free s + interval); a_blk := nseq (first_free s) (N.to_nat interval) |}.
(* AForeign n: another holder of the same database (an earlier generator that is still alive, an
   operator) reserves n ids of this sequence *)
Inductive aevent := AReq | ARestart | ACrashBeforeCommit | ACrashAfterCommit | AForeign (n : N).
(* one event; a request returns the id it was given *)
Definition astep (interval : N) (s : alloc) (ev : aevent) : alloc * option N :=
  match ev with
  | AReq => let s1 := match a_blk s with [] => reserve interval s | _ => s end in
            match a_blk s1 with
            | id :: rest => ({| a_dur := a_dur s1; a_blk := rest |}, Some id)
            | [] => (s1, None)
            end
  | ARestart => ({| a_dur := a_dur s; a_blk := [] |}, None)
  | ACrashBeforeCommit => ({| a_dur := a_dur s; a_blk := [] |}, None)        (* the transaction is rolled back *)
  | ACrashAfterCommit => ({| a_dur := Some (first_free s + interval); a_blk := [] |}, None)
  | AForeign n => ({| a_dur := Some (first_free s + n); a_blk := a_blk s |}, None)
  end.
Fixpoint arun (interval : N) (s : alloc) (evs : list aevent) : list N :=
  match evs with
  | [] => []
  | ev :: t => let '(s', o) := astep interval s ev in
               match o with Some id => id :: arun interval s' t | None => arun interval s' t end
  end.
