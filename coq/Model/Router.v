(* Model of server.EventRouter (eventrouter.go): routes in subscription order, one buffered
   channel per subscription; every operation is atomic (one mutex). Readers keep reading, so a
   channel is the list of events delivered to it. *)
From Lospan Require Import Base.Bytes.
Open Scope N_scope.

Inductive rop := RSub (id : N) | RUnsub (c : N) | RPub (id ev : N).
Record rchan := { rc_q : list N; rc_closed : bool }.
(* routes: (identifier, channel number); chans: indexed by channel number = order of creation *)
Record router := { r_routes : list (N * N); r_chans : list rchan }.
Definition empty_router : router := {| r_routes := []; r_chans := [] |}.

Fixpoint upd_chan (l : list rchan) (c : nat) (f : rchan -> rchan) : list rchan :=
  match l, c with
  | [], _ => []
  | h :: t, O => f h :: t
  | h :: t, S c' => h :: upd_chan t c' f
  end.
(* Unsubscribe: the first route with that channel is closed and removed *)
Fixpoint remove_first (l : list (N * N)) (c : N) : list (N * N) * bool :=
  match l with
  | [] => ([], false)
  | (i, ch) :: t => if ch =? c then (t, true) else let '(t', b) := remove_first t c in ((i, ch) :: t', b)
  end.
Definition rstep (r : router) (op : rop) : router :=
  match op with
  | RSub id => {| r_routes := r_routes r ++ [(id, N.of_nat (length (r_chans r)))]; r_chans := r_chans r ++ [{| rc_q := []; rc_closed := false |}] |}
  | RUnsub c =>
    let '(rs, found) := remove_first (r_routes r) c in
    if found then {| r_routes := rs; r_chans := upd_chan (r_chans r) (N.to_nat c) (fun ch => {| rc_q := rc_q ch; rc_closed := true |}) |}
    else r
  | RPub id ev =>
    {| r_routes := r_routes r;
       r_chans := fold_left (fun chans rt => if fst rt =? id then upd_chan chans (N.to_nat (snd rt)) (fun ch => {| rc_q := rc_q ch ++ [ev]; rc_closed := rc_closed ch |}) else chans)
                            (r_routes r) (r_chans r) |}
  end.
Definition rrun (ops : list rop) : router := fold_left rstep ops empty_router.
