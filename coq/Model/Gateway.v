(* Model of the Semtech packet-forwarder interface: pkg/gateway/protocol.go (binary header),
   semtech.go mainLoop / decodeReceivedJSON / encodeAndSend, semtech_json.go (txpk fields).
   JSON text is abstract: a PUSH_DATA carries what encoding/json made of its body
   (None = not a JSON object of the expected shape). *)
From Coq Require Import String.
From Lospan Require Import Base.Bytes Base.Outcome Gen.Consts.
Open Scope N_scope.

(* ---------------- binary header ---------------- *)
Record gwpacket := { gp_ver : N; gp_token : N; gp_ident : N; gp_eui : N; gp_json : list N }.

(* GwPacket.UnmarshalBinary *)
Definition gw_unmarshal (data : list N) : outcome gwpacket :=
  match data with
  | v :: t1 :: t2 :: id :: rest =>
    let tok := N.land (N.shiftl t1 8) 65535 + t2 in
    let mk ident eui js := {| gp_ver := v; gp_token := tok; gp_ident := ident; gp_eui := eui; gp_json := js |} in
    if id =? 0 then
      if (length data <? 12)%nat then Err ErrOther
      else Ok (mk gw_PushData (be_val (firstn 8 rest)) (skipn 8 rest))
    else if id =? 1 then Ok (mk gw_PushAck 0 [])
    else if id =? 2 then
      if (length data <? 12)%nat then Err ErrOther
      else Ok (mk gw_PullData (be_val (firstn 8 rest)) [])
    else if id =? 3 then Ok (mk gw_PullResp 0 rest)
    else if id =? 4 then Ok (mk gw_PullAck 0 [])
    else if id =? 5 then Ok (mk gw_TxAck 0 rest)
    else Err ErrOther
  | _ => Err ErrOther
  end.

(* GwPacket.MarshalBinary *)
Definition gw_marshal (p : gwpacket) : outcome (list N) :=
  let hdr id := [N.land (gp_ver p) 255; N.land (N.shiftr (gp_token p) 8) 255; N.land (gp_token p) 255; id] in
  if gp_ident p =? gw_PullAck then Ok (hdr gw_PullAck)
  else if gp_ident p =? gw_PushAck then Ok (hdr gw_PushAck)
  else if gp_ident p =? gw_PullData then Ok (hdr gw_PullData ++ be_bytes 8 (gp_eui p))
  else if gp_ident p =? gw_PushData then Ok (hdr gw_PushData ++ be_bytes 8 (gp_eui p) ++ gp_json p)
  else if gp_ident p =? gw_PullResp then Ok (hdr gw_PullResp ++ gp_json p)
  else if gp_ident p =? gw_TxAck then Ok (hdr gw_TxAck ++ gp_json p)
  else Err ErrOther.

(* ---------------- the main loop ---------------- *)
(* one rxpk entry as decoded by encoding/json; rx_data = None when the base64 is invalid *)
Record rxpk := { k_tmst : N; k_chan : N; k_rfch : N; k_datr : string; k_rssi : Z; k_lsnr : string; k_data : option (list N) }.
(* a registered gateway: EUI, textual IP, strict flag *)
Record gwreg := { gr_eui : N; gr_ip : string; gr_strict : bool }.
Record gwstate := { gs_ports : list (N * N) (* EUI -> source port of its last PULL_DATA *); gs_regs : list gwreg; gs_nochecks : bool }.

Record dgram := { dg_pkt : gwpacket; dg_host : string; dg_port : N; dg_body : option (list rxpk) }.
(* what the forwarder sends back, and what it hands to the pipeline *)
Record reply := { rp_ident : N; rp_token : N; rp_ver : N; rp_host : string; rp_port : N }.
Record fwd := { fw_rx : rxpk; fw_freq : string; fw_gweui : N; fw_host : string; fw_port : N; fw_ver : N; fw_raw : list N }.

Fixpoint set_port (l : list (N * N)) (eui port : N) : list (N * N) :=
  match l with [] => [(eui, port)] | (e, p) :: t => if e =? eui then (e, port) :: t else (e, p) :: set_port t eui port end.
Fixpoint get_port (l : list (N * N)) (eui : N) : N :=
  match l with [] => 0 | (e, p) :: t => if e =? eui then p else get_port t eui end.
Fixpoint find_reg (l : list gwreg) (eui : N) : option gwreg :=
  match l with [] => None | g :: t => if gr_eui g =? eui then Some g else find_reg t eui end.

(* lookupFrequency (generated table, generated fallback) *)
Fixpoint assoc_freq (l : list (N * string)) (ch : N) : string :=
  match l with [] => freq_fallback | (c, f) :: t => if c =? ch then f else assoc_freq t ch end.
Definition lookup_frequency (ch : N) : string := assoc_freq freq_table ch.

(* decodeReceivedJSON: entries are forwarded in order until the first one with invalid base64 *)
Fixpoint forward_entries (l : list rxpk) (d : dgram) : list fwd :=
  match l with
  | [] => []
  | k :: t => match k_data k with
              | Some raw => {| fw_rx := k; fw_freq := lookup_frequency (k_chan k); fw_gweui := gp_eui (dg_pkt d); fw_host := dg_host d;
                               fw_port := dg_port d; fw_ver := gp_ver (dg_pkt d); fw_raw := raw |} :: forward_entries t d
              | None => []
              end
  end.

Definition authorised (s : gwstate) (d : dgram) : bool :=
  if gs_nochecks s then true
  else match find_reg (gs_regs s) (gp_eui (dg_pkt d)) with
       | None => false
       | Some g => negb (gr_strict g && negb (String.eqb (gr_ip g) (dg_host d)))
       end.

(* one datagram through mainLoop *)
Definition gw_step (s : gwstate) (d : dgram) : gwstate * list reply * list fwd :=
  let p := dg_pkt d in
  let ack id := {| rp_ident := id; rp_token := gp_token p; rp_ver := gp_ver p; rp_host := dg_host d; rp_port := dg_port d |} in
  if gp_ident p =? gw_PullData then
    ({| gs_ports := set_port (gs_ports s) (gp_eui p) (dg_port d); gs_regs := gs_regs s; gs_nochecks := gs_nochecks s |}, [ack gw_PullAck], [])
  else if gp_ident p =? gw_PushData then
    if authorised s d then
      (s, [ack gw_PushAck], match dg_body d with Some l => forward_entries l d | None => [] end)
    else (s, [], [])
  else (s, [], []).

(* ---------------- downlinks: encodeAndSend ---------------- *)
Record txpk := { t_imme : bool; t_tmst : N; t_freq : string; t_rfch : N; t_modu : string; t_datr : string; t_codr : string;
                 t_ipol : bool; t_size : N; t_data : list N }.
Record pullresp := { pr_host : string; pr_port : N; pr_ver : N; pr_eui : N; pr_tx : txpk }.
Definition encode_and_send (s : gwstate) (raw : list N) (clock rx1delay : N) (freq datr : string) (gweui : N) (host : string) (ver : N) : pullresp :=
  {| pr_host := host; pr_port := get_port (gs_ports s) gweui; pr_ver := ver; pr_eui := gweui;
     pr_tx := {| t_imme := false; t_tmst := (clock + 1000000 * (rx1delay mod 256)) mod 4294967296; t_freq := freq; t_rfch := 0;
                 t_modu := "LORA"; t_datr := datr; t_codr := "4/5"; t_ipol := true; t_size := N.of_nat (length raw); t_data := raw |} |}.

(* which txpk keys appear in the JSON text: a field tagged omitempty is left out when it has the zero value *)
Fixpoint tag_omitempty (l : list (string * bool * string)) (k : string) : option bool :=
  match l with [] => None | (n, o, _) :: t => if String.eqb n k then Some o else tag_omitempty t k end.
Definition key_present (k : string) (is_zero : bool) : bool :=
  match tag_omitempty txpk_fields k with Some true => negb is_zero | Some false => true | None => false end.
