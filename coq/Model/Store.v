(* Model of the SQLite-backed storage operations the pipeline uses (pkg/storage
   device.go, messages.go, application.go) and of server.FrameOutputBuffer.
   Tables are lists in insertion (rowid) order; a statement is atomic. *)
From Coq Require Import String.
From Lospan Require Import Base.Bytes Base.Outcome Model.FrameTypes Gen.Consts.
Open Scope N_scope.

Record device := {
  d_eui : N; d_addr : N (* DevAddr.ToUint32 *); d_appkey : list N; d_appskey : list N; d_nwkskey : list N;
  d_appeui : N; d_state : N; d_fup : N; d_fdn : N; d_relaxed : bool; d_keywarn : bool;
  d_nonces : list N (* DevNonceHistory, filled from the nonce table on read *) }.

Record radio := { r_rssi : Z; r_snr : N; r_freq : N; r_datr : string; r_chan : N; r_rfch : N; r_rx1delay : N }.
Record gwctx := { g_eui : N; g_host : N; g_port : N; g_clock : N; g_ver : N }.
Record rxpacket := { rx_raw : list N; rx_radio : radio; rx_gw : gwctx; rx_ts : N }.

Record umsg := { u_eui : N; u_ts : N; u_data : list N; u_gweui : N; u_radio : radio; u_addr : N }.
Record dmsg := { m_eui : N; m_data : list N; m_port : N; m_ack : bool; m_created : N; m_sent : N; m_acktime : N; m_fcntup : N }.

Record db := { devs : list device (* d_nonces unused in rows *); nonces : list (N * N);
               inbox : list umsg; outbox : list dmsg; apps : list N }.

Inductive serr := SNotFound | SDuplicate | SInjected.

Definition key_empty (k : list N) : bool := forallb (fun b => b =? 0) k.

Definition nonces_of (d : db) (eui : N) : list N := map snd (filter (fun p => fst p =? eui) (nonces d)).
Definition load (d : db) (r : device) : device :=
  {| d_eui := d_eui r; d_addr := d_addr r; d_appkey := d_appkey r; d_appskey := d_appskey r; d_nwkskey := d_nwkskey r;
     d_appeui := d_appeui r; d_state := d_state r; d_fup := d_fup r; d_fdn := d_fdn r; d_relaxed := d_relaxed r;
     d_keywarn := d_keywarn r; d_nonces := nonces_of d (d_eui r) |}.

(* GetDeviceByDevAddr / GetDeviceByEUI *)
Definition get_by_devaddr (d : db) (a : N) : list device := map (load d) (filter (fun r => d_addr r =? a) (devs d)).
Definition get_by_eui (d : db) (eui : N) : option device :=
  match filter (fun r => d_eui r =? eui) (devs d) with r :: _ => Some (load d r) | [] => None end.
Definition has_app (d : db) (eui : N) : bool := existsb (fun a => a =? eui) (apps d).

Definition upd_devs (d : db) (f : device -> device) (eui : N) : db :=
  {| devs := map (fun r => if d_eui r =? eui then f r else r) (devs d); nonces := nonces d; inbox := inbox d;
     outbox := outbox d; apps := apps d |}.
Definition has_dev (d : db) (eui : N) : bool := existsb (fun r => d_eui r =? eui) (devs d).

(* UpdateDeviceState: fcnt_dn, fcnt_up, key_warning by eui *)
Definition update_device_state (d : db) (dev : device) : db * option serr :=
  if has_dev d (d_eui dev) then
    (upd_devs d (fun r => {| d_eui := d_eui r; d_addr := d_addr r; d_appkey := d_appkey r; d_appskey := d_appskey r;
                             d_nwkskey := d_nwkskey r; d_appeui := d_appeui r; d_state := d_state r;
                             d_fup := d_fup dev; d_fdn := d_fdn dev; d_relaxed := d_relaxed r;
                             d_keywarn := d_keywarn dev; d_nonces := [] |}) (d_eui dev), None)
  else (d, Some SNotFound).
(* UpdateDevice: everything but eui and application *)
Definition update_device (d : db) (dev : device) : db * option serr :=
  if has_dev d (d_eui dev) then
    (upd_devs d (fun r => {| d_eui := d_eui r; d_addr := d_addr dev; d_appkey := d_appkey dev; d_appskey := d_appskey dev;
                             d_nwkskey := d_nwkskey dev; d_appeui := d_appeui r; d_state := d_state dev;
                             d_fup := d_fup dev; d_fdn := d_fdn dev; d_relaxed := d_relaxed dev;
                             d_keywarn := d_keywarn dev; d_nonces := [] |}) (d_eui dev), None)
  else (d, Some SNotFound).
(* AddDevNonce: primary key (device_eui, nonce) *)
Definition add_nonce (d : db) (eui nonce : N) : db * option serr :=
  if existsb (fun p => (fst p =? eui) && (snd p =? nonce)) (nonces d) then (d, Some SDuplicate)
  else ({| devs := devs d; nonces := nonces d ++ [(eui, nonce)]; inbox := inbox d; outbox := outbox d; apps := apps d |}, None).
(* CreateUpstreamMessage: primary key (device_eui, time_stamp) *)
Definition create_upstream (d : db) (m : umsg) : db * option serr :=
  if existsb (fun x => (u_eui x =? u_eui m) && (u_ts x =? u_ts m)) (inbox d) then (d, Some SDuplicate)
  else ({| devs := devs d; nonces := nonces d; inbox := inbox d ++ [m]; outbox := outbox d; apps := apps d |}, None).
(* CreateDownstreamMessage: primary key (device_eui, created_time) *)
Definition create_downstream (d : db) (m : dmsg) : db * option serr :=
  if existsb (fun x => (m_eui x =? m_eui m) && (m_created x =? m_created m)) (outbox d) then (d, Some SDuplicate)
  else ({| devs := devs d; nonces := nonces d; inbox := inbox d; outbox := outbox d ++ [m]; apps := apps d |}, None).

Definition upd_outbox (d : db) (f : dmsg -> dmsg) (sel : dmsg -> bool) : db :=
  {| devs := devs d; nonces := nonces d; inbox := inbox d; outbox := map (fun m => if sel m then f m else m) (outbox d); apps := apps d |}.
Definition set_times (m : dmsg) (sent ackt fc : N) : dmsg :=
  {| m_eui := m_eui m; m_data := m_data m; m_port := m_port m; m_ack := m_ack m; m_created := m_created m;
     m_sent := sent; m_acktime := ackt; m_fcntup := fc |}.
(* UpdateMessageAckTime: device, fcnt_up, sent_time > 0, ack_time = 0 *)
Definition update_ack_time (d : db) (eui fc now : N) : db :=
  upd_outbox d (fun m => set_times m (m_sent m) now (m_fcntup m))
             (fun m => (m_eui m =? eui) && (m_fcntup m =? fc) && (0 <? m_sent m) && (m_acktime m =? 0)).
(* ResetActiveAcks: sent_time > 0, ack_time = 0, ack = 1 *)
Definition reset_active_acks (d : db) (eui : N) : db :=
  upd_outbox d (fun m => set_times m 0 (m_acktime m) 0)
             (fun m => (m_eui m =? eui) && (0 <? m_sent m) && (m_acktime m =? 0) && m_ack m).
(* SetMessageSentTime by (device, created_time) *)
Definition set_sent_time (d : db) (eui created now fc : N) : db :=
  upd_outbox d (fun m => set_times m now (m_acktime m) fc) (fun m => (m_eui m =? eui) && (m_created m =? created)).

(* ORDER BY created_time: stable insertion sort of the device's unsent rows *)
Fixpoint insert_by_created (m : dmsg) (l : list dmsg) : list dmsg :=
  match l with
  | [] => [m]
  | h :: t => if m_created m <? m_created h then m :: l else h :: insert_by_created m t
  end.
Definition sort_by_created (l : list dmsg) : list dmsg := fold_right insert_by_created [] l.
(* GetNextUnsentMessage *)
Definition get_next_unsent (d : db) (eui : N) : option dmsg :=
  match sort_by_created (filter (fun m => (m_eui m =? eui) && (m_sent m =? 0)) (outbox d)) with
  | m :: _ => Some m | [] => None end.

(* ---------------- FrameOutputBuffer ---------------- *)
Record fout := { fo_mtype : N; fo_ack : bool; fo_port : N; fo_payload : list N; fo_ja : option joinacc }.
Definition fbuf := list (N * fout).
Definition new_fout (mt : N) : fout := {| fo_mtype := mt; fo_ack := false; fo_port := 0; fo_payload := []; fo_ja := None |}.
Fixpoint fb_get (b : fbuf) (eui : N) : option fout :=
  match b with [] => None | (e, f) :: t => if e =? eui then Some f else fb_get t eui end.
Fixpoint fb_put (b : fbuf) (eui : N) (f : fout) : fbuf :=
  match b with
  | [] => [(eui, f)]
  | (e, g) :: t => if e =? eui then (e, f) :: t else (e, g) :: fb_put t eui f
  end.
Definition fb_del (b : fbuf) (eui : N) : fbuf := filter (fun p => negb (fst p =? eui)) b.

Definition fb_set_payload (b : fbuf) (eui : N) (payload : list N) (port : N) (ack : bool) : fbuf :=
  let fd := match fb_get b eui with Some f => f | None => new_fout UnconfirmedDataDown end in
  fb_put b eui {| fo_mtype := if ack then ConfirmedDataDown else UnconfirmedDataDown; fo_ack := fo_ack fd;
                  fo_port := port; fo_payload := payload; fo_ja := fo_ja fd |}.
Definition fb_set_ack_flag (b : fbuf) (eui : N) (flag : bool) : fbuf :=
  let fd := match fb_get b eui with Some f => f | None => new_fout UnconfirmedDataDown end in
  fb_put b eui {| fo_mtype := fo_mtype fd; fo_ack := flag; fo_port := fo_port fd; fo_payload := fo_payload fd; fo_ja := fo_ja fd |}.
(* SetJoinAcceptPayload (the shadowed fd of the "not exists" branch ends in the same entry) *)
Definition fb_set_join_accept (b : fbuf) (eui : N) (j : joinacc) : fbuf :=
  let fd := match fb_get b eui with Some f => f | None => {| fo_mtype := 0; fo_ack := false; fo_port := 0; fo_payload := []; fo_ja := None |} end in
  fb_put b eui {| fo_mtype := JoinAccept; fo_ack := fo_ack fd; fo_port := 0; fo_payload := fo_payload fd; fo_ja := Some j |}.

(* EU868 MaximumPayload(dataRate): (M, N) *)
Fixpoint assoc_str {A} (l : list (string * A)) (k : string) : option A :=
  match l with [] => None | (s, v) :: t => if String.eqb s k then Some v else assoc_str t k end.
Fixpoint assoc_n {A} (l : list (N * A)) (k : N) : option A :=
  match l with [] => None | (s, v) :: t => if s =? k then Some v else assoc_n t k end.
Definition max_payload (datr : string) : option (N * N) :=
  match assoc_str eu868_datr datr with Some dr => assoc_n eu868_payload dr | None => None end.
(* WithoutFOpts(): no MAC commands are ever queued by the pipeline *)
Definition max_without_fopts (mn : N * N) : N := if payload_withoutfopts_uses_M then fst mn else snd mn.

Record phyout := { po_mtype : N; po_ack : bool; po_pending : bool; po_port : N; po_frm : list N; po_ja : option joinacc }.
Inductive getres := GetNone | GetErr | GetOk (p : phyout).
(* GetPHYPayloadForDevice *)
Definition fb_get_phy (b : fbuf) (eui : N) (datr : string) : fbuf * getres :=
  match fb_get b eui with
  | None => (b, GetNone)
  | Some fd =>
    let plen := length (fo_payload fd) in
    if (plen =? 0)%nat && negb (fo_mtype fd =? JoinAccept) && negb (fo_ack fd) then (fb_del b eui, GetNone)
    else if (0 <? plen)%nat then
      match max_payload datr with
      | None => (b, GetErr)
      | Some mn =>
        let mx := N.to_nat (max_without_fopts mn) in
        let '(now_, later) := if (mx <? plen)%nat then (firstn mx (fo_payload fd), skipn mx (fo_payload fd)) else (fo_payload fd, []) in
        let fd' := {| fo_mtype := if fo_mtype fd =? JoinAccept then UnconfirmedDataDown else fo_mtype fd;
                      fo_ack := false; fo_port := fo_port fd; fo_payload := later;
                      fo_ja := if fo_mtype fd =? JoinAccept then None else fo_ja fd |} in
        (fb_put b eui fd',
         GetOk {| po_mtype := fo_mtype fd; po_ack := fo_ack fd; po_pending := (0 <? length later)%nat;
                  po_port := fo_port fd; po_frm := now_; po_ja := fo_ja fd |})
      end
    else
      let fd' := {| fo_mtype := if fo_mtype fd =? JoinAccept then UnconfirmedDataDown else fo_mtype fd;
                    fo_ack := false; fo_port := fo_port fd; fo_payload := fo_payload fd;
                    fo_ja := if fo_mtype fd =? JoinAccept then None else fo_ja fd |} in
      (fb_put b eui fd',
       GetOk {| po_mtype := fo_mtype fd; po_ack := fo_ack fd; po_pending := false; po_port := fo_port fd; po_frm := []; po_ja := fo_ja fd |})
  end.
