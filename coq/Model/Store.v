(* Model of the SQLite-backed storage operations the pipeline uses (pkg/storage
   device.go, messages.go, application.go) and of server.FrameOutputBuffer.
   Tables are lists in insertion (rowid) order; a statement is atomic. *)
From Coq Require Import String.
From Lospan Require Import Base.Bytes Base.Outcome Model.FrameTypes Gen.Consts.
Open Scope N_scope.

Record device := {
  d_eui : N; d_addr : N (* DevAddr.ToUint32 *); d_appkey : list N; d_appskey : list N; d_nwkskey : list N;
  d_appeui : N; d_state : N; d_fup : N; d_fdn : N; d_relaxed : bool; d_keywarn : bool;
  d_nonces : list N (* DevNonceHistory, filled from the nonce table on read *) }.

Record radio := { r_rssi : Z; r_snr : N; r_freq : N; r_datr : string; r_chan : N; r_rfch : N; r_rx1delay : N }.
Record gwctx := { g_eui : N; g_host : N; g_port : N; g_clock : N; g_ver : N }.
Record rxpacket := { rx_raw : list N; rx_radio : radio; rx_gw : gwctx; rx_ts : N }.

Record umsg := { u_eui : N; u_ts : N; u_data : list N; u_gweui : N; u_radio : radio; u_addr : N }.
Record dmsg := { m_eui : N; m_data : list N; m_port : N; m_ack : bool; m_created : N; m_sent : N; m_acktime : N; m_fcntup : N }.

(* Every statement the pipeline issues is keyed by a device EUI (devices by eui, nonces by
   device_eui, both message tables by device_eui, the frame output buffer by EUI), so the
   tables are kept grouped by device: one dstate per EUI, in order of first appearance
   (= row order of lora_devices for devices created before anything else touched them). *)
Inductive serr := SNotFound | SDuplicate | SInjected.

Definition key_empty (k : list N) : bool := forallb (fun b => b =? 0) k.

Definition set_times (m : dmsg) (sent ackt fc : N) : dmsg :=
  {| m_eui := m_eui m; m_data := m_data m; m_port := m_port m; m_ack := m_ack m; m_created := m_created m;
     m_sent := sent; m_acktime := ackt; m_fcntup := fc |}.

(* ORDER BY created_time: stable insertion sort *)
Fixpoint insert_by_created (m : dmsg) (l : list dmsg) : list dmsg :=
  match l with
  | [] => [m]
  | h :: t => if m_created m <? m_created h then m :: l else h :: insert_by_created m t
  end.
Definition sort_by_created (l : list dmsg) : list dmsg := fold_right insert_by_created [] l.

(* ---------------- FrameOutputBuffer ---------------- *)
Record fout := { fo_mtype : N; fo_ack : bool; fo_port : N; fo_payload : list N; fo_ja : option joinacc }.
Definition new_fout (mt : N) : fout := {| fo_mtype := mt; fo_ack := false; fo_port := 0; fo_payload := []; fo_ja := None |}.

(* one device's share of the store and of the frame output buffer *)
Record dstate := { ds_row : option device; ds_nonces : list N; ds_inbox : list umsg; ds_outbox : list dmsg; ds_fb : option fout }.
Definition empty_dstate : dstate := {| ds_row := None; ds_nonces := []; ds_inbox := []; ds_outbox := []; ds_fb := None |}.
Definition with_row st r := {| ds_row := r; ds_nonces := ds_nonces st; ds_inbox := ds_inbox st; ds_outbox := ds_outbox st; ds_fb := ds_fb st |}.
Definition with_nonces st n := {| ds_row := ds_row st; ds_nonces := n; ds_inbox := ds_inbox st; ds_outbox := ds_outbox st; ds_fb := ds_fb st |}.
Definition with_inbox st i := {| ds_row := ds_row st; ds_nonces := ds_nonces st; ds_inbox := i; ds_outbox := ds_outbox st; ds_fb := ds_fb st |}.
Definition with_outbox st o := {| ds_row := ds_row st; ds_nonces := ds_nonces st; ds_inbox := ds_inbox st; ds_outbox := o; ds_fb := ds_fb st |}.
Definition with_fbe st f := {| ds_row := ds_row st; ds_nonces := ds_nonces st; ds_inbox := ds_inbox st; ds_outbox := ds_outbox st; ds_fb := f |}.

(* the device as a read returns it: DevNonceHistory filled from the nonce table *)
Definition load (st : dstate) (r : device) : device :=
  {| d_eui := d_eui r; d_addr := d_addr r; d_appkey := d_appkey r; d_appskey := d_appskey r; d_nwkskey := d_nwkskey r;
     d_appeui := d_appeui r; d_state := d_state r; d_fup := d_fup r; d_fdn := d_fdn r; d_relaxed := d_relaxed r;
     d_keywarn := d_keywarn r; d_nonces := ds_nonces st |}.

(* UpdateDeviceState: fcnt_dn, fcnt_up, key_warning *)
Definition l_update_device_state (st : dstate) (dev : device) : dstate * option serr :=
  match ds_row st with
  | Some r => (with_row st (Some {| d_eui := d_eui r; d_addr := d_addr r; d_appkey := d_appkey r; d_appskey := d_appskey r;
                                    d_nwkskey := d_nwkskey r; d_appeui := d_appeui r; d_state := d_state r;
                                    d_fup := d_fup dev; d_fdn := d_fdn dev; d_relaxed := d_relaxed r;
                                    d_keywarn := d_keywarn dev; d_nonces := [] |}), None)
  | None => (st, Some SNotFound)
  end.
(* AdvanceFCntUp: UPDATE ... SET fcnt_up, key_warning WHERE eui = ? AND fcnt_up <= accepted AND nwks_key = key - one statement;
   key is the network session key the frame was verified under *)
Definition l_advance_fup (st : dstate) (key : list N) (accepted newfup : N) (kw : bool) : dstate * option serr :=
  match ds_row st with
  | Some r =>
    if (d_fup r <=? accepted) && bytes_eqb (d_nwkskey r) key
    then (with_row st (Some {| d_eui := d_eui r; d_addr := d_addr r; d_appkey := d_appkey r; d_appskey := d_appskey r;
                               d_nwkskey := d_nwkskey r; d_appeui := d_appeui r; d_state := d_state r;
                               d_fup := newfup; d_fdn := d_fdn r; d_relaxed := d_relaxed r;
                               d_keywarn := kw; d_nonces := [] |}), None)
    else (st, Some SNotFound)
  | None => (st, Some SNotFound)
  end.
(* NextFCntDn: UPDATE ... SET fcnt_dn = (fcnt_dn + 1) % 65536 WHERE eui = ? AND nwks_key = key RETURNING - the counter to use,
   its successor stored; nothing when the device is no longer in that session *)
Definition l_next_fdn (st : dstate) (key : list N) : dstate * option N :=
  match ds_row st with
  | Some r => if negb (bytes_eqb (d_nwkskey r) key) then (st, None) else
              (with_row st (Some {| d_eui := d_eui r; d_addr := d_addr r; d_appkey := d_appkey r; d_appskey := d_appskey r;
                                    d_nwkskey := d_nwkskey r; d_appeui := d_appeui r; d_state := d_state r;
                                    d_fup := d_fup r; d_fdn := (d_fdn r + 1) mod 65536; d_relaxed := d_relaxed r;
                                    d_keywarn := d_keywarn r; d_nonces := [] |}), Some (d_fdn r))
  | None => (st, None)
  end.
(* UpdateDevice: everything but eui and application *)
Definition l_update_device (st : dstate) (dev : device) : dstate * option serr :=
  match ds_row st with
  | Some r => (with_row st (Some {| d_eui := d_eui r; d_addr := d_addr dev; d_appkey := d_appkey dev; d_appskey := d_appskey dev;
                                    d_nwkskey := d_nwkskey dev; d_appeui := d_appeui r; d_state := d_state dev;
                                    d_fup := d_fup dev; d_fdn := d_fdn dev; d_relaxed := d_relaxed dev;
                                    d_keywarn := d_keywarn dev; d_nonces := [] |}), None)
  | None => (st, Some SNotFound)
  end.
(* AddDevNonce: primary key (device_eui, nonce) *)
Definition l_add_nonce (st : dstate) (nonce : N) : dstate * option serr :=
  if existsb (fun n => n =? nonce) (ds_nonces st) then (st, Some SDuplicate)
  else (with_nonces st (ds_nonces st ++ [nonce]), None).
(* CreateUpstreamMessage: primary key (device_eui, time_stamp) *)
Definition l_create_upstream (st : dstate) (m : umsg) : dstate * option serr :=
  if existsb (fun x => u_ts x =? u_ts m) (ds_inbox st) then (st, Some SDuplicate)
  else (with_inbox st (ds_inbox st ++ [m]), None).
(* CreateDownstreamMessage: primary key (device_eui, created_time) *)
Definition l_create_downstream (st : dstate) (m : dmsg) : dstate * option serr :=
  if existsb (fun x => m_created x =? m_created m) (ds_outbox st) then (st, Some SDuplicate)
  else (with_outbox st (ds_outbox st ++ [m]), None).

Definition upd_outbox (st : dstate) (f : dmsg -> dmsg) (sel : dmsg -> bool) : dstate :=
  with_outbox st (map (fun m => if sel m then f m else m) (ds_outbox st)).
(* UpdateMessageAckTime: fcnt_up, sent_time > 0, ack_time = 0 *)
Definition l_update_ack_time (st : dstate) (fc now : N) : dstate :=
  upd_outbox st (fun m => set_times m (m_sent m) now (m_fcntup m))
             (fun m => (m_fcntup m =? fc) && (0 <? m_sent m) && (m_acktime m =? 0)).
(* ResetActiveAcks: sent_time > 0, ack_time = 0, ack = 1 *)
Definition l_reset_active_acks (st : dstate) : dstate :=
  upd_outbox st (fun m => set_times m 0 (m_acktime m) 0)
             (fun m => (0 <? m_sent m) && (m_acktime m =? 0) && m_ack m).
(* SetMessageSentTime by created_time *)
Definition l_set_sent_time (st : dstate) (created now fc : N) : dstate :=
  upd_outbox st (fun m => set_times m now (m_acktime m) fc) (fun m => m_created m =? created).
(* GetNextUnsentMessage *)
Definition l_get_next_unsent (st : dstate) : option dmsg :=
  match sort_by_created (filter (fun m => m_sent m =? 0) (ds_outbox st)) with
  | m :: _ => Some m | [] => None end.

(* SetPayload / SetMessageAckFlag / SetJoinAcceptPayload on the device's buffer entry *)
Definition l_set_payload (st : dstate) (payload : list N) (port : N) (ack : bool) : dstate :=
  let fd := match ds_fb st with Some f => f | None => new_fout UnconfirmedDataDown end in
  with_fbe st (Some {| fo_mtype := if ack then ConfirmedDataDown else UnconfirmedDataDown; fo_ack := fo_ack fd;
                       fo_port := port; fo_payload := payload; fo_ja := fo_ja fd |}).
Definition l_set_ack_flag (st : dstate) (flag : bool) : dstate :=
  let fd := match ds_fb st with Some f => f | None => new_fout UnconfirmedDataDown end in
  with_fbe st (Some {| fo_mtype := fo_mtype fd; fo_ack := flag; fo_port := fo_port fd; fo_payload := fo_payload fd; fo_ja := fo_ja fd |}).
(* the shadowed fd of the "not exists" branch ends in the same entry *)
Definition l_set_join_accept (st : dstate) (j : joinacc) : dstate :=
  let fd := match ds_fb st with Some f => f | None => {| fo_mtype := 0; fo_ack := false; fo_port := 0; fo_payload := []; fo_ja := None |} end in
  with_fbe st (Some {| fo_mtype := JoinAccept; fo_ack := fo_ack fd; fo_port := 0; fo_payload := fo_payload fd; fo_ja := Some j |}).

(* EU868 MaximumPayload(dataRate): (M, N) *)
Fixpoint assoc_str {A} (l : list (string * A)) (k : string) : option A :=
  match l with [] => None | (s, v) :: t => if String.eqb s k then Some v else assoc_str t k end.
Fixpoint assoc_n {A} (l : list (N * A)) (k : N) : option A :=
  match l with [] => None | (s, v) :: t => if s =? k then Some v else assoc_n t k end.
Definition max_payload (datr : string) : option (N * N) :=
  match assoc_str eu868_datr datr with Some dr => assoc_n eu868_payload dr | None => None end.
(* WithoutFOpts(): no MAC commands are ever queued by the pipeline *)
Definition max_without_fopts (mn : N * N) : N := if payload_withoutfopts_uses_M then fst mn else snd mn.

Record phyout := { po_mtype : N; po_ack : bool; po_pending : bool; po_port : N; po_frm : list N; po_ja : option joinacc }.
Inductive getres := GetNone | GetErr | GetOk (p : phyout).
(* GetPHYPayloadForDevice *)
Definition l_get_phy (st : dstate) (datr : string) : dstate * getres :=
  match ds_fb st with
  | None => (st, GetNone)
  | Some fd =>
    let plen := length (fo_payload fd) in
    if (plen =? 0)%nat && negb (fo_mtype fd =? JoinAccept) && negb (fo_ack fd) then (with_fbe st None, GetNone)
    else if (0 <? plen)%nat then
      match max_payload datr with
      | None => (st, GetErr)
      | Some mn =>
        let mx := N.to_nat (max_without_fopts mn) in
        let '(now_, later) := if (mx <? plen)%nat then (firstn mx (fo_payload fd), skipn mx (fo_payload fd)) else (fo_payload fd, []) in
        let fd' := {| fo_mtype := if fo_mtype fd =? JoinAccept then UnconfirmedDataDown else fo_mtype fd;
                      fo_ack := false; fo_port := fo_port fd; fo_payload := later;
                      fo_ja := if fo_mtype fd =? JoinAccept then None else fo_ja fd |} in
        (with_fbe st (Some fd'),
         GetOk {| po_mtype := fo_mtype fd; po_ack := fo_ack fd; po_pending := (0 <? length later)%nat;
                  po_port := fo_port fd; po_frm := now_; po_ja := fo_ja fd |})
      end
    else
      let fd' := {| fo_mtype := if fo_mtype fd =? JoinAccept then UnconfirmedDataDown else fo_mtype fd;
                    fo_ack := false; fo_port := fo_port fd; fo_payload := fo_payload fd;
                    fo_ja := if fo_mtype fd =? JoinAccept then None else fo_ja fd |} in
      (with_fbe st (Some fd'),
       GetOk {| po_mtype := fo_mtype fd; po_ack := fo_ack fd; po_pending := false; po_port := fo_port fd; po_frm := []; po_ja := fo_ja fd |})
  end.

(* ---------------- the whole store: device states by EUI ---------------- *)
Definition dtab := list (N * dstate).
Fixpoint dt_get (t : dtab) (eui : N) : dstate :=
  match t with [] => empty_dstate | (e, st) :: r => if e =? eui then st else dt_get r eui end.
Fixpoint dt_put (t : dtab) (eui : N) (st : dstate) : dtab :=
  match t with
  | [] => [(eui, st)]
  | (e, x) :: r => if e =? eui then (e, st) :: r else (e, x) :: dt_put r eui st
  end.
(* GetDeviceByDevAddr: every device row with that address, with its nonces *)
Definition dt_by_devaddr (t : dtab) (a : N) : list device :=
  flat_map (fun p => match ds_row (snd p) with Some r => if d_addr r =? a then [load (snd p) r] else [] | None => [] end) t.
(* GetDeviceByEUI *)
Definition dt_by_eui (t : dtab) (eui : N) : option device :=
  match ds_row (dt_get t eui) with Some r => Some (load (dt_get t eui) r) | None => None end.
