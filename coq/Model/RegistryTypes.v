(* Values, operations and results of the registry and message store (pkg/storage) as its
   callers see them. Text (tags, data-rate names, IP text, downstream payload text) is a list of
   byte codes; coordinates and radio figures are exact binary fractions given as integers
   (eighths), timestamps are signed. *)
From Lospan Require Import Base.Bytes.
Open Scope N_scope.

Record rapp := { ap_eui : N; ap_tag : list N }.
Record rdev := { rd_eui : N; rd_addr : N; rd_appkey : list N; rd_appskey : list N; rd_nwkskey : list N;
                 rd_app : N; rd_state : N; rd_fup : N; rd_fdn : N; rd_relaxed : bool; rd_kw : bool; rd_tag : list N }.
Record gway := { gw_eui : N; gw_lat : Z; gw_lon : Z; gw_alt : Z; gw_ip : list N; gw_strict : bool }.
Record upm := { up_eui : N; up_ts : Z; up_data : list N; up_gw : N; up_rssi : Z; up_snr : Z; up_freq : Z;
                up_datr : list N; up_addr : N }.
Record downm := { dn_eui : N; dn_data : list N; dn_port : N; dn_ack : bool; dn_created : Z; dn_sent : Z;
                  dn_acktime : Z; dn_fcnt : N }.

Inductive regop :=
| CreateApplication (a : rapp) | DeleteApplication (e : N) | GetApplicationByEUI (e : N) | ListApplications
| CreateDevice (d : rdev) | UpdateDevice (d : rdev) | UpdateDeviceState (e fup fdn : N) (kw : bool) | DeleteDevice (e : N)
| GetDeviceByEUI (e : N) | GetDeviceByDevAddr (a : N) | GetDevicesByApplicationEUI (e : N) | AddDevNonce (e n : N)
| CreateGateway (g : gway) | UpdateGateway (g : gway) | DeleteGateway (e : N) | GetGateway (e : N) | GetGatewayList
| CreateUpstreamMessage (m : upm) | ListUpstreamMessages (e : N) (limit : Z)
| CreateDownstreamMessage (m : downm) | DeleteDownstreamMessage (e : N) (created : Z) | ListDownstreamMessages (e : N)
| Reopen
| AdvanceFCntUp (e : N) (key : list N) (accepted newfup : N) (kw : bool) | NextFCntDn (e : N) (key : list N)
| SetMessageSentTime (e : N) (created sent : Z) (fc : N) | UpdateMessageAckTime (e : N) (fc : N) (ackt : Z)
| ResetActiveAcks (e : N) | GetNextUnsentMessage (e : N).

Inductive regres :=
| ROk | RNotFound | RFailed
| RApp (a : rapp) | RApps (l : list rapp)
| RDev (d : rdev) (nonces : list N) | RDevs (l : list (rdev * list N))
| RGw (g : gway) | RGws (l : list gway)
| RUps (l : list upm) | RDowns (l : list downm)
| RCnt (c : N).

(* which values are representable in the Go types *)
Definition text_ok (s : list N) : bool := bytes_ok s.
Definition key_ok (k : list N) : bool := bytes_ok k && (length k =? 16)%nat.
Definition i64_ok (z : Z) : bool := ((-9223372036854775808 <=? z) && (z <? 9223372036854775808))%Z.
Definition app_ok (a : rapp) : bool := (ap_eui a <? 18446744073709551616) && text_ok (ap_tag a).
Definition dev_ok (d : rdev) : bool :=
  (rd_eui d <? 18446744073709551616) && (rd_addr d <? 4294967296) && key_ok (rd_appkey d) && key_ok (rd_appskey d)
  && key_ok (rd_nwkskey d) && (rd_app d <? 18446744073709551616) && (rd_state d <? 256) && (rd_fup d <? 65536)
  && (rd_fdn d <? 65536) && text_ok (rd_tag d).
Definition gw_ok (g : gway) : bool := (gw_eui g <? 18446744073709551616) && text_ok (gw_ip g).
Definition up_ok (m : upm) : bool :=
  (up_eui m <? 18446744073709551616) && i64_ok (up_ts m) && bytes_ok (up_data m) && (up_gw m <? 18446744073709551616)
  && text_ok (up_datr m) && (up_addr m <? 4294967296).
Definition down_ok (m : downm) : bool :=
  (dn_eui m <? 18446744073709551616) && text_ok (dn_data m) && (dn_port m <? 256) && i64_ok (dn_created m)
  && i64_ok (dn_sent m) && i64_ok (dn_acktime m) && (dn_fcnt m <? 65536).
Definition eui_ok (e : N) : bool := e <? 18446744073709551616.
Definition regop_ok (o : regop) : bool :=
  match o with
  | CreateApplication a => app_ok a
  | DeleteApplication e | GetApplicationByEUI e | DeleteDevice e | GetDeviceByEUI e | GetDevicesByApplicationEUI e
  | DeleteGateway e | GetGateway e | ListDownstreamMessages e => eui_ok e
  | ListApplications | GetGatewayList | Reopen => true
  | CreateDevice d | UpdateDevice d => dev_ok d
  | UpdateDeviceState e fup fdn _ => eui_ok e && (fup <? 65536) && (fdn <? 65536)
  | GetDeviceByDevAddr a => a <? 4294967296
  | AddDevNonce e n => eui_ok e && (n <? 65536)
  | CreateGateway g | UpdateGateway g => gw_ok g
  | CreateUpstreamMessage m => up_ok m
  | ListUpstreamMessages e _ => eui_ok e
  | CreateDownstreamMessage m => down_ok m
  | DeleteDownstreamMessage e c => eui_ok e && i64_ok c
  | AdvanceFCntUp e key a nf _ => eui_ok e && key_ok key && (a <? 65536) && (nf <? 65536)
  | NextFCntDn e key => eui_ok e && key_ok key
  | SetMessageSentTime e c s fc => eui_ok e && i64_ok c && i64_ok s && (fc <? 65536)
  | UpdateMessageAckTime e fc a => eui_ok e && (fc <? 65536) && i64_ok a
  | ResetActiveAcks e | GetNextUnsentMessage e => eui_ok e
  end.
