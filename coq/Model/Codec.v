(* Field codecs used for persistence and by the management API: protocol/devaddr.go
   (String / DevAddrFromString), protocol/eui.go (String / EUIFromString / ToInt64 /
   EUIFromInt64), protocol/aeskey.go (String / AESKeyFromString), encoding/hex,
   encoding/base64 (StdEncoding), the nonce column. Strings are lists of byte codes. *)
From Lospan Require Import Base.Bytes.
Open Scope N_scope.

(* ---- encoding/hex ---- *)
Definition hexd (v : N) : N := if v <? 10 then 48 + v else 87 + v.
Definition unhexd (c : N) : option N :=
  if (48 <=? c) && (c <=? 57) then Some (c - 48)
  else if (97 <=? c) && (c <=? 102) then Some (c - 87)
  else if (65 <=? c) && (c <=? 70) then Some (c - 55) else None.
Definition hex_byte (b : N) : list N := [hexd (b / 16); hexd (b mod 16)].
Definition hex_enc (l : list N) : list N := flat_map hex_byte l.
Fixpoint hex_dec (s : list N) : option (list N) :=
  match s with
  | [] => Some []
  | c1 :: c2 :: t =>
    match unhexd c1, unhexd c2, hex_dec t with
    | Some a, Some b, Some r => Some (a * 16 + b :: r)
    | _, _, _ => None
    end
  | [_] => None
  end.

(* ---- DevAddr: fmt.Sprintf("%08x", u32) and strconv.ParseUint(s, 16, 32) ---- *)
Definition devaddr_str (a : N) : list N := hex_enc (be_bytes 4 a).
Fixpoint parse_hex_acc (s : list N) (acc : N) : option N :=
  match s with
  | [] => Some acc
  | c :: t => match unhexd c with
              | Some d => let acc' := acc * 16 + d in
                          if 4294967296 <=? acc' then None else parse_hex_acc t acc'
              | None => None
              end
  end.
Definition devaddr_from_str (s : list N) : option N :=
  match s with [] => None | _ => parse_hex_acc s 0 end.

(* ---- EUI: 64-bit value <-> signed column; dashed hex text ---- *)
Definition two63 : N := 9223372036854775808.
Definition two64 : N := 18446744073709551616.
Definition eui_to_int64 (e : N) : Z := if e <? two63 then Z.of_N e else (Z.of_N e - Z.of_N two64)%Z.
Definition eui_from_int64 (z : Z) : N := Z.to_N (z mod Z.of_N two64)%Z.
Fixpoint dashed (l : list N) : list N :=
  match l with
  | [] => []
  | [b] => hex_byte b
  | b :: t => hex_byte b ++ 45 :: dashed t
  end.
Definition eui_str (e : N) : list N := dashed (be_bytes 8 e).
Definition is_space (c : N) : bool := ((9 <=? c) && (c <=? 13)) || (c =? 32).
Fixpoint trim_left (s : list N) : list N :=
  match s with c :: t => if is_space c then trim_left t else s | [] => [] end.
Definition trim (s : list N) : list N := rev (trim_left (rev (trim_left s))).
Definition remove_char (c : N) (s : list N) : list N := filter (fun x => negb (x =? c)) s.
Definition eui_from_str (s : list N) : option N :=
  match hex_dec (trim (remove_char 45 s)) with
  | Some l => if (length l =? 8)%nat then Some (be_val l) else None
  | None => None
  end.

(* ---- AES keys: 32 hex digits; blanks are ignored on reading ---- *)
Definition key_str (k : list N) : list N := hex_enc k.
Definition key_from_str (s : list N) : option (list N) :=
  match hex_dec (remove_char 32 s) with
  | Some l => if (length l =? 16)%nat then Some l else None
  | None => None
  end.

(* ---- DevNonce column: stored as an integer, read into int, converted to uint16 ---- *)
Definition nonce_col (n : N) : Z := Z.of_N n.
Definition nonce_of_col (z : Z) : N := Z.to_N (z mod 65536)%Z.

(* ---- encoding/base64 StdEncoding ---- *)
Definition b64c (v : N) : N :=
  if v <? 26 then 65 + v else if v <? 52 then 71 + v else if v <? 62 then v - 4 else if v =? 62 then 43 else 47.
Definition b64v (c : N) : option N :=
  if (65 <=? c) && (c <=? 90) then Some (c - 65)
  else if (97 <=? c) && (c <=? 122) then Some (c - 71)
  else if (48 <=? c) && (c <=? 57) then Some (c + 4)
  else if c =? 43 then Some 62 else if c =? 47 then Some 63 else None.
Fixpoint b64_enc (l : list N) : list N :=
  match l with
  | [] => []
  | [a] => [b64c (a / 4); b64c ((a mod 4) * 16); 61; 61]
  | [a; b] => [b64c (a / 4); b64c ((a mod 4) * 16 + b / 16); b64c ((b mod 16) * 4); 61]
  | a :: b :: c :: t =>
    b64c (a / 4) :: b64c ((a mod 4) * 16 + b / 16) :: b64c ((b mod 16) * 4 + c / 64) :: b64c (c mod 64) :: b64_enc t
  end.
(* strict decoding of padded text (no line breaks; trailing bits of a padded group must be zero
   is NOT required by Go's non-strict StdEncoding, and is not required here) *)
Fixpoint b64_dec (s : list N) : option (list N) :=
  match s with
  | [] => Some []
  | c1 :: c2 :: c3 :: c4 :: t =>
    match b64v c1, b64v c2 with
    | Some v1, Some v2 =>
      if (c3 =? 61) && (c4 =? 61) then
        match t with [] => Some [v1 * 4 + v2 / 16] | _ => None end
      else match b64v c3 with
           | Some v3 =>
             if c4 =? 61 then
               match t with [] => Some [v1 * 4 + v2 / 16; (v2 mod 16) * 16 + v3 / 4] | _ => None end
             else match b64v c4, b64_dec t with
                  | Some v4, Some r => Some (v1 * 4 + v2 / 16 :: (v2 mod 16) * 16 + v3 / 4 :: (v3 mod 4) * 64 + v4 :: r)
                  | _, _ => None
                  end
           | None => None
           end
    | _, _ => None
    end
  | _ => None
  end.
