(* Model of the pipeline for quiescent (sequential) histories: processor/decoder.go,
   decrypter.go, otaa_join.go, macprocessor.go (pass-through), scheduler.go (one
   notification, no duplicate in flight), encoder.go. One event's handlers run to
   completion before the next event. *)
From Coq Require Import String.
From Lospan Require Import Base.Bytes Base.Outcome Model.CMAC Model.FrameTypes Model.Crypto Gen.Consts Model.MacCmd
  Model.Frame Model.Join Model.Store.
Open Scope N_scope.

Record config := { cfg_netid : N; cfg_disable_nonce_check : bool }.
Record srv := { s_db : db; s_fb : fbuf; s_cfg : config }.

(* what leaves the pipeline *)
Record downlink := { dl_raw : list N; dl_radio : radio; dl_gw : gwctx; dl_rx1delay : N; dl_eui : N }.
Record publish := { pb_app : N; pb_eui : N; pb_payload : list N; pb_gw : N; pb_radio : radio }.
Inductive out := ODown (d : downlink) | OPub (p : publish).

Definition with_db (s : srv) (d : db) : srv := {| s_db := d; s_fb := s_fb s; s_cfg := s_cfg s |}.
Definition with_fb (s : srv) (b : fbuf) : srv := {| s_db := s_db s; s_fb := b; s_cfg := s_cfg s |}.

Definition set_counters (dev : device) (fup fdn : N) (kw : bool) : device :=
  {| d_eui := d_eui dev; d_addr := d_addr dev; d_appkey := d_appkey dev; d_appskey := d_appskey dev; d_nwkskey := d_nwkskey dev;
     d_appeui := d_appeui dev; d_state := d_state dev; d_fup := fup; d_fdn := fdn; d_relaxed := d_relaxed dev;
     d_keywarn := kw; d_nonces := d_nonces dev |}.

Section Server.
  Variable E D : list N -> list N -> list N.

  (* PHYPayload.EncodeMessage: encrypt, MIC over the marshalled frame without MIC, marshal *)
  Definition encode_message (nwk app : list N) (f : frame) : outcome (list N) :=
    let f1 := frame_crypt E nwk app f in
    do buf <- encode f1;
    if (length buf <? 4)%nat then Err ErrBufferTruncated
    else
      let msg := firstn (length buf - 4) buf in
      let m := data_mic E nwk (mtype_uplink (mtype f1)) (devaddr_u32 (f_devaddr f1)) (fcnt f1) msg in
      encode (set_mic f1 m).

  (* Encoder.processMessage for a data downlink: ctx device is the handler's snapshot *)
  Definition encoder_data (s : srv) (dev : device) (p : phyout) (rx : rxpacket) (created now : N) : srv * list out :=
    let base := new_phy (po_mtype p) in
    let f := {| mtype := po_mtype p; major := c_MaxSupportedVersion; f_devaddr := devaddr_of_u32 (d_addr dev);
                fc := {| adr := false; adrackreq := false; ack := po_ack p; fpending := po_pending p; classb := false; foptslen := 0 |};
                fcnt := d_fdn dev; fopts := fopts base; fport := po_port p; frm := po_frm p; maccmds := maccmds base;
                mic := 0; jr := jr base; ja := ja base |} in
    match encode_message (d_nwkskey dev) (d_appskey dev) f with
    | Ok buf =>
      let db1 := set_sent_time (s_db s) (d_eui dev) created now (d_fup dev) in
      let dev' := set_counters dev (d_fup dev) ((d_fdn dev + 1) mod 65536) (d_keywarn dev) in
      match update_device_state db1 dev' with
      | (db2, None) =>
        (with_db s db2,
         if (length buf =? 0)%nat then []
         else [ODown {| dl_raw := buf; dl_radio := rx_radio rx; dl_gw := rx_gw rx; dl_rx1delay := 1; dl_eui := d_eui dev |}])
      | (db2, Some _) => (with_db s db2, [])
      end
    | _ => (s, [])
    end.

  (* Encoder.processMessage for a join-accept *)
  Definition encoder_join (s : srv) (dev : device) (j : joinacc) (rx : rxpacket) : srv * list out :=
    let dev' := set_counters dev 0 0 (d_keywarn dev) in
    match update_device_state (s_db s) dev' with
    | (db1, None) =>
      match encode_join_accept E D (d_appkey dev) JoinAccept c_MaxSupportedVersion j with
      | Ok buf => (with_db s db1, [ODown {| dl_raw := buf; dl_radio := rx_radio rx; dl_gw := rx_gw rx; dl_rx1delay := 5; dl_eui := d_eui dev |}])
      | _ => (with_db s db1, [])
      end
    | (db1, Some _) => (with_db s db1, [])
    end.

  (* scheduler.sendAt + encoder for the device whose handler just notified *)
  Definition send_for (s : srv) (dev : device) (rx : rxpacket) (created now : N) : srv * list out :=
    match fb_get_phy (s_fb s) (d_eui dev) (r_datr (rx_radio rx)) with
    | (b, GetOk p) =>
      let s1 := with_fb s b in
      if po_mtype p =? JoinAccept then
        match po_ja p with Some j => encoder_join s1 dev j rx | None => encoder_join s1 dev zero_ja rx end
      else if mtype_uplink (po_mtype p) || (po_mtype p =? RFU) || (po_mtype p =? Proprietary) then (s1, [])
      else encoder_data s1 dev p rx created now
    | (b, _) => (with_fb s b, [])
    end.

  (* Decrypter.processMessage for one device whose key verified the MIC *)
  Definition process_message (s : srv) (dev : device) (f : frame) (rx : rxpacket) (nmatch : nat) (now : N) : srv * list out :=
    if negb (d_relaxed dev) && (fcnt f <? d_fup dev) then (s, [])
    else
      let kw := if (1 <? nmatch)%nat then true else d_keywarn dev in
      let step1 :=
        if d_fup dev <=? fcnt f then
          let dev1 := set_counters dev ((fcnt f + 1) mod 65536) (d_fdn dev) kw in
          match update_device_state (s_db s) dev1 with
          | (db1, None) => Some (db1, dev1)
          | (_, Some _) => None
          end
        else Some (s_db s, set_counters dev (d_fup dev) (d_fdn dev) kw) in
      match step1 with
      | None => (s, [])
      | Some (db1, dev1) =>
        let plain := frm (frame_crypt E (d_nwkskey dev1) (d_appskey dev1) f) in
        let um := {| u_eui := d_eui dev1; u_ts := rx_ts rx; u_data := plain; u_gweui := g_eui (rx_gw rx);
                     u_radio := rx_radio rx; u_addr := d_addr dev1 |} in
        match create_upstream db1 um with
        | (db2, Some _) => (with_db s db2, [])
        | (db2, None) =>
          if negb (has_app db2 (d_appeui dev1)) then (with_db s db2, [])
          else
            let fb1 := if mtype f =? ConfirmedDataUp then fb_set_ack_flag (s_fb s) (d_eui dev1) true else s_fb s in
            let db3 := if ack (fc f) then update_ack_time db2 (d_eui dev1) (fcnt f) now else reset_active_acks db2 (d_eui dev1) in
            let '(db4, fb2, created) :=
              match get_next_unsent db3 (d_eui dev1) with
              | Some m => (set_sent_time db3 (d_eui dev1) (m_created m) now (fcnt f),
                           fb_set_payload fb1 (d_eui dev1) (m_data m) (m_port m) (m_ack m), m_created m)
              | None => (db3, fb1, 0)
              end in
            let s1 := {| s_db := db4; s_fb := fb2; s_cfg := s_cfg s |} in
            let '(s2, outs) := send_for s1 dev1 rx created now in
            (s2, outs ++ [OPub {| pb_app := d_appeui dev1; pb_eui := d_eui dev1; pb_payload := plain;
                                   pb_gw := g_eui (rx_gw rx); pb_radio := rx_radio rx |}])
        end
      end.

  (* Decrypter.verifyAndDecryptMessage *)
  Definition uplink_data (s : srv) (f : frame) (rx : rxpacket) (now : N) : srv * list out :=
    let cands := get_by_devaddr (s_db s) (devaddr_u32 (f_devaddr f)) in
    let raw := rx_raw rx in
    if (length raw <? N.to_nat c_MinimumMessageSize)%nat then (s, [])
    else
      let msg := firstn (length raw - 4) raw in
      let ok d := negb (key_empty (d_nwkskey d)) &&
                  (data_mic E (d_nwkskey d) (mtype_uplink (mtype f)) (devaddr_u32 (f_devaddr f)) (fcnt f) msg =? mic f) in
      let matching := filter ok cands in
      fold_left (fun acc d => let '(s1, o1) := process_message (fst acc) d f rx (length matching) now in (s1, snd acc ++ o1))
                matching (s, []).

  (* verifyJoinRequestMIC + processJoinRequest; appnonce and a fresh address are inputs *)
  Definition join_request (s : srv) (f : frame) (rx : rxpacket) (appnonce : list N) (newaddr : N) : srv * list out :=
    let raw := rx_raw rx in
    if negb (length raw =? 23)%nat then (s, [])
    else
      let j := jr f in
      match get_by_eui (s_db s) (jr_deveui j) with
      | None => (s, [])
      | Some dev0 =>
        if negb (buffer_mic E (d_appkey dev0) (firstn 19 raw) =? mic f) then (s, [])
        else
          match get_by_eui (s_db s) (jr_deveui j) with
          | None => (s, [])
          | Some dev =>
            if negb (d_appeui dev =? jr_appeui j) then (s, [])
            else if negb (cfg_disable_nonce_check (s_cfg s)) && existsb (fun n => n =? jr_devnonce j) (d_nonces dev) then (s, [])
            else if negb (has_app (s_db s) (jr_appeui j)) then (s, [])
            else
              let r1 := if cfg_disable_nonce_check (s_cfg s) then (s_db s, None) else add_nonce (s_db s) (d_eui dev) (jr_devnonce j) in
              match r1 with
              | (_, Some _) => (s, [])
              | (db1, None) =>
                let nwk := nwkskey_from_nonces E (d_appkey dev) appnonce (cfg_netid (s_cfg s)) (jr_devnonce j) in
                let app := appskey_from_nonces E (d_appkey dev) appnonce (cfg_netid (s_cfg s)) (jr_devnonce j) in
                let addr := if d_addr dev =? 0 then newaddr else d_addr dev in
                let dev1 := {| d_eui := d_eui dev; d_addr := addr; d_appkey := d_appkey dev; d_appskey := app; d_nwkskey := nwk;
                               d_appeui := d_appeui dev; d_state := d_state dev; d_fup := 0; d_fdn := 0; d_relaxed := d_relaxed dev;
                               d_keywarn := d_keywarn dev; d_nonces := d_nonces dev |} in
                match update_device db1 dev1 with
                | (db2, Some _) => (with_db s db2, [])
                | (db2, None) =>
                  let ja_ := {| ja_appnonce := appnonce; ja_netid := N.land (cfg_netid (s_cfg s)) 4294967295;
                                ja_devaddr := devaddr_of_u32 addr; ja_rx1droffset := 0; ja_rx2dr := 5; ja_rxdelay := 1 |} in
                  let s1 := {| s_db := db2; s_fb := fb_set_join_accept (s_fb s) (d_eui dev) ja_; s_cfg := s_cfg s |} in
                  send_for s1 dev1 rx 0 0
                end
              end
          end
      end.

  (* one packet from a gateway: Decoder, then the Decrypter's dispatch *)
  Definition rx_event (s : srv) (rx : rxpacket) (appnonce : list N) (newaddr : N) (now : N) : srv * list out :=
    match decode (mk_slice (rx_raw rx) []) with
    | Ok f =>
      if mtype f =? JoinRequest then join_request s f rx appnonce newaddr
      else if (mtype f =? UnconfirmedDataUp) || (mtype f =? ConfirmedDataUp) then uplink_data s f rx now
      else (s, [])
    | _ => (s, [])
    end.

  (* an application queues a message (storage.CreateDownstreamMessage) *)
  Definition submit (s : srv) (m : dmsg) : srv * bool :=
    match create_downstream (s_db s) m with
    | (d, None) => (with_db s d, true)
    | (d, Some _) => (with_db s d, false)
    end.
End Server.
