(* Model of the pipeline for quiescent (sequential) histories: processor/decoder.go,
   decrypter.go, otaa_join.go, macprocessor.go (pass-through), scheduler.go (one
   notification, no duplicate in flight), encoder.go. One event's handlers run to
   completion before the next event. *)
From Coq Require Import String.
From Lospan Require Import Base.Bytes Base.Outcome Model.CMAC Model.FrameTypes Model.Crypto Gen.Consts Model.MacCmd
  Model.Frame Model.Join Model.Store.
Open Scope N_scope.

Record config := { cfg_netid : N; cfg_disable_nonce_check : bool }.
Record srv := { s_tab : dtab; s_apps : list N; s_cfg : config }.

(* what leaves the pipeline *)
Record downlink := { dl_raw : list N; dl_radio : radio; dl_gw : gwctx; dl_rx1delay : N; dl_eui : N }.
Record publish := { pb_app : N; pb_eui : N; pb_payload : list N; pb_gw : N; pb_radio : radio }.
Inductive out := ODown (d : downlink) | OPub (p : publish).

Definition with_tab (s : srv) (t : dtab) : srv := {| s_tab := t; s_apps := s_apps s; s_cfg := s_cfg s |}.
Definition has_app (apps : list N) (eui : N) : bool := existsb (fun a => a =? eui) apps.

Definition set_counters (dev : device) (fup fdn : N) (kw : bool) : device :=
  {| d_eui := d_eui dev; d_addr := d_addr dev; d_appkey := d_appkey dev; d_appskey := d_appskey dev; d_nwkskey := d_nwkskey dev;
     d_appeui := d_appeui dev; d_state := d_state dev; d_fup := fup; d_fdn := fdn; d_relaxed := d_relaxed dev;
     d_keywarn := kw; d_nonces := d_nonces dev |}.

Section Server.
  Variable E D : list N -> list N -> list N.

  (* PHYPayload.EncodeMessage: encrypt, MIC over the marshalled frame without MIC, marshal *)
  Definition encode_message (nwk app : list N) (f : frame) : outcome (list N) :=
    let f1 := frame_crypt E nwk app f in
    do buf <- encode f1;
    if (length buf <? 4)%nat then Err ErrBufferTruncated
    else
      let msg := firstn (length buf - 4) buf in
      let m := data_mic E nwk (mtype_uplink (mtype f1)) (devaddr_u32 (f_devaddr f1)) (fcnt f1) msg in
      encode (set_mic f1 m).

  (* the frame GetPHYPayloadForDevice builds and the encoder completes with FCnt = FCntDn *)
  Definition downlink_frame (dev : device) (p : phyout) (c : N) : frame :=
    let base := new_phy (po_mtype p) in
    {| mtype := po_mtype p; major := c_MaxSupportedVersion; f_devaddr := devaddr_of_u32 (d_addr dev);
       fc := {| adr := false; adrackreq := false; ack := po_ack p; fpending := po_pending p; classb := false; foptslen := 0 |};
       fcnt := c; fopts := fopts base; fport := po_port p; frm := po_frm p; maccmds := maccmds base;
       mic := 0; jr := jr base; ja := ja base |}.

  (* Encoder.processMessage for a data downlink: dev is the handler's snapshot of the device (keys, address);
     the frame counter is reserved in the store *)
  Definition encoder_data (st : dstate) (dev : device) (p : phyout) (rx : rxpacket) (created now : N) : dstate * list out :=
    match encode (downlink_frame dev p 0) with   (* the trial MarshalBinary: no counter for a frame that cannot be sent *)
    | Ok _ =>
    match l_next_fdn st (d_nwkskey dev) with
    | (st1, Some c) =>
      match encode_message (d_nwkskey dev) (d_appskey dev) (downlink_frame dev p c) with
      | Ok buf =>
        let st2 := l_set_sent_time st1 created now (d_fup dev) in
        (st2, if (length buf =? 0)%nat then []
              else [ODown {| dl_raw := buf; dl_radio := rx_radio rx; dl_gw := rx_gw rx; dl_rx1delay := 1; dl_eui := d_eui dev |}])
      | _ => (st1, [])
      end
    | (st1, None) => (st1, [])
    end
    | _ => (st, [])
    end.

  (* Encoder.processMessage for a join-accept *)
  Definition encoder_join (st : dstate) (dev : device) (j : joinacc) (rx : rxpacket) : dstate * list out :=
    let dev' := set_counters dev 0 0 (d_keywarn dev) in
    match l_update_device_state st dev' with
    | (st1, None) =>
      match encode_join_accept E D (d_appkey dev) JoinAccept c_MaxSupportedVersion j with
      | Ok buf => (st1, [ODown {| dl_raw := buf; dl_radio := rx_radio rx; dl_gw := rx_gw rx; dl_rx1delay := 5; dl_eui := d_eui dev |}])
      | _ => (st1, [])
      end
    | (st1, Some _) => (st1, [])
    end.

  (* scheduler.sendAt + encoder for the device whose handler just notified *)
  Definition send_for (st : dstate) (dev : device) (rx : rxpacket) (created now : N) : dstate * list out :=
    match l_get_phy st (r_datr (rx_radio rx)) with
    | (st1, GetOk p) =>
      if po_mtype p =? JoinAccept then
        match po_ja p with Some j => encoder_join st1 dev j rx | None => encoder_join st1 dev zero_ja rx end
      else if mtype_uplink (po_mtype p) || (po_mtype p =? RFU) || (po_mtype p =? Proprietary) then (st1, [])
      else encoder_data st1 dev p rx created now
    | (st1, _) => (st1, [])
    end.

  (* Decrypter.processMessage, in the order of the code: counter check and advance ... *)
  Definition stale (dev : device) (f : frame) : bool := negb (d_relaxed dev) && (fcnt f <? d_fup dev).
  Definition pm_counter (st : dstate) (dev : device) (f : frame) (nmatch : nat) : option (dstate * device) :=
    let kw := if (1 <? nmatch)%nat then true else d_keywarn dev in
    if d_fup dev <=? fcnt f then
      let dev1 := set_counters dev ((fcnt f + 1) mod 65536) (d_fdn dev) kw in
      (* the store repeats the comparison together with the write *)
      match l_advance_fup st (d_nwkskey dev) (fcnt f) ((fcnt f + 1) mod 65536) kw with
      | (st1, None) => Some (st1, dev1)
      | (_, Some SNotFound) => if d_relaxed dev then Some (st, dev1) else None
      | (_, Some _) => None
      end
    else Some (st, set_counters dev (d_fup dev) (d_fdn dev) kw).
  (* ... the inbox row and the published message ... *)
  Definition mk_umsg (dev : device) (rx : rxpacket) (plain : list N) : umsg :=
    {| u_eui := d_eui dev; u_ts := rx_ts rx; u_data := plain; u_gweui := g_eui (rx_gw rx); u_radio := rx_radio rx; u_addr := d_addr dev |}.
  Definition mk_pub (dev : device) (rx : rxpacket) (plain : list N) : publish :=
    {| pb_app := d_appeui dev; pb_eui := d_eui dev; pb_payload := plain; pb_gw := g_eui (rx_gw rx); pb_radio := rx_radio rx |}.
  (* ... ACK bookkeeping and loading the oldest unsent message (returns its created_time, 0 if none) ... *)
  Definition pm_queue (st : dstate) (f : frame) (now : N) : dstate * N :=
    let st3 := if mtype f =? ConfirmedDataUp then l_set_ack_flag st true else st in
    let st4 := if ack (fc f) then l_update_ack_time st3 (fcnt f) now else l_reset_active_acks st3 in
    match l_get_next_unsent st4 with
    | Some m => (l_set_sent_time (l_set_payload st4 (m_data m) (m_port m) (m_ack m)) (m_created m) now (fcnt f), m_created m)
    | None => (st4, 0)
    end.
  (* ... then the answer is scheduled and encoded, and the payload published *)
  Definition process_message (apps : list N) (st : dstate) (dev : device) (f : frame) (rx : rxpacket) (nmatch : nat) (now : N)
    : dstate * list out :=
    if stale dev f then (st, [])
    else
      match pm_counter st dev f nmatch with
      | None => (st, [])
      | Some (st1, dev1) =>
        let plain := frm (frame_crypt E (d_nwkskey dev1) (d_appskey dev1) f) in
        match l_create_upstream st1 (mk_umsg dev1 rx plain) with
        | (st2, Some _) => (st2, [])
        | (st2, None) =>
          if negb (has_app apps (d_appeui dev1)) then (st2, [])
          else
            let q := pm_queue st2 f now in
            let r := send_for (fst q) dev1 rx (snd q) now in
            (fst r, snd r ++ [OPub (mk_pub dev1 rx plain)])
        end
      end.

  (* the devices whose non-empty network session key verifies the MIC over the received bytes *)
  Definition mic_ok (f : frame) (raw : list N) (dv : device) : bool :=
    negb (key_empty (d_nwkskey dv)) &&
    (data_mic E (d_nwkskey dv) (mtype_uplink (mtype f)) (devaddr_u32 (f_devaddr f)) (fcnt f) (firstn (length raw - 4) raw) =? mic f).

  (* Decrypter.verifyAndDecryptMessage *)
  Definition uplink_data (s : srv) (f : frame) (rx : rxpacket) (now : N) : srv * list out :=
    let cands := dt_by_devaddr (s_tab s) (devaddr_u32 (f_devaddr f)) in
    let raw := rx_raw rx in
    if (length raw <? N.to_nat c_MinimumMessageSize)%nat then (s, [])
    else
      let matching := filter (mic_ok f raw) cands in
      fold_left (fun acc dv =>
                   let '(st', o1) := process_message (s_apps s) (dt_get (s_tab (fst acc)) (d_eui dv)) dv f rx (length matching) now in
                   (with_tab (fst acc) (dt_put (s_tab (fst acc)) (d_eui dv) st'), snd acc ++ o1))
                matching (s, []).

  (* verifyJoinRequestMIC + processJoinRequest on the named device's state; appnonce and a fresh address are inputs *)
  Definition join_local (cfg : config) (apps : list N) (st : dstate) (f : frame) (rx : rxpacket) (appnonce : list N) (newaddr : N)
    : dstate * list out :=
    let raw := rx_raw rx in
    let j := jr f in
    match ds_row st with
    | None => (st, [])
    | Some r =>
      let dev := load st r in
      if negb (buffer_mic E (d_appkey dev) (firstn 19 raw) =? mic f) then (st, [])
      else if negb (d_appeui dev =? jr_appeui j) then (st, [])
      else if negb (cfg_disable_nonce_check cfg) && existsb (fun n => n =? jr_devnonce j) (d_nonces dev) then (st, [])
      else if negb (has_app apps (jr_appeui j)) then (st, [])
      else
        let r1 := if cfg_disable_nonce_check cfg then (st, None) else l_add_nonce st (jr_devnonce j) in
        match r1 with
        | (_, Some _) => (st, [])
        | (st1, None) =>
          let nwk := nwkskey_from_nonces E (d_appkey dev) appnonce (cfg_netid cfg) (jr_devnonce j) in
          let app := appskey_from_nonces E (d_appkey dev) appnonce (cfg_netid cfg) (jr_devnonce j) in
          let addr := if d_addr dev =? 0 then newaddr else d_addr dev in
          let dev1 := {| d_eui := d_eui dev; d_addr := addr; d_appkey := d_appkey dev; d_appskey := app; d_nwkskey := nwk;
                         d_appeui := d_appeui dev; d_state := d_state dev; d_fup := 0; d_fdn := 0; d_relaxed := d_relaxed dev;
                         d_keywarn := d_keywarn dev; d_nonces := d_nonces dev |} in
          match l_update_device st1 dev1 with
          | (st2, Some _) => (st2, [])
          | (st2, None) =>
            let ja_ := {| ja_appnonce := appnonce; ja_netid := N.land (cfg_netid cfg) 4294967295;
                          ja_devaddr := devaddr_of_u32 addr; ja_rx1droffset := 0; ja_rx2dr := 5; ja_rxdelay := 1 |} in
            (* FrameContext.Device was set before the keys were replaced: the scheduler and the encoder work with the
               device as it was read (matters only if another handler has overwritten the buffer entry meanwhile) *)
            send_for (l_set_join_accept st2 ja_) dev rx 0 0
          end
        end
    end.

  Definition join_request (s : srv) (f : frame) (rx : rxpacket) (appnonce : list N) (newaddr : N) : srv * list out :=
    if negb (length (rx_raw rx) =? 23)%nat then (s, [])
    else
      let eui := jr_deveui (jr f) in
      let '(st', outs) := join_local (s_cfg s) (s_apps s) (dt_get (s_tab s) eui) f rx appnonce newaddr in
      match ds_row (dt_get (s_tab s) eui) with
      | None => (s, [])
      | Some _ => (with_tab s (dt_put (s_tab s) eui st'), outs)
      end.

  (* one packet from a gateway: Decoder, then the Decrypter's dispatch *)
  Definition rx_event (s : srv) (rx : rxpacket) (appnonce : list N) (newaddr : N) (now : N) : srv * list out :=
    match decode (mk_slice (rx_raw rx) []) with
    | Ok f =>
      if mtype f =? JoinRequest then join_request s f rx appnonce newaddr
      else if (mtype f =? UnconfirmedDataUp) || (mtype f =? ConfirmedDataUp) then uplink_data s f rx now
      else (s, [])
    | _ => (s, [])
    end.

  (* an application queues a message (storage.CreateDownstreamMessage) *)
  Definition submit (s : srv) (m : dmsg) : srv * bool :=
    match l_create_downstream (dt_get (s_tab s) (m_eui m)) m with
    | (st, None) => (with_tab s (dt_put (s_tab s) (m_eui m) st), true)
    | (_, Some _) => (s, false)
    end.
End Server.
