(* Model of pkg/storage's registry and message tables (application.go, device.go, gateway.go,
   messages.go) with the column encodings the code uses: EUIs as signed 64-bit integers (or as
   dashed hex text where the code passes String()), device addresses as 8 hex digits, keys as 32
   hex digits, payloads as base64 text, nonces as integers. A statement is atomic; tables are
   lists in insertion order; doSQLExec reports "not found" when no row was affected. *)
From Lospan Require Import Base.Bytes Model.Codec Model.RegistryTypes.
Open Scope N_scope.

Record c_app := { ca_eui : Z; ca_tag : list N }.
Record c_dev := { cd_eui : Z; cd_addr : list N; cd_appkey : list N; cd_appskey : list N; cd_nwkskey : list N;
                  cd_app : Z; cd_state : N; cd_fup : N; cd_fdn : N; cd_relaxed : bool; cd_kw : bool; cd_tag : list N }.
Record c_gw := { cg_eui : Z; cg_lat : Z; cg_lon : Z; cg_alt : Z; cg_ip : list N; cg_strict : bool }.
Record c_up := { cu_eui : Z; cu_data : list N; cu_ts : Z; cu_gw : list N; cu_rssi : Z; cu_snr : Z; cu_freq : Z;
                 cu_datr : list N; cu_addr : list N }.
Record c_down := { cw_eui : list N; cw_data : list N; cw_port : N; cw_ack : bool; cw_created : Z; cw_sent : Z;
                   cw_acktime : Z; cw_fcnt : N }.
Record cstore := { t_apps : list c_app; t_devs : list c_dev; t_nonces : list (Z * Z); t_gws : list c_gw;
                   t_ups : list c_up; t_downs : list c_down }.
Definition c_empty : cstore := {| t_apps := []; t_devs := []; t_nonces := []; t_gws := []; t_ups := []; t_downs := [] |}.

(* ---- what the code writes into a row ---- *)
Definition enc_app (a : rapp) : c_app := {| ca_eui := eui_to_int64 (ap_eui a); ca_tag := ap_tag a |}.
Definition enc_dev (d : rdev) : c_dev :=
  {| cd_eui := eui_to_int64 (rd_eui d); cd_addr := devaddr_str (rd_addr d); cd_appkey := key_str (rd_appkey d);
     cd_appskey := key_str (rd_appskey d); cd_nwkskey := key_str (rd_nwkskey d); cd_app := eui_to_int64 (rd_app d);
     cd_state := rd_state d; cd_fup := rd_fup d; cd_fdn := rd_fdn d; cd_relaxed := rd_relaxed d; cd_kw := rd_kw d;
     cd_tag := rd_tag d |}.
Definition enc_gw (g : gway) : c_gw :=
  {| cg_eui := eui_to_int64 (gw_eui g); cg_lat := gw_lat g; cg_lon := gw_lon g; cg_alt := gw_alt g; cg_ip := gw_ip g;
     cg_strict := gw_strict g |}.
Definition enc_up (m : upm) : c_up :=
  {| cu_eui := eui_to_int64 (up_eui m); cu_data := b64_enc (up_data m); cu_ts := up_ts m; cu_gw := eui_str (up_gw m);
     cu_rssi := up_rssi m; cu_snr := up_snr m; cu_freq := up_freq m; cu_datr := up_datr m; cu_addr := devaddr_str (up_addr m) |}.
Definition enc_down (m : downm) : c_down :=
  {| cw_eui := eui_str (dn_eui m); cw_data := dn_data m; cw_port := dn_port m; cw_ack := dn_ack m; cw_created := dn_created m;
     cw_sent := dn_sent m; cw_acktime := dn_acktime m; cw_fcnt := dn_fcnt m |}.
Definition enc_nonce (p : N * N) : Z * Z := (eui_to_int64 (fst p), nonce_col (snd p)).

(* ---- what the row readers make of a row ---- *)
Definition dec_app (r : c_app) : rapp := {| ap_eui := eui_from_int64 (ca_eui r); ap_tag := ca_tag r |}.
Definition dec_dev (r : c_dev) : option rdev :=
  match devaddr_from_str (cd_addr r), key_from_str (cd_appkey r), key_from_str (cd_appskey r), key_from_str (cd_nwkskey r) with
  | Some a, Some k1, Some k2, Some k3 =>
    Some {| rd_eui := eui_from_int64 (cd_eui r); rd_addr := a; rd_appkey := k1; rd_appskey := k2; rd_nwkskey := k3;
            rd_app := eui_from_int64 (cd_app r); rd_state := cd_state r; rd_fup := cd_fup r; rd_fdn := cd_fdn r;
            rd_relaxed := cd_relaxed r; rd_kw := cd_kw r; rd_tag := cd_tag r |}
  | _, _, _, _ => None
  end.
Definition dec_gw (r : c_gw) : gway :=
  {| gw_eui := eui_from_int64 (cg_eui r); gw_lat := cg_lat r; gw_lon := cg_lon r; gw_alt := cg_alt r; gw_ip := cg_ip r;
     gw_strict := cg_strict r |}.
Definition dec_up (r : c_up) : option upm :=
  match b64_dec (cu_data r), eui_from_str (cu_gw r), devaddr_from_str (cu_addr r) with
  | Some d, Some g, Some a =>
    Some {| up_eui := eui_from_int64 (cu_eui r); up_ts := cu_ts r; up_data := d; up_gw := g; up_rssi := cu_rssi r;
            up_snr := cu_snr r; up_freq := cu_freq r; up_datr := cu_datr r; up_addr := a |}
  | _, _, _ => None
  end.
Definition dec_down (e : N) (r : c_down) : downm :=
  {| dn_eui := e; dn_data := cw_data r; dn_port := cw_port r; dn_ack := cw_ack r; dn_created := cw_created r;
     dn_sent := cw_sent r; dn_acktime := cw_acktime r; dn_fcnt := cw_fcnt r |}.
(* a listing stops with an error at the first row it cannot decode *)
Fixpoint dec_all {A B} (dec : A -> option B) (l : list A) : option (list B) :=
  match l with
  | [] => Some []
  | x :: t => match dec x, dec_all dec t with Some y, Some r => Some (y :: r) | _, _ => None end
  end.

Definition c_nonces_of (s : cstore) (e : Z) : list N :=
  map (fun p => nonce_of_col (snd p)) (filter (fun p => (fst p =? e)%Z) (t_nonces s)).

Section SortZ.
  Context {A : Type} (key : A -> Z).
  Fixpoint c_insert_by (x : A) (l : list A) : list A :=
    match l with [] => [x] | h :: t => if (key x <? key h)%Z then x :: l else h :: c_insert_by x t end.
  Definition c_sort_by (l : list A) : list A := fold_right c_insert_by [] l.
End SortZ.
Definition c_limit {A} (z : Z) (l : list A) : list A := if (z <? 0)%Z then l else firstn (Z.to_nat z) l.

Definition st_apps s v := {| t_apps := v; t_devs := t_devs s; t_nonces := t_nonces s; t_gws := t_gws s; t_ups := t_ups s; t_downs := t_downs s |}.
Definition st_devs s v := {| t_apps := t_apps s; t_devs := v; t_nonces := t_nonces s; t_gws := t_gws s; t_ups := t_ups s; t_downs := t_downs s |}.
Definition st_nonces s v := {| t_apps := t_apps s; t_devs := t_devs s; t_nonces := v; t_gws := t_gws s; t_ups := t_ups s; t_downs := t_downs s |}.
Definition st_gws s v := {| t_apps := t_apps s; t_devs := t_devs s; t_nonces := t_nonces s; t_gws := v; t_ups := t_ups s; t_downs := t_downs s |}.
Definition st_ups s v := {| t_apps := t_apps s; t_devs := t_devs s; t_nonces := t_nonces s; t_gws := t_gws s; t_ups := v; t_downs := t_downs s |}.
Definition st_downs s v := {| t_apps := t_apps s; t_devs := t_devs s; t_nonces := t_nonces s; t_gws := t_gws s; t_ups := t_ups s; t_downs := v |}.

(* UPDATE lora_devices SET dev_addr, app_key, apps_key, nwks_key, state, fcnt_up, fcnt_dn, relaxed_counter, key_warning, tag *)
Definition row_upd_dev (old new : c_dev) : c_dev :=
  {| cd_eui := cd_eui old; cd_addr := cd_addr new; cd_appkey := cd_appkey new; cd_appskey := cd_appskey new;
     cd_nwkskey := cd_nwkskey new; cd_app := cd_app old; cd_state := cd_state new; cd_fup := cd_fup new;
     cd_fdn := cd_fdn new; cd_relaxed := cd_relaxed new; cd_kw := cd_kw new; cd_tag := cd_tag new |}.
(* UPDATE lora_devices SET fcnt_dn, fcnt_up, key_warning *)
Definition row_upd_state (old : c_dev) (fup fdn : N) (kw : bool) : c_dev :=
  {| cd_eui := cd_eui old; cd_addr := cd_addr old; cd_appkey := cd_appkey old; cd_appskey := cd_appskey old;
     cd_nwkskey := cd_nwkskey old; cd_app := cd_app old; cd_state := cd_state old; cd_fup := fup;
     cd_fdn := fdn; cd_relaxed := cd_relaxed old; cd_kw := kw; cd_tag := cd_tag old |}.
(* the time / counter columns of a downstream row *)
Definition row_times (old : c_down) (sent ackt : Z) (fc : N) : c_down :=
  {| cw_eui := cw_eui old; cw_data := cw_data old; cw_port := cw_port old; cw_ack := cw_ack old; cw_created := cw_created old;
     cw_sent := sent; cw_acktime := ackt; cw_fcnt := fc |}.
(* UPDATE lora_gateways SET latitude, longitude, altitude, ip, strict_ip *)
Definition row_upd_gw (old new : c_gw) : c_gw :=
  {| cg_eui := cg_eui old; cg_lat := cg_lat new; cg_lon := cg_lon new; cg_alt := cg_alt new; cg_ip := cg_ip new; cg_strict := cg_strict new |}.

Definition dev_with_nonces (s : cstore) (r : c_dev) (d : rdev) : rdev * list N := (d, c_nonces_of s (cd_eui r)).
Definition c_dev_list (s : cstore) (rows : list c_dev) : regres :=
  match dec_all dec_dev rows with
  | Some ds => RDevs (map (fun d => (d, c_nonces_of s (eui_to_int64 (rd_eui d)))) ds)
  | None => RFailed
  end.

Definition c_step (s : cstore) (o : regop) : cstore * regres :=
  match o with
  | CreateApplication a =>
    let r := enc_app a in
    if existsb (fun x => (ca_eui x =? ca_eui r)%Z) (t_apps s) then (s, RFailed) else (st_apps s (t_apps s ++ [r]), ROk)
  | DeleteApplication e =>
    let k := eui_to_int64 e in
    if existsb (fun x => (ca_eui x =? k)%Z) (t_apps s) then (st_apps s (filter (fun x => negb (ca_eui x =? k)%Z) (t_apps s)), ROk) else (s, RNotFound)
  | GetApplicationByEUI e =>
    let k := eui_to_int64 e in
    (s, match find (fun x => (ca_eui x =? k)%Z) (t_apps s) with Some r => RApp (dec_app r) | None => RNotFound end)
  | ListApplications => (s, RApps (map dec_app (t_apps s)))
  | CreateDevice d =>
    let r := enc_dev d in
    if existsb (fun x => (cd_eui x =? cd_eui r)%Z) (t_devs s) then (s, RFailed) else (st_devs s (t_devs s ++ [r]), ROk)
  | UpdateDevice d =>
    let r := enc_dev d in
    if existsb (fun x => (cd_eui x =? cd_eui r)%Z) (t_devs s)
    then (st_devs s (map (fun x => if (cd_eui x =? cd_eui r)%Z then row_upd_dev x r else x) (t_devs s)), ROk) else (s, RNotFound)
  | UpdateDeviceState e fup fdn kw =>
    let k := eui_to_int64 e in
    if existsb (fun x => (cd_eui x =? k)%Z) (t_devs s)
    then (st_devs s (map (fun x => if (cd_eui x =? k)%Z then row_upd_state x fup fdn kw else x) (t_devs s)), ROk) else (s, RNotFound)
  | DeleteDevice e =>
    let k := eui_to_int64 e in
    if existsb (fun x => (cd_eui x =? k)%Z) (t_devs s) then (st_devs s (filter (fun x => negb (cd_eui x =? k)%Z) (t_devs s)), ROk) else (s, RNotFound)
  | GetDeviceByEUI e =>
    let k := eui_to_int64 e in
    (s, match find (fun x => (cd_eui x =? k)%Z) (t_devs s) with
        | Some r => match dec_dev r with Some d => RDev d (c_nonces_of s (eui_to_int64 (rd_eui d))) | None => RFailed end
        | None => RNotFound
        end)
  | GetDeviceByDevAddr a =>
    let k := devaddr_str a in (s, c_dev_list s (filter (fun x => bytes_eqb (cd_addr x) k) (t_devs s)))
  | GetDevicesByApplicationEUI e =>
    let k := eui_to_int64 e in (s, c_dev_list s (filter (fun x => (cd_app x =? k)%Z) (t_devs s)))
  | AddDevNonce e n =>
    let r := enc_nonce (e, n) in
    if existsb (fun p => (fst p =? fst r)%Z && (snd p =? snd r)%Z) (t_nonces s) then (s, RFailed) else (st_nonces s (t_nonces s ++ [r]), ROk)
  | CreateGateway g =>
    let r := enc_gw g in
    if existsb (fun x => (cg_eui x =? cg_eui r)%Z) (t_gws s) then (s, RFailed) else (st_gws s (t_gws s ++ [r]), ROk)
  | UpdateGateway g =>
    let r := enc_gw g in
    if existsb (fun x => (cg_eui x =? cg_eui r)%Z) (t_gws s)
    then (st_gws s (map (fun x => if (cg_eui x =? cg_eui r)%Z then row_upd_gw x r else x) (t_gws s)), ROk) else (s, RNotFound)
  | DeleteGateway e =>
    let k := eui_to_int64 e in
    if existsb (fun x => (cg_eui x =? k)%Z) (t_gws s) then (st_gws s (filter (fun x => negb (cg_eui x =? k)%Z) (t_gws s)), ROk) else (s, RNotFound)
  | GetGateway e =>
    let k := eui_to_int64 e in
    (s, match find (fun x => (cg_eui x =? k)%Z) (t_gws s) with Some r => RGw (dec_gw r) | None => RNotFound end)
  | GetGatewayList => (s, RGws (map dec_gw (t_gws s)))
  | CreateUpstreamMessage m =>
    let r := enc_up m in
    if existsb (fun x => (cu_eui x =? cu_eui r)%Z && (cu_ts x =? cu_ts r)%Z) (t_ups s) then (s, RFailed) else (st_ups s (t_ups s ++ [r]), ROk)
  | ListUpstreamMessages e lim =>
    let k := eui_to_int64 e in
    (s, match dec_all dec_up (c_limit lim (rev (c_sort_by cu_ts (filter (fun x => (cu_eui x =? k)%Z) (t_ups s))))) with
        | Some l => RUps l | None => RFailed end)
  | CreateDownstreamMessage m =>
    let r := enc_down m in
    if existsb (fun x => bytes_eqb (cw_eui x) (cw_eui r) && (cw_created x =? cw_created r)%Z) (t_downs s) then (s, RFailed)
    else (st_downs s (t_downs s ++ [r]), ROk)
  | DeleteDownstreamMessage e c =>
    let k := eui_str e in
    if existsb (fun x => bytes_eqb (cw_eui x) k && (cw_created x =? c)%Z) (t_downs s)
    then (st_downs s (filter (fun x => negb (bytes_eqb (cw_eui x) k && (cw_created x =? c)%Z)) (t_downs s)), ROk) else (s, RNotFound)
  | ListDownstreamMessages e =>
    let k := eui_str e in
    (s, RDowns (map (dec_down e) (firstn 100 (c_sort_by cw_created (filter (fun x => bytes_eqb (cw_eui x) k) (t_downs s))))))
  | Reopen => (s, ROk)    (* the file holds the tables; nothing lives in the process *)
  (* UPDATE lora_devices SET fcnt_up = $1, key_warning = $2 WHERE eui = $3 AND fcnt_up <= $4 AND nwks_key = $5;
     no row affected: ErrNotFound *)
  | AdvanceFCntUp e key a nf kw =>
    let k := eui_to_int64 e in
    let hit x := (cd_eui x =? k)%Z && (cd_fup x <=? a) && bytes_eqb (cd_nwkskey x) (key_str key) in
    if existsb hit (t_devs s)
    then (st_devs s (map (fun x => if hit x then row_upd_state x nf (cd_fdn x) kw else x) (t_devs s)), ROk) else (s, RNotFound)
  (* UPDATE lora_devices SET fcnt_dn = (fcnt_dn + 1) % 65536 WHERE eui = $1 AND nwks_key = $2 RETURNING fcnt_dn;
     the caller gets uint16(returned - 1) *)
  | NextFCntDn e key =>
    let k := eui_to_int64 e in
    let hit x := (cd_eui x =? k)%Z && bytes_eqb (cd_nwkskey x) (key_str key) in
    match find hit (t_devs s) with
    | Some r =>
      (st_devs s (map (fun x => if hit x then row_upd_state x (cd_fup x) ((cd_fdn x + 1) mod 65536) (cd_kw x) else x) (t_devs s)),
       RCnt ((((cd_fdn r + 1) mod 65536) + 65535) mod 65536))
    | None => (s, RNotFound)
    end
  (* UPDATE lora_downstream_messages SET sent_time, fcnt_up WHERE device_eui AND created_time; no row: ErrNotFound *)
  | SetMessageSentTime e c sent fc =>
    let k := eui_str e in
    let hit x := bytes_eqb (cw_eui x) k && (cw_created x =? c)%Z in
    if existsb hit (t_downs s)
    then (st_downs s (map (fun x => if hit x then row_times x sent (cw_acktime x) fc else x) (t_downs s)), ROk) else (s, RNotFound)
  (* UPDATE ... SET ack_time WHERE device_eui AND fcnt_up = ? AND sent_time > 0 AND ack_time = 0; no row: ErrNotFound *)
  | UpdateMessageAckTime e fc ackt =>
    let k := eui_str e in
    let hit x := bytes_eqb (cw_eui x) k && (cw_fcnt x =? fc) && (0 <? cw_sent x)%Z && (cw_acktime x =? 0)%Z in
    if existsb hit (t_downs s)
    then (st_downs s (map (fun x => if hit x then row_times x (cw_sent x) ackt (cw_fcnt x) else x) (t_downs s)), ROk) else (s, RNotFound)
  (* UPDATE ... SET sent_time = 0, fcnt_up = 0 WHERE device_eui AND sent_time > 0 AND ack_time = 0 AND ack = 1 *)
  | ResetActiveAcks e =>
    let k := eui_str e in
    let hit x := bytes_eqb (cw_eui x) k && (0 <? cw_sent x)%Z && (cw_acktime x =? 0)%Z && cw_ack x in
    (st_downs s (map (fun x => if hit x then row_times x 0%Z (cw_acktime x) 0 else x) (t_downs s)), ROk)
  (* SELECT ... WHERE device_eui AND sent_time = 0 ORDER BY created_time LIMIT 100; the first row, or ErrNotFound *)
  | GetNextUnsentMessage e =>
    let k := eui_str e in
    (s, match c_sort_by cw_created (filter (fun x => bytes_eqb (cw_eui x) k && (cw_sent x =? 0)%Z) (t_downs s)) with
        | r :: _ => RDowns [dec_down e r]
        | [] => RNotFound
        end)
  end.

Fixpoint c_run (s : cstore) (ops : list regop) : cstore * list regres :=
  match ops with
  | [] => (s, [])
  | o :: t => let '(s1, r) := c_step s o in let '(s2, rs) := c_run s1 t in (s2, r :: rs)
  end.
