(* Model of PHYPayload.UnmarshalBinary / MarshalBinary and what they call:
   mhdr.go, fhdr.go, fctrl.go, devaddr.go, macpayload.go, joinrequest.go,
   joinaccept.go, dlsettings.go (after the decoder repairs). Every indexed
   read and re-slice goes through a checked primitive that returns Panic
   exactly where Go would. *)
From Lospan Require Import Base.Bytes Base.Outcome Model.FrameTypes Gen.Consts Model.MacCmd.
Open Scope nat_scope.

(* buffer[pos:pos+k] read through an index / fixed-width accessor: all k bytes
   must be inside len *)
Definition rdn (s : slice) (pos k : nat) : outcome (list N) :=
  if pos + k <=? slen s then Ok (firstn k (skipn pos (arr s))) else Panic.

Definition zero_devaddr : devaddr := {| nwkid := 0; nwkaddr := 0 |}.
Definition zero_fctrl : fctrl := {| adr := false; adrackreq := false; ack := false; fpending := false; classb := false; foptslen := 0 |}.
Definition zero_jr : joinreq := {| jr_appeui := 0; jr_deveui := 0; jr_devnonce := 0 |}.
Definition zero_ja : joinacc := {| ja_appnonce := [0; 0; 0]%N; ja_netid := 0; ja_devaddr := zero_devaddr;
                                   ja_rx1droffset := 0; ja_rx2dr := 0; ja_rxdelay := 0 |}.
Definition max_payload_size : Z := Z.of_N c_maxPayloadSize.
Definition fopts_limit : Z := Z.of_N c_MaxFOptsLen.

(* NewPHYPayload(messageType) *)
Definition new_phy (mt : N) : frame :=
  {| mtype := mt; major := c_LoRaWANR1; f_devaddr := zero_devaddr; fc := zero_fctrl; fcnt := 0;
     fopts := new_set mt fopts_limit; fport := 0; frm := []; maccmds := new_set mt 222;
     mic := 0; jr := zero_jr; ja := zero_ja |}.

(* DevAddr.decode *)
Definition devaddr_decode (s : slice) (pos : nat) : outcome devaddr :=
  if slen s <? pos + 4 then Err ErrBufferTruncated
  else do b <- rdn s pos 4;
       let full := le_val b in
       Ok {| nwkid := N.land (N.shiftr (N.land full c_NetworkIDMask) 25) 255; nwkaddr := N.land full c_MaxNwkAddr |}.

(* FCtrl.decode *)
Definition fctrl_decode (s : slice) (pos : nat) : outcome fctrl :=
  if slen s <=? pos then Err ErrParameterOutOfRange
  else do b <- rd s pos;
       Ok {| adr := negb (N.land b 128 =? 0)%N; adrackreq := negb (N.land b 64 =? 0)%N;
             ack := negb (N.land b 32 =? 0)%N; fpending := negb (N.land b 16 =? 0)%N;
             classb := negb (N.land b 16 =? 0)%N; foptslen := N.land b 15 |}.

(* MACCommandSet.decodeBounded(buffer, &pos, end) on the whole buffer *)
Definition decode_bounded_at (s : slice) (set : cmdset) (pos end_ : nat) : outcome (cmdset * nat) :=
  if (slen s <? end_) || (end_ <? pos) then Err ErrBufferTruncated
  else do region <- rdn s pos (end_ - pos);
       do r <- decode_bounded (slen s) pos set region;
       Ok (fst r, pos + snd r).

Record fhdr_res := { h_addr : devaddr; h_fc : fctrl; h_fcnt : N; h_fopts : cmdset; h_pos : nat }.

(* FHDR.decode *)
Definition fhdr_decode (s : slice) (mt : N) (pos : nat) : outcome fhdr_res :=
  do a <- devaddr_decode s pos;
  let pos := pos + 4 in
  do c <- fctrl_decode s pos;
  let pos := pos + 1 in
  if slen s <? pos + 2 then Err ErrBufferTruncated
  else do cb <- rdn s pos 2;
       let pos := pos + 2 in
       if (0 <? foptslen c)%N then
         let end_ := pos + N.to_nat (foptslen c) in
         do r <- decode_bounded_at s (new_set mt (Z.of_N (foptslen c))) pos end_;
         Ok {| h_addr := a; h_fc := c; h_fcnt := le_val cb; h_fopts := fst r; h_pos := end_ |}
       else Ok {| h_addr := a; h_fc := c; h_fcnt := le_val cb; h_fopts := new_set mt fopts_limit; h_pos := pos |}.

(* MACPayload.decode; the frame so far is f *)
Definition macpayload_decode (s : slice) (f : frame) (pos : nat) : outcome frame :=
  do h <- fhdr_decode s (mtype f) pos;
  let pos := h_pos h in
  let f1 := {| mtype := mtype f; major := major f; f_devaddr := h_addr h; fc := h_fc h; fcnt := h_fcnt h;
               fopts := h_fopts h; fport := fport f; frm := frm f; maccmds := maccmds f; mic := mic f;
               jr := jr f; ja := ja f |} in
  let plen := (Z.of_nat (slen s) - Z.of_nat pos - 4)%Z in
  if (plen <? 0)%Z then Err ErrBufferTruncated
  else if (plen =? 0)%Z then Ok f1
  else
    do port <- rd s pos;
    let pos := pos + 1 in
    let end_ := pos + Z.to_nat plen - 1 in
    if (port =? 0)%N then
      do r <- decode_bounded_at s (new_set (mtype f) (plen - 1)) pos end_;
      do p <- sub s (snd r) end_;
      Ok {| mtype := mtype f1; major := major f1; f_devaddr := f_devaddr f1; fc := fc f1; fcnt := fcnt f1;
            fopts := fopts f1; fport := port; frm := p; maccmds := fst r; mic := mic f1; jr := jr f1; ja := ja f1 |}
    else
      do p <- sub s pos end_;
      Ok {| mtype := mtype f1; major := major f1; f_devaddr := f_devaddr f1; fc := fc f1; fcnt := fcnt f1;
            fopts := fopts f1; fport := port; frm := p; maccmds := maccmds f1; mic := mic f1; jr := jr f1; ja := ja f1 |}.

(* JoinRequestPayload.decode: EUIs are little endian on the air; DevNonce is read big endian *)
Definition joinreq_decode (s : slice) (pos : nat) : outcome joinreq :=
  if slen s <? pos + 18 then Err ErrBufferTruncated
  else do a <- rdn s pos 8; do d <- rdn s (pos + 8) 8; do n <- rdn s (pos + 16) 2;
       Ok {| jr_appeui := le_val a; jr_deveui := le_val d; jr_devnonce := be_val n |}.

(* JoinAcceptPayload.decode *)
Definition joinacc_decode (s : slice) (pos : nat) : outcome joinacc :=
  if slen s <? pos + 6 then Err ErrBufferTruncated
  else do an <- rdn s pos 3; do ni <- rdn s (pos + 3) 3;
       do a <- devaddr_decode s (pos + 6);
       let pos := pos + 10 in
       if slen s <=? pos then Err ErrBufferTruncated
       else do dl <- rd s pos;
            let pos := pos + 1 in
            if slen s <=? pos then Err ErrBufferTruncated
            else do rx <- rd s pos;
                 Ok {| ja_appnonce := an; ja_netid := be_val ni; ja_devaddr := a;
                       ja_rx1droffset := N.shiftr (N.land dl 112) 4; ja_rx2dr := N.land dl 15; ja_rxdelay := rx |}.

(* PHYPayload.UnmarshalBinary on p = NewPHYPayload(Proprietary), as the Decoder calls it *)
Definition decode (s : slice) : outcome frame :=
  if slen s <? N.to_nat c_MinimumMessageSize then Err ErrBufferTruncated
  else
    do b0 <- rd s 0;
    let mt := N.shiftr (N.land b0 224) 5 in
    let mj := N.land b0 3 in
    if (c_MaxSupportedVersion <? mj)%N then Err ErrInvalidLoRaWANVersion
    else
      do m <- rdn s (slen s - 4) 4;
      let p := new_phy Proprietary in
      let f0 := {| mtype := mt; major := mj; f_devaddr := f_devaddr p; fc := fc p; fcnt := fcnt p; fopts := fopts p;
                   fport := fport p; frm := frm p; maccmds := maccmds p; mic := le_val m; jr := jr p; ja := ja p |} in
      if is_data_mtype mt then
        let f1 := {| mtype := mt; major := mj; f_devaddr := f_devaddr p; fc := fc p; fcnt := fcnt p;
                     fopts := new_set mt fopts_limit; fport := fport p; frm := frm p;
                     maccmds := new_set mt max_payload_size; mic := le_val m; jr := jr p; ja := ja p |} in
        macpayload_decode s f1 1
      else if (mt =? JoinRequest)%N then
        do j <- joinreq_decode s 1;
        Ok {| mtype := mt; major := mj; f_devaddr := f_devaddr f0; fc := fc f0; fcnt := fcnt f0; fopts := fopts f0;
              fport := fport f0; frm := frm f0; maccmds := maccmds f0; mic := mic f0; jr := j; ja := ja f0 |}
      else if (mt =? JoinAccept)%N then
        do j <- joinacc_decode s 1;
        Ok {| mtype := mt; major := mj; f_devaddr := f_devaddr f0; fc := fc f0; fcnt := fcnt f0; fopts := fopts f0;
              fport := fport f0; frm := frm f0; maccmds := maccmds f0; mic := mic f0; jr := jr f0; ja := j |}
      else Err ErrInvalidMessageType.

(* ---------------- encoding ---------------- *)
Definition buffer_size : nat := 255.

(* MHDR.encode *)
Definition mhdr_byte (mt mj : N) : N := N.lor (N.land (N.shiftl (N.land mt 7) 5) 255) (N.land mj 3).

(* FCtrl.encode with FOptsLen already set *)
Definition fctrl_byte (c : fctrl) (fol : N) : N :=
  N.lor (N.lor (N.lor (N.lor (N.land fol 15) (if adr c then 128 else 0)) (if adrackreq c then 64 else 0))
               (if ack c then 32 else 0)) (if fpending c || classb c then 16 else 0).

(* PHYPayload.MarshalBinary: the bytes buffer[0:count] *)
Definition encode (f : frame) : outcome (list N) :=
  if (mtype f =? JoinAccept)%N || (mtype f =? JoinRequest)%N || (mtype f =? Proprietary)%N then Err ErrInvalidMessageType
  else
    let b0 := mhdr_byte (mtype f) (major f) in
    (* FHDR.encode at count = 1: uint32(NwkID)<<25 | NwkAddr&0x1FFFFFF *)
    let da := N.lor (N.land (N.shiftl (N.land (nwkid (f_devaddr f)) 255) 25) 4294967295) (N.land (nwkaddr (f_devaddr f)) 33554431) in
    let fol := N.land (N.of_nat (set_encoded_length (fopts f))) 255 in   (* uint8(EncodedLength()) *)
    if (15 <? fol)%N then Err ErrParameterOutOfRange
    else
      do fo <- set_encode buffer_size 8 (fopts f);
      let hdr := b0 :: le_bytes 4 da ++ [fctrl_byte (fc f) fol] ++ le_bytes 2 (fcnt f) ++ fo in
      let count := length hdr in
      (* MACPayload.encode *)
      let port := if length (frm f) =? 0 then 0%N else fport f in
      if (223 <? port)%N then Err ErrParameterOutOfRange
      else if (port =? 0)%N && (0 <? length (frm f)) then Err ErrParameterOutOfRange
      else
        do body <-
          (if (length (frm f) =? 0) && (0 <? set_size (maccmds f)) then
             if buffer_size <=? count then Panic
             else do mc <- set_encode buffer_size (count + 1) (maccmds f); Ok (0%N :: mc)
           else if 0 <? length (frm f) then
             if buffer_size <=? count then Panic
             else if buffer_size <? count + 1 + length (frm f) then Panic
             else Ok (N.land port 255 :: frm f)
           else Ok []);
        let count := count + length body in
        if buffer_size <? count + 4 then Panic
        else Ok (hdr ++ body ++ le_bytes 4 (mic f)).
