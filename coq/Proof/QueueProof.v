(* Delivery of uplink payloads (C02) and the downlink queue (C06, C08, C09): lemmas on one device's state. *)
From Coq Require Import String Sorted.
From Lospan Require Import Base.Bytes Base.Outcome Model.CMAC Model.FrameTypes Model.Crypto Gen.Consts Model.MacCmd
  Model.Frame Model.Join Model.Store Model.Server Spec.RFC4493 Spec.RefDevice
  Proof.BitLemmas Proof.CryptoProof Proof.LocalProof.
Open Scope N_scope.

(* ---------- the queue: oldest unsent first ---------- *)
Lemma insert_by_created_in m l x : In x (insert_by_created m l) <-> x = m \/ In x l.
Proof.
  induction l as [|h t IH]; cbn [insert_by_created].
  - cbn. split; [intros [H|[]]; now left | intros [H|[]]; now left].
  - destruct (m_created m <? m_created h); cbn [In].
    + split; [intros [H|H]; auto | intros [H|H]; auto].
    + rewrite IH. split; [intros [H|[H|H]]; auto | intros [H|[H|H]]; auto].
Qed.
Lemma sort_by_created_in l x : In x (sort_by_created l) <-> In x l.
Proof.
  induction l as [|h t IH]; cbn [sort_by_created fold_right]; [tauto|].
  rewrite insert_by_created_in. fold (sort_by_created t). rewrite IH. cbn. intuition.
Qed.
Definition created_le (a b : dmsg) : Prop := m_created a <= m_created b.
Lemma insert_by_created_sorted m l : StronglySorted created_le l -> StronglySorted created_le (insert_by_created m l).
Proof.
  intros Hl. induction Hl as [|h t Ht IH Hh]; cbn [insert_by_created]; [repeat constructor|].
  destruct (m_created m <? m_created h) eqn:E.
  - apply N.ltb_lt in E. constructor; [constructor; assumption|].
    constructor; [unfold created_le; lia|]. eapply Forall_impl; [|exact Hh]. unfold created_le. intros a Ha. lia.
  - apply N.ltb_ge in E. constructor; [exact IH|].
    rewrite Forall_forall. intros x Hx. apply insert_by_created_in in Hx. destruct Hx as [-> | Hx]; [exact E|].
    rewrite Forall_forall in Hh. now apply Hh.
Qed.
Lemma sort_by_created_sorted l : StronglySorted created_le (sort_by_created l).
Proof. induction l as [|h t IH]; cbn; [constructor|]. now apply insert_by_created_sorted. Qed.

(* GetNextUnsentMessage returns a message of this device that has not been sent, and none that is older *)
Theorem next_unsent_is_oldest st m : l_get_next_unsent st = Some m ->
  In m (ds_outbox st) /\ m_sent m = 0 /\ forall m', In m' (ds_outbox st) -> m_sent m' = 0 -> m_created m <= m_created m'.
Proof.
  unfold l_get_next_unsent.
  destruct (sort_by_created (filter (fun m0 => m_sent m0 =? 0) (ds_outbox st))) as [|h t] eqn:Es; [discriminate|].
  intros [= <-].
  assert (Hin : In h (sort_by_created (filter (fun m0 => m_sent m0 =? 0) (ds_outbox st)))) by (rewrite Es; now left).
  apply sort_by_created_in, filter_In in Hin. destruct Hin as [H1 H2]. apply N.eqb_eq in H2.
  split; [exact H1|]. split; [exact H2|]. intros m' Hm' Hs.
  assert (Hin' : In m' (h :: t)).
  { rewrite <- Es. apply sort_by_created_in, filter_In. split; [exact Hm'|]. now apply N.eqb_eq. }
  pose proof (sort_by_created_sorted (filter (fun m0 => m_sent m0 =? 0) (ds_outbox st))) as S. rewrite Es in S.
  inversion S as [|? ? _ Hall]; subst. destruct Hin' as [<- | Hin']; [lia|].
  rewrite Forall_forall in Hall. now apply Hall.
Qed.
Theorem next_unsent_none st : l_get_next_unsent st = None -> forall m, In m (ds_outbox st) -> m_sent m <> 0.
Proof.
  unfold l_get_next_unsent.
  destruct (sort_by_created (filter (fun m0 => m_sent m0 =? 0) (ds_outbox st))) as [|h t] eqn:Es; [|discriminate].
  intros _ m Hm Hs.
  assert (In m (sort_by_created (filter (fun m0 => m_sent m0 =? 0) (ds_outbox st)))).
  { apply sort_by_created_in, filter_In. split; [exact Hm|]. now apply N.eqb_eq. }
  rewrite Es in H. contradiction.
Qed.

(* the loaded frame is typed Confirmed exactly when acknowledgement was requested, and carries port and bytes of the message *)
Theorem set_payload_entry st m :
  exists fd, ds_fb (l_set_payload st (m_data m) (m_port m) (m_ack m)) = Some fd /\
    fo_payload fd = m_data m /\ fo_port fd = m_port m /\
    fo_mtype fd = (if m_ack m then ConfirmedDataDown else UnconfirmedDataDown).
Proof. unfold l_set_payload. cbn. eexists. split; [reflexivity|]. cbn. auto. Qed.

(* ---------- ACK bookkeeping (C08) ---------- *)
(* UpdateMessageAckTime acknowledges only messages that were sent, are not yet acknowledged, and whose
   recorded counter is the uplink's; ResetActiveAcks un-sends exactly the confirmed, sent, unacknowledged ones *)
Theorem ack_time_only_sent st fc now m' :
  In m' (ds_outbox (l_update_ack_time st fc now)) ->
  In m' (ds_outbox st) \/
  exists m, In m (ds_outbox st) /\ 0 < m_sent m /\ m_acktime m = 0 /\ m_fcntup m = fc /\ m' = set_times m (m_sent m) now (m_fcntup m).
Proof.
  unfold l_update_ack_time, upd_outbox. cbn [ds_outbox with_outbox]. rewrite in_map_iff. intros (m & <- & Hm).
  destruct ((m_fcntup m =? fc) && (0 <? m_sent m) && (m_acktime m =? 0)) eqn:Ec; [|now left].
  rewrite !andb_true_iff in Ec. destruct Ec as [[E1 E2] E3].
  apply N.eqb_eq in E1. apply N.ltb_lt in E2. apply N.eqb_eq in E3. right. exists m. auto.
Qed.
Theorem reset_only_confirmed st m' :
  In m' (ds_outbox (l_reset_active_acks st)) ->
  In m' (ds_outbox st) \/
  exists m, In m (ds_outbox st) /\ 0 < m_sent m /\ m_acktime m = 0 /\ m_ack m = true /\ m' = set_times m 0 (m_acktime m) 0.
Proof.
  unfold l_reset_active_acks, upd_outbox. cbn [ds_outbox with_outbox]. rewrite in_map_iff. intros (m & <- & Hm).
  destruct ((0 <? m_sent m) && (m_acktime m =? 0) && m_ack m) eqn:Ec; [|now left].
  rewrite !andb_true_iff in Ec. destruct Ec as [[E1 E2] E3].
  apply N.ltb_lt in E1. apply N.eqb_eq in E2. right. exists m. auto.
Qed.
(* after ResetActiveAcks every confirmed message that was sent but not acknowledged is unsent again,
   hence (next_unsent_is_oldest) transmitted ahead of any later message *)
Theorem reset_requeues st m : In m (ds_outbox st) -> 0 < m_sent m -> m_acktime m = 0 -> m_ack m = true ->
  In (set_times m 0 (m_acktime m) 0) (ds_outbox (l_reset_active_acks st)).
Proof.
  intros Hm H1 H2 H3. unfold l_reset_active_acks, upd_outbox. cbn [ds_outbox with_outbox]. apply in_map_iff. exists m.
  split; [|exact Hm]. replace ((0 <? m_sent m) && (m_acktime m =? 0) && m_ack m) with true; [reflexivity|].
  symmetry. rewrite !andb_true_iff. repeat split; [now apply N.ltb_lt | now apply N.eqb_eq | exact H3].
Qed.

(* ---------- payload confidentiality round trip (C02) ---------- *)
Section Crypt.
  Variable E : list N -> list N -> list N.
  Hypothesis E_len : forall k b, length (E k b) = 16%nat.

  Lemma keystream_is_ref key addr fcnt : forall k i, (N.to_nat i + k < 256)%nat ->
    keystream E key true addr fcnt i k = ref_stream E key 0 addr fcnt (i + 1) k.
  Proof.
    induction k as [|k IH]; intros i Hi; cbn [keystream ref_stream]; [reflexivity|].
    rewrite IH by lia. unfold a_block, ref_a. rewrite (N.mod_small (i + 1) 256) by lia. reflexivity.
  Qed.

  (* what the server decrypts from a conformant device's FRMPayload is the device's plaintext *)
  Theorem uplink_plaintext_recovered key addr fcnt p : (length p <= 242)%nat ->
    payload_crypt E key true addr fcnt (ref_crypt E key 0 addr fcnt p) = p.
  Proof.
    intros Hl.
    assert (Heq : ref_crypt E key 0 addr fcnt p = payload_crypt E key true addr fcnt p).
    { unfold ref_crypt, payload_crypt. rewrite keystream_is_ref; [reflexivity|].
      change (N.to_nat 0) with 0%nat. lia. }
    rewrite Heq. now apply payload_crypt_involution.
  Qed.
End Crypt.

(* ---------- an accepted uplink is recorded and published with the decrypted payload (C02) ---------- *)
Section Deliver.
  Variable E D : list N -> list N -> list N.

  Lemma get_phy_inbox st d : ds_inbox (fst (l_get_phy st d)) = ds_inbox st.
  Proof.
    unfold l_get_phy. destruct (ds_fb st); [|reflexivity]. destruct (_ && _ && _); [reflexivity|].
    destruct (0 <? _)%nat; [|reflexivity]. destruct (max_payload _); [|reflexivity]. destruct (_ <? _)%nat; reflexivity.
  Qed.
  Lemma uds_inbox st dev : ds_inbox (fst (l_update_device_state st dev)) = ds_inbox st.
  Proof. unfold l_update_device_state. destruct (ds_row st); reflexivity. Qed.
  Lemma encoder_data_inbox st dev p rx c now : ds_inbox (fst (encoder_data E st dev p rx c now)) = ds_inbox st.
  Proof.
    unfold encoder_data. destruct (encode _); try reflexivity.
    destruct (l_next_fdn st) as [st1 [cn|]] eqn:U; cbn [fst].
    - apply next_row in U. destruct U as (r0 & _ & _ & _ & U3 & _).
      destruct (encode_message _ _ _ _); cbn [fst]; unfold l_set_sent_time, upd_outbox, with_outbox; cbn [ds_inbox]; exact U3.
    - apply next_none in U. destruct U as [-> _]. reflexivity.
  Qed.
  Lemma encoder_join_inbox st dev j rx : ds_inbox (fst (encoder_join E D st dev j rx)) = ds_inbox st.
  Proof.
    unfold encoder_join. pose proof (uds_inbox st (set_counters dev 0 0 (d_keywarn dev))) as H.
    destruct (l_update_device_state _ _) as [st1 [e|]]; cbn [fst] in *; [exact H|].
    destruct (encode_join_accept _ _ _ _ _ _); exact H.
  Qed.
  Lemma send_for_inbox st dev rx c now : ds_inbox (fst (send_for E D st dev rx c now)) = ds_inbox st.
  Proof.
    unfold send_for. pose proof (get_phy_inbox st (r_datr (rx_radio rx))) as G.
    destruct (l_get_phy st _) as [st1 [| |p]]; cbn [fst] in *; try exact G.
    destruct (po_mtype p =? JoinAccept); [destruct (po_ja p); rewrite encoder_join_inbox; exact G|].
    destruct (_ || _); [exact G|]. rewrite encoder_data_inbox. exact G.
  Qed.

  Theorem uplink_delivered apps st f rx n now r :
    ds_row st = Some r -> stale r f = false ->
    (forall x, In x (ds_inbox st) -> u_ts x <> rx_ts rx) -> has_app apps (d_appeui r) = true ->
    let plain := frm (frame_crypt E (d_nwkskey r) (d_appskey r) f) in
    let res := l_uplink E D apps st f rx n now in
    ds_inbox (fst res) = ds_inbox st ++ [{| u_eui := d_eui r; u_ts := rx_ts rx; u_data := plain; u_gweui := g_eui (rx_gw rx);
                                             u_radio := rx_radio rx; u_addr := d_addr r |}] /\
    In (OPub {| pb_app := d_appeui r; pb_eui := d_eui r; pb_payload := plain; pb_gw := g_eui (rx_gw rx); pb_radio := rx_radio rx |}) (snd res).
  Proof.
    intros Hr Hs Hts Happ. unfold l_uplink. rewrite Hr. unfold process_message. rewrite stale_load, Hs.
    destruct (pm_counter st (load st r) f n) as [[st1 dev1]|] eqn:Ec.
    2:{ unfold pm_counter in Ec. cbn [load d_fup] in Ec. destruct (d_fup r <=? fcnt f) eqn:Ecmp; [|discriminate].
        unfold l_advance_fup in Ec. rewrite Hr, Ecmp in Ec. cbn [load d_nwkskey] in Ec. rewrite keq_refl in Ec. discriminate. }
    destruct (pm_counter_spec st (load st r) f n st1 dev1 r Hr eq_refl eq_refl eq_refl eq_refl Ec)
      as (r1 & R1 & S1 & Fd1 & Eu1 & Kn1 & Ka1 & Ad1 & I1 & O1 & B1 & N1 & Hc).
    cbn [load d_eui d_nwkskey d_appskey d_addr d_appeui] in *.
    assert (Hae : d_appeui dev1 = d_appeui r).
    { unfold pm_counter in Ec. cbn [load d_fup d_fdn d_keywarn] in Ec. destruct (d_fup r <=? fcnt f).
      - destruct (l_advance_fup _ _ _ _ _) as [x [[]|]]; cbn [load d_relaxed] in Ec; try discriminate.
        + destruct (d_relaxed r); [|discriminate]. injection Ec as _ <-. reflexivity.
        + injection Ec as _ <-. reflexivity.
      - injection Ec as _ <-. reflexivity. }
    rewrite Kn1, Ka1.
    unfold l_create_upstream. cbn [mk_umsg u_ts]. rewrite I1.
    replace (existsb (fun x => u_ts x =? rx_ts rx) (ds_inbox st)) with false.
    2:{ symmetry. apply not_true_is_false. intros He. apply existsb_exists in He. destruct He as (x & Hx & Ex).
        apply N.eqb_eq in Ex. exact (Hts x Hx Ex). }
    rewrite Hae, Happ. cbn [negb]. cbv zeta. cbn [fst snd].
    rewrite send_for_inbox.
    destruct (pm_queue_props (with_inbox st1 (ds_inbox st ++ [mk_umsg dev1 rx (frm (frame_crypt E (d_nwkskey r) (d_appskey r) f))])) f now) as (_ & Q2 & _).
    rewrite Q2. cbn [ds_inbox with_inbox]. unfold mk_umsg, mk_pub. rewrite Eu1, Ad1, Hae.
    split; [reflexivity|]. apply in_or_app. right. now left.
  Qed.
End Deliver.
