From Coq Require Import String.
From Lospan Require Import Base.Bytes Base.Outcome Gen.Consts Model.Gateway Proof.BitLemmas Proof.CMACProof.
Open Scope N_scope.

Local Arguments N.shiftr : simpl never.
Local Arguments N.shiftl : simpl never.
Local Arguments N.land : simpl never.

(* ---------- header codec ---------- *)
Definition valid_ident (i : N) : bool :=
  (i =? gw_PushData) || (i =? gw_PushAck) || (i =? gw_PullData) || (i =? gw_PullResp) || (i =? gw_PullAck) || (i =? gw_TxAck).
(* the fields a packet type carries on the wire *)
Definition canon (p : gwpacket) : gwpacket :=
  {| gp_ver := gp_ver p; gp_token := gp_token p; gp_ident := gp_ident p;
     gp_eui := if (gp_ident p =? gw_PushData) || (gp_ident p =? gw_PullData) then gp_eui p else 0;
     gp_json := if (gp_ident p =? gw_PushData) || (gp_ident p =? gw_PullResp) || (gp_ident p =? gw_TxAck) then gp_json p else [] |}.

Lemma be_val_be_bytes8 v : v < 18446744073709551616 -> be_val (be_bytes 8 v) = v.
Proof.
  intros H. unfold be_val, be_bytes. rewrite rev_involutive. apply le_val_le_bytes. exact H.
Qed.
Lemma be_bytes_length n v : length (be_bytes n v) = n.
Proof. unfold be_bytes. now rewrite rev_length, le_bytes_length. Qed.

Lemma token_bytes t : t < 65536 ->
  N.land (N.shiftl (N.land (N.shiftr t 8) 255) 8) 65535 + N.land t 255 = t.
Proof.
  intros H. rewrite !land_255, N.shiftr_div_pow2, N.shiftl_mul_pow2.
  change 65535 with (N.ones 16). rewrite N.land_ones. change (2 ^ 8) with 256. change (2 ^ 16) with 65536. lia.
Qed.

Local Opaque be_bytes.
Theorem unmarshal_marshal p bs :
  gp_ver p < 256 -> gp_token p < 65536 -> gp_eui p < 18446744073709551616 ->
  gw_marshal p = Ok bs -> gw_unmarshal bs = Ok (canon p).
Proof.
  intros Hv Ht He. unfold gw_marshal, canon.
  destruct (gp_ident p =? gw_PullAck) eqn:E4; [apply N.eqb_eq in E4|].
  { intros [= <-]. unfold gw_unmarshal. rewrite E4. cbn [N.eqb orb]. rewrite token_bytes by exact Ht. rewrite land_255, N.mod_small by exact Hv. reflexivity. }
  destruct (gp_ident p =? gw_PushAck) eqn:E1; [apply N.eqb_eq in E1|].
  { intros [= <-]. unfold gw_unmarshal. rewrite E1. cbn [N.eqb orb]. rewrite token_bytes by exact Ht. rewrite land_255, N.mod_small by exact Hv. reflexivity. }
  destruct (gp_ident p =? gw_PullData) eqn:E2; [apply N.eqb_eq in E2|].
  { intros [= <-]. unfold gw_unmarshal. cbn [app]. rewrite E2. cbn [N.eqb orb].
    rewrite token_bytes by exact Ht. rewrite land_255, N.mod_small by exact Hv.
    cbn [length]. rewrite be_bytes_length. cbn [Nat.ltb Nat.leb].
    rewrite firstn_all2 by (rewrite be_bytes_length; lia). rewrite be_val_be_bytes8 by exact He. reflexivity. }
  destruct (gp_ident p =? gw_PushData) eqn:E0; [apply N.eqb_eq in E0|].
  { intros [= <-]. unfold gw_unmarshal. cbn [app]. rewrite E0. cbn [N.eqb orb].
    rewrite token_bytes by exact Ht. rewrite land_255, N.mod_small by exact Hv.
    cbn [length]. rewrite app_length, be_bytes_length. cbn [Nat.add Nat.ltb Nat.leb].
    rewrite firstn_app, be_bytes_length, Nat.sub_diag, firstn_O, app_nil_r.
    rewrite firstn_all2 by (rewrite be_bytes_length; lia). rewrite be_val_be_bytes8 by exact He.
    rewrite skipn_app, be_bytes_length, Nat.sub_diag, skipn_O. rewrite skipn_all2 by (rewrite be_bytes_length; lia). reflexivity. }
  destruct (gp_ident p =? gw_PullResp) eqn:E3; [apply N.eqb_eq in E3|].
  { intros [= <-]. unfold gw_unmarshal. cbn [app]. rewrite E3. cbn [N.eqb orb].
    rewrite token_bytes by exact Ht. rewrite land_255, N.mod_small by exact Hv. reflexivity. }
  destruct (gp_ident p =? gw_TxAck) eqn:E5; [apply N.eqb_eq in E5|discriminate].
  intros [= <-]. unfold gw_unmarshal. cbn [app]. rewrite E5. cbn [N.eqb orb].
  rewrite token_bytes by exact Ht. rewrite land_255, N.mod_small by exact Hv. reflexivity.
Qed.

Local Transparent be_bytes.

(* ---------- one acknowledgement per request, token and version echoed to the sender ---------- *)
Theorem pull_data_acked s d : gp_ident (dg_pkt d) = gw_PullData ->
  snd (fst (gw_step s d)) = [{| rp_ident := gw_PullAck; rp_token := gp_token (dg_pkt d); rp_ver := gp_ver (dg_pkt d);
                                rp_host := dg_host d; rp_port := dg_port d |}] /\ snd (gw_step s d) = [].
Proof. intros H. unfold gw_step. rewrite H. cbn. split; reflexivity. Qed.

Definition mkfwd (d : dgram) (k : rxpk) (raw : list N) : fwd :=
  {| fw_rx := k; fw_freq := lookup_frequency (k_chan k); fw_gweui := gp_eui (dg_pkt d); fw_host := dg_host d;
     fw_port := dg_port d; fw_ver := gp_ver (dg_pkt d); fw_raw := raw |}.

Lemma forward_all l d : Forall (fun k => k_data k <> None) l ->
  forward_entries l d = map (fun k => mkfwd d k (match k_data k with Some r => r | None => [] end)) l.
Proof.
  induction l as [|k t IH]; intros H; [reflexivity|]. inversion H as [|? ? Hk Ht]; subst.
  cbn [forward_entries map]. destruct (k_data k) as [raw|] eqn:Ek; [|contradiction]. now rewrite IH.
Qed.

Theorem push_data_acked_and_forwarded s d l : gp_ident (dg_pkt d) = gw_PushData -> authorised s d = true ->
  dg_body d = Some l -> Forall (fun k => k_data k <> None) l ->
  gw_step s d = (s, [{| rp_ident := gw_PushAck; rp_token := gp_token (dg_pkt d); rp_ver := gp_ver (dg_pkt d);
                        rp_host := dg_host d; rp_port := dg_port d |}],
                 map (fun k => mkfwd d k (match k_data k with Some r => r | None => [] end)) l).
Proof.
  intros H Ha Hb Hl. unfold gw_step. rewrite H. change (gw_PushData =? gw_PullData) with false. cbv iota.
  rewrite N.eqb_refl, Ha, Hb. now rewrite forward_all.
Qed.
(* with any body (malformed JSON included) an authorised PUSH_DATA is acknowledged exactly once *)
Theorem push_data_acked s d : gp_ident (dg_pkt d) = gw_PushData -> authorised s d = true ->
  fst (fst (gw_step s d)) = s /\ length (snd (fst (gw_step s d))) = 1%nat.
Proof.
  intros H Ha. unfold gw_step. rewrite H. change (gw_PushData =? gw_PullData) with false. cbv iota.
  rewrite N.eqb_refl, Ha. split; reflexivity.
Qed.

(* ---------- C16: unauthorised PUSH_DATA has no effect at all ---------- *)
Theorem unauthorised_no_effect s d : gp_ident (dg_pkt d) = gw_PushData -> authorised s d = false ->
  gw_step s d = (s, [], []).
Proof.
  intros H Ha. unfold gw_step. rewrite H. change (gw_PushData =? gw_PullData) with false. cbv iota.
  now rewrite N.eqb_refl, Ha.
Qed.
(* the decision reads the registry as it is when the datagram arrives *)
Theorem authorised_spec s d :
  authorised s d = true <->
  gs_nochecks s = true \/
  exists g, find_reg (gs_regs s) (gp_eui (dg_pkt d)) = Some g /\ (gr_strict g = false \/ gr_ip g = dg_host d).
Proof.
  unfold authorised. destruct (gs_nochecks s); [split; auto|].
  destruct (find_reg (gs_regs s) (gp_eui (dg_pkt d))) as [g|].
  - destruct (gr_strict g) eqn:Es; cbn [andb negb].
    + destruct (String.eqb (gr_ip g) (dg_host d)) eqn:Ei; cbn [negb].
      * apply String.eqb_eq in Ei. split; [intros _; right; exists g; auto | auto].
      * apply String.eqb_neq in Ei. split; [discriminate|]. intros [H|(g' & [= <-] & [H|H])]; congruence.
    + split; [intros _; right; exists g; auto | auto].
  - split; [discriminate|]. intros [H|(g & H & _)]; discriminate.
Qed.
(* other datagram types never touch the registry or forward anything *)
Theorem other_idents_inert s d : gp_ident (dg_pkt d) <> gw_PullData -> gp_ident (dg_pkt d) <> gw_PushData ->
  gw_step s d = (s, [], []).
Proof.
  intros H1 H2. unfold gw_step. apply N.eqb_neq in H1. apply N.eqb_neq in H2. now rewrite H1, H2.
Qed.

(* ---------- C17: where and when a downlink is sent ---------- *)
Lemma get_set_port l e p : get_port (set_port l e p) e = p.
Proof.
  induction l as [|[k x] t IH]; cbn [set_port get_port]; [now rewrite N.eqb_refl|].
  destruct (k =? e) eqn:E; cbn [get_port]; rewrite E; [reflexivity|exact IH].
Qed.
Lemma get_set_port_other l e e' p : e <> e' -> get_port (set_port l e p) e' = get_port l e'.
Proof.
  intros Hne. induction l as [|[k x] t IH]; cbn [set_port get_port].
  - destruct (e =? e') eqn:E; [apply N.eqb_eq in E; contradiction|reflexivity].
  - destruct (k =? e) eqn:E; cbn [get_port].
    + apply N.eqb_eq in E. subst k. destruct (e =? e') eqn:E2; [apply N.eqb_eq in E2; contradiction|reflexivity].
    + destruct (k =? e'); [reflexivity|exact IH].
Qed.

(* the source port of the most recent PULL_DATA of a gateway in a history of datagrams *)
Fixpoint last_pull_port (ds : list dgram) (e : N) (cur : N) : N :=
  match ds with
  | [] => cur
  | d :: t => last_pull_port t e (if (gp_ident (dg_pkt d) =? gw_PullData) && (gp_eui (dg_pkt d) =? e) then dg_port d else cur)
  end.
Definition run_gw (s : gwstate) (ds : list dgram) : gwstate := fold_left (fun s d => fst (fst (gw_step s d))) ds s.

Theorem pull_resp_port ds : forall s e, get_port (gs_ports (run_gw s ds)) e = last_pull_port ds e (get_port (gs_ports s) e).
Proof.
  induction ds as [|d t IH]; intros s e; cbn [run_gw fold_left last_pull_port]; [reflexivity|].
  fold (run_gw (fst (fst (gw_step s d))) t). rewrite IH. f_equal.
  unfold gw_step. destruct (gp_ident (dg_pkt d) =? gw_PullData) eqn:E; cbn [andb fst gs_ports].
  - destruct (gp_eui (dg_pkt d) =? e) eqn:E2.
    + apply N.eqb_eq in E2. subst e. apply get_set_port.
    + apply N.eqb_neq in E2. now apply get_set_port_other.
  - destruct (gp_ident (dg_pkt d) =? gw_PushData); [destruct (authorised s d)|]; reflexivity.
Qed.

(* the txpk: RX1 time modulo 2^32 (always present in the JSON), the uplink's frequency and data
   rate, inverted polarity, size and data of the PHY payload *)
Theorem txpk_fields_spec s raw clock delay freq datr e host ver :
  let r := encode_and_send s raw clock delay freq datr e host ver in
  pr_host r = host /\ pr_port r = get_port (gs_ports s) e /\
  t_tmst (pr_tx r) = (clock + 1000000 * (delay mod 256)) mod 4294967296 /\ t_freq (pr_tx r) = freq /\ t_datr (pr_tx r) = datr /\
  t_ipol (pr_tx r) = true /\ t_imme (pr_tx r) = false /\ t_size (pr_tx r) = N.of_nat (length raw) /\ t_data (pr_tx r) = raw.
Proof. cbn. repeat split. Qed.

(* obligations on the struct tags of the Go source as it is now (generated): the keys a gateway
   needs are emitted whatever their value *)
Theorem txpk_keys_always_present :
  forall z, key_present "tmst" z = true /\ key_present "freq" z = true /\ key_present "datr" z = true /\
            key_present "size" z = true /\ key_present "data" z = true /\ key_present "imme" z = true /\
            key_present "rfch" z = true /\ key_present "modu" z = true.
Proof. intros z. vm_compute. repeat split. Qed.
(* ipol is tagged omitempty: it is present because it is always true *)
Theorem txpk_ipol_present : key_present "ipol" false = true.
Proof. vm_compute. reflexivity. Qed.

(* ---------- C11, datagram side: nothing a gateway port receives can wedge the loop ---------- *)
(* GwPacket.UnmarshalBinary returns a packet or an error for every byte string *)
Theorem gw_unmarshal_total data : gw_unmarshal data <> Panic.
Proof.
  unfold gw_unmarshal. destruct data as [|v [|t1 [|t2 [|id rest]]]]; try discriminate.
  repeat (match goal with |- context [if ?c then _ else _] => destruct c end; try discriminate).
Qed.
(* whatever the datagram: at most one reply, it is an acknowledgement echoing token and version to the sender;
   registrations and the checks switch are never touched *)
Theorem any_datagram_at_most_the_ordinary_ack s d :
  (length (snd (fst (gw_step s d))) <= 1)%nat /\
  Forall (fun r => (rp_ident r = gw_PullAck \/ rp_ident r = gw_PushAck) /\ rp_token r = gp_token (dg_pkt d) /\ rp_ver r = gp_ver (dg_pkt d) /\
                   rp_host r = dg_host d /\ rp_port r = dg_port d) (snd (fst (gw_step s d))) /\
  gs_regs (fst (fst (gw_step s d))) = gs_regs s /\ gs_nochecks (fst (fst (gw_step s d))) = gs_nochecks s.
Proof.
  unfold gw_step. destruct (gp_ident (dg_pkt d) =? gw_PullData); [|destruct (gp_ident (dg_pkt d) =? gw_PushData); [destruct (authorised s d)|]];
    cbn [fst snd length gs_regs gs_nochecks]; (split; [lia|]); (split; [|split; reflexivity]);
    try (constructor; [|constructor]; cbn [rp_ident rp_token rp_ver rp_host rp_port]; (split; [first [left; reflexivity | right; reflexivity] | repeat split])); try constructor.
Qed.
(* ... so after ANY sequence of datagrams the loop serves as before: who is authorised is unchanged, a PULL_DATA is
   acknowledged and an authorised PUSH_DATA is acknowledged and its entries forwarded *)
Theorem still_serving_after_anything ds : forall s,
  gs_regs (run_gw s ds) = gs_regs s /\ gs_nochecks (run_gw s ds) = gs_nochecks s.
Proof.
  induction ds as [|d t IH]; intros s; cbn [run_gw fold_left]; [auto|]. fold (run_gw (fst (fst (gw_step s d))) t).
  destruct (IH (fst (fst (gw_step s d)))) as [A B]. destruct (any_datagram_at_most_the_ordinary_ack s d) as (_ & _ & C & Dd).
  split; congruence.
Qed.
Corollary authorised_after_anything ds s d : authorised (run_gw s ds) d = authorised s d.
Proof. destruct (still_serving_after_anything ds s) as [A B]. unfold authorised. now rewrite A, B. Qed.

(* C16: no hidden state - what a datagram gets depends on the checks switch and on the registration of the EUI it
   claims AS IT IS NOW (so registering, updating or deleting a gateway takes effect for the very next datagram) *)
Theorem decision_depends_on_current_registration s s' d :
  gs_nochecks s = gs_nochecks s' -> find_reg (gs_regs s) (gp_eui (dg_pkt d)) = find_reg (gs_regs s') (gp_eui (dg_pkt d)) ->
  snd (fst (gw_step s d)) = snd (fst (gw_step s' d)) /\ snd (gw_step s d) = snd (gw_step s' d).
Proof.
  intros Hn Hf. assert (Ha : authorised s d = authorised s' d) by (unfold authorised; now rewrite Hn, Hf).
  unfold gw_step. destruct (gp_ident (dg_pkt d) =? gw_PullData); [split; reflexivity|].
  destruct (gp_ident (dg_pkt d) =? gw_PushData); [|split; reflexivity]. rewrite Ha. destruct (authorised s' d); split; reflexivity.
Qed.
