(* C12, encode direction: the bytes PHYPayload.MarshalBinary produces are the LoRaWAN 1.0 layout of the
   frame's fields, written as plain arithmetic on numbers (no masks, no shifts, no cursor). *)
From Lospan Require Import Base.Bytes Base.Outcome Model.FrameTypes Gen.Consts Model.MacCmd Model.Frame
  Proof.BitLemmas Proof.MacCmdProof Proof.MacSetProof.
Open Scope N_scope.

(* the layout of section 4 of the specification: MHDR | DevAddr | FCtrl | FCnt | FOpts | [FPort | FRMPayload] | MIC *)
Definition spec_layout (mt mj addr : N) (f_adr f_adrackreq f_ack f_pending : bool) (cnt : N) (fo body : list N) (m : N) : list N :=
  [mt * 32 + mj] ++ le_bytes 4 addr ++
  [b2n f_adr * 128 + b2n f_adrackreq * 64 + b2n f_ack * 32 + b2n f_pending * 16 + N.of_nat (length fo)] ++
  le_bytes 2 cnt ++ fo ++ body ++ le_bytes 4 m.

Lemma mhdr_sweep : forallb (fun mt => forallb (fun mj => mhdr_byte mt mj =? mt * 32 + mj) (nrange 4)) (nrange 8) = true.
Proof. vm_compute. reflexivity. Qed.
Lemma mhdr_byte_spec mt mj : mt < 8 -> mj < 4 -> mhdr_byte mt mj = mt * 32 + mj.
Proof. intros A B. apply N.eqb_eq. exact (sweep2 _ 8 4 mhdr_sweep mt mj A B). Qed.

Definition fctrl_of (a b c d e : bool) (fol : N) : N :=
  fctrl_byte {| adr := a; adrackreq := b; ack := c; fpending := d; classb := e; foptslen := 0 |} fol.
Lemma fctrl_sweep : forallb (fun fol =>
  forallb (fun a => forallb (fun b => forallb (fun c => forallb (fun d => forallb (fun e =>
    fctrl_of a b c d e fol =? b2n a * 128 + b2n b * 64 + b2n c * 32 + b2n (d || e) * 16 + fol)
    [true; false]) [true; false]) [true; false]) [true; false]) [true; false]) (nrange 16) = true.
Proof. vm_compute. reflexivity. Qed.
Lemma fctrl_byte_spec c fol : fol < 16 ->
  fctrl_byte c fol = b2n (adr c) * 128 + b2n (adrackreq c) * 64 + b2n (ack c) * 32 + b2n (fpending c || classb c) * 16 + fol.
Proof.
  intros H. pose proof (sweep1 _ 16 fctrl_sweep fol H) as S. cbn beta in S.
  destruct c as [a b c0 d e l]. cbn [adr adrackreq ack fpending classb].
  assert (In1 : forall x : bool, In x [true; false]) by (intros []; cbn; auto).
  rewrite forallb_forall in S. specialize (S a (In1 a)). rewrite forallb_forall in S. specialize (S b (In1 b)).
  rewrite forallb_forall in S. specialize (S c0 (In1 c0)). rewrite forallb_forall in S. specialize (S d (In1 d)).
  rewrite forallb_forall in S. specialize (S e (In1 e)). apply N.eqb_eq in S. unfold fctrl_of, fctrl_byte in *. cbn in *. exact S.
Qed.

Lemma devaddr_word a : nwkid a < 128 -> nwkaddr a < 33554432 ->
  N.lor (N.land (N.shiftl (N.land (nwkid a) 255) 25) 4294967295) (N.land (nwkaddr a) 33554431) = nwkid a * 33554432 + nwkaddr a.
Proof.
  intros A B. rewrite land_255, N.mod_small by lia. rewrite shiftl_mul. change (2 ^ 25) with 33554432.
  rewrite land_4294967295, N.mod_small by lia. rewrite land_33554431, N.mod_small by lia.
  change 33554432 with (2 ^ 25). apply lor_disjoint. exact B.
Qed.

Definition frame_wf (f : frame) : Prop :=
  mtype f < 8 /\ major f < 4 /\ nwkid (f_devaddr f) < 128 /\ nwkaddr (f_devaddr f) < 33554432 /\
  Forall shape_ok (cs_cmds (fopts f)).

(* what follows the options: nothing, a port with its payload, or port 0 with the MAC commands *)
Definition body_of (f : frame) (body : list N) : Prop :=
  (frm f <> [] /\ 1 <= fport f <= 223 /\ body = fport f :: frm f) \/
  (frm f = [] /\ (0 < set_size (maccmds f))%nat /\ exists mc pos, set_encode buffer_size pos (maccmds f) = Ok mc /\ body = 0 :: mc) \/
  (frm f = [] /\ set_size (maccmds f) = 0%nat /\ body = []).

Lemma cmd_encode_len buflen pos c b : shape_ok c -> cmd_encode buflen pos c = Ok b -> length b = cmd_len c /\ (pos + cmd_len c < buflen)%nat.
Proof.
  intros Hs E. split.
  - assert (E1 : cmds_encode buflen pos [c] = Ok (b ++ [])) by (cbn [cmds_encode]; rewrite E; reflexivity).
    pose proof (set_encode_length buflen [c] pos (b ++ []) (Forall_cons c Hs (Forall_nil _)) E1) as L.
    rewrite app_nil_r in L. rewrite L. cbn. lia.
  - unfold cmd_encode in E. destruct (valid_buffer buflen pos c) eqn:Ev; [|discriminate]. unfold valid_buffer in Ev. now apply Nat.ltb_lt in Ev.
Qed.
Lemma cmds_encode_fits buflen : forall l pos bs, Forall shape_ok l -> cmds_encode buflen pos l = Ok bs ->
  bs = [] \/ (pos + length bs < buflen)%nat.
Proof.
  induction l as [|c t IH]; intros pos bs Hs E; cbn [cmds_encode] in E; [injection E as <-; now left|].
  inversion Hs as [|? ? Hc Ht]; subst.
  destruct (cmd_encode buflen pos c) as [b|e|] eqn:Ec; try discriminate. cbn [bind] in E.
  destruct (cmds_encode buflen (pos + length b) t) as [r|e|] eqn:Er; try discriminate. cbn [bind] in E. injection E as <-.
  destruct (cmd_encode_len _ _ _ _ Hc Ec) as [Lb Fb]. right. rewrite app_length.
  destruct (IH _ _ Ht Er) as [-> | F]; cbn; lia.
Qed.

Theorem encode_is_the_specified_layout f bs : frame_wf f -> encode f = Ok bs ->
  exists fo body, set_encode buffer_size 8 (fopts f) = Ok fo /\ (length fo <= 15)%nat /\ body_of f body /\
    bs = spec_layout (mtype f) (major f) (nwkid (f_devaddr f) * 33554432 + nwkaddr (f_devaddr f))
           (adr (fc f)) (adrackreq (fc f)) (ack (fc f)) (fpending (fc f) || classb (fc f)) (fcnt f) fo body (mic f).
Proof.
  intros (Hmt & Hmj & Hid & Had & Hshape). unfold encode.
  destruct ((mtype f =? JoinAccept) || (mtype f =? JoinRequest) || (mtype f =? Proprietary)); [discriminate|].
  cbn zeta.
  destruct (15 <? N.land (N.of_nat (set_encoded_length (fopts f))) 255) eqn:Efol; [discriminate|]. apply N.ltb_ge in Efol.
  destruct (set_encode buffer_size 8 (fopts f)) as [fo|e|] eqn:Efo; try discriminate. cbn [bind]. intros H.
  assert (Hlen : length fo = set_encoded_length (fopts f)).
  { unfold set_encode in Efo. rewrite (set_encode_length _ _ _ _ Hshape Efo). reflexivity. }
  assert (Hbuf : (length fo < 255)%nat).
  { unfold set_encode in Efo. destruct (cmds_encode_fits _ _ _ _ Hshape Efo) as [-> | F]; [cbn; lia | unfold buffer_size in F; lia]. }
  rewrite land_255 in Efol. rewrite <- Hlen in Efol. rewrite N.mod_small in Efol by lia.
  assert (H15 : (length fo <= 15)%nat) by lia.
  exists fo.
  rewrite mhdr_byte_spec, devaddr_word, fctrl_byte_spec in H; try assumption.
  2:{ rewrite land_255, <- Hlen, N.mod_small by lia. lia. }
  rewrite land_255, <- Hlen, N.mod_small in H by lia.
  set (hdr := (mtype f * 32 + major f) :: le_bytes 4 (nwkid (f_devaddr f) * 33554432 + nwkaddr (f_devaddr f)) ++ _) in H.
  revert H.
  destruct (223 <? (if (length (frm f) =? 0)%nat then 0 else fport f)) eqn:Ep; [discriminate|]. apply N.ltb_ge in Ep.
  destruct (((if (length (frm f) =? 0)%nat then 0 else fport f) =? 0) && (0 <? length (frm f))%nat) eqn:Ez; [discriminate|].
  destruct (frm f) as [|p0 pt] eqn:Efrm.
  - (* no payload *)
    cbn [length Nat.eqb]. rewrite (Nat.ltb_irrefl 0). cbn [andb].
    destruct (0 <? set_size (maccmds f))%nat eqn:Em.
    + cbn [andb]. destruct (buffer_size <=? length hdr)%nat; [discriminate|].
      destruct (set_encode buffer_size (length hdr + 1) (maccmds f)) as [mc|e|] eqn:Emc; try discriminate. cbn [bind].
      destruct (buffer_size <? _)%nat; [discriminate|]. intros [= <-].
      exists (0 :: mc). split; [reflexivity|]. split; [exact H15|]. split.
      * right. left. split; [exact Efrm|]. split; [now apply Nat.ltb_lt in Em|]. eauto.
      * unfold spec_layout, hdr. cbn [app le_bytes]. rewrite <- ?app_assoc. reflexivity.
    + cbn [andb bind]. destruct (buffer_size <? _)%nat; [discriminate|]. intros [= <-].
      exists []. split; [reflexivity|]. split; [exact H15|]. split.
      * right. right. split; [exact Efrm|]. split; [apply Nat.ltb_ge in Em; lia | reflexivity].
      * unfold spec_layout, hdr. cbn [app le_bytes]. rewrite <- ?app_assoc. reflexivity.
  - (* a port and its payload *)
    cbn [length Nat.eqb] in Ep, Ez. change (0 <? S (length pt))%nat with true in Ez. rewrite andb_true_r in Ez. apply N.eqb_neq in Ez.
    cbn [length Nat.eqb]. change (0 <? S (length pt))%nat with true. cbn [andb].
    destruct (buffer_size <=? length hdr)%nat; [discriminate|]. destruct (buffer_size <? _)%nat; [discriminate|]. cbn [bind].
    destruct (buffer_size <? _)%nat; [discriminate|]. intros [= <-].
    exists (fport f :: p0 :: pt). split; [reflexivity|]. split; [exact H15|]. split.
    + left. rewrite Efrm. split; [discriminate|]. split; [lia | reflexivity].
    + unfold spec_layout, hdr. rewrite land_255. rewrite (N.mod_small (fport f) 256) by lia. cbn [app le_bytes]. rewrite <- ?app_assoc. reflexivity.
Qed.

(* ... and the specification's reader gets every field back from that layout *)
From Lospan Require Import Spec.LoRaFrame Proof.CMACProof.
Lemma skipn_app_exact {A} (l1 l2 : list A) : skipn (length l1) (l1 ++ l2) = l2.
Proof. induction l1; cbn; auto. Qed.
Lemma firstn_app_exact {A} (l1 l2 : list A) : firstn (length l1) (l1 ++ l2) = l1.
Proof. induction l1; cbn; [reflexivity | now f_equal]. Qed.

Theorem spec_reads_the_layout mt mj addr a b c d cnt fo body m :
  mt < 8 -> mj < 4 -> addr < 4294967296 -> cnt < 65536 -> m < 4294967296 -> (length fo <= 15)%nat ->
  spec_decode (spec_layout mt mj addr a b c d cnt fo body m)
  = Some {| s_mtype := mt; s_major := mj; s_addr := addr;
            s_fctrl := b2n a * 128 + b2n b * 64 + b2n c * 32 + b2n d * 16 + N.of_nat (length fo);
            s_fcnt := cnt; s_fopts := fo; s_port := hd_error body; s_payload := tl body; s_mic := m |}.
Proof.
  intros Hmt Hmj Ha Hc Hm Hfo. unfold spec_layout, spec_decode.
  set (fcb := b2n a * 128 + b2n b * 64 + b2n c * 32 + b2n d * 16 + N.of_nat (length fo)).
  assert (Hfol : N.to_nat (fcb mod 16) = length fo).
  { unfold fcb. destruct a, b, c, d; cbn [b2n]; lia. }
  set (M4 := le_bytes 4 m). assert (LM : length M4 = 4%nat) by apply le_bytes_length.
  (* the first eight octets explicitly *)
  change ([mt * 32 + mj] ++ le_bytes 4 addr ++ [fcb] ++ le_bytes 2 cnt ++ fo ++ body ++ M4)
    with ((mt * 32 + mj) :: (addr mod 256) :: ((addr / 256) mod 256) :: ((addr / 256 / 256) mod 256) :: ((addr / 256 / 256 / 256) mod 256)
          :: fcb :: (cnt mod 256) :: ((cnt / 256) mod 256) :: (fo ++ body ++ M4)).
  set (rest := fo ++ body ++ M4).
  assert (Lrest : length rest = (length fo + length body + 4)%nat) by (unfold rest; rewrite !app_length, LM; lia).
  cbn [length nth]. rewrite Hfol.
  destruct (S (S (S (S (S (S (S (S (length rest)))))))) <? 12)%nat eqn:E1; [apply Nat.ltb_lt in E1; lia|].
  destruct (S (S (S (S (S (S (S (S (length rest)))))))) <? 12 + length fo)%nat eqn:E2; [apply Nat.ltb_lt in E2; lia|].
  f_equal.
  assert (S1 : skipn (8 + length fo) ((mt * 32 + mj) :: (addr mod 256) :: ((addr / 256) mod 256) :: ((addr / 256 / 256) mod 256)
                 :: ((addr / 256 / 256 / 256) mod 256) :: fcb :: (cnt mod 256) :: ((cnt / 256) mod 256) :: rest) = body ++ M4).
  { cbn [Nat.add skipn]. unfold rest. apply skipn_app_exact. }
  rewrite S1.
  assert (S2 : firstn (S (S (S (S (S (S (S (S (length rest)))))))) - 12 - length fo) (body ++ M4) = body).
  { replace (S (S (S (S (S (S (S (S (length rest)))))))) - 12 - length fo)%nat with (length body) by lia. apply firstn_app_exact. }
  rewrite S2.
  assert (S3 : skipn (S (S (S (S (S (S (S (S (length rest)))))))) - 4) ((mt * 32 + mj) :: (addr mod 256) :: ((addr / 256) mod 256)
                 :: ((addr / 256 / 256) mod 256) :: ((addr / 256 / 256 / 256) mod 256) :: fcb :: (cnt mod 256) :: ((cnt / 256) mod 256) :: rest) = M4).
  { replace (S (S (S (S (S (S (S (S (length rest)))))))) - 4)%nat with (8 + (length fo + length body))%nat by lia.
    cbn [Nat.add skipn]. unfold rest. rewrite app_assoc. rewrite <- app_length. apply skipn_app_exact. }
  rewrite S3. cbn [skipn firstn].
  assert (F1 : firstn (length fo) rest = fo) by (unfold rest; apply firstn_app_exact).
  rewrite F1.
  assert (V4 : le_val [addr mod 256; (addr / 256) mod 256; (addr / 256 / 256) mod 256; (addr / 256 / 256 / 256) mod 256] = addr).
  { change [addr mod 256; (addr / 256) mod 256; (addr / 256 / 256) mod 256; (addr / 256 / 256 / 256) mod 256] with (le_bytes 4 addr).
    apply le_val_le_bytes. exact Ha. }
  assert (V2 : le_val [cnt mod 256; (cnt / 256) mod 256] = cnt).
  { change [cnt mod 256; (cnt / 256) mod 256] with (le_bytes 2 cnt). apply le_val_le_bytes. exact Hc. }
  assert (VM : le_val M4 = m) by (unfold M4; apply le_val_le_bytes; exact Hm).
  rewrite V4, V2, VM.
  assert (D1 : (mt * 32 + mj) / 32 = mt) by lia. assert (D2 : (mt * 32 + mj) mod 4 = mj) by lia.
  rewrite D1, D2. reflexivity.
Qed.
