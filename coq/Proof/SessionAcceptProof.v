(* C05 "the stored session always matches the join-accept sent", for EVERY schedule of one join handler and any number
   of uplink handlers of the device (ANY frames - of the session the device leaves, of the new one, of none): every
   join-accept that leaves - whether the join's own handler sends it or an uplink handler collects it from the device's
   buffer entry - is the encoding, under the device's AppKey, of the record the join built (its AppNonce, NetID and
   address), and when one has left the row holds exactly the session derived from that record. No assumption on the
   cipher. *)
From Coq Require Import String.
From Lospan Require Import Base.Bytes Base.Outcome Model.CMAC Model.FrameTypes Model.Crypto Gen.Consts Model.MacCmd
  Model.Frame Model.Join Model.Store Model.Server Model.Steps Proof.LocalProof Proof.SchedProof Proof.SessionDataProof.
Open Scope N_scope.

Definition ja_raws (outs : list out) : list (list N) := map dl_raw (filter (fun d => negb (is_data d)) (downs outs)).
Lemma ja_raws_app a b : ja_raws (a ++ b) = ja_raws a ++ ja_raws b.
Proof. unfold ja_raws. now rewrite downs_app, filter_app, map_app. Qed.

Section Accept.
  Variable E D : list N -> list N -> list N.
  Variable apps : list N.
  Variable r0 : device.            (* the row before any handler ran *)
  Variable cfg : config.
  Variable appnonce : list N.
  Variable newaddr : N.
  Variable dn : N.                 (* the DevNonce of the request *)

  Let ak := d_appkey r0.
  Let knew := nwkskey_from_nonces E ak appnonce (cfg_netid cfg) dn.
  Let anew := appskey_from_nonces E ak appnonce (cfg_netid cfg) dn.
  Let addr' := if d_addr r0 =? 0 then newaddr else d_addr r0.
  Definition the_ja : joinacc :=
    {| ja_appnonce := appnonce; ja_netid := N.land (cfg_netid cfg) 4294967295; ja_devaddr := devaddr_of_u32 addr';
       ja_rx1droffset := 0; ja_rx2dr := 5; ja_rxdelay := 1 |}.
  Definition expected (raw : list N) : Prop := encode_join_accept E D ak JoinAccept c_MaxSupportedVersion the_ja = Ok raw.
  Definition newsess (x : device) : Prop := d_nwkskey x = knew /\ d_appskey x = anew /\ d_addr x = addr' /\ d_appkey x = ak.
  Definition oldrow (x : device) : Prop := d_appkey x = ak /\ d_addr x = d_addr r0.

  Definition plainop (o : sop) : Prop :=
    match o with SEmit _ _ | SSetJoinAccept _ | SGetPhy _ | SGetRow | SUpdateDevice _ => False | _ => True end.
  (* s: the handler knows that the new session is stored (it stored it, or it took a join-accept from the buffer) *)
  Inductive tp : bool -> prog -> Prop :=
  | tp_halt s o : downs o = [] -> tp s (Halt o)
  | tp_emit_data s d c k : is_data d = true -> (forall r, tp s (k r)) -> tp s (Do (SEmit d c) k)
  | tp_emit_ja d c k : is_data d = false -> expected (dl_raw d) -> (forall r, tp true (k r)) -> tp true (Do (SEmit d c) k)
  | tp_setja k : (forall r, tp true (k r)) -> tp true (Do (SSetJoinAccept the_ja) k)
  | tp_phy s datr k : (forall r, (forall p, r = XPhy (GetOk p) -> po_mtype p <> JoinAccept) -> tp s (k r)) ->
                      (forall p, po_mtype p = JoinAccept -> po_ja p = Some the_ja -> tp true (k (XPhy (GetOk p)))) -> tp s (Do (SGetPhy datr) k)
  | tp_read s k : (forall r, (forall dev, r = XRow (Some dev) -> d_appkey dev = ak) -> tp s (k r)) -> tp s (Do SGetRow k)
  | tp_op s o k : plainop o -> (forall r, tp s (k r)) -> tp s (Do o k).
  Definition jmild' (o : sop) : Prop := match o with SGetApp _ | SAddNonce _ => True | _ => False end.
  Inductive jpre : prog -> Prop :=
  | jp_done p : tp false p -> jpre p
  | jp_read k : (forall r, (forall dev, r = XRow (Some dev) -> oldrow dev) -> jpre (k r)) -> jpre (Do SGetRow k)
  | jp_mild o k : jmild' o -> (forall r, jpre (k r)) -> jpre (Do o k)
  | jp_switch d k : newsess d -> tp true (k (XErr None)) -> jpre (Do (SUpdateDevice d) k).

  (* ---- the state ---- *)
  Definition fb_noja (st : dstate) : Prop := match ds_fb st with Some fd => fo_mtype fd <> JoinAccept | None => True end.
  Definition fb_jaok (st : dstate) : Prop := match ds_fb st with Some fd => fo_mtype fd = JoinAccept -> fo_ja fd = Some the_ja | None => True end.
  Definition kfix (x x' : device) : Prop :=
    d_appkey x' = d_appkey x /\ d_addr x' = d_addr x /\ d_nwkskey x' = d_nwkskey x /\ d_appskey x' = d_appskey x.

  Lemma exec_kfix st o x : (forall d, o <> SUpdateDevice d) -> ds_row st = Some x ->
    exists x', ds_row (fst (fst (exec apps st o))) = Some x' /\ kfix x x'.
  Proof.
    intros Hn Hr. assert (Same : exists x', ds_row st = Some x' /\ kfix x x') by (exists x; split; [exact Hr | repeat split]).
    destruct o; cbn [exec]; try exact Same.
    - unfold l_update_device_state. rewrite Hr. cbn. eexists. split; [reflexivity | repeat split].
    - unfold l_advance_fup. rewrite Hr. destruct (_ && _); cbn; [eexists; split; [reflexivity | repeat split] | exact Same].
    - unfold l_next_fdn. rewrite Hr. destruct (negb _); cbn; [exact Same | eexists; split; [reflexivity | repeat split]].
    - pose proof (row_create_upstream st m) as R. destruct (l_create_upstream st m) as [st' e]. cbn [fst] in *. now rewrite R.
    - pose proof (row_get_phy st datr) as R. destruct (l_get_phy st datr) as [st' g]. cbn [fst] in *. now rewrite R.
    - unfold l_add_nonce. destruct (existsb _ _); cbn; exact Same.
    - exfalso. eapply Hn. reflexivity.
  Qed.
  (* the buffer entry: operations other than SetJoinAcceptPayload never make it a join-accept entry, and keep a
     join-accept entry's record *)
  Lemma exec_fb st o : (forall j, o <> SSetJoinAccept j) ->
    (fb_noja st -> fb_noja (fst (fst (exec apps st o)))) /\ (fb_jaok st -> fb_jaok (fst (fst (exec apps st o)))).
  Proof.
    intros Hn. assert (Same : (fb_noja st -> fb_noja st) /\ (fb_jaok st -> fb_jaok st)) by tauto.
    destruct o; cbn [exec]; try exact Same.
    - unfold l_update_device_state. destruct (ds_row st); cbn; exact Same.
    - unfold l_advance_fup. destruct (ds_row st); [destruct (_ && _)|]; cbn; exact Same.
    - unfold l_next_fdn. destruct (ds_row st); [destruct (negb _)|]; cbn; exact Same.
    - unfold l_create_upstream. destruct (existsb _ _); cbn; exact Same.
    - unfold fb_noja, fb_jaok, l_set_ack_flag. cbn. destruct (ds_fb st) as [fd|]; cbn; [tauto|]. split; intros _; discriminate.
    - unfold fb_noja, fb_jaok, l_set_payload. cbn. destruct ack; split; intros _; discriminate.
    - (* the buffer read *)
      unfold l_get_phy, fb_noja, fb_jaok. destruct (ds_fb st) as [fd|] eqn:Ef; [|cbn; rewrite Ef; tauto].
      assert (Hnew : (if fo_mtype fd =? JoinAccept then UnconfirmedDataDown else fo_mtype fd) <> JoinAccept).
      { destruct (fo_mtype fd =? JoinAccept) eqn:Em; [discriminate | now apply N.eqb_neq]. }
      destruct (_ && _ && _); [cbn; tauto|]. destruct (0 <? _)%nat.
      + destruct (max_payload datr) as [mn|]; [|cbn; rewrite Ef; tauto]. destruct (_ <? _)%nat; cbn; split; intros _; tauto.
      + cbn. split; intros _; tauto.
    - unfold l_add_nonce. destruct (existsb _ _); cbn; exact Same.
    - unfold l_update_device. destruct (ds_row st); cbn; exact Same.
    - exfalso. eapply Hn. reflexivity.
  Qed.
  (* what the buffer read answers *)
  Lemma phy_result st datr p : snd (fst (exec apps st (SGetPhy datr))) = XPhy (GetOk p) ->
    (fb_noja st -> po_mtype p <> JoinAccept) /\ (fb_jaok st -> po_mtype p = JoinAccept -> po_ja p = Some the_ja).
  Proof.
    cbn [exec]. unfold l_get_phy, fb_noja, fb_jaok. destruct (ds_fb st) as [fd|]; [|cbn; discriminate].
    destruct (_ && _ && _); [cbn; discriminate|]. destruct (0 <? _)%nat.
    - destruct (max_payload datr) as [mn|]; [|cbn; discriminate]. destruct (_ <? _)%nat; cbn; intros [= <-]; cbn; tauto.
    - cbn. intros [= <-]. cbn. tauto.
  Qed.
  Lemma exec_quiet st o : (forall d c, o <> SEmit d c) -> snd (exec apps st o) = [].
  Proof.
    intros Hn. destruct o; cbn [exec]; try reflexivity.
    - destruct (l_update_device_state st dev); reflexivity.
    - destruct (l_advance_fup st key accepted newfup kw); reflexivity.
    - destruct (l_next_fdn st key); reflexivity.
    - destruct (l_create_upstream st m); reflexivity.
    - destruct (l_get_phy st datr); reflexivity.
    - exfalso. eapply Hn. reflexivity.
    - destruct (l_add_nonce st n); reflexivity.
    - destruct (l_update_device st dev); reflexivity.
  Qed.

  (* ---- invariants ---- *)
  Definition ainv (st : dstate) (pj : prog) (ps : list prog) (acc : list out) : Prop :=
    (exists x, ds_row st = Some x /\ oldrow x) /\ fb_noja st /\ ja_raws acc = [] /\ jpre pj /\ Forall (tp false) ps.
  Definition binv (st : dstate) (ps : list prog) (acc : list out) : Prop :=
    (exists x, ds_row st = Some x /\ newsess x) /\ fb_jaok st /\ Forall expected (ja_raws acc) /\ Forall (fun p => exists s, tp s p) ps.
  Definition apost (st : dstate) (outs : list out) : Prop :=
    Forall expected (ja_raws outs) /\ (ja_raws outs <> [] -> exists x, ds_row st = Some x /\ newsess x).
  Lemma ainv_post st pj ps acc : ainv st pj ps acc -> apost st acc.
  Proof. intros (_ & _ & Hj & _). unfold apost. rewrite Hj. split; [constructor | congruence]. Qed.
  Lemma binv_post st ps acc : binv st ps acc -> apost st acc.
  Proof. intros (Hr & _ & Hj & _). split; [exact Hj | intros _; exact Hr]. Qed.

  Definition qhalt (p : prog) : Prop := match p with Halt o => downs o = [] | Do _ _ => True end.
  Lemma tp_qhalt s p : tp s p -> qhalt p. Proof. destruct 1; cbn; auto. Qed.
  Lemma jpre_qhalt p : jpre p -> qhalt p. Proof. destruct 1 as [p H| | |]; cbn; auto. eapply tp_qhalt; exact H. Qed.
  Lemma final_quiet ps : Forall qhalt ps -> downs (final_outs ps) = [].
  Proof.
    induction 1 as [|p t Hp _ IH]; [reflexivity|]. unfold final_outs in *. cbn [flat_map]. rewrite downs_app, IH, app_nil_r.
    destruct p; [exact Hp | reflexivity].
  Qed.
  Lemma apost_final st acc ps : Forall qhalt ps -> apost st acc -> apost st (acc ++ final_outs ps).
  Proof.
    intros Hq Hp. assert (Eq : ja_raws (acc ++ final_outs ps) = ja_raws acc).
    { rewrite ja_raws_app. unfold ja_raws at 2. rewrite (final_quiet ps Hq). cbn. apply app_nil_r. }
    unfold apost. rewrite Eq. exact Hp.
  Qed.
  Lemma Forall_replace' (P : prog -> Prop) i p : forall ps, Forall P ps -> P p -> Forall P (replace_nth i p ps).
  Proof. induction i as [|i IH]; intros [|h t] H Hp; cbn; auto; inversion H; subst; constructor; auto. Qed.

  Lemma ja_raws_data acc d : is_data d = true -> ja_raws (acc ++ [ODown d]) = ja_raws acc.
  Proof. intros H. rewrite ja_raws_app. unfold ja_raws at 2, downs. cbn. rewrite H. cbn. apply app_nil_r. Qed.
  Lemma ja_raws_ja acc d : is_data d = false -> ja_raws (acc ++ [ODown d]) = ja_raws acc ++ [dl_raw d].
  Proof. intros H. rewrite ja_raws_app. unfold ja_raws at 2, downs. cbn. rewrite H. reflexivity. Qed.

  (* after the new session is stored *)
  Lemma binv_step st ps acc i o k : binv st ps acc -> nth_error ps i = Some (Do o k) ->
    forall b : bool, binv (fst (fst (exec apps st o))) (replace_nth i (if b then Halt [] else k (snd (fst (exec apps st o)))) ps) (acc ++ snd (exec apps st o)).
  Proof.
    intros ((x & Hr & Hx) & Hfb & Hj & Hall) Ei b.
    assert (Hi : exists s, tp s (Do o k)) by (rewrite Forall_forall in Hall; apply Hall; eapply nth_error_In; exact Ei).
    destruct Hi as [s Hi].
    assert (Keep : forall st', (exists x', ds_row st' = Some x' /\ kfix x x') -> exists x', ds_row st' = Some x' /\ newsess x').
    { intros st' (x' & R' & K1 & K2 & K3 & K4). exists x'. split; [exact R'|]. destruct Hx as (N1 & N2 & N3 & N4). unfold newsess. rewrite K1, K2, K3, K4. auto. }
    assert (Halt_ok : forall s', (exists s, tp s (if b then Halt [] else k (snd (fst (exec apps st o))))) -> tp s' (Halt []) -> True) by auto.
    inversion Hi as [| s0 d c k' Hd Hk | d c k' Hd He Hk | k' Hk | s0 datr k' Hk1 Hk2 | s0 k' Hk | s0 o' k' Hp Hk]; subst.
    - (* a data frame leaves *)
      cbn [exec fst snd]. split; [eauto|]. split; [exact Hfb|]. rewrite (ja_raws_data acc d Hd). split; [exact Hj|].
      apply Forall_replace'; [exact Hall|]. cbn beta. destruct b; [exists false; now constructor | exists s; apply Hk].
    - (* a join-accept leaves: it is the expected one *)
      cbn [exec fst snd]. split; [eauto|]. split; [exact Hfb|]. rewrite (ja_raws_ja acc d Hd). split; [apply Forall_app; split; [exact Hj | constructor; [exact He | constructor]]|].
      apply Forall_replace'; [exact Hall|]. cbn beta. destruct b; [exists false; now constructor | exists true; apply Hk].
    - (* the join hands its record to the buffer *)
      cbn [exec fst snd]. split; [eauto|]. split; [unfold fb_jaok, l_set_join_accept; cbn; auto|]. rewrite app_nil_r. split; [exact Hj|].
      apply Forall_replace'; [exact Hall|]. cbn beta. destruct b; [exists false; now constructor | exists true; apply Hk].
    - (* a buffer read *)
      pose proof (exec_kfix st (SGetPhy datr) x ltac:(discriminate) Hr) as K.
      pose proof (proj2 (exec_fb st (SGetPhy datr) ltac:(discriminate)) Hfb) as F.
      pose proof (exec_quiet st (SGetPhy datr) ltac:(discriminate)) as Q.
      pose proof (phy_result st datr) as P.
      destruct (exec apps st (SGetPhy datr)) as [[st' r] e]. cbn [fst snd] in *. subst e. rewrite app_nil_r.
      split; [now apply Keep|]. split; [exact F|]. split; [exact Hj|].
      apply Forall_replace'; [exact Hall|]. cbn beta. destruct b; [exists false; now constructor|].
      destruct r as [| | |[| |p]| |]; try (exists s; apply Hk1; intros p0 Hp0; discriminate Hp0).
      destruct (N.eq_dec (po_mtype p) JoinAccept) as [Eja | Nja].
      + exists true. apply Hk2; [exact Eja|]. apply (proj2 (P p eq_refl) Hfb Eja).
      + exists s. apply Hk1. intros p0 [= <-]. exact Nja.
    - (* a row read *)
      cbn [exec fst snd]. rewrite app_nil_r. split; [eauto|]. split; [exact Hfb|]. split; [exact Hj|].
      apply Forall_replace'; [exact Hall|]. cbn beta. destruct b; [exists false; now constructor|]. exists s. apply Hk.
      intros dev Hd. rewrite Hr in Hd. injection Hd as <-. cbn. destruct Hx as (_ & _ & _ & N4). exact N4.
    - (* any other operation *)
      assert (N1 : forall d, o <> SUpdateDevice d) by (intros d ->; exact Hp).
      assert (N2 : forall j, o <> SSetJoinAccept j) by (intros j ->; exact Hp).
      assert (N3 : forall d c, o <> SEmit d c) by (intros d c ->; exact Hp).
      pose proof (exec_kfix st o x N1 Hr) as K. pose proof (proj2 (exec_fb st o N2) Hfb) as F. pose proof (exec_quiet st o N3) as Q.
      destruct (exec apps st o) as [[st' r] e]. cbn [fst snd] in *. subst e. rewrite app_nil_r.
      split; [now apply Keep|]. split; [exact F|]. split; [exact Hj|].
      apply Forall_replace'; [exact Hall|]. cbn beta. destruct b; [exists false; now constructor | exists s; apply Hk].
  Qed.
  Theorem interleaveN_after_accept : forall fuel sched st ps acc, binv st ps acc ->
    apost (fst (interleaveN apps sched fuel st ps acc)) (snd (interleaveN apps sched fuel st ps acc)).
  Proof.
    induction fuel as [|fuel IH]; intros sched st ps acc Hinv; cbn [interleaveN]; [cbn [fst snd]; eapply binv_post; exact Hinv|].
    destruct (choose (hd 0%nat sched) ps) as [i|].
    2:{ cbn [fst snd]. apply apost_final; [|eapply binv_post; exact Hinv]. destruct Hinv as (_ & _ & _ & Hall).
        eapply Forall_impl; [|exact Hall]. intros p [s Hp]. eapply tp_qhalt; exact Hp. }
    destruct (nth_error ps i) as [[o0 | o k]|] eqn:Ei; try (cbn [fst snd]; eapply binv_post; exact Hinv).
    pose proof (binv_step st ps acc i o k Hinv Ei) as X. destruct (exec apps st o) as [[st' r] e]. cbn [fst snd] in X. apply IH. apply X.
  Qed.

  (* before: an uplink handler's step *)
  Lemma ainv_step st pj ps acc i o k : ainv st pj ps acc -> nth_error ps i = Some (Do o k) ->
    forall b : bool, ainv (fst (fst (exec apps st o))) pj (replace_nth i (if b then Halt [] else k (snd (fst (exec apps st o)))) ps) (acc ++ snd (exec apps st o)).
  Proof.
    intros ((x & Hr & Hx) & Hfb & Hj & Hpj & Hall) Ei b.
    assert (Hi : tp false (Do o k)) by (rewrite Forall_forall in Hall; apply Hall; eapply nth_error_In; exact Ei).
    assert (Keep : forall st', (exists x', ds_row st' = Some x' /\ kfix x x') -> exists x', ds_row st' = Some x' /\ oldrow x').
    { intros st' (x' & R' & K1 & K2 & _). exists x'. split; [exact R'|]. destruct Hx as (O1 & O2). unfold oldrow. rewrite K1, K2. auto. }
    inversion Hi as [| s0 d c k' Hd Hk | | | s0 datr k' Hk1 Hk2 | s0 k' Hk | s0 o' k' Hp Hk]; subst.
    - cbn [exec fst snd]. split; [eauto|]. split; [exact Hfb|]. rewrite (ja_raws_data acc d Hd). split; [exact Hj|]. split; [exact Hpj|].
      apply Forall_replace'; [exact Hall|]. cbn beta. destruct b; [now constructor | apply Hk].
    - pose proof (exec_kfix st (SGetPhy datr) x ltac:(discriminate) Hr) as K.
      pose proof (proj1 (exec_fb st (SGetPhy datr) ltac:(discriminate)) Hfb) as F.
      pose proof (exec_quiet st (SGetPhy datr) ltac:(discriminate)) as Q.
      pose proof (phy_result st datr) as P.
      destruct (exec apps st (SGetPhy datr)) as [[st' r] e]. cbn [fst snd] in *. subst e. rewrite app_nil_r.
      split; [now apply Keep|]. split; [exact F|]. split; [exact Hj|]. split; [exact Hpj|].
      apply Forall_replace'; [exact Hall|]. cbn beta. destruct b; [now constructor|]. apply Hk1. intros p ->. apply (proj1 (P p eq_refl) Hfb).
    - cbn [exec fst snd]. rewrite app_nil_r. split; [eauto|]. split; [exact Hfb|]. split; [exact Hj|]. split; [exact Hpj|].
      apply Forall_replace'; [exact Hall|]. cbn beta. destruct b; [now constructor|]. apply Hk.
      intros dev Hd. rewrite Hr in Hd. injection Hd as <-. cbn. exact (proj1 Hx).
    - assert (N1 : forall d, o <> SUpdateDevice d) by (intros d ->; exact Hp).
      assert (N2 : forall j, o <> SSetJoinAccept j) by (intros j ->; exact Hp).
      assert (N3 : forall d c, o <> SEmit d c) by (intros d c ->; exact Hp).
      pose proof (exec_kfix st o x N1 Hr) as K. pose proof (proj1 (exec_fb st o N2) Hfb) as F. pose proof (exec_quiet st o N3) as Q.
      destruct (exec apps st o) as [[st' r] e]. cbn [fst snd] in *. subst e. rewrite app_nil_r.
      split; [now apply Keep|]. split; [exact F|]. split; [exact Hj|]. split; [exact Hpj|].
      apply Forall_replace'; [exact Hall|]. cbn beta. destruct b; [now constructor | apply Hk].
  Qed.

  Lemma replace0 p q (t : list prog) : replace_nth 0 p (q :: t) = p :: t. Proof. reflexivity. Qed.
  Lemma replaceS i p q (t : list prog) : replace_nth (S i) p (q :: t) = q :: replace_nth i p t. Proof. reflexivity. Qed.

  Theorem interleaveN_accept : forall fuel sched st pj ps acc, ainv st pj ps acc ->
    apost (fst (interleaveN apps sched fuel st (pj :: ps) acc)) (snd (interleaveN apps sched fuel st (pj :: ps) acc)).
  Proof.
    induction fuel as [|fuel IH]; intros sched st pj ps acc Hinv; [cbn [interleaveN fst snd]; eapply ainv_post; exact Hinv|].
    pose proof Hinv as ((x & Hr & Hx) & Hfb & Hj & Hpj & Hall).
    assert (Hq : Forall qhalt (pj :: ps)).
    { constructor; [now apply jpre_qhalt|]. eapply Forall_impl; [|exact Hall]. intros p Hp. eapply tp_qhalt; exact Hp. }
    cbn [interleaveN]. destruct (choose (hd 0%nat sched) (pj :: ps)) as [i|]; [|cbn [fst snd]; apply apost_final; [exact Hq | eapply ainv_post; exact Hinv]].
    destruct i as [|i]; cbn [nth_error].
    2:{ (* an uplink handler *)
        destruct (nth_error ps i) as [[o0 | o k]|] eqn:Ei; try (cbn [fst snd]; eapply ainv_post; exact Hinv).
        pose proof (ainv_step st pj ps acc i o k Hinv Ei) as X. destruct (exec apps st o) as [[st' r] e]. cbn [fst snd] in X. rewrite replaceS. apply IH. apply X. }
    destruct pj as [o0 | o k]; [cbn [fst snd]; eapply ainv_post; exact Hinv|].
    inversion Hpj as [p HP | k' Hrd | o' k' Hm Hkk | d k' Hd Hkk]; subst.
    - (* done with the session: one more handler of the pool *)
      assert (A' : ainv st (Halt []) (Do o k :: ps) acc).
      { split; [eauto|]. split; [exact Hfb|]. split; [exact Hj|]. split; [apply jp_done; now constructor | constructor; assumption]. }
      pose proof (ainv_step st (Halt []) (Do o k :: ps) acc 0%nat o k A' eq_refl) as X.
      destruct (exec apps st o) as [[st' r] e]. cbn [fst snd] in X. rewrite replace0.
      specialize (X (at_buffer_read (k r) && others_at_buffer 0 (Do o k :: ps))). rewrite replace0 in X.
      destruct X as (X1 & X2 & X3 & _ & X5). inversion X5 as [|p1 t1 Hp1 Ht1]; subst.
      apply IH. split; [exact X1|]. split; [exact X2|]. split; [exact X3|]. split; [now apply jp_done | exact Ht1].
    - (* the join reads the row *)
      cbn [exec]. rewrite replace0, app_nil_r. apply IH. split; [eauto|]. split; [exact Hfb|]. split; [exact Hj|]. split; [|exact Hall].
      destruct (_ && _); [apply jp_done; now constructor|]. apply Hrd. intros dev Hdv. rewrite Hr in Hdv. injection Hdv as <-. exact Hx.
    - (* application look-up, nonce *)
      assert (X : ds_row (fst (fst (exec apps st o))) = ds_row st /\ ds_fb (fst (fst (exec apps st o))) = ds_fb st /\ snd (exec apps st o) = []).
      { destruct o; cbn [jmild'] in Hm; try contradiction; cbn [exec]; [auto|]. unfold l_add_nonce. destruct (existsb _ _); cbn; auto. }
      destruct (exec apps st o) as [[st' r] e]. cbn [fst snd] in X. destruct X as (X1 & X2 & ->). rewrite replace0, app_nil_r.
      apply IH. split; [rewrite X1; eauto|]. split; [unfold fb_noja in *; now rewrite X2|]. split; [exact Hj|]. split; [|exact Hall].
      destruct (_ && _); [apply jp_done; now constructor | apply Hkk].
    - (* the new session is stored *)
      cbn [exec]. unfold l_update_device. rewrite Hr. rewrite replace0, app_nil_r. apply interleaveN_after_accept.
      split; [eexists; split; [reflexivity|]; destruct Hd as (D1 & D2 & D3 & D4); unfold newsess; cbn; auto|].
      split; [unfold fb_jaok, fb_noja in *; cbn; destruct (ds_fb st); [intros C; contradiction | exact I]|].
      split; [rewrite Hj; constructor|].
      constructor; [destruct (_ && _); [exists false; now constructor | exists true; exact Hkk]|].
      eapply Forall_impl; [|exact Hall]. intros p Hp. exists false. exact Hp.
  Qed.

  (* ---- the handlers ---- *)
  Lemma tp_enc_join_expected dev rx fin : downs fin = [] -> d_appkey dev = ak -> tp true (enc_join_prog E D dev the_ja rx fin).
  Proof.
    intros Hf Hk. unfold enc_join_prog. apply tp_op; [exact I|]. intros [[e|]| | | | |]; try (now constructor).
    destruct (encode_join_accept _ _ _ _ _ _) as [buf| |] eqn:Ej; try (now constructor).
    apply tp_emit_ja; [reflexivity | unfold expected; cbn [dl_raw]; rewrite <- Hk; exact Ej | intros _; now constructor].
  Qed.
  Lemma tp_enc_data s dev p rx created now fin : downs fin = [] -> tp s (enc_data_prog E dev p rx created now fin).
  Proof.
    intros Hf. unfold enc_data_prog. destruct (encode _); try (now constructor).
    apply tp_op; [exact I|]. intros [| | | | |[c|]]; try (now constructor).
    destruct (encode_message E _ _ _) as [buf| |]; try (now constructor).
    apply tp_op; [exact I|]. intros _. destruct (_ =? _)%nat; [now constructor|]. apply tp_emit_data; [reflexivity | intros _; now constructor].
  Qed.
  Lemma tp_send s dev rx created now fin : downs fin = [] -> d_appkey dev = ak -> tp s (send_prog E D dev rx created now fin).
  Proof.
    intros Hf Hk. unfold send_prog. apply tp_phy.
    - intros r Hr. destruct r as [| | |[| |p]| |]; try (now constructor).
      specialize (Hr p eq_refl). destruct (po_mtype p =? JoinAccept) eqn:Em; [apply N.eqb_eq in Em; contradiction|].
      destruct (_ || _ || _); [now constructor | now apply tp_enc_data].
    - intros p Hm Hja. rewrite Hm. cbn [N.eqb Pos.eqb JoinAccept]. rewrite Hja. now apply tp_enc_join_expected.
  Qed.
  Lemma tp_queue s dev1 f rx now fin : downs fin = [] -> d_appkey dev1 = ak -> tp s (queue_prog E D dev1 f rx now fin).
  Proof.
    intros Hf Hk. unfold queue_prog.
    set (after := Do SGetNextUnsent (fun r => match r with
        | XMsg (Some m) => Do (SSetPayload (m_data m) (m_port m) (m_ack m)) (fun _ =>
                           Do (SSetSentTime (m_created m) now (fcnt f)) (fun _ => send_prog E D dev1 rx (m_created m) now fin))
        | _ => send_prog E D dev1 rx 0 now fin end)).
    assert (A : tp s after).
    { apply tp_op; [exact I|]. intros [| |[m|]| | |]; try (now apply tp_send).
      apply tp_op; [exact I|]. intros _. apply tp_op; [exact I|]. intros _. now apply tp_send. }
    assert (B : tp s (if ack (fc f) then Do (SUpdateAckTime (fcnt f) now) (fun _ => after) else Do SResetAcks (fun _ => after)))
      by (destruct (ack (fc f)); (apply tp_op; [exact I|]); intros _; exact A).
    destruct (mtype f =? ConfirmedDataUp); [apply tp_op; [exact I|]; intros _; exact B | exact B].
  Qed.
  Theorem uplink_prog_tp f rx n now : tp false (uplink_prog E D f rx n now).
  Proof.
    unfold uplink_prog. apply tp_read. intros r Hr. destruct r as [|[dev|]| | | |]; try (now constructor).
    specialize (Hr dev eq_refl).
    destruct (negb _); [now constructor|]. destruct (stale dev f); [now constructor|].
    assert (Body : forall dev1, d_appkey dev1 = ak -> tp false (
      Do (SCreateUpstream (mk_umsg dev1 rx (frm (frame_crypt E (d_nwkskey dev1) (d_appskey dev1) f)))) (fun r =>
        match r with
        | XErr None => Do (SGetApp (d_appeui dev1)) (fun r => match r with
            | XApp true => queue_prog E D dev1 f rx now [OPub (mk_pub dev1 rx (frm (frame_crypt E (d_nwkskey dev1) (d_appskey dev1) f)))]
            | _ => Halt [] end)
        | _ => Halt [] end))).
    { intros dev1 H1. apply tp_op; [exact I|]. intros [[e|]| | | | |]; try (now constructor).
      apply tp_op; [exact I|]. intros [| | | |[|]|]; try (now constructor). now apply tp_queue. }
    destruct (d_fup dev <=? fcnt f); [|apply Body; exact Hr].
    apply tp_op; [exact I|]. intros [[[| |]|]| | | | |]; try (now constructor); try (apply Body; exact Hr).
    destruct (d_relaxed dev); [apply Body; exact Hr | now constructor].
  Qed.
  (* a join-request whose MIC does not verify under the device's AppKey: its handler reads the row and stops *)
  Theorem forged_join_tp cfg' f rx an na :
    (buffer_mic E ak (firstn 19 (rx_raw rx)) =? mic f) = false -> tp false (join_prog E D cfg' f rx an na).
  Proof.
    intros Hm. unfold join_prog. apply tp_read. intros r Hr. destruct r as [|[dev0|]| | | |]; try (now constructor).
    rewrite (Hr dev0 eq_refl), Hm. cbn [negb]. now constructor.
  Qed.
  Theorem join_prog_jpre f rx : jr_devnonce (jr f) = dn -> jpre (join_prog E D cfg f rx appnonce newaddr).
  Proof.
    intros Hdn. unfold join_prog. apply jp_read. intros r Hr. destruct r as [|[dev0|]| | | |]; try (apply jp_done; now constructor).
    destruct (negb _); [apply jp_done; now constructor|].
    apply jp_read. intros r' Hr'. destruct r' as [|[dev|]| | | |]; try (apply jp_done; now constructor).
    destruct (Hr' dev eq_refl) as [Hak Had].
    destruct (negb (d_appeui dev =? _)); [apply jp_done; now constructor|].
    destruct (_ && _); [apply jp_done; now constructor|].
    apply jp_mild; [exact I|]. intros [| | | |[|]|]; try (apply jp_done; now constructor).
    match goal with |- jpre (if _ then ?rest else _) => assert (Rest : jpre rest) end.
    { apply jp_switch.
      - unfold newsess, knew, anew, addr'. cbn. rewrite Hak, Had, Hdn. auto.
      - unfold the_ja, addr'. rewrite Had. apply tp_setja. intros _. now apply tp_send. }
    destruct (cfg_disable_nonce_check cfg); [exact Rest|].
    apply jp_mild; [exact I|]. intros [[e|]| | | | |]; try (apply jp_done; now constructor). exact Rest.
  Qed.
End Accept.

(* The statement. One join handler and any number of uplink handlers of the device, ANY frames, every schedule and length
   of run, from a state whose buffer entry is not a join-accept entry: every join-accept that leaves is the encoding, under
   the device's AppKey, of the record the join built from its AppNonce, the NetID and the address; and when one has left,
   the row holds the session keys derived from that AppNonce and DevNonce and that address. (That a conformant device
   derives the same keys and address from those octets is C04_session_agrees.) *)
Theorem accept_conveys_the_stored_session E D apps cfg jf jrx appnonce newaddr (ups : list (frame * rxpacket * nat * N)) sched fuel st r :
  ds_row st = Some r -> fb_noja st ->
  let res := interleaveN apps sched fuel st
      (join_prog E D cfg jf jrx appnonce newaddr :: map (fun u => uplink_prog E D (fst (fst (fst u))) (snd (fst (fst u))) (snd (fst u)) (snd u)) ups) [] in
  let addr := if d_addr r =? 0 then newaddr else d_addr r in
  Forall (fun raw => encode_join_accept E D (d_appkey r) JoinAccept c_MaxSupportedVersion
                       {| ja_appnonce := appnonce; ja_netid := N.land (cfg_netid cfg) 4294967295; ja_devaddr := devaddr_of_u32 addr;
                          ja_rx1droffset := 0; ja_rx2dr := 5; ja_rxdelay := 1 |} = Ok raw) (ja_raws (snd res)) /\
  (ja_raws (snd res) <> [] ->
   exists x, ds_row (fst res) = Some x /\
     d_nwkskey x = nwkskey_from_nonces E (d_appkey r) appnonce (cfg_netid cfg) (jr_devnonce (jr jf)) /\
     d_appskey x = appskey_from_nonces E (d_appkey r) appnonce (cfg_netid cfg) (jr_devnonce (jr jf)) /\
     d_addr x = addr /\ d_appkey x = d_appkey r).
Proof.
  intros Hr Hfb res addr.
  apply (interleaveN_accept E D apps r cfg appnonce newaddr (jr_devnonce (jr jf))).
  split; [exists r; split; [exact Hr | split; reflexivity]|]. split; [exact Hfb|]. split; [reflexivity|].
  split; [now apply join_prog_jpre|]. apply Forall_forall. intros p Hin. apply in_map_iff in Hin. destruct Hin as (u & <- & _). apply uplink_prog_tp.
Qed.

(* ... and with forged join-requests for the same device handled at the same time (C04): the other handlers of the pool are
   uplink handlers (any frames) or join handlers of requests whose MIC does not verify under the device's AppKey. Every
   join-accept that leaves answers the GENUINE request (it is the encoding of the record built from its AppNonce and the
   address), and when one has left the stored session is the one derived from the genuine request's DevNonce: a forged
   request, whatever the interleaving, neither is answered nor changes the keys. *)
Inductive bystander E D (r : device) : prog -> Prop :=
| by_uplink f rx n now : bystander E D r (uplink_prog E D f rx n now)
| by_forged cfg f rx an na : (buffer_mic E (d_appkey r) (firstn 19 (rx_raw rx)) =? mic f) = false -> bystander E D r (join_prog E D cfg f rx an na).

Theorem forged_joins_alongside_a_genuine_one E D apps cfg jf jrx appnonce newaddr others sched fuel st r :
  ds_row st = Some r -> fb_noja st -> Forall (bystander E D r) others ->
  let res := interleaveN apps sched fuel st (join_prog E D cfg jf jrx appnonce newaddr :: others) [] in
  let addr := if d_addr r =? 0 then newaddr else d_addr r in
  Forall (fun raw => encode_join_accept E D (d_appkey r) JoinAccept c_MaxSupportedVersion
                       {| ja_appnonce := appnonce; ja_netid := N.land (cfg_netid cfg) 4294967295; ja_devaddr := devaddr_of_u32 addr;
                          ja_rx1droffset := 0; ja_rx2dr := 5; ja_rxdelay := 1 |} = Ok raw) (ja_raws (snd res)) /\
  (ja_raws (snd res) <> [] ->
   exists x, ds_row (fst res) = Some x /\
     d_nwkskey x = nwkskey_from_nonces E (d_appkey r) appnonce (cfg_netid cfg) (jr_devnonce (jr jf)) /\
     d_appskey x = appskey_from_nonces E (d_appkey r) appnonce (cfg_netid cfg) (jr_devnonce (jr jf)) /\
     d_addr x = addr /\ d_appkey x = d_appkey r).
Proof.
  intros Hr Hfb Hoth res addr.
  apply (interleaveN_accept E D apps r cfg appnonce newaddr (jr_devnonce (jr jf))).
  split; [exists r; split; [exact Hr | split; reflexivity]|]. split; [exact Hfb|]. split; [reflexivity|].
  split; [now apply join_prog_jpre|]. eapply Forall_impl; [|exact Hoth].
  intros p [f rx n now | cfg' f rx an na Hm]; [apply uplink_prog_tp | now apply forged_join_tp].
Qed.

(* witnesses with the concrete cipher: in both runs of SessionProof / SessionDataProof one join-accept leaves, and the premises hold *)
From Lospan Require Import Base.AES Proof.SessionProof.
Example accept_witnesses :
  length (ja_raws (snd sj_result)) = 1%nat /\ length (ja_raws (snd sd_result)) = 1%nat /\ fb_noja (w_st 5 3).
Proof. vm_compute. repeat split. Qed.

(* a forged request for the witness device: same EUIs, another key *)
From Lospan Require Import Spec.RefDevice.
Definition fj_raw : list N := ref_join_request aes_enc (repeat 1 16) [9;0;0;0;0;0;0;0] [1;0;0;0;0;0;0;0] [8;0].
Definition fj_frame : frame := match decode (mk_slice fj_raw []) with Ok f => f | _ => new_phy 0 end.
Example forged_witness :
  (buffer_mic aes_enc (d_appkey (w_dev 5 3)) (firstn 19 fj_raw) =? mic fj_frame) = false /\
  (buffer_mic aes_enc (d_appkey (w_dev 5 3)) (firstn 19 sj_raw) =? mic sj_frame) = true.
Proof. vm_compute. split; reflexivity. Qed.
