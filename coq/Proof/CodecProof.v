From Lospan Require Import Base.Bytes Model.Codec Proof.BitLemmas Proof.CMACProof Proof.GatewayProof.
Open Scope N_scope.
Local Arguments N.div : simpl never.
Local Arguments N.modulo : simpl never.
Local Arguments N.mul : simpl never.
Local Arguments N.add : simpl never.

(* ---------- hex ---------- *)
Lemma unhexd_hexd_sweep : forallb (fun v => match unhexd (hexd v) with Some w => w =? v | None => false end) (nrange 16) = true.
Proof. vm_compute. reflexivity. Qed.
Lemma unhexd_hexd v : v < 16 -> unhexd (hexd v) = Some v.
Proof.
  intros H. pose proof (sweep1 _ 16 unhexd_hexd_sweep v H) as S. cbn beta in S.
  destruct (unhexd (hexd v)) as [w|]; [|discriminate]. apply N.eqb_eq in S. now subst.
Qed.
Lemma hexd_class_sweep : forallb (fun v => negb (hexd v =? 45) && negb (is_space (hexd v))) (nrange 16) = true.
Proof. vm_compute. reflexivity. Qed.
Lemma hexd_plain v : v < 16 -> hexd v <> 45 /\ is_space (hexd v) = false /\ hexd v <> 32.
Proof.
  intros H. pose proof (sweep1 _ 16 hexd_class_sweep v H) as S. cbn beta in S.
  apply andb_true_iff in S. destruct S as [A B]. apply negb_true_iff in A, B. apply N.eqb_neq in A.
  repeat split; [exact A | exact B |]. intros E. rewrite E in B. discriminate.
Qed.

Lemma hex_dec_enc l : bytes_ok l = true -> hex_dec (hex_enc l) = Some l.
Proof.
  induction l as [|b t IH]; intros H; [reflexivity|].
  apply bytes_ok_cons in H. destruct H as [Hb Ht].
  cbn [hex_enc flat_map hex_byte app]. cbn [hex_dec].
  rewrite (unhexd_hexd (b / 16)) by lia. rewrite (unhexd_hexd (b mod 16)) by lia.
  fold (hex_enc t). rewrite (IH Ht). f_equal. f_equal. lia.
Qed.

Definition plain (s : list N) : Prop := Forall (fun c => c <> 45 /\ is_space c = false /\ c <> 32) s.
Lemma hex_enc_plain l : bytes_ok l = true -> plain (hex_enc l).
Proof.
  induction l as [|b t IH]; intros H; [constructor|].
  apply bytes_ok_cons in H. destruct H as [Hb Ht].
  cbn [hex_enc flat_map hex_byte app]. constructor; [apply hexd_plain; lia|]. constructor; [apply hexd_plain; lia|].
  apply IH, Ht.
Qed.
Lemma remove_plain c s : (c = 45 \/ c = 32) -> plain s -> remove_char c s = s.
Proof.
  intros Hc. induction 1 as [|x t Hx Ht IH]; [reflexivity|]. cbn [remove_char filter].
  destruct (N.eqb_spec x c) as [E|E]; [exfalso; destruct Hc; subst; tauto|]. cbn [negb]. f_equal. exact IH.
Qed.
Lemma trim_left_plain s : plain s -> trim_left s = s.
Proof. destruct 1 as [|x t Hx Ht]; [reflexivity|]. cbn [trim_left]. destruct Hx as (_ & S & _). now rewrite S. Qed.
Lemma plain_rev s : plain s -> plain (rev s).
Proof. unfold plain. intros H. apply Forall_rev, H. Qed.
Lemma trim_plain s : plain s -> trim s = s.
Proof.
  intros H. unfold trim. rewrite (trim_left_plain s H). rewrite (trim_left_plain _ (plain_rev _ H)). apply rev_involutive.
Qed.

(* ---------- DevAddr ---------- *)
Lemma parse_hex_enc l : forall acc, bytes_ok l = true ->
  acc * 256 ^ N.of_nat (length l) + be_val l < 4294967296 ->
  parse_hex_acc (hex_enc l) acc = Some (acc * 256 ^ N.of_nat (length l) + be_val l).
Proof.
  induction l as [|b t IH]; intros acc H Hlt.
  - cbn. f_equal. unfold be_val. cbn. lia.
  - apply bytes_ok_cons in H. destruct H as [Hb Ht].
    rewrite be_val_cons in *. cbn [length] in *. rewrite Nnat.Nat2N.inj_succ, N.pow_succ_r' in *.
    set (p := 256 ^ N.of_nat (length t)) in *. assert (Hp : 1 <= p) by (subst p; apply N.lt_pred_le, N.neq_0_lt_0, N.pow_nonzero; lia).
    cbn [hex_enc flat_map hex_byte app parse_hex_acc].
    rewrite (unhexd_hexd (b / 16)) by lia. cbn zeta.
    assert (B2 : acc * 256 + b < 4294967296) by nia.
    destruct (N.leb_spec 4294967296 (acc * 16 + b / 16)) as [Hx|_]; [lia|].
    rewrite (unhexd_hexd (b mod 16)) by lia.
    replace ((acc * 16 + b / 16) * 16 + b mod 16) with (acc * 256 + b) by lia.
    destruct (N.leb_spec 4294967296 (acc * 256 + b)) as [Hx|_]; [lia|].
    fold (hex_enc t). rewrite IH; [f_equal; lia | exact Ht | lia].
Qed.

Lemma be_bytes_ok n v : bytes_ok (be_bytes n v) = true.
Proof.
  unfold be_bytes. apply bytes_ok_rev. revert v. induction n as [|n IH]; intros v; [reflexivity|].
  cbn [le_bytes]. apply bytes_ok_cons. split; [lia | apply IH].
Qed.
Lemma be_bytes_length n v : length (be_bytes n v) = n.
Proof. unfold be_bytes. rewrite rev_length. apply le_bytes_length. Qed.
Lemma be_val_be_bytes4 v : v < 4294967296 -> be_val (be_bytes 4 v) = v.
Proof. intros H. unfold be_val, be_bytes. rewrite rev_involutive. apply le_val_le_bytes. exact H. Qed.

Theorem devaddr_roundtrip a : a < 4294967296 -> devaddr_from_str (devaddr_str a) = Some a.
Proof.
  intros H. unfold devaddr_from_str, devaddr_str.
  pose proof (parse_hex_enc (be_bytes 4 a) 0 (be_bytes_ok 4 a)) as P.
  rewrite be_val_be_bytes4 in P by exact H. rewrite N.mul_0_l, N.add_0_l in P. specialize (P H).
  destruct (hex_enc (be_bytes 4 a)) eqn:E; [|exact P].
  exfalso. unfold be_bytes in E. cbn in E. discriminate.
Qed.
Corollary devaddr_str_inj a b : a < 4294967296 -> b < 4294967296 -> devaddr_str a = devaddr_str b -> a = b.
Proof.
  intros Ha Hb E. pose proof (devaddr_roundtrip a Ha) as A. rewrite E, (devaddr_roundtrip b Hb) in A. congruence.
Qed.

(* ---------- EUI ---------- *)
Theorem eui_int64_roundtrip e : e < two64 -> eui_from_int64 (eui_to_int64 e) = e.
Proof.
  unfold two64, eui_from_int64, eui_to_int64, two63, two64. intros H.
  destruct (N.ltb_spec e 9223372036854775808); lia.
Qed.
Lemma eui_int64_range e : e < two64 -> (- 9223372036854775808 <= eui_to_int64 e < 9223372036854775808)%Z.
Proof. unfold two64, eui_to_int64, two63, two64. intros H. destruct (N.ltb_spec e 9223372036854775808); lia. Qed.
Corollary eui_to_int64_inj a b : a < two64 -> b < two64 -> eui_to_int64 a = eui_to_int64 b -> a = b.
Proof. intros Ha Hb E. rewrite <- (eui_int64_roundtrip a Ha), <- (eui_int64_roundtrip b Hb). now rewrite E. Qed.

Lemma remove_dashed l : bytes_ok l = true -> remove_char 45 (dashed l) = hex_enc l.
Proof.
  induction l as [|b t IH]; intros H; [reflexivity|].
  apply bytes_ok_cons in H. destruct H as [Hb Ht].
  assert (R2 : remove_char 45 (hex_byte b) = hex_byte b).
  { apply remove_plain; [now left|]. unfold hex_byte. constructor; [apply hexd_plain; lia|]. constructor; [apply hexd_plain; lia|constructor]. }
  destruct t as [|c t'].
  - cbn [dashed hex_enc flat_map app]. rewrite app_nil_r. exact R2.
  - change (dashed (b :: c :: t')) with (hex_byte b ++ 45 :: dashed (c :: t')).
    unfold remove_char in *. rewrite filter_app. cbn [filter]. rewrite N.eqb_refl. cbn [negb].
    rewrite R2. rewrite (IH Ht). reflexivity.
Qed.

Theorem eui_str_roundtrip e : e < two64 -> eui_from_str (eui_str e) = Some e.
Proof.
  intros H. unfold eui_from_str, eui_str.
  rewrite remove_dashed by apply be_bytes_ok.
  rewrite trim_plain by (apply hex_enc_plain, be_bytes_ok).
  rewrite hex_dec_enc by apply be_bytes_ok. rewrite be_bytes_length. cbn [Nat.eqb].
  f_equal. apply be_val_be_bytes8. exact H.
Qed.

(* ---------- AES keys ---------- *)
Theorem key_roundtrip k : bytes_ok k = true -> length k = 16%nat -> key_from_str (key_str k) = Some k.
Proof.
  intros Hk Hl. unfold key_from_str, key_str.
  rewrite remove_plain; [| now right | now apply hex_enc_plain].
  rewrite hex_dec_enc by exact Hk. rewrite Hl. reflexivity.
Qed.
Corollary key_str_inj a b : bytes_ok a = true -> length a = 16%nat -> bytes_ok b = true -> length b = 16%nat ->
  key_str a = key_str b -> a = b.
Proof. intros A1 A2 B1 B2 E. pose proof (key_roundtrip a A1 A2) as R. rewrite E, (key_roundtrip b B1 B2) in R. congruence. Qed.

(* ---------- nonce ---------- *)
Theorem nonce_roundtrip n : n < 65536 -> nonce_of_col (nonce_col n) = n.
Proof. unfold nonce_of_col, nonce_col. intros H. lia. Qed.

(* ---------- base64 ---------- *)
Lemma b64_sweep : forallb (fun v => match b64v (b64c v) with Some w => (w =? v) && negb (b64c v =? 61) | None => false end) (nrange 64) = true.
Proof. vm_compute. reflexivity. Qed.
Lemma b64v_b64c v : v < 64 -> b64v (b64c v) = Some v /\ (b64c v =? 61) = false.
Proof.
  intros H. pose proof (sweep1 _ 64 b64_sweep v H) as S. cbn beta in S.
  destruct (b64v (b64c v)) as [w|]; [|discriminate]. apply andb_true_iff in S. destruct S as [A B].
  apply N.eqb_eq in A. apply negb_true_iff in B. now subst.
Qed.

Lemma list_ind3 {A} (P : list A -> Prop) :
  P [] -> (forall a, P [a]) -> (forall a b, P [a; b]) -> (forall a b c t, P t -> P (a :: b :: c :: t)) -> forall l, P l.
Proof.
  intros H0 H1 H2 H3. fix IH 1. intros [|a [|b [|c t]]]; [exact H0 | apply H1 | apply H2 | apply H3, IH].
Qed.

Theorem b64_roundtrip l : bytes_ok l = true -> b64_dec (b64_enc l) = Some l.
Proof.
  induction l as [ | a | a b | a b c t IH] using list_ind3; intros H.
  - reflexivity.
  - apply bytes_ok_cons in H. destruct H as [Ha _].
    cbn [b64_enc b64_dec].
    destruct (b64v_b64c (a / 4)) as [-> _]; [lia|]. destruct (b64v_b64c (a mod 4 * 16)) as [-> _]; [lia|].
    rewrite N.eqb_refl. cbn [andb]. f_equal. f_equal. lia.
  - apply bytes_ok_cons in H. destruct H as [Ha H]. apply bytes_ok_cons in H. destruct H as [Hb _].
    cbn [b64_enc b64_dec].
    destruct (b64v_b64c (a / 4)) as [-> _]; [lia|]. destruct (b64v_b64c (a mod 4 * 16 + b / 16)) as [-> _]; [lia|].
    destruct (b64v_b64c (b mod 16 * 4)) as [-> ->]; [lia|]. cbn [andb]. rewrite N.eqb_refl.
    f_equal. f_equal; [lia|]. f_equal. lia.
  - apply bytes_ok_cons in H. destruct H as [Ha H]. apply bytes_ok_cons in H. destruct H as [Hb H].
    apply bytes_ok_cons in H. destruct H as [Hc Ht].
    cbn [b64_enc]. cbn [b64_dec].
    destruct (b64v_b64c (a / 4)) as [-> _]; [lia|]. destruct (b64v_b64c (a mod 4 * 16 + b / 16)) as [-> _]; [lia|].
    destruct (b64v_b64c (b mod 16 * 4 + c / 64)) as [-> ->]; [lia|]. cbn [andb].
    destruct (b64v_b64c (c mod 64)) as [-> ->]; [lia|]. rewrite (IH Ht).
    f_equal. f_equal; [lia|]. f_equal; [lia|]. f_equal. lia.
Qed.
