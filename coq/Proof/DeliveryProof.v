(* C06 / C08 / C09, existence and content of the answer: whenever, after the bookkeeping of an accepted uplink, the
   device's buffer entry asks for an acknowledgement or holds payload, exactly one downlink leaves, and a conformant
   device holding the session keys reads from it the entry's type, its ACK flag, the stored downlink counter, the
   port and the first chunk of the payload. In particular the oldest unsent (or reset, i.e. unacknowledged
   confirmed) message of the queue IS transmitted on the next accepted uplink. *)
From Coq Require Import String.
From Lospan Require Import Base.Bytes Base.Outcome Model.CMAC Model.FrameTypes Model.Crypto Gen.Consts Model.MacCmd
  Model.Frame Model.Join Model.Store Model.Server Spec.RFC4493 Spec.RefDevice Proof.BitLemmas Proof.CryptoProof
  Proof.FrameEncodeProof Proof.EncodableProof Proof.LocalProof Proof.QueueProof Proof.AnswerProof Proof.DownlinkSpecProof.
From Coq Require Import ZifyNat ZifyN ZifyBool.
Ltac Zify.zify_post_hook ::= Z.div_mod_to_equations.
Open Scope N_scope.

(* the part of a payload that fits one frame at the data rate of the uplink *)
Definition chunk (datr : string) (payload : list N) : list N :=
  match max_payload datr with Some mn => firstn (N.to_nat (max_without_fopts mn)) payload | None => payload end.
(* the ACK bookkeeping of an uplink on the queue *)
Definition booked (st : dstate) (f : frame) (now : N) : dstate :=
  if ack (fc f) then l_update_ack_time st (fcnt f) now else l_reset_active_acks st.

Lemma next_unsent_ext st st' : ds_outbox st = ds_outbox st' -> l_get_next_unsent st = l_get_next_unsent st'.
Proof. unfold l_get_next_unsent. now intros ->. Qed.

(* the buffer entry after pm_queue depends on the entry and the queue before only *)
Lemma pm_queue_fb_ext st st' f now : ds_fb st = ds_fb st' -> ds_outbox st = ds_outbox st' ->
  ds_fb (fst (pm_queue st f now)) = ds_fb (fst (pm_queue st' f now)).
Proof.
  intros Hf Ho. unfold pm_queue.
  set (a3 := if mtype f =? ConfirmedDataUp then l_set_ack_flag st true else st).
  set (b3 := if mtype f =? ConfirmedDataUp then l_set_ack_flag st' true else st').
  assert (F3 : ds_fb a3 = ds_fb b3) by (unfold a3, b3, l_set_ack_flag; destruct (mtype f =? ConfirmedDataUp); cbn [ds_fb with_fbe]; now rewrite ?Hf).
  assert (O3 : ds_outbox a3 = ds_outbox b3) by (unfold a3, b3; destruct (mtype f =? ConfirmedDataUp); exact Ho).
  set (a4 := if ack (fc f) then l_update_ack_time a3 (fcnt f) now else l_reset_active_acks a3).
  set (b4 := if ack (fc f) then l_update_ack_time b3 (fcnt f) now else l_reset_active_acks b3).
  assert (F4 : ds_fb a4 = ds_fb b4) by (unfold a4, b4; destruct (ack (fc f)); exact F3).
  assert (O4 : ds_outbox a4 = ds_outbox b4).
  { unfold a4, b4, l_update_ack_time, l_reset_active_acks, upd_outbox. destruct (ack (fc f)); cbn [ds_outbox with_outbox]; now rewrite O3. }
  rewrite (next_unsent_ext a4 b4 O4). destruct (l_get_next_unsent b4) as [m|]; cbn [fst]; [|exact F4].
  unfold l_set_sent_time, upd_outbox, l_set_payload. cbn [ds_fb with_outbox with_fbe]. now rewrite F4.
Qed.

Lemma get_phy_entry st datr fd : ds_fb st = Some fd -> (fo_ack fd = true \/ fo_payload fd <> []) -> down_type (fo_mtype fd) ->
  (fo_payload fd = [] \/ port_ok (fo_port fd)) -> max_payload datr <> None ->
  exists st' p, l_get_phy st datr = (st', GetOk p) /\ po_mtype p = fo_mtype fd /\ po_ack p = fo_ack fd /\ po_port p = fo_port fd /\
    po_frm p = chunk datr (fo_payload fd) /\ (length (po_frm p) <= 230)%nat /\ ds_row st' = ds_row st.
Proof.
  intros Hfd Hwhy Ht Hp Hd. unfold l_get_phy, chunk. rewrite Hfd.
  assert (H0 : (length (fo_payload fd) =? 0)%nat && negb (fo_mtype fd =? JoinAccept) && negb (fo_ack fd) = false).
  { destruct Hwhy as [Ha | Hn]; [rewrite Ha; cbn [negb]; now rewrite andb_false_r|].
    destruct (fo_payload fd); [congruence | reflexivity]. }
  rewrite H0. destruct (max_payload datr) as [mn|] eqn:Em; [|contradiction]. pose proof (max_payload_fits _ _ Em) as Hfit.
  destruct (0 <? length (fo_payload fd))%nat eqn:E0.
  - destruct (N.to_nat (max_without_fopts mn) <? length (fo_payload fd))%nat eqn:Ex.
    + eexists. eexists. split; [reflexivity|]. cbn [po_ack po_mtype po_frm po_port ds_row with_fbe].
      repeat split; auto. rewrite firstn_length. lia.
    + apply Nat.ltb_ge in Ex. eexists. eexists. split; [reflexivity|]. cbn [po_ack po_mtype po_frm po_port ds_row with_fbe].
      repeat split; auto; [symmetry; now apply firstn_all2 | lia].
  - apply Nat.ltb_ge in E0. assert (Hnil : fo_payload fd = []) by (destruct (fo_payload fd); [reflexivity | cbn in E0; lia]).
    eexists. eexists. split; [reflexivity|]. cbn [po_ack po_mtype po_frm po_port ds_row with_fbe length]. rewrite Hnil.
    repeat split; auto; [now rewrite firstn_nil | lia].
Qed.

Section Delivery.
  Variable E D : list N -> list N -> list N.
  Hypothesis E_block : forall k b, length (E k b) = 16%nat /\ bytes_ok (E k b) = true.
  Let E_len : forall k b, length (E k b) = 16%nat := fun k b => proj1 (E_block k b).

  (* an accepted uplink whose bookkeeping leaves something to say is answered, and this is what the device reads *)
  Theorem accepted_uplink_is_answered apps st f rx n now r fd :
    ds_row st = Some r -> fb_down st -> valid_datr rx -> sendable st -> stale r f = false ->
    (forall x, In x (ds_inbox st) -> u_ts x <> rx_ts rx) -> has_app apps (d_appeui r) = true ->
    d_addr r < 4294967296 -> d_fdn r < 65536 ->
    ds_fb (fst (pm_queue st f now)) = Some fd -> (fo_ack fd = true \/ fo_payload fd <> []) ->
    exists dl, downs (snd (l_uplink E D apps st f rx n now)) = [dl] /\ dl_eui dl = d_eui r /\
      ref_on_downlink E (d_nwkskey r) (d_appskey r) (d_addr r) (dl_raw dl)
      = Some (fo_mtype fd, fo_ack fd, d_fdn r,
              match chunk (r_datr (rx_radio rx)) (fo_payload fd) with [] => None | _ => Some (fo_port fd) end,
              chunk (r_datr (rx_radio rx)) (fo_payload fd)).
  Proof.
    intros Hr Hfb Hd Hsend Hs Hts Happ Haddr Hfdn Hfd Hwhy. unfold l_uplink. rewrite Hr. unfold process_message. rewrite stale_load, Hs.
    destruct (pm_counter st (load st r) f n) as [[st1 dev1]|] eqn:Ec.
    2:{ exfalso. unfold pm_counter in Ec. cbn [load d_fup] in Ec. destruct (d_fup r <=? fcnt f) eqn:Ecmp; [|discriminate].
        unfold l_advance_fup in Ec. rewrite Hr, Ecmp in Ec. cbn [load d_nwkskey] in Ec. rewrite keq_refl in Ec. discriminate. }
    destruct (pm_counter_spec st (load st r) f n st1 dev1 r Hr eq_refl eq_refl eq_refl eq_refl Ec)
      as (r1 & R1 & S1 & Fd1 & Eu1 & Kn1 & Ka1 & Ad1 & I1 & O1 & B1 & N1 & Hc).
    cbn [load d_eui d_nwkskey d_appskey d_addr d_appeui d_fdn] in *.
    assert (Hae : d_appeui dev1 = d_appeui r).
    { unfold pm_counter in Ec. cbn [load d_fup d_fdn d_keywarn] in Ec. destruct (d_fup r <=? fcnt f).
      - destruct (l_advance_fup _ _ _ _ _) as [x [[]|]]; cbn [load d_relaxed] in Ec; try discriminate.
        + destruct (d_relaxed r); [|discriminate]. injection Ec as _ <-. reflexivity.
        + injection Ec as _ <-. reflexivity.
      - injection Ec as _ <-. reflexivity. }
    assert (Hfd1 : d_fdn r1 = d_fdn r) by (destruct Hc as [(_ & _ & _ & C4)|(_ & _ & C3)]; [exact C4 | now subst]).
    unfold l_create_upstream. cbn [mk_umsg u_ts]. rewrite I1.
    replace (existsb (fun x => u_ts x =? rx_ts rx) (ds_inbox st)) with false.
    2:{ symmetry. apply not_true_is_false. intros He. apply existsb_exists in He. destruct He as (x & Hx & Ex).
        apply N.eqb_eq in Ex. exact (Hts x Hx Ex). }
    rewrite Hae, Happ. cbn [negb]. cbv zeta.
    match goal with |- context [pm_queue ?s f now] => set (st2 := s) end.
    assert (Hfd2 : ds_fb (fst (pm_queue st2 f now)) = Some fd).
    { rewrite <- Hfd. apply pm_queue_fb_ext; unfold st2; cbn [ds_fb ds_outbox with_inbox]; assumption. }
    assert (Hfb2 : fb_down st2) by (unfold fb_down, st2 in *; cbn [ds_fb with_inbox]; now rewrite B1).
    assert (Hsend2 : sendable st2) by (unfold sendable, st2 in *; cbn [ds_fb ds_outbox with_inbox]; now rewrite B1, O1).
    destruct (pm_queue_props st2 f now) as (Q1 & _ & _ & Q4).
    pose proof (sendable_queue st2 f now Hsend2) as Sq. pose proof (Q4 Hfb2) as Fq.
    set (q := pm_queue st2 f now) in *.
    assert (Hty : down_type (fo_mtype fd)) by (unfold fb_down in Fq; now rewrite Hfd2 in Fq).
    assert (Hport : fo_payload fd = [] \/ port_ok (fo_port fd)) by (destruct Sq as [Sq _]; now rewrite Hfd2 in Sq).
    destruct (get_phy_entry (fst q) (r_datr (rx_radio rx)) fd Hfd2 Hwhy Hty Hport Hd) as (st5 & p & Eg & Pm & Pa & Pp & Pf & Pl & R5).
    unfold send_for. rewrite Eg. rewrite <- Pm in Hty. destruct (down_type_not_ja _ Hty) as [-> ->].
    assert (Pport : po_frm p = [] \/ port_ok (po_port p)).
    { destruct Hport as [Hn|Hp]; [left; rewrite Pf, Hn; unfold chunk; destruct (max_payload _); [apply firstn_nil | reflexivity] | right; now rewrite Pp]. }
    unfold encoder_data.
    destruct (encode_downlink_ok dev1 p 0 Hty Pport Pl) as [b0 T]. rewrite T.
    assert (Hrow5 : ds_row st5 = Some r1) by (rewrite R5, Q1; unfold st2; cbn [ds_row with_inbox]; exact R1).
    assert (Hk5 : d_nwkskey r1 = d_nwkskey dev1) by (destruct S1 as (_ & _ & _ & _ & Sk & _); congruence).
    unfold l_next_fdn. rewrite Hrow5, Hk5, keq_refl. cbn [negb].
    destruct (trial_decides E E_len dev1 p b0 (d_nwkskey dev1) (d_appskey dev1) (d_fdn r1) T) as [buf Em]. rewrite Em.
    pose proof (encode_message_length E D _ _ _ _ Em) as L.
    replace (length buf =? 0)%nat with false by (symmetry; apply Nat.eqb_neq; lia).
    cbn [fst snd]. rewrite downs_app. cbn [downs flat_map app].
    eexists. split; [reflexivity|]. cbn [dl_raw dl_eui]. split; [exact Eu1|].
    rewrite Kn1, Ka1, Hfd1 in Em.
    assert (Ad : d_addr dev1 < 4294967296) by (rewrite Ad1; exact Haddr).
    pose proof (downlink_is_read_by_the_reference_device E D E_block (d_nwkskey r) (d_appskey r) dev1 p (d_fdn r) buf Hty Hfdn Ad Pport Pl Em) as R.
    rewrite Ad1, Pm, Pa, Pp, Pf in R. exact R.
  Qed.

  (* ---- the oldest unsent message of the queue is transmitted by the next accepted uplink ---- *)
  Definition ack_pending (st : dstate) (f : frame) : bool :=
    (mtype f =? ConfirmedDataUp) || match ds_fb st with Some fd => fo_ack fd | None => false end.

  Lemma pm_queue_loaded st f now m : l_get_next_unsent (booked st f now) = Some m ->
    exists fd, ds_fb (fst (pm_queue st f now)) = Some fd /\
      fo_mtype fd = (if m_ack m then ConfirmedDataDown else UnconfirmedDataDown) /\ fo_ack fd = ack_pending st f /\
      fo_port fd = m_port m /\ fo_payload fd = m_data m.
  Proof.
    intros Hn. unfold pm_queue.
    set (st3 := if mtype f =? ConfirmedDataUp then l_set_ack_flag st true else st).
    set (st4 := if ack (fc f) then l_update_ack_time st3 (fcnt f) now else l_reset_active_acks st3).
    assert (O4 : ds_outbox st4 = ds_outbox (booked st f now)).
    { unfold st4, booked, st3, l_update_ack_time, l_reset_active_acks, upd_outbox. destruct (ack (fc f)), (mtype f =? ConfirmedDataUp); reflexivity. }
    rewrite (next_unsent_ext st4 _ O4), Hn. cbn [fst]. unfold l_set_sent_time, upd_outbox, l_set_payload. cbn [ds_fb with_outbox with_fbe].
    eexists. split; [reflexivity|]. cbn [fo_mtype fo_ack fo_port fo_payload]. repeat split.
    unfold st4, st3, ack_pending, l_update_ack_time, l_reset_active_acks, upd_outbox, l_set_ack_flag.
    destruct (ack (fc f)), (mtype f =? ConfirmedDataUp); cbn [ds_fb with_outbox with_fbe orb]; try reflexivity; destruct (ds_fb st); reflexivity.
  Qed.

  Lemma max_payload_positive datr mn : max_payload datr = Some mn -> 0 < max_without_fopts mn.
  Proof.
    unfold max_payload. destruct (assoc_str eu868_datr datr) as [dr|]; [|discriminate].
    unfold eu868_payload. cbn [assoc_n].
    repeat (destruct (_ =? dr); [intros [= <-]; vm_compute; reflexivity|]). discriminate.
  Qed.
  Lemma chunk_nonempty datr payload : max_payload datr <> None -> payload <> [] -> chunk datr payload <> [].
  Proof.
    intros Hd Hp. unfold chunk. destruct (max_payload datr) as [mn|] eqn:Em; [|contradiction].
    pose proof (max_payload_positive _ _ Em) as Hpos. destruct payload as [|x t]; [congruence|].
    destruct (N.to_nat (max_without_fopts mn)) eqn:En; [lia|]. discriminate.
  Qed.

  Theorem queued_message_is_transmitted apps st f rx n now r m :
    ds_row st = Some r -> fb_down st -> valid_datr rx -> sendable st -> stale r f = false ->
    (forall x, In x (ds_inbox st) -> u_ts x <> rx_ts rx) -> has_app apps (d_appeui r) = true ->
    d_addr r < 4294967296 -> d_fdn r < 65536 ->
    l_get_next_unsent (booked st f now) = Some m -> m_data m <> [] ->
    exists dl, downs (snd (l_uplink E D apps st f rx n now)) = [dl] /\ dl_eui dl = d_eui r /\
      ref_on_downlink E (d_nwkskey r) (d_appskey r) (d_addr r) (dl_raw dl)
      = Some ((if m_ack m then ConfirmedDataDown else UnconfirmedDataDown), ack_pending st f, d_fdn r, Some (m_port m),
              chunk (r_datr (rx_radio rx)) (m_data m)).
  Proof.
    intros Hr Hfb Hd Hsend Hs Hts Happ Haddr Hfdn Hn Hdata.
    destruct (pm_queue_loaded st f now m Hn) as (fd & Hfd & F1 & F2 & F3 & F4).
    destruct (accepted_uplink_is_answered apps st f rx n now r fd Hr Hfb Hd Hsend Hs Hts Happ Haddr Hfdn Hfd) as (dl & H1 & H2 & H3).
    { right. now rewrite F4. }
    exists dl. split; [exact H1|]. split; [exact H2|]. rewrite H3, F1, F2, F3, F4.
    pose proof (chunk_nonempty (r_datr (rx_radio rx)) (m_data m) Hd Hdata) as Hc.
    destruct (chunk (r_datr (rx_radio rx)) (m_data m)); [congruence | reflexivity].
  Qed.
End Delivery.
