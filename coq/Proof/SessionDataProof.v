(* Downlink counters across a re-join, for EVERY schedule: one join handler and any number of uplink handlers (each with
   its scheduler and encoder steps) of frames of the session the device is leaving, interleaved operation by operation
   and cut anywhere. The data frames that leave carry pairwise different counters, all taken from the old session's
   range - before the join stores the new keys the handlers reserve them with the session-bound fetch-and-increment;
   afterwards no reservation of an old-session handler finds the row, and a handler that already holds a counter
   still sends its one frame with it. Together with SessionProof (the new session's counters stay zero) this is the
   clause "(session key, downlink counter) is unique per frame" across a session boundary. *)
From Coq Require Import String Permutation.
From Lospan Require Import Base.Bytes Base.Outcome Model.CMAC Model.FrameTypes Model.Crypto Gen.Consts Model.MacCmd
  Model.Frame Model.Join Model.Store Model.Server Model.Steps Proof.BitLemmas Proof.CMACProof Proof.EncodableProof
  Proof.LocalProof Proof.StepsProof Proof.SchedProof Proof.SchedDataProof.
Open Scope N_scope.

(* data frames are handed over with the one-second delay, join-accepts with five (Proof/DelayProof.v) *)
Definition is_data (d : downlink) : bool := dl_rx1delay d =? 1.
Definition ddowns (outs : list out) : list downlink := filter is_data (downs outs).
Definition dcounters (outs : list out) : list N := map down_fcnt (ddowns outs).
Lemma ddowns_app a b : ddowns (a ++ b) = ddowns a ++ ddowns b.
Proof. unfold ddowns. now rewrite downs_app, filter_app. Qed.
Lemma dcounters_app a b : dcounters (a ++ b) = dcounters a ++ dcounters b.
Proof. unfold dcounters. now rewrite ddowns_app, map_app. Qed.

Lemma dcounters_emit d : is_data d = true -> dcounters [ODown d] = [down_fcnt d].
Proof. intros H. unfold dcounters, ddowns, downs. cbn. now rewrite H. Qed.

Section Rejoin.
  Variable E D : list N -> list N -> list N.
  Variable apps : list N.
  Variable r0 : device.       (* the row before any handler ran *)
  Variable knew : list N.     (* the network session key the join derives *)
  Variable Bnd : N.
  Hypothesis HB : Bnd <= 65536.

  (* ---- after the new session is stored ---- *)
  Definition mildB (o : sop) : Prop :=
    match o with
    | SNextDn _ | SUpdateDevice _ => False
    | SEmit d _ => is_data d = false
    | _ => True
    end.
  Inductive phB : phase -> prog -> Prop :=
  | B_halt s o : downs o = [] -> phB s (Halt o)
  | B_op s o k : mildB o -> (forall r, phB s (k r)) -> phB s (Do o k)
  | B_next key k : key <> knew -> phB Post (k (XCnt None)) -> phB Pre (Do (SNextDn key) k)
  | B_emit cn d c' k : is_data d = true -> down_fcnt d = cn -> (forall r, phB Post (k r)) -> phB (Hold cn) (Do (SEmit d c') k).

  (* ---- before: the typing of SchedDataProof, with what it promises for afterwards ---- *)
  Inductive phA : phase -> prog -> Prop :=
  | A_halt s o : downs o = [] -> phA s (Halt o)
  | A_op s o k : plain o -> (forall r, phB s (k r)) -> (forall r, res_ok o r -> phA s (k r)) -> phA s (Do o k)
  | A_next key k : key <> knew -> (forall cn, cn < 65536 -> phA (Hold cn) (k (XCnt (Some cn)))) ->
                   phA Post (k (XCnt None)) -> phB Post (k (XCnt None)) -> phA Pre (Do (SNextDn key) k)
  | A_emit cn d c' k : is_data d = true -> down_fcnt d = cn -> (forall r, phA Post (k r)) -> (forall r, phB Post (k r)) ->
                       phA (Hold cn) (Do (SEmit d c') k).
  Lemma plain_mildB o : plain o -> mildB o.
  Proof. intros [Hb | [[m ->] | (key & a & kw & -> & _)]]; [destruct o; try discriminate Hb; exact I | exact I | exact I]. Qed.
  Lemma phA_phB s p : phA s p -> phB s p.
  Proof.
    destruct 1 as [s o H | s o k Hp HB' _ | key k Hk _ _ HB' | cn d c' k Hd Hc _ HB'].
    - now apply B_halt.
    - apply B_op; [now apply plain_mildB | exact HB'].
    - now apply B_next.
    - now apply B_emit.
  Qed.

  (* the join handler until it stores the new session *)
  Definition jmild (o : sop) : Prop := match o with SGetApp _ | SAddNonce _ => True | _ => False end.
  Inductive jph : prog -> Prop :=
  | J_done p : phA Post p -> jph p
  | J_read k : (forall r, (forall dev, r = XRow (Some dev) -> d_appkey dev = d_appkey r0 /\ d_nwkskey dev = d_nwkskey r0) -> jph (k r)) -> jph (Do SGetRow k)
  | J_mild o k : jmild o -> (forall r, jph (k r)) -> jph (Do o k)
  | J_switch d k : d_nwkskey d = knew -> (forall r, phB Pre (k r)) -> jph (Do (SUpdateDevice d) k).

  (* ---- the invariants ---- *)
  (* a pool of uplink handlers before the switch (SchedDataProof.dinv, data frames only) *)
  Definition ninv (st : dstate) (ps : list prog) (acc : list out) : Prop :=
    fb_down st /\
    exists r' G phs, ds_row st = Some r' /\ same_session r0 r' /\
      d_fdn r' = G mod 65536 /\ d_fdn r0 <= G /\ G + N.of_nat (npre phs) <= Bnd /\
      Forall2 phA phs ps /\
      NoDup (dcounters acc ++ holds phs) /\ Forall (fun x => d_fdn r0 <= x < G) (dcounters acc ++ holds phs).
  (* ... with the join handler (first in the pool) still on its way to the switch *)
  Definition ainv (st : dstate) (pj : prog) (ps : list prog) (acc : list out) : Prop := ninv st ps acc /\ jph pj.
  Definition keyB (st : dstate) : Prop := forall r, ds_row st = Some r -> d_nwkskey r = knew.
  Definition binv (st : dstate) (ps : list prog) (acc : list out) : Prop :=
    keyB st /\
    exists G phs, G <= Bnd /\ Forall2 phB phs ps /\
      NoDup (dcounters acc ++ holds phs) /\ Forall (fun x => d_fdn r0 <= x < G) (dcounters acc ++ holds phs).
  Definition rpost (outs : list out) : Prop :=
    NoDup (dcounters outs) /\ Forall (fun x => d_fdn r0 <= x < Bnd) (dcounters outs).

  Lemma binv_post st ps acc : binv st ps acc -> rpost acc.
  Proof.
    intros (_ & G & phs & HG & _ & Hnd & Hall). split; [eapply NoDup_app_l; exact Hnd|].
    apply Forall_app in Hall. destruct Hall as [Hall _]. eapply Forall_impl; [|exact Hall]. cbn beta. intros x Hx. lia.
  Qed.
  Lemma ninv_post st ps acc : ninv st ps acc -> rpost acc.
  Proof.
    intros (_ & r' & G & phs & _ & _ & _ & _ & HG & _ & Hnd & Hall). split; [eapply NoDup_app_l; exact Hnd|].
    apply Forall_app in Hall. destruct Hall as [Hall _]. eapply Forall_impl; [|exact Hall]. cbn beta. intros x Hx. lia.
  Qed.
  Lemma ninv_ext st st' ps acc : ds_row st' = ds_row st -> ds_fb st' = ds_fb st -> ninv st ps acc -> ninv st' ps acc.
  Proof. intros Hr Hf (Hfb & X). split; [unfold fb_down in *; now rewrite Hf|]. now rewrite Hr. Qed.

  Definition quiet_halt (p : prog) : Prop := match p with Halt o => downs o = [] | Do _ _ => True end.
  Lemma phB_halt s p : phB s p -> quiet_halt p. Proof. destruct 1; cbn; auto. Qed.
  Lemma phA_halt s p : phA s p -> quiet_halt p. Proof. destruct 1; cbn; auto. Qed.
  Lemma jph_halt p : jph p -> quiet_halt p. Proof. destruct 1 as [p H| | |]; cbn; auto. eapply phA_halt; exact H. Qed.
  Lemma final_outs_quiet' ps : Forall quiet_halt ps -> final_outs ps = [] \/ downs (final_outs ps) = [].
  Proof.
    intros H. right. induction H as [|p t Hp _ IH]; [reflexivity|]. unfold final_outs in *. cbn [flat_map]. rewrite downs_app, IH, app_nil_r.
    destruct p; [exact Hp | reflexivity].
  Qed.
  Lemma rpost_final acc ps : Forall quiet_halt ps -> rpost acc -> rpost (acc ++ final_outs ps).
  Proof.
    intros Hq Hp. destruct (final_outs_quiet' ps Hq) as [-> | Hd]; [now rewrite app_nil_r|].
    assert (Eq : dcounters (acc ++ final_outs ps) = dcounters acc).
    { rewrite dcounters_app. unfold dcounters at 2, ddowns. rewrite Hd. cbn [filter map]. apply app_nil_r. }
    unfold rpost. rewrite Eq. exact Hp.
  Qed.
  Lemma Forall2_quiet (R : phase -> prog -> Prop) phs ps : (forall s p, R s p -> quiet_halt p) -> Forall2 R phs ps -> Forall quiet_halt ps.
  Proof. intros HR H. induction H; constructor; eauto. Qed.

  (* a mild operation after the switch: the row keeps the new key, no data frame leaves *)
  Lemma mildB_exec st o : mildB o -> keyB st ->
    keyB (fst (fst (exec apps st o))) /\ dcounters (snd (exec apps st o)) = [].
  Proof.
    intros M H. destruct o; cbn [mildB] in M; try contradiction; cbn [exec];
      try (split; [exact H | reflexivity]).
    - unfold l_update_device_state. destruct (ds_row st) as [r1|] eqn:Er; cbn [fst snd]; [|auto].
      split; [|reflexivity]. intros r. cbn [ds_row with_row]. intros [= <-]. cbn. exact (H r1 Er).
    - unfold l_advance_fup. destruct (ds_row st) as [r1|] eqn:Er; cbn [fst snd]; [|auto].
      destruct (_ && _); cbn [fst snd]; [|auto]. split; [|reflexivity]. intros r. cbn [ds_row with_row]. intros [= <-]. cbn. exact (H r1 Er).
    - pose proof (row_create_upstream st m) as R. destruct (l_create_upstream st m) as [st' e]. cbn [fst snd] in *.
      split; [|reflexivity]. unfold keyB. now rewrite R.
    - pose proof (row_get_phy st datr) as R. destruct (l_get_phy st datr) as [st' g]. cbn [fst snd] in *.
      split; [|reflexivity]. unfold keyB. now rewrite R.
    - split; [exact H|]. unfold dcounters, ddowns, downs. cbn [flat_map app filter snd]. now rewrite M.
    - unfold l_add_nonce. destruct (existsb _ _); cbn [fst snd]; auto.
  Qed.

  Lemma replace_cons_0 p q (t : list prog) : replace_nth 0 p (q :: t) = p :: t. Proof. reflexivity. Qed.
  Lemma replace_cons_S i p q (t : list prog) : replace_nth (S i) p (q :: t) = q :: replace_nth i p t. Proof. reflexivity. Qed.

  (* one step after the switch *)
  Lemma binv_step st ps acc i o k :
    binv st ps acc -> nth_error ps i = Some (Do o k) ->
    let '(st', r, e) := exec apps st o in
    forall b : bool, binv st' (replace_nth i (if b then Halt [] else k r) ps) (acc ++ e).
  Proof.
    intros (Hk & G & phs & HG & HF2 & Hnd & Hall) Ei.
    destruct (Forall2_nth phB i phs ps (Do o k) HF2 Ei) as (s & Hsi & Hph).
    inversion Hph as [| s0 o' k' Hm Hkk | key k' Hkey Hnone | cn d c' k' Hd Hcn Hkk]; subst.
    - pose proof (mildB_exec st o Hm Hk) as X. destruct (exec apps st o) as [[st' r] e]. cbn [fst snd] in X. destruct X as [K' De].
      intros b. split; [exact K'|]. exists G, phs. split; [exact HG|]. rewrite dcounters_app, De, app_nil_r, replace_nth_upd.
      split; [|split; assumption]. rewrite <- (upd_same i phs s Hsi). apply Forall2_upd; [exact HF2|]. destruct b; [now constructor | apply Hkk].
    - (* a reservation of another session: the row is not found *)
      cbn [exec]. assert (U : l_next_fdn st key = (st, None)).
      { unfold l_next_fdn. destruct (ds_row st) as [r1|] eqn:Er; [|reflexivity].
        destruct (bytes_eqb (d_nwkskey r1) key) eqn:Eb; [|reflexivity]. apply bytes_eqb_spec in Eb. rewrite (Hk r1 Er) in Eb. congruence. }
      rewrite U. intros b. split; [exact Hk|]. exists G, (upd i Post phs). split; [exact HG|]. rewrite app_nil_r, replace_nth_upd.
      pose proof (holds_upd i phs Pre Post Hsi) as Hperm. cbn [hold1 app] in Hperm.
      split; [apply Forall2_upd; [exact HF2|]; destruct b; [now constructor | exact Hnone]|].
      assert (P2 : Permutation (dcounters acc ++ holds phs) (dcounters acc ++ holds (upd i Post phs))) by (apply Permutation_app_head; exact Hperm).
      split; [eapply Permutation_NoDup; [exact P2 | exact Hnd] | eapply Perm_Forall; [exact P2 | exact Hall]].
    - (* a handler that reserved its counter before the switch sends its frame *)
      cbn [exec]. intros b. split; [exact Hk|]. exists G, (upd i Post phs). split; [exact HG|]. rewrite replace_nth_upd.
      pose proof (holds_upd i phs (Hold (down_fcnt d)) Post Hsi) as Hperm. cbn [hold1 app] in Hperm.
      split; [apply Forall2_upd; [exact HF2|]; destruct b; [now constructor | apply Hkk]|].
      assert (P2 : Permutation (dcounters acc ++ holds phs) (dcounters (acc ++ [ODown d]) ++ holds (upd i Post phs))).
      { rewrite dcounters_app, (dcounters_emit d Hd). rewrite <- app_assoc. apply Permutation_app_head. exact Hperm. }
      split; [eapply Permutation_NoDup; [exact P2 | exact Hnd] | eapply Perm_Forall; [exact P2 | exact Hall]].
  Qed.

  Theorem interleaveN_after : forall fuel sched st ps acc, binv st ps acc -> rpost (snd (interleaveN apps sched fuel st ps acc)).
  Proof.
    induction fuel as [|fuel IH]; intros sched st ps acc Hinv; cbn [interleaveN]; [cbn [snd]; eapply binv_post; exact Hinv|].
    destruct (choose (hd 0%nat sched) ps) as [i|].
    2:{ cbn [snd]. apply rpost_final; [|eapply binv_post; exact Hinv]. destruct Hinv as (_ & G & phs & _ & HF2 & _). eapply Forall2_quiet; [apply phB_halt | exact HF2]. }
    destruct (nth_error ps i) as [[o0 | o k]|] eqn:Ei; try (cbn [snd]; eapply binv_post; exact Hinv).
    pose proof (binv_step st ps acc i o k Hinv Ei) as X. destruct (exec apps st o) as [[st' r] e]. apply IH. apply X.
  Qed.

  (* one step of an uplink handler before the switch *)
  Lemma ninv_step st ps acc i o k :
    ninv st ps acc -> nth_error ps i = Some (Do o k) ->
    let '(st', r, e) := exec apps st o in
    forall b : bool, ninv st' (replace_nth i (if b then Halt [] else k r) ps) (acc ++ e).
  Proof.
    intros (Hfb & r' & G & phs & Hr & Hs & Hd & HG0 & HG & HF2 & Hnd & Hall) Ei.
    destruct (Forall2_nth phA i phs ps (Do o k) HF2 Ei) as (s & Hsi & Hph).
    inversion Hph as [| s0 o' k' Hpl _ Hkk | key k' Hkey Hsome Hnone _ | cn d c' k' Hd' Hcn Hkk _]; subst.
    - pose proof (plain_exec E D apps Bnd HB st o r' Hpl Hfb Hr) as X. destruct (exec apps st o) as [[st' r] e].
      destruct X as (-> & Hres & F' & r'' & R'' & S'' & U'' & D''). intros b.
      split; [exact F'|]. exists r'', G, phs. rewrite app_nil_r, replace_nth_upd.
      split; [exact R''|]. split; [eapply same_session_trans; eassumption|]. split; [congruence|]. split; [exact HG0|]. split; [exact HG|].
      split; [|split; assumption].
      rewrite <- (upd_same i phs s Hsi). apply Forall2_upd; [exact HF2|]. destruct b; [now constructor | now apply Hkk].
    - pose proof (npre_pos E D apps Bnd HB i phs Hsi) as Hpos.
      assert (HGlt : G < 65536) by lia.
      cbn [exec]. destruct (l_next_fdn st key) as [st' [cn|]] eqn:U.
      2:{ apply next_none in U. destruct U as [-> _]. intros b.
          pose proof (npre_upd E D apps i phs Pre Post Hsi) as Hn. cbn [pre1] in Hn.
          pose proof (holds_upd i phs Pre Post Hsi) as Hperm. cbn [hold1 app] in Hperm.
          split; [exact Hfb|]. exists r', G, (upd i Post phs). rewrite app_nil_r, replace_nth_upd.
          split; [exact Hr|]. split; [exact Hs|]. split; [exact Hd|]. split; [exact HG0|]. split; [lia|].
          split; [apply Forall2_upd; [exact HF2|]; destruct b; [now constructor | exact Hnone]|].
          assert (P2 : Permutation (dcounters acc ++ holds phs) (dcounters acc ++ holds (upd i Post phs))) by (apply Permutation_app_head; exact Hperm).
          split; [eapply Permutation_NoDup; [exact P2 | exact Hnd] | eapply Perm_Forall; [exact P2 | exact Hall]]. }
      apply next_row in U. destruct U as (rr & R0 & Hcn & R1 & R2 & R3 & R4 & R5). rewrite Hr in R0. injection R0 as <-.
      rewrite Hd, N.mod_small in Hcn by exact HGlt. subst cn. intros b.
      pose proof (npre_upd E D apps i phs Pre (Hold G) Hsi) as Hn. cbn [pre1] in Hn.
      pose proof (holds_upd i phs Pre (Hold G) Hsi) as Hperm. cbn [hold1 app] in Hperm.
      split; [unfold fb_down in *; now rewrite R5|].
      eexists. exists (G + 1), (upd i (Hold G) phs). rewrite app_nil_r, replace_nth_upd.
      split; [exact R1|]. cbn [d_fup d_fdn]. split; [unfold same_session in *; cbn; tauto|].
      split; [rewrite Hd, (N.mod_small G) by exact HGlt; reflexivity|]. split; [lia|]. split; [lia|].
      split; [apply Forall2_upd; [exact HF2|]; destruct b; [now constructor | now apply Hsome]|].
      assert (P2 : Permutation (G :: dcounters acc ++ holds phs) (dcounters acc ++ holds (upd i (Hold G) phs))).
      { etransitivity; [apply Permutation_middle|]. apply Permutation_app_head. exact Hperm. }
      split.
      + eapply Permutation_NoDup; [exact P2|]. constructor; [|exact Hnd].
        intros Hin. rewrite Forall_forall in Hall. specialize (Hall G Hin). lia.
      + eapply Perm_Forall; [exact P2|]. constructor; [lia|]. eapply Forall_impl; [|exact Hall]. cbn beta. intros x Hx. lia.
    - cbn [exec]. intros b.
      pose proof (npre_upd E D apps i phs (Hold (down_fcnt d)) Post Hsi) as Hn. cbn [pre1] in Hn.
      pose proof (holds_upd i phs (Hold (down_fcnt d)) Post Hsi) as Hperm. cbn [hold1 app] in Hperm.
      split; [exact Hfb|]. exists r', G, (upd i Post phs). rewrite replace_nth_upd.
      split; [exact Hr|]. split; [exact Hs|]. split; [exact Hd|]. split; [exact HG0|]. split; [lia|].
      split; [apply Forall2_upd; [exact HF2|]; destruct b; [now constructor | apply Hkk]|].
      assert (P2 : Permutation (dcounters acc ++ holds phs) (dcounters (acc ++ [ODown d]) ++ holds (upd i Post phs))).
      { rewrite dcounters_app, (dcounters_emit d Hd'). rewrite <- app_assoc. apply Permutation_app_head. exact Hperm. }
      split; [eapply Permutation_NoDup; [exact P2 | exact Hnd] | eapply Perm_Forall; [exact P2 | exact Hall]].
  Qed.
  Lemma ninv_quiet st ps acc : ninv st ps acc -> Forall quiet_halt ps.
  Proof. intros (_ & r' & G & phs & _ & _ & _ & _ & _ & HF2 & _). eapply Forall2_quiet; [apply phA_halt | exact HF2]. Qed.

  (* no join (left) in the pool *)
  Theorem interleaveN_nojoin : forall fuel sched st ps acc, ninv st ps acc -> rpost (snd (interleaveN apps sched fuel st ps acc)).
  Proof.
    induction fuel as [|fuel IH]; intros sched st ps acc Hinv; cbn [interleaveN]; [cbn [snd]; eapply ninv_post; exact Hinv|].
    destruct (choose (hd 0%nat sched) ps) as [i|]; [|cbn [snd]; apply rpost_final; [eapply ninv_quiet; exact Hinv | eapply ninv_post; exact Hinv]].
    destruct (nth_error ps i) as [[o0 | o k]|] eqn:Ei; try (cbn [snd]; eapply ninv_post; exact Hinv).
    pose proof (ninv_step st ps acc i o k Hinv Ei) as X. destruct (exec apps st o) as [[st' r] e]. apply IH. apply X.
  Qed.

  (* a handler whose work with the session is over joins the pool of uplink handlers *)
  Lemma ninv_cons st p ps acc : phA Post p -> ninv st ps acc -> ninv st (p :: ps) acc.
  Proof.
    intros HP (Hfb & r' & G & phs & Hr & Hs & Hd & HG0 & HG & HF2 & Hnd & Hall). split; [exact Hfb|].
    exists r', G, (Post :: phs). split; [exact Hr|]. split; [exact Hs|]. split; [exact Hd|]. split; [exact HG0|].
    split; [unfold npre, list_sum in *; cbn [map fold_right pre1]; exact HG|].
    split; [constructor; [exact HP | exact HF2]|]. cbn [holds flat_map hold1 app]. split; assumption.
  Qed.

  Theorem interleaveN_rejoin : forall fuel sched st pj ps acc, ainv st pj ps acc ->
    rpost (snd (interleaveN apps sched fuel st (pj :: ps) acc)).
  Proof.
    induction fuel as [|fuel IH]; intros sched st pj ps acc [Hn Hj]; [cbn [interleaveN snd]; eapply ninv_post; exact Hn|].
    (* a join handler that is done is one more handler of the pool *)
    destruct Hj as [p HP | k Hrd | o k Hm Hkk | d k Hkey Hkk].
    { apply interleaveN_nojoin. now apply ninv_cons. }
    all: cbn [interleaveN].
    all: match goal with |- context [choose ?w (?pj :: ?pss)] => destruct (choose w (pj :: pss)) as [i|] eqn:Ec end.
    all: try (cbn [snd]; apply rpost_final; [constructor; [exact I | eapply ninv_quiet; exact Hn] | eapply ninv_post; exact Hn]).
    all: destruct i as [|i]; cbn [nth_error].
    - (* the join handler reads the row: it is still in the old session *)
      cbn [exec]. rewrite replace_cons_0. apply IH. split; [rewrite app_nil_r; exact Hn|].
      destruct (_ && _); [apply J_done; now constructor|]. apply Hrd. intros dev Hdv.
      destruct Hn as (_ & r' & G & phs & Hr & Hs & _). rewrite Hr in Hdv. injection Hdv as <-. cbn.
      destruct Hs as (_ & _ & S3 & _ & S5 & _). auto.
    - (* an uplink handler *)
      destruct (nth_error ps i) as [[o0 | o' k']|] eqn:Ei; try (cbn [snd]; eapply ninv_post; exact Hn).
      pose proof (ninv_step st ps acc i o' k' Hn Ei) as X. destruct (exec apps st o') as [[st' r] e]. rewrite replace_cons_S.
      apply IH. split; [apply X | now apply J_read].
    - (* the join handler looks up the application or records the nonce *)
      assert (X : ds_row (fst (fst (exec apps st o))) = ds_row st /\ ds_fb (fst (fst (exec apps st o))) = ds_fb st /\ snd (exec apps st o) = []).
      { destruct o; cbn [jmild] in Hm; try contradiction; cbn [exec]; [auto|]. unfold l_add_nonce. destruct (existsb _ _); cbn; auto. }
      destruct (exec apps st o) as [[st' r] e]. cbn [fst snd] in X. destruct X as (X1 & X2 & ->). rewrite replace_cons_0, app_nil_r.
      apply IH. split; [eapply ninv_ext; eassumption|]. destruct (_ && _); [apply J_done; now constructor | apply Hkk].
    - destruct (nth_error ps i) as [[o0 | o' k']|] eqn:Ei; try (cbn [snd]; eapply ninv_post; exact Hn).
      pose proof (ninv_step st ps acc i o' k' Hn Ei) as X. destruct (exec apps st o') as [[st' r] e]. rewrite replace_cons_S.
      apply IH. split; [apply X | now apply J_mild].
    - (* the join handler stores the new session *)
      destruct Hn as (Hfb & r' & G & phs & Hr & Hs & Hd & HG0 & HG & HF2 & Hnd & Hall).
      cbn [exec]. unfold l_update_device. rewrite Hr. rewrite replace_cons_0, app_nil_r.
      apply interleaveN_after. split.
      + intros r. cbn [ds_row with_row]. intros [= <-]. cbn. exact Hkey.
      + exists G, (Pre :: phs). split; [lia|]. split.
        * constructor; [destruct (_ && _); [now constructor | apply Hkk]|].
          clear - HF2. induction HF2; constructor; [now apply phA_phB | assumption].
        * cbn [holds flat_map hold1 app]. split; assumption.
    - destruct (nth_error ps i) as [[o0 | o' k']|] eqn:Ei; try (cbn [snd]; eapply ninv_post; exact Hn).
      pose proof (ninv_step st ps acc i o' k' Hn Ei) as X. destruct (exec apps st o') as [[st' r] e]. rewrite replace_cons_S.
      apply IH. split; [apply X | now apply J_switch].
  Qed.

  (* ---- the handlers of the pipeline are such programs ---- *)
  Lemma phB_cont s o k : phB s (Do o k) -> mildB o -> forall r, phB s (k r).
  Proof. intros H M. inversion H as [| s0 o' k' _ Hk | key k' _ _ | cn d c' k' Hd _ _]; subst; [exact Hk | contradiction | cbn in M; congruence]. Qed.

  Lemma phB_enc_join s dev j rx fin : downs fin = [] -> phB s (enc_join_prog E D dev j rx fin).
  Proof.
    intros Hf. unfold enc_join_prog. apply B_op; [exact I|]. intros [[e|]| | | | |]; try (now apply B_halt).
    destruct (encode_join_accept _ _ _ _ _ _); try (now apply B_halt). apply B_op; [reflexivity|]. intros _. now apply B_halt.
  Qed.
  Lemma phB_enc_data dev p rx created now fin : downs fin = [] -> d_nwkskey dev <> knew -> phB Pre (enc_data_prog E dev p rx created now fin).
  Proof. intros Hf Hk. unfold enc_data_prog. destruct (encode _); try (now apply B_halt). apply B_next; [exact Hk | now apply B_halt]. Qed.
  Lemma phB_send dev rx created now fin : downs fin = [] -> d_nwkskey dev <> knew -> phB Pre (send_prog E D dev rx created now fin).
  Proof.
    intros Hf Hk. unfold send_prog. apply B_op; [exact I|]. intros [| | |[| |p]| |]; try (now apply B_halt).
    destruct (po_mtype p =? JoinAccept); [destruct (po_ja p); now apply phB_enc_join|].
    destruct (_ || _ || _); [now apply B_halt | now apply phB_enc_data].
  Qed.
  Lemma phA_enc_data dev p rx created now fin : downs fin = [] -> d_nwkskey dev <> knew -> phA Pre (enc_data_prog E dev p rx created now fin).
  Proof.
    intros Hf Hk. unfold enc_data_prog. destruct (encode _); try (now apply A_halt).
    apply A_next; [exact Hk | | now apply A_halt | now apply B_halt]. intros cn Hcn.
    destruct (encode_message E _ _ _) as [buf| |] eqn:Em; try (now apply A_halt).
    assert (Hfc : down_fcnt {| dl_raw := buf; dl_radio := rx_radio rx; dl_gw := rx_gw rx; dl_rx1delay := 1; dl_eui := d_eui dev |} = cn).
    { unfold down_fcnt. cbn [dl_raw]. rewrite (encode_message_fcnt _ _ _ _ _ Em). cbn [downlink_frame fcnt]. now apply N.mod_small. }
    apply A_op; [left; reflexivity | |].
    - intros _. destruct (length buf =? 0)%nat; [now apply B_halt|]. apply B_emit; [reflexivity | exact Hfc | intros _; now apply B_halt].
    - intros _ _. destruct (length buf =? 0)%nat; [now apply A_halt|].
      apply A_emit; [reflexivity | exact Hfc | intros _; now apply A_halt | intros _; now apply B_halt].
  Qed.
  Lemma phA_send dev rx created now fin : downs fin = [] -> d_nwkskey dev <> knew -> phA Pre (send_prog E D dev rx created now fin).
  Proof.
    intros Hf Hk. pose proof (phB_send dev rx created now fin Hf Hk) as HBs. unfold send_prog in *.
    apply A_op; [left; reflexivity | apply (phB_cont _ _ _ HBs); exact I |]. intros r Hr.
    destruct r as [| | |g| |]; try (now apply A_halt). destruct g as [| |p]; try (now apply A_halt).
    cbn in Hr. destruct (down_type_not_ja _ Hr) as [-> ->]. now apply phA_enc_data.
  Qed.
  Lemma phAB_queue dev1 f rx now fin : downs fin = [] -> d_nwkskey dev1 <> knew ->
    phA Pre (queue_prog E D dev1 f rx now fin) /\ phB Pre (queue_prog E D dev1 f rx now fin).
  Proof.
    intros Hf Hk. unfold queue_prog.
    set (after := Do SGetNextUnsent (fun r => match r with
        | XMsg (Some m) => Do (SSetPayload (m_data m) (m_port m) (m_ack m)) (fun _ =>
                           Do (SSetSentTime (m_created m) now (fcnt f)) (fun _ => send_prog E D dev1 rx (m_created m) now fin))
        | _ => send_prog E D dev1 rx 0 now fin end)).
    assert (AB : phB Pre after).
    { apply B_op; [exact I|]. intros [| |[m|]| | |]; try (now apply phB_send).
      apply B_op; [exact I|]. intros _. apply B_op; [exact I|]. intros _. now apply phB_send. }
    assert (AA : phA Pre after).
    { apply A_op; [left; reflexivity | apply (phB_cont _ _ _ AB); exact I |]. intros [| |[m|]| | |] _; try (now apply phA_send).
      apply A_op; [left; reflexivity | intros _; apply B_op; [exact I|]; intros _; now apply phB_send |]. intros _ _.
      apply A_op; [left; reflexivity | intros _; now apply phB_send |]. intros _ _. now apply phA_send. }
    set (acks := if ack (fc f) then Do (SUpdateAckTime (fcnt f) now) (fun _ => after) else Do SResetAcks (fun _ => after)).
    assert (BB : phB Pre acks) by (unfold acks; destruct (ack (fc f)); (apply B_op; [exact I|]); intros _; exact AB).
    assert (BA : phA Pre acks) by (unfold acks; destruct (ack (fc f)); (apply A_op; [left; reflexivity | intros _; exact AB | intros _ _; exact AA])).
    destruct (mtype f =? ConfirmedDataUp); [|split; assumption].
    split; [apply A_op; [left; reflexivity | intros _; exact BB | intros _ _; exact BA] | apply B_op; [exact I|]; intros _; exact BB].
  Qed.

  (* an uplink handler of a frame that does not verify under the new key *)
  Theorem uplink_prog_phA f rx n now : fcnt f < 65535 ->
    (forall dev, d_nwkskey dev = knew -> mic_ok E f (rx_raw rx) dev = false) -> phA Pre (uplink_prog E D f rx n now).
  Proof.
    intros Hf Hmic. unfold uplink_prog.
    set (body := fun dev1 : device =>
      Do (SCreateUpstream (mk_umsg dev1 rx (frm (frame_crypt E (d_nwkskey dev1) (d_appskey dev1) f)))) (fun r =>
        match r with
        | XErr None => Do (SGetApp (d_appeui dev1)) (fun r => match r with
            | XApp true => queue_prog E D dev1 f rx now [OPub (mk_pub dev1 rx (frm (frame_crypt E (d_nwkskey dev1) (d_appskey dev1) f)))]
            | _ => Halt [] end)
        | _ => Halt [] end)).
    assert (BodyB : forall dev1, d_nwkskey dev1 <> knew -> phB Pre (body dev1)).
    { intros dev1 H1. apply B_op; [exact I|]. intros [[e|]| | | | |]; try (now apply B_halt).
      apply B_op; [exact I|]. intros [| | | |[|]|]; try (now apply B_halt). now apply phAB_queue. }
    assert (BodyA : forall dev1, d_nwkskey dev1 <> knew -> phA Pre (body dev1)).
    { intros dev1 H1. apply A_op; [right; left; eexists; reflexivity | apply (phB_cont _ _ _ (BodyB dev1 H1)); exact I |]. intros [[e|]| | | | |] _; try (now apply A_halt).
      apply A_op; [left; reflexivity | |].
      - intros [| | | |[|]|]; try (now apply B_halt). now apply phAB_queue.
      - intros [| | | |[|]|] _; try (now apply A_halt). now apply phAB_queue. }
    assert (Rest : forall dev, d_nwkskey dev <> knew ->
      let kw := if (1 <? n)%nat then true else d_keywarn dev in
      let p := if d_fup dev <=? fcnt f then
          Do (SAdvanceUp (d_nwkskey dev) (fcnt f) ((fcnt f + 1) mod 65536) kw) (fun r =>
            match r with
            | XErr None => body (set_counters dev ((fcnt f + 1) mod 65536) (d_fdn dev) kw)
            | XErr (Some SNotFound) => if d_relaxed dev then body (set_counters dev ((fcnt f + 1) mod 65536) (d_fdn dev) kw) else Halt []
            | _ => Halt []
            end)
        else body (set_counters dev (d_fup dev) (d_fdn dev) kw) in
      phA Pre p /\ phB Pre p).
    { intros dev Hk kw p. subst p. destruct (d_fup dev <=? fcnt f); [|split; [apply BodyA | apply BodyB]; exact Hk].
      assert (PB : forall r, phB Pre (match r with
            | XErr None => body (set_counters dev ((fcnt f + 1) mod 65536) (d_fdn dev) kw)
            | XErr (Some SNotFound) => if d_relaxed dev then body (set_counters dev ((fcnt f + 1) mod 65536) (d_fdn dev) kw) else Halt []
            | _ => Halt [] end)).
      { intros [[[| |]|]| | | | |]; try (now apply B_halt); try (apply BodyB; exact Hk). destruct (d_relaxed dev); [apply BodyB; exact Hk | now apply B_halt]. }
      split; [|apply B_op; [exact I | exact PB]].
      apply A_op; [right; right; eexists; eexists; eexists; split; [reflexivity | exact Hf] | exact PB |].
      intros [[[| |]|]| | | | |] _; try (now apply A_halt); try (apply BodyA; exact Hk). destruct (d_relaxed dev); [apply BodyA; exact Hk | now apply A_halt]. }
    apply A_op; [left; reflexivity | |].
    - intros [|[dev|]| | | |]; try (now apply B_halt).
      destruct (mic_ok E f (rx_raw rx) dev) eqn:Em; cbn [negb]; [|now apply B_halt].
      assert (Hk : d_nwkskey dev <> knew) by (intros Hk; rewrite (Hmic dev Hk) in Em; discriminate).
      destruct (stale dev f); [now apply B_halt|]. apply (Rest dev Hk).
    - intros [|[dev|]| | | |] _; try (now apply A_halt).
      destruct (mic_ok E f (rx_raw rx) dev) eqn:Em; cbn [negb]; [|now apply A_halt].
      assert (Hk : d_nwkskey dev <> knew) by (intros Hk; rewrite (Hmic dev Hk) in Em; discriminate).
      destruct (stale dev f); [now apply A_halt|]. apply (Rest dev Hk).
  Qed.

  (* the join handler, when the key it derives from the device's AppKey is knew and the device is in another session *)
  Theorem join_prog_jph cfg f rx appnonce newaddr :
    nwkskey_from_nonces E (d_appkey r0) appnonce (cfg_netid cfg) (jr_devnonce (jr f)) = knew -> d_nwkskey r0 <> knew ->
    jph (join_prog E D cfg f rx appnonce newaddr).
  Proof.
    intros Hkey Hk0. unfold join_prog. apply J_read. intros r Hr. destruct r as [|[dev0|]| | | |]; try (apply J_done; now apply A_halt).
    destruct (negb _); [apply J_done; now apply A_halt|].
    apply J_read. intros r' Hr'. destruct r' as [|[dev|]| | | |]; try (apply J_done; now apply A_halt).
    destruct (Hr' dev eq_refl) as [Hak Hkn].
    destruct (negb (d_appeui dev =? _)); [apply J_done; now apply A_halt|].
    destruct (_ && _); [apply J_done; now apply A_halt|].
    apply J_mild; [exact I|]. intros [| | | |[|]|]; try (apply J_done; now apply A_halt).
    match goal with |- jph (if _ then ?rest else _) => assert (Rest : jph rest) end.
    { apply J_switch; [cbn; now rewrite Hak|].
      intros [[e|]| | | | |]; try (now apply B_halt). apply B_op; [exact I|]. intros _. apply phB_send; [reflexivity | congruence]. }
    destruct (cfg_disable_nonce_check cfg); [exact Rest|].
    apply J_mild; [exact I|]. intros [[e|]| | | | |]; try (apply J_done; now apply A_halt). exact Rest.
  Qed.
End Rejoin.

(* The statement: one join and any number of uplink handlers of frames that do not verify under the key the join derives
   (and whose counters are not the last of the 16-bit range), from a state whose row is in another session with a
   data-typed buffer entry, while the old session has counters left for them - every schedule, every length of run:
   the data frames that leave carry pairwise different counters, each between the stored downlink counter at the start
   and that counter plus the number of uplink handlers. *)
Theorem rejoin_counters_unique E D apps cfg jf jrx appnonce newaddr (ups : list (frame * rxpacket * nat * N)) sched fuel st r :
  let knew := nwkskey_from_nonces E (d_appkey r) appnonce (cfg_netid cfg) (jr_devnonce (jr jf)) in
  ds_row st = Some r -> fb_down st -> d_nwkskey r <> knew -> d_fdn r < 65536 -> d_fdn r + N.of_nat (length ups) <= 65536 ->
  Forall (fun u => fcnt (fst (fst (fst u))) < 65535 /\
                   forall dev, d_nwkskey dev = knew -> mic_ok E (fst (fst (fst u))) (rx_raw (snd (fst (fst u)))) dev = false) ups ->
  let outs := snd (interleaveN apps sched fuel st
      (join_prog E D cfg jf jrx appnonce newaddr :: map (fun u => uplink_prog E D (fst (fst (fst u))) (snd (fst (fst u))) (snd (fst u)) (snd u)) ups) []) in
  NoDup (dcounters outs) /\ Forall (fun x => d_fdn r <= x < d_fdn r + N.of_nat (length ups)) (dcounters outs).
Proof.
  intros knew Hr Hfb Hk H16 Hroom Hups outs.
  apply (interleaveN_rejoin E D apps r knew (d_fdn r + N.of_nat (length ups)) Hroom).
  split; [|now apply join_prog_jph].
  split; [exact Hfb|]. exists r, (d_fdn r), (map (fun _ => Pre) ups).
  destruct (all_pre_phs ups) as [Hn Hh].
  split; [exact Hr|]. split; [apply same_session_refl|]. split; [symmetry; apply N.mod_small; lia|]. split; [lia|]. split; [rewrite Hn; lia|].
  split; [|rewrite Hh; cbn; split; constructor].
  clear Hn Hh Hroom. induction ups as [|u t IHt]; cbn; constructor; inversion Hups as [|u' t' [H1 H2] Ht]; subst; [now apply uplink_prog_phA | now apply IHt].
Qed.

(* witness with the concrete cipher: the straggler reserves its counter (3) in the old session, the join runs from start
   to end, then the straggler sends its frame - numbered 3, after the join-accept; the new session's counters are 0 *)
From Lospan Require Import Base.AES Proof.SessionProof.
Definition sd_sched : list nat := repeat 1%nat 9 ++ repeat 0%nat 12 ++ repeat 1%nat 20.
Definition sd_result := interleaveN [9] sd_sched 80 (w_st 5 3) sj_progs [].
Example straggler_sends_its_reserved_counter :
  dcounters (snd sd_result) = [3] /\ map dl_rx1delay (downs (snd sd_result)) = [5; 1] /\
  option_map (fun r => (d_fup r, d_fdn r, bytes_eqb (d_nwkskey r) sj_knew)) (ds_row (fst sd_result)) = Some (0, 0, true) /\
  fb_down (w_st 5 3) /\ fcnt (w_frame 5) < 65535.
Proof. vm_compute. repeat split. Qed.
