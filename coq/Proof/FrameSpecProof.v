From Lospan Require Import Base.Bytes Base.Outcome Model.FrameTypes Gen.Consts Model.MacCmd Model.Frame
  Spec.MacLayout Spec.LoRaFrame Proof.BitLemmas Proof.CMACProof Proof.MacCmdProof Proof.MacSetProof Proof.FrameProof.
Open Scope nat_scope.

Lemma map_sinsert up c l :
  map (seg_cmd up) (sinsert c l) = insert_cmd (seg_cmd up c) (map (seg_cmd up) l).
Proof.
  induction l as [|h t IH]; cbn [sinsert map insert_cmd]; [reflexivity|].
  change (c_cid (seg_cmd up c)) with (fst c). change (c_cid (seg_cmd up h)) with (fst h).
  destruct (fst c <? fst h)%N; [reflexivity|]. destruct (fst c =? fst h)%N; [reflexivity|].
  cbn [map]. now rewrite IH.
Qed.
Lemma fold_insert_sset up segs : forall acc,
  fold_left (fun a c => insert_cmd c a) (map (seg_cmd up) segs) (map (seg_cmd up) acc) =
  map (seg_cmd up) (fold_left (fun a c => sinsert c a) segs acc).
Proof.
  induction segs as [|c t IH]; intros acc; cbn [map fold_left]; [reflexivity|].
  rewrite <- map_sinsert. apply IH.
Qed.
Lemma segs_set_cmds up msg max region :
  cs_cmds (segs_set up msg max region) = map (seg_cmd up) (spec_set (spec_cmds up region)).
Proof. unfold segs_set, spec_set; cbn [cs_cmds]. apply (fold_insert_sset up _ []). Qed.

Lemma hdr_addr_u32 a0 a1 a2 a3 : bytes_ok [a0; a1; a2; a3] = true ->
  devaddr_u32 (hdr_addr a0 a1 a2 a3) = le_val [a0; a1; a2; a3].
Proof.
  intros Hok. pose proof (le_val_bound _ Hok) as B. cbn [length] in B. change (256 ^ N.of_nat 4)%N with 4294967296%N in B.
  set (full := le_val [a0; a1; a2; a3]) in *. unfold devaddr_u32, hdr_addr. fold full. cbn [nwkid nwkaddr].
  change c_NetworkIDMask with 4261412864%N. change c_MaxNwkAddr with 33554431%N.
  rewrite N.shiftr_land. change (N.shiftr 4261412864 25) with 127%N.
  change 127%N with (N.ones 7). change 255%N with (N.ones 8). change 33554431%N with (N.ones 25). change 4294967295%N with (N.ones 32).
  rewrite !N.land_ones, N.shiftr_div_pow2, N.shiftl_mul_pow2.
  change (2 ^ 7)%N with 128%N. change (2 ^ 8)%N with 256%N. change (2 ^ 25)%N with 33554432%N. change (2 ^ 32)%N with 4294967296%N.
  assert (H1 : ((full / 33554432) mod 128 mod 256 = full / 33554432)%N) by lia. rewrite H1.
  assert (H2 : ((full / 33554432 * 33554432) mod 4294967296 = full / 33554432 * 33554432)%N) by lia. rewrite H2.
  assert (H3 : ((full mod 33554432) mod 33554432 = full mod 33554432)%N) by lia. rewrite H3.
  change 33554432%N with (2 ^ 25)%N. rewrite lor_disjoint by (apply N.mod_lt; discriminate).
  change (2 ^ 25)%N with 33554432%N. lia.
Qed.

Lemma nth_error_bytes_ok v i b : bytes_ok v = true -> nth_error v i = Some b -> (b < 256)%N.
Proof.
  unfold bytes_ok. rewrite forallb_forall. intros H E. apply nth_error_In in E. specialize (H _ E).
  unfold byte_ok in H. now apply N.ltb_lt.
Qed.

(* the accepted data frame is the one the specification reads from the same bytes *)
Definition agrees_with_spec (f : frame) (g : sframe) : Prop :=
  mtype f = s_mtype g /\ major f = s_major g /\ s_major g = 0%N /\
  devaddr_u32 (f_devaddr f) = s_addr g /\
  adr (fc f) = s_adr g /\ adrackreq (fc f) = s_adrackreq g /\ ack (fc f) = s_ack g /\
  fpending (fc f) = s_fpending g /\ classb (fc f) = s_fpending g /\
  foptslen (fc f) = N.of_nat (length (s_fopts g)) /\
  fcnt f = s_fcnt g /\
  cs_cmds (fopts f) = map (seg_cmd (s_uplink g)) (spec_set (spec_cmds (s_uplink g) (s_fopts g))) /\
  mic f = s_mic g /\
  match s_port g with
  | None => fport f = 0%N /\ frm f = [] /\ cs_cmds (maccmds f) = []
  | Some p => fport f = p /\
              (p <> 0%N -> frm f = s_payload g /\ cs_cmds (maccmds f) = []) /\
              (p = 0%N -> exists k, frm f = skipn k (s_payload g))
  end.

Lemma data_mtype_uplink m : is_data_mtype m = true ->
  mtype_uplink m = ((m =? 2) || (m =? 4))%N.
Proof.
  unfold is_data_mtype, mtype_uplink, JoinRequest, UnconfirmedDataUp, ConfirmedDataUp, ConfirmedDataDown, UnconfirmedDataDown.
  destruct (m =? 0)%N eqn:E0; [apply N.eqb_eq in E0; subst; discriminate|]. reflexivity.
Qed.

Lemma sub_hdr n f : S (S (S (S (S (S (S (S n))))))) - 12 - f = n - f - 4.
Proof. lia. Qed.

Lemma data_result_agrees b0 a0 a1 a2 a3 fcb c0 c1 rest :
  let v := b0 :: a0 :: a1 :: a2 :: a3 :: fcb :: c0 :: c1 :: rest in
  bytes_ok v = true -> N.to_nat (N.land fcb 15) + 4 <= length rest ->
  mhdr_major b0 = 0%N -> is_data_mtype (mhdr_mtype b0) = true ->
  exists g, spec_decode v = Some g /\
    agrees_with_spec (data_result (mhdr_mtype b0) 0 (le_val (skipn (length v - 4) v)) a0 a1 a2 a3 fcb c0 c1 rest) g.
Proof.
  intros v Hok Hlen Hm Hd. unfold v in *.
  assert (Hfl : length (firstn (N.to_nat (N.land fcb 15)) rest) = N.to_nat (N.land fcb 15)) by (rewrite firstn_length; lia).
  assert (Hfl2 : N.land fcb 15 = N.of_nat (length (firstn (N.to_nat (N.land fcb 15)) rest))) by (rewrite Hfl; lia).
  assert (Hz : (0 <? N.land fcb 15)%N = false -> N.to_nat (N.land fcb 15) = 0) by (intros Hz; apply N.ltb_ge in Hz; lia).
  assert (Hn12 : (S (S (S (S (S (S (S (S (length rest)))))))) <? 12) = false) by (apply Nat.ltb_ge; lia).
  assert (Hn12f : (S (S (S (S (S (S (S (S (length rest)))))))) <? 12 + N.to_nat (N.land fcb 15)) = false) by (apply Nat.ltb_ge; lia).
  assert (Hb0 : (b0 < 256)%N) by (apply (nth_error_bytes_ok _ 0 b0 Hok); reflexivity).
  assert (Hfc : (fcb < 256)%N) by (apply (nth_error_bytes_ok _ 5 fcb Hok); reflexivity).
  assert (Hok4 : bytes_ok [a0; a1; a2; a3] = true).
  { unfold bytes_ok in *. cbn [forallb] in *. rewrite !andb_true_iff in *. tauto. }
  destruct (byte_facts2 b0 Hb0) as (M1 & M2 & _). destruct (byte_facts2 fcb Hfc) as (_ & _ & F1 & F2 & F3 & F4).
  set (fol := N.to_nat (N.land fcb 15)) in *.
  assert (Hfol : N.to_nat (fcb mod 16) = fol) by (unfold fol; now rewrite land_15).
  unfold spec_decode. cbn [length nth]. rewrite Hfol.
  rewrite Hn12, Hn12f.
  eexists. split; [reflexivity|].
  unfold agrees_with_spec, data_result. fold fol.
  cbn [s_mtype s_major s_addr s_fctrl s_fcnt s_fopts s_port s_payload s_mic skipn firstn Nat.add].
  rewrite sub_hdr.
  unfold mhdr_mtype in Hd |- *.
  unfold mhdr_major in Hm |- *.
  rewrite ?M1.
  rewrite ?M2.
  rewrite M1 in Hd.
  rewrite M2 in Hm.
  assert (Hup : mtype_uplink (b0 / 32) = s_uplink {| s_mtype := (b0 / 32)%N; s_major := (b0 mod 4)%N; s_addr := 0; s_fctrl := 0; s_fcnt := 0; s_fopts := []; s_port := None; s_payload := []; s_mic := 0 |}).
  { unfold s_uplink; cbn [s_mtype]. now apply data_mtype_uplink. }
  unfold s_uplink in *. cbn [s_mtype] in *.
  unfold s_adr, s_adrackreq, s_ack, s_fpending. cbn [s_fctrl].
  destruct (firstn (length rest - fol - 4) (skipn fol rest)) as [|port pl] eqn:Eb.
  - cbn [mtype major f_devaddr fc fcnt fopts fport frm maccmds mic hd_error tl adr adrackreq ack fpending classb foptslen hdr_fctrl new_set cs_cmds].
    rewrite hdr_addr_u32 by exact Hok4.
    repeat split; auto.
    destruct (0 <? N.land fcb 15)%N eqn:E0.
    + rewrite segs_set_cmds, Hup. reflexivity.
    + rewrite (Hz eq_refl). cbn. reflexivity.
  - cbn [hd_error tl].
    assert (Hcommon : forall frm_ cmds,
      let f := {| mtype := (b0 / 32)%N; major := 0; f_devaddr := hdr_addr a0 a1 a2 a3; fc := hdr_fctrl fcb; fcnt := le_val [c0; c1];
                  fopts := (if (0 <? N.land fcb 15)%N then segs_set (mtype_uplink (b0 / 32)) (b0 / 32) (Z.of_nat fol) (firstn fol rest) else new_set (b0 / 32) fopts_limit);
                  fport := port; frm := frm_; maccmds := cmds;
                  mic := le_val (skipn (S (S (S (S (S (S (S (S (length rest)))))))) - 4) (b0 :: a0 :: a1 :: a2 :: a3 :: fcb :: c0 :: c1 :: rest));
                  jr := zero_jr; ja := zero_ja |} in
      (port <> 0%N -> frm_ = pl /\ cs_cmds cmds = []) -> (port = 0%N -> exists k, frm_ = skipn k pl) ->
      mtype f = (b0 / 32)%N /\ major f = (b0 mod 4)%N /\ (b0 mod 4)%N = 0%N /\
      devaddr_u32 (f_devaddr f) = le_val [a0; a1; a2; a3] /\
      adr (fc f) = ((fcb / 128) mod 2 =? 1)%N /\ adrackreq (fc f) = ((fcb / 64) mod 2 =? 1)%N /\ ack (fc f) = ((fcb / 32) mod 2 =? 1)%N /\
      fpending (fc f) = ((fcb / 16) mod 2 =? 1)%N /\ classb (fc f) = ((fcb / 16) mod 2 =? 1)%N /\
      foptslen (fc f) = N.of_nat (length (firstn fol rest)) /\ fcnt f = le_val [c0; c1] /\
      cs_cmds (fopts f) = map (seg_cmd ((b0 / 32 =? 2)%N || (b0 / 32 =? 4)%N)) (spec_set (spec_cmds ((b0 / 32 =? 2)%N || (b0 / 32 =? 4)%N) (firstn fol rest))) /\
      mic f = le_val (skipn (S (S (S (S (S (S (S (S (length rest)))))))) - 4) (b0 :: a0 :: a1 :: a2 :: a3 :: fcb :: c0 :: c1 :: rest)) /\
      (fport f = port /\ (port <> 0%N -> frm f = pl /\ cs_cmds (maccmds f) = []) /\ (port = 0%N -> exists k, frm f = skipn k pl))).
    { intros frm_ cmds f H1 H2. subst f.
      cbn [mtype major f_devaddr fc fcnt fopts fport frm maccmds mic adr adrackreq ack fpending classb foptslen hdr_fctrl].
      rewrite hdr_addr_u32 by exact Hok4.
      repeat match goal with |- _ /\ _ => split end; auto.
      destruct (0 <? N.land fcb 15)%N eqn:E0.
      + rewrite segs_set_cmds, Hup. reflexivity.
      + rewrite (Hz eq_refl). cbn. reflexivity. }
    destruct (port =? 0)%N eqn:Ep.
    + apply N.eqb_eq in Ep. apply Hcommon.
      * intros Hne. contradiction.
      * intros _. eexists. reflexivity.
    + apply N.eqb_neq in Ep. apply Hcommon.
      * intros _. split; reflexivity.
      * intros He. contradiction.
Qed.

Theorem decode_follows_spec v sp f :
  bytes_ok v = true -> decode (mk_slice v sp) = Ok f -> is_data_mtype (mtype f) = true ->
  exists g, spec_decode v = Some g /\ agrees_with_spec f g.
Proof.
  intros Hok Hdec Hdata.
  destruct (Nat.lt_ge_cases (length v) 12) as [Hs|Hl].
  { unfold decode in Hdec. rewrite slen_mk in Hdec. change (N.to_nat c_MinimumMessageSize) with 12 in Hdec.
    replace (length v <? 12) with true in Hdec by (symmetry; apply Nat.ltb_lt; lia). discriminate. }
  destruct (split_header v Hl) as (b0 & a0 & a1 & a2 & a3 & fcb & c0 & c1 & rest & Hv & Hr).
  destruct (N.eq_dec (mhdr_major b0) 0) as [Hm|Hm].
  2:{ subst v. unfold decode in Hdec. rewrite slen_mk in Hdec. change (N.to_nat c_MinimumMessageSize) with 12 in Hdec. cbn [length] in Hdec.
      replace (S (S (S (S (S (S (S (S (length rest)))))))) <? 12) with false in Hdec by (symmetry; apply Nat.ltb_ge; lia).
      rewrite rd_mk in Hdec. cbn [nth_error bind] in Hdec. fold (mhdr_major b0) in Hdec.
      replace (c_MaxSupportedVersion <? mhdr_major b0)%N with true in Hdec by (symmetry; apply N.ltb_lt; change c_MaxSupportedVersion with 0%N; lia).
      discriminate. }
  destruct (is_data_mtype (mhdr_mtype b0)) eqn:Hd.
  - rewrite (decode_data v sp _ _ _ _ _ _ _ _ _ Hv Hr Hm Hd) in Hdec.
    destruct (Nat.lt_ge_cases (length rest) (N.to_nat (N.land fcb 15) + 4)) as [Hsh|Hlo].
    + subst v. destruct (macpayload_short (mhdr_mtype b0) 0 (le_val (skipn (length (b0 :: a0 :: a1 :: a2 :: a3 :: fcb :: c0 :: c1 :: rest) - 4) (b0 :: a0 :: a1 :: a2 :: a3 :: fcb :: c0 :: c1 :: rest))) b0 a0 a1 a2 a3 fcb c0 c1 rest sp Hsh) as (e & E1 & _).
      rewrite E1 in Hdec. discriminate.
    + subst v. rewrite macpayload_long in Hdec by exact Hlo. injection Hdec as <-.
      apply data_result_agrees; assumption.
  - (* not a data frame: the reported type is not a data type *)
    rewrite (decode_nondata v sp _ _ _ _ _ _ _ _ _ Hv Hr Hm Hd) in Hdec. cbv zeta in Hdec.
    destruct (mhdr_mtype b0 =? JoinRequest)%N.
    { destruct (joinreq_decode _ 1); cbn [bind] in Hdec; try discriminate. injection Hdec as <-.
      cbn [mtype with_jr f_base] in Hdata. congruence. }
    destruct (mhdr_mtype b0 =? JoinAccept)%N.
    { destruct (joinacc_decode _ 1); cbn [bind] in Hdec; try discriminate. injection Hdec as <-.
      cbn [mtype with_ja f_base] in Hdata. congruence. }
    discriminate.
Qed.

(* every frame the specification can read as a data frame of major version 0 is accepted *)
Theorem decode_accepts_conformant v sp g :
  bytes_ok v = true -> spec_decode v = Some g -> s_is_data g = true -> s_major g = 0%N ->
  exists f, decode (mk_slice v sp) = Ok f /\ agrees_with_spec f g.
Proof.
  intros Hok Hs Hdata Hmaj. unfold spec_decode in Hs.
  destruct (Nat.ltb_spec (length v) 12) as [H12|H12]; [discriminate|].
  destruct (split_header v H12) as (b0 & a0 & a1 & a2 & a3 & fcb & c0 & c1 & rest & Hv & Hr).
  subst v. cbn [nth length] in Hs.
  assert (Hb0 : (b0 < 256)%N) by (apply (nth_error_bytes_ok _ 0 b0 Hok); reflexivity).
  destruct (byte_facts2 b0 Hb0) as (M1 & M2 & _).
  assert (Hfol : N.to_nat (fcb mod 16) = N.to_nat (N.land fcb 15)) by (now rewrite land_15).
  rewrite Hfol in Hs.
  destruct (Nat.ltb_spec (S (S (S (S (S (S (S (S (length rest))))))))) (12 + N.to_nat (N.land fcb 15))) as [Hsh|Hlo]; [discriminate|].
  assert (Hlen : N.to_nat (N.land fcb 15) + 4 <= length rest) by lia.
  assert (Hm : mhdr_major b0 = 0%N).
  { injection Hs as <-. cbn [s_major] in Hmaj. unfold mhdr_major. now rewrite M2. }
  assert (Hd : is_data_mtype (mhdr_mtype b0) = true).
  { injection Hs as <-. unfold s_is_data in Hdata. cbn [s_mtype] in Hdata. unfold mhdr_mtype. rewrite M1.
    unfold is_data_mtype, ConfirmedDataUp, UnconfirmedDataUp, UnconfirmedDataDown, ConfirmedDataDown.
    apply andb_true_iff in Hdata. destruct Hdata as [D1 D2]. apply N.leb_le in D1. apply N.leb_le in D2.
    assert (C : (b0 / 32 = 2 \/ b0 / 32 = 3 \/ b0 / 32 = 4 \/ b0 / 32 = 5)%N) by lia.
    destruct C as [-> | [-> | [-> | ->]]]; reflexivity. }
  destruct (data_result_agrees b0 a0 a1 a2 a3 fcb c0 c1 rest Hok Hlen Hm Hd) as (g' & G1 & G2).
  assert (g' = g).
  { unfold spec_decode in G1. cbn [nth length] in G1. rewrite Hfol in G1.
    replace (S (S (S (S (S (S (S (S (length rest)))))))) <? 12) with false in G1 by (symmetry; apply Nat.ltb_ge; lia).
    replace (S (S (S (S (S (S (S (S (length rest)))))))) <? 12 + N.to_nat (N.land fcb 15)) with false in G1 by (symmetry; apply Nat.ltb_ge; lia).
    congruence. }
  subst g'. eexists. split; [|exact G2].
  rewrite (decode_data _ sp _ _ _ _ _ _ _ _ _ eq_refl Hr Hm Hd). now rewrite macpayload_long.
Qed.

(* an unsupported major version or message type is rejected with an error *)
Theorem decode_rejects_unsupported v sp :
  bytes_ok v = true -> 12 <= length v ->
  (nth 0 v 0 mod 4 <> 0 \/ nth 0 v 0 / 32 = 6 \/ nth 0 v 0 / 32 = 7)%N ->
  exists e, decode (mk_slice v sp) = Err e.
Proof.
  intros Hok H12 Hbad.
  destruct (split_header v H12) as (b0 & a0 & a1 & a2 & a3 & fcb & c0 & c1 & rest & Hv & Hr).
  subst v. cbn [nth] in Hbad.
  assert (Hb0 : (b0 < 256)%N) by (apply (nth_error_bytes_ok _ 0 b0 Hok); reflexivity).
  destruct (byte_facts2 b0 Hb0) as (M1 & M2 & _).
  destruct (N.eq_dec (mhdr_major b0) 0) as [Hm|Hm].
  - assert (Hd : is_data_mtype (mhdr_mtype b0) = false /\ (mhdr_mtype b0 =? JoinRequest)%N = false /\ (mhdr_mtype b0 =? JoinAccept)%N = false).
    { unfold mhdr_mtype, mhdr_major in *. rewrite M1. rewrite M2 in Hm.
      destruct Hbad as [Hb|[-> | ->]]; [contradiction| |]; repeat split; reflexivity. }
    destruct Hd as (Hd & J1 & J2).
    rewrite (decode_nondata _ sp _ _ _ _ _ _ _ _ _ eq_refl Hr Hm Hd). cbv zeta. rewrite J1, J2. now eexists.
  - unfold decode. rewrite slen_mk. change (N.to_nat c_MinimumMessageSize) with 12. cbn [length].
    replace (S (S (S (S (S (S (S (S (length rest)))))))) <? 12) with false by (symmetry; apply Nat.ltb_ge; lia).
    rewrite rd_mk. cbn [nth_error bind]. fold (mhdr_major b0).
    replace (c_MaxSupportedVersion <? mhdr_major b0)%N with true by (symmetry; apply N.ltb_lt; change c_MaxSupportedVersion with 0%N; lia).
    now eexists.
Qed.
