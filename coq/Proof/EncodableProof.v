(* Whether a data frame can be marshalled does not depend on its frame counter, on its MIC, or on the bytes of
   its payload (only on the payload length): the encoder's trial MarshalBinary decides for the real encoding. *)
From Coq Require Import List NArith Arith Lia Bool.
From Lospan Require Import Base.Bytes Base.Outcome Model.CMAC Model.FrameTypes Model.Crypto Gen.Consts Model.MacCmd Model.Frame Model.Store Model.Server Proof.CryptoProof.
Import ListNotations.
Local Open Scope N_scope.

Lemma encode_ok_shape f g b :
  mtype f = mtype g -> major f = major g -> fopts f = fopts g -> length (frm f) = length (frm g) ->
  fport f = fport g -> maccmds f = maccmds g ->
  encode f = Ok b -> exists b', encode g = Ok b'.
Proof.
  intros Hm Hj Hfo Hl Hp Hmc. unfold encode. rewrite <- Hm, <- Hfo, <- Hl, <- Hp, <- Hmc.
  destruct (_ || _ || _); [discriminate|]. destruct (15 <? _); [discriminate|].
  destruct (set_encode _ _ _) as [fo| |]; cbn [bind]; try discriminate.
  destruct (223 <? _); [discriminate|]. destruct (_ && _); [discriminate|].
  repeat match goal with |- context [length (?a :: le_bytes 4 ?x ++ [?y] ++ le_bytes 2 ?z ++ fo)] =>
    replace (length (a :: le_bytes 4 x ++ [y] ++ le_bytes 2 z ++ fo)) with (8 + length fo)%nat
      by (cbn [length]; rewrite !app_length, !le_bytes_length; cbn [length]; lia) end.
  destruct ((length (frm f) =? 0)%nat && (0 <? set_size (maccmds f))%nat).
  - destruct (buffer_size <=? _)%nat; cbn [bind]; [discriminate|].
    destruct (set_encode _ _ _) as [mc| |]; cbn [bind]; try discriminate.
    destruct (_ <? _)%nat; [discriminate|]. intros _. eexists. reflexivity.
  - destruct (0 <? length (frm f))%nat.
    + destruct (buffer_size <=? _)%nat; cbn [bind]; [discriminate|].
      destruct (buffer_size <? _)%nat; cbn [bind]; [discriminate|].
      cbn [length]. rewrite <- Hl. destruct (_ <? _)%nat; [discriminate|]. intros _. eexists. reflexivity.
    + cbn [bind length]. destruct (_ <? _)%nat; [discriminate|]. intros _. eexists. reflexivity.
Qed.

Section Enc.
  Variable E : list N -> list N -> list N.

  Lemma encode_length' f bs : encode f = Ok bs -> (12 <= length bs)%nat.
  Proof.
    unfold encode. destruct (_ || _ || _); [discriminate|]. destruct (15 <? _); [discriminate|].
    destruct (set_encode _ _ _) as [fo| |]; cbn [bind]; try discriminate.
    destruct (223 <? _); [discriminate|]. destruct (_ && _); [discriminate|].
    match goal with |- (do body <- ?b; _) = _ -> _ => destruct b as [body| |] end; cbn [bind]; try discriminate.
    destruct (_ <? _)%nat; [discriminate|]. intros [= <-].
    cbn [length]. rewrite !app_length. cbn [length]. lia.
  Qed.

  (* the trial marshalling succeeded: so does the encoding with any counter and any keys *)
  Hypothesis E_len : forall k b, length (E k b) = 16%nat.
  Theorem trial_decides dev p b0 nk ak c :
    encode (downlink_frame dev p 0) = Ok b0 -> exists buf, encode_message E nk ak (downlink_frame dev p c) = Ok buf.
  Proof.
    intros H0. unfold encode_message.
    destruct (encode_ok_shape (downlink_frame dev p 0) (frame_crypt E nk ak (downlink_frame dev p c)) b0) as [b1 H1]; try reflexivity; try exact H0.
    { unfold frame_crypt. cbn [set_frm frm downlink_frame]. symmetry. apply payload_crypt_length. exact E_len. }
    rewrite H1. cbn [bind]. pose proof (encode_length' _ _ H1) as L.
    destruct (length b1 <? 4)%nat eqn:E4; [apply Nat.ltb_lt in E4; lia|].
    eapply encode_ok_shape; [..|exact H1]; reflexivity.
  Qed.
End Enc.
