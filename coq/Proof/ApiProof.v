From Lospan Require Import Base.Bytes Model.Codec Model.RegistryTypes Model.Registry Model.Api Spec.AbsRegistry
  Proof.BitLemmas Proof.CMACProof Proof.CodecProof Proof.RegistryProof.
Open Scope N_scope.
Local Arguments N.mul : simpl never.
Local Arguments N.add : simpl never.

(* ---------- what the parsers return is representable ---------- *)
Lemma unhexd_lt c v : unhexd c = Some v -> v < 16.
Proof.
  unfold unhexd. intros H.
  destruct ((48 <=? c) && (c <=? 57)) eqn:E1; [injection H as <-; lia|].
  destruct ((97 <=? c) && (c <=? 102)) eqn:E2; [injection H as <-; lia|].
  destruct ((65 <=? c) && (c <=? 70)) eqn:E3; [injection H as <-; lia|discriminate].
Qed.
Lemma list_ind2 {A} (P : list A -> Prop) :
  P [] -> (forall a, P [a]) -> (forall a b t, P t -> P (a :: b :: t)) -> forall l, P l.
Proof. intros H0 H1 H2. fix IH 1. intros [|a [|b t]]; [exact H0 | apply H1 | apply H2, IH]. Qed.
Lemma hex_dec_ok : forall s l, hex_dec s = Some l -> bytes_ok l = true.
Proof.
  induction s as [|c1|c1 c2 t IH] using list_ind2; intros l H; cbn [hex_dec] in H.
  - injection H as <-. reflexivity.
  - discriminate.
  - destruct (unhexd c1) as [a|] eqn:E1; [|discriminate]. destruct (unhexd c2) as [b|] eqn:E2; [|discriminate].
    destruct (hex_dec t) as [r|] eqn:E3; [|discriminate]. injection H as <-.
    apply bytes_ok_cons. split; [|now apply IH]. apply unhexd_lt in E1, E2. lia.
Qed.
Lemma eui_from_str_ok t e : eui_from_str t = Some e -> eui_ok e = true.
Proof.
  unfold eui_from_str. intros H. destruct (hex_dec _) as [l|] eqn:E; [|discriminate].
  destruct (length l =? 8)%nat eqn:El; [|discriminate]. injection H as <-. apply Nat.eqb_eq in El.
  apply eui_ok_lt. pose proof (be_val_bound l (hex_dec_ok _ _ E)) as B. rewrite El in B. exact B.
Qed.
Lemma key_from_str_ok s k : key_from_str s = Some k -> key_ok k = true.
Proof.
  unfold key_from_str, key_ok. intros H. destruct (hex_dec _) as [l|] eqn:E; [|discriminate].
  destruct (length l =? 16)%nat eqn:El; [|discriminate]. injection H as <-. rewrite El, (hex_dec_ok _ _ E). reflexivity.
Qed.
Lemma hexd_byte v : v < 16 -> hexd v < 256.
Proof. unfold hexd. intros H. destruct (v <? 10); lia. Qed.
Lemma hex_enc_ok l : bytes_ok l = true -> bytes_ok (hex_enc l) = true.
Proof.
  induction l as [|b t IH]; intros H; [reflexivity|]. apply bytes_ok_cons in H. destruct H as [Hb Ht].
  cbn [hex_enc flat_map hex_byte app]. fold (hex_enc t). apply bytes_ok_cons. split; [apply hexd_byte; lia|].
  apply bytes_ok_cons. split; [apply hexd_byte; lia|]. now apply IH.
Qed.
Lemma zero_key_ok : key_ok zero_key = true.
Proof. reflexivity. Qed.
Lemma u16_lt z : u16_of_i32 z < 65536.
Proof. unfold u16_of_i32. lia. Qed.

Lemma opt_key_ok o k : match o with Some b => key_of_bytes b | None => Some zero_key end = Some k -> key_ok k = true.
Proof. destruct o; intros H; [now apply key_from_str_ok in H | injection H as <-; reflexivity]. Qed.
Lemma upd_key_ok o old k : key_ok old = true ->
  (if nonempty o then key_of_bytes (opt_default o []) else Some old) = Some k -> key_ok k = true.
Proof. intros Ho. destruct (nonempty o); intros H; [now apply key_from_str_ok in H | now injection H as <-]. Qed.

(* ---------- requests whose free inputs are representable ---------- *)
Definition optb {A} (p : A -> bool) (o : option A) : bool := match o with Some v => p v | None => true end.
Definition devreq_ok (r : devreq) : bool :=
  optb (fun a => a <? 4294967296) (q_addr r) && eui_ok (q_gen_eui r) && key_ok (q_gen_appkey r) && key_ok (q_gen_appskey r)
  && key_ok (q_gen_nwkskey r) && (q_gen_addr r <? 4294967296).
Definition gwreq_ok (r : gwreq) : bool := optb text_ok (h_ip_parsed r).
Definition areq_ok (q : areq) : bool :=
  match q with
  | ACreateApplication _ gen => eui_ok gen
  | ACreateDevice r | AUpdateDevice r => devreq_ok r
  | ACreateGateway r | AUpdateGateway r => gwreq_ok r
  | ASendMessage _ payload _ _ now => bytes_ok payload && i64_ok now
  | _ => true
  end.

Lemma build_device_ok r d : devreq_ok r = true -> build_device r = inl d -> dev_ok d = true.
Proof.
  unfold devreq_ok. rewrite !andb_true_iff. intros (((((Ha & Hg) & G1) & G2) & G3) & Gaddr) H. apply N.ltb_lt in Gaddr.
  unfold build_device in H.
  destruct (match q_eui r with Some s => eui_from_str s | None => Some (q_gen_eui r) end) as [eui|] eqn:Ee; [|discriminate].
  assert (Heui : eui_ok eui = true).
  { revert Ee. destruct (q_eui r); intros Ee; [now apply eui_from_str_ok in Ee | now injection Ee as <-]. }
  destruct (q_app r) as [[|c a]|]; try discriminate.
  destruct (eui_from_str (c :: a)) as [app|] eqn:Ea; [|discriminate]. apply eui_from_str_ok in Ea.
  destruct (to_state (q_state r)) as [st|] eqn:Es; [|discriminate].
  assert (Hst : st < 256).
  { unfold to_state in Es. revert Es. destruct (q_state r) as [v|]; intros Es; [|injection Es as <-; lia].
    destruct (v =? 2); [injection Es as <-; lia|]. destruct (v =? 1); [injection Es as <-; lia|].
    destruct (v =? 3); [injection Es as <-; lia|discriminate]. }
  set (addr := opt_default (q_addr r) 0) in *.
  assert (Haddr : addr < 4294967296).
  { subst addr. revert Ha. destruct (q_addr r); cbn; intros Ha; [now apply N.ltb_lt|lia]. }
  destruct (match q_appkey r with Some b => key_of_bytes b | None => Some zero_key end) as [k1|] eqn:E1; [|discriminate].
  destruct (match q_appskey r with Some b => key_of_bytes b | None => Some zero_key end) as [k2|] eqn:E2; [|discriminate].
  destruct (match q_nwkskey r with Some b => key_of_bytes b | None => Some zero_key end) as [k3|] eqn:E3; [|discriminate].
  pose proof (opt_key_ok _ _ E1) as K1. pose proof (opt_key_ok _ _ E2) as K2. pose proof (opt_key_ok _ _ E3) as K3.
  destruct ((st =? 1) && _); [discriminate|]. destruct ((st =? 8) && negb _); [discriminate|].
  injection H as <-. apply dev_ok_spec. cbn [rd_eui rd_addr rd_appkey rd_appskey rd_nwkskey rd_app rd_state rd_fup rd_fdn rd_tag].
  apply eui_ok_lt in Heui, Ea. pose proof (u16_lt (opt_default (q_fup r) 0%Z)). pose proof (u16_lt (opt_default (q_fdn r) 0%Z)).
  repeat split; try assumption; try reflexivity.
  - destruct ((st =? 8) && (addr =? 0)); assumption.
  - destruct ((st =? 1) && key_empty k1); assumption.
  - destruct ((st =? 8) && key_empty k2); assumption.
  - destruct ((st =? 8) && key_empty k3); assumption.
Qed.

Lemma apply_update_ok r d d' : devreq_ok r = true -> dev_ok d = true -> apply_update r d = inl d' ->
  dev_ok d' = true /\ rd_eui d' = rd_eui d.
Proof.
  unfold devreq_ok. rewrite !andb_true_iff. intros (((((Ha & Hg) & G1) & G2) & G3) & Gaddr) Hd H. apply N.ltb_lt in Gaddr.
  apply dev_ok_spec in Hd. destruct Hd as (D1 & D2 & D3 & D4 & D5 & D6 & D7 & D8 & D9 & D10).
  unfold apply_update in H.
  destruct (upd_state (q_state r) (rd_state d)) as [st|] eqn:Es; [|discriminate].
  assert (Hst : st < 256).
  { revert Es. unfold upd_state. destruct (q_state r) as [v|]; intros Es; [|injection Es as <-; exact D7]. unfold to_state in Es.
    destruct (v =? 2); [injection Es as <-; lia|]. destruct (v =? 1); [injection Es as <-; lia|].
    destruct (v =? 3); [injection Es as <-; lia|discriminate]. }
  set (addr := opt_default (q_addr r) (rd_addr d)) in *.
  assert (Haddr : addr < 4294967296).
  { subst addr. revert Ha. destruct (q_addr r); cbn; intros Ha; [now apply N.ltb_lt|exact D2]. }
  destruct (if nonempty (q_appkey r) then _ else Some (rd_appkey d)) as [k1|] eqn:E1; [|discriminate].
  destruct (if nonempty (q_appskey r) then _ else Some (rd_appskey d)) as [k2|] eqn:E2; [|discriminate].
  destruct (if nonempty (q_nwkskey r) then _ else Some (rd_nwkskey d)) as [k3|] eqn:E3; [|discriminate].
  pose proof (upd_key_ok _ _ _ D3 E1) as K1. pose proof (upd_key_ok _ _ _ D4 E2) as K2. pose proof (upd_key_ok _ _ _ D5 E3) as K3.
  injection H as <-. split; [|reflexivity]. apply dev_ok_spec.
  cbn [rd_eui rd_addr rd_appkey rd_appskey rd_nwkskey rd_app rd_state rd_fup rd_fdn rd_tag].
  repeat split; try assumption.
  - destruct (_ && (addr =? 0)); assumption.
  - destruct (_ && key_empty k1); assumption.
  - destruct (_ && key_empty k2); assumption.
  - destruct (_ && key_empty k3); assumption.
  - destruct (q_fup r); [apply u16_lt | exact D8].
  - destruct (q_fdn r); [apply u16_lt | exact D9].
Qed.

Lemma build_gateway_ok r g : gwreq_ok r = true -> build_gateway r = inl g -> gw_ok g = true.
Proof.
  unfold gwreq_ok, build_gateway. intros Hr H. destruct (h_ip r); [|discriminate]. destruct (h_eui r) as [|c t]; [discriminate|].
  destruct (h_ip_parsed r) as [ip|]; [|discriminate]. cbn in Hr. destruct (coord_bad _ _); [discriminate|].
  destruct (eui_from_str (c :: t)) as [e|] eqn:E; [|discriminate]. injection H as <-. apply eui_from_str_ok in E.
  apply gw_ok_spec. cbn. apply eui_ok_lt in E. now split.
Qed.

(* ---------- one storage call ---------- *)
Lemma one_call s o (k : regres -> ares) : store_ok s -> regop_ok o = true ->
  (let '(s1, r) := c_step (enc_store s) o in (s1, k r))
  = (enc_store (fst (let '(s1, r) := a_step s o in (s1, k r))), snd (let '(s1, r) := a_step s o in (s1, k r)))
  /\ store_ok (fst (let '(s1, r) := a_step s o in (s1, k r))).
Proof.
  intros Hok Ho. destruct (refine_step s o Hok Ho) as [E Hok1]. rewrite E. destruct (a_step s o) as [s1 r]. cbn in *. now split.
Qed.

Lemma get_dev_ok s e d : store_ok s -> find (fun x => rd_eui x =? e) (a_devs s) = Some d -> dev_ok d = true /\ rd_eui d = e.
Proof.
  intros Hok H. apply find_some in H. destruct H as [Hin He]. apply N.eqb_eq in He. split; [|exact He].
  pose proof (ok_devs s Hok) as F. rewrite Forall_forall in F. now apply F.
Qed.
Lemma get_gw_ok s e g : store_ok s -> find (fun x => gw_eui x =? e) (a_gws s) = Some g -> gw_ok g = true /\ gw_eui g = e.
Proof.
  intros Hok H. apply find_some in H. destruct H as [Hin He]. apply N.eqb_eq in He. split; [|exact He].
  pose proof (ok_gws s Hok) as F. rewrite Forall_forall in F. now apply F.
Qed.
Lemma get_app_ok s e a : store_ok s -> find (fun x => ap_eui x =? e) (a_apps s) = Some a -> app_ok a = true /\ ap_eui a = e.
Proof.
  intros Hok H. apply find_some in H. destruct H as [Hin He]. apply N.eqb_eq in He. split; [|exact He].
  pose proof (ok_apps s Hok) as F. rewrite Forall_forall in F. now apply F.
Qed.

(* the service over the storage model answers exactly as the service over the abstract registry *)
Theorem api_refines s q : store_ok s -> areq_ok q = true ->
  api_step cstore c_step (enc_store s) q
  = (enc_store (fst (api_step astore a_step s q)), snd (api_step astore a_step s q))
  /\ store_ok (fst (api_step astore a_step s q)).
Proof.
  intros Hok Hq. destruct q; cbn [areq_ok] in Hq; unfold api_step.
  - (* ACreateApplication *)
    destruct (match eui with Some t => eui_from_str t | None => Some 0 end) as [e0|] eqn:Ee; [|now split].
    apply one_call; [exact Hok|]. cbn [regop_ok]. unfold app_ok. cbn [ap_eui ap_tag].
    assert (H0 : eui_ok e0 = true) by (revert Ee; destruct eui; intros Ee; [now apply eui_from_str_ok in Ee | now injection Ee as <-]).
    destruct (e0 =? 0); unfold eui_ok in *; [rewrite Hq | rewrite H0]; reflexivity.
  - (* AGetApplication *)
    destruct (eui_from_str eui) as [e|] eqn:Ee; [|now split]. apply one_call; [exact Hok|]. now apply eui_from_str_ok in Ee.
  - (* ADeleteApplication *)
    destruct (eui_from_str eui) as [e|] eqn:Ee; [|now split]. apply eui_from_str_ok in Ee.
    destruct (refine_step s (GetApplicationByEUI e) Hok Ee) as [E _]. rewrite E. cbn [a_step fst snd].
    destruct (find (fun x => ap_eui x =? e) (a_apps s)) as [a|] eqn:Ef; [|now split].
    destruct (get_app_ok s e a Hok Ef) as [Ha He]. apply one_call; [exact Hok|]. cbn [regop_ok]. now apply app_ok_eui.
  - (* AListApplications *) now apply one_call.
  - (* ACreateDevice *)
    destruct (build_device r) as [d|c] eqn:Eb; [|now split]. apply one_call; [exact Hok|]. cbn [regop_ok]. now apply (build_device_ok r).
  - (* AUpdateDevice *)
    destruct (eui_from_str (opt_default (q_eui r) [])) as [e|] eqn:Ee; [|now split]. apply eui_from_str_ok in Ee.
    destruct (refine_step s (GetDeviceByEUI e) Hok Ee) as [E _]. rewrite E. cbn [a_step fst snd].
    destruct (find (fun x => rd_eui x =? e) (a_devs s)) as [d|] eqn:Ef; [|now split].
    destruct (get_dev_ok s e d Hok Ef) as [Hd He].
    destruct (apply_update r d) as [d'|c] eqn:Eu; [|now split].
    destruct (apply_update_ok r d d' Hq Hd Eu) as [Hd' _]. now apply one_call.
  - (* AGetDevice *)
    destruct (eui_from_str eui) as [e|] eqn:Ee; [|now split]. apply one_call; [exact Hok|]. now apply eui_from_str_ok in Ee.
  - (* ADeleteDevice *)
    destruct (eui_from_str eui) as [e|] eqn:Ee; [|now split]. apply eui_from_str_ok in Ee.
    destruct (refine_step s (GetDeviceByEUI e) Hok Ee) as [E _]. rewrite E. cbn [a_step fst snd].
    destruct (find (fun x => rd_eui x =? e) (a_devs s)) as [d|] eqn:Ef; [|now split].
    destruct (get_dev_ok s e d Hok Ef) as [Hd He]. apply one_call; [exact Hok|]. cbn [regop_ok]. now apply dev_ok_eui.
  - (* AListDevices *)
    destruct (eui_from_str app) as [e|] eqn:Ee; [|now split]. apply one_call; [exact Hok|]. now apply eui_from_str_ok in Ee.
  - (* ACreateGateway *)
    destruct (build_gateway r) as [g|c] eqn:Eb; [|now split]. apply one_call; [exact Hok|]. cbn [regop_ok]. now apply (build_gateway_ok r).
  - (* AUpdateGateway *)
    destruct (h_eui r) as [|c0 t0] eqn:Eh; [now split|]. destruct (coord_bad _ _); [now split|].
    destruct (eui_from_str (c0 :: t0)) as [e|] eqn:Ee; [|now split]. apply eui_from_str_ok in Ee.
    destruct (refine_step s (GetGateway e) Hok Ee) as [E _]. rewrite E. cbn [a_step fst snd].
    destruct (find (fun x => gw_eui x =? e) (a_gws s)) as [g|] eqn:Ef; [|now split].
    destruct (get_gw_ok s e g Hok Ef) as [Hg He]. apply one_call; [exact Hok|]. cbn [regop_ok].
    apply gw_ok_spec in Hg. apply gw_ok_spec. unfold apply_gw_update. cbn. exact Hg.
  - (* AGetGateway *)
    destruct eui as [|c0 t0]; [now split|]. destruct (eui_from_str (c0 :: t0)) as [e|] eqn:Ee; [|now split].
    apply one_call; [exact Hok|]. now apply eui_from_str_ok in Ee.
  - (* ADeleteGateway *)
    destruct eui as [|c0 t0]; [now split|]. destruct (eui_from_str (c0 :: t0)) as [e|] eqn:Ee; [|now split]. apply eui_from_str_ok in Ee.
    destruct (refine_step s (GetGateway e) Hok Ee) as [E _]. rewrite E. cbn [a_step fst snd].
    destruct (find (fun x => gw_eui x =? e) (a_gws s)) as [g|] eqn:Ef; [|now split].
    now apply one_call.
  - (* AListGateways *) now apply one_call.
  - (* AInbox *)
    destruct (eui_from_str eui) as [e|] eqn:Ee; [|now split]. apply one_call; [exact Hok|]. now apply eui_from_str_ok in Ee.
  - (* AOutbox *)
    destruct (eui_from_str eui) as [e|] eqn:Ee; [|now split]. apply one_call; [exact Hok|]. now apply eui_from_str_ok in Ee.
  - (* ASendMessage *)
    destruct (eui_from_str eui) as [e|] eqn:Ee; [|now split]. apply eui_from_str_ok in Ee.
    destruct ((223 <? port) || (port <? 1))%Z eqn:Ep; [now split|].
    apply one_call; [exact Hok|]. cbn [regop_ok]. apply andb_true_iff in Hq. destruct Hq as [Hp Hn].
    apply down_ok_spec. cbn. apply eui_ok_lt in Ee. apply orb_false_iff in Ep. destruct Ep as [P1 P2].
    repeat split; try assumption; try reflexivity; try lia. now apply hex_enc_ok.
Qed.

Definition anyop_ok (o : anyop) : bool := match o with OStore x => regop_ok x | OApi q => areq_ok q end.

(* every history of storage and service calls, with reopen anywhere *)
Theorem mixed_refines : forall ops s, store_ok s -> forallb anyop_ok ops = true ->
  mixed_run cstore c_step (enc_store s) ops
  = (enc_store (fst (mixed_run astore a_step s ops)), snd (mixed_run astore a_step s ops))
  /\ store_ok (fst (mixed_run astore a_step s ops)).
Proof.
  induction ops as [|o t IH]; intros s Hok Hops; [now split|].
  cbn [forallb] in Hops. apply andb_true_iff in Hops. destruct Hops as [Ho Ht].
  cbn [mixed_run]. destruct o as [x|q]; cbn [anyop_ok] in Ho; unfold mixed_step.
  - destruct (refine_step s x Hok Ho) as [E Hok1]. rewrite E. destruct (a_step s x) as [s1 r]. cbn [fst snd] in *.
    destruct (IH s1 Hok1 Ht) as [E2 Hok2]. rewrite E2. destruct (mixed_run astore a_step s1 t) as [s2 rs]. cbn. now split.
  - destruct (api_refines s q Hok Ho) as [E Hok1]. rewrite E. destruct (api_step astore a_step s q) as [s1 r]. cbn [fst snd] in *.
    destruct (IH s1 Hok1 Ht) as [E2 Hok2]. rewrite E2. destruct (mixed_run astore a_step s1 t) as [s2 rs]. cbn. now split.
Qed.
