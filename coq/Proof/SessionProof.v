(* A re-join against stragglers, for EVERY schedule: while a join of a device is being processed, uplink handlers
   of frames of the session the device is leaving may run at any point - before the join, between any two of its
   storage operations, after it. Whatever the interleaving, once the row holds the new session keys its two frame
   counters are zero: no handler of an old-session frame moves a counter of the new session (the counter statements
   AdvanceFCntUp / NextFCntDn are bound to the session key the frame was verified under, Model/Store.v). *)
From Coq Require Import String.
From Lospan Require Import Base.Bytes Base.Outcome Model.CMAC Model.FrameTypes Model.Crypto Gen.Consts Model.MacCmd
  Model.Frame Model.Join Model.Store Model.Server Model.Steps Proof.LocalProof Proof.SchedProof.
Open Scope N_scope.

Section Session.
  Variable E D : list N -> list N -> list N.
  Variable apps : list N.
  Variable ak : list N.     (* the device's AppKey (never changed by the pipeline) *)
  Variable knew : list N.   (* the network session key the join derives *)

  (* operations that cannot move a counter of the session knew, nor change the keys of the row *)
  Definition mild (o : sop) : Prop :=
    match o with
    | SAdvanceUp key _ _ _ => key <> knew
    | SNextDn key => key <> knew
    | SUpdateState d => d_fup d = 0 /\ d_fdn d = 0
    | SUpdateDevice _ => False
    | SGetRow => False
    | _ => True
    end.
  (* a handler that performs only such operations whatever they answer *)
  Inductive quiet : prog -> Prop :=
  | quiet_halt o : quiet (Halt o)
  | quiet_do o k : mild o -> (forall r, quiet (k r)) -> quiet (Do o k).
  (* an uplink handler: possibly still before its row read; whatever it reads, it is quiet afterwards *)
  Definition up (p : prog) : Prop := quiet p \/ exists k, p = Do SGetRow k /\ forall r, quiet (k r).
  (* the join handler before it stores the new session: it reads the row (which is still in another session), performs
     mild operations, and then stores the keys with zeroed counters; quiet from then on *)
  Inductive jpre : prog -> Prop :=
  | jpre_quiet p : quiet p -> jpre p
  | jpre_read k : (forall r, (forall dev, r = XRow (Some dev) -> d_appkey dev = ak /\ d_nwkskey dev <> knew) -> jpre (k r)) -> jpre (Do SGetRow k)
  | jpre_do o k : mild o -> (forall r, jpre (k r)) -> jpre (Do o k)
  | jpre_switch d k : d_appkey d = ak -> d_nwkskey d = knew -> d_fup d = 0 -> d_fdn d = 0 -> (forall r, quiet (k r)) -> jpre (Do (SUpdateDevice d) k).

  Definition old_session (st : dstate) : Prop := forall r, ds_row st = Some r -> d_appkey r = ak /\ d_nwkskey r <> knew.
  Definition new_session (st : dstate) : Prop := forall r, ds_row st = Some r -> d_appkey r = ak /\ d_nwkskey r = knew /\ d_fup r = 0 /\ d_fdn r = 0.

  (* a mild operation keeps the keys of the row; in the new session it leaves the zero counters *)
  Lemma mild_exec st o : mild o ->
    (old_session st -> old_session (fst (fst (exec apps st o)))) /\ (new_session st -> new_session (fst (fst (exec apps st o)))).
  Proof.
    intros M. destruct o; cbn [mild] in M; try contradiction; cbn [exec];
      try (split; intros H; exact H);
      try (split; intros H; cbn [fst]; unfold old_session, new_session in *; cbn [fst]; rewrite ?row_set_ack_flag, ?row_update_ack_time, ?row_reset_acks, ?row_set_payload, ?row_set_sent_time, ?row_set_ja; exact H).
    - (* UpdateDeviceState with zero counters *)
      destruct M as [M1 M2]. unfold l_update_device_state. destruct (ds_row st) as [r0|] eqn:Er; cbn [fst].
      + split; intros H r; cbn [ds_row with_row]; intros [= <-]; cbn; specialize (H r0 Er); [tauto|]. rewrite M1, M2. tauto.
      + split; intros H r Hr; rewrite Er in Hr; discriminate.
    - (* AdvanceFCntUp of another session *)
      unfold l_advance_fup. destruct (ds_row st) as [r0|] eqn:Er; cbn [fst].
      2:{ split; intros H r Hr; rewrite Er in Hr; discriminate. }
      destruct (d_fup r0 <=? accepted); cbn [andb fst]; [|split; intros H; exact H].
      destruct (bytes_eqb (d_nwkskey r0) key) eqn:Ek; cbn [fst]; [|split; intros H; exact H].
      apply bytes_eqb_spec in Ek. split; intros H r; cbn [ds_row with_row]; intros [= <-]; cbn; specialize (H r0 Er); [tauto|].
      exfalso. apply M. rewrite <- Ek. tauto.
    - (* NextFCntDn of another session *)
      unfold l_next_fdn. destruct (ds_row st) as [r0|] eqn:Er; cbn [fst].
      2:{ split; intros H r Hr; rewrite Er in Hr; discriminate. }
      destruct (bytes_eqb (d_nwkskey r0) key) eqn:Ek; cbn [negb fst]; [|split; intros H; exact H].
      apply bytes_eqb_spec in Ek. split; intros H r; cbn [ds_row with_row]; intros [= <-]; cbn; specialize (H r0 Er); [tauto|].
      exfalso. apply M. rewrite <- Ek. tauto.
    - pose proof (row_create_upstream st m) as R. destruct (l_create_upstream st m) as [st' e]. cbn [fst] in *.
      unfold old_session, new_session. rewrite R. tauto.
    - pose proof (row_get_phy st datr) as R. destruct (l_get_phy st datr) as [st' g]. cbn [fst] in *.
      unfold old_session, new_session. rewrite R. tauto.
    - unfold l_add_nonce. destruct (existsb _ _); cbn [fst]; split; intros H; exact H.
  Qed.

  Lemma quiet_up p : quiet p -> up p. Proof. now left. Qed.
  Lemma halt_up o : up (Halt o). Proof. left. constructor. Qed.

  (* the read of an uplink handler changes nothing *)
  Lemma exec_read st : fst (fst (exec apps st SGetRow)) = st. Proof. reflexivity. Qed.

  (* --- the invariant of an interleaved run --- *)
  Definition sinv (st : dstate) (ps : list prog) : Prop :=
    (old_session st /\ exists j pj, nth_error ps j = Some pj /\ jpre pj /\ forall i p, i <> j -> nth_error ps i = Some p -> up p) \/
    (new_session st /\ Forall up ps).

  Lemma up_step_old st o k : up (Do o k) -> old_session st ->
    old_session (fst (fst (exec apps st o))) /\ up (k (snd (fst (exec apps st o)))).
  Proof.
    intros [Q | (k' & Heq & Q)] H.
    - inversion Q as [|o' k' M Qk]; subst. split; [now apply mild_exec | left; apply Qk].
    - injection Heq as -> <-. split; [exact H | left; apply Q].
  Qed.
  Lemma up_step_new st o k : up (Do o k) -> new_session st ->
    new_session (fst (fst (exec apps st o))) /\ up (k (snd (fst (exec apps st o)))).
  Proof.
    intros [Q | (k' & Heq & Q)] H.
    - inversion Q as [|o' k' M Qk]; subst. split; [now apply mild_exec | left; apply Qk].
    - injection Heq as -> <-. split; [exact H | left; apply Q].
  Qed.

  Lemma Forall_replace (P : prog -> Prop) i p : forall ps, Forall P ps -> P p -> Forall P (replace_nth i p ps).
  Proof. induction i as [|i IH]; intros [|h t] H Hp; cbn; auto; inversion H; subst; constructor; auto. Qed.

  Definition settled (st : dstate) : Prop := old_session st \/ new_session st.
  Theorem interleaveN_session : forall fuel sched st ps acc, sinv st ps -> settled (fst (interleaveN apps sched fuel st ps acc)).
  Proof.
    assert (Base : forall st ps, sinv st ps -> settled st) by (intros st ps [[H _] | [H _]]; unfold settled; auto).
    induction fuel as [|fuel IH]; intros sched st ps acc Hinv; cbn [interleaveN]; [cbn [fst]; apply (Base st ps Hinv)|].
    destruct (choose (hd 0%nat sched) ps) as [i|]; [|cbn [fst]; apply (Base st ps Hinv)].
    destruct (nth_error ps i) as [[o0 | o k]|] eqn:Ei; try solve [cbn [fst]; apply (Base st ps Hinv)].
    destruct Hinv as [(Ho & j & pj & Ej & Jj & Hoth) | (Hn & Hall)].
    - destruct (Nat.eq_dec i j) as [->|Hne].
      + (* the join handler *)
        rewrite Ej in Ei. injection Ei as ->.
        inversion Jj as [p Q | k' Hr | o' k' M Hk | d k' A1 A2 A3 A4 Hk]; subst.
        * (* already quiet *)
          inversion Q as [|o' k' M Qk]; subst. pose proof (proj1 (mild_exec st o M) Ho) as H'.
          destruct (exec apps st o) as [[st' r] e]. cbn [fst] in H'. apply IH. left. split; [exact H'|].
          exists j. eexists. split; [apply (nth_replace_same j _ ps _ Ej)|]. split.
          -- apply jpre_quiet. destruct (_ && _); [constructor | apply Qk].
          -- intros i' p' Hi' Hp'. rewrite (nth_replace_other j _ ps i' Hi') in Hp'. eapply Hoth; eauto.
        * (* a read: the row is still of the old session *)
          cbn [exec]. apply IH. left. split; [exact Ho|].
          exists j. eexists. split; [apply (nth_replace_same j _ ps _ Ej)|]. split.
          -- destruct (_ && _); [apply jpre_quiet; constructor|]. apply Hr. intros dev Hd.
             destruct (ds_row st) as [r0|] eqn:Er; [|discriminate]. injection Hd as <-. cbn. exact (Ho r0 Er).
          -- intros i' p' Hi' Hp'. rewrite (nth_replace_other j _ ps i' Hi') in Hp'. eapply Hoth; eauto.
        * pose proof (proj1 (mild_exec st o M) Ho) as H'.
          destruct (exec apps st o) as [[st' r] e]. cbn [fst] in H'. apply IH. left. split; [exact H'|].
          exists j. eexists. split; [apply (nth_replace_same j _ ps _ Ej)|]. split.
          -- destruct (_ && _); [apply jpre_quiet; constructor | apply Hk].
          -- intros i' p' Hi' Hp'. rewrite (nth_replace_other j _ ps i' Hi') in Hp'. eapply Hoth; eauto.
        * (* the new session is stored *)
          cbn [exec]. unfold l_update_device. destruct (ds_row st) as [r0|] eqn:Er.
          -- apply IH. right. split.
             ++ intros r. cbn [ds_row with_row]. intros [= <-]. cbn. auto.
             ++ apply Forall_forall. intros p Hin. apply In_nth_error in Hin. destruct Hin as [i' Hi'].
                destruct (Nat.eq_dec i' j) as [->|Hne].
                ** rewrite (nth_replace_same j _ ps _ Ej) in Hi'. injection Hi' as <-. destruct (_ && _); [apply halt_up | left; apply Hk].
                ** rewrite (nth_replace_other j _ ps i' Hne) in Hi'. eapply Hoth; eauto.
          -- (* no row: nothing stored, and the handler is quiet from here *)
             apply IH. left. split; [exact Ho|]. exists j. eexists. split; [apply (nth_replace_same j _ ps _ Ej)|]. split.
             ++ apply jpre_quiet. destruct (_ && _); [constructor | apply Hk].
             ++ intros i' p' Hi' Hp'. rewrite (nth_replace_other j _ ps i' Hi') in Hp'. eapply Hoth; eauto.
      + (* an uplink handler, before the new session is stored *)
        assert (U : up (Do o k)) by (eapply Hoth; eauto).
        pose proof (up_step_old st o k U Ho) as [H' U']. destruct (exec apps st o) as [[st' r] e]. cbn [fst snd] in *.
        apply IH. left. split; [exact H'|]. exists j, pj. split; [rewrite (nth_replace_other i _ ps j); [exact Ej | congruence]|]. split; [exact Jj|].
        intros i' p' Hi' Hp'. destruct (Nat.eq_dec i' i) as [->|Hii].
        * rewrite (nth_replace_same i _ ps _ Ei) in Hp'. injection Hp' as <-. destruct (_ && _); [apply halt_up | exact U'].
        * rewrite (nth_replace_other i _ ps i' Hii) in Hp'. eapply Hoth; eauto.
    - (* after the new session is stored *)
      assert (U : up (Do o k)) by (rewrite Forall_forall in Hall; apply Hall; eapply nth_error_In; exact Ei).
      pose proof (up_step_new st o k U Hn) as [H' U']. destruct (exec apps st o) as [[st' r] e]. cbn [fst snd] in *.
      apply IH. right. split; [exact H'|]. apply Forall_replace; [exact Hall|]. destruct (_ && _); [apply halt_up | exact U'].
  Qed.

  (* --- the handlers of the pipeline are of these kinds --- *)
  Lemma quiet_enc_join dev j rx fin : quiet (enc_join_prog E D dev j rx fin).
  Proof.
    unfold enc_join_prog. apply quiet_do; [cbn; auto|]. intros [[e|]| | | | |]; try apply quiet_halt.
    destruct (encode_join_accept _ _ _ _ _ _); try apply quiet_halt. apply quiet_do; [exact I|]. intros _. apply quiet_halt.
  Qed.
  Lemma quiet_enc_data dev p rx created now fin : d_nwkskey dev <> knew -> quiet (enc_data_prog E dev p rx created now fin).
  Proof.
    intros Hk. unfold enc_data_prog. destruct (encode _); try apply quiet_halt. apply quiet_do; [exact Hk|].
    intros [| | | | |[c|]]; try apply quiet_halt. destruct (encode_message _ _ _ _); try apply quiet_halt.
    apply quiet_do; [exact I|]. intros _. destruct (_ =? _)%nat; [apply quiet_halt|]. apply quiet_do; [exact I|]. intros _. apply quiet_halt.
  Qed.
  Lemma quiet_send dev rx created now fin : d_nwkskey dev <> knew -> quiet (send_prog E D dev rx created now fin).
  Proof.
    intros Hk. unfold send_prog. apply quiet_do; [exact I|]. intros [| | |[| |p]| |]; try apply quiet_halt.
    destruct (po_mtype p =? JoinAccept); [destruct (po_ja p); apply quiet_enc_join|].
    destruct (_ || _); [apply quiet_halt | now apply quiet_enc_data].
  Qed.
  Lemma quiet_queue dev1 f rx now fin : d_nwkskey dev1 <> knew -> quiet (queue_prog E D dev1 f rx now fin).
  Proof.
    intros Hk. unfold queue_prog.
    assert (A : quiet (Do SGetNextUnsent (fun r => match r with
        | XMsg (Some m) => Do (SSetPayload (m_data m) (m_port m) (m_ack m)) (fun _ =>
                           Do (SSetSentTime (m_created m) now (fcnt f)) (fun _ => send_prog E D dev1 rx (m_created m) now fin))
        | _ => send_prog E D dev1 rx 0 now fin end))).
    { apply quiet_do; [exact I|]. intros [| |[m|]| | |]; try (now apply quiet_send).
      apply quiet_do; [exact I|]. intros _. apply quiet_do; [exact I|]. intros _. now apply quiet_send. }
    assert (B : quiet (if ack (fc f) then Do (SUpdateAckTime (fcnt f) now) (fun _ => Do SGetNextUnsent (fun r => match r with
        | XMsg (Some m) => Do (SSetPayload (m_data m) (m_port m) (m_ack m)) (fun _ =>
                           Do (SSetSentTime (m_created m) now (fcnt f)) (fun _ => send_prog E D dev1 rx (m_created m) now fin))
        | _ => send_prog E D dev1 rx 0 now fin end))
      else Do SResetAcks (fun _ => Do SGetNextUnsent (fun r => match r with
        | XMsg (Some m) => Do (SSetPayload (m_data m) (m_port m) (m_ack m)) (fun _ =>
                           Do (SSetSentTime (m_created m) now (fcnt f)) (fun _ => send_prog E D dev1 rx (m_created m) now fin))
        | _ => send_prog E D dev1 rx 0 now fin end)))).
    { destruct (ack (fc f)); (apply quiet_do; [exact I|]); intros _; exact A. }
    destruct (mtype f =? ConfirmedDataUp); [apply quiet_do; [exact I|]; intros _; exact B | exact B].
  Qed.

  (* an uplink handler of a frame that does not verify under the new session key *)
  Theorem uplink_prog_up f rx n now :
    (forall dev, d_nwkskey dev = knew -> mic_ok E f (rx_raw rx) dev = false) -> up (uplink_prog E D f rx n now).
  Proof.
    intros Hmic. right. unfold uplink_prog. eexists. split; [reflexivity|]. intros [|[dev|]| | | |]; try apply quiet_halt.
    destruct (mic_ok E f (rx_raw rx) dev) eqn:Em; cbn [negb]; [|apply quiet_halt].
    assert (Hk : d_nwkskey dev <> knew) by (intros Hk; rewrite (Hmic dev Hk) in Em; discriminate).
    destruct (stale dev f); [apply quiet_halt|].
    assert (Body : forall dev1, d_nwkskey dev1 = d_nwkskey dev -> quiet (
      Do (SCreateUpstream (mk_umsg dev1 rx (frm (frame_crypt E (d_nwkskey dev1) (d_appskey dev1) f)))) (fun r =>
        match r with
        | XErr None => Do (SGetApp (d_appeui dev1)) (fun r => match r with
            | XApp true => queue_prog E D dev1 f rx now [OPub (mk_pub dev1 rx (frm (frame_crypt E (d_nwkskey dev1) (d_appskey dev1) f)))]
            | _ => Halt [] end)
        | _ => Halt [] end))).
    { intros dev1 H1. apply quiet_do; [exact I|]. intros [[e|]| | | | |]; try apply quiet_halt.
      apply quiet_do; [exact I|]. intros [| | | |[|]|]; try apply quiet_halt. apply quiet_queue. now rewrite H1. }
    destruct (d_fup dev <=? fcnt f).
    - apply quiet_do; [exact Hk|]. intros [[[| |]|]| | | | |]; try apply quiet_halt; try (apply Body; reflexivity).
      destruct (d_relaxed dev); [apply Body; reflexivity | apply quiet_halt].
    - apply Body. reflexivity.
  Qed.

  (* the join handler, when the key it derives is knew *)
  Theorem join_prog_jpre cfg f rx appnonce newaddr :
    nwkskey_from_nonces E ak appnonce (cfg_netid cfg) (jr_devnonce (jr f)) = knew ->
    jpre (join_prog E D cfg f rx appnonce newaddr).
  Proof.
    intros Hkey. unfold join_prog. apply jpre_read. intros r Hr. destruct r as [|[dev0|]| | | |]; try (apply jpre_quiet; apply quiet_halt).
    destruct (negb _); [apply jpre_quiet; apply quiet_halt|].
    apply jpre_read. intros r' Hr'. destruct r' as [|[dev|]| | | |]; try (apply jpre_quiet; apply quiet_halt).
    destruct (Hr' dev eq_refl) as [Hak Hkn].
    destruct (negb (d_appeui dev =? _)); [apply jpre_quiet; apply quiet_halt|].
    destruct (_ && _); [apply jpre_quiet; apply quiet_halt|].
    apply jpre_do; [exact I|]. intros [| | | |[|]|]; try (apply jpre_quiet; apply quiet_halt).
    assert (Rest : jpre (Do (SUpdateDevice
        {| d_eui := d_eui dev; d_addr := if d_addr dev =? 0 then newaddr else d_addr dev; d_appkey := d_appkey dev;
           d_appskey := appskey_from_nonces E (d_appkey dev) appnonce (cfg_netid cfg) (jr_devnonce (jr f));
           d_nwkskey := nwkskey_from_nonces E (d_appkey dev) appnonce (cfg_netid cfg) (jr_devnonce (jr f));
           d_appeui := d_appeui dev; d_state := d_state dev; d_fup := 0; d_fdn := 0; d_relaxed := d_relaxed dev;
           d_keywarn := d_keywarn dev; d_nonces := d_nonces dev |})
        (fun r => match r with
         | XErr None => Do (SSetJoinAccept {| ja_appnonce := appnonce; ja_netid := N.land (cfg_netid cfg) 4294967295;
                              ja_devaddr := devaddr_of_u32 (if d_addr dev =? 0 then newaddr else d_addr dev); ja_rx1droffset := 0; ja_rx2dr := 5; ja_rxdelay := 1 |})
                          (fun _ => send_prog E D dev rx 0 0 [])
         | _ => Halt [] end))).
    { apply jpre_switch; cbn; try reflexivity; [exact Hak | now rewrite Hak|].
      intros [[e|]| | | | |]; try apply quiet_halt. apply quiet_do; [exact I|]. intros _. now apply quiet_send. }
    destruct (cfg_disable_nonce_check cfg); [exact Rest|].
    apply jpre_do; [exact I|]. intros [[e|]| | | | |]; try (apply jpre_quiet; apply quiet_halt). exact Rest.
  Qed.
End Session.

(* The statement: one join and any number of uplink handlers of frames that do not verify under the key the join
   derives, from a state whose row is in another session - for every schedule and every length of run: when the row
   holds the new session key afterwards, both its counters are zero. *)
Theorem stragglers_leave_the_new_session_alone E D apps cfg jf jrx appnonce newaddr
    (ups : list (frame * rxpacket * nat * N)) sched fuel st r acc :
  let knew := nwkskey_from_nonces E (d_appkey r) appnonce (cfg_netid cfg) (jr_devnonce (jr jf)) in
  ds_row st = Some r -> d_nwkskey r <> knew ->
  Forall (fun u => forall dev, d_nwkskey dev = knew -> mic_ok E (fst (fst (fst u))) (rx_raw (snd (fst (fst u)))) dev = false) ups ->
  forall r', ds_row (fst (interleaveN apps sched fuel st
      (join_prog E D cfg jf jrx appnonce newaddr :: map (fun u => uplink_prog E D (fst (fst (fst u))) (snd (fst (fst u))) (snd (fst u)) (snd u)) ups) acc)) = Some r' ->
    d_nwkskey r' = knew -> d_fup r' = 0 /\ d_fdn r' = 0.
Proof.
  intros knew Hr Hk Hups r' Hr' Hk'.
  set (ps := join_prog E D cfg jf jrx appnonce newaddr :: _) in Hr'.
  assert (Hinv : sinv (d_appkey r) knew st ps).
  { left. split; [intros r0 Hr0; rewrite Hr in Hr0; injection Hr0 as <-; auto|].
    exists 0%nat. eexists. split; [reflexivity|]. split; [now apply join_prog_jpre|].
    intros [|i] p Hi Hp; [congruence|]. cbn [nth_error ps] in Hp. apply nth_error_In in Hp. apply in_map_iff in Hp.
    destruct Hp as (u & <- & Hin). apply uplink_prog_up. rewrite Forall_forall in Hups. now apply Hups. }
  destruct (interleaveN_session E D apps (d_appkey r) knew fuel sched st ps acc Hinv) as [Ho | Hn].
  - destruct (Ho r' Hr') as [_ Hc]. contradiction.
  - destruct (Hn r' Hr') as (_ & _ & H1 & H2). auto.
Qed.

(* ---------- a witness with the concrete cipher: the premises are met, and the dangerous schedule is the harmless one ---------- *)
From Lospan Require Import Base.AES Spec.RefDevice.
Definition sj_raw : list N := ref_join_request aes_enc (repeat 0 16) [9;0;0;0;0;0;0;0] [1;0;0;0;0;0;0;0] [7;0].
Definition sj_frame : frame := match decode (mk_slice sj_raw []) with Ok f => f | _ => new_phy 0 end.
Definition sj_cfg : config := {| cfg_netid := 0; cfg_disable_nonce_check := false |}.
Definition sj_knew : list N := nwkskey_from_nonces aes_enc (d_appkey (w_dev 5 3)) [1;2;3] (cfg_netid sj_cfg) (jr_devnonce (jr sj_frame)).
(* the uplink handler of an old-session frame reads its row, the join runs from start to end, the handler goes on *)
Definition sj_sched : list nat := [1%nat] ++ repeat 0%nat 12 ++ repeat 1%nat 20.
Definition sj_progs : list prog := [join_prog aes_enc aes_dec sj_cfg sj_frame (w_rx sj_raw 100 1000) [1;2;3] 77; w_prog 5 200 2000].
Definition sj_result := interleaveN [9] sj_sched 60 (w_st 5 3) sj_progs [].
Example straggler_premises_hold :
  d_nwkskey (w_dev 5 3) <> sj_knew /\
  (forall dev, d_nwkskey dev = sj_knew -> mic_ok aes_enc (w_frame 5) (w_raw 5) dev = false) /\
  mic_ok aes_enc (w_frame 5) (w_raw 5) (w_dev 5 3) = true.
Proof.
  split; [vm_compute; discriminate|]. split; [|vm_compute; reflexivity].
  intros dev Hk. unfold mic_ok. rewrite Hk. vm_compute. reflexivity.
Qed.
Example straggler_schedule_is_harmless :
  option_map (fun r => (d_nwkskey r, d_fup r, d_fdn r)) (ds_row (fst sj_result)) = Some (sj_knew, 0, 0) /\
  length (ds_inbox (fst sj_result)) = 0%nat /\ length (snd sj_result) = 1%nat /\
  itraceN [9] sj_sched 60 (w_st 5 3) sj_progs =
    [(1%nat, "GetDevice"); (0%nat, "GetDevice"); (0%nat, "GetDevice"); (0%nat, "GetApplicationByEUI"); (0%nat, "AddDevNonce");
     (0%nat, "UpdateDevice"); (0%nat, "SetJoinAcceptPayload"); (0%nat, "GetPHYPayloadForDevice"); (0%nat, "UpdateDeviceState");
     (0%nat, "handoff:encOutput"); (1%nat, "AdvanceFCntUp")]%string.
Proof. vm_compute. repeat split. Qed.

Corollary stragglers_leave_the_new_uplink_counter_alone E D apps cfg jf jrx appnonce newaddr
    (ups : list (frame * rxpacket * nat * N)) sched fuel st r acc :
  let knew := nwkskey_from_nonces E (d_appkey r) appnonce (cfg_netid cfg) (jr_devnonce (jr jf)) in
  ds_row st = Some r -> d_nwkskey r <> knew ->
  Forall (fun u => forall dev, d_nwkskey dev = knew -> mic_ok E (fst (fst (fst u))) (rx_raw (snd (fst (fst u)))) dev = false) ups ->
  forall r', ds_row (fst (interleaveN apps sched fuel st
      (join_prog E D cfg jf jrx appnonce newaddr :: map (fun u => uplink_prog E D (fst (fst (fst u))) (snd (fst (fst u))) (snd (fst u)) (snd u)) ups) acc)) = Some r' ->
    d_nwkskey r' = knew -> d_fup r' = 0.
Proof. intros knew H1 H2 H3 r' H4 H5. exact (proj1 (stragglers_leave_the_new_session_alone E D apps cfg jf jrx appnonce newaddr ups sched fuel st r acc H1 H2 H3 r' H4 H5)). Qed.
Corollary stragglers_leave_the_new_downlink_counter_alone E D apps cfg jf jrx appnonce newaddr
    (ups : list (frame * rxpacket * nat * N)) sched fuel st r acc :
  let knew := nwkskey_from_nonces E (d_appkey r) appnonce (cfg_netid cfg) (jr_devnonce (jr jf)) in
  ds_row st = Some r -> d_nwkskey r <> knew ->
  Forall (fun u => forall dev, d_nwkskey dev = knew -> mic_ok E (fst (fst (fst u))) (rx_raw (snd (fst (fst u)))) dev = false) ups ->
  forall r', ds_row (fst (interleaveN apps sched fuel st
      (join_prog E D cfg jf jrx appnonce newaddr :: map (fun u => uplink_prog E D (fst (fst (fst u))) (snd (fst (fst u))) (snd (fst u)) (snd u)) ups) acc)) = Some r' ->
    d_nwkskey r' = knew -> d_fdn r' = 0.
Proof. intros knew H1 H2 H3 r' H4 H5. exact (proj2 (stragglers_leave_the_new_session_alone E D apps cfg jf jrx appnonce newaddr ups sched fuel st r acc H1 H2 H3 r' H4 H5)). Qed.
