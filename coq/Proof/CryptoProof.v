From Lospan Require Import Base.Bytes Model.CMAC Model.FrameTypes Model.Crypto.
From Coq Require Import ZifyNat ZifyN ZifyBool.
Ltac Zify.zify_post_hook ::= Z.div_mod_to_equations.

Lemma xorl_involutive p s : (length p <= length s)%nat -> xorl (xorl p s) s = p.
Proof.
  revert s; induction p as [|a t IH]; intros [|b s] H; cbn in *; try reflexivity; try lia.
  unfold xorl in *. cbn [map2]. rewrite IH by lia.
  rewrite N.lxor_assoc, N.lxor_nilpotent, N.lxor_0_r. reflexivity.
Qed.

Local Arguments payload_crypt : simpl never.
Section CryptoProof.
  Variable E : list N -> list N -> list N.
  Hypothesis E_len : forall k b, length (E k b) = 16%nat.

  Lemma keystream_length key up addr fcnt k : forall i,
    length (keystream E key up addr fcnt i k) = (16 * k)%nat.
  Proof.
    induction k as [|k IH]; intros i; cbn [keystream]; [reflexivity|].
    rewrite app_length, E_len, IH. lia.
  Qed.

  Theorem payload_crypt_involution key up addr fcnt p :
    payload_crypt E key up addr fcnt (payload_crypt E key up addr fcnt p) = p.
  Proof.
    unfold payload_crypt.
    assert (L : (length p <= length (keystream E key up addr fcnt 0 ((length p + 15) / 16)))%nat).
    { rewrite keystream_length. lia. }
    rewrite xorl_length. rewrite Nat.min_l by exact L.
    apply xorl_involutive. exact L.
  Qed.

  Theorem payload_crypt_length key up addr fcnt p :
    length (payload_crypt E key up addr fcnt p) = length p.
  Proof.
    unfold payload_crypt. rewrite xorl_length, keystream_length. lia.
  Qed.

  (* applying the frame cipher twice restores the frame; and it changes nothing but frm *)
  Theorem frame_crypt_involution nk ak f : frame_crypt E nk ak (frame_crypt E nk ak f) = f.
  Proof.
    unfold frame_crypt. destruct f; unfold set_frm; simpl.
    rewrite payload_crypt_involution. reflexivity.
  Qed.
  Theorem frame_crypt_only_frm nk ak f :
    set_frm (frame_crypt E nk ak f) (frm f) = f.
  Proof. destruct f; reflexivity. Qed.
End CryptoProof.
