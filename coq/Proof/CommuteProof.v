(* Handlers of DIFFERENT devices: every atomic operation of a handler reads and writes its own device's share of the
   store only (Model/Steps.v exec on dt_get t e), so operations performed for different devices commute - the answers
   they get, what they emit and every device's state afterwards are the same in either order. Any interleaving of
   handlers of different devices is therefore equivalent to running them device by device, which is what the
   per-device theorems (C03, C05-C10) speak about. *)
From Lospan Require Import Base.Bytes Model.FrameTypes Model.Store Model.Server Model.Steps Proof.ServerProof.
Open Scope N_scope.

Definition gexec (apps : list N) (t : dtab) (e : N) (o : sop) : dtab * sres * list out :=
  let '(st', r, outs) := exec apps (dt_get t e) o in (dt_put t e st', r, outs).

Theorem operations_of_different_devices_commute apps t e1 e2 o1 o2 : e1 <> e2 ->
  let a := gexec apps t e1 o1 in let ab := gexec apps (fst (fst a)) e2 o2 in
  let b := gexec apps t e2 o2 in let ba := gexec apps (fst (fst b)) e1 o1 in
  snd (fst a) = snd (fst ba) /\ snd a = snd ba /\ snd (fst ab) = snd (fst b) /\ snd ab = snd b /\
  forall e, dt_get (fst (fst ab)) e = dt_get (fst (fst ba)) e.
Proof.
  intros Hne. unfold gexec.
  destruct (exec apps (dt_get t e1) o1) as [[s1 r1] x1] eqn:E1.
  destruct (exec apps (dt_get t e2) o2) as [[s2 r2] x2] eqn:E2. cbn [fst snd].
  rewrite (dt_get_put_other t e1 e2 s1 Hne), E2. rewrite (dt_get_put_other t e2 e1 s2 (not_eq_sym Hne)), E1. cbn [fst snd].
  repeat split. intros e.
  destruct (N.eq_dec e e1) as [->|H1].
  - rewrite (dt_get_put_other _ e2 e1 s2 (not_eq_sym Hne)), !dt_get_put_same. reflexivity.
  - destruct (N.eq_dec e e2) as [->|H2].
    + rewrite dt_get_put_same, (dt_get_put_other _ e1 e2 s1 Hne), dt_get_put_same. reflexivity.
    + rewrite !dt_get_put_other by congruence. reflexivity.
Qed.
