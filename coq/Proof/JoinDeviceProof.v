(* C04, device side: the library's join-accept decoder (PHYPayload.DecodeJoinAccept, Model/Join.v decode_join_accept)
   accepts exactly the join-accepts a conformant device (Spec/RefDevice.v) accepts, and obtains the same device address.
   For every cipher with 16-octet blocks, every key and every 17-octet message typed join-accept. *)
From Lospan Require Import Base.Bytes Base.Outcome Model.CMAC Model.FrameTypes Model.Crypto Model.Frame Model.Join
  Spec.RFC4493 Spec.RefDevice Proof.BitLemmas Proof.CMACProof.
Open Scope N_scope.

Section JoinDevice.
  Variable E : list N -> list N -> list N.
  Hypothesis E_block : forall k b, length (E k b) = 16%nat /\ bytes_ok (E k b) = true.

  Lemma buffer_mic_is_mic4 k m : buffer_mic E k m = le_val (mic4 E k m).
  Proof. unfold buffer_mic, mic_of_tag, mic4. rewrite <- (cmac_is_rfc E E_block k m []). reflexivity. Qed.

  Lemma firstn_ok n l : bytes_ok l = true -> bytes_ok (firstn n l) = true.
  Proof.
    unfold bytes_ok. revert n. induction l as [|a t IH]; intros n H; destruct n; cbn [firstn forallb] in *; auto.
    apply andb_true_iff in H. destruct H as [H1 H2]. rewrite H1. cbn. now apply IH.
  Qed.
  Lemma skipn_ok n l : bytes_ok l = true -> bytes_ok (skipn n l) = true.
  Proof.
    unfold bytes_ok. revert n. induction l as [|a t IH]; intros n H; destruct n; cbn [skipn forallb] in *; auto.
    apply andb_true_iff in H. destruct H as [H1 H2]. now apply IH.
  Qed.

  Lemma mic4_wf k m : length (mic4 E k m) = 4%nat /\ bytes_ok (mic4 E k m) = true.
  Proof.
    unfold mic4. rewrite <- (cmac_is_rfc E E_block k m []). fold (cmac E k m).
    assert (W : length (cmac E k m) = 16%nat /\ bytes_ok (cmac E k m) = true).
    { unfold cmac, aescmac. destruct (subkeys E k) as [k1 k2].
      destruct ((length m + 15) / 16 =? 0)%nat; [cbn [fst]; apply E_block|].
      destruct (length m mod 16 =? 0)%nat; cbn [fst]; apply E_block. }
    destruct W as [L O]. split; [rewrite firstn_length; lia | now apply firstn_ok].
  Qed.

  (* the two MIC tests agree: the library compares the 32-bit values, the reference device the four octets *)
  Lemma mic_tests_agree k m s : length s = 4%nat -> bytes_ok s = true ->
    (buffer_mic E k m =? le_val s) = bytes_eqb (mic4 E k m) s.
  Proof.
    intros Ls Os. rewrite buffer_mic_is_mic4. destruct (mic4_wf k m) as [Lm Om].
    destruct (bytes_eqb (mic4 E k m) s) eqn:Hb.
    - apply bytes_eqb_spec in Hb. rewrite Hb. apply N.eqb_refl.
    - apply N.eqb_neq. intros Heq. assert (X : mic4 E k m = s).
      { rewrite <- (le_bytes_le_val (mic4 E k m) Om), <- (le_bytes_le_val s Os), Lm, Ls, Heq. reflexivity. }
      apply bytes_eqb_spec in X. rewrite X in Hb. discriminate.
  Qed.

  Lemma addr_parts a : a < 4294967296 ->
    devaddr_u32 {| nwkid := N.land (N.shiftr (N.land a 4261412864) 25) 255; nwkaddr := N.land a 33554431 |} = a.
  Proof.
    intros Ha. unfold devaddr_u32. cbn [nwkid nwkaddr].
    change 4261412864 with (N.shiftl 127 25). rewrite N.shiftr_land.
    change (N.shiftr (N.shiftl 127 25) 25) with 127.
    rewrite land_127, land_255, !land_33554431, land_4294967295, N.shiftr_div_pow2, N.shiftl_mul_pow2.
    change (2 ^ 25) with 33554432.
    assert (H0 : ((a / 33554432) mod 128) mod 256 = a / 33554432) by lia. rewrite H0.
    assert (H2 : (a / 33554432 * 33554432) mod 4294967296 = a / 33554432 * 33554432) by lia. rewrite H2.
    assert (H3 : (a mod 33554432) mod 33554432 = a mod 33554432) by lia. rewrite H3.
    change 33554432 with (2 ^ 25). rewrite lor_disjoint by (apply N.mod_lt; discriminate).
    change (2 ^ 25) with 33554432. lia.
  Qed.

  Lemma le_val_4_bound l : length l = 4%nat -> bytes_ok l = true -> le_val l < 4294967296.
  Proof.
    intros L O. destruct l as [|a [|b [|c [|d [|? ?]]]]]; try discriminate L.
    unfold bytes_ok in O. cbn [forallb] in O. rewrite !andb_true_iff in O. destruct O as (Ha & Hb & Hc & Hd & _).
    apply N.ltb_lt in Ha, Hb, Hc, Hd. cbn [le_val]. lia.
  Qed.

  Theorem library_device_accepts_what_the_reference_device_accepts appkey dn2 b0 enc :
    length enc = 16%nat -> b0 / 32 = 1 ->
    match decode_join_accept E appkey (b0 :: enc) with
    | Ok j => exists nk ak, ref_on_join_accept E appkey dn2 (b0 :: enc) = Some (devaddr_u32 (ja_devaddr j), nk, ak)
    | Err e => e = ErrInvalidMIC /\ ref_on_join_accept E appkey dn2 (b0 :: enc) = None
    | Panic => False
    end.
  Proof.
    intros Le Hb. unfold decode_join_accept, ref_on_join_accept. rewrite Le. cbn [Nat.eqb negb orb].
    rewrite Hb. change (1 =? 1) with true. cbn [negb orb].
    destruct (E_block appkey enc) as [Ld Od]. set (dec := E appkey enc) in *.
    assert (Ls : length (skipn 12 dec) = 4%nat) by (rewrite skipn_length, Ld; reflexivity).
    assert (Os : bytes_ok (skipn 12 dec) = true) by (apply skipn_ok, Od).
    rewrite (mic_tests_agree appkey (b0 :: firstn 12 dec) (skipn 12 dec) Ls Os).
    destruct (bytes_eqb (mic4 E appkey (b0 :: firstn 12 dec)) (skipn 12 dec)); cbn [negb].
    - eexists. eexists. cbn [ja_devaddr]. rewrite addr_parts; [reflexivity|].
      apply le_val_4_bound; [rewrite firstn_length, skipn_length, Ld; reflexivity | apply firstn_ok, skipn_ok, Od].
    - split; reflexivity.
  Qed.
End JoinDevice.
