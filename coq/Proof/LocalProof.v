(* One device's share of the server as a sequential machine: what uplinks, joins and
   submissions do to its state, and the invariants of C03 / C07 over every history. *)
From Coq Require Import String Sorted.
From Lospan Require Import Base.Bytes Base.Outcome Model.CMAC Model.FrameTypes Model.Crypto Gen.Consts Model.MacCmd
  Model.Frame Model.Join Model.Store Model.Server Proof.BitLemmas Proof.EncodableProof.
Open Scope N_scope.

(* operations that never touch the device row *)
Lemma row_set_ack_flag st b : ds_row (l_set_ack_flag st b) = ds_row st. Proof. reflexivity. Qed.
Lemma row_set_payload st p q a : ds_row (l_set_payload st p q a) = ds_row st. Proof. reflexivity. Qed.
Lemma row_set_ja st j : ds_row (l_set_join_accept st j) = ds_row st. Proof. reflexivity. Qed.
Lemma row_upd_outbox st f sel : ds_row (upd_outbox st f sel) = ds_row st. Proof. reflexivity. Qed.
Lemma row_set_sent_time st c n f : ds_row (l_set_sent_time st c n f) = ds_row st. Proof. reflexivity. Qed.
Lemma row_update_ack_time st f n : ds_row (l_update_ack_time st f n) = ds_row st. Proof. reflexivity. Qed.
Lemma row_reset_acks st : ds_row (l_reset_active_acks st) = ds_row st. Proof. reflexivity. Qed.
Lemma row_get_phy st d : ds_row (fst (l_get_phy st d)) = ds_row st.
Proof.
  unfold l_get_phy. destruct (ds_fb st) as [fd|]; [|reflexivity].
  destruct (_ && _ && _); [reflexivity|]. destruct (0 <? _)%nat; [|reflexivity].
  destruct (max_payload d); [|reflexivity]. destruct (_ <? _)%nat; reflexivity.
Qed.
Lemma row_create_upstream st m : ds_row (fst (l_create_upstream st m)) = ds_row st.
Proof. unfold l_create_upstream. destruct (existsb _ _); reflexivity. Qed.
Lemma inbox_create_upstream st m st' : l_create_upstream st m = (st', None) -> ds_inbox st' = ds_inbox st ++ [m].
Proof. unfold l_create_upstream. destruct (existsb _ _); [discriminate|]. now intros [= <-]. Qed.

(* what a device row may become without a join: counters and key warning only *)
Definition same_session (r r' : device) : Prop :=
  d_eui r' = d_eui r /\ d_addr r' = d_addr r /\ d_appkey r' = d_appkey r /\ d_appskey r' = d_appskey r /\
  d_nwkskey r' = d_nwkskey r /\ d_appeui r' = d_appeui r /\ d_relaxed r' = d_relaxed r.
Lemma same_session_refl r : same_session r r. Proof. now repeat split. Qed.
Lemma same_session_trans a b c : same_session a b -> same_session b c -> same_session a c.
Proof. unfold same_session. intuition congruence. Qed.

Lemma uds_row st dev st' : l_update_device_state st dev = (st', None) ->
  exists r, ds_row st = Some r /\
    ds_row st' = Some {| d_eui := d_eui r; d_addr := d_addr r; d_appkey := d_appkey r; d_appskey := d_appskey r;
                         d_nwkskey := d_nwkskey r; d_appeui := d_appeui r; d_state := d_state r;
                         d_fup := d_fup dev; d_fdn := d_fdn dev; d_relaxed := d_relaxed r; d_keywarn := d_keywarn dev; d_nonces := [] |} /\
    ds_inbox st' = ds_inbox st /\ ds_outbox st' = ds_outbox st /\ ds_nonces st' = ds_nonces st /\ ds_fb st' = ds_fb st.
Proof.
  unfold l_update_device_state. destruct (ds_row st) as [r|]; [|discriminate]. intros [= <-].
  exists r. repeat split.
Qed.
Lemma uds_fail st dev st' e : l_update_device_state st dev = (st', Some e) -> st' = st.
Proof. unfold l_update_device_state. destruct (ds_row st); [discriminate|]. now intros [= <-]. Qed.

Lemma keq_refl k : bytes_eqb k k = true.
Proof. now apply bytes_eqb_spec. Qed.
Lemma adv_row st key a nf kw st' : l_advance_fup st key a nf kw = (st', None) ->
  exists r, ds_row st = Some r /\ d_fup r <= a /\
    ds_row st' = Some {| d_eui := d_eui r; d_addr := d_addr r; d_appkey := d_appkey r; d_appskey := d_appskey r;
                         d_nwkskey := d_nwkskey r; d_appeui := d_appeui r; d_state := d_state r;
                         d_fup := nf; d_fdn := d_fdn r; d_relaxed := d_relaxed r; d_keywarn := kw; d_nonces := [] |} /\
    ds_inbox st' = ds_inbox st /\ ds_outbox st' = ds_outbox st /\ ds_nonces st' = ds_nonces st /\ ds_fb st' = ds_fb st.
Proof.
  unfold l_advance_fup. destruct (ds_row st) as [r|]; [|discriminate]. destruct (N.leb_spec (d_fup r) a) as [L|L]; [|discriminate].
  destruct (bytes_eqb (d_nwkskey r) key); [|discriminate]. intros [= <-]. exists r. repeat split. exact L.
Qed.
Lemma adv_row_key st key a nf kw st' r : l_advance_fup st key a nf kw = (st', None) -> ds_row st = Some r -> d_nwkskey r = key.
Proof.
  unfold l_advance_fup. intros H Hr. rewrite Hr in H. destruct (d_fup r <=? a); [|discriminate].
  destruct (bytes_eqb (d_nwkskey r) key) eqn:E; [|discriminate]. now apply bytes_eqb_spec.
Qed.
Lemma adv_fail st key a nf kw st' e : l_advance_fup st key a nf kw = (st', Some e) -> st' = st /\ e = SNotFound.
Proof. unfold l_advance_fup. destruct (ds_row st) as [r|]; [destruct ((d_fup r <=? a) && bytes_eqb (d_nwkskey r) key)|]; intros [= <- <-]; auto. Qed.
Lemma next_row st key st' c : l_next_fdn st key = (st', Some c) ->
  exists r, ds_row st = Some r /\ c = d_fdn r /\
    ds_row st' = Some {| d_eui := d_eui r; d_addr := d_addr r; d_appkey := d_appkey r; d_appskey := d_appskey r;
                         d_nwkskey := d_nwkskey r; d_appeui := d_appeui r; d_state := d_state r;
                         d_fup := d_fup r; d_fdn := (d_fdn r + 1) mod 65536; d_relaxed := d_relaxed r; d_keywarn := d_keywarn r; d_nonces := [] |} /\
    ds_inbox st' = ds_inbox st /\ ds_outbox st' = ds_outbox st /\ ds_nonces st' = ds_nonces st /\ ds_fb st' = ds_fb st.
Proof.
  unfold l_next_fdn. destruct (ds_row st) as [r|]; [|discriminate]. destruct (negb (bytes_eqb (d_nwkskey r) key)); [discriminate|].
  intros [= <- <-]. exists r. repeat split.
Qed.
Lemma next_none st key st' : l_next_fdn st key = (st', None) -> st' = st /\ (ds_row st = None \/ exists r, ds_row st = Some r /\ d_nwkskey r <> key).
Proof.
  unfold l_next_fdn. destruct (ds_row st) as [r|]; [|intros [= <-]; auto].
  destruct (bytes_eqb (d_nwkskey r) key) eqn:E; cbn [negb]; [discriminate|]. intros [= <-]. split; [reflexivity|]. right. exists r. split; [reflexivity|].
  intros H. apply bytes_eqb_spec in H. congruence.
Qed.
(* within the session the statement finds the row *)
Lemma next_same_session st r : ds_row st = Some r -> exists st', l_next_fdn st (d_nwkskey r) = (st', Some (d_fdn r)).
Proof. intros H. unfold l_next_fdn. rewrite H, keq_refl. cbn [negb]. eexists. reflexivity. Qed.

Section Local.
  Variable E D : list N -> list N -> list N.

  Lemma encoder_join_row st dev j rx r :
    ds_row st = Some r ->
    let st' := fst (encoder_join E D st dev j rx) in
    (ds_row st' = Some r /\ snd (encoder_join E D st dev j rx) = []) \/
    (exists r', ds_row st' = Some r' /\ same_session r r' /\ d_fup r' = 0 /\ d_fdn r' = 0).
  Proof.
    intros Hr. unfold encoder_join. destruct (l_update_device_state _ _) as [st1 [e|]] eqn:U; cbn [fst snd].
    - apply uds_fail in U. subst st1. left. now split.
    - apply uds_row in U. destruct U as (r0 & R0 & R1 & _). rewrite Hr in R0. injection R0 as <-.
      right. eexists. split; [destruct (encode_join_accept _ _ _ _ _ _); exact R1|]. cbn. repeat split.
  Qed.

  (* the sequential uplink step of one device: the handler works on the row it has just read *)
  Definition l_uplink (apps : list N) (st : dstate) (f : frame) (rx : rxpacket) (n : nat) (now : N) : dstate * list out :=
    match ds_row st with
    | Some r => process_message E D apps st (load st r) f rx n now
    | None => (st, [])
    end.

  Definition downs (outs : list out) : list downlink := flat_map (fun o => match o with ODown d => [d] | _ => [] end) outs.

  (* between events the buffer entry of a device, if any, is typed as a data downlink *)
  Definition down_type (m : N) : Prop := m = UnconfirmedDataDown \/ m = ConfirmedDataDown.
  Definition fb_down (st : dstate) : Prop := match ds_fb st with Some fd => down_type (fo_mtype fd) | None => True end.

  Lemma pm_counter_spec st dev f n st1 dev1 r :
    ds_row st = Some r -> d_eui dev = d_eui r -> d_fup dev = d_fup r -> d_fdn dev = d_fdn r -> d_nwkskey dev = d_nwkskey r ->
    pm_counter st dev f n = Some (st1, dev1) ->
    exists r1, ds_row st1 = Some r1 /\ same_session r r1 /\ d_fdn dev1 = d_fdn dev /\ d_eui dev1 = d_eui dev /\
      d_nwkskey dev1 = d_nwkskey dev /\ d_appskey dev1 = d_appskey dev /\ d_addr dev1 = d_addr dev /\
      ds_inbox st1 = ds_inbox st /\ ds_outbox st1 = ds_outbox st /\ ds_fb st1 = ds_fb st /\ ds_nonces st1 = ds_nonces st /\
      ((d_fup dev <=? fcnt f) = true /\ d_fup dev1 = (fcnt f + 1) mod 65536 /\ d_fup r1 = d_fup dev1 /\ d_fdn r1 = d_fdn dev \/
       (d_fup dev <=? fcnt f) = false /\ d_fup dev1 = d_fup dev /\ r1 = r).
  Proof.
    intros Hr He Hfu Hfd Hk. unfold pm_counter. destruct (d_fup dev <=? fcnt f) eqn:Ec.
    - destruct (l_advance_fup _ _ _ _ _) as [x [e|]] eqn:U.
      + (* the handler's copy agrees with the row, so the store's comparison succeeds too *)
        exfalso. unfold l_advance_fup in U. rewrite Hr in U. rewrite <- Hfu, Ec, Hk, keq_refl in U. discriminate.
      + intros [= <- <-].
        apply adv_row in U. destruct U as (r0 & R0 & _ & R1 & R2 & R3 & R4 & R5). rewrite Hr in R0. injection R0 as <-.
        eexists. split; [exact R1|]. cbn. repeat split; auto.
    - intros [= <- <-]. exists r. split; [exact Hr|]. split; [apply same_session_refl|]. cbn. repeat split; auto.
  Qed.

  Definition valid_datr (rx : rxpacket) : Prop := max_payload (r_datr (rx_radio rx)) <> None.

  Lemma down_type_not_ja m : down_type m -> (m =? JoinAccept) = false /\
    (mtype_uplink m || (m =? RFU) || (m =? Proprietary)) = false.
  Proof. intros [-> | ->]; split; reflexivity. Qed.

  (* GetPHYPayloadForDevice on a data entry: a data frame or nothing, and the entry stays a data entry *)
  Lemma get_phy_data st d : fb_down st -> max_payload d <> None ->
    fb_down (fst (l_get_phy st d)) /\
    match snd (l_get_phy st d) with
    | GetOk p => down_type (po_mtype p)
    | GetNone => True
    | GetErr => False
    end.
  Proof.
    intros Hj Hd. unfold l_get_phy, fb_down in *. destruct (ds_fb st) as [fd|] eqn:Ef; [|cbn; rewrite Ef; auto].
    destruct (_ && _ && _); [cbn; auto|].
    destruct (down_type_not_ja _ Hj) as [Hm _].
    destruct (0 <? _)%nat.
    - destruct (max_payload d) as [mn|]; [|contradiction]. destruct (_ <? _)%nat; cbn; rewrite Hm; split; exact Hj.
    - cbn. rewrite Hm. split; exact Hj.
  Qed.

  Lemma encode_length f bs : encode f = Ok bs -> (12 <= length bs)%nat.
  Proof.
    unfold encode. destruct (_ || _ || _); [discriminate|]. destruct (15 <? _); [discriminate|].
    destruct (set_encode _ _ _) as [fo| |]; cbn [bind]; try discriminate.
    destruct (223 <? _); [discriminate|]. destruct (_ && _); [discriminate|].
    match goal with |- (do body <- ?b; _) = _ -> _ => destruct b as [body| |] end; cbn [bind]; try discriminate.
    destruct (_ <? _)%nat; [discriminate|]. intros [= <-].
    cbn [length]. rewrite !app_length. cbn [length]. lia.
  Qed.
  Lemma encode_message_length nk ak f bs : encode_message E nk ak f = Ok bs -> (12 <= length bs)%nat.
  Proof.
    unfold encode_message. destruct (encode _) as [buf| |]; cbn [bind]; try discriminate.
    destruct (_ <? _)%nat; [discriminate|]. apply encode_length.
  Qed.

  (* the block cipher returns blocks: needed only to know that the trial marshalling decides for the encrypted frame *)
  Hypothesis E_len : forall k b, length (E k b) = 16%nat.

  (* the row after the encoder ran for a data frame, when the handler's copy agrees with the row: nothing changed
     and nothing sent (no counter is spent on a frame that cannot be marshalled); or one frame numbered with
     the stored downlink counter, and the stored counter one above it *)
  Lemma encoder_data_row st dev p rx c now r :
    ds_row st = Some r -> d_fup dev = d_fup r -> d_fdn dev = d_fdn r ->
    let res := encoder_data E st dev p rx c now in
    (ds_row (fst res) = Some r /\ snd res = []) \/
    (exists r' buf, ds_row (fst res) = Some r' /\ same_session r r' /\ d_fup r' = d_fup dev /\ d_fdn r' = (d_fdn dev + 1) mod 65536 /\
       encode_message E (d_nwkskey dev) (d_appskey dev) (downlink_frame dev p (d_fdn dev)) = Ok buf /\
       snd res = [ODown {| dl_raw := buf; dl_radio := rx_radio rx; dl_gw := rx_gw rx; dl_rx1delay := 1; dl_eui := d_eui dev |}]).
  Proof.
    intros Hr Hfu Hfd. unfold encoder_data. destruct (encode (downlink_frame dev p 0)) as [b0| |] eqn:T; [|left; now split|left; now split].
    destruct (l_next_fdn st) as [st1 [cn|]] eqn:U.
    2:{ apply next_none in U. destruct U as [-> _]. left. now split. }
    apply next_row in U. destruct U as (r0 & R0 & Hc & R1 & _). rewrite Hr in R0. injection R0 as <-. subst cn. rewrite <- Hfd.
    destruct (trial_decides E E_len dev p b0 (d_nwkskey dev) (d_appskey dev) (d_fdn dev) T) as [buf Em]. rewrite Em. cbn [fst snd].
    right. eexists. exists buf. rewrite row_set_sent_time. split; [exact R1|]. cbn. rewrite Hfu, Hfd. repeat split.
    pose proof (encode_message_length _ _ _ _ Em) as L. destruct (length buf =? 0)%nat eqn:E0; [apply Nat.eqb_eq in E0; lia|reflexivity].
  Qed.

  Lemma pm_queue_props st f now :
    ds_row (fst (pm_queue st f now)) = ds_row st /\ ds_inbox (fst (pm_queue st f now)) = ds_inbox st /\
    ds_nonces (fst (pm_queue st f now)) = ds_nonces st /\
    (fb_down st -> fb_down (fst (pm_queue st f now))).
  Proof.
    unfold pm_queue.
    set (st3 := if mtype f =? ConfirmedDataUp then l_set_ack_flag st true else st).
    set (st4 := if ack (fc f) then l_update_ack_time st3 (fcnt f) now else l_reset_active_acks st3).
    assert (H3 : ds_row st3 = ds_row st /\ ds_inbox st3 = ds_inbox st /\ ds_nonces st3 = ds_nonces st /\ (fb_down st -> fb_down st3)).
    { unfold st3. destruct (mtype f =? ConfirmedDataUp); [|auto]. repeat split. unfold fb_down, l_set_ack_flag. cbn.
      destruct (ds_fb st) as [fd|]; cbn; [auto | intros _; now left]. }
    assert (H4 : ds_row st4 = ds_row st /\ ds_inbox st4 = ds_inbox st /\ ds_nonces st4 = ds_nonces st /\ (fb_down st -> fb_down st4)).
    { unfold st4. destruct H3 as (A & B & C & F). destruct (ack (fc f)); repeat split; auto. }
    destruct H4 as (A & B & C & F).
    destruct (l_get_next_unsent st4) as [m|]; cbn [fst]; [|auto].
    repeat split; auto. intros _. unfold fb_down. cbn. destruct (m_ack m); [now right | now left].
  Qed.

  (* the row, inbox and outputs after one sequential uplink of a device *)
  Definition uplink_summary (st : dstate) (r : device) (f : frame) (res : dstate * list out) : Prop :=
    exists r', ds_row (fst res) = Some r' /\ same_session r r' /\ fb_down (fst res) /\ ds_nonces (fst res) = ds_nonces st /\
      (stale r f = true -> res = (st, [])) /\
      (* the expected uplink counter only moves past an accepted counter *)
      (d_fup r' = d_fup r \/ ((d_fup r <=? fcnt f) = true /\ d_fup r' = (fcnt f + 1) mod 65536)) /\
      (* a frame is recorded only if it is not stale, and recording it moves the counter past it *)
      (ds_inbox (fst res) = ds_inbox st \/
       (stale r f = false /\ (exists m, ds_inbox (fst res) = ds_inbox st ++ [m]) /\
        ((d_fup r <=? fcnt f) = true -> d_fup r' = (fcnt f + 1) mod 65536))) /\
      (* at most one downlink, numbered with the stored downlink counter, which then grows by one *)
      ((downs (snd res) = [] /\ d_fdn r' = d_fdn r) \/
       (exists dl fr, downs (snd res) = [dl] /\ dl_eui dl = d_eui r /\ d_fdn r' = (d_fdn r + 1) mod 65536 /\
          fcnt fr = d_fdn r /\ f_devaddr fr = devaddr_of_u32 (d_addr r) /\ down_type (mtype fr) /\
          encode_message E (d_nwkskey r) (d_appskey r) fr = Ok (dl_raw dl))).

  Lemma downs_app a b : downs (a ++ b) = downs a ++ downs b.
  Proof. unfold downs. apply flat_map_app. Qed.

  Lemma stale_load st r f : stale (load st r) f = stale r f. Proof. reflexivity. Qed.

  Lemma summary_unchanged st r f : ds_row st = Some r -> fb_down st -> uplink_summary st r f (st, []).
  Proof.
    intros Hr Hfb. exists r. cbn [fst snd].
    split; [exact Hr|]. split; [apply same_session_refl|]. split; [exact Hfb|]. split; [reflexivity|].
    split; [reflexivity|]. split; [now left|]. split; [now left|]. left. now split.
  Qed.

  Lemma l_uplink_summary apps st f rx n now r :
    ds_row st = Some r -> fb_down st -> valid_datr rx ->
    uplink_summary st r f (l_uplink apps st f rx n now).
  Proof.
    intros Hr Hfb Hd. unfold l_uplink. rewrite Hr. unfold process_message. rewrite stale_load.
    destruct (stale r f) eqn:Es; [apply summary_unchanged; assumption|].
    destruct (pm_counter st (load st r) f n) as [[st1 dev1]|] eqn:Ec.
    2:{ apply summary_unchanged; assumption. }
    destruct (pm_counter_spec st (load st r) f n st1 dev1 r Hr eq_refl eq_refl eq_refl eq_refl Ec)
      as (r1 & R1 & S1 & Fd1 & Eu1 & Kn1 & Ka1 & Ad1 & I1 & O1 & B1 & N1 & Hc).
    cbn [load d_fup d_fdn d_eui d_nwkskey d_appskey d_addr] in *.
    assert (Hup : d_fup r1 = d_fup r \/ ((d_fup r <=? fcnt f) = true /\ d_fup r1 = (fcnt f + 1) mod 65536)).
    { destruct Hc as [(C1 & C2 & C3 & C4)|(C1 & C2 & C3)]; [right; split; [exact C1|congruence] | left; now subst]. }
    assert (Hfd1 : d_fdn r1 = d_fdn r).
    { destruct Hc as [(C1 & C2 & C3 & C4)|(C1 & C2 & C3)]; [exact C4 | now subst]. }
    assert (Hacc : (d_fup r <=? fcnt f) = true -> d_fup r1 = (fcnt f + 1) mod 65536).
    { intros H. destruct Hc as [(C1 & C2 & C3 & C4)|(C1 & C2 & C3)]; congruence. }
    assert (Hdf : d_fup dev1 = d_fup r1) by (destruct Hc as [(C1 & C2 & C3 & C4)|(C1 & C2 & C3)]; [congruence | subst; congruence]).
    assert (Hfb1 : fb_down st1) by (unfold fb_down in *; now rewrite B1).
    destruct (l_create_upstream st1 _) as [st2 [e|]] eqn:Eu.
    { (* duplicate primary key: the row is not recorded *)
      assert (st2 = st1) by (unfold l_create_upstream in Eu; destruct (existsb _ _); inversion Eu; reflexivity). subst st2.
      exists r1. cbn [fst snd].
      split; [exact R1|]. split; [exact S1|]. split; [exact Hfb1|]. split; [exact N1|]. split; [intros HH; congruence|].
      split; [exact Hup|]. split; [left; exact I1|]. left. split; [reflexivity|exact Hfd1]. }
    pose proof (inbox_create_upstream _ _ _ Eu) as Hin. rewrite I1 in Hin.
    assert (R2 : ds_row st2 = Some r1) by (rewrite <- R1; pose proof (row_create_upstream st1 (mk_umsg dev1 rx (frm (frame_crypt E (d_nwkskey dev1) (d_appskey dev1) f)))) as X; rewrite Eu in X; exact X).
    assert (F2 : ds_fb st2 = ds_fb st1 /\ ds_nonces st2 = ds_nonces st1).
    { unfold l_create_upstream in Eu. destruct (existsb _ _); inversion Eu; split; reflexivity. }
    destruct F2 as [F2 N2].
    assert (Hfb2 : fb_down st2) by (unfold fb_down in *; now rewrite F2).
    assert (Hrec : forall stx, ds_inbox stx = ds_inbox st2 ->
               stale r f = false /\ (exists m, ds_inbox stx = ds_inbox st ++ [m]) /\ ((d_fup r <=? fcnt f) = true -> d_fup r1 = (fcnt f + 1) mod 65536)).
    { intros stx Hx. split; [exact Es|]. split; [eexists; rewrite Hx; exact Hin | exact Hacc]. }
    destruct (negb (has_app apps (d_appeui dev1))).
    { exists r1. cbn [fst snd].
      split; [exact R2|]. split; [exact S1|]. split; [exact Hfb2|]. split; [congruence|]. split; [intros HH; congruence|].
      split; [exact Hup|]. split; [right; now apply Hrec|]. left. split; [reflexivity|exact Hfd1]. }
    cbv zeta.
    destruct (pm_queue_props st2 f now) as (Q1 & Q2 & Q3 & Q4).
    set (q := pm_queue st2 f now) in *.
    unfold send_for.
    destruct (get_phy_data (fst q) (r_datr (rx_radio rx)) (Q4 Hfb2) Hd) as [G1 G2].
    pose proof (row_get_phy (fst q) (r_datr (rx_radio rx))) as G3.
    assert (G4 : ds_inbox (fst (l_get_phy (fst q) (r_datr (rx_radio rx)))) = ds_inbox (fst q) /\ ds_nonces (fst (l_get_phy (fst q) (r_datr (rx_radio rx)))) = ds_nonces (fst q)).
    { unfold l_get_phy. destruct (ds_fb (fst q)); [|split; reflexivity]. destruct (_ && _ && _); [split; reflexivity|].
      destruct (0 <? _)%nat; [|split; reflexivity]. destruct (max_payload _); [|split; reflexivity]. destruct (_ <? _)%nat; split; reflexivity. }
    destruct G4 as [G4 G5].
    destruct (l_get_phy (fst q) (r_datr (rx_radio rx))) as [st5 [| |p]]; cbn [fst snd] in *.
    - (* nothing to send *)
      exists r1. cbn [fst snd]. rewrite downs_app. cbn [downs flat_map app].
      split; [congruence|]. split; [exact S1|]. split; [exact G1|]. split; [congruence|]. split; [intros HH; congruence|].
      split; [exact Hup|]. split; [right; apply Hrec; congruence|]. left. split; [reflexivity|exact Hfd1].
    - contradiction.
    - destruct (down_type_not_ja _ G2) as [J1 J2]. rewrite J1, J2.
      assert (R5 : ds_row st5 = Some r1) by congruence.
      assert (Hdd : d_fdn dev1 = d_fdn r1) by congruence.
      pose proof (encoder_data_row st5 dev1 p rx (snd q) now r1 R5 Hdf Hdd) as Er.
      assert (Ein : ds_inbox (fst (encoder_data E st5 dev1 p rx (snd q) now)) = ds_inbox st5 /\ ds_nonces (fst (encoder_data E st5 dev1 p rx (snd q) now)) = ds_nonces st5 /\ ds_fb (fst (encoder_data E st5 dev1 p rx (snd q) now)) = ds_fb st5).
      { unfold encoder_data. destruct (encode (downlink_frame dev1 p 0)); [|repeat split|repeat split].
        destruct (l_next_fdn st5) as [x [cn|]] eqn:U; cbn [fst].
        - apply next_row in U. destruct U as (r0 & _ & _ & _ & U3 & U4 & U5 & U6).
          destruct (encode_message _ _ _ (downlink_frame dev1 p cn)); cbn [fst]; unfold l_set_sent_time, upd_outbox, with_outbox; cbn [ds_inbox ds_nonces ds_fb]; rewrite ?U3, ?U5, ?U6; repeat split.
        - apply next_none in U. destruct U as [-> _]. repeat split. }
      destruct Ein as (Ein & Eno & Efb).
      assert (Hfbe : fb_down (fst (encoder_data E st5 dev1 p rx (snd q) now))) by (unfold fb_down in *; now rewrite Efb).
      cbv zeta in Er. destruct Er as [[Er1 Er2] | (r' & buf & Er1 & Er2 & Er3 & Er4 & Er5 & Er6)].
      + exists r1. cbn [fst snd]. rewrite Er2. cbn [downs flat_map app].
        split; [exact Er1|]. split; [exact S1|]. split; [exact Hfbe|]. split; [congruence|]. split; [intros HH; congruence|].
        split; [exact Hup|]. split; [right; apply Hrec; congruence|]. left. split; [reflexivity|exact Hfd1].
      + exists r'. cbn [fst snd]. rewrite Er6. cbn [downs flat_map app].
        split; [exact Er1|]. split; [eapply same_session_trans; eassumption|]. split; [exact Hfbe|].
        split; [congruence|]. split; [intros HH; congruence|].
        split; [rewrite Er3, Hdf; exact Hup|].
        split; [right; destruct (Hrec (fst (encoder_data E st5 dev1 p rx (snd q) now))) as (H1 & H2 & H3); [congruence|];
                split; [exact H1|]; split; [exact H2|]; intros H; rewrite Er3, Hdf; auto|].
        right. eexists. exists (downlink_frame dev1 p (d_fdn dev1)). split; [reflexivity|]. cbn [dl_eui dl_raw].
        split; [exact Eu1|]. split; [rewrite Er4, Fd1; reflexivity|].
        split; [cbn [downlink_frame fcnt]; exact Fd1|]. split; [cbn [downlink_frame f_devaddr]; now rewrite Ad1|].
        split; [exact G2|]. rewrite <- Kn1, <- Ka1. exact Er5.
  Qed.

  (* ---------- histories of one device within a session: uplinks and submissions ---------- *)
  Inductive levent := LUp (f : frame) (rx : rxpacket) (n : nat) (now : N) | LSub (m : dmsg).
  Definition lstep (apps : list N) (st : dstate) (ev : levent) : dstate * list out :=
    match ev with
    | LUp f rx n now => l_uplink apps st f rx n now
    | LSub m => (fst (l_create_downstream st m), [])
    end.
  Definition ev_ok (ev : levent) : Prop :=
    match ev with LUp f rx _ _ => valid_datr rx /\ fcnt f < 65535 | LSub _ => True end.

  (* ghost logs: the counters of the uplinks that were recorded, and the counters the emitted downlinks carry *)
  Definition recorded (st st' : dstate) (ev : levent) : list N :=
    match ev with
    | LUp f _ _ _ => if (length (ds_inbox st') =? S (length (ds_inbox st)))%nat then [fcnt f] else []
    | LSub _ => []
    end.
  Definition numbered (st : dstate) (outs : list out) : list N :=
    match ds_row st with Some r => map (fun _ => d_fdn r) (downs outs) | None => [] end.
  Fixpoint run (apps : list N) (st : dstate) (evs : list levent) : dstate * list N * list N :=
    match evs with
    | [] => (st, [], [])
    | ev :: t =>
      let st' := fst (lstep apps st ev) in
      let rest := run apps st' t in
      (fst (fst rest), recorded st st' ev ++ snd (fst rest), numbered st (snd (lstep apps st ev)) ++ snd rest)
    end.

  Lemma lsub_props st m : ds_row (fst (l_create_downstream st m)) = ds_row st /\ ds_inbox (fst (l_create_downstream st m)) = ds_inbox st /\
    (fb_down st -> fb_down (fst (l_create_downstream st m))).
  Proof. unfold l_create_downstream. destruct (existsb _ _); cbn; auto. Qed.

  (* C03: a strict device records strictly increasing counters; C07: downlinks carry strictly increasing counters *)
  Theorem session_counters apps : forall evs st r,
    ds_row st = Some r -> fb_down st -> Forall ev_ok evs ->
    let '(_, rec, num) := run apps st evs in
    (d_relaxed r = false -> Forall (fun a => d_fup r <= a) rec /\ StronglySorted N.lt rec) /\
    (Forall (fun a => a < 65535) num -> Forall (fun a => d_fdn r <= a) num /\ StronglySorted N.lt num).
  Proof.
    induction evs as [|ev t IH]; intros st r Hr Hfb Hok; cbn [run].
    { split; intros; split; constructor. }
    inversion Hok as [|? ? Hev Ht]; subst.
    destruct ev as [f rx n now | m].
    - (* uplink *)
      cbn [lstep]. destruct Hev as [Hd Hf].
      destruct (l_uplink_summary apps st f rx n now r Hr Hfb Hd) as (r' & R' & S' & Fb' & _ & Hst & Hup & Hin & Hdn).
      specialize (IH (fst (l_uplink apps st f rx n now)) r' R' Fb' Ht).
      destruct (run apps (fst (l_uplink apps st f rx n now)) t) as [[stf rec] num]. cbn [fst snd].
      destruct IH as [IHr IHn]. destruct S' as (_ & _ & _ & _ & _ & _ & Srel).
      split.
      + intros Hstrict. rewrite Srel in IHr. specialize (IHr Hstrict). destruct IHr as [IH1 IH2].
        unfold recorded.
        assert (Hmono : d_fup r <= d_fup r').
        { destruct Hup as [-> | [Hc ->]]; [lia|]. apply N.leb_le in Hc. rewrite N.mod_small by lia. lia. }
        destruct (length _ =? S _)%nat eqn:El.
        * (* recorded *)
          destruct Hin as [Hsame | (Hns & _ & Hacc)]; [rewrite Hsame in El; apply Nat.eqb_eq in El; lia|].
          unfold stale in Hns. rewrite Hstrict in Hns. cbn [negb andb] in Hns. apply N.ltb_ge in Hns.
          assert (Hc : (d_fup r <=? fcnt f) = true) by (now apply N.leb_le).
          specialize (Hacc Hc). rewrite N.mod_small in Hacc by lia.
          cbn [app]. split.
          -- constructor; [exact Hns|]. eapply Forall_impl; [|exact IH1]. cbn beta. intros a Ha. lia.
          -- constructor; [exact IH2|]. eapply Forall_impl; [|exact IH1]. cbn beta. intros a Ha. lia.
        * cbn [app]. split; [|exact IH2]. eapply Forall_impl; [|exact IH1]. cbn beta. intros a Ha. lia.
      + intros Hlt. unfold numbered in *. rewrite Hr in *.
        destruct Hdn as [[Hnone Hfd] | (dl & fr & Hone & _ & Hfd & _)].
        * rewrite Hnone in *. cbn [map app] in *. specialize (IHn Hlt). rewrite Hfd in IHn. exact IHn.
        * rewrite Hone in *. cbn [map app] in *. inversion Hlt as [|? ? Hlt1 Hlt2]; subst.
          specialize (IHn Hlt2). rewrite Hfd, N.mod_small in IHn by lia. destruct IHn as [IH1 IH2].
          split.
          -- constructor; [lia|]. eapply Forall_impl; [|exact IH1]. cbn beta. intros a Ha. lia.
          -- constructor; [exact IH2|]. eapply Forall_impl; [|exact IH1]. cbn beta. intros a Ha. lia.
    - (* submission *)
      cbn [lstep fst snd]. destruct (lsub_props st m) as (L1 & L2 & L3).
      specialize (IH (fst (l_create_downstream st m)) r (eq_trans L1 Hr) (L3 Hfb) Ht).
      destruct (run apps (fst (l_create_downstream st m)) t) as [[stf rec] num]. cbn [fst snd].
      unfold recorded, numbered. rewrite Hr. cbn [downs flat_map map app]. exact IH.
  Qed.
End Local.
