From Lospan Require Import Base.Bytes Model.CMAC Spec.RFC4493.
From Coq Require Import ZifyNat ZifyN ZifyBool.
Ltac Zify.zify_post_hook ::= Z.div_mod_to_equations.
Open Scope nat_scope.

(* ---------- lists ---------- *)
Lemma skipn_add {A} (a b : nat) (l : list A) : skipn a (skipn b l) = skipn (b + a) l.
Proof.
  revert l; induction b as [|b IH]; intros l; [reflexivity|].
  destruct l as [|h t]; [now rewrite !skipn_nil|]. cbn [skipn Nat.add]. apply IH.
Qed.

(* ---------- the block loop: model = RFC recursion, for given subkeys ---------- *)
Section Loop.
  Variable E : list N -> list N -> list N.

  Lemma chain_shift k i : forall pos buf x,
    chain E k i pos buf x = chain E k i 0 (skipn pos buf) x.
  Proof.
    induction i as [|i IH]; intros pos buf x; cbn [chain]; [reflexivity|].
    rewrite (IH (pos + 16) buf), (IH (0 + 16) (skipn pos buf)).
    rewrite skipn_add. reflexivity.
  Qed.

  Definition model_go (k k1 k2 x vis : list N) : list N :=
    let len := length vis in
    let n0 := (len + 15) / 16 in
    let n := if n0 =? 0 then 1 else n0 in
    let flag := if n0 =? 0 then false else (len mod 16 =? 0) in
    let mn := skipn ((n - 1) * 16) vis in
    let mlast := if flag then xorl mn k1 else xorl (pad_block mn) k2 in
    E k (xorl mlast (chain E k (n - 1) 0 vis x)).

  Lemma pad_block_pad m : length m <= 16 -> pad_block m = pad m.
  Proof. intros H. unfold pad_block, pad. do 3 f_equal. lia. Qed.

  Lemma model_go_short k k1 k2 x m : length m <= 16 ->
    model_go k k1 k2 x m =
      if length m =? 16 then E k (xorl (xorl m k1) x) else E k (xorl (xorl (pad m) k2) x).
  Proof.
    intros H. unfold model_go.
    destruct (Nat.eq_dec (length m) 0) as [H0|H0].
    - rewrite H0. cbn. destruct m; [reflexivity|discriminate].
    - assert (Hn : (length m + 15) / 16 = 1) by lia.
      rewrite Hn. cbn [Nat.eqb Nat.sub Nat.mul skipn chain].
      rewrite pad_block_pad by exact H.
      destruct (Nat.eq_dec (length m) 16) as [H16|H16].
      + rewrite H16. reflexivity.
      + assert (Hm : length m mod 16 =? 0 = false) by (apply Nat.eqb_neq; lia).
        rewrite Hm. apply Nat.eqb_neq in H16. rewrite H16. reflexivity.
  Qed.

  Lemma model_go_long k k1 k2 x m : 16 < length m ->
    model_go k k1 k2 x m = model_go k k1 k2 (E k (xorl x (firstn 16 m))) (skipn 16 m).
  Proof.
    intros H. unfold model_go. rewrite skipn_length.
    set (len := length m) in *.
    assert (Hq : (len + 15) / 16 = S ((len - 16 + 15) / 16)) by lia.
    assert (Hpos : 1 <= (len - 16 + 15) / 16) by lia.
    assert (Hmod : len mod 16 = (len - 16) mod 16) by lia.
    rewrite Hq, Hmod.
    destruct ((len - 16 + 15) / 16) as [|q] eqn:Eq; [lia|].
    cbn [Nat.eqb]. replace (S (S q) - 1) with (S q) by lia. replace (S q - 1) with q by lia.
    cbn [chain]. rewrite (chain_shift k q (0 + 16)). cbn [Nat.add skipn].
    replace (S q * 16) with (16 + q * 16) by lia. rewrite <- skipn_add.
    reflexivity.
  Qed.

  Lemma model_is_rfc_go k k1 k2 : forall fuel m x, length m < fuel ->
    model_go k k1 k2 x m = rfc_go E fuel k k1 k2 x m.
  Proof.
    induction fuel as [|f IH]; intros m x Hf; [lia|]. cbn [rfc_go].
    destruct (Nat.leb_spec (length m) 16) as [Hs|Hl].
    - apply model_go_short; exact Hs.
    - rewrite model_go_long by exact Hl. apply IH. rewrite skipn_length. lia.
  Qed.
End Loop.

(* ---------- subkeys: byte-wise shift with carry = doubling in GF(2^128) ---------- *)
Open Scope N_scope.

Lemma le_val_app l1 l2 : le_val (l1 ++ l2) = le_val l1 + 256 ^ N.of_nat (length l1) * le_val l2.
Proof.
  induction l1 as [|a t IH]; cbn [app le_val length].
  - change (N.of_nat 0) with 0. rewrite N.pow_0_r. lia.
  - rewrite IH. rewrite Nat2N.inj_succ, N.pow_succ_r'. lia.
Qed.
Lemma be_val_cons b t : be_val (b :: t) = b * 256 ^ N.of_nat (length t) + be_val t.
Proof. unfold be_val. cbn [rev]. rewrite le_val_app, rev_length. cbn [le_val]. lia. Qed.

Lemma bytes_ok_cons b t : bytes_ok (b :: t) = true <-> b < 256 /\ bytes_ok t = true.
Proof. unfold bytes_ok; cbn [forallb]. rewrite andb_true_iff. unfold byte_ok. rewrite N.ltb_lt. tauto. Qed.
Lemma bytes_ok_app l1 l2 : bytes_ok (l1 ++ l2) = true <-> bytes_ok l1 = true /\ bytes_ok l2 = true.
Proof. unfold bytes_ok. rewrite forallb_app, andb_true_iff. tauto. Qed.
Lemma bytes_ok_rev l : bytes_ok (rev l) = true <-> bytes_ok l = true.
Proof.
  induction l as [|a t IH]; cbn [rev]; [tauto|].
  rewrite bytes_ok_app, bytes_ok_cons, IH, bytes_ok_cons. cbn. tauto.
Qed.

Lemma le_val_bound l : bytes_ok l = true -> le_val l < 256 ^ N.of_nat (length l).
Proof.
  induction l as [|a t IH]; intros H; cbn [le_val length]; [cbn; lia|].
  apply bytes_ok_cons in H. destruct H as [Ha Ht]. specialize (IH Ht).
  rewrite Nat2N.inj_succ, N.pow_succ_r'. lia.
Qed.
Lemma be_val_bound l : bytes_ok l = true -> be_val l < 256 ^ N.of_nat (length l).
Proof.
  intros H. unfold be_val. rewrite <- rev_length. apply le_val_bound. now apply bytes_ok_rev.
Qed.

Lemma le_bytes_le_val l : bytes_ok l = true -> le_bytes (length l) (le_val l) = l.
Proof.
  induction l as [|a t IH]; intros H; cbn [le_val length le_bytes]; [reflexivity|].
  apply bytes_ok_cons in H. destruct H as [Ha Ht].
  replace ((a + 256 * le_val t) mod 256) with a by lia.
  replace ((a + 256 * le_val t) / 256) with (le_val t) by lia.
  now rewrite IH.
Qed.
Lemma be_bytes_be_val l : bytes_ok l = true -> be_bytes (length l) (be_val l) = l.
Proof.
  intros H. unfold be_bytes, be_val. rewrite <- (rev_length l).
  rewrite le_bytes_le_val by (now apply bytes_ok_rev). apply rev_involutive.
Qed.

(* per-byte facts of shiftLeft, by exhaustive evaluation over the byte range *)
Definition range256 : list N := map N.of_nat (seq 0 256).
Lemma range256_complete b : b < 256 -> In b range256.
Proof.
  intros H. unfold range256. apply in_map_iff. exists (N.to_nat b). split; [lia|].
  apply in_seq. lia.
Qed.
Definition shl_byte_ok (b : N) : bool :=
  forallb (fun c =>
    (N.lor (N.land (N.shiftl b 1) 255) c =? (2 * b) mod 256 + c) &&
    (N.shiftr (N.land b 128) 7 =? b / 128) && (N.shiftr b 7 =? b / 128) &&
    (N.lor (N.land (N.shiftl b 1) 255) c <? 256) &&
    (N.lxor b 135 <? 256) && (N.lxor b 0 =? b)) [0; 1].
Lemma shl_byte_sweep : forallb shl_byte_ok range256 = true.
Proof. vm_compute. reflexivity. Qed.
Lemma shl_byte b c : b < 256 -> c < 2 ->
  N.lor (N.land (N.shiftl b 1) 255) c = (2 * b) mod 256 + c /\
  N.shiftr (N.land b 128) 7 = b / 128 /\ N.shiftr b 7 = b / 128 /\
  N.lor (N.land (N.shiftl b 1) 255) c < 256 /\ N.lxor b 135 < 256.
Proof.
  intros Hb Hc. pose proof shl_byte_sweep as S. rewrite forallb_forall in S.
  specialize (S b (range256_complete b Hb)). unfold shl_byte_ok in S.
  rewrite forallb_forall in S.
  assert (Hin : In c [0; 1]) by (cbn; lia).
  specialize (S c Hin). rewrite !andb_true_iff in S.
  rewrite !N.eqb_eq, !N.ltb_lt in S. tauto.
Qed.

Lemma shl_aux_spec l : bytes_ok l = true ->
  let '(s, c) := shl_aux l in
  be_val s + c * 256 ^ N.of_nat (length l) = 2 * be_val l /\
  bytes_ok s = true /\ length s = length l /\ c < 2 /\ c = msb l.
Proof.
  induction l as [|b t IH]; intros H.
  - cbn. repeat split; reflexivity || lia.
  - apply bytes_ok_cons in H. destruct H as [Hb Ht]. specialize (IH Ht).
    cbn [shl_aux]. destruct (shl_aux t) as [s c]. destruct IH as (IH1 & IH2 & IH3 & IH4 & _).
    destruct (shl_byte b c Hb IH4) as (F1 & F2 & F3 & F4 & _).
    rewrite be_val_cons, IH3. rewrite be_val_cons. rewrite F1, F2.
    cbn [length msb]. rewrite F3. rewrite Nat2N.inj_succ, N.pow_succ_r'.
    repeat split.
    + assert (Hq : 2 * b = 256 * (b / 128) + (2 * b) mod 256) by lia.
      set (P := 256 ^ N.of_nat (length t)) in *.
      set (q := b / 128) in *. set (r := (2 * b) mod 256) in *. clearbody q r P.
      replace ((r + c) * P + be_val s + q * (256 * P)) with ((256 * q + r) * P + (be_val s + c * P)) by ring.
      rewrite IH1, <- Hq. ring.
    + apply bytes_ok_cons. split; [lia| exact IH2].
    + now rewrite IH3.
    + lia.
Qed.

Lemma xorl_zeros l n : (length l <= n)%nat -> xorl l (repeat 0 n) = l.
Proof.
  revert n; induction l as [|a t IH]; intros n H; [destruct n; reflexivity|].
  destruct n as [|n]; [cbn in H; lia|]. cbn [repeat xorl map2]. unfold xorl in IH.
  rewrite IH by (cbn in H; lia). now rewrite N.lxor_0_r.
Qed.
Lemma xorl_app l1 l2 r1 r2 : length l1 = length r1 ->
  xorl (l1 ++ l2) (r1 ++ r2) = xorl l1 r1 ++ xorl l2 r2.
Proof.
  revert r1; induction l1 as [|a t IH]; intros [|b r1] H; try discriminate; [reflexivity|].
  cbn [app]. unfold xorl in *. cbn [map2]. rewrite IH by (cbn in H; lia). reflexivity.
Qed.

Lemma lt_256_log2 a : a < 256 -> a = 0 \/ N.log2 a < 8.
Proof.
  intros H. destruct (N.eq_dec a 0) as [->|Hz]; [now left|right].
  apply (proj1 (N.log2_lt_pow2 a 8 ltac:(lia))). exact H.
Qed.
Lemma lxor_lt_256 x y : x < 256 -> y < 256 -> N.lxor x y < 256.
Proof.
  intros Hx Hy. destruct (N.eq_dec (N.lxor x y) 0) as [->|Hz]; [lia|].
  apply (proj2 (N.log2_lt_pow2 (N.lxor x y) 8 ltac:(lia))).
  eapply N.le_lt_trans; [apply N.log2_lxor|].
  destruct (lt_256_log2 x Hx) as [->|Lx]; destruct (lt_256_log2 y Hy) as [->|Ly]; cbn; lia.
Qed.
Lemma lxor_low h x y : x < 256 -> y < 256 -> N.lxor (x + 256 * h) y = N.lxor x y + 256 * h.
Proof.
  intros Hx Hy. apply N.bits_inj_iff. intros n.
  rewrite N.lxor_spec.
  pose proof (lxor_lt_256 x y Hx Hy) as Hlx.
  destruct (N.lt_ge_cases n 8) as [Hn|Hn].
  - rewrite <- (N.mod_pow2_bits_low (x + 256 * h) 8 n Hn).
    rewrite <- (N.mod_pow2_bits_low (N.lxor x y + 256 * h) 8 n Hn).
    change (2^8) with 256.
    replace ((x + 256 * h) mod 256) with x by lia.
    replace ((N.lxor x y + 256 * h) mod 256) with (N.lxor x y) by lia.
    now rewrite N.lxor_spec.
  - replace n with ((n - 8) + 8) by lia.
    rewrite <- !N.div_pow2_bits. change (2^8) with 256.
    replace ((x + 256 * h) / 256) with h by lia.
    replace ((N.lxor x y + 256 * h) / 256) with h by lia.
    replace (y / 256) with 0 by lia. rewrite N.bits_0. now rewrite xorb_false_r.
Qed.

Lemma split_last16 (l : list N) : length l = 16%nat ->
  exists h x, l = h ++ [x] /\ length h = 15%nat.
Proof.
  intros H. exists (firstn 15 l), (nth 15 l 0).
  do 16 (destruct l as [|? l]; [discriminate|]). destruct l; [|discriminate].
  split; reflexivity.
Qed.

Lemma le_val_le_bytes n : forall v, v < 256 ^ N.of_nat n -> le_val (le_bytes n v) = v.
Proof.
  induction n as [|n IH]; intros v Hv; cbn [le_bytes le_val].
  - change (N.of_nat 0) with 0 in Hv. rewrite N.pow_0_r in Hv. lia.
  - rewrite Nat2N.inj_succ, N.pow_succ_r' in Hv. rewrite IH by lia. lia.
Qed.

Lemma xor_rb_spec l : length l = 16%nat -> bytes_ok l = true ->
  xorl l rb = be_bytes 16 (N.lxor (be_val l) 135) /\ length (xorl l rb) = 16%nat /\
  bytes_ok (xorl l rb) = true /\ be_val (xorl l rb) = N.lxor (be_val l) 135.
Proof.
  intros Hl Hok. destruct (split_last16 l Hl) as (h & x & -> & Hh).
  apply bytes_ok_app in Hok. destruct Hok as [Hokh Hokx].
  apply bytes_ok_cons in Hokx. destruct Hokx as [Hx _].
  unfold rb. rewrite xorl_app by (rewrite repeat_length; lia).
  rewrite xorl_zeros by lia. cbn [xorl map2].
  assert (Hx' : N.lxor x 135 < 256) by (apply lxor_lt_256; lia).
  assert (Hok' : bytes_ok (h ++ [N.lxor x 135]) = true).
  { apply bytes_ok_app. split; [exact Hokh|]. apply bytes_ok_cons. split; [exact Hx'|reflexivity]. }
  assert (Hv : be_val (h ++ [N.lxor x 135]) = N.lxor (be_val (h ++ [x])) 135).
  { unfold be_val. rewrite !rev_app_distr. cbn [rev app le_val]. rewrite lxor_low by lia. reflexivity. }
  split; [|split; [rewrite app_length; cbn; lia | split; [exact Hok' | exact Hv]]].
  rewrite <- Hv.
  replace 16%nat with (length (h ++ [N.lxor x 135])) by (rewrite app_length; cbn; lia).
  now rewrite be_bytes_be_val.
Qed.

(* one doubling step of generateSubkeys *)
Definition dbl_bytes (l : list N) : list N :=
  if N.eqb (msb l) 0 then shift_left l else xorl (shift_left l) rb.

Lemma dbl_bytes_spec l : length l = 16%nat -> bytes_ok l = true ->
  dbl_bytes l = num_be 16 (gf_double (be_num l)) /\
  length (dbl_bytes l) = 16%nat /\ bytes_ok (dbl_bytes l) = true /\
  be_num (dbl_bytes l) = gf_double (be_num l).
Proof.
  intros Hl Hok. unfold dbl_bytes, shift_left, num_be, be_num, gf_double.
  pose proof (shl_aux_spec l Hok) as S. destruct (shl_aux l) as [s c].
  destruct S as (S1 & S2 & S3 & S4 & S5). cbn [fst]. rewrite <- S5.
  pose proof (be_val_bound l Hok) as Bl. pose proof (be_val_bound s S2) as Bs.
  rewrite S3 in Bs. rewrite Hl in *. change (256 ^ N.of_nat 16) with two128 in *.
  assert (Hc : c = 0 \/ c = 1) by lia. destruct Hc as [-> | ->].
  - cbn [N.eqb].
    assert (Hlt : (two128 <=? 2 * be_val l) = false) by (apply N.leb_gt; lia).
    rewrite Hlt. replace ((2 * be_val l) mod two128) with (be_val s) by (unfold two128 in *; lia).
    rewrite <- S3 at 1. rewrite be_bytes_be_val by exact S2. auto.
  - cbn [N.eqb].
    assert (Hge : (two128 <=? 2 * be_val l) = true) by (apply N.leb_le; lia).
    rewrite Hge. replace ((2 * be_val l) mod two128) with (be_val s) by (unfold two128 in *; lia).
    exact (xor_rb_spec s S3 S2).
Qed.

Section Subkeys.
  Variable E : list N -> list N -> list N.
  Hypothesis E_block : forall k b, length (E k b) = 16%nat /\ bytes_ok (E k b) = true.

  Lemma subkeys_rfc k : subkeys E k = rfc_subkeys E k.
  Proof.
    unfold subkeys, rfc_subkeys. change zero16 with (repeat 0 16).
    destruct (E_block k (repeat 0 16)) as [L0 O0].
    fold (dbl_bytes (E k (repeat 0 16))).
    destruct (dbl_bytes_spec _ L0 O0) as (D1 & D2 & D3 & D4).
    fold (dbl_bytes (dbl_bytes (E k (repeat 0 16)))).
    destruct (dbl_bytes_spec _ D2 D3) as (F1 & _ & _ & _).
    rewrite F1, D4. rewrite D1 at 1. reflexivity.
  Qed.

  Theorem cmac_is_rfc k vis spare : fst (aescmac E k vis spare) = rfc4493 E k vis.
  Proof.
    unfold aescmac, rfc4493. rewrite <- subkeys_rfc. destruct (subkeys E k) as [k1 k2].
    change (repeat 0 16) with zero16.
    rewrite <- (model_is_rfc_go E k k1 k2 (S (length vis)) vis zero16) by lia.
    unfold model_go.
    destruct ((length vis + 15) / 16 =? 0)%nat; [reflexivity|].
    destruct (length vis mod 16 =? 0)%nat; reflexivity.
  Qed.

  Theorem cmac_pure k vis spare : snd (aescmac E k vis spare) = spare.
  Proof.
    unfold aescmac. destruct (subkeys E k) as [k1 k2].
    destruct ((length vis + 15) / 16 =? 0)%nat; [reflexivity|].
    destruct (length vis mod 16 =? 0)%nat; reflexivity.
  Qed.
End Subkeys.
