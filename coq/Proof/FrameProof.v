From Lospan Require Import Base.Bytes Base.Outcome Model.FrameTypes Gen.Consts Model.MacCmd Model.Frame
  Spec.MacLayout Spec.LoRaFrame Proof.BitLemmas Proof.MacCmdProof Proof.MacSetProof.
Open Scope nat_scope.

(* ---------- checked reads on a slice made of visible bytes and spare capacity ---------- *)
Lemma slen_mk v sp : slen (mk_slice v sp) = length v.
Proof. reflexivity. Qed.
Lemma scap_mk v sp : scap (mk_slice v sp) = length v + length sp.
Proof. unfold scap, mk_slice; cbn. apply app_length. Qed.

Lemma firstn_skipn_app {A} (v sp : list A) pos k : pos + k <= length v ->
  firstn k (skipn pos (v ++ sp)) = firstn k (skipn pos v).
Proof.
  intros H. rewrite skipn_app. rewrite firstn_app.
  replace (k - length (skipn pos v)) with 0 by (rewrite skipn_length; lia).
  cbn [firstn]. now rewrite app_nil_r.
Qed.

Lemma rdn_mk v sp pos k :
  rdn (mk_slice v sp) pos k = if pos + k <=? length v then Ok (firstn k (skipn pos v)) else Panic.
Proof.
  unfold rdn. rewrite slen_mk. destruct (Nat.leb_spec (pos + k) (length v)); [|reflexivity].
  unfold mk_slice; cbn [arr]. now rewrite firstn_skipn_app.
Qed.
Lemma rd_mk v sp i :
  rd (mk_slice v sp) i = match nth_error v i with Some b => Ok b | None => Panic end.
Proof.
  unfold rd. rewrite slen_mk. destruct (Nat.ltb_spec i (length v)) as [H|H].
  - unfold mk_slice; cbn [arr]. rewrite nth_error_app1 by exact H. reflexivity.
  - apply nth_error_None in H. now rewrite H.
Qed.
Lemma sub_mk_in v sp lo hi : lo <= hi -> hi <= length v ->
  sub (mk_slice v sp) lo hi = Ok (firstn (hi - lo) (skipn lo v)).
Proof.
  intros H1 H2. unfold sub. rewrite scap_mk.
  replace (lo <=? hi) with true by (symmetry; apply Nat.leb_le; lia).
  replace (hi <=? length v + length sp) with true by (symmetry; apply Nat.leb_le; lia).
  cbn [andb]. unfold mk_slice; cbn [arr]. rewrite firstn_skipn_app by lia. reflexivity.
Qed.

(* ---------- the bounded command loop ---------- *)
Definition set_dir_ok (s : cmdset) : Prop := Forall (fun c => c_up c = mtype_uplink (cs_msg s)) (cs_cmds s).

Lemma new_cmd_spec up cid z : new_cmd up cid = Some z ->
  exists l lay, layout_lookup layout_table up cid = Some (l, lay) /\ cmd_len z = S l /\
                c_up z = up /\ c_cid z = cid /\ (cid < 256)%N.
Proof.
  unfold new_cmd. destruct (mac_lookup mac_table up cid) as [[l [[bid bup] nf]]|] eqn:M; [|discriminate].
  intros [= <-].
  (* every row of the generated table has a layout (tables_agree) *)
  assert (T := tables_agree_ok). unfold tables_agree in T. rewrite !andb_true_iff in T. destruct T as [[T _] _].
  rewrite forallb_forall in T.
  assert (Hin : In (up, cid, l, (bid, bup, nf)) mac_table).
  { clear T. revert M. generalize mac_table. induction l0 as [|[[[u c] l'] i] t IH]; cbn [mac_lookup]; [discriminate|].
    destruct (Bool.eqb u up && (c =? cid)%N) eqn:E.
    - intros [= <- <-]. apply andb_true_iff in E. destruct E as [E1 E2]. apply Bool.eqb_prop in E1. apply N.eqb_eq in E2. subst. now left.
    - intros H. right. now apply IH. }
  specialize (T _ Hin). cbn beta iota in T.
  destruct (layout_lookup layout_table up cid) as [[l2 lay]|] eqn:L; [|discriminate].
  rewrite !andb_true_iff in T. destruct T as [[[[T1 T2] T3] T4] T5].
  apply Nat.eqb_eq in T1. apply N.eqb_eq in T2. apply Bool.eqb_prop in T3. apply N.ltb_lt in T5. subst.
  exists l2, lay. unfold cmd_len; cbn [c_up c_cid]. rewrite M. repeat split; auto.
Qed.

Lemma payload_dec_total up cid l lay bs :
  layout_lookup layout_table up cid = Some (l, lay) -> length bs = l ->
  exists fs, cmd_payload_dec up cid bs = Some fs.
Proof.
  intros L Hn. apply layout_lookup_in in L. cbn [In layout_table] in L.
  repeat (destruct L as [L|L];
    [injection L as <- <- <- <-; len_destruct Hn; eexists; reflexivity | ]).
  contradiction.
Qed.

(* the loop never panics, whatever the buffer *)
Lemma decode_bounded_go_no_panic buflen : forall fuel pos s region consumed,
  decode_bounded_go fuel buflen pos s region consumed <> Panic.
Proof.
  induction fuel as [|fuel IH]; intros pos s region consumed; cbn [decode_bounded_go].
  - destruct region; discriminate.
  - destruct region as [|cid rest]; [discriminate|].
    destruct (new_cmd (mtype_uplink (cs_msg s)) cid) as [z|] eqn:Z; [|discriminate].
    destruct (length (cid :: rest) <? cmd_len z); [discriminate|].
    unfold cmd_decode. destruct (valid_buffer buflen pos z); [|discriminate].
    destruct (cid =? u8 (c_cid z))%N; [|discriminate].
    destruct (cmd_payload_dec (c_up z) (c_cid z) (firstn (cmd_len z - 1) rest)); [|discriminate].
    cbn [bind]. destruct (set_add s _) as [s' ok]. destruct ok; [apply IH | discriminate].
Qed.

(* the segments the model reads, as commands *)
Definition seg_cmd (up : bool) (sg : N * list N) : cmd :=
  {| c_up := up; c_cid := fst sg;
     c_fields := match cmd_payload_dec up (fst sg) (snd sg) with Some fs => fs | None => [] end |}.

(* with at least one byte of the buffer behind the region, and room in the set, the loop
   reads exactly the specified segments *)
Lemma decode_bounded_go_spec buflen up : forall fuel pos s region consumed,
  length region <= fuel -> pos + length region < buflen ->
  mtype_uplink (cs_msg s) = up -> set_dir_ok s ->
  (Z.of_nat (set_encoded_length s) + Z.of_nat (length region) <= cs_max s)%Z ->
  let segs := spec_segments fuel up region in
  decode_bounded_go fuel buflen pos s region consumed =
    Ok ({| cs_cmds := fold_left (fun acc c => insert_cmd c acc) (map (seg_cmd up) segs) (cs_cmds s);
           cs_max := cs_max s; cs_msg := cs_msg s |}, consumed + segments_size segs).
Proof.
  induction fuel as [|fuel IH]; intros pos s region consumed Hf Hb Hup Hd Hm.
  - destruct region; [|cbn in Hf; lia]. cbn. destruct s; cbn. now rewrite Nat.add_0_r.
  - cbn [decode_bounded_go spec_segments]. destruct region as [|cid rest].
    { cbn. destruct s; cbn. now rewrite Nat.add_0_r. }
    rewrite Hup. destruct (new_cmd up cid) as [z|] eqn:Z.
    + destruct (new_cmd_spec _ _ _ Z) as (l & lay & L & Hl & Hzu & Hzc & Hc).
      rewrite L. rewrite Hl. cbn [length]. 
      replace (S (length rest) <? S l) with (length rest <? l) by reflexivity.
      destruct (Nat.ltb_spec (length rest) l) as [Hs|Hs].
      { cbn. destruct s; cbn. now rewrite Nat.add_0_r. }
      unfold cmd_decode, valid_buffer. rewrite Hl.
      replace (pos + S l <? buflen) with true by (symmetry; apply Nat.ltb_lt; cbn [length] in Hb; lia).
      rewrite Hzc, Hzu. rewrite u8_small by exact Hc. rewrite N.eqb_refl.
      replace (S l - 1) with l by lia.
      destruct (payload_dec_total up cid l lay (firstn l rest) L) as [fs Hfs].
      { rewrite firstn_length. lia. }
      rewrite Hfs. cbn [bind].
      unfold set_add. 
      set (c := {| c_up := up; c_cid := cid; c_fields := fs |}).
      assert (Hcl : cmd_len c = S l).
      { unfold cmd_len, c; cbn [c_up c_cid]. unfold cmd_len in Hl. now rewrite Hzu, Hzc in Hl. }
      rewrite Hcl.
      replace (cs_max s <? Z.of_nat (set_encoded_length s + S l))%Z with false
        by (symmetry; apply Z.ltb_ge; cbn [length] in Hm; lia).
      unfold c at 1; cbn [c_up]. rewrite Hup, Bool.eqb_reflx. cbn [negb].
      rewrite IH; cbn [cs_cmds cs_max cs_msg].
      * cbn [map fold_left segments_size snd fst skipn].
        assert (Hsc : seg_cmd up (cid, firstn l rest) = c).
        { unfold seg_cmd; cbn [fst snd]. now rewrite Hfs. }
        rewrite Hsc. rewrite firstn_length. replace (Init.Nat.min l (length rest)) with l by lia.
        f_equal. f_equal. lia.
      * cbn [skipn length] in *. rewrite skipn_length. lia.
      * cbn [skipn length] in *. rewrite skipn_length. lia.
      * exact Hup.
      * unfold set_dir_ok; cbn [cs_cmds cs_msg]. apply insert_forall; [unfold c; cbn; now rewrite Hup | exact Hd].
      * cbn [skipn length] in *. rewrite skipn_length. unfold set_encoded_length in *; cbn [cs_cmds].
        pose proof (insert_len c (cs_cmds s)) as IL. unfold cmds_len in IL. lia.
    + (* unknown CID: no layout either *)
      assert (L : layout_lookup layout_table up cid = None).
      { destruct (layout_lookup layout_table up cid) as [[l lay]|] eqn:L; [|reflexivity].
        destruct (mac_of_layout _ _ _ _ L) as [M _]. unfold new_cmd in Z. now rewrite M in Z. }
      rewrite L. cbn. destruct s; cbn. now rewrite Nat.add_0_r.
Qed.

(* ---------- whole frames ---------- *)
Lemma decode_bounded_at_mk v sp set pos end_ :
  decode_bounded_at (mk_slice v sp) set pos end_ =
    if (length v <? end_) || (end_ <? pos) then Err ErrBufferTruncated
    else do r <- decode_bounded (length v) pos set (firstn (end_ - pos) (skipn pos v)); Ok (fst r, pos + snd r).
Proof.
  unfold decode_bounded_at. rewrite slen_mk.
  destruct (Nat.ltb_spec (length v) end_) as [H1|H1]; [reflexivity|].
  destruct (Nat.ltb_spec end_ pos) as [H2|H2]; [reflexivity|]. cbn [orb].
  rewrite rdn_mk. replace (pos + (end_ - pos) <=? length v) with true by (symmetry; apply Nat.leb_le; lia).
  reflexivity.
Qed.

Definition segs_set (up : bool) (msg : N) (max : Z) (region : list N) : cmdset :=
  {| cs_cmds := fold_left (fun acc c => insert_cmd c acc) (map (seg_cmd up) (spec_cmds up region)) [];
     cs_max := max; cs_msg := msg |}.

Lemma decode_bounded_spec buflen pos msg region :
  pos + length region < buflen ->
  decode_bounded buflen pos (new_set msg (Z.of_nat (length region))) region =
    Ok (segs_set (mtype_uplink msg) msg (Z.of_nat (length region)) region,
        segments_size (spec_cmds (mtype_uplink msg) region)).
Proof.
  intros H. unfold decode_bounded.
  rewrite (decode_bounded_go_spec buflen (mtype_uplink msg)); cbn [set_clear new_set cs_cmds cs_max cs_msg]; try reflexivity; try lia.
  - constructor.
Qed.

Lemma segments_size_le up : forall fuel region, segments_size (spec_segments fuel up region) <= length region.
Proof.
  induction fuel as [|fuel IH]; intros region; cbn [spec_segments]; [cbn; lia|].
  destruct region as [|cid rest]; [cbn; lia|].
  destruct (layout_lookup layout_table up cid) as [[l lay]|]; [|cbn; lia].
  destruct (Nat.ltb_spec (length rest) l); [cbn; lia|].
  cbn [segments_size length]. rewrite firstn_length. specialize (IH (skipn l rest)). rewrite skipn_length in IH. lia.
Qed.

Lemma decode_bounded_no_panic buflen pos set region : decode_bounded buflen pos set region <> Panic.
Proof. apply decode_bounded_go_no_panic. Qed.

(* header fields of a data frame, read from 8 header bytes *)
Definition hdr_addr (a0 a1 a2 a3 : N) : devaddr :=
  let full := le_val [a0; a1; a2; a3] in
  {| nwkid := N.land (N.shiftr (N.land full c_NetworkIDMask) 25) 255; nwkaddr := N.land full c_MaxNwkAddr |}.
Definition hdr_fctrl (b : N) : fctrl :=
  {| adr := negb (N.land b 128 =? 0)%N; adrackreq := negb (N.land b 64 =? 0)%N;
     ack := negb (N.land b 32 =? 0)%N; fpending := negb (N.land b 16 =? 0)%N;
     classb := negb (N.land b 16 =? 0)%N; foptslen := N.land b 15 |}.

Definition data_result (mt mj mic : N) (a0 a1 a2 a3 fcb c0 c1 : N) (rest : list N) : frame :=
  let fol := N.to_nat (N.land fcb 15) in
  let up := mtype_uplink mt in
  let fo := if (0 <? N.land fcb 15)%N then segs_set up mt (Z.of_nat fol) (firstn fol rest) else new_set mt fopts_limit in
  let body := firstn (length rest - fol - 4) (skipn fol rest) in
  let base port frm_ cmds :=
    {| mtype := mt; major := mj; f_devaddr := hdr_addr a0 a1 a2 a3; fc := hdr_fctrl fcb; fcnt := le_val [c0; c1];
       fopts := fo; fport := port; frm := frm_; maccmds := cmds; mic := mic; jr := zero_jr; ja := zero_ja |} in
  match body with
  | [] => base 0%N [] (new_set mt max_payload_size)
  | port :: pl =>
    if (port =? 0)%N then
      base port (skipn (segments_size (spec_cmds up pl)) pl) (segs_set up mt (Z.of_nat (length pl)) pl)
    else base port pl (new_set mt max_payload_size)
  end.

Definition f_init (mt mj mic : N) : frame :=
  {| mtype := mt; major := mj; f_devaddr := zero_devaddr; fc := zero_fctrl; fcnt := 0;
     fopts := new_set mt fopts_limit; fport := 0; frm := []; maccmds := new_set mt max_payload_size;
     mic := mic; jr := zero_jr; ja := zero_ja |}.

Definition hdr_fopts (mt fcb : N) (rest : list N) : cmdset :=
  let fol := N.to_nat (N.land fcb 15) in
  if (0 <? N.land fcb 15)%N then segs_set (mtype_uplink mt) mt (Z.of_nat fol) (firstn fol rest) else new_set mt fopts_limit.

Lemma fhdr_long mt b0 a0 a1 a2 a3 fcb c0 c1 rest sp :
  N.to_nat (N.land fcb 15) + 4 <= length rest ->
  fhdr_decode (mk_slice (b0 :: a0 :: a1 :: a2 :: a3 :: fcb :: c0 :: c1 :: rest) sp) mt 1 =
    Ok {| h_addr := hdr_addr a0 a1 a2 a3; h_fc := hdr_fctrl fcb; h_fcnt := le_val [c0; c1];
          h_fopts := hdr_fopts mt fcb rest; h_pos := 8 + N.to_nat (N.land fcb 15) |}.
Proof.
  intros Hlen. unfold hdr_fopts. set (fol := N.to_nat (N.land fcb 15)) in *.
  unfold fhdr_decode, devaddr_decode, fctrl_decode.
  rewrite !slen_mk, !rdn_mk, !rd_mk. cbn [length Nat.add Nat.ltb Nat.leb nth_error firstn skipn bind].
  fold (hdr_fctrl fcb). fold (hdr_addr a0 a1 a2 a3). cbn [foptslen hdr_fctrl].
  destruct (0 <? N.land fcb 15)%N eqn:Efo.
  2:{ apply N.ltb_ge in Efo. replace fol with 0 by (unfold fol; lia). reflexivity. }
  rewrite decode_bounded_at_mk. cbn [length skipn].
  fold fol.
  replace (S (S (S (S (S (S (S (S (length rest)))))))) <? S (S (S (S (S (S (S (S fol)))))))) with false
    by (symmetry; apply Nat.ltb_ge; lia).
  replace (S (S (S (S (S (S (S (S fol))))))) <? 8) with false by (symmetry; apply Nat.ltb_ge; lia).
  cbn [orb]. replace (S (S (S (S (S (S (S (S fol))))))) - 8) with fol by lia.
  assert (Hr : length (firstn fol rest) = fol) by (rewrite firstn_length; lia).
  replace (Z.of_N (N.land fcb 15)) with (Z.of_nat (length (firstn fol rest))) by (rewrite Hr; unfold fol; lia).
  rewrite decode_bounded_spec by (rewrite Hr; cbn [length]; lia).
  cbn [bind fst snd]. rewrite Hr. reflexivity.
Qed.

Lemma macpayload_long mt mj mic b0 a0 a1 a2 a3 fcb c0 c1 rest sp :
  N.to_nat (N.land fcb 15) + 4 <= length rest ->
  macpayload_decode (mk_slice (b0 :: a0 :: a1 :: a2 :: a3 :: fcb :: c0 :: c1 :: rest) sp) (f_init mt mj mic) 1 =
    Ok (data_result mt mj mic a0 a1 a2 a3 fcb c0 c1 rest).
Proof.
  intros Hlen. unfold macpayload_decode. cbn [mtype f_init]. rewrite fhdr_long by exact Hlen.
  set (fol := N.to_nat (N.land fcb 15)) in *. cbn [bind h_pos h_addr h_fc h_fcnt h_fopts].
  rewrite slen_mk. cbn [length].
  set (n := length rest - fol - 4).
  replace (Z.of_nat (S (S (S (S (S (S (S (S (length rest))))))))) - Z.of_nat (8 + fol) - 4)%Z with (Z.of_nat n) by lia.
  unfold data_result. fold fol. fold (hdr_fopts mt fcb rest). fold n.
  assert (Hbl : length (firstn n (skipn fol rest)) = n) by (rewrite firstn_length, skipn_length; lia).
  destruct (firstn n (skipn fol rest)) as [|port pl] eqn:Eb.
  - cbn [length] in Hbl. rewrite <- Hbl. cbn. reflexivity.
  - cbn [length] in Hbl.
    replace (Z.of_nat n <? 0)%Z with false by (symmetry; apply Z.ltb_ge; lia).
    replace (Z.of_nat n =? 0)%Z with false by (symmetry; apply Z.eqb_neq; lia).
    rewrite rd_mk.
    assert (Hsk : exists tail, skipn fol rest = port :: pl ++ tail).
    { exists (skipn n (skipn fol rest)). rewrite <- (firstn_skipn n (skipn fol rest)) at 1. rewrite Eb. reflexivity. }
    destruct Hsk as [tail Hsk].
    assert (Hnth : nth_error (b0 :: a0 :: a1 :: a2 :: a3 :: fcb :: c0 :: c1 :: rest) (8 + fol) = Some port).
    { cbn [Nat.add nth_error]. rewrite <- (firstn_skipn fol rest) at 1.
      rewrite nth_error_app2 by (rewrite firstn_length; lia).
      rewrite firstn_length. replace (fol - Nat.min fol (length rest)) with 0 by lia.
      rewrite Hsk. reflexivity. }
    rewrite Hnth. cbn [bind].
    assert (Hpl : firstn (length pl) (skipn (8 + fol + 1) (b0 :: a0 :: a1 :: a2 :: a3 :: fcb :: c0 :: c1 :: rest)) = pl).
    { replace (8 + fol + 1) with (8 + (fol + 1)) by lia. cbn [Nat.add skipn].
      replace (fol + 1) with (1 + fol) by lia. rewrite <- skipn_skipn. rewrite Hsk. cbn [skipn].
      rewrite firstn_app, Nat.sub_diag, firstn_all. cbn [firstn]. now rewrite app_nil_r. }
    replace (8 + fol + 1 + Z.to_nat (Z.of_nat n) - 1) with (8 + fol + 1 + length pl) by lia.
    destruct (port =? 0)%N.
    + rewrite decode_bounded_at_mk. cbn [length].
      replace (S (S (S (S (S (S (S (S (length rest)))))))) <? 8 + fol + 1 + length pl) with false
        by (symmetry; apply Nat.ltb_ge; lia).
      replace (8 + fol + 1 + length pl <? 8 + fol + 1) with false by (symmetry; apply Nat.ltb_ge; lia).
      cbn [orb]. replace (8 + fol + 1 + length pl - (8 + fol + 1)) with (length pl) by lia.
      rewrite Hpl. replace (Z.of_nat n - 1)%Z with (Z.of_nat (length pl)) by lia.
      rewrite decode_bounded_spec by lia. cbn [bind fst snd].
      pose proof (segments_size_le (mtype_uplink mt) (length pl) pl) as Hle. fold (spec_cmds (mtype_uplink mt) pl) in Hle.
      set (k := segments_size (spec_cmds (mtype_uplink mt) pl)) in *.
      rewrite sub_mk_in by (cbn [length]; lia). cbn [bind].
      replace (8 + fol + 1 + length pl - (8 + fol + 1 + k)) with (length pl - k) by lia.
      replace (8 + fol + 1 + k) with (k + (8 + fol + 1)) by lia.
      rewrite <- skipn_skipn.
      assert (Hpl2 : skipn (8 + fol + 1) (b0 :: a0 :: a1 :: a2 :: a3 :: fcb :: c0 :: c1 :: rest) = pl ++ tail).
      { replace (8 + fol + 1) with (8 + (fol + 1)) by lia. cbn [Nat.add skipn].
        replace (fol + 1) with (1 + fol) by lia. rewrite <- skipn_skipn. rewrite Hsk. reflexivity. }
      rewrite Hpl2. rewrite skipn_app. rewrite firstn_app. rewrite skipn_length.
      rewrite Nat.sub_diag. cbn [firstn]. rewrite app_nil_r.
      rewrite firstn_all2 by (rewrite skipn_length; lia).
      cbn. reflexivity.
    + rewrite sub_mk_in by (cbn [length]; lia). cbn [bind].
      replace (8 + fol + 1 + length pl - (8 + fol + 1)) with (length pl) by lia.
      rewrite Hpl. cbn. reflexivity.
Qed.

Lemma devaddr_indep v sp pos : devaddr_decode (mk_slice v sp) pos = devaddr_decode (mk_slice v []) pos.
Proof. unfold devaddr_decode. now rewrite !slen_mk, !rdn_mk. Qed.
Lemma fctrl_indep v sp pos : fctrl_decode (mk_slice v sp) pos = fctrl_decode (mk_slice v []) pos.
Proof. unfold fctrl_decode. now rewrite !slen_mk, !rd_mk. Qed.
Lemma dba_indep v sp set pos e : decode_bounded_at (mk_slice v sp) set pos e = decode_bounded_at (mk_slice v []) set pos e.
Proof. now rewrite !decode_bounded_at_mk. Qed.

Lemma fhdr_indep v sp mt pos : fhdr_decode (mk_slice v sp) mt pos = fhdr_decode (mk_slice v []) mt pos.
Proof.
  unfold fhdr_decode. rewrite devaddr_indep. destruct (devaddr_decode _ pos); cbn [bind]; try reflexivity.
  rewrite fctrl_indep. destruct (fctrl_decode _ _); cbn [bind]; try reflexivity.
  rewrite !slen_mk. destruct (_ <? _); [reflexivity|].
  rewrite !rdn_mk. destruct (_ <=? _); cbn [bind]; [|reflexivity].
  destruct (0 <? _)%N; [|reflexivity]. now rewrite dba_indep.
Qed.

Lemma bind_no_panic {A B} (o : outcome A) (f : A -> outcome B) :
  o <> Panic -> (forall a, o = Ok a -> f a <> Panic) -> bind o f <> Panic.
Proof. destruct o; cbn; auto; congruence. Qed.

Lemma fhdr_short_no_panic mt b0 a0 a1 a2 a3 fcb c0 c1 rest :
  fhdr_decode (mk_slice (b0 :: a0 :: a1 :: a2 :: a3 :: fcb :: c0 :: c1 :: rest) []) mt 1 <> Panic.
Proof.
  unfold fhdr_decode, devaddr_decode, fctrl_decode.
  rewrite !slen_mk, !rdn_mk, !rd_mk. cbn [length Nat.add Nat.ltb Nat.leb nth_error firstn skipn bind].
  destruct (0 <? _)%N; [|discriminate].
  rewrite decode_bounded_at_mk. destruct (_ || _); [discriminate|].
  apply bind_no_panic; [|discriminate].
  apply bind_no_panic; [apply decode_bounded_no_panic | discriminate].
Qed.

Lemma fhdr_pos_gen s mt pos h : fhdr_decode s mt pos = Ok h ->
  exists c, fctrl_decode s (pos + 4) = Ok c /\ h_pos h = pos + 4 + 1 + 2 + N.to_nat (foptslen c).
Proof.
  unfold fhdr_decode. destruct (devaddr_decode s pos) as [a| |]; cbn [bind]; try discriminate.
  destruct (fctrl_decode s (pos + 4)) as [c| |]; cbn [bind]; try discriminate.
  destruct (slen s <? pos + 4 + 1 + 2); [discriminate|].
  destruct (rdn s (pos + 4 + 1) 2) as [cb| |]; cbn [bind]; try discriminate.
  destruct (0 <? foptslen c)%N eqn:E.
  - destruct (decode_bounded_at s _ _ _) as [r| |]; cbn [bind]; try discriminate.
    intros [= <-]. exists c. split; [reflexivity|]. reflexivity.
  - intros [= <-]. exists c. split; [reflexivity|]. cbn [h_pos]. apply N.ltb_ge in E. lia.
Qed.

Lemma fhdr_pos mt b0 a0 a1 a2 a3 fcb c0 c1 rest h :
  fhdr_decode (mk_slice (b0 :: a0 :: a1 :: a2 :: a3 :: fcb :: c0 :: c1 :: rest) []) mt 1 = Ok h ->
  h_pos h = 8 + N.to_nat (N.land fcb 15).
Proof.
  intros H. apply fhdr_pos_gen in H. destruct H as (c & Hc & ->).
  unfold fctrl_decode in Hc. rewrite slen_mk, rd_mk in Hc. cbn in Hc. injection Hc as <-. reflexivity.
Qed.

Lemma macpayload_short mt mj mic b0 a0 a1 a2 a3 fcb c0 c1 rest sp :
  length rest < N.to_nat (N.land fcb 15) + 4 ->
  exists e, macpayload_decode (mk_slice (b0 :: a0 :: a1 :: a2 :: a3 :: fcb :: c0 :: c1 :: rest) sp) (f_init mt mj mic) 1 = Err e
            /\ macpayload_decode (mk_slice (b0 :: a0 :: a1 :: a2 :: a3 :: fcb :: c0 :: c1 :: rest) []) (f_init mt mj mic) 1 = Err e.
Proof.
  intros Hlen. unfold macpayload_decode. cbn [mtype f_init]. rewrite (fhdr_indep _ sp).
  pose proof (fhdr_short_no_panic mt b0 a0 a1 a2 a3 fcb c0 c1 rest) as NP.
  destruct (fhdr_decode _ mt 1) as [h|e|] eqn:H; [|exists e; now split|contradiction].
  apply fhdr_pos in H. cbn [bind]. rewrite H, !slen_mk. cbn [length].
  replace (_ <? 0)%Z with true by (symmetry; apply Z.ltb_lt; lia).
  exists ErrBufferTruncated. now split.
Qed.

(* split a visible slice of at least 12 bytes into header bytes and the rest *)
Lemma split_header (v : list N) : 12 <= length v ->
  exists b0 a0 a1 a2 a3 fcb c0 c1 rest, v = b0 :: a0 :: a1 :: a2 :: a3 :: fcb :: c0 :: c1 :: rest /\ 4 <= length rest.
Proof.
  intros H. do 8 (destruct v as [|? v]; [cbn in H; lia|]).
  do 9 eexists. split; [reflexivity|]. cbn [length] in H. lia.
Qed.

Definition mhdr_mtype (b0 : N) : N := N.shiftr (N.land b0 224) 5.
Definition mhdr_major (b0 : N) : N := N.land b0 3.

Lemma decode_data v sp b0 a0 a1 a2 a3 fcb c0 c1 rest :
  v = b0 :: a0 :: a1 :: a2 :: a3 :: fcb :: c0 :: c1 :: rest -> 4 <= length rest ->
  mhdr_major b0 = 0%N -> is_data_mtype (mhdr_mtype b0) = true ->
  decode (mk_slice v sp) =
    macpayload_decode (mk_slice v sp) (f_init (mhdr_mtype b0) 0 (le_val (skipn (length v - 4) v))) 1.
Proof.
  intros -> Hl Hm Hd. unfold decode. rewrite slen_mk. cbn [length].
  change (N.to_nat c_MinimumMessageSize) with 12.
  replace (S (S (S (S (S (S (S (S (length rest)))))))) <? 12) with false by (symmetry; apply Nat.ltb_ge; lia).
  rewrite rd_mk. cbn [nth_error bind]. fold (mhdr_mtype b0). fold (mhdr_major b0). rewrite Hm.
  change (c_MaxSupportedVersion <? 0)%N with false. cbv iota.
  rewrite rdn_mk. cbn [length].
  replace (S (S (S (S (S (S (S (S (length rest)))))))) - 4 + 4 <=? S (S (S (S (S (S (S (S (length rest))))))))) with true
    by (symmetry; apply Nat.leb_le; lia).
  cbn [bind]. rewrite Hd.
  rewrite firstn_all2 by (rewrite skipn_length; cbn [length]; lia).
  reflexivity.
Qed.

Definition f_base (mt mic : N) : frame :=
  let p := new_phy Proprietary in
  {| mtype := mt; major := 0; f_devaddr := f_devaddr p; fc := fc p; fcnt := fcnt p; fopts := fopts p;
     fport := fport p; frm := frm p; maccmds := maccmds p; mic := mic; jr := jr p; ja := ja p |}.
Definition with_jr (f : frame) (j : joinreq) : frame :=
  {| mtype := mtype f; major := major f; f_devaddr := f_devaddr f; fc := fc f; fcnt := fcnt f; fopts := fopts f;
     fport := fport f; frm := frm f; maccmds := maccmds f; mic := mic f; jr := j; ja := ja f |}.
Definition with_ja (f : frame) (j : joinacc) : frame :=
  {| mtype := mtype f; major := major f; f_devaddr := f_devaddr f; fc := fc f; fcnt := fcnt f; fopts := fopts f;
     fport := fport f; frm := frm f; maccmds := maccmds f; mic := mic f; jr := jr f; ja := j |}.

Lemma decode_nondata v sp b0 a0 a1 a2 a3 fcb c0 c1 rest :
  v = b0 :: a0 :: a1 :: a2 :: a3 :: fcb :: c0 :: c1 :: rest -> 4 <= length rest ->
  mhdr_major b0 = 0%N -> is_data_mtype (mhdr_mtype b0) = false ->
  decode (mk_slice v sp) =
    let f0 := f_base (mhdr_mtype b0) (le_val (skipn (length v - 4) v)) in
    if (mhdr_mtype b0 =? JoinRequest)%N then do j <- joinreq_decode (mk_slice v sp) 1; Ok (with_jr f0 j)
    else if (mhdr_mtype b0 =? JoinAccept)%N then do j <- joinacc_decode (mk_slice v sp) 1; Ok (with_ja f0 j)
    else Err ErrInvalidMessageType.
Proof.
  intros -> Hl Hm Hd. unfold decode. rewrite slen_mk. cbn [length].
  change (N.to_nat c_MinimumMessageSize) with 12.
  replace (S (S (S (S (S (S (S (S (length rest)))))))) <? 12) with false by (symmetry; apply Nat.ltb_ge; lia).
  rewrite rd_mk. cbn [nth_error bind]. fold (mhdr_mtype b0). fold (mhdr_major b0). rewrite Hm.
  change (c_MaxSupportedVersion <? 0)%N with false. cbv iota.
  rewrite rdn_mk. cbn [length].
  replace (S (S (S (S (S (S (S (S (length rest)))))))) - 4 + 4 <=? S (S (S (S (S (S (S (S (length rest))))))))) with true
    by (symmetry; apply Nat.leb_le; lia).
  cbn [bind]. rewrite Hd.
  rewrite firstn_all2 by (rewrite skipn_length; cbn [length]; lia).
  reflexivity.
Qed.

Ltac leb_cases :=
  repeat match goal with
  | |- context [?a <=? ?b] => destruct (Nat.leb_spec a b); try lia
  | |- context [?a <? ?b] => destruct (Nat.ltb_spec a b); try lia
  end.

Lemma joinreq_ok v sp pos : exists r, joinreq_decode (mk_slice v sp) pos = r /\ r <> Panic /\ joinreq_decode (mk_slice v []) pos = r.
Proof.
  eexists. split; [reflexivity|]. unfold joinreq_decode. rewrite !slen_mk, !rdn_mk.
  destruct (Nat.ltb_spec (length v) (pos + 18)); [split; [discriminate|reflexivity]|].
  leb_cases. cbn [bind]. split; [discriminate|reflexivity].
Qed.

Lemma joinacc_ok v sp pos : exists r, joinacc_decode (mk_slice v sp) pos = r /\ r <> Panic /\ joinacc_decode (mk_slice v []) pos = r.
Proof.
  eexists. split; [reflexivity|]. unfold joinacc_decode, devaddr_decode. rewrite !slen_mk, !rdn_mk, !rd_mk.
  leb_cases; cbn [bind]; leb_cases; cbn [bind].
  all: repeat match goal with
       | |- context [match nth_error ?l ?i with _ => _ end] =>
           let E := fresh "E" in destruct (nth_error l i) eqn:E; [|apply nth_error_None in E; lia]; cbn [bind]
       end.
  all: split; [discriminate|reflexivity].
Qed.

Theorem decode_total_indep v sp :
  decode (mk_slice v sp) <> Panic /\ decode (mk_slice v sp) = decode (mk_slice v []).
Proof.
  destruct (Nat.lt_ge_cases (length v) 12) as [Hs|Hl].
  { unfold decode. rewrite !slen_mk. change (N.to_nat c_MinimumMessageSize) with 12.
    replace (length v <? 12) with true by (symmetry; apply Nat.ltb_lt; lia). split; [discriminate|reflexivity]. }
  destruct (split_header v Hl) as (b0 & a0 & a1 & a2 & a3 & fcb & c0 & c1 & rest & Hv & Hr).
  destruct (N.eq_dec (mhdr_major b0) 0) as [Hm|Hm].
  - destruct (is_data_mtype (mhdr_mtype b0)) eqn:Hd.
    + rewrite (decode_data v sp _ _ _ _ _ _ _ _ _ Hv Hr Hm Hd), (decode_data v [] _ _ _ _ _ _ _ _ _ Hv Hr Hm Hd).
      subst v.
      destruct (Nat.lt_ge_cases (length rest) (N.to_nat (N.land fcb 15) + 4)) as [Hsh|Hlo].
      * destruct (macpayload_short (mhdr_mtype b0) 0 (le_val (skipn (length (b0 :: a0 :: a1 :: a2 :: a3 :: fcb :: c0 :: c1 :: rest) - 4) (b0 :: a0 :: a1 :: a2 :: a3 :: fcb :: c0 :: c1 :: rest))) b0 a0 a1 a2 a3 fcb c0 c1 rest sp Hsh) as (e & E1 & E2).
        rewrite E1, E2. split; [discriminate|reflexivity].
      * rewrite !macpayload_long by exact Hlo. split; [discriminate|reflexivity].
    + (* join and unsupported types *)
      rewrite (decode_nondata v sp _ _ _ _ _ _ _ _ _ Hv Hr Hm Hd), (decode_nondata v [] _ _ _ _ _ _ _ _ _ Hv Hr Hm Hd).
      cbv zeta.
      destruct (mhdr_mtype b0 =? JoinRequest)%N.
      { destruct (joinreq_ok v sp 1) as (r & R1 & R2 & R3). rewrite R1, R3. destruct r; [split; [discriminate|reflexivity] | split; [discriminate|reflexivity] | contradiction]. }
      destruct (mhdr_mtype b0 =? JoinAccept)%N.
      { destruct (joinacc_ok v sp 1) as (r & R1 & R2 & R3). rewrite R1, R3. destruct r; [split; [discriminate|reflexivity] | split; [discriminate|reflexivity] | contradiction]. }
      split; [discriminate|reflexivity].
  - subst v. unfold decode. rewrite !slen_mk. change (N.to_nat c_MinimumMessageSize) with 12. cbn [length].
    replace (S (S (S (S (S (S (S (S (length rest)))))))) <? 12) with false by (symmetry; apply Nat.ltb_ge; lia).
    rewrite !rd_mk. cbn [nth_error bind]. fold (mhdr_major b0).
    replace (c_MaxSupportedVersion <? mhdr_major b0)%N with true by (symmetry; apply N.ltb_lt; change c_MaxSupportedVersion with 0%N; lia).
    split; [discriminate|reflexivity].
Qed.
