(* Interleavings of handlers of one device (Model/Steps.v interleave, interleaveN): witness schedules computed
   with the concrete cipher (Base/AES.v), and the join clause of C05 for every schedule. The correspondence run
   executes the same forced schedules on the real pipeline. *)
From Coq Require Import String.
From Lospan Require Import Base.Bytes Base.AES Base.Outcome Model.FrameTypes Model.Crypto Gen.Consts Model.Frame Model.Store
  Model.Server Model.Steps Spec.RefDevice Proof.BitLemmas.
Open Scope N_scope.

Definition w_nwk : list N := map N.of_nat (seq 1 16).
Definition w_app : list N := map N.of_nat (seq 17 16).
Definition w_dev (fup fdn : N) : device :=
  {| d_eui := 1; d_addr := 19088743; d_appkey := repeat 0 16; d_appskey := w_app; d_nwkskey := w_nwk; d_appeui := 9;
     d_state := 8; d_fup := fup; d_fdn := fdn; d_relaxed := false; d_keywarn := false; d_nonces := [] |}.
Definition w_st (fup fdn : N) : dstate := {| ds_row := Some (w_dev fup fdn); ds_nonces := []; ds_inbox := []; ds_outbox := []; ds_fb := None |}.
Definition w_radio : radio := {| r_rssi := 0%Z; r_snr := 0; r_freq := 0; r_datr := "SF7BW125"%string; r_chan := 0; r_rfch := 0; r_rx1delay := 0 |}.
Definition w_rx (raw : list N) (gw ts : N) : rxpacket :=
  {| rx_raw := raw; rx_radio := w_radio; rx_gw := {| g_eui := gw; g_host := 0; g_port := 0; g_clock := 5; g_ver := 2 |}; rx_ts := ts |}.
(* a confirmed uplink with counter c, as a conformant device builds it *)
Definition w_raw (c : N) : list N := ref_uplink aes_enc w_nwk w_app 4 19088743 c 0 [] 7 [170; 187].
Definition w_frame (c : N) : frame := match decode (mk_slice (w_raw c) []) with Ok f => f | _ => new_phy 0 end.
Definition w_prog (c gw ts : N) : prog := uplink_prog aes_enc aes_dec (w_frame c) (w_rx (w_raw c) gw ts) 1 1.
Definition w_fcnt_of (o : out) : list N := match o with ODown d => [le_val (firstn 2 (skipn 6 (dl_raw d)))] | _ => [] end.

(* the frame is authentic for the device and not stale: the sequential model records it once *)
Example witness_frame_is_good :
  mic_ok aes_enc (w_frame 5) (w_raw 5) (w_dev 5 3) = true /\
  length (ds_inbox (fst (prun [9] 30 (w_st 5 3) (w_prog 5 100 1000) []))) = 1%nat.
Proof. vm_compute. split; reflexivity. Qed.

(* The schedules that broke the code before the counters were advanced by single statements
   (AdvanceFCntUp, NextFCntDn): copies of one frame with both reads ahead of both writes, and two consecutive
   frames overlapping (the later frame's handler writes first: the overtaken frame is then refused as used).
   On the present model they are harmless; SchedDataProof.v proves it for every schedule. *)
Definition copies_result := interleave [9] [false; true] 60 (w_st 5 3) (w_prog 5 100 1000) (w_prog 5 200 2000) [].
Example old_copies_schedule_now_harmless :
  length (ds_inbox (fst copies_result)) = 1%nat /\ flat_map w_fcnt_of (snd copies_result) = [3] /\ option_map d_fup (ds_row (fst copies_result)) = Some 6 /\ option_map d_fdn (ds_row (fst copies_result)) = Some 4.
Proof. vm_compute. repeat split. Qed.
Definition consecutive_result := interleave [9] ([true; false; true; false] ++ repeat true 30) 60 (w_st 5 3) (w_prog 5 100 1000) (w_prog 6 200 2000) [].
Example old_consecutive_schedule_now_harmless :
  length (ds_inbox (fst consecutive_result)) = 1%nat /\ flat_map w_fcnt_of (snd consecutive_result) = [3] /\ option_map d_fup (ds_row (fst consecutive_result)) = Some 7 /\ option_map d_fdn (ds_row (fst consecutive_result)) = Some 4.
Proof. vm_compute. repeat split. Qed.

(* ---------- C05: two handlers of copies of one join-request, EVERY schedule ---------- *)
From Lospan Require Import Model.Join Proof.LocalProof.
Section JoinSched.
  Variable E D : list N -> list N -> list N.
  Variable apps : list N.
  Variable n : N.   (* the DevNonce of the request *)

  Definition nstored (st : dstate) : Prop := existsb (fun x => x =? n) (ds_nonces st) = true.

  (* emits at most k frames, whatever the operations return *)
  Inductive atmost : nat -> prog -> Prop :=
  | AM_halt k o : downs o = [] -> atmost k (Halt o)
  | AM_emit k d c kk : (forall r, atmost k (kk r)) -> atmost (S k) (Do (SEmit d c) kk)
  | AM_other k o kk : (forall d c, o <> SEmit d c) -> (forall r, atmost k (kk r)) -> atmost k (Do o kk).
  (* has not inserted the nonce yet: only reads until it tries to; stops if the insert fails *)
  Inductive waiting : prog -> Prop :=
  | W_halt o : downs o = [] -> waiting (Halt o)
  | W_read o kk : (o = SGetRow \/ exists e, o = SGetApp e) -> (forall r, waiting (kk r)) -> waiting (Do o kk)
  | W_add kk : (forall e, waiting (kk (XErr (Some e)))) -> atmost 1 (kk (XErr None)) -> waiting (Do (SAddNonce n) kk).

  Lemma exec_nonces st o : ds_nonces (fst (fst (exec apps st o))) = ds_nonces st \/
    exists m, ds_nonces (fst (fst (exec apps st o))) = ds_nonces st ++ [m].
  Proof.
    destruct o; cbn [exec fst]; try (left; reflexivity).
    - unfold l_update_device_state. destruct (ds_row st); cbn; now left.
    - unfold l_advance_fup. destruct (ds_row st) as [r|]; [destruct ((d_fup r <=? accepted) && bytes_eqb (d_nwkskey r) key)|]; cbn; now left.
    - unfold l_next_fdn. destruct (ds_row st) as [r|]; [destruct (negb (bytes_eqb (d_nwkskey r) key))|]; cbn; now left.
    - unfold l_create_upstream. destruct (existsb _ (ds_inbox st)); cbn; now left.
    - unfold l_get_phy. destruct (ds_fb st); [|cbn; now left]. destruct (_ && _ && _); [cbn; now left|].
      destruct (0 <? _)%nat; [|cbn; now left]. destruct (max_payload datr); [|cbn; now left]. destruct (_ <? _)%nat; cbn; now left.
    - unfold l_add_nonce. destruct (existsb _ (ds_nonces st)); cbn; [now left | right; eexists; reflexivity].
    - unfold l_update_device. destruct (ds_row st); cbn; now left.
  Qed.
  Lemma exec_nstored st o : nstored st -> nstored (fst (fst (exec apps st o))).
  Proof.
    unfold nstored. intros H. destruct (exec_nonces st o) as [-> | [m ->]]; [exact H|]. rewrite existsb_app, H. reflexivity.
  Qed.
  Lemma exec_silent st o : (forall d c, o <> SEmit d c) -> snd (exec apps st o) = [].
  Proof.
    intros H. destruct o; cbn [exec snd]; try reflexivity.
    - now destruct (l_update_device_state st dev).
    - now destruct (l_advance_fup st key accepted newfup kw).
    - now destruct (l_next_fdn st key).
    - now destruct (l_create_upstream st m).
    - now destruct (l_get_phy st datr).
    - exfalso. eapply H. reflexivity.
    - now destruct (l_add_nonce st n0).
    - now destruct (l_update_device st dev).
  Qed.
  Lemma atmost_mono k p : atmost k p -> atmost (S k) p.
  Proof. induction 1 as [k o Ho | k d c kk _ IH | k o kk Ho _ IH]; [now constructor | constructor; exact IH | now constructor]. Qed.
  Lemma dedupe_atmost k p q : atmost k p -> atmost k (dedupe p q).
  Proof. unfold dedupe. intros H. destruct (_ && _); [now constructor | exact H]. Qed.
  Lemma dedupe_waiting p q : waiting p -> waiting (dedupe p q).
  Proof. unfold dedupe. intros H. destruct (_ && _); [now constructor | exact H]. Qed.

  (* the situation at any point of any interleaving *)
  Definition jinv (st : dstate) (p q : prog) (acc : list out) : Prop :=
    (waiting p /\ waiting q /\ downs acc = []) \/
    (nstored st /\ exists k, (length (downs acc) + k <= 1)%nat /\ ((atmost k p /\ waiting q) \/ (waiting p /\ atmost k q))).

  (* one step of a handler that is still waiting *)
  Lemma step_waiting st o kk : waiting (Do o kk) ->
    let '(st', r, e) := exec apps st o in
    e = [] /\ ((waiting (kk r) /\ (nstored st -> nstored st')) \/ (nstored st' /\ atmost 1 (kk r) /\ ~ nstored st)).
  Proof.
    intros H. inversion H as [| o' kk' Hr Hk | kk' Hf Hs]; subst.
    - destruct Hr as [-> | [e ->]]; cbn [exec]; (split; [reflexivity|]); left; split; auto.
    - cbn [exec]. destruct (l_add_nonce st n) as [st' e] eqn:U. unfold l_add_nonce in U.
      destruct (existsb (fun x => x =? n) (ds_nonces st)) eqn:Ex; inversion U; subst; (split; [reflexivity|]).
      + left. split; [apply Hf | auto].
      + right. split; [unfold nstored; cbn; rewrite existsb_app; cbn; rewrite N.eqb_refl; now rewrite orb_true_r|].
        split; [exact Hs|]. unfold nstored. now rewrite Ex.
  Qed.
  Lemma step_atmost st o kk k : atmost k (Do o kk) ->
    let '(st', r, e) := exec apps st o in
    exists k', atmost k' (kk r) /\ (length (downs e) + k' <= k)%nat.
  Proof.
    intros H. inversion H as [| k0 d c kk' Hk | k0 o' kk' Ho Hk]; subst.
    - cbn [exec]. exists k0. split; [apply Hk | cbn; lia].
    - pose proof (exec_silent st o Ho) as Hs. destruct (exec apps st o) as [[st' r] e]. cbn in Hs. subst e. exists k. split; [apply Hk | cbn; lia].
  Qed.

  Theorem interleave_join_at_most_one : forall fuel sched st p q acc,
    jinv st p q acc -> (length (downs (snd (interleave apps sched fuel st p q acc))) <= 1)%nat.
  Proof.
    induction fuel as [|fuel IH]; intros sched st p q acc Hinv; cbn [interleave].
    { cbn [snd]. destruct Hinv as [(_ & _ & Hd) | (_ & k & Hk & _)]; [rewrite Hd; cbn; lia | lia]. }
    assert (HaltD : forall a, (waiting (Halt a) \/ exists k, atmost k (Halt a)) -> downs a = []).
    { intros a [H | [k H]]; inversion H; assumption. }
    destruct p as [a | o1 k1], q as [b | o2 k2].
    - (* both finished *)
      cbn [snd]. rewrite !downs_app.
      assert (downs a = []) by (apply HaltD; destruct Hinv as [(W & _ & _) | (_ & k & _ & [(A & _) | (W & _)])]; eauto).
      assert (downs b = []) by (apply HaltD; destruct Hinv as [(_ & W & _) | (_ & k & _ & [(_ & W) | (_ & A)])]; eauto).
      rewrite H, H0, !app_nil_r. destruct Hinv as [(_ & _ & Hd) | (_ & k & Hk & _)]; [rewrite Hd; cbn; lia | lia].
    - (* only the second runs *)
      destruct Hinv as [(Wp & Wq & Hd) | (Hs & k & Hk & [(Ap & Wq) | (Wp & Aq)])].
      + pose proof (step_waiting st o2 k2 Wq) as S. destruct (exec apps st o2) as [[st' r] e]. destruct S as [-> [[W' _] | (S' & A' & _)]]; apply IH.
        * left. rewrite app_nil_r. tauto.
        * right. split; [exact S'|]. exists 1%nat. rewrite app_nil_r, Hd. cbn. split; [lia | right; tauto].
      + pose proof (step_waiting st o2 k2 Wq) as S. pose proof (exec_nstored st o2 Hs) as N'. destruct (exec apps st o2) as [[st' r] e]. cbn in N'.
        destruct S as [-> [[W' _] | (_ & _ & Hn)]]; [|contradiction]. apply IH. right. split; [exact N'|]. exists k. rewrite app_nil_r. split; [exact Hk | left; tauto].
      + pose proof (step_atmost st o2 k2 k Aq) as S. pose proof (exec_nstored st o2 Hs) as N'. destruct (exec apps st o2) as [[st' r] e]. cbn in N'.
        destruct S as (k' & A' & Hk'). apply IH. right. split; [exact N'|]. exists k'. rewrite downs_app, app_length. split; [lia | right; tauto].
    - (* only the first runs *)
      destruct Hinv as [(Wp & Wq & Hd) | (Hs & k & Hk & [(Ap & Wq) | (Wp & Aq)])].
      + pose proof (step_waiting st o1 k1 Wp) as S. destruct (exec apps st o1) as [[st' r] e]. destruct S as [-> [[W' _] | (S' & A' & _)]]; apply IH.
        * left. rewrite app_nil_r. tauto.
        * right. split; [exact S'|]. exists 1%nat. rewrite app_nil_r, Hd. cbn. split; [lia | left; tauto].
      + pose proof (step_atmost st o1 k1 k Ap) as S. pose proof (exec_nstored st o1 Hs) as N'. destruct (exec apps st o1) as [[st' r] e]. cbn in N'.
        destruct S as (k' & A' & Hk'). apply IH. right. split; [exact N'|]. exists k'. rewrite downs_app, app_length. split; [lia | left; tauto].
      + pose proof (step_waiting st o1 k1 Wp) as S. pose proof (exec_nstored st o1 Hs) as N'. destruct (exec apps st o1) as [[st' r] e]. cbn in N'.
        destruct S as [-> [[W' _] | (_ & _ & Hn)]]; [|contradiction]. apply IH. right. split; [exact N'|]. exists k. rewrite app_nil_r. split; [exact Hk | right; tauto].
    - (* both can run: the schedule decides *)
      destruct (hd false sched).
      + destruct Hinv as [(Wp & Wq & Hd) | (Hs & k & Hk & [(Ap & Wq) | (Wp & Aq)])].
        * pose proof (step_waiting st o2 k2 Wq) as S. destruct (exec apps st o2) as [[st' r] e]. destruct S as [-> [[W' _] | (S' & A' & _)]]; apply IH.
          -- left. rewrite app_nil_r. split; [exact Wp|]. split; [now apply dedupe_waiting | exact Hd].
          -- right. split; [exact S'|]. exists 1%nat. rewrite app_nil_r, Hd. cbn. split; [lia | right; split; [exact Wp | now apply dedupe_atmost]].
        * pose proof (step_waiting st o2 k2 Wq) as S. pose proof (exec_nstored st o2 Hs) as N'. destruct (exec apps st o2) as [[st' r] e]. cbn in N'.
          destruct S as [-> [[W' _] | (_ & _ & Hn)]]; [|contradiction]. apply IH. right. split; [exact N'|]. exists k. rewrite app_nil_r.
          split; [exact Hk | left; split; [exact Ap | now apply dedupe_waiting]].
        * pose proof (step_atmost st o2 k2 k Aq) as S. pose proof (exec_nstored st o2 Hs) as N'. destruct (exec apps st o2) as [[st' r] e]. cbn in N'.
          destruct S as (k' & A' & Hk'). apply IH. right. split; [exact N'|]. exists k'. rewrite downs_app, app_length.
          split; [lia | right; split; [exact Wp | now apply dedupe_atmost]].
      + destruct Hinv as [(Wp & Wq & Hd) | (Hs & k & Hk & [(Ap & Wq) | (Wp & Aq)])].
        * pose proof (step_waiting st o1 k1 Wp) as S. destruct (exec apps st o1) as [[st' r] e]. destruct S as [-> [[W' _] | (S' & A' & _)]]; apply IH.
          -- left. rewrite app_nil_r. split; [now apply dedupe_waiting|]. split; [exact Wq | exact Hd].
          -- right. split; [exact S'|]. exists 1%nat. rewrite app_nil_r, Hd. cbn. split; [lia | left; split; [now apply dedupe_atmost | exact Wq]].
        * pose proof (step_atmost st o1 k1 k Ap) as S. pose proof (exec_nstored st o1 Hs) as N'. destruct (exec apps st o1) as [[st' r] e]. cbn in N'.
          destruct S as (k' & A' & Hk'). apply IH. right. split; [exact N'|]. exists k'. rewrite downs_app, app_length.
          split; [lia | left; split; [now apply dedupe_atmost | exact Wq]].
        * pose proof (step_waiting st o1 k1 Wp) as S. pose proof (exec_nstored st o1 Hs) as N'. destruct (exec apps st o1) as [[st' r] e]. cbn in N'.
          destruct S as [-> [[W' _] | (_ & _ & Hn)]]; [|contradiction]. apply IH. right. split; [exact N'|]. exists k. rewrite app_nil_r.
          split; [exact Hk | right; split; [now apply dedupe_waiting | exact Aq]].
  Qed.

  (* ---- any number of handlers ---- *)
  Lemma nth_replace_same i p : forall ps q, nth_error ps i = Some q -> nth_error (replace_nth i p ps) i = Some p.
  Proof. induction i as [|i IH]; intros [|h t] q H; cbn in *; try discriminate; [reflexivity | now apply (IH t q)]. Qed.
  Lemma nth_replace_other i p : forall ps j, j <> i -> nth_error (replace_nth i p ps) j = nth_error ps j.
  Proof.
    induction i as [|i IH]; intros [|h t] j Hj; cbn; try reflexivity.
    - destruct j; [congruence | reflexivity].
    - destruct j; [reflexivity|]. cbn. apply IH. congruence.
  Qed.
  Definition harmless_halt (p : prog) : Prop := match p with Halt o => downs o = [] | Do _ _ => True end.
  Lemma waiting_halt p : waiting p -> harmless_halt p.
  Proof. destruct 1; cbn; auto. Qed.
  Lemma atmost_halt k p : atmost k p -> harmless_halt p.
  Proof. destruct 1; cbn; auto. Qed.
  Lemma final_outs_quiet ps : Forall harmless_halt ps -> downs (final_outs ps) = [].
  Proof.
    induction 1 as [|p t Hp _ IH]; [reflexivity|]. unfold final_outs in *. cbn [flat_map]. rewrite downs_app, IH, app_nil_r.
    destruct p; cbn in *; [exact Hp | reflexivity].
  Qed.

  Definition jinvN (st : dstate) (ps : list prog) (acc : list out) : Prop :=
    (Forall waiting ps /\ downs acc = []) \/
    (nstored st /\ exists k w, (length (downs acc) + k <= 1)%nat /\
       (exists p, nth_error ps w = Some p /\ atmost k p) /\
       (forall j p, j <> w -> nth_error ps j = Some p -> waiting p)).

  Lemma jinvN_harmless st ps acc : jinvN st ps acc -> Forall harmless_halt ps.
  Proof.
    intros [(W & _) | (_ & k & w & _ & (pw & Hw & Aw) & Ho)].
    - eapply Forall_impl; [|exact W]. apply waiting_halt.
    - apply Forall_forall. intros p Hin. apply In_nth_error in Hin. destruct Hin as [j Hj].
      destruct (Nat.eq_dec j w) as [->|Hne]; [rewrite Hw in Hj; injection Hj as <-; eapply atmost_halt; exact Aw | eapply waiting_halt, Ho; eauto].
  Qed.
  Lemma jinvN_bound st ps acc : jinvN st ps acc -> (length (downs acc) <= 1)%nat.
  Proof. intros [(_ & Hd) | (_ & k & w & Hk & _)]; [rewrite Hd; cbn; lia | lia]. Qed.

  Theorem interleaveN_join_at_most_one : forall fuel sched st ps acc,
    jinvN st ps acc -> (length (downs (snd (interleaveN apps sched fuel st ps acc))) <= 1)%nat.
  Proof.
    induction fuel as [|fuel IH]; intros sched st ps acc Hinv; cbn [interleaveN]; [cbn [snd]; now apply (jinvN_bound st ps)|].
    destruct (choose (hd 0%nat sched) ps) as [i|].
    2:{ cbn [snd]. rewrite downs_app, (final_outs_quiet ps (jinvN_harmless _ _ _ Hinv)), app_nil_r. now apply (jinvN_bound st ps). }
    destruct (nth_error ps i) as [[o0 | o k]|] eqn:Ei; try (cbn [snd]; now apply (jinvN_bound st ps)).
    (* the handler at position i performs operation o *)
    destruct Hinv as [(W & Hd) | (Hs & kk & w & Hk & (pw & Hw & Aw) & Ho)].
    - (* nobody has inserted the nonce yet *)
      assert (Wi : waiting (Do o k)) by (rewrite Forall_forall in W; apply W; eapply nth_error_In; exact Ei).
      pose proof (step_waiting st o k Wi) as S. destruct (exec apps st o) as [[st' r] e]. destruct S as [-> [[W' _] | (S' & A' & _)]]; apply IH.
      + left. rewrite app_nil_r. split; [|exact Hd]. apply Forall_forall. intros p Hin. apply In_nth_error in Hin. destruct Hin as [j Hj].
        destruct (Nat.eq_dec j i) as [->|Hne].
        * rewrite (nth_replace_same i _ ps _ Ei) in Hj. injection Hj as <-. destruct (_ && _); [now constructor | exact W'].
        * rewrite (nth_replace_other i _ ps j Hne) in Hj. rewrite Forall_forall in W. apply W. eapply nth_error_In; exact Hj.
      + right. split; [exact S'|]. exists 1%nat, i. rewrite app_nil_r, Hd. cbn [length]. split; [lia|]. split.
        * eexists. split; [apply (nth_replace_same i _ ps _ Ei)|]. destruct (_ && _); [now constructor | exact A'].
        * intros j p Hne Hj. rewrite (nth_replace_other i _ ps j Hne) in Hj. rewrite Forall_forall in W. apply W. eapply nth_error_In; exact Hj.
    - destruct (Nat.eq_dec i w) as [->|Hne].
      + (* the handler that inserted the nonce *)
        rewrite Hw in Ei. injection Ei as ->.
        pose proof (step_atmost st o k kk Aw) as S. pose proof (exec_nstored st o Hs) as N'. destruct (exec apps st o) as [[st' r] e]. cbn in N'.
        destruct S as (k' & A' & Hk'). apply IH. right. split; [exact N'|]. exists k', w. rewrite downs_app, app_length. split; [lia|]. split.
        * eexists. split; [apply (nth_replace_same w _ ps _ Hw)|]. destruct (_ && _); [now constructor | exact A'].
        * intros j p Hj Hp. rewrite (nth_replace_other w _ ps j Hj) in Hp. eapply Ho; eauto.
      + (* another handler: its insert fails, it stops *)
        assert (Wi : waiting (Do o k)) by (eapply Ho; eauto).
        pose proof (step_waiting st o k Wi) as S. pose proof (exec_nstored st o Hs) as N'. destruct (exec apps st o) as [[st' r] e]. cbn in N'.
        destruct S as [-> [[W' _] | (_ & _ & Hn)]]; [|contradiction]. apply IH. right. split; [exact N'|]. exists kk, w. rewrite app_nil_r. split; [exact Hk|]. split.
        * exists pw. split; [|exact Aw]. rewrite (nth_replace_other i _ ps w); [exact Hw | congruence].
        * intros j p Hj Hp. destruct (Nat.eq_dec j i) as [->|Hji].
          -- rewrite (nth_replace_same i _ ps _ Ei) in Hp. injection Hp as <-. destruct (_ && _); [now constructor | exact W'].
          -- rewrite (nth_replace_other i _ ps j Hji) in Hp. eapply Ho; eauto.
  Qed.
End JoinSched.

Section JoinCopies.
  Variable E D : list N -> list N -> list N.
  Variable apps : list N.

  Lemma not_emit_by_shape (o : sop) : match o with SEmit _ _ => False | _ => True end -> forall d c, o <> SEmit d c.
  Proof. intros H d c ->. exact H. Qed.

  Lemma atmost_enc_join dev j rx : atmost 1 (enc_join_prog E D dev j rx []).
  Proof.
    unfold enc_join_prog. apply AM_other; [now apply not_emit_by_shape|]. intros r.
    destruct r as [[e|]| | | | |]; try (constructor; reflexivity).
    destruct (encode_join_accept E D (d_appkey dev) JoinAccept c_MaxSupportedVersion j); try (constructor; reflexivity).
    apply AM_emit. intros _. constructor. reflexivity.
  Qed.
  Lemma atmost_enc_data dev p rx c now : atmost 1 (enc_data_prog E dev p rx c now []).
  Proof.
    unfold enc_data_prog. destruct (encode _); try (constructor; reflexivity).
    apply AM_other; [now apply not_emit_by_shape|]. intros r.
    destruct r as [| | | | |[cn|]]; try (constructor; reflexivity).
    destruct (encode_message E _ _ _) as [buf| |]; try (constructor; reflexivity).
    apply AM_other; [now apply not_emit_by_shape|]. intros _.
    destruct (length buf =? 0)%nat; [constructor; reflexivity|]. apply AM_emit. intros _. constructor. reflexivity.
  Qed.
  Lemma atmost_send dev rx c now : atmost 1 (send_prog E D dev rx c now []).
  Proof.
    unfold send_prog. apply AM_other; [now apply not_emit_by_shape|]. intros r.
    destruct r as [| | |g| |]; try (constructor; reflexivity). destruct g as [| |p]; try (constructor; reflexivity).
    destruct (po_mtype p =? JoinAccept).
    - destruct (po_ja p); now apply atmost_enc_join.
    - destruct (_ || _ || _); [constructor; reflexivity | apply atmost_enc_data].
  Qed.

  Lemma join_prog_waiting cfg f rx an na : cfg_disable_nonce_check cfg = false ->
    waiting (jr_devnonce (jr f)) (join_prog E D cfg f rx an na).
  Proof.
    intros Hc. unfold join_prog. apply W_read; [now left|]. intros r.
    destruct r as [| [dev0|] | | | |]; try (constructor; reflexivity).
    destruct (negb _); [constructor; reflexivity|]. apply W_read; [now left|]. intros r.
    destruct r as [| [dev|] | | | |]; try (constructor; reflexivity).
    destruct (negb (d_appeui dev =? _)); [constructor; reflexivity|]. destruct (_ && _); [constructor; reflexivity|].
    apply W_read; [right; eexists; reflexivity|]. intros r.
    destruct r as [| | | |[|]|]; try (constructor; reflexivity).
    rewrite Hc. apply W_add.
    - intros e. constructor. reflexivity.
    - apply AM_other; [now apply not_emit_by_shape|]. intros r. destruct r as [[e|]| | | | |]; try (constructor; reflexivity).
      apply AM_other; [now apply not_emit_by_shape|]. intros _. apply atmost_send.
  Qed.

  (* C05, concurrent clause: two handlers working on copies of one join-request (any gateways, any application
     nonces they draw), interleaved operation by operation in ANY order: at most one join-accept leaves *)
  Theorem concurrent_join_copies_answered_at_most_once cfg f :
    cfg_disable_nonce_check cfg = false ->
    forall sched fuel st rx1 an1 na1 rx2 an2 na2,
      (length (downs (snd (interleave apps sched fuel st (join_prog E D cfg f rx1 an1 na1) (join_prog E D cfg f rx2 an2 na2) []))) <= 1)%nat.
  Proof.
    intros Hc sched fuel st rx1 an1 na1 rx2 an2 na2. apply (interleave_join_at_most_one E D apps (jr_devnonce (jr f))).
    left. split; [now apply join_prog_waiting|]. split; [now apply join_prog_waiting | reflexivity].
  Qed.

  (* any number of handlers (two, three, ...) working on copies of one join-request, any schedule *)
  Theorem concurrent_join_copies_any_number cfg f :
    cfg_disable_nonce_check cfg = false ->
    forall (copies : list (rxpacket * list N * N)) sched fuel st,
      (length (downs (snd (interleaveN apps sched fuel st
                             (map (fun c => join_prog E D cfg f (fst (fst c)) (snd (fst c)) (snd c)) copies) []))) <= 1)%nat.
  Proof.
    intros Hc copies sched fuel st. apply (interleaveN_join_at_most_one E D apps (jr_devnonce (jr f))).
    left. split; [|reflexivity]. apply Forall_forall. intros p Hin. apply in_map_iff in Hin. destruct Hin as (c & <- & _).
    now apply join_prog_waiting.
  Qed.
End JoinCopies.
