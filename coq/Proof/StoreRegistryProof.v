(* The per-device store model of C01-C10 (Model/Store.v) and the registry of C18 (Spec/AbsRegistry.v, refined by
   the SQL-level model and tied to the code operation by operation) describe the same storage operations: seen on one
   device, each registry operation the pipeline uses IS the corresponding operation of the per-device model. *)
From Coq Require Import ZArith.
From Lospan Require Import Base.Bytes Model.Codec Model.Store Model.RegistryTypes Spec.AbsRegistry Proof.RegistrySpecProof.
From Coq Require Import ZifyNat ZifyN ZifyBool.
Open Scope N_scope.

(* ---------------- the downlink queue ---------------- *)
Definition to_downm (m : dmsg) : downm :=
  {| dn_eui := m_eui m; dn_data := hex_enc (m_data m) (* the column holds the payload as hexadecimal text *); dn_port := m_port m; dn_ack := m_ack m; dn_created := Z.of_N (m_created m);
     dn_sent := Z.of_N (m_sent m); dn_acktime := Z.of_N (m_acktime m); dn_fcnt := m_fcntup m |}.
(* the registry's queue of device e is the per-device model's outbox *)
Definition queue_is (s : astore) (e : N) (st : dstate) : Prop := outbox_of s e = map to_downm (ds_outbox st).

Lemma map_map_if {A B} (f : A -> B) (c : A -> bool) (c' : B -> bool) (g : A -> A) (g' : B -> B) l :
  (forall x, c' (f x) = c x) -> (forall x, g' (f x) = f (g x)) ->
  map (fun y => if c' y then g' y else y) (map f l) = map f (map (fun x => if c x then g x else x) l).
Proof. intros Hc Hg. rewrite !map_map. apply map_ext. intros x. rewrite Hc. destruct (c x); [apply Hg | reflexivity]. Qed.

Theorem set_sent_time_agrees s e st c now fc : queue_is s e st ->
  queue_is (fst (a_step s (SetMessageSentTime e (Z.of_N c) (Z.of_N now) fc))) e (l_set_sent_time st c now fc).
Proof.
  unfold queue_is. intros H. rewrite (proj1 (message_status_laws s e)), H. unfold l_set_sent_time, upd_outbox. cbn [ds_outbox with_outbox].
  apply map_map_if; intros x; unfold to_downm; cbn; [|reflexivity].
  destruct (N.eqb_spec (m_created x) c) as [->|Hn]; [apply Z.eqb_refl | apply Z.eqb_neq; lia].
Qed.
Theorem update_ack_time_agrees s e st fc now : queue_is s e st ->
  queue_is (fst (a_step s (UpdateMessageAckTime e fc (Z.of_N now)))) e (l_update_ack_time st fc now).
Proof.
  unfold queue_is. intros H. rewrite (proj1 (proj2 (message_status_laws s e))), H. unfold l_update_ack_time, upd_outbox. cbn [ds_outbox with_outbox].
  apply map_map_if; intros x; unfold to_downm; cbn; [|reflexivity].
  f_equal; [f_equal|].
  - destruct (N.ltb_spec 0 (m_sent x)); [apply Z.ltb_lt | apply Z.ltb_ge]; lia.
  - destruct (N.eqb_spec (m_acktime x) 0) as [->|Hn]; [reflexivity | apply Z.eqb_neq; lia].
Qed.
Theorem reset_active_acks_agrees s e st : queue_is s e st ->
  queue_is (fst (a_step s (ResetActiveAcks e))) e (l_reset_active_acks st).
Proof.
  unfold queue_is. intros H. rewrite (proj1 (proj2 (proj2 (message_status_laws s e)))), H. unfold l_reset_active_acks, upd_outbox. cbn [ds_outbox with_outbox].
  apply map_map_if; intros x; unfold to_downm; cbn; [|reflexivity].
  f_equal. f_equal.
  - destruct (N.ltb_spec 0 (m_sent x)); [apply Z.ltb_lt | apply Z.ltb_ge]; lia.
  - destruct (N.eqb_spec (m_acktime x) 0) as [->|Hn]; [reflexivity | apply Z.eqb_neq; lia].
Qed.

Lemma insert_agrees m l : insert_by dn_created (to_downm m) (map to_downm l) = map to_downm (insert_by_created m l).
Proof.
  induction l as [|h t IH]; [reflexivity|]. cbn [map insert_by insert_by_created]. unfold to_downm at 1 2. cbn [dn_created].
  replace (Z.of_N (m_created m) <? Z.of_N (m_created h))%Z with (m_created m <? m_created h)
    by (destruct (N.ltb_spec (m_created m) (m_created h)); symmetry; [apply Z.ltb_lt | apply Z.ltb_ge]; lia).
  destruct (m_created m <? m_created h); cbn [map]; [reflexivity|]. now rewrite <- IH.
Qed.
Lemma sort_agrees l : sort_by dn_created (map to_downm l) = map to_downm (sort_by_created l).
Proof.
  induction l as [|h t IH]; [reflexivity|]. cbn [map].
  change (sort_by dn_created (to_downm h :: map to_downm t)) with (insert_by dn_created (to_downm h) (sort_by dn_created (map to_downm t))).
  rewrite IH. change (sort_by_created (h :: t)) with (insert_by_created h (sort_by_created t)). apply insert_agrees.
Qed.
Lemma filter_agrees l : filter (fun x => (dn_sent x =? 0)%Z) (map to_downm l) = map to_downm (filter (fun m => m_sent m =? 0) l).
Proof.
  induction l as [|h t IH]; [reflexivity|]. cbn [map filter].
  assert (E : (dn_sent (to_downm h) =? 0)%Z = (m_sent h =? 0)).
  { unfold to_downm; cbn [dn_sent]. destruct (N.eqb_spec (m_sent h) 0) as [->|Hn]; [reflexivity | apply Z.eqb_neq; lia]. }
  rewrite E. destruct (m_sent h =? 0); cbn [map]; now rewrite IH.
Qed.
Theorem next_unsent_agrees s e st : queue_is s e st ->
  snd (a_step s (GetNextUnsentMessage e)) = match l_get_next_unsent st with Some m => RDowns [to_downm m] | None => RNotFound end.
Proof.
  unfold queue_is. intros H. rewrite (proj2 (proj2 (proj2 (message_status_laws s e)))), H. unfold l_get_next_unsent.
  pose proof (filter_agrees (ds_outbox st)) as F.
  rewrite F, sort_agrees. destruct (sort_by_created _); reflexivity.
Qed.

(* ---------------- the device row: counters ---------------- *)
Definition row_rel (d : rdev) (r : device) : Prop :=
  rd_eui d = d_eui r /\ rd_addr d = d_addr r /\ rd_appkey d = d_appkey r /\ rd_appskey d = d_appskey r /\ rd_nwkskey d = d_nwkskey r /\
  rd_app d = d_appeui r /\ rd_state d = d_state r /\ rd_fup d = d_fup r /\ rd_fdn d = d_fdn r /\ rd_relaxed d = d_relaxed r /\ rd_kw d = d_keywarn r.
(* the registry's device e is the per-device model's row *)
Definition row_is (s : astore) (e : N) (st : dstate) : Prop :=
  match dev_at s e, ds_row st with
  | Some d, Some r => row_rel d r
  | None, None => True
  | _, _ => False
  end.

Theorem advance_fup_agrees s e st key a nf kw : row_is s e st ->
  row_is (fst (a_step s (AdvanceFCntUp e key a nf kw))) e (fst (l_advance_fup st key a nf kw)).
Proof.
  unfold row_is. rewrite advance_is_compare_and_store. unfold l_advance_fup.
  destruct (dev_at s e) as [d|], (ds_row st) as [r|] eqn:Er; cbn [option_map]; try contradiction; [|cbn; rewrite Er; auto].
  intros H. pose proof H as (H1 & H2 & H3 & H4 & H5 & H6 & H7 & H8 & H9 & H10 & H11). rewrite H8, H5.
  destruct ((d_fup r <=? a) && bytes_eqb (d_nwkskey r) key); cbn [fst ds_row with_row]; [|rewrite Er; exact H].
  unfold row_rel, upd_dev_state. cbn. tauto.
Qed.
Theorem next_fdn_agrees s e st key : NoDup (map rd_eui (a_devs s)) -> row_is s e st ->
  row_is (fst (a_step s (NextFCntDn e key))) e (fst (l_next_fdn st key)) /\
  snd (a_step s (NextFCntDn e key)) = match snd (l_next_fdn st key) with Some c => RCnt c | None => RNotFound end.
Proof.
  intros Hn. unfold row_is. destruct (next_is_fetch_and_increment s e key Hn) as [R1 R2]. rewrite R1, R2. unfold l_next_fdn.
  destruct (dev_at s e) as [d|], (ds_row st) as [r|] eqn:Er; cbn [option_map fst snd]; try contradiction; [|rewrite Er; auto].
  intros H. pose proof H as (H1 & H2 & H3 & H4 & H5 & H6 & H7 & H8 & H9 & H10 & H11). rewrite H5.
  destruct (bytes_eqb (d_nwkskey r) key); cbn [negb fst snd ds_row with_row]; [|rewrite Er; split; [exact H | reflexivity]].
  split; [|now rewrite H9]. unfold row_rel, upd_dev_state. cbn. rewrite H9. tauto.
Qed.
Theorem update_device_state_agrees s e st dev : row_is s e st ->
  row_is (fst (a_step s (UpdateDeviceState e (d_fup dev) (d_fdn dev) (d_keywarn dev)))) e (fst (l_update_device_state st dev)).
Proof.
  unfold row_is. intros H. unfold l_update_device_state.
  destruct (dev_at s e) as [d|] eqn:Ed, (ds_row st) as [r|] eqn:Er; try contradiction.
  - assert (Hok : snd (a_step s (UpdateDeviceState e (d_fup dev) (d_fdn dev) (d_keywarn dev))) = ROk).
    { cbn [a_step]. unfold dev_at in Ed. apply find_some in Ed. destruct Ed as [Hin Hk].
      replace (existsb (fun x => rd_eui x =? e) (a_devs s)) with true by (symmetry; apply existsb_exists; eauto). reflexivity. }
    rewrite (device_state_update_is_returned s e _ _ _ Hok), Ed. cbn [option_map fst ds_row with_row].
    destruct H as (H1 & H2 & H3 & H4 & H5 & H6 & H7 & H8 & H9 & H10 & H11). unfold row_rel, upd_dev_state. cbn. tauto.
  - (* no such device: the registry refuses and changes nothing *)
    assert (Hn : existsb (fun x => rd_eui x =? e) (a_devs s) = false).
    { unfold dev_at in Ed. destruct (existsb _ (a_devs s)) eqn:Ex; [|reflexivity]. apply existsb_exists in Ex. destruct Ex as (x & Hin & Hx).
      pose proof (find_none _ _ Ed x Hin) as Hf. cbn beta in Hf. congruence. }
    cbn [a_step]. rewrite Hn. cbn [fst]. now rewrite Ed, Er.
Qed.
