(* Whole-history facts about a device's queue of downstream messages (C06, C08): what can happen to
   the status of a message over ANY sequence of uplinks (accepted or not) and submissions. *)
From Coq Require Import String.
From Lospan Require Import Base.Bytes Base.Outcome Model.FrameTypes Model.Crypto Gen.Consts Model.Frame Model.Join Model.Store Model.Server
  Proof.BitLemmas Proof.LocalProof.
Open Scope N_scope.

(* the three ways the handlers rewrite the queue (Model/Store.v: l_update_ack_time, l_reset_active_acks, l_set_sent_time) *)
Definition ack_rows (fcnt now : N) (ob : list dmsg) : list dmsg :=
  map (fun m => if (m_fcntup m =? fcnt) && (0 <? m_sent m) && (m_acktime m =? 0) then set_times m (m_sent m) now (m_fcntup m) else m) ob.
Definition reset_rows (ob : list dmsg) : list dmsg :=
  map (fun m => if (0 <? m_sent m) && (m_acktime m =? 0) && m_ack m then set_times m 0 (m_acktime m) 0 else m) ob.
Definition mark_rows (created now fc : N) (ob : list dmsg) : list dmsg :=
  map (fun m => if m_created m =? created then set_times m now (m_acktime m) fc else m) ob.
Definition marks (now : N) (l : list (N * N)) (ob : list dmsg) : list dmsg :=
  fold_left (fun o p => mark_rows (fst p) now (snd p) o) l ob.

Lemma ob_ack st fc now : ds_outbox (l_update_ack_time st fc now) = ack_rows fc now (ds_outbox st). Proof. reflexivity. Qed.
Lemma ob_reset st : ds_outbox (l_reset_active_acks st) = reset_rows (ds_outbox st). Proof. reflexivity. Qed.
Lemma ob_mark st c now fc : ds_outbox (l_set_sent_time st c now fc) = mark_rows c now fc (ds_outbox st). Proof. reflexivity. Qed.
Lemma ob_uds st dev : ds_outbox (fst (l_update_device_state st dev)) = ds_outbox st.
Proof. unfold l_update_device_state. now destruct (ds_row st). Qed.
Lemma ob_upstream st m : ds_outbox (fst (l_create_upstream st m)) = ds_outbox st.
Proof. unfold l_create_upstream. now destruct (existsb _ _). Qed.
Lemma ob_get_phy st d : ds_outbox (fst (l_get_phy st d)) = ds_outbox st.
Proof.
  unfold l_get_phy. destruct (ds_fb st); [|reflexivity]. destruct (_ && _ && _); [reflexivity|].
  destruct (0 <? _)%nat; [|reflexivity]. destruct (max_payload d); [|reflexivity]. now destruct (_ <? _)%nat.
Qed.

Section Lifecycle.
  Variable E D : list N -> list N -> list N.
  Variable apps : list N.

  Lemma ob_encoder_data st dev p rx c now :
    ds_outbox (fst (encoder_data E st dev p rx c now)) = ds_outbox st \/
    ds_outbox (fst (encoder_data E st dev p rx c now)) = mark_rows c now (d_fup dev) (ds_outbox st).
  Proof.
    unfold encoder_data. destruct (encode _); [|now left|now left].
    destruct (l_next_fdn st) as [st1 [cn|]] eqn:U; cbn [fst].
    - apply next_row in U. destruct U as (r0 & _ & _ & _ & _ & U4 & _).
      destruct (encode_message E _ _ _); cbn [fst]; [right; rewrite ob_mark; now rewrite U4 | left; exact U4 | left; exact U4].
    - apply next_none in U. destruct U as [-> _]. now left.
  Qed.
  Lemma ob_encoder_join st dev j rx : ds_outbox (fst (encoder_join E D st dev j rx)) = ds_outbox st.
  Proof.
    unfold encoder_join. destruct (l_update_device_state st _) as [st1 e] eqn:U.
    pose proof (ob_uds st (set_counters dev 0 0 (d_keywarn dev))) as H. rewrite U in H. cbn [fst] in H.
    destruct e; [exact H|]. destruct (encode_join_accept E D _ _ _ _); exact H.
  Qed.
  Lemma ob_send_for st dev rx c now :
    ds_outbox (fst (send_for E D st dev rx c now)) = ds_outbox st \/
    ds_outbox (fst (send_for E D st dev rx c now)) = mark_rows c now (d_fup dev) (ds_outbox st).
  Proof.
    unfold send_for. pose proof (ob_get_phy st (r_datr (rx_radio rx))) as G.
    destruct (l_get_phy st (r_datr (rx_radio rx))) as [st1 g]. cbn [fst] in G.
    destruct g as [| |p]; [now left | now left |].
    destruct (po_mtype p =? JoinAccept).
    - left. destruct (po_ja p); rewrite ob_encoder_join; exact G.
    - destruct (_ || _ || _); [now left|]. rewrite <- G. apply ob_encoder_data.
  Qed.

  (* the queue after one uplink: untouched, or the ACK / reset rewrite followed by "sent" marks *)
  Theorem outbox_after_uplink st f rx n now :
    exists l, ds_outbox (fst (l_uplink E D apps st f rx n now)) = marks now l (ds_outbox st) \/
              ds_outbox (fst (l_uplink E D apps st f rx n now))
              = marks now l (if ack (fc f) then ack_rows (fcnt f) now (ds_outbox st) else reset_rows (ds_outbox st)).
  Proof.
    unfold l_uplink. destruct (ds_row st) as [r|]; [|exists []; now left].
    unfold process_message. destruct (stale _ f); [exists []; now left|].
    unfold pm_counter. set (dev := load st r).
    assert (Body : forall st1 dev1, ds_outbox st1 = ds_outbox st ->
      exists l,
        let res := (let plain := frm (frame_crypt E (d_nwkskey dev1) (d_appskey dev1) f) in
                    match l_create_upstream st1 (mk_umsg dev1 rx plain) with
                    | (st2, Some _) => (st2, [])
                    | (st2, None) =>
                      if negb (has_app apps (d_appeui dev1)) then (st2, [])
                      else let q := pm_queue st2 f now in let r := send_for E D (fst q) dev1 rx (snd q) now in
                           (fst r, snd r ++ [OPub (mk_pub dev1 rx plain)])
                    end) in
        ds_outbox (fst res) = marks now l (ds_outbox st) \/
        ds_outbox (fst res) = marks now l (if ack (fc f) then ack_rows (fcnt f) now (ds_outbox st) else reset_rows (ds_outbox st))).
    { intros st1 dev1 H1. cbn zeta.
      pose proof (ob_upstream st1 (mk_umsg dev1 rx (frm (frame_crypt E (d_nwkskey dev1) (d_appskey dev1) f)))) as U.
      destruct (l_create_upstream st1 _) as [st2 e]. cbn [fst] in U.
      destruct e; [exists []; left; cbn; congruence|].
      destruct (negb (has_app apps (d_appeui dev1))); [exists []; left; cbn; congruence|].
      (* the queue stage *)
      assert (Q : exists l1, ds_outbox (fst (pm_queue st2 f now))
                  = marks now l1 (if ack (fc f) then ack_rows (fcnt f) now (ds_outbox st) else reset_rows (ds_outbox st))).
      { unfold pm_queue.
        set (st3 := if mtype f =? ConfirmedDataUp then l_set_ack_flag st2 true else st2).
        assert (H3 : ds_outbox st3 = ds_outbox st) by (unfold st3; destruct (mtype f =? ConfirmedDataUp); cbn; congruence).
        set (st4 := if ack (fc f) then l_update_ack_time st3 (fcnt f) now else l_reset_active_acks st3).
        assert (H4 : ds_outbox st4 = if ack (fc f) then ack_rows (fcnt f) now (ds_outbox st) else reset_rows (ds_outbox st)).
        { unfold st4. destruct (ack (fc f)); [rewrite ob_ack | rewrite ob_reset]; now rewrite H3. }
        destruct (l_get_next_unsent st4) as [m|]; cbn [fst].
        - exists [(m_created m, fcnt f)]. cbn [marks fold_left fst snd]. rewrite ob_mark. cbn. now rewrite <- H4.
        - exists []. exact H4. }
      destruct Q as [l1 Q].
      destruct (ob_send_for (fst (pm_queue st2 f now)) dev1 rx (snd (pm_queue st2 f now)) now) as [S | S].
      - exists l1. right. cbn [fst]. now rewrite S.
      - exists (l1 ++ [(snd (pm_queue st2 f now), d_fup dev1)]). right. cbn [fst]. rewrite S, Q.
        unfold marks. now rewrite fold_left_app. }
    destruct (d_fup dev <=? fcnt f).
    - destruct (l_advance_fup st _ _ _) as [st1 [e|]] eqn:U.
      + apply adv_fail in U. destruct U as [-> ->]. destruct (d_relaxed dev); [now apply Body | exists []; now left].
      + apply adv_row in U. destruct U as (r1 & _ & _ & _ & _ & U3 & _). now apply Body.
    - now apply Body.
  Qed.

  (* ---------- what each rewrite can do to one message ---------- *)
  Definition same_message (m m' : dmsg) : Prop :=
    m_eui m' = m_eui m /\ m_created m' = m_created m /\ m_data m' = m_data m /\ m_port m' = m_port m /\ m_ack m' = m_ack m.
  (* an unconfirmed message, once sent, stays sent; an acknowledged message stays acknowledged *)
  Definition keeps (m m' : dmsg) : Prop :=
    same_message m m' /\ (m_ack m = false -> 0 < m_sent m -> 0 < m_sent m') /\ (0 < m_acktime m -> 0 < m_acktime m').
  Lemma keeps_refl m : keeps m m.
  Proof. unfold keeps, same_message. tauto. Qed.
  Lemma keeps_trans a b c : keeps a b -> keeps b c -> keeps a c.
  Proof.
    unfold keeps, same_message. intros ((A1 & A2 & A3 & A4 & A5) & A6 & A7) ((B1 & B2 & B3 & B4 & B5) & B6 & B7).
    split; [repeat split; congruence|]. split.
    - intros H1 H2. apply B6; [congruence | now apply A6].
    - intros H. now apply B7, A7.
  Qed.
  Definition evolves (ob ob' : list dmsg) : Prop := Forall2 keeps ob ob'.
  Lemma evolves_refl ob : evolves ob ob.
  Proof. induction ob; constructor; [apply keeps_refl | assumption]. Qed.
  Lemma evolves_trans a b c : evolves a b -> evolves b c -> evolves a c.
  Proof.
    unfold evolves. intros H. revert c. induction H as [|x y l l' Hxy _ IH]; intros c Hc; inversion Hc; subst; constructor.
    - eapply keeps_trans; eassumption.
    - now apply IH.
  Qed.
  Lemma evolves_map (g : dmsg -> dmsg) ob : (forall m, keeps m (g m)) -> evolves ob (map g ob).
  Proof. intros H. induction ob; cbn; constructor; [apply H | assumption]. Qed.

  Lemma ack_rows_evolves fc now ob : 0 < now -> evolves ob (ack_rows fc now ob).
  Proof.
    intros Hn. apply evolves_map. intros m. destruct (_ && _ && _) eqn:Es; [|apply keeps_refl].
    unfold keeps, same_message, set_times. cbn. repeat split; auto.
  Qed.
  Lemma reset_rows_evolves ob : evolves ob (reset_rows ob).
  Proof.
    apply evolves_map. intros m. destruct (_ && _ && m_ack m) eqn:Es; [|apply keeps_refl].
    apply andb_true_iff in Es. destruct Es as [Es Ha]. apply andb_true_iff in Es. destruct Es as [_ Et]. apply N.eqb_eq in Et.
    unfold keeps, same_message, set_times. cbn. repeat split; auto; try (intros; congruence); try (intros; lia).
  Qed.
  Lemma mark_rows_evolves c now fc ob : 0 < now -> evolves ob (mark_rows c now fc ob).
  Proof.
    intros Hn. apply evolves_map. intros m. destruct (m_created m =? c); [|apply keeps_refl].
    unfold keeps, same_message, set_times. cbn. repeat split; auto.
  Qed.
  Lemma marks_evolves now l : 0 < now -> forall ob, evolves ob (marks now l ob).
  Proof.
    intros Hn. induction l as [|p t IH]; intros ob; cbn; [apply evolves_refl|].
    eapply evolves_trans; [apply (mark_rows_evolves (fst p) now (snd p) ob Hn) | apply IH].
  Qed.

  Theorem uplink_evolves st f rx n now : 0 < now ->
    evolves (ds_outbox st) (ds_outbox (fst (l_uplink E D apps st f rx n now))).
  Proof.
    intros Hn. destruct (outbox_after_uplink st f rx n now) as [l [-> | ->]].
    - now apply marks_evolves.
    - eapply evolves_trans; [|now apply marks_evolves].
      destruct (ack (fc f)); [now apply ack_rows_evolves | apply reset_rows_evolves].
  Qed.

  Lemma Forall2_length {A B} (R : A -> B -> Prop) l l' : Forall2 R l l' -> length l = length l'.
  Proof. induction 1; cbn; congruence. Qed.

  (* ---------- histories: uplinks (any, accepted or not) and submissions ---------- *)
  Definition positive_time (ev : levent) : Prop := match ev with LUp _ _ _ now => 0 < now | LSub _ => True end.
  Fixpoint final (st : dstate) (evs : list levent) : dstate :=
    match evs with [] => st | ev :: t => final (fst (lstep E D apps st ev)) t end.

  (* every message of the queue is still there, in the same position, with a status `keeps` allows;
     submissions only append *)
  Theorem queue_history evs : Forall positive_time evs -> forall st,
    exists later, evolves (ds_outbox st) (firstn (length (ds_outbox st)) (ds_outbox (final st evs))) /\
                  ds_outbox (final st evs) = firstn (length (ds_outbox st)) (ds_outbox (final st evs)) ++ later.
  Proof.
    induction 1 as [|ev t Hev _ IH]; intros st; cbn [final].
    - exists []. rewrite firstn_all, app_nil_r. split; [apply evolves_refl | reflexivity].
    - set (st1 := fst (lstep E D apps st ev)).
      assert (Step : exists added, evolves (ds_outbox st) (firstn (length (ds_outbox st)) (ds_outbox st1)) /\
                                   ds_outbox st1 = firstn (length (ds_outbox st)) (ds_outbox st1) ++ added).
      { destruct ev as [f rx n now | m]; cbn [lstep] in st1.
        - pose proof (uplink_evolves st f rx n now Hev) as Ev. fold st1 in Ev.
          assert (L : length (ds_outbox st1) = length (ds_outbox st)) by (symmetry; eapply Forall2_length; exact Ev).
          exists []. rewrite <- L, firstn_all, app_nil_r. split; [exact Ev | reflexivity].
        - unfold st1, l_create_downstream. destruct (existsb _ _); cbn [fst ds_outbox with_outbox].
          + exists []. rewrite firstn_all, app_nil_r. split; [apply evolves_refl | reflexivity].
          + exists [m]. rewrite firstn_app, firstn_all, Nat.sub_diag. cbn. rewrite app_nil_r. split; [apply evolves_refl | reflexivity]. }
      destruct Step as (added & Ev1 & Sh1). destruct (IH st1) as (later & Ev2 & Sh2).
      set (obf := ds_outbox (final st1 t)) in *. set (n0 := length (ds_outbox st)). set (n1 := length (ds_outbox st1)) in *.
      assert (Hle : (n0 <= n1)%nat).
      { unfold n1. rewrite Sh1, app_length, firstn_length. pose proof (Forall2_length _ _ _ Ev1) as L. rewrite firstn_length in L. unfold n0 in *. lia. }
      exists (skipn n0 obf). split; [|now rewrite firstn_skipn].
      (* the first n0 messages of the final queue evolve from those of st1, which evolve from st's *)
      eapply evolves_trans; [exact Ev1|].
      assert (F : firstn n0 obf = firstn n0 (firstn n1 obf)) by (rewrite firstn_firstn; f_equal; lia).
      rewrite F. clear F.
      assert (G : forall k a b, evolves a b -> evolves (firstn k a) (firstn k b)).
      { clear. unfold evolves. intros k a b Hab. revert k. induction Hab as [|x y l l' Hxy Hl IHl]; intros [|k]; cbn; constructor; [exact Hxy | apply IHl]. }
      apply (G n0) in Ev2. replace (firstn n0 (ds_outbox st1)) with (firstn (length (ds_outbox st)) (ds_outbox st1)) in Ev2 by reflexivity. exact Ev2.
  Qed.

  (* ---------- acknowledged only by an ACK-carrying uplink that follows a transmission ---------- *)
  Lemma nth_marks now l : forall ob i m, nth_error ob i = Some m ->
    exists m', nth_error (marks now l ob) i = Some m' /\ m_acktime m' = m_acktime m /\ m_created m' = m_created m.
  Proof.
    induction l as [|p t IH]; intros ob i m H; cbn [marks fold_left]; [exists m; auto|].
    assert (H1 : nth_error (mark_rows (fst p) now (snd p) ob) i
                 = Some (if m_created m =? fst p then set_times m now (m_acktime m) (snd p) else m)).
    { unfold mark_rows. rewrite nth_error_map, H. reflexivity. }
    destruct (IH _ _ _ H1) as (m' & A & B & C). exists m'. split; [exact A|].
    destruct (m_created m =? fst p); cbn in B, C; auto.
  Qed.
  Theorem acknowledged_in_step st f rx n now i m m' :
    nth_error (ds_outbox st) i = Some m -> nth_error (ds_outbox (fst (l_uplink E D apps st f rx n now))) i = Some m' ->
    m_acktime m = 0 -> 0 < m_acktime m' ->
    ack (fc f) = true /\ 0 < m_sent m /\ m_fcntup m = fcnt f.
  Proof.
    intros Hm Hm' H0 H1. destruct (outbox_after_uplink st f rx n now) as [l [Eq | Eq]]; rewrite Eq in Hm'.
    - destruct (nth_marks now l _ _ _ Hm) as (x & A & B & _). rewrite A in Hm'. injection Hm' as <-. lia.
    - destruct (ack (fc f)) eqn:Ea.
      + assert (Ha : nth_error (ack_rows (fcnt f) now (ds_outbox st)) i
                     = Some (if (m_fcntup m =? fcnt f) && (0 <? m_sent m) && (m_acktime m =? 0) then set_times m (m_sent m) now (m_fcntup m) else m)).
        { unfold ack_rows. rewrite nth_error_map, Hm. reflexivity. }
        destruct (nth_marks now l _ _ _ Ha) as (x & A & B & _). rewrite A in Hm'. injection Hm' as <-.
        destruct (_ && _ && _) eqn:Es; [|lia].
        apply andb_true_iff in Es. destruct Es as [Es _]. apply andb_true_iff in Es. destruct Es as [E1 E2].
        apply N.eqb_eq in E1. apply N.ltb_lt in E2. auto.
      + assert (Ha : nth_error (reset_rows (ds_outbox st)) i
                     = Some (if (0 <? m_sent m) && (m_acktime m =? 0) && m_ack m then set_times m 0 (m_acktime m) 0 else m)).
        { unfold reset_rows. rewrite nth_error_map, Hm. reflexivity. }
        destruct (nth_marks now l _ _ _ Ha) as (x & A & B & _). rewrite A in Hm'. injection Hm' as <-.
        destruct (_ && _ && m_ack m); cbn in B; lia.
  Qed.

  (* over a whole history: if the i-th message of the queue goes from unacknowledged to acknowledged, the
     history contains an uplink with the ACK flag before which the message was sent, not yet acknowledged,
     and waiting for exactly that uplink's counter *)
  Theorem acknowledged_only_by_ack_uplink evs : forall st i m m',
    nth_error (ds_outbox st) i = Some m -> nth_error (ds_outbox (final st evs)) i = Some m' ->
    m_acktime m = 0 -> 0 < m_acktime m' ->
    exists evs1 f rx n now evs2 mi,
      evs = evs1 ++ LUp f rx n now :: evs2 /\ ack (fc f) = true /\
      nth_error (ds_outbox (final st evs1)) i = Some mi /\ 0 < m_sent mi /\ m_acktime mi = 0 /\ m_fcntup mi = fcnt f.
  Proof.
    induction evs as [|ev t IH]; intros st i m m' Hm Hm' H0 H1; cbn [final] in Hm'.
    - rewrite Hm in Hm'. injection Hm' as <-. lia.
    - set (st1 := fst (lstep E D apps st ev)) in *.
      (* the i-th message after the first event *)
      assert (Hi : exists m1, nth_error (ds_outbox st1) i = Some m1).
      { destruct ev as [f rx n now | d]; cbn [lstep] in st1.
        - destruct (outbox_after_uplink st f rx n now) as [l [Eq | Eq]]; fold st1 in Eq; rewrite Eq.
          + destruct (nth_marks now l _ _ _ Hm) as (x & A & _). eauto.
          + destruct (ack (fc f)).
            * assert (Ha : exists y, nth_error (ack_rows (fcnt f) now (ds_outbox st)) i = Some y) by (unfold ack_rows; rewrite nth_error_map, Hm; cbn; eauto).
              destruct Ha as [y Hy]. destruct (nth_marks now l _ _ _ Hy) as (x & A & _). eauto.
            * assert (Ha : exists y, nth_error (reset_rows (ds_outbox st)) i = Some y) by (unfold reset_rows; rewrite nth_error_map, Hm; cbn; eauto).
              destruct Ha as [y Hy]. destruct (nth_marks now l _ _ _ Hy) as (x & A & _). eauto.
        - unfold st1, l_create_downstream. destruct (existsb _ _); cbn [fst ds_outbox with_outbox]; [eauto|].
          exists m. rewrite nth_error_app1; [exact Hm|]. apply nth_error_Some. congruence. }
      destruct Hi as [m1 Hm1].
      destruct (N.eq_dec (m_acktime m1) 0) as [E1 | E1].
      + (* still unacknowledged: look further on *)
        destruct (IH st1 i m1 m' Hm1 Hm' E1 H1) as (evs1 & f & rx & n & now & evs2 & mi & Eq & Ha & Hn & Hs & Hk & Hf).
        exists (ev :: evs1), f, rx, n, now, evs2, mi. cbn [app final]. fold st1. rewrite Eq. repeat split; auto.
      + (* acknowledged by this very event: it is an uplink with the ACK flag *)
        destruct ev as [f rx n now | d]; cbn [lstep] in st1.
        * destruct (acknowledged_in_step st f rx n now i m m1 Hm Hm1 H0) as (Ha & Hs & Hf); [lia|].
          exists [], f, rx, n, now, t, m. cbn. repeat split; auto.
        * exfalso. unfold st1, l_create_downstream in Hm1. destruct (existsb _ _); cbn [fst ds_outbox with_outbox] in Hm1.
          -- rewrite Hm in Hm1. injection Hm1 as <-. lia.
          -- rewrite nth_error_app1 in Hm1 by (apply nth_error_Some; congruence). rewrite Hm in Hm1. injection Hm1 as <-. lia.
  Qed.
End Lifecycle.
