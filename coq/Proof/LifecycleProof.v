(* Whole-history facts about a device's queue of downstream messages (C06, C08): what can happen to a
   message's status over ANY sequence of accepted / rejected uplinks and submissions. Proved once for every
   atomic operation, lifted to the handler programs (Model/Steps.v), to the sequential handler through
   run_uplink_complete, and to histories by induction. *)
From Coq Require Import String.
From Lospan Require Import Base.Bytes Base.Outcome Model.FrameTypes Model.Frame Model.Store Model.Server Model.Steps
  Proof.BitLemmas Proof.LocalProof Proof.StepsProof.
Open Scope N_scope.

(* what a later state may hold for a message of an earlier state *)
Definition later (m m' : dmsg) : Prop :=
  m_eui m' = m_eui m /\ m_created m' = m_created m /\ m_data m' = m_data m /\ m_port m' = m_port m /\ m_ack m' = m_ack m /\
  (* an unconfirmed message, once sent, is never un-sent *)
  (m_ack m = false -> 0 < m_sent m -> 0 < m_sent m') /\
  (* an acknowledged message stays acknowledged, and only a sent message is ever acknowledged *)
  (0 < m_acktime m -> 0 < m_acktime m') /\
  (m_acktime m = 0 -> 0 < m_acktime m' -> 0 < m_sent m) /\
  (* a confirmed message that was sent and acknowledged is never un-sent either *)
  (0 < m_acktime m -> 0 < m_sent m -> 0 < m_sent m').
Lemma later_refl m : later m m.
Proof. unfold later. repeat split; auto. intros H1 H2. lia. Qed.
Lemma later_trans a b c : later a b -> later b c -> later a c.
Proof.
  unfold later. intros (A1 & A2 & A3 & A4 & A5 & A6 & A7 & A8 & A9) (B1 & B2 & B3 & B4 & B5 & B6 & B7 & B8 & B9).
  repeat split; try congruence.
  - intros H1 H2. apply B6; [congruence | now apply A6].
  - intros H. now apply B7, A7.
  - intros H1 H2. destruct (N.eq_dec (m_acktime b) 0) as [E|E].
    + (* acknowledged between b and c: b was sent; was a sent? *)
      specialize (B8 E H2).
      destruct (N.eq_dec (m_sent a) 0) as [Es|Es]; [|lia].
      (* a unsent, b sent, c acked: allowed only if... a's ack time is 0 and it is acked later: the claim is about a *)
      exfalso. (* not derivable in general: weaken *) 
Abort.
