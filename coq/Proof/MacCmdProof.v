From Lospan Require Import Base.Bytes Base.Outcome Model.FrameTypes Gen.Consts Model.MacCmd Spec.MacLayout Proof.BitLemmas.
Open Scope N_scope.

Lemma layout_lookup_in t up cid r : layout_lookup t up cid = Some r -> In (up, cid, r) t.
Proof.
  induction t as [|[[u c] r'] t IH]; cbn [layout_lookup]; [discriminate|].
  destruct (Bool.eqb u up && (c =? cid)) eqn:E.
  - intros [= <-]. apply andb_true_iff in E. destruct E as [E1 E2].
    apply Bool.eqb_prop in E1. apply N.eqb_eq in E2. subst. now left.
  - intros H. right. now apply IH.
Qed.

Lemma fits_nil vs : layout_fits [] vs = true -> vs = [].
Proof. destruct vs; [reflexivity|discriminate]. Qed.
Lemma fits_cons o w l vs : layout_fits ((o, w) :: l) vs = true ->
  exists v t, vs = v :: t /\ v < 2 ^ w /\ layout_fits l t = true.
Proof.
  destruct vs as [|v t]; [discriminate|]. cbn [layout_fits]. rewrite andb_true_iff, N.ltb_lt.
  intros [H1 H2]. now exists v, t.
Qed.
(* destructs a value list against a fits hypothesis into named bounds *)
Ltac fits_destruct H :=
  repeat match type of H with
  | layout_fits [] ?vs = true => apply fits_nil in H; subst vs
  | layout_fits (_ :: _) ?vs = true =>
      let v := fresh "v" in let t := fresh "t" in let B := fresh "B" in let E := fresh "E" in
      apply fits_cons in H; destruct H as (v & t & E & B & H); subst vs
  end.

Ltac simpl_pows :=
  repeat match goal with
  | |- context [2 ^ ?k] => let v := eval vm_compute in (2 ^ k) in change (2 ^ k) with v
  | H : context [2 ^ ?k] |- _ => let v := eval vm_compute in (2 ^ k) in change (2 ^ k) with v in H
  end.
Ltac small_mods :=
  repeat match goal with
  | |- context [?x mod ?m] => is_var x; rewrite (N.mod_small x m) by lia
  end.
Ltac list_eq :=
  repeat match goal with
  | |- Some _ = Some _ => apply f_equal
  | |- _ :: _ = _ :: _ => apply (f_equal2 (@cons N))
  end.
Ltac norm_model :=
  unfold u8, shl8, bitval, nz, tb;
  rewrite ?land_ff00, ?land_ff0000, ?land_16777215, ?land_255, ?land_15, ?land_7, ?land_63.

Lemma pack_bits3 a b c : a < 2 -> b < 2 -> c < 2 ->
  N.lor (N.lor (if negb (a =? 0) then 4 else 0) (if negb (b =? 0) then 2 else 0)) (if negb (c =? 0) then 1 else 0)
  = a * 4 + b * 2 + c.
Proof.
  intros Ha Hb Hc. destruct (bit_cases a Ha) as [-> | ->], (bit_cases b Hb) as [-> | ->], (bit_cases c Hc) as [-> | ->]; reflexivity.
Qed.
Lemma pack_bits2 b c : b < 2 -> c < 2 ->
  N.lor (if negb (b =? 0) then 2 else 0) (if negb (c =? 0) then 1 else 0) = b * 2 + c.
Proof.
  intros Hb Hc. destruct (bit_cases b Hb) as [-> | ->], (bit_cases c Hc) as [-> | ->]; reflexivity.
Qed.
Lemma pack_nib a b : a < 16 -> b < 16 -> N.lor (N.shiftl a 4 mod 256) b = 16 * a + b.
Proof.
  intros Ha Hb. destruct (byte_facts a ltac:(lia)) as (_ & _ & _ & _ & _ & _ & F).
  rewrite land_255 in F. rewrite F. replace ((16 * a) mod 256) with (16 * a) by lia. now apply lor_nib.
Qed.

Theorem enc_is_layout up cid vs p :
  layout_payload up cid vs = Some p -> cmd_payload_enc up cid vs = Some p.
Proof.
  unfold layout_payload. destruct (layout_lookup layout_table up cid) as [[len lay]|] eqn:L; [|discriminate].
  apply layout_lookup_in in L. destruct (layout_fits lay vs) eqn:F; [|discriminate]. intros [= <-].
  cbn [In layout_table] in L.
  repeat (destruct L as [L|L]; [injection L as <- <- <- <-; fits_destruct F | ]); try contradiction;
    cbn [cmd_payload_enc layout_sum le_bytes app firstn]; norm_model; simpl_pows;
    rewrite ?pack_bits3, ?pack_bits2 by assumption;
    try reflexivity;
    small_mods; rewrite ?pack_nib by lia.
  all: list_eq; try reflexivity; lia.
Qed.

(* name every byte of the payload and bring in the byte facts *)
Ltac name_bytes :=
  repeat match goal with
  | |- context [?X mod 256] =>
      lazymatch X with _ mod 256 => fail | _ => idtac end;
      let b := fresh "b" in let Eb := fresh "Eb" in let Hb := fresh "Hb" in
      remember (X mod 256) as b eqn:Eb;
      assert (Hb : b < 256) by (subst b; apply N.mod_lt; discriminate);
      let F1 := fresh in let F2 := fresh in let F3 := fresh in let F4 := fresh in
      let F5 := fresh in let F6 := fresh in
      destruct (byte_facts b Hb) as (F1 & F2 & F3 & F4 & F5 & F6 & _);
      rewrite ?F1, ?F2, ?F3, ?F4, ?F5, ?F6; clear F1 F2 F3 F4 F5 F6
  end.

Theorem dec_layout up cid vs p :
  layout_payload up cid vs = Some p -> cmd_payload_dec up cid p = Some vs.
Proof.
  unfold layout_payload. destruct (layout_lookup layout_table up cid) as [[len lay]|] eqn:L; [|discriminate].
  apply layout_lookup_in in L. destruct (layout_fits lay vs) eqn:F; [|discriminate]. intros [= <-].
  cbn [In layout_table] in L.
  repeat (destruct L as [L|L]; [injection L as <- <- <- <-; fits_destruct F | ]); try contradiction;
    cbn [cmd_payload_dec layout_sum le_bytes le_val]; try reflexivity;
    unfold tb; rewrite ?land_16777215, ?shiftl_mul; simpl_pows; name_bytes; subst;
    list_eq; try reflexivity.
  all: lia.
Qed.

(* ---------- generated table vs specified layouts ---------- *)
Definition tables_agree : bool :=
  forallb (fun '(up, cid, len, (bid, bup, nf)) =>
    match layout_lookup layout_table up cid with
    | Some (l, lay) => (len =? S l)%nat && (bid =? cid) && Bool.eqb bup up && (nf =? length lay)%nat && (cid <? 256)
    | None => false
    end) mac_table
  && (length mac_table =? length layout_table)%nat
  && forallb (fun '(up, cid, _) => match mac_lookup mac_table up cid with Some _ => true | None => false end) layout_table.
Lemma tables_agree_ok : tables_agree = true.
Proof. vm_compute. reflexivity. Qed.

Lemma mac_of_layout up cid l lay :
  layout_lookup layout_table up cid = Some (l, lay) ->
  mac_lookup mac_table up cid = Some (S l, (cid, up, length lay)) /\ cid < 256.
Proof.
  intros L. apply layout_lookup_in in L. cbn [In layout_table] in L.
  repeat (destruct L as [L|L]; [injection L as <- <- <- <-; split; [vm_compute; reflexivity | lia] | ]).
  contradiction.
Qed.

Lemma u8_small x : x < 256 -> u8 x = x.
Proof. intros H. unfold u8. rewrite land_255. now apply N.mod_small. Qed.

Lemma layout_payload_length up cid vs p l lay :
  layout_lookup layout_table up cid = Some (l, lay) -> layout_payload up cid vs = Some p -> length p = l.
Proof.
  intros L. unfold layout_payload. rewrite L. destruct (layout_fits lay vs); [|discriminate].
  intros [= <-]. apply le_bytes_length.
Qed.

(* Layout, declared length and buffer-size behaviour of encode *)
Theorem cmd_encode_spec up cid vs p buflen pos :
  layout_payload up cid vs = Some p ->
  let c := {| c_up := up; c_cid := cid; c_fields := vs |} in
  cmd_len c = S (length p) /\
  cmd_encode buflen pos c = if (pos + cmd_len c <? buflen)%nat then Ok (cid :: p) else Err ErrBufferTruncated.
Proof.
  intros H c. pose proof H as H0. unfold layout_payload in H0.
  destruct (layout_lookup layout_table up cid) as [[l lay]|] eqn:L; [|discriminate]. clear H0.
  destruct (mac_of_layout _ _ _ _ L) as [M Hc].
  assert (Hl : cmd_len c = S (length p)).
  { unfold cmd_len, c. cbn [c_up c_cid]. rewrite M. now rewrite (layout_payload_length _ _ _ _ _ _ L H). }
  split; [exact Hl|]. unfold cmd_encode, valid_buffer.
  destruct (pos + cmd_len c <? buflen)%nat; [|reflexivity].
  unfold c; cbn [c_up c_cid c_fields]. rewrite (enc_is_layout _ _ _ _ H), u8_small by exact Hc. reflexivity.
Qed.

(* decode of what encode wrote, followed by any bytes, gives the command back *)
Theorem cmd_roundtrip up cid vs p rest buflen pos z :
  layout_payload up cid vs = Some p -> new_cmd up cid = Some z ->
  cmd_decode buflen pos z (cid :: p ++ rest) =
    if (pos + S (length p) <? buflen)%nat then Ok {| c_up := up; c_cid := cid; c_fields := vs |}
    else Err ErrBufferTruncated.
Proof.
  intros H Z. pose proof H as H0. unfold layout_payload in H0.
  destruct (layout_lookup layout_table up cid) as [[l lay]|] eqn:L; [|discriminate]. clear H0.
  destruct (mac_of_layout _ _ _ _ L) as [M Hc].
  unfold new_cmd in Z. rewrite M in Z. injection Z as <-.
  unfold cmd_decode, valid_buffer, cmd_len. cbn [c_up c_cid]. rewrite M.
  rewrite <- (layout_payload_length _ _ _ _ _ _ L H).
  destruct (pos + S (length p) <? buflen)%nat; [|reflexivity].
  rewrite u8_small by exact Hc. rewrite N.eqb_refl.
  replace (S (length p) - 1)%nat with (length p) by lia.
  rewrite firstn_app, Nat.sub_diag, firstn_all. cbn [firstn]. rewrite app_nil_r.
  now rewrite (dec_layout _ _ _ _ H).
Qed.

