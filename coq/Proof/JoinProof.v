(* The join handler on one device's state: when a join-request is honoured, what it
   changes, and that device and server derive the same session (C04, C05). *)
From Coq Require Import String.
From Lospan Require Import Base.Bytes Base.Outcome Model.CMAC Model.FrameTypes Model.Crypto Gen.Consts Model.MacCmd
  Model.Frame Model.Join Model.Store Model.Server Spec.RFC4493 Spec.RefDevice
  Proof.BitLemmas Proof.CMACProof Proof.LocalProof.
Open Scope N_scope.

Local Arguments N.shiftr : simpl never.
Local Arguments N.shiftl : simpl never.
Local Arguments N.land : simpl never.
Local Arguments N.lor : simpl never.
Local Arguments N.div : simpl never.
Local Arguments N.modulo : simpl never.

Section JoinProof.
  Variable E D : list N -> list N -> list N.

  Definition nonce_used (cfg : config) (st : dstate) (nonce : N) : bool :=
    negb (cfg_disable_nonce_check cfg) && existsb (fun n => n =? nonce) (ds_nonces st).

  (* the conditions under which the handler goes ahead *)
  Definition join_guard (cfg : config) (apps : list N) (st : dstate) (f : frame) (raw : list N) (r : device) : bool :=
    (buffer_mic E (d_appkey r) (firstn 19 raw) =? mic f) && (d_appeui r =? jr_appeui (jr f)) &&
    negb (nonce_used cfg st (jr_devnonce (jr f))) && has_app apps (jr_appeui (jr f)).

  (* a join-request that fails any check changes nothing and is not answered *)
  Theorem join_refused cfg apps st f rx an na :
    (forall r, ds_row st = Some r -> join_guard cfg apps st f (rx_raw rx) r = false) ->
    join_local E D cfg apps st f rx an na = (st, []).
  Proof.
    intros H. unfold join_local. destruct (ds_row st) as [r|] eqn:Er; [|reflexivity].
    specialize (H r eq_refl). unfold join_guard, nonce_used in H. cbn [load d_appkey d_appeui d_nonces].
    destruct (buffer_mic E (d_appkey r) (firstn 19 (rx_raw rx)) =? mic f); [|reflexivity]. cbn [negb].
    destruct (d_appeui r =? jr_appeui (jr f)); [|reflexivity]. cbn [negb].
    destruct (negb (cfg_disable_nonce_check cfg) && existsb _ (ds_nonces st)); [reflexivity|].
    cbn [andb negb] in H. rewrite H. reflexivity.
  Qed.

  Definition session_of (cfg : config) (r : device) (f : frame) (an : list N) (na : N) : device :=
    {| d_eui := d_eui r; d_addr := if d_addr r =? 0 then na else d_addr r; d_appkey := d_appkey r;
       d_appskey := appskey_from_nonces E (d_appkey r) an (cfg_netid cfg) (jr_devnonce (jr f));
       d_nwkskey := nwkskey_from_nonces E (d_appkey r) an (cfg_netid cfg) (jr_devnonce (jr f));
       d_appeui := d_appeui r; d_state := d_state r; d_fup := 0; d_fdn := 0; d_relaxed := d_relaxed r;
       d_keywarn := d_keywarn r; d_nonces := [] |}.
  Definition accept_of (cfg : config) (r : device) (an : list N) (na : N) : joinacc :=
    {| ja_appnonce := an; ja_netid := N.land (cfg_netid cfg) 4294967295;
       ja_devaddr := devaddr_of_u32 (if d_addr r =? 0 then na else d_addr r); ja_rx1droffset := 0; ja_rx2dr := 5; ja_rxdelay := 1 |}.

  (* GetPHYPayloadForDevice right after SetJoinAcceptPayload: the join-accept, and the entry is a data entry again *)
  Lemma get_phy_after_ja st j datr : max_payload datr <> None ->
    exists stx p, l_get_phy (l_set_join_accept st j) datr = (stx, GetOk p) /\ po_mtype p = JoinAccept /\ po_ja p = Some j /\
      ds_row stx = ds_row st /\ ds_nonces stx = ds_nonces st /\ ds_inbox stx = ds_inbox st /\ ds_outbox stx = ds_outbox st /\ fb_down stx.
  Proof.
    intros Hd. unfold l_set_join_accept, l_get_phy. cbn [ds_fb with_fbe fo_payload fo_mtype fo_ack fo_port fo_ja].
    change (JoinAccept =? JoinAccept) with true. cbn [negb]. rewrite andb_false_r. cbn [andb].
    set (pl := fo_payload match ds_fb st with Some f0 => f0 | None => _ end).
    destruct (0 <? length pl)%nat.
    - destruct (max_payload datr) as [mn|]; [|contradiction].
      destruct (_ <? _)%nat; do 2 eexists; (split; [reflexivity|]); cbn; repeat split; unfold fb_down; cbn; now left.
    - do 2 eexists. split; [reflexivity|]. cbn. repeat split. unfold fb_down; cbn; now left.
  Qed.

  (* an honoured join-request: the nonce is recorded (unless the check is off), the row holds the new
     session with zeroed counters, and exactly one join-accept, the encoding of accept_of, is emitted *)
  Theorem join_honoured cfg apps st f rx an na r :
    ds_row st = Some r -> join_guard cfg apps st f (rx_raw rx) r = true -> valid_datr rx ->
    let res := join_local E D cfg apps st f rx an na in
    ds_row (fst res) = Some (session_of cfg r f an na) /\
    ds_nonces (fst res) = (if cfg_disable_nonce_check cfg then ds_nonces st else ds_nonces st ++ [jr_devnonce (jr f)]) /\
    ds_inbox (fst res) = ds_inbox st /\ ds_outbox (fst res) = ds_outbox st /\ fb_down (fst res) /\
    exists buf, encode_join_accept E D (d_appkey r) JoinAccept c_MaxSupportedVersion (accept_of cfg r an na) = Ok buf /\
      snd res = [ODown {| dl_raw := buf; dl_radio := rx_radio rx; dl_gw := rx_gw rx; dl_rx1delay := 5; dl_eui := d_eui r |}].
  Proof.
    intros Hr Hg Hd. unfold join_guard, nonce_used in Hg. rewrite !andb_true_iff in Hg. destruct Hg as [[[G1 G2] G3] G4].
    unfold join_local. rewrite Hr. cbn [load d_appkey d_appeui d_nonces d_eui d_addr d_state d_relaxed d_keywarn].
    rewrite G1, G2. cbn [negb]. apply negb_true_iff in G3. rewrite G3, G4. cbn [negb].
    assert (Hadd : (if cfg_disable_nonce_check cfg then (st, None) else l_add_nonce st (jr_devnonce (jr f))) =
                   (with_nonces st (if cfg_disable_nonce_check cfg then ds_nonces st else ds_nonces st ++ [jr_devnonce (jr f)]), None)).
    { destruct (cfg_disable_nonce_check cfg) eqn:Ec; [destruct st; reflexivity|].
      cbn [negb andb] in G3. unfold l_add_nonce. rewrite G3. reflexivity. }
    rewrite Hadd. set (st1 := with_nonces st _).
    unfold l_update_device. cbn [ds_row st1 with_nonces]. rewrite Hr.
    set (st2 := with_row st1 _). fold (accept_of cfg r an na).
    unfold send_for.
    destruct (get_phy_after_ja st2 (accept_of cfg r an na) (r_datr (rx_radio rx)) Hd) as (stx & p & Hg' & P1 & P2 & X1 & X2 & X3 & X4 & X5).
    rewrite Hg', P1, P2. change (JoinAccept =? JoinAccept) with true. cbv iota.
    assert (Henc : exists buf, encode_join_accept E D (d_appkey r) JoinAccept c_MaxSupportedVersion (accept_of cfg r an na) = Ok buf).
    { unfold encode_join_accept. change (negb (JoinAccept =? JoinAccept)) with false. cbv iota.
      unfold joinacc_payload, accept_of. cbn [ja_devaddr ja_appnonce ja_netid ja_rx1droffset ja_rx2dr ja_rxdelay].
      set (a := if d_addr r =? 0 then na else d_addr r).
      assert (Hn : (127 <? nwkid (devaddr_of_u32 a)) = false).
      { apply N.ltb_ge. unfold devaddr_of_u32; cbn [nwkid]. rewrite land_127. pose proof (N.mod_upper_bound (N.shiftr a 25) 128 ltac:(lia)). lia. }
      assert (Hm : (33554431 <? nwkaddr (devaddr_of_u32 a)) = false).
      { apply N.ltb_ge. unfold devaddr_of_u32; cbn [nwkaddr]. rewrite land_33554431. pose proof (N.mod_upper_bound a 33554432 ltac:(lia)). lia. }
      rewrite Hn, Hm. cbn [orb bind]. eexists. reflexivity. }
    destruct Henc as [buf Henc].
    unfold encoder_join, l_update_device_state. rewrite X1. cbn [st2 with_row ds_row]. cbn [load d_appkey d_keywarn d_eui]. rewrite Henc.
    cbn [fst snd ds_row ds_nonces ds_inbox ds_outbox with_row d_eui].
    split; [reflexivity|]. split; [rewrite X2; reflexivity|]. split; [rewrite X3; reflexivity|]. split; [rewrite X4; reflexivity|].
    split; [unfold fb_down in *; cbn; exact X5|]. exists buf. split; reflexivity.
  Qed.

  (* ---------- the device derives the same session from the bytes on the air ---------- *)
  Hypothesis E_block : forall k b, length (E k b) = 16%nat /\ bytes_ok (E k b) = true.
  Hypothesis D_len : forall k b, length (D k b) = 16%nat.
  Hypothesis E_D : forall k b, length b = 16%nat -> E k (D k b) = b.

  Lemma cmac_wf k m : length (cmac E k m) = 16%nat /\ bytes_ok (cmac E k m) = true.
  Proof.
    unfold cmac, aescmac. destruct (subkeys E k) as [k1 k2].
    destruct ((length m + 15) / 16 =? 0)%nat; [cbn [fst]; apply E_block|].
    destruct (length m mod 16 =? 0)%nat; cbn [fst]; apply E_block.
  Qed.

  Lemma firstn_bytes_ok n l : bytes_ok l = true -> bytes_ok (firstn n l) = true.
  Proof.
    unfold bytes_ok. revert n. induction l as [|a t IH]; intros n H; destruct n; cbn [firstn forallb] in *; auto.
    apply andb_true_iff in H. destruct H as [H1 H2]. rewrite H1. cbn. now apply IH.
  Qed.

  Lemma mic_bytes k m : le_bytes 4 (buffer_mic E k m) = mic4 E k m.
  Proof.
    unfold buffer_mic, mic_of_tag, mic4. rewrite <- (cmac_is_rfc E E_block k m []). fold (cmac E k m).
    destruct (cmac_wf k m) as [L O].
    assert (L4 : length (firstn 4 (cmac E k m)) = 4%nat) by (rewrite firstn_length; lia).
    rewrite <- L4 at 1. apply le_bytes_le_val. now apply firstn_bytes_ok.
  Qed.

  Lemma devaddr_u32_of a : a < 4294967296 -> devaddr_u32 (devaddr_of_u32 a) = a.
  Proof.
    intros Ha. unfold devaddr_u32, devaddr_of_u32. cbn [nwkid nwkaddr].
    rewrite land_127, !land_33554431, land_4294967295, N.shiftr_div_pow2, N.shiftl_mul_pow2.
    change (2 ^ 25) with 33554432.
    assert (H1 : (a / 33554432) mod 128 = a / 33554432) by lia. rewrite H1.
    assert (H2 : (a / 33554432 * 33554432) mod 4294967296 = a / 33554432 * 33554432) by lia. rewrite H2.
    assert (H3 : (a mod 33554432) mod 33554432 = a mod 33554432) by lia. rewrite H3.
    change 33554432 with (2 ^ 25). rewrite lor_disjoint by (apply N.mod_lt; discriminate).
    change (2 ^ 25) with 33554432. lia.
  Qed.

  Lemma ref_accept_generic appkey p dn2 : length p = 12%nat ->
    ref_on_join_accept E appkey dn2 (32 :: D appkey (p ++ le_bytes 4 (buffer_mic E appkey (32 :: p)))) =
      Some (le_val (firstn 4 (skipn 6 p)),
            ref_session_key E appkey 1 (firstn 3 p) (firstn 3 (skipn 3 p)) dn2,
            ref_session_key E appkey 2 (firstn 3 p) (firstn 3 (skipn 3 p)) dn2).
  Proof.
    intros Lp. unfold ref_on_join_accept. rewrite D_len. cbn [Nat.eqb negb orb].
    change (32 / 32 =? 1) with true. cbn [negb orb].
    rewrite E_D by (rewrite app_length, le_bytes_length, Lp; reflexivity).
    rewrite firstn_app, Lp, Nat.sub_diag, firstn_O, app_nil_r. rewrite firstn_all2 by (rewrite Lp; lia).
    rewrite skipn_app, Lp, Nat.sub_diag, skipn_O. rewrite skipn_all2 by (rewrite Lp; lia). cbn [app].
    rewrite mic_bytes. assert (Heq : bytes_eqb (mic4 E appkey (32 :: p)) (mic4 E appkey (32 :: p)) = true) by (now apply bytes_eqb_spec).
    rewrite Heq. cbn [negb].
    do 12 (destruct p as [|? p]; [discriminate Lp|]). destruct p; [|discriminate Lp]. reflexivity.
  Qed.

  Theorem device_derives_same_session cfg r an na d0 d1 buf :
    length an = 3%nat -> bytes_ok an = true -> d0 < 256 -> d1 < 256 ->
    (if d_addr r =? 0 then na else d_addr r) < 4294967296 ->
    encode_join_accept E D (d_appkey r) JoinAccept c_MaxSupportedVersion (accept_of cfg r an na) = Ok buf ->
    ref_on_join_accept E (d_appkey r) [d0; d1] buf =
      Some (if d_addr r =? 0 then na else d_addr r,
            nwkskey_from_nonces E (d_appkey r) an (cfg_netid cfg) (be_val [d0; d1]),
            appskey_from_nonces E (d_appkey r) an (cfg_netid cfg) (be_val [d0; d1])).
  Proof.
    intros Lan Oan Hd0 Hd1 Ha. unfold encode_join_accept. change (negb (JoinAccept =? JoinAccept)) with false. cbv iota.
    destruct (joinacc_payload (accept_of cfg r an na)) as [p| |] eqn:Ep; cbn [bind]; try discriminate.
    intros [= <-]. change (mhdr_byte JoinAccept c_MaxSupportedVersion) with 32.
    unfold joinacc_payload, accept_of in Ep. cbn [ja_devaddr ja_appnonce ja_netid ja_rx1droffset ja_rx2dr ja_rxdelay] in Ep.
    set (a := if d_addr r =? 0 then na else d_addr r) in *.
    destruct ((127 <? nwkid (devaddr_of_u32 a)) || (33554431 <? nwkaddr (devaddr_of_u32 a))); [discriminate|].
    rewrite devaddr_u32_of in Ep by exact Ha.
    destruct an as [|a0 [|a1 [|a2 [|? ?]]]]; try discriminate Lan.
    injection Ep as <-.
    rewrite ref_accept_generic by reflexivity.
    cbn [firstn skipn app le_bytes].
    f_equal. f_equal; [f_equal|].
    - cbn [le_val]. lia.
    - unfold nwkskey_from_nonces, key_from_nonce, ref_session_key. cbn [firstn app]. f_equal.
      unfold be_val. cbn [rev app le_val].
      repeat (apply (f_equal2 (@cons N))); try reflexivity; rewrite ?land_4294967295, ?land_255, ?N.shiftr_div_pow2; change (2 ^ 16) with 65536; change (2 ^ 8) with 256; lia.
    - unfold appskey_from_nonces, key_from_nonce, ref_session_key. cbn [firstn app]. f_equal.
      unfold be_val. cbn [rev app le_val].
      repeat (apply (f_equal2 (@cons N))); try reflexivity; rewrite ?land_4294967295, ?land_255, ?N.shiftr_div_pow2; change (2 ^ 16) with 65536; change (2 ^ 8) with 256; lia.
  Qed.

  (* the library's device-side join-request is the reference one *)
  Theorem encode_join_request_is_ref appkey j :
    encode_join_request E appkey JoinRequest c_MaxSupportedVersion j =
      Ok (ref_join_request E appkey (le_bytes 8 (jr_appeui j)) (le_bytes 8 (jr_deveui j)) (be_bytes 2 (jr_devnonce j))).
  Proof.
    unfold encode_join_request, ref_join_request, joinreq_payload. change (negb (JoinRequest =? JoinRequest)) with false. cbv iota.
    change (mhdr_byte JoinRequest c_MaxSupportedVersion) with 0. rewrite mic_bytes. reflexivity.
  Qed.

  (* ---------- histories of one device with joins (C05) ---------- *)
  Inductive jevent := JUp (f : frame) (rx : rxpacket) (n : nat) (now : N) | JSub (m : dmsg)
                    | JJoin (f : frame) (rx : rxpacket) (an : list N) (na : N).
  Definition jstep (cfg : config) (apps : list N) (st : dstate) (ev : jevent) : dstate * list out :=
    match ev with
    | JUp f rx n now => l_uplink E D apps st f rx n now
    | JSub m => (fst (l_create_downstream st m), [])
    | JJoin f rx an na => join_local E D cfg apps st f rx an na
    end.
  Definition jev_ok (ev : jevent) : Prop :=
    match ev with JUp _ rx _ _ => valid_datr rx | JSub _ => True | JJoin _ rx _ _ => valid_datr rx end.
  (* the nonce honoured by a step, if any *)
  Definition honoured (cfg : config) (apps : list N) (st : dstate) (ev : jevent) : list N :=
    match ev, ds_row st with
    | JJoin f rx _ _, Some r => if join_guard cfg apps st f (rx_raw rx) r then [jr_devnonce (jr f)] else []
    | _, _ => []
    end.
  Fixpoint jrun (cfg : config) (apps : list N) (st : dstate) (evs : list jevent) : dstate * list N :=
    match evs with
    | [] => (st, [])
    | ev :: t => let rest := jrun cfg apps (fst (jstep cfg apps st ev)) t in (fst rest, honoured cfg apps st ev ++ snd rest)
    end.

  Lemma jstep_nonces cfg apps st ev : fb_down st -> jev_ok ev ->
    fb_down (fst (jstep cfg apps st ev)) /\
    (honoured cfg apps st ev = [] -> ds_nonces (fst (jstep cfg apps st ev)) = ds_nonces st) /\
    (forall n, honoured cfg apps st ev = [n] -> cfg_disable_nonce_check cfg = false ->
       ~ In n (ds_nonces st) /\ ds_nonces (fst (jstep cfg apps st ev)) = ds_nonces st ++ [n]).
  Proof.
    intros Hfb Hok. destruct ev as [f rx n now | m | f rx an na]; cbn [jstep honoured].
    - destruct (ds_row st) as [r|] eqn:Hr.
      + destruct (l_uplink_summary E D (fun k b => proj1 (E_block k b)) apps st f rx n now r Hr Hfb Hok) as (r' & _ & _ & F & Nn & _). repeat split; auto; discriminate.
      + unfold l_uplink. rewrite Hr. cbn. repeat split; auto; discriminate.
    - destruct (lsub_props st m) as (_ & _ & L3). split; [auto|]. split; [|intros; discriminate].
      intros _. unfold l_create_downstream. destruct (existsb _ _); reflexivity.
    - destruct (ds_row st) as [r|] eqn:Hr.
      + destruct (join_guard cfg apps st f (rx_raw rx) r) eqn:G.
        * destruct (join_honoured cfg apps st f rx an na r Hr G Hok) as (_ & H2 & _ & _ & H5 & _).
          split; [exact H5|]. split; [discriminate|]. intros n [= <-] Hc. rewrite H2, Hc. split; [|reflexivity].
          unfold join_guard, nonce_used in G. rewrite !andb_true_iff in G. destruct G as [[_ G3] _].
          rewrite Hc in G3. cbn [negb andb] in G3. apply negb_true_iff in G3. intros Hin.
          assert (existsb (fun n0 => n0 =? jr_devnonce (jr f)) (ds_nonces st) = true) by (apply existsb_exists; eexists; split; [exact Hin|apply N.eqb_refl]).
          congruence.
        * rewrite join_refused by (intros r0 Hr0; rewrite Hr in Hr0; injection Hr0 as <-; exact G).
          cbn. repeat split; auto; discriminate.
      + rewrite join_refused by (intros r0 Hr0; congruence). cbn. repeat split; auto; discriminate.
  Qed.

  (* with the nonce check on, no DevNonce is honoured twice in any history of the device *)
  Theorem nonce_honoured_once cfg apps : cfg_disable_nonce_check cfg = false ->
    forall evs st, fb_down st -> Forall jev_ok evs ->
    NoDup (snd (jrun cfg apps st evs)) /\ Forall (fun n => ~ In n (ds_nonces st)) (snd (jrun cfg apps st evs)).
  Proof.
    intros Hc. induction evs as [|ev t IH]; intros st Hfb Hok; cbn [jrun snd]; [split; constructor|].
    inversion Hok as [|? ? Hev Ht]; subst.
    destruct (jstep_nonces cfg apps st ev Hfb Hev) as (F & H0 & H1).
    specialize (IH (fst (jstep cfg apps st ev)) F Ht). destruct IH as [IH1 IH2].
    assert (Hshape : honoured cfg apps st ev = [] \/ exists n, honoured cfg apps st ev = [n]).
    { unfold honoured. destruct ev; auto. destruct (ds_row st); auto. destruct (join_guard _ _ _ _ _ _); eauto. }
    destruct Hshape as [Hn | [n Hn]]; rewrite Hn; cbn [app].
    - rewrite (H0 Hn) in IH2. now split.
    - destruct (H1 n Hn Hc) as [Hnot Heq]. rewrite Heq in IH2.
      split.
      + constructor; [|exact IH1]. intros Hin. rewrite Forall_forall in IH2. apply (IH2 n Hin). apply in_or_app. right. now left.
      + constructor; [exact Hnot|]. eapply Forall_impl; [|exact IH2]. cbn beta. intros a Ha Hin. apply Ha. apply in_or_app. now left.
  Qed.

  (* the session stored for the device is always the one of the last honoured join *)
  Definition session_keys (r : device) : N * list N * list N := (d_addr r, d_nwkskey r, d_appskey r).
  Fixpoint last_keys (cfg : config) (apps : list N) (st : dstate) (evs : list jevent) (cur : N * list N * list N) : N * list N * list N :=
    match evs with
    | [] => cur
    | ev :: t =>
      let cur' := match ev, ds_row st with
                  | JJoin f rx an na, Some r => if join_guard cfg apps st f (rx_raw rx) r then session_keys (session_of cfg r f an na) else cur
                  | _, _ => cur
                  end in
      last_keys cfg apps (fst (jstep cfg apps st ev)) t cur'
    end.

  Theorem stored_session_is_last_accept cfg apps : forall evs st r,
    ds_row st = Some r -> fb_down st -> Forall jev_ok evs ->
    exists r', ds_row (fst (jrun cfg apps st evs)) = Some r' /\
               session_keys r' = last_keys cfg apps st evs (session_keys r).
  Proof.
    induction evs as [|ev t IH]; intros st r Hr Hfb Hok; cbn [jrun last_keys fst]; [now exists r|].
    inversion Hok as [|? ? Hev Ht]; subst.
    destruct (jstep_nonces cfg apps st ev Hfb Hev) as (F & _ & _).
    rewrite Hr.
    destruct ev as [f rx n now | m | f rx an na]; cbn [jstep] in *.
    - destruct (l_uplink_summary E D (fun k b => proj1 (E_block k b)) apps st f rx n now r Hr Hfb Hev) as (r' & R' & S' & _).
      destruct (IH _ r' R' F Ht) as (rf & Rf & Kf). exists rf. split; [exact Rf|]. rewrite Kf.
      f_equal. unfold session_keys. destruct S' as (_ & A & _ & B & C & _). congruence.
    - destruct (lsub_props st m) as (L1 & _ & _).
      destruct (IH _ r (eq_trans L1 Hr) F Ht) as (rf & Rf & Kf). now exists rf.
    - destruct (join_guard cfg apps st f (rx_raw rx) r) eqn:G.
      + destruct (join_honoured cfg apps st f rx an na r Hr G Hev) as (H1 & _).
        destruct (IH _ _ H1 F Ht) as (rf & Rf & Kf). now exists rf.
      + rewrite join_refused in * by (intros r0 Hr0; rewrite Hr in Hr0; injection Hr0 as <-; exact G). cbn [fst] in *.
        destruct (IH _ r Hr F Ht) as (rf & Rf & Kf). now exists rf.
  Qed.
End JoinProof.
