From Lospan Require Import Base.Bytes Model.Codec Model.RegistryTypes Model.Registry Spec.AbsRegistry
  Proof.BitLemmas Proof.CMACProof Proof.CodecProof.
Open Scope N_scope.

(* ---------- generic list facts ---------- *)
Section Gen.
  Context {A B : Type} (enc : A -> B).
  Lemma ex_key (kc : B -> bool) (ka : A -> bool) l :
    (forall x, In x l -> kc (enc x) = ka x) -> existsb kc (map enc l) = existsb ka l.
  Proof. induction l as [|h t IH]; intros H; [reflexivity|]. cbn. rewrite H by now left. rewrite IH; [reflexivity|]. intros x Hx. apply H. now right. Qed.
  Lemma filter_key (kc : B -> bool) (ka : A -> bool) l :
    (forall x, In x l -> kc (enc x) = ka x) -> filter kc (map enc l) = map enc (filter ka l).
  Proof.
    induction l as [|h t IH]; intros H; [reflexivity|]. cbn. rewrite H by now left.
    rewrite IH by (intros x Hx; apply H; now right). now destruct (ka h).
  Qed.
  Lemma find_key (kc : B -> bool) (ka : A -> bool) l :
    (forall x, In x l -> kc (enc x) = ka x) -> find kc (map enc l) = option_map enc (find ka l).
  Proof.
    induction l as [|h t IH]; intros H; [reflexivity|]. cbn. rewrite H by now left.
    destruct (ka h); [reflexivity|]. apply IH. intros x Hx. apply H. now right.
  Qed.
  Lemma map_key (fc : B -> B) (fa : A -> A) l :
    (forall x, In x l -> fc (enc x) = enc (fa x)) -> map fc (map enc l) = map enc (map fa l).
  Proof. intros H. rewrite !map_map. apply map_ext_in. exact H. Qed.
  Lemma sort_key (kc : B -> Z) (ka : A -> Z) l :
    (forall x, kc (enc x) = ka x) -> c_sort_by kc (map enc l) = map enc (sort_by ka l).
  Proof.
    intros H. induction l as [|h t IH]; [reflexivity|]. cbn [map c_sort_by sort_by fold_right].
    fold (c_sort_by kc (map enc t)). fold (sort_by ka t). rewrite IH. generalize (sort_by ka t) as l. clear IH t.
    induction l as [|x l IHl]; [reflexivity|]. cbn [map c_insert_by insert_by]. rewrite !H.
    destruct (ka h <? ka x)%Z; [reflexivity|]. cbn [map]. f_equal. exact IHl.
  Qed.
  Lemma dec_all_enc (dec : B -> option A) l :
    (forall x, In x l -> dec (enc x) = Some x) -> dec_all dec (map enc l) = Some l.
  Proof.
    induction l as [|h t IH]; intros H; [reflexivity|]. cbn. rewrite H by now left.
    rewrite IH; [reflexivity|]. intros x Hx. apply H. now right.
  Qed.
End Gen.
Lemma limit_map {A B} (f : A -> B) z l : c_limit z (map f l) = map f (limit_of z l).
Proof. unfold c_limit, limit_of. destruct (z <? 0)%Z; [reflexivity|]. apply firstn_map. Qed.
Lemma firstn_In {A} n (l : list A) x : In x (firstn n l) -> In x l.
Proof. revert l; induction n as [|n IH]; intros [|h t] H; cbn in *; try contradiction. destruct H as [->|H]; [now left | right; now apply IH]. Qed.
Lemma Forall_filter {A} (P : A -> Prop) f l : Forall P l -> Forall P (filter f l).
Proof. rewrite !Forall_forall. intros H x Hx. apply filter_In in Hx. now apply H. Qed.
Lemma Forall_app1 {A} (P : A -> Prop) l x : Forall P l -> P x -> Forall P (l ++ [x]).
Proof. intros H Hx. apply Forall_app. split; [exact H|]. now constructor. Qed.
Lemma Forall_map_if {A} (P : A -> Prop) (c : A -> bool) (f : A -> A) l :
  Forall P l -> (forall x, P x -> P (f x)) -> Forall P (map (fun x => if c x then f x else x) l).
Proof. intros H Hf. rewrite Forall_forall in *. intros y Hy. apply in_map_iff in Hy. destruct Hy as (x & <- & Hx). destruct (c x); auto. Qed.

(* ---------- keys ---------- *)
Lemma eui_ok_lt e : eui_ok e = true <-> e < two64.
Proof. unfold eui_ok, two64. now rewrite N.ltb_lt. Qed.
Lemma zeq_eui a b : eui_ok a = true -> eui_ok b = true -> (eui_to_int64 a =? eui_to_int64 b)%Z = (a =? b).
Proof.
  intros Ha Hb. apply eui_ok_lt in Ha, Hb. destruct (N.eqb_spec a b) as [->|Hn]; [apply Z.eqb_refl|].
  apply Z.eqb_neq. intros E. apply Hn. now apply eui_to_int64_inj.
Qed.
Lemma eui_str_inj a b : a < two64 -> b < two64 -> eui_str a = eui_str b -> a = b.
Proof. intros Ha Hb E. pose proof (eui_str_roundtrip a Ha) as R. rewrite E, (eui_str_roundtrip b Hb) in R. congruence. Qed.
Lemma streq_eui a b : eui_ok a = true -> eui_ok b = true -> bytes_eqb (eui_str a) (eui_str b) = (a =? b).
Proof.
  intros Ha Hb. apply eui_ok_lt in Ha, Hb. destruct (N.eqb_spec a b) as [->|Hn]; [now apply bytes_eqb_spec|].
  destruct (bytes_eqb (eui_str a) (eui_str b)) eqn:E; [|reflexivity]. apply bytes_eqb_spec in E. exfalso. apply Hn. now apply eui_str_inj.
Qed.
Lemma streq_addr a b : a < 4294967296 -> b < 4294967296 -> bytes_eqb (devaddr_str a) (devaddr_str b) = (a =? b).
Proof.
  intros Ha Hb. destruct (N.eqb_spec a b) as [->|Hn]; [now apply bytes_eqb_spec|].
  destruct (bytes_eqb (devaddr_str a) (devaddr_str b)) eqn:E; [|reflexivity]. apply bytes_eqb_spec in E. exfalso. apply Hn. now apply devaddr_str_inj.
Qed.
Lemma zeq_nonce a b : a < 65536 -> b < 65536 -> (nonce_col a =? nonce_col b)%Z = (a =? b).
Proof. intros Ha Hb. unfold nonce_col. destruct (N.eqb_spec a b) as [->|Hn]; [apply Z.eqb_refl|]. apply Z.eqb_neq. lia. Qed.

(* ---------- rows decode to what was encoded ---------- *)
Ltac pcbn := cbn [ca_eui ca_tag cd_eui cd_addr cd_appkey cd_appskey cd_nwkskey cd_app cd_state cd_fup cd_fdn cd_relaxed cd_kw cd_tag
  cg_eui cg_lat cg_lon cg_alt cg_ip cg_strict cu_eui cu_data cu_ts cu_gw cu_rssi cu_snr cu_freq cu_datr cu_addr
  cw_eui cw_data cw_port cw_ack cw_created cw_sent cw_acktime cw_fcnt
  ap_eui ap_tag rd_eui rd_addr rd_appkey rd_appskey rd_nwkskey rd_app rd_state rd_fup rd_fdn rd_relaxed rd_kw rd_tag
  gw_eui gw_lat gw_lon gw_alt gw_ip gw_strict up_eui up_ts up_data up_gw up_rssi up_snr up_freq up_datr up_addr
  dn_eui dn_data dn_port dn_ack dn_created dn_sent dn_acktime dn_fcnt fst snd] in *.
Ltac split_ok H := repeat (match type of H with (_ && _) = true => let H2 := fresh "K" in apply andb_true_iff in H; destruct H as [H H2] end).
Lemma key_ok_spec k : key_ok k = true -> bytes_ok k = true /\ length k = 16%nat.
Proof. unfold key_ok. intros H. apply andb_true_iff in H. destruct H as [A B]. apply Nat.eqb_eq in B. now split. Qed.
Lemma app_ok_spec a : app_ok a = true <-> (ap_eui a < two64 /\ text_ok (ap_tag a) = true).
Proof. unfold app_ok, two64. rewrite !andb_true_iff, !N.ltb_lt. tauto. Qed.
Lemma dev_ok_spec d : dev_ok d = true <->
  (rd_eui d < two64 /\ rd_addr d < 4294967296 /\ key_ok (rd_appkey d) = true /\ key_ok (rd_appskey d) = true /\
   key_ok (rd_nwkskey d) = true /\ rd_app d < two64 /\ rd_state d < 256 /\ rd_fup d < 65536 /\ rd_fdn d < 65536 /\
   text_ok (rd_tag d) = true).
Proof. unfold dev_ok, two64. rewrite !andb_true_iff, !N.ltb_lt. tauto. Qed.
Lemma gw_ok_spec g : gw_ok g = true <-> (gw_eui g < two64 /\ text_ok (gw_ip g) = true).
Proof. unfold gw_ok, two64. rewrite !andb_true_iff, !N.ltb_lt. tauto. Qed.
Lemma up_ok_spec m : up_ok m = true <->
  (up_eui m < two64 /\ i64_ok (up_ts m) = true /\ bytes_ok (up_data m) = true /\ up_gw m < two64 /\
   text_ok (up_datr m) = true /\ up_addr m < 4294967296).
Proof. unfold up_ok, two64. rewrite !andb_true_iff, !N.ltb_lt. tauto. Qed.
Lemma down_ok_spec m : down_ok m = true <->
  (dn_eui m < two64 /\ text_ok (dn_data m) = true /\ dn_port m < 256 /\ i64_ok (dn_created m) = true /\
   i64_ok (dn_sent m) = true /\ i64_ok (dn_acktime m) = true /\ dn_fcnt m < 65536).
Proof. unfold down_ok, two64. rewrite !andb_true_iff, !N.ltb_lt. tauto. Qed.

Lemma dec_enc_app a : app_ok a = true -> dec_app (enc_app a) = a.
Proof.
  intros H. apply app_ok_spec in H. destruct H as [H _]. destruct a as [e t]. unfold dec_app, enc_app. pcbn.
  now rewrite eui_int64_roundtrip.
Qed.
Lemma app_ok_eui a : app_ok a = true -> eui_ok (ap_eui a) = true.
Proof. intros H. apply app_ok_spec in H. now apply eui_ok_lt. Qed.
Lemma dev_ok_eui d : dev_ok d = true -> eui_ok (rd_eui d) = true /\ eui_ok (rd_app d) = true /\ rd_addr d < 4294967296.
Proof. intros H. apply dev_ok_spec in H. rewrite !eui_ok_lt. tauto. Qed.
Lemma dec_enc_dev d : dev_ok d = true -> dec_dev (enc_dev d) = Some d.
Proof.
  intros H. apply dev_ok_spec in H. destruct H as (A1 & A2 & A3 & A4 & A5 & A6 & _).
  apply key_ok_spec in A3, A4, A5.
  destruct d. unfold dec_dev, enc_dev. pcbn.
  rewrite devaddr_roundtrip by exact A2. rewrite !key_roundtrip by tauto.
  now rewrite !eui_int64_roundtrip.
Qed.
Lemma gw_ok_eui g : gw_ok g = true -> eui_ok (gw_eui g) = true.
Proof. intros H. apply gw_ok_spec in H. now apply eui_ok_lt. Qed.
Lemma dec_enc_gw g : gw_ok g = true -> dec_gw (enc_gw g) = g.
Proof.
  intros H. apply gw_ok_spec in H. destruct H as [H _]. destruct g. unfold dec_gw, enc_gw. pcbn.
  now rewrite eui_int64_roundtrip.
Qed.
Lemma up_ok_eui m : up_ok m = true -> eui_ok (up_eui m) = true.
Proof. intros H. apply up_ok_spec in H. now apply eui_ok_lt. Qed.
Lemma dec_enc_up m : up_ok m = true -> dec_up (enc_up m) = Some m.
Proof.
  intros H. apply up_ok_spec in H. destruct H as (A1 & _ & A3 & A4 & _ & A6).
  destruct m. unfold dec_up, enc_up. pcbn.
  rewrite b64_roundtrip by exact A3. rewrite eui_str_roundtrip by exact A4. rewrite devaddr_roundtrip by exact A6.
  now rewrite eui_int64_roundtrip.
Qed.
Lemma down_ok_eui m : down_ok m = true -> eui_ok (dn_eui m) = true.
Proof. intros H. apply down_ok_spec in H. now apply eui_ok_lt. Qed.
Lemma dec_enc_down m : dec_down (dn_eui m) (enc_down m) = m.
Proof. now destruct m. Qed.

(* ---------- the refinement ---------- *)
Definition enc_store (s : astore) : cstore :=
  {| t_apps := map enc_app (a_apps s); t_devs := map enc_dev (a_devs s); t_nonces := map enc_nonce (a_nonces s);
     t_gws := map enc_gw (a_gws s); t_ups := map enc_up (a_ups s); t_downs := map enc_down (a_downs s) |}.
Definition nonce_ok (p : N * N) : bool := eui_ok (fst p) && (snd p <? 65536).
Record store_ok (s : astore) : Prop := {
  ok_apps : Forall (fun x => app_ok x = true) (a_apps s);
  ok_devs : Forall (fun x => dev_ok x = true) (a_devs s);
  ok_nonces : Forall (fun x => nonce_ok x = true) (a_nonces s);
  ok_gws : Forall (fun x => gw_ok x = true) (a_gws s);
  ok_ups : Forall (fun x => up_ok x = true) (a_ups s);
  ok_downs : Forall (fun x => down_ok x = true) (a_downs s) }.

Lemma empty_ok : store_ok a_empty.
Proof. split; constructor. Qed.

Lemma nonces_refine s e : store_ok s -> eui_ok e = true -> c_nonces_of (enc_store s) (eui_to_int64 e) = nonces_of s e.
Proof.
  intros Hok He. unfold c_nonces_of, nonces_of, enc_store. cbn [t_nonces].
  pose proof (ok_nonces s Hok) as F. rewrite Forall_forall in F.
  rewrite (filter_key enc_nonce _ (fun p => fst p =? e)).
  - rewrite map_map. apply map_ext_in. intros p Hp. apply filter_In in Hp. destruct Hp as [Hp _].
    specialize (F p Hp). unfold nonce_ok in F. apply andb_true_iff in F. destruct F as [_ F]. apply N.ltb_lt in F.
    cbn. now apply nonce_roundtrip.
  - intros p Hp. specialize (F p Hp). unfold nonce_ok in F. apply andb_true_iff in F. destruct F as [F _].
    cbn. now apply zeq_eui.
Qed.

Lemma dev_list_refine s (ka : rdev -> bool) (kc : c_dev -> bool) :
  store_ok s -> (forall x, In x (a_devs s) -> kc (enc_dev x) = ka x) ->
  c_dev_list (enc_store s) (filter kc (t_devs (enc_store s))) = RDevs (map (with_nonces s) (filter ka (a_devs s))).
Proof.
  intros Hok Hk. unfold c_dev_list. cbn [enc_store t_devs]. rewrite (filter_key enc_dev kc ka) by exact Hk.
  pose proof (ok_devs s Hok) as F. rewrite Forall_forall in F.
  rewrite dec_all_enc.
  - f_equal. apply map_ext_in. intros d Hd. apply filter_In in Hd. destruct Hd as [Hd _]. unfold with_nonces. f_equal.
    apply nonces_refine; [exact Hok|]. now apply dev_ok_eui, F.
  - intros d Hd. apply filter_In in Hd. destruct Hd as [Hd _]. now apply dec_enc_dev, F.
Qed.

Ltac keyed F := let x := fresh "x" in let Hx := fresh "Hx" in intros x Hx; specialize (F x Hx); unfold enc_app, enc_dev, enc_gw, enc_up, enc_down, enc_nonce; pcbn.

Lemma keyeq_key a b : key_ok a = true -> key_ok b = true -> bytes_eqb (key_str a) (key_str b) = bytes_eqb a b.
Proof.
  intros Ha Hb. apply key_ok_spec in Ha, Hb. destruct Ha as [A1 A2], Hb as [B1 B2].
  destruct (bytes_eqb a b) eqn:E.
  - apply bytes_eqb_spec in E. subst. now apply bytes_eqb_spec.
  - destruct (bytes_eqb (key_str a) (key_str b)) eqn:E2; [|reflexivity]. apply bytes_eqb_spec in E2.
    apply key_str_inj in E2; auto. subst. rewrite (proj2 (bytes_eqb_spec b b) eq_refl) in E. discriminate.
Qed.
Theorem refine_step s o : store_ok s -> regop_ok o = true ->
  c_step (enc_store s) o = (enc_store (fst (a_step s o)), snd (a_step s o)) /\ store_ok (fst (a_step s o)).
Proof.
  intros Hok Ho. destruct Hok as [Fa Fd Fn Fg Fu Fw]. pose proof (Build_store_ok s Fa Fd Fn Fg Fu Fw) as Hok.
  destruct o; cbn [regop_ok] in Ho; cbn [c_step a_step].
  - (* CreateApplication *)
    pose proof Fa as F. rewrite Forall_forall in F.
    pose proof (app_ok_eui a Ho) as Ea.
    cbn [enc_store t_apps]. rewrite (ex_key enc_app _ (fun x => ap_eui x =? ap_eui a)).
    2:{ keyed F. apply zeq_eui; [|exact Ea]. now apply app_ok_eui. }
    destruct (existsb _ (a_apps s)); cbn [fst snd]; [now split|]. split.
    + unfold st_apps, enc_store. cbn. now rewrite map_app.
    + split; cbn; try assumption. now apply Forall_app1.
  - (* DeleteApplication *)
    pose proof Fa as F. rewrite Forall_forall in F. cbn [enc_store t_apps].
    assert (K : forall x, In x (a_apps s) -> (ca_eui (enc_app x) =? eui_to_int64 e)%Z = (ap_eui x =? e)).
    { keyed F. apply zeq_eui; [|exact Ho]. now apply app_ok_eui. }
    rewrite (ex_key enc_app _ (fun x => ap_eui x =? e)) by exact K.
    destruct (existsb _ (a_apps s)); cbn [fst snd]; [|now split]. split.
    + unfold st_apps, enc_store. cbn. f_equal. f_equal. apply (filter_key enc_app). intros x Hx. now rewrite K.
    + split; cbn; try assumption. now apply Forall_filter.
  - (* GetApplicationByEUI *)
    pose proof Fa as F. rewrite Forall_forall in F. cbn [enc_store t_apps fst snd]. split; [|exact Hok]. f_equal.
    rewrite (find_key enc_app _ (fun x => ap_eui x =? e)).
    2:{ keyed F. apply zeq_eui; [|exact Ho]. now apply app_ok_eui. }
    destruct (find _ (a_apps s)) as [a|] eqn:E; cbn; [|reflexivity]. apply find_some in E. destruct E as [E _].
    now rewrite dec_enc_app by now apply F.
  - (* ListApplications *)
    cbn [enc_store t_apps fst snd]. split; [|exact Hok]. f_equal. f_equal. rewrite map_map.
    rewrite <- (map_id (a_apps s)) at 2. apply map_ext_in. intros a Ha. rewrite Forall_forall in Fa. now apply dec_enc_app, Fa.
  - (* CreateDevice *)
    pose proof Fd as F. rewrite Forall_forall in F. destruct (dev_ok_eui d Ho) as (Ed & _ & _).
    cbn [enc_store t_devs]. rewrite (ex_key enc_dev _ (fun x => rd_eui x =? rd_eui d)).
    2:{ keyed F. apply zeq_eui; [|exact Ed]. now apply dev_ok_eui. }
    destruct (existsb _ (a_devs s)); cbn [fst snd]; [now split|]. split.
    + unfold st_devs, enc_store. cbn. now rewrite map_app.
    + split; cbn; try assumption. now apply Forall_app1.
  - (* UpdateDevice *)
    pose proof Fd as F. rewrite Forall_forall in F. destruct (dev_ok_eui d Ho) as (Ed & _ & _).
    cbn [enc_store t_devs].
    assert (K : forall x, In x (a_devs s) -> (cd_eui (enc_dev x) =? cd_eui (enc_dev d))%Z = (rd_eui x =? rd_eui d)).
    { keyed F. apply zeq_eui; [|exact Ed]. now apply dev_ok_eui. }
    rewrite (ex_key enc_dev _ (fun x => rd_eui x =? rd_eui d)) by exact K.
    destruct (existsb _ (a_devs s)); cbn [fst snd]; [|now split]. split.
    + unfold st_devs, enc_store. cbn. f_equal. f_equal. apply (map_key enc_dev). intros x Hx. rewrite K by exact Hx.
      destruct (rd_eui x =? rd_eui d); reflexivity.
    + split; cbn; try assumption. apply Forall_map_if; [exact Fd|]. intros x Hx.
      apply dev_ok_spec in Hx. apply dev_ok_spec in Ho. apply dev_ok_spec. unfold upd_dev. cbn. tauto.
  - (* UpdateDeviceState *)
    pose proof Fd as F. rewrite Forall_forall in F.
    apply andb_true_iff in Ho. destruct Ho as [Ho Hfdn]. apply andb_true_iff in Ho. destruct Ho as [Ho Hfup].
    cbn [enc_store t_devs].
    assert (K : forall x, In x (a_devs s) -> (cd_eui (enc_dev x) =? eui_to_int64 e)%Z = (rd_eui x =? e)).
    { keyed F. apply zeq_eui; [|exact Ho]. now apply dev_ok_eui. }
    rewrite (ex_key enc_dev _ (fun x => rd_eui x =? e)) by exact K.
    destruct (existsb _ (a_devs s)); cbn [fst snd]; [|now split]. split.
    + unfold st_devs, enc_store. cbn. f_equal. f_equal. apply (map_key enc_dev). intros x Hx. rewrite K by exact Hx.
      destruct (rd_eui x =? e); reflexivity.
    + split; cbn; try assumption. apply Forall_map_if; [exact Fd|]. intros x Hx.
      apply dev_ok_spec in Hx. apply dev_ok_spec. unfold upd_dev_state. cbn. apply N.ltb_lt in Hfup, Hfdn. tauto.
  - (* DeleteDevice *)
    pose proof Fd as F. rewrite Forall_forall in F. cbn [enc_store t_devs].
    assert (K : forall x, In x (a_devs s) -> (cd_eui (enc_dev x) =? eui_to_int64 e)%Z = (rd_eui x =? e)).
    { keyed F. apply zeq_eui; [|exact Ho]. now apply dev_ok_eui. }
    rewrite (ex_key enc_dev _ (fun x => rd_eui x =? e)) by exact K.
    destruct (existsb _ (a_devs s)); cbn [fst snd]; [|now split]. split.
    + unfold st_devs, enc_store. cbn. f_equal. f_equal. apply (filter_key enc_dev). intros x Hx. now rewrite K.
    + split; cbn; try assumption. now apply Forall_filter.
  - (* GetDeviceByEUI *)
    pose proof Fd as F. rewrite Forall_forall in F. cbn [fst snd]. split; [|exact Hok]. f_equal.
    change (t_devs (enc_store s)) with (map enc_dev (a_devs s)).
    rewrite (find_key enc_dev _ (fun x => rd_eui x =? e)).
    2:{ keyed F. apply zeq_eui; [|exact Ho]. now apply dev_ok_eui. }
    destruct (find _ (a_devs s)) as [d|] eqn:E; cbn [option_map]; [|reflexivity]. apply find_some in E. destruct E as [E E2].
    rewrite dec_enc_dev by now apply F. apply N.eqb_eq in E2. subst e. f_equal. now apply nonces_refine.
  - (* GetDeviceByDevAddr *)
    pose proof Fd as F. rewrite Forall_forall in F. cbn [fst snd]. split; [|exact Hok]. f_equal.
    apply N.ltb_lt in Ho. apply dev_list_refine; [exact Hok|]. keyed F. apply streq_addr; [|exact Ho]. now apply dev_ok_eui.
  - (* GetDevicesByApplicationEUI *)
    pose proof Fd as F. rewrite Forall_forall in F. cbn [fst snd]. split; [|exact Hok]. f_equal.
    apply dev_list_refine; [exact Hok|]. keyed F. apply zeq_eui; [|exact Ho]. now apply dev_ok_eui.
  - (* AddDevNonce *)
    pose proof Fn as F. rewrite Forall_forall in F. apply andb_true_iff in Ho. destruct Ho as [Ho Hn]. apply N.ltb_lt in Hn.
    cbn [enc_store t_nonces]. rewrite (ex_key enc_nonce _ (fun p => (fst p =? e) && (snd p =? n))).
    2:{ keyed F. unfold nonce_ok in F. apply andb_true_iff in F. destruct F as [F1 F2]. apply N.ltb_lt in F2.
        rewrite zeq_eui by assumption. now rewrite zeq_nonce. }
    destruct (existsb _ (a_nonces s)); cbn [fst snd]; [now split|]. split.
    + unfold st_nonces, enc_store. cbn. now rewrite map_app.
    + split; cbn; try assumption. apply Forall_app1; [exact Fn|]. unfold nonce_ok. cbn. rewrite Ho. now apply N.ltb_lt.
  - (* CreateGateway *)
    pose proof Fg as F. rewrite Forall_forall in F.
    pose proof (gw_ok_eui g Ho) as Eg.
    cbn [enc_store t_gws]. rewrite (ex_key enc_gw _ (fun x => gw_eui x =? gw_eui g)).
    2:{ keyed F. apply zeq_eui; [|exact Eg]. now apply gw_ok_eui. }
    destruct (existsb _ (a_gws s)); cbn [fst snd]; [now split|]. split.
    + unfold st_gws, enc_store. cbn. now rewrite map_app.
    + split; cbn; try assumption. now apply Forall_app1.
  - (* UpdateGateway *)
    pose proof Fg as F. rewrite Forall_forall in F.
    pose proof (gw_ok_eui g Ho) as Eg.
    cbn [enc_store t_gws].
    assert (K : forall x, In x (a_gws s) -> (cg_eui (enc_gw x) =? cg_eui (enc_gw g))%Z = (gw_eui x =? gw_eui g)).
    { keyed F. apply zeq_eui; [|exact Eg]. now apply gw_ok_eui. }
    rewrite (ex_key enc_gw _ (fun x => gw_eui x =? gw_eui g)) by exact K.
    destruct (existsb _ (a_gws s)); cbn [fst snd]; [|now split]. split.
    + unfold st_gws, enc_store. cbn. f_equal. f_equal. apply (map_key enc_gw). intros x Hx. rewrite K by exact Hx.
      destruct (gw_eui x =? gw_eui g); reflexivity.
    + split; cbn; try assumption. apply Forall_map_if; [exact Fg|]. intros x Hx.
      apply gw_ok_spec in Hx. apply gw_ok_spec in Ho. apply gw_ok_spec. unfold upd_gw. cbn. tauto.
  - (* DeleteGateway *)
    pose proof Fg as F. rewrite Forall_forall in F. cbn [enc_store t_gws].
    assert (K : forall x, In x (a_gws s) -> (cg_eui (enc_gw x) =? eui_to_int64 e)%Z = (gw_eui x =? e)).
    { keyed F. apply zeq_eui; [|exact Ho]. now apply gw_ok_eui. }
    rewrite (ex_key enc_gw _ (fun x => gw_eui x =? e)) by exact K.
    destruct (existsb _ (a_gws s)); cbn [fst snd]; [|now split]. split.
    + unfold st_gws, enc_store. cbn. f_equal. f_equal. apply (filter_key enc_gw). intros x Hx. now rewrite K.
    + split; cbn; try assumption. now apply Forall_filter.
  - (* GetGateway *)
    pose proof Fg as F. rewrite Forall_forall in F. cbn [enc_store t_gws fst snd]. split; [|exact Hok]. f_equal.
    rewrite (find_key enc_gw _ (fun x => gw_eui x =? e)).
    2:{ keyed F. apply zeq_eui; [|exact Ho]. now apply gw_ok_eui. }
    destruct (find _ (a_gws s)) as [g|] eqn:E; cbn; [|reflexivity]. apply find_some in E. destruct E as [E _].
    now rewrite dec_enc_gw by now apply F.
  - (* GetGatewayList *)
    cbn [enc_store t_gws fst snd]. split; [|exact Hok]. f_equal. f_equal. rewrite map_map.
    rewrite <- (map_id (a_gws s)) at 2. apply map_ext_in. intros g Hg. rewrite Forall_forall in Fg. now apply dec_enc_gw, Fg.
  - (* CreateUpstreamMessage *)
    pose proof Fu as F. rewrite Forall_forall in F. pose proof (up_ok_eui m Ho) as Em.
    cbn [enc_store t_ups]. rewrite (ex_key enc_up _ (fun x => (up_eui x =? up_eui m) && (up_ts x =? up_ts m)%Z)).
    2:{ keyed F. f_equal. apply zeq_eui; [|exact Em]. now apply up_ok_eui. }
    destruct (existsb _ (a_ups s)); cbn [fst snd]; [now split|]. split.
    + unfold st_ups, enc_store. cbn. now rewrite map_app.
    + split; cbn; try assumption. now apply Forall_app1.
  - (* ListUpstreamMessages *)
    pose proof Fu as F. rewrite Forall_forall in F. cbn [enc_store t_ups fst snd]. split; [|exact Hok]. f_equal.
    rewrite (filter_key enc_up _ (fun x => up_eui x =? e)).
    2:{ keyed F. apply zeq_eui; [|exact Ho]. now apply up_ok_eui. }
    rewrite (sort_key enc_up cu_ts up_ts) by reflexivity. rewrite <- map_rev, limit_map.
    rewrite dec_all_enc; [reflexivity|]. intros x Hx. apply dec_enc_up, F.
    unfold limit_of in Hx. assert (Hin : In x (rev (sort_by up_ts (filter (fun x0 => up_eui x0 =? e) (a_ups s))))).
    { destruct (limit <? 0)%Z; [exact Hx | eapply firstn_In; exact Hx]. }
    apply in_rev in Hin. clear Hx.
    assert (Sub : forall l y, In y (sort_by up_ts l) -> In y l).
    { clear. induction l as [|h t IH]; intros y Hy; [exact Hy|]. cbn [sort_by fold_right] in Hy. fold (sort_by up_ts t) in Hy.
      assert (Ins : forall l0 z, In z (insert_by up_ts h l0) -> z = h \/ In z l0).
      { clear. induction l0 as [|a l0 IH0]; intros z Hz; cbn in Hz; [destruct Hz as [<-|[]]; now left|].
        destruct (up_ts h <? up_ts a)%Z; cbn in Hz; [destruct Hz as [<-|Hz]; [now left | now right]|].
        destruct Hz as [<-|Hz]; [right; now left|]. destruct (IH0 z Hz); [now left | right; now right]. }
      destruct (Ins _ _ Hy) as [->|Hy2]; [now left | right; now apply IH]. }
    apply Sub in Hin. apply filter_In in Hin. tauto.
  - (* CreateDownstreamMessage *)
    pose proof Fw as F. rewrite Forall_forall in F. pose proof (down_ok_eui m Ho) as Em.
    cbn [enc_store t_downs]. rewrite (ex_key enc_down _ (fun x => (dn_eui x =? dn_eui m) && (dn_created x =? dn_created m)%Z)).
    2:{ keyed F. f_equal. apply streq_eui; [|exact Em]. now apply down_ok_eui. }
    destruct (existsb _ (a_downs s)); cbn [fst snd]; [now split|]. split.
    + unfold st_downs, enc_store. cbn. now rewrite map_app.
    + split; cbn; try assumption. now apply Forall_app1.
  - (* DeleteDownstreamMessage *)
    pose proof Fw as F. rewrite Forall_forall in F. apply andb_true_iff in Ho. destruct Ho as [Ho Hc]. cbn [enc_store t_downs].
    assert (K0 : forall x, In x (a_downs s) ->
              (bytes_eqb (cw_eui (enc_down x)) (eui_str e) && (cw_created (enc_down x) =? created)%Z) = ((dn_eui x =? e) && (dn_created x =? created)%Z)).
    { keyed F. f_equal. apply streq_eui; [|exact Ho]. now apply down_ok_eui. }
    rewrite (ex_key enc_down _ (fun x => (dn_eui x =? e) && (dn_created x =? created)%Z)) by exact K0.
    destruct (existsb _ (a_downs s)); cbn [fst snd]; [|now split]. split.
    + unfold st_downs, enc_store. cbn. f_equal. f_equal. apply (filter_key enc_down). intros x Hx. now rewrite K0.
    + split; cbn; try assumption. now apply Forall_filter.
  - (* ListDownstreamMessages *)
    pose proof Fw as F. rewrite Forall_forall in F. cbn [enc_store t_downs fst snd]. split; [|exact Hok]. f_equal. f_equal.
    rewrite (filter_key enc_down _ (fun x => dn_eui x =? e)).
    2:{ keyed F. apply streq_eui; [|exact Ho]. now apply down_ok_eui. }
    rewrite (sort_key enc_down cw_created dn_created) by reflexivity. rewrite firstn_map, map_map.
    rewrite <- (map_id (firstn 100 _)) at 2. apply map_ext_in. intros x Hx.
    assert (E : dn_eui x = e).
    { apply firstn_In in Hx.
      assert (Sub : forall l y, In y (sort_by dn_created l) -> In y l).
      { clear. induction l as [|h t IH]; intros y Hy; [exact Hy|]. cbn [sort_by fold_right] in Hy. fold (sort_by dn_created t) in Hy.
        assert (Ins : forall l0 z, In z (insert_by dn_created h l0) -> z = h \/ In z l0).
        { clear. induction l0 as [|a l0 IH0]; intros z Hz; cbn in Hz; [destruct Hz as [<-|[]]; now left|].
          destruct (dn_created h <? dn_created a)%Z; cbn in Hz; [destruct Hz as [<-|Hz]; [now left | now right]|].
          destruct Hz as [<-|Hz]; [right; now left|]. destruct (IH0 z Hz); [now left | right; now right]. }
        destruct (Ins _ _ Hy) as [->|Hy2]; [now left | right; now apply IH]. }
      apply Sub in Hx. apply filter_In in Hx. destruct Hx as [_ Hx]. now apply N.eqb_eq in Hx. }
    subst e. apply dec_enc_down.
  - (* Reopen *)
    cbn. now split.
  - (* AdvanceFCntUp *)
    pose proof Fd as F. rewrite Forall_forall in F.
    apply andb_true_iff in Ho. destruct Ho as [Ho Hnf]. apply andb_true_iff in Ho. destruct Ho as [Ho Ha]. apply andb_true_iff in Ho. destruct Ho as [Ho Hkey].
    cbn [enc_store t_devs].
    assert (K : forall x, In x (a_devs s) ->
              ((cd_eui (enc_dev x) =? eui_to_int64 e)%Z && (cd_fup (enc_dev x) <=? accepted) && bytes_eqb (cd_nwkskey (enc_dev x)) (key_str key))
              = ((rd_eui x =? e) && (rd_fup x <=? accepted) && bytes_eqb (rd_nwkskey x) key)).
    { intros x Hx. f_equal; [f_equal|].
      - revert x Hx. keyed F. apply zeq_eui; [|exact Ho]. now apply dev_ok_eui.
      - apply keyeq_key; [|exact Hkey]. specialize (F x Hx). apply dev_ok_spec in F. tauto. }
    rewrite (ex_key enc_dev _ (fun x => (rd_eui x =? e) && (rd_fup x <=? accepted) && bytes_eqb (rd_nwkskey x) key)) by exact K.
    destruct (existsb _ (a_devs s)); cbn [fst snd]; [|now split]. split.
    + unfold st_devs, enc_store. cbn. f_equal. f_equal. apply (map_key enc_dev). intros x Hx. rewrite K by exact Hx.
      destruct ((rd_eui x =? e) && (rd_fup x <=? accepted) && bytes_eqb (rd_nwkskey x) key); reflexivity.
    + split; cbn; try assumption. apply Forall_map_if; [exact Fd|]. intros x Hx.
      apply dev_ok_spec in Hx. apply dev_ok_spec. unfold upd_dev_state. cbn. apply N.ltb_lt in Hnf. tauto.
  - (* NextFCntDn *)
    pose proof Fd as F. rewrite Forall_forall in F. apply andb_true_iff in Ho. destruct Ho as [Ho Hkey].
    change (t_devs (enc_store s)) with (map enc_dev (a_devs s)).
    assert (K : forall x, In x (a_devs s) ->
              ((cd_eui (enc_dev x) =? eui_to_int64 e)%Z && bytes_eqb (cd_nwkskey (enc_dev x)) (key_str key)) = ((rd_eui x =? e) && bytes_eqb (rd_nwkskey x) key)).
    { intros x Hx. f_equal.
      - revert x Hx. keyed F. apply zeq_eui; [|exact Ho]. now apply dev_ok_eui.
      - apply keyeq_key; [|exact Hkey]. specialize (F x Hx). apply dev_ok_spec in F. tauto. }
    rewrite (find_key enc_dev _ (fun x => (rd_eui x =? e) && bytes_eqb (rd_nwkskey x) key)) by exact K.
    destruct (find _ (a_devs s)) as [d|] eqn:E; cbn [option_map fst snd]; [|now split].
    apply find_some in E. destruct E as [E _]. pose proof (F d E) as Hd. apply dev_ok_spec in Hd.
    split.
    + f_equal.
      * unfold st_devs, enc_store. cbn. f_equal. f_equal. apply (map_key enc_dev). intros x Hx. rewrite K by exact Hx.
        destruct ((rd_eui x =? e) && bytes_eqb (rd_nwkskey x) key); reflexivity.
      * f_equal. unfold enc_dev. cbn [cd_fdn]. destruct Hd as (_ & _ & _ & _ & _ & _ & _ & _ & Hfd & _).
        assert (H1 : rd_fdn d < 65536) by exact Hfd. clear - H1. lia.
    + split; cbn; try assumption. apply Forall_map_if; [exact Fd|]. intros x Hx.
      apply dev_ok_spec in Hx. apply dev_ok_spec. unfold upd_dev_state. cbn.
      assert (Hm : (rd_fdn x + 1) mod 65536 < 65536) by (apply N.mod_upper_bound; lia). tauto.
  - (* SetMessageSentTime *)
    pose proof Fw as F. rewrite Forall_forall in F.
    apply andb_true_iff in Ho. destruct Ho as [Ho Hfc]. apply andb_true_iff in Ho. destruct Ho as [Ho Hs]. apply andb_true_iff in Ho. destruct Ho as [Ho Hc].
    cbn [enc_store t_downs].
    assert (K0 : forall x, In x (a_downs s) ->
              (bytes_eqb (cw_eui (enc_down x)) (eui_str e) && (cw_created (enc_down x) =? created)%Z) = ((dn_eui x =? e) && (dn_created x =? created)%Z)).
    { keyed F. f_equal. apply streq_eui; [|exact Ho]. now apply down_ok_eui. }
    rewrite (ex_key enc_down _ (fun x => (dn_eui x =? e) && (dn_created x =? created)%Z)) by exact K0.
    destruct (existsb _ (a_downs s)); cbn [fst snd]; [|now split]. split.
    + unfold st_downs, enc_store. cbn. f_equal. f_equal. apply (map_key enc_down). intros x Hx. rewrite K0 by exact Hx.
      destruct ((dn_eui x =? e) && (dn_created x =? created)%Z); reflexivity.
    + split; cbn; try assumption. apply Forall_map_if; [exact Fw|]. intros x Hx.
      apply down_ok_spec in Hx. apply down_ok_spec. unfold dn_times. cbn. apply N.ltb_lt in Hfc. tauto.
  - (* UpdateMessageAckTime *)
    pose proof Fw as F. rewrite Forall_forall in F.
    apply andb_true_iff in Ho. destruct Ho as [Ho Ha]. apply andb_true_iff in Ho. destruct Ho as [Ho Hfc].
    cbn [enc_store t_downs].
    assert (K0 : forall x, In x (a_downs s) ->
              (bytes_eqb (cw_eui (enc_down x)) (eui_str e) && (cw_fcnt (enc_down x) =? fc) && (0 <? cw_sent (enc_down x))%Z && (cw_acktime (enc_down x) =? 0)%Z)
              = ((dn_eui x =? e) && (dn_fcnt x =? fc) && (0 <? dn_sent x)%Z && (dn_acktime x =? 0)%Z)).
    { keyed F. f_equal. f_equal. f_equal. apply streq_eui; [|exact Ho]. now apply down_ok_eui. }
    rewrite (ex_key enc_down _ (fun x => (dn_eui x =? e) && (dn_fcnt x =? fc) && (0 <? dn_sent x)%Z && (dn_acktime x =? 0)%Z)) by exact K0.
    destruct (existsb _ (a_downs s)); cbn [fst snd]; [|now split]. split.
    + unfold st_downs, enc_store. cbn. f_equal. f_equal. apply (map_key enc_down). intros x Hx. rewrite K0 by exact Hx.
      destruct ((dn_eui x =? e) && (dn_fcnt x =? fc) && (0 <? dn_sent x)%Z && (dn_acktime x =? 0)%Z); reflexivity.
    + split; cbn; try assumption. apply Forall_map_if; [exact Fw|]. intros x Hx.
      apply down_ok_spec in Hx. apply down_ok_spec. unfold dn_times. cbn. tauto.
  - (* ResetActiveAcks *)
    pose proof Fw as F. rewrite Forall_forall in F. cbn [enc_store t_downs fst snd].
    assert (K0 : forall x, In x (a_downs s) ->
              (bytes_eqb (cw_eui (enc_down x)) (eui_str e) && (0 <? cw_sent (enc_down x))%Z && (cw_acktime (enc_down x) =? 0)%Z && cw_ack (enc_down x))
              = ((dn_eui x =? e) && (0 <? dn_sent x)%Z && (dn_acktime x =? 0)%Z && dn_ack x)).
    { keyed F. f_equal. f_equal. f_equal. apply streq_eui; [|exact Ho]. now apply down_ok_eui. }
    split.
    + unfold st_downs, enc_store. cbn. f_equal. f_equal. apply (map_key enc_down). intros x Hx. rewrite K0 by exact Hx.
      destruct ((dn_eui x =? e) && (0 <? dn_sent x)%Z && (dn_acktime x =? 0)%Z && dn_ack x); reflexivity.
    + split; cbn; try assumption. apply Forall_map_if; [exact Fw|]. intros x Hx.
      apply down_ok_spec in Hx. apply down_ok_spec. unfold dn_times. cbn [dn_eui dn_data dn_port dn_created dn_sent dn_acktime dn_fcnt]. destruct Hx as (A1 & A2 & A3 & A4 & A5 & A6 & A7). repeat split; auto; reflexivity.
  - (* GetNextUnsentMessage *)
    pose proof Fw as F. rewrite Forall_forall in F. cbn [enc_store t_downs fst snd]. split; [|exact Hok]. f_equal.
    rewrite (filter_key enc_down _ (fun x => (dn_eui x =? e) && (dn_sent x =? 0)%Z)).
    2:{ keyed F. f_equal. apply streq_eui; [|exact Ho]. now apply down_ok_eui. }
    rewrite (sort_key enc_down cw_created dn_created) by reflexivity.
    destruct (sort_by dn_created (filter (fun x => (dn_eui x =? e) && (dn_sent x =? 0)%Z) (a_downs s))) as [|m t] eqn:Es; cbn [map]; [reflexivity|].
    f_equal. f_equal.
    assert (Hin : In m (sort_by dn_created (filter (fun x => (dn_eui x =? e) && (dn_sent x =? 0)%Z) (a_downs s)))) by (rewrite Es; now left).
    assert (Sub : forall l y, In y (sort_by dn_created l) -> In y l).
    { clear. induction l as [|h t IH]; intros y Hy; [exact Hy|]. cbn [sort_by fold_right] in Hy. fold (sort_by dn_created t) in Hy.
      assert (Ins : forall l0 z, In z (insert_by dn_created h l0) -> z = h \/ In z l0).
      { clear. induction l0 as [|a l0 IH0]; intros z Hz; cbn in Hz; [destruct Hz as [<-|[]]; now left|].
        destruct (dn_created h <? dn_created a)%Z; cbn in Hz; [destruct Hz as [<-|Hz]; [now left | now right]|].
        destruct Hz as [<-|Hz]; [right; now left|]. destruct (IH0 z Hz); [now left | right; now right]. }
      destruct (Ins _ _ Hy) as [->|Hy2]; [now left | right; now apply IH]. }
    apply Sub in Hin. apply filter_In in Hin. destruct Hin as [_ Hin]. apply andb_true_iff in Hin. destruct Hin as [Hin _]. apply N.eqb_eq in Hin.
    subst e. apply dec_enc_down.
Qed.

Theorem refine_run : forall ops s, store_ok s -> forallb regop_ok ops = true ->
  c_run (enc_store s) ops = (enc_store (fst (a_run s ops)), snd (a_run s ops)) /\ store_ok (fst (a_run s ops)).
Proof.
  induction ops as [|o t IH]; intros s Hok Hops; [now split|].
  cbn [forallb] in Hops. apply andb_true_iff in Hops. destruct Hops as [Ho Ht].
  destruct (refine_step s o Hok Ho) as [E Hok1]. cbn [c_run a_run]. rewrite E.
  destruct (a_step s o) as [s1 r] eqn:E1. cbn [fst snd] in *.
  destruct (IH s1 Hok1 Ht) as [E2 Hok2]. rewrite E2. destruct (a_run s1 t) as [s2 rs]. cbn [fst snd] in *. now split.
Qed.
