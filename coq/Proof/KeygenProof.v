From Coq Require Import Sorted.
From Lospan Require Import Base.Bytes Gen.Consts Model.Keygen Proof.BitLemmas.
Open Scope N_scope.

(* obligation on the generated constant: the counter occupies the low 25 bits *)
Lemma max_id_fits : max_id < 2 ^ 25.
Proof. vm_compute. reflexivity. Qed.

Lemma lor_netid netid id : id < 2 ^ 25 -> N.lor (N.shiftl netid 25) (id mod 4294967296) = netid * 2 ^ 25 + id.
Proof.
  intros H. change (2 ^ 25) with 33554432 in H. rewrite N.mod_small by lia.
  rewrite N.shiftl_mul_pow2. now apply lor_disjoint.
Qed.

Definition ma_ok (ma_size netid : N) : Prop :=
  (ma_size = 24 /\ netid <= 32767) \/ (ma_size = 28 /\ netid <= 2047) \/ (ma_size = 36 /\ netid <= 7).

(* the guards of NewEUIKeyGenerator are these bounds (generated) *)
Lemma guards_are_bounds : netid_guards = [32767; 2047; 7] /\ c_MALarge = 24 /\ c_MAMedium = 28 /\ c_MASmall = 36.
Proof. vm_compute. repeat split. Qed.

Theorem eui_has_prefix_and_netid ma_size prefix64 netid id :
  ma_ok ma_size netid -> id < 2 ^ 25 ->
  eui_of ma_size prefix64 netid id / 2 ^ free_bits ma_size = prefix64 / 2 ^ free_bits ma_size /\
  (eui_of ma_size prefix64 netid id mod 2 ^ free_bits ma_size) / 2 ^ 25 = netid /\
  eui_of ma_size prefix64 netid id mod 2 ^ 25 = id.
Proof.
  intros Hma Hid. unfold eui_of, combine. rewrite lor_netid by exact Hid. change (2 ^ 25) with 33554432 in *.
  destruct Hma as [[-> Hn] | [[-> Hn] | [-> Hn]]]; unfold free_bits.
  - change (2 ^ (64 - 24)) with 1099511627776. set (p := prefix64 / 1099511627776).
    assert (Hx : netid * 33554432 + id < 1099511627776) by lia.
    rewrite (N.mod_small _ _ Hx). repeat split; lia.
  - change (2 ^ (64 - 28)) with 68719476736. set (p := prefix64 / 68719476736).
    assert (Hx : netid * 33554432 + id < 68719476736) by lia.
    rewrite (N.mod_small _ _ Hx). repeat split; lia.
  - change (2 ^ (64 - 36)) with 268435456. set (p := prefix64 / 268435456).
    assert (Hx : netid * 33554432 + id < 268435456) by lia.
    rewrite (N.mod_small _ _ Hx). repeat split; lia.
Qed.

Theorem eui_injective ma_size prefix64 netid id1 id2 :
  ma_ok ma_size netid -> id1 < 2 ^ 25 -> id2 < 2 ^ 25 ->
  eui_of ma_size prefix64 netid id1 = eui_of ma_size prefix64 netid id2 -> id1 = id2.
Proof.
  intros Hma H1 H2 He.
  destruct (eui_has_prefix_and_netid ma_size prefix64 netid id1 Hma H1) as (_ & _ & A).
  destruct (eui_has_prefix_and_netid ma_size prefix64 netid id2 Hma H2) as (_ & _ & B).
  rewrite He in A. congruence.
Qed.

(* ---------- the allocator never hands out an id twice ---------- *)
Definition dur_val (s : alloc) : N := match a_dur s with Some d => d | None => 1 end.
(* the ids still in memory are increasing, at least lb, and below the durable counter *)
Definition ainv (s : alloc) (lb : N) : Prop :=
  StronglySorted N.lt (a_blk s) /\ Forall (fun x => lb <= x /\ x < dur_val s) (a_blk s) /\ lb <= dur_val s.

Lemma nseq_props c n : StronglySorted N.lt (nseq c n) /\ Forall (fun x => c <= x /\ x < c + N.of_nat n) (nseq c n).
Proof.
  revert c; induction n as [|n IH]; intros c; cbn [nseq]; [split; constructor|].
  destruct (IH (c + 1)) as [S F]. split.
  - constructor; [exact S|]. eapply Forall_impl; [|exact F]. cbn beta. intros a Ha. lia.
  - constructor; [lia|]. eapply Forall_impl; [|exact F]. cbn beta. intros a Ha. lia.
Qed.

Lemma reserve_inv interval s lb : a_blk s = [] -> lb <= dur_val s -> ainv (reserve interval s) lb.
Proof.
  intros Hb Hl. unfold reserve, ainv, dur_val, first_free in *. cbn [a_dur a_blk].
  set (c := match a_dur s with Some d => d | None => 1 end) in *.
  destruct (nseq_props c (N.to_nat interval)) as [S F]. split; [exact S|]. split; [|lia].
  eapply Forall_impl; [|exact F]. cbn beta. intros a Ha. lia.
Qed.

Theorem issued_ids_increase interval : forall evs s lb, ainv s lb ->
  StronglySorted N.lt (arun interval s evs) /\ Forall (fun x => lb <= x) (arun interval s evs).
Proof.
  induction evs as [|ev t IH]; intros s lb Hinv; cbn [arun]; [split; constructor|].
  destruct ev as [ | | | | fn]; cbn [astep].
  - (* request *)
    assert (Hinv1 : ainv (match a_blk s with [] => reserve interval s | _ => s end) lb).
    { destruct (a_blk s) eqn:Eb; [apply reserve_inv; [exact Eb | exact (proj2 (proj2 Hinv))] | exact Hinv]. }
    set (s1 := match a_blk s with [] => reserve interval s | _ => s end) in *.
    destruct (a_blk s1) as [|id rest] eqn:E1.
    + apply IH. exact Hinv1.
    + destruct Hinv1 as (S1 & F1 & L1). rewrite E1 in S1, F1. inversion S1 as [|? ? Srest Hall]; subst. inversion F1 as [|? ? Hid Frest]; subst.
      assert (Hinv2 : ainv {| a_dur := a_dur s1; a_blk := rest |} (id + 1)).
      { unfold ainv, dur_val in *. cbn [a_dur a_blk]. split; [exact Srest|]. split; [|lia].
        rewrite Forall_forall in *. intros x Hx. specialize (Hall x Hx). specialize (Frest x Hx). lia. }
      destruct (IH _ _ Hinv2) as [I1 I2]. split.
      * constructor; [exact I1|]. eapply Forall_impl; [|exact I2]. cbn beta. intros a Ha. lia.
      * constructor; [lia|]. eapply Forall_impl; [|exact I2]. cbn beta. intros a Ha. lia.
  - apply IH. destruct Hinv as (_ & _ & L). unfold ainv, dur_val in *. cbn. repeat split; try constructor. exact L.
  - apply IH. destruct Hinv as (_ & _ & L). unfold ainv, dur_val in *. cbn. repeat split; try constructor. exact L.
  - apply IH. destruct Hinv as (_ & _ & L). unfold ainv, dur_val, first_free in *. cbn. repeat split; try constructor.
    destruct (a_dur s); lia.
  - apply IH. destruct Hinv as (S & F & L). unfold ainv, dur_val, first_free in *. cbn [a_dur a_blk]. split; [exact S|]. split.
    + eapply Forall_impl; [|exact F]. cbn beta. intros a Ha. destruct (a_dur s); lia.
    + destruct (a_dur s); lia.
Qed.

Lemma sorted_nodup l : StronglySorted N.lt l -> NoDup l.
Proof.
  induction 1 as [|a l S IH F]; constructor; [|exact IH]. intros Hin. rewrite Forall_forall in F. specialize (F a Hin). lia.
Qed.

(* from a fresh or any consistent store, over every history of requests, restarts and crashes before /
   after the commit of a reservation: the ids are pairwise distinct, and as long as exhaustion is not
   reported (id <= max_id < 2^25) so are the EUIs *)
Theorem issued_euis_distinct interval ma_size prefix64 netid evs s lb :
  ainv s lb -> ma_ok ma_size netid ->
  let ids := filter (fun id => negb (exhausted id)) (arun interval s evs) in
  NoDup (map (eui_of ma_size prefix64 netid) ids).
Proof.
  intros Hinv Hma ids. destruct (issued_ids_increase interval evs s lb Hinv) as [S _].
  assert (Hnd : NoDup ids).
  { apply sorted_nodup. unfold ids. clear - S. induction S as [|a l S IH F]; cbn [filter]; [constructor|].
    destruct (negb (exhausted a)); [|exact IH]. constructor; [exact IH|].
    rewrite Forall_forall in *. intros x Hx. apply filter_In in Hx. now apply F. }
  assert (Hlt : forall id, In id ids -> id < 2 ^ 25).
  { intros id Hin. unfold ids in Hin. apply filter_In in Hin. destruct Hin as [_ He]. unfold exhausted in He.
    apply negb_true_iff, N.ltb_ge in He. pose proof max_id_fits. lia. }
  clear S. induction Hnd as [|a l Ha Hl IH]; cbn [map]; [constructor|]. constructor.
  - intros Hin. apply in_map_iff in Hin. destruct Hin as (b & Eb & Hb).
    assert (b = a).
    { apply (eui_injective ma_size prefix64 netid); [exact Hma | apply Hlt; now right | apply Hlt; now left | exact Eb]. }
    subst b. contradiction.
  - apply IH. intros id Hid. apply Hlt. now right.
Qed.
