(* C17, pipeline side: whatever downlink answers a radio packet is handed on for the gateway that reported that packet,
   with that gateway's clock and context, and with the packet's radio parameters (data rate, channel, RF chain, frequency);
   and what is published or recorded about the packet carries that gateway and those parameters too. For every server
   state, every received packet, every cipher. *)
From Lospan Require Import Base.Bytes Base.Outcome Model.FrameTypes Model.Frame Model.Join Model.Store Model.Server.
Open Scope N_scope.

Section Radio.
  Variable E D : list N -> list N -> list N.

  Definition follows (rx : rxpacket) (o : out) : Prop :=
    match o with
    | ODown dl => dl_radio dl = rx_radio rx /\ dl_gw dl = rx_gw rx
    | OPub p => pb_radio p = rx_radio rx /\ pb_gw p = g_eui (rx_gw rx)
    end.

  Lemma encoder_data_follows st dev p rx created now : Forall (follows rx) (snd (encoder_data E st dev p rx created now)).
  Proof.
    unfold encoder_data. destruct (encode _); try (constructor; fail).
    destruct (l_next_fdn st (d_nwkskey dev)) as [st1 [c|]]; try (constructor; fail).
    destruct (encode_message _ _ _ _) as [buf| |]; try (constructor; fail). simpl.
    destruct (length buf =? 0)%nat; constructor; [split; reflexivity | constructor].
  Qed.

  Lemma encoder_join_follows st dev j rx : Forall (follows rx) (snd (encoder_join E D st dev j rx)).
  Proof.
    unfold encoder_join. destruct (l_update_device_state st _) as [st1 [e|]]; try (constructor; fail).
    destruct (encode_join_accept _ _ _ _ _ _); try (constructor; fail). constructor; [split; reflexivity | constructor].
  Qed.

  Lemma send_for_follows st dev rx created now : Forall (follows rx) (snd (send_for E D st dev rx created now)).
  Proof.
    unfold send_for. destruct (l_get_phy st _) as [st1 g]. destruct g; try (constructor; fail).
    destruct (po_mtype p =? JoinAccept).
    - destruct (po_ja p); apply encoder_join_follows.
    - destruct (mtype_uplink (po_mtype p) || (po_mtype p =? RFU) || (po_mtype p =? Proprietary)); [constructor | apply encoder_data_follows].
  Qed.

  Lemma process_message_follows apps st dev f rx n now : Forall (follows rx) (snd (process_message E D apps st dev f rx n now)).
  Proof.
    unfold process_message. destruct (stale dev f); [constructor|].
    destruct (pm_counter st dev f n) as [[st1 dev1]|]; [|constructor].
    destruct (l_create_upstream st1 _) as [st2 [e|]]; [constructor|].
    destruct (negb (has_app apps (d_appeui dev1))); [constructor|]. simpl.
    apply Forall_app. split; [apply send_for_follows|]. constructor; [split; reflexivity | constructor].
  Qed.

  Lemma uplink_data_follows s f rx now : Forall (follows rx) (snd (uplink_data E D s f rx now)).
  Proof.
    unfold uplink_data. destruct (length (rx_raw rx) <? _)%nat; [constructor|].
    set (l := filter _ _). generalize (length l). intro n.
    assert (H : Forall (follows rx) (snd (s, @nil out))) by constructor. revert H. generalize (s, @nil out).
    induction l as [|dv l IH]; intros acc H; simpl; [exact H|].
    apply IH. destruct (process_message E D (s_apps s) (dt_get (s_tab (fst acc)) (d_eui dv)) dv f rx n now) as [st' o1] eqn:Hp. simpl.
    apply Forall_app. split; [exact H|]. pose proof (process_message_follows (s_apps s) (dt_get (s_tab (fst acc)) (d_eui dv)) dv f rx n now) as X.
    rewrite Hp in X. exact X.
  Qed.

  Lemma join_local_follows cfg apps st f rx an na : Forall (follows rx) (snd (join_local E D cfg apps st f rx an na)).
  Proof.
    unfold join_local. destruct (ds_row st); [|constructor].
    repeat match goal with |- context [if ?b then (st, @nil out) else _] => destruct b; [constructor|] end.
    destruct (if cfg_disable_nonce_check cfg then _ else _) as [st1 [e|]]; [constructor|].
    destruct (l_update_device st1 _) as [st2 [e|]]; [constructor|]. apply send_for_follows.
  Qed.

  Theorem downlinks_follow_the_uplink : forall s rx an na now, Forall (follows rx) (snd (rx_event E D s rx an na now)).
  Proof.
    intros. unfold rx_event. destruct (decode _) as [f| |]; try (constructor; fail).
    destruct (mtype f =? JoinRequest).
    - unfold join_request. destruct (negb (length (rx_raw rx) =? 23)%nat); [constructor|].
      destruct (join_local E D (s_cfg s) (s_apps s) (dt_get (s_tab s) (jr_deveui (jr f))) f rx an na) as [st' outs] eqn:Hj.
      destruct (ds_row _); [|constructor]. simpl.
      pose proof (join_local_follows (s_cfg s) (s_apps s) (dt_get (s_tab s) (jr_deveui (jr f))) f rx an na) as X. rewrite Hj in X. exact X.
    - destruct ((mtype f =? UnconfirmedDataUp) || (mtype f =? ConfirmedDataUp)); [apply uplink_data_follows | constructor].
  Qed.
End Radio.
