(* The global step of the server model (Model/Server.v rx_event, the function the history correspondence
   runs against the real pipeline) is, for a frame one device authenticates, exactly the per-device step the
   theorems of C03/C06-C10 are about (l_uplink, join_local), applied to that device's share of the store. *)
From Coq Require Import String.
From Lospan Require Import Base.Bytes Base.Outcome Model.FrameTypes Model.Crypto Gen.Consts Model.Frame Model.Join Model.Store
  Model.Server Proof.BitLemmas Proof.ServerProof Proof.LocalProof.
Open Scope N_scope.

(* the table is keyed by EUI: keys are distinct and a row sits under its own EUI *)
Definition tab_wf (t : dtab) : Prop :=
  NoDup (map fst t) /\ forall e st r, In (e, st) t -> ds_row st = Some r -> d_eui r = e.

Lemma dt_get_in t e st : NoDup (map fst t) -> In (e, st) t -> dt_get t e = st.
Proof.
  induction t as [|[k x] r IH]; intros Hn Hin; [contradiction|]. cbn [map fst] in Hn. inversion Hn as [|? ? Hk Hr]; subst.
  cbn [dt_get]. destruct Hin as [[= <- <-] | Hin]; [now rewrite N.eqb_refl|].
  destruct (N.eqb_spec k e) as [->|_]; [|now apply IH].
  exfalso. apply Hk. apply in_map_iff. exists (e, st). now split.
Qed.

Lemma dt_by_devaddr_shape t a dv : tab_wf t -> In dv (dt_by_devaddr t a) ->
  exists r, ds_row (dt_get t (d_eui dv)) = Some r /\ dv = load (dt_get t (d_eui dv)) r.
Proof.
  intros [Hn Hk]. unfold dt_by_devaddr. rewrite in_flat_map. intros ([e st] & Hin & Hx). cbn [snd] in Hx.
  destruct (ds_row st) as [r|] eqn:Er; [|contradiction]. destruct (d_addr r =? a); [|contradiction]. destruct Hx as [<-|[]].
  cbn [load d_eui]. rewrite (Hk e st r Hin Er). rewrite (dt_get_in t e st Hn Hin). exists r. now split.
Qed.

Section Projection.
  Variable E D : list N -> list N -> list N.

  (* a data frame that exactly one stored device authenticates *)
  Theorem uplink_is_the_device_step s f rx now dv :
    tab_wf (s_tab s) -> (N.to_nat c_MinimumMessageSize <= length (rx_raw rx))%nat ->
    filter (mic_ok E f (rx_raw rx)) (dt_by_devaddr (s_tab s) (devaddr_u32 (f_devaddr f))) = [dv] ->
    let st := dt_get (s_tab s) (d_eui dv) in
    uplink_data E D s f rx now
    = (with_tab s (dt_put (s_tab s) (d_eui dv) (fst (l_uplink E D (s_apps s) st f rx 1 now))), snd (l_uplink E D (s_apps s) st f rx 1 now)).
  Proof.
    intros Hwf Hlen Hm st. unfold uplink_data.
    destruct (length (rx_raw rx) <? N.to_nat c_MinimumMessageSize)%nat eqn:El; [apply Nat.ltb_lt in El; lia|].
    rewrite Hm. cbn [fold_left length fst snd app].
    assert (Hin : In dv (dt_by_devaddr (s_tab s) (devaddr_u32 (f_devaddr f)))).
    { assert (H : In dv (filter (mic_ok E f (rx_raw rx)) (dt_by_devaddr (s_tab s) (devaddr_u32 (f_devaddr f))))) by (rewrite Hm; now left).
      apply filter_In in H. tauto. }
    destruct (dt_by_devaddr_shape _ _ _ Hwf Hin) as (r & Hr & Hdv).
    unfold l_uplink. fold st. fold st in Hr, Hdv. rewrite Hr. rewrite <- Hdv.
    destruct (process_message E D (s_apps s) st dv f rx 1 now) as [st' o1]. reflexivity.
  Qed.

  (* a frame no stored device authenticates changes nothing *)
  Theorem unauthenticated_uplink_is_no_step s f rx now :
    filter (mic_ok E f (rx_raw rx)) (dt_by_devaddr (s_tab s) (devaddr_u32 (f_devaddr f))) = [] ->
    uplink_data E D s f rx now = (s, []).
  Proof.
    intros Hm. unfold uplink_data. destruct (_ <? _)%nat; [reflexivity|]. rewrite Hm. reflexivity.
  Qed.

  (* a join-request is the named device's join step (by definition of the model) *)
  Theorem join_is_the_device_step s f rx an na r :
    length (rx_raw rx) = 23%nat -> ds_row (dt_get (s_tab s) (jr_deveui (jr f))) = Some r ->
    let eui := jr_deveui (jr f) in
    join_request E D s f rx an na
    = (with_tab s (dt_put (s_tab s) eui (fst (join_local E D (s_cfg s) (s_apps s) (dt_get (s_tab s) eui) f rx an na))),
       snd (join_local E D (s_cfg s) (s_apps s) (dt_get (s_tab s) eui) f rx an na)).
  Proof.
    intros Hl Hr eui. unfold join_request. rewrite Hl. cbn [Nat.eqb negb]. fold eui. fold eui in Hr.
    destruct (join_local E D (s_cfg s) (s_apps s) (dt_get (s_tab s) eui) f rx an na) as [st' outs]. now rewrite Hr.
  Qed.

  (* the table stays keyed by EUI: a put under an existing or new key keeps keys distinct, and a handler never
     changes the EUI of the row it works on *)
  Lemma dt_put_keys t e st : map fst (dt_put t e st) = if existsb (fun k => k =? e) (map fst t) then map fst t else map fst t ++ [e].
  Proof.
    induction t as [|[k x] r IH]; cbn [dt_put map fst existsb]; [reflexivity|].
    destruct (k =? e) eqn:Ek; cbn [map fst orb]; [reflexivity|]. rewrite IH. now destruct (existsb _ (map fst r)).
  Qed.
  Lemma dt_put_in t e st e' st' : In (e', st') (dt_put t e st) -> (e' = e /\ st' = st) \/ In (e', st') t.
  Proof.
    induction t as [|[k x] r IH]; cbn [dt_put]; intros H.
    - destruct H as [[= <- <-]|[]]. now left.
    - destruct (k =? e) eqn:Ek.
      + apply N.eqb_eq in Ek. subst k. destruct H as [[= <- <-] | H]; [now left | right; now right].
      + destruct H as [[= <- <-] | H]; [right; now left|]. destruct (IH H) as [L | R]; [now left | right; now right].
  Qed.
  Theorem tab_wf_put t e st : tab_wf t -> (forall r, ds_row st = Some r -> d_eui r = e) -> tab_wf (dt_put t e st).
  Proof.
    intros [Hn Hk] Hst. split.
    - rewrite dt_put_keys. destruct (existsb (fun k => k =? e) (map fst t)) eqn:Ex; [exact Hn|].
      (* keys ++ [e] has no duplicates because e is not among the keys *)
      assert (Hnot : ~ In e (map fst t)).
      { intros Hin. assert (existsb (fun k => k =? e) (map fst t) = true) by (apply existsb_exists; exists e; split; [exact Hin | apply N.eqb_refl]). congruence. }
      clear - Hn Hnot. induction (map fst t) as [|a l IH]; cbn; [constructor; [intros []|constructor]|].
      inversion Hn as [|? ? Ha Hl]; subst. constructor.
      + rewrite in_app_iff. cbn. intros [H|[H|[]]]; [contradiction | subst; apply Hnot; now left].
      + apply IH; [exact Hl | intros H; apply Hnot; now right].
    - intros e' st' r Hin Hr. destruct (dt_put_in _ _ _ _ _ Hin) as [[-> ->] | Hold]; [now apply Hst | now apply (Hk e' st' r)].
  Qed.
End Projection.
