(* Shared arithmetic facts about masks, shifts and byte lists. *)
From Lospan Require Import Base.Bytes.
From Coq Require Export ZifyNat ZifyN ZifyBool.
Ltac Zify.zify_post_hook ::= Z.div_mod_to_equations.
Open Scope N_scope.

Definition nrange (n : nat) : list N := map N.of_nat (seq 0 n).
Lemma nrange_complete n b : b < N.of_nat n -> In b (nrange n).
Proof.
  intros H. unfold nrange. apply in_map_iff. exists (N.to_nat b). split; [lia|]. apply in_seq. lia.
Qed.
Lemma sweep1 (P : N -> bool) n : forallb P (nrange n) = true -> forall b, b < N.of_nat n -> P b = true.
Proof. intros H b Hb. rewrite forallb_forall in H. apply H. now apply nrange_complete. Qed.
Lemma sweep2 (P : N -> N -> bool) n m :
  forallb (fun a => forallb (P a) (nrange m)) (nrange n) = true ->
  forall a b, a < N.of_nat n -> b < N.of_nat m -> P a b = true.
Proof.
  intros H a b Ha Hb. rewrite forallb_forall in H. specialize (H a (nrange_complete n a Ha)).
  rewrite forallb_forall in H. apply H. now apply nrange_complete.
Qed.

Lemma land_ones_small x k : x < 2 ^ k -> N.land x (N.ones k) = x.
Proof. intros H. rewrite N.land_ones. now apply N.mod_small. Qed.
Lemma land_255 x : N.land x 255 = x mod 256.
Proof. change 255 with (N.ones 8). now rewrite N.land_ones. Qed.
Lemma land_15 x : N.land x 15 = x mod 16.
Proof. change 15 with (N.ones 4). now rewrite N.land_ones. Qed.
Lemma land_7 x : N.land x 7 = x mod 8.
Proof. change 7 with (N.ones 3). now rewrite N.land_ones. Qed.
Lemma land_63 x : N.land x 63 = x mod 64.
Proof. change 63 with (N.ones 6). now rewrite N.land_ones. Qed.
Lemma land_16777215 x : N.land x 16777215 = x mod 16777216.
Proof. change 16777215 with (N.ones 24). now rewrite N.land_ones. Qed.
Lemma land_ff00 x : N.shiftr (N.land x 65280) 8 = (x / 256) mod 256.
Proof.
  rewrite N.shiftr_land. change (N.shiftr 65280 8) with 255.
  rewrite land_255, N.shiftr_div_pow2. reflexivity.
Qed.
Lemma land_ff0000 x : N.shiftr (N.land x 16711680) 16 = (x / 65536) mod 256.
Proof.
  rewrite N.shiftr_land. change (N.shiftr 16711680 16) with 255.
  rewrite land_255, N.shiftr_div_pow2. reflexivity.
Qed.
Lemma shiftl_mul x k : N.shiftl x k = x * 2 ^ k.
Proof. apply N.shiftl_mul_pow2. Qed.

(* facts about one byte, by exhaustive evaluation *)
Definition byte_facts_b (b : N) : bool :=
  (N.shiftr (N.land b 240) 4 =? b / 16) && (N.shiftr (N.land b 112) 4 =? (b / 16) mod 8) &&
  (N.land b 15 =? b mod 16) &&
  ((if N.land b 4 =? 0 then 0 else 1) =? (b / 4) mod 2) &&
  ((if N.land b 2 =? 0 then 0 else 1) =? (b / 2) mod 2) &&
  ((if N.land b 1 =? 0 then 0 else 1) =? b mod 2) &&
  (N.land (N.shiftl b 4) 255 =? (16 * b) mod 256).
Lemma byte_facts_sweep : forallb byte_facts_b (nrange 256) = true.
Proof. vm_compute. reflexivity. Qed.
Lemma byte_facts b : b < 256 ->
  N.shiftr (N.land b 240) 4 = b / 16 /\ N.shiftr (N.land b 112) 4 = (b / 16) mod 8 /\
  N.land b 15 = b mod 16 /\
  (if N.land b 4 =? 0 then 0 else 1) = (b / 4) mod 2 /\
  (if N.land b 2 =? 0 then 0 else 1) = (b / 2) mod 2 /\
  (if N.land b 1 =? 0 then 0 else 1) = b mod 2 /\
  N.land (N.shiftl b 4) 255 = (16 * b) mod 256.
Proof.
  intros H. pose proof (sweep1 byte_facts_b 256 byte_facts_sweep b H) as S.
  unfold byte_facts_b in S. rewrite !andb_true_iff, !N.eqb_eq in S. tauto.
Qed.

(* (hi << 4) | lo for a high part that is a multiple of 16 below 256 and a low nibble *)
Definition lor_nib_b (a b : N) : bool := N.lor (16 * a) b =? 16 * a + b.
Lemma lor_nib_sweep : forallb (fun a => forallb (lor_nib_b a) (nrange 16)) (nrange 16) = true.
Proof. vm_compute. reflexivity. Qed.
Lemma lor_nib a b : a < 16 -> b < 16 -> N.lor (16 * a) b = 16 * a + b.
Proof. intros Ha Hb. apply N.eqb_eq. exact (sweep2 lor_nib_b 16 16 lor_nib_sweep a b Ha Hb). Qed.

Lemma bit_cases x : x < 2 -> x = 0 \/ x = 1.
Proof. lia. Qed.

Lemma skipn_skipn {A} (x y : nat) (l : list A) : skipn x (skipn y l) = skipn (x + y) l.
Proof.
  revert l; induction y as [|y IH]; intros l; [now rewrite Nat.add_0_r|].
  destruct l as [|h t]; [now rewrite !skipn_nil|].
  replace (x + S y)%nat with (S (x + y)) by lia. cbn [skipn]. apply IH.
Qed.

(* more facts about one byte: MHDR and FCtrl bits *)
Definition byte_facts2_b (b : N) : bool :=
  (N.shiftr (N.land b 224) 5 =? b / 32) && (N.land b 3 =? b mod 4) &&
  Bool.eqb (negb (N.land b 128 =? 0)) ((b / 128) mod 2 =? 1) &&
  Bool.eqb (negb (N.land b 64 =? 0)) ((b / 64) mod 2 =? 1) &&
  Bool.eqb (negb (N.land b 32 =? 0)) ((b / 32) mod 2 =? 1) &&
  Bool.eqb (negb (N.land b 16 =? 0)) ((b / 16) mod 2 =? 1).
Lemma byte_facts2_sweep : forallb byte_facts2_b (nrange 256) = true.
Proof. vm_compute. reflexivity. Qed.
Lemma byte_facts2 b : b < 256 ->
  N.shiftr (N.land b 224) 5 = b / 32 /\ N.land b 3 = b mod 4 /\
  negb (N.land b 128 =? 0) = ((b / 128) mod 2 =? 1) /\
  negb (N.land b 64 =? 0) = ((b / 64) mod 2 =? 1) /\
  negb (N.land b 32 =? 0) = ((b / 32) mod 2 =? 1) /\
  negb (N.land b 16 =? 0) = ((b / 16) mod 2 =? 1).
Proof.
  intros H. pose proof (sweep1 byte_facts2_b 256 byte_facts2_sweep b H) as S.
  unfold byte_facts2_b in S. rewrite !andb_true_iff, !N.eqb_eq in S.
  repeat match type of S with _ /\ _ => destruct S as [S ?] end.
  repeat match goal with H : Bool.eqb _ _ = true |- _ => apply Bool.eqb_prop in H end.
  tauto.
Qed.

(* (hi << k) | lo with lo below 2^k is hi * 2^k + lo *)
Lemma lor_disjoint hi lo k : lo < 2 ^ k -> N.lor (hi * 2 ^ k) lo = hi * 2 ^ k + lo.
Proof.
  intros Hlo. apply N.bits_inj_iff. intros n. rewrite N.lor_spec.
  assert (Hp : 2 ^ k <> 0) by (apply N.pow_nonzero; discriminate).
  destruct (N.lt_ge_cases n k) as [Hn|Hn].
  - rewrite N.mul_pow2_bits_low by exact Hn. cbn [orb].
    rewrite <- (N.mod_pow2_bits_low (hi * 2 ^ k + lo) k n Hn).
    rewrite N.add_comm, N.mod_add by exact Hp. now rewrite N.mod_small.
  - replace n with ((n - k) + k) by lia.
    rewrite <- !N.div_pow2_bits.
    rewrite N.div_mul by exact Hp.
    rewrite (N.div_small lo) by exact Hlo. rewrite N.bits_0, orb_false_r.
    rewrite N.add_comm, N.div_add by exact Hp. rewrite (N.div_small lo) by exact Hlo. reflexivity.
Qed.
Lemma land_127 x : N.land x 127 = x mod 128.
Proof. change 127 with (N.ones 7). now rewrite N.land_ones. Qed.
Lemma land_33554431 x : N.land x 33554431 = x mod 33554432.
Proof. change 33554431 with (N.ones 25). now rewrite N.land_ones. Qed.
Lemma land_4294967295 x : N.land x 4294967295 = x mod 4294967296.
Proof. change 4294967295 with (N.ones 32). now rewrite N.land_ones. Qed.
