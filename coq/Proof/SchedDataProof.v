(* Every interleaving of uplink handlers of one device (Model/Steps.v interleaveN, interleave): the concurrent
   clauses of C03, C07 and C09. The handlers advance the uplink counter with one compare-and-store statement
   (AdvanceFCntUp) and take the downlink counter with one fetch-and-increment statement (NextFCntDn); the
   theorems below hold for EVERY schedule, every number of handlers and every length of run. *)
From Coq Require Import String Permutation.
From Lospan Require Import Base.Bytes Base.Outcome Model.CMAC Model.FrameTypes Model.Crypto Gen.Consts Model.MacCmd
  Model.Frame Model.Join Model.Store Model.Server Model.Steps Proof.BitLemmas Proof.CMACProof Proof.EncodableProof
  Proof.LocalProof Proof.StepsProof Proof.SchedProof.
Open Scope N_scope.

(* ---------- lists updated at one position ---------- *)
Fixpoint upd {A} (i : nat) (x : A) (l : list A) : list A :=
  match l, i with
  | [], _ => []
  | _ :: t, O => x :: t
  | h :: t, S j => h :: upd j x t
  end.
Lemma replace_nth_upd i p : forall ps, replace_nth i p ps = upd i p ps.
Proof. induction i as [|i IH]; intros [|h t]; cbn; try reflexivity. now rewrite IH. Qed.
Lemma Forall2_upd {A B} (R : A -> B -> Prop) x y : forall i l1 l2, Forall2 R l1 l2 -> R x y -> Forall2 R (upd i x l1) (upd i y l2).
Proof.
  induction i as [|i IH]; intros l1 l2 H Hxy; destruct H as [|a b l1 l2 Hab H]; cbn; try constructor; auto.
Qed.
Lemma Forall2_nth {A B} (R : A -> B -> Prop) : forall i l1 l2 y, Forall2 R l1 l2 -> nth_error l2 i = Some y ->
  exists x, nth_error l1 i = Some x /\ R x y.
Proof.
  induction i as [|i IH]; intros l1 l2 y H Hy; destruct H as [|a b l1 l2 Hab H]; cbn in *; try discriminate.
  - injection Hy as <-. eauto.
  - eapply IH; eauto.
Qed.

Lemma NoDup_app_l {A} (l l' : list A) : NoDup (l ++ l') -> NoDup l.
Proof.
  induction l as [|a l IH]; cbn; intros H; [constructor|]. inversion H as [|? ? Hn Hd]; subst. constructor; [|now apply IH].
  intros Hin. apply Hn. apply in_or_app. now left.
Qed.
Lemma Perm_Forall {A} (P : A -> Prop) l l' : Permutation l l' -> Forall P l -> Forall P l'.
Proof. intros Hp H. rewrite Forall_forall in *. intros x Hx. apply H. eapply Permutation_in; [apply Permutation_sym; exact Hp | exact Hx]. Qed.

(* ---------- what the operations of a data handler do ---------- *)
(* what an operation can return in a state whose buffer entry is a data entry *)
Definition res_ok (o : sop) (r : sres) : Prop :=
  match o, r with
  | SGetPhy _, XPhy (GetOk p) => down_type (po_mtype p)
  | _, _ => True
  end.

Lemma get_phy_type st d st' p : fb_down st -> l_get_phy st d = (st', GetOk p) -> down_type (po_mtype p).
Proof.
  intros Hfb Eg. unfold l_get_phy, fb_down in *. destruct (ds_fb st) as [fd|]; [|discriminate].
  destruct (_ && _ && _); [discriminate|]. destruct (0 <? _)%nat.
  - destruct (max_payload _); [|discriminate]. destruct (_ <? _)%nat; injection Eg as _ <-; exact Hfb.
  - injection Eg as _ <-. exact Hfb.
Qed.

Lemma benign_exec apps st o : benign o = true -> fb_down st ->
  let '(st', r, e) := exec apps st o in
  e = [] /\ res_ok o r /\ fb_down st' /\ ds_row st' = ds_row st /\ ds_inbox st' = ds_inbox st.
Proof.
  intros Hb Hfb. destruct o; try discriminate; cbn [exec]; try (now repeat split).
  - (* SSetAckFlag *) repeat split. unfold fb_down, l_set_ack_flag in *. cbn. destruct (ds_fb st); cbn; [exact Hfb | now left].
  - (* SSetPayload *) repeat split. unfold fb_down, l_set_payload. cbn. destruct ack; [now right | now left].
  - (* SGetPhy *) destruct (l_get_phy st datr) as [st' g] eqn:Eg.
    pose proof (fb_down_get_phy st datr Hfb) as F. destruct (rest_get_phy st datr) as (A & B & _). rewrite Eg in *. cbn [fst] in *.
    repeat split; auto. destruct g; cbn; auto. exact (get_phy_type st datr st' p Hfb Eg).
Qed.

Lemma create_upstream_exec st m :
  let '(st', e) := l_create_upstream st m in
  ds_row st' = ds_row st /\ ds_fb st' = ds_fb st /\ (length (ds_inbox st') <= S (length (ds_inbox st)))%nat.
Proof.
  unfold l_create_upstream. destruct (existsb _ _); cbn; repeat split; auto. rewrite app_length. cbn. lia.
Qed.

(* the FCnt field of a raw data frame *)
Definition down_fcnt (d : downlink) : N := le_val (firstn 2 (skipn 6 (dl_raw d))).
Definition counters (outs : list out) : list N := map down_fcnt (downs outs).
Lemma counters_app a b : counters (a ++ b) = counters a ++ counters b.
Proof. unfold counters. now rewrite downs_app, map_app. Qed.

Lemma encode_fcnt f buf : encode f = Ok buf -> le_val (firstn 2 (skipn 6 buf)) = fcnt f mod 65536.
Proof.
  unfold encode. destruct (_ || _ || _); [discriminate|]. destruct (15 <? _); [discriminate|].
  destruct (set_encode _ _ _) as [fo| |]; cbn [bind]; try discriminate.
  destruct (223 <? _); [discriminate|]. destruct (_ && _); [discriminate|].
  match goal with |- (do body <- ?b; _) = _ -> _ => destruct b as [body| |] end; cbn [bind]; try discriminate.
  destruct (_ <? _)%nat; [discriminate|]. intros [= <-].
  cbn [le_bytes app skipn firstn le_val].
  pose proof (N.mod_upper_bound (fcnt f) 256). pose proof (N.mod_upper_bound (fcnt f / 256) 256). lia.
Qed.

Lemma encode_message_fcnt E nk ak f buf : encode_message E nk ak f = Ok buf -> le_val (firstn 2 (skipn 6 buf)) = fcnt f mod 65536.
Proof.
  unfold encode_message. destruct (encode _) as [b1| |]; cbn [bind]; try discriminate.
  destruct (_ <? _)%nat; [discriminate|]. intros H. apply encode_fcnt in H. exact H.
Qed.

(* ====================================================================================================== *)
(* C03 / C09: any number of handlers working on frames that carry one and the same counter (in particular
   copies of one uplink received through several gateways) of a strict-counter device, EVERY schedule: at most
   one of them records the frame and at most one answer leaves. *)
Section Copies.
  Variable E D : list N -> list N -> list N.
  Variable apps : list N.
  Variable c : N.                       (* the frame counter the copies carry *)
  Hypothesis Hc : c < 65535.
  Variable inbox0 : nat.                (* rows in the inbox before any of the handlers ran *)

  Definition past (st : dstate) : Prop := match ds_row st with Some r => c < d_fup r | None => True end.
  Definition strict (st : dstate) : Prop := match ds_row st with Some r => d_relaxed r = false | None => True end.

  (* records at most i rows and emits at most k frames; otherwise only reads, buffer and queue bookkeeping
     and the reservation of a downlink counter *)
  Inductive lim : nat -> nat -> prog -> Prop :=
  | L_halt i k o : downs o = [] -> lim i k (Halt o)
  | L_emit i k d c' kk : (forall r, lim i k (kk r)) -> lim i (S k) (Do (SEmit d c') kk)
  | L_ins i k m kk : (forall r, lim i k (kk r)) -> lim (S i) k (Do (SCreateUpstream m) kk)
  | L_quiet i k o kk : (benign o = true \/ exists key, o = SNextDn key) -> (forall r, res_ok o r -> lim i k (kk r)) -> lim i k (Do o kk).
  (* has not advanced the stored counter yet: reads the row, stops unless the compare-and-store succeeds *)
  Inductive prew : prog -> Prop :=
  | W_halt o : downs o = [] -> prew (Halt o)
  | W_row kk : (forall dev, d_relaxed dev = false -> prew (kk (XRow (Some dev)))) -> prew (kk (XRow None)) -> prew (Do SGetRow kk)
  | W_cas key kw kk : (forall e, prew (kk (XErr (Some e)))) -> lim 1 1 (kk (XErr None)) -> prew (Do (SAdvanceUp key c ((c + 1) mod 65536) kw) kk).

  Lemma step_prew st o kk : prew (Do o kk) -> fb_down st -> strict st ->
    let '(st', r, e) := exec apps st o in
    e = [] /\ ds_inbox st' = ds_inbox st /\ fb_down st' /\ strict st' /\
    ((prew (kk r) /\ (past st -> past st')) \/ (past st' /\ lim 1 1 (kk r) /\ ~ past st)).
  Proof.
    intros H Hfb Hs. inversion H as [| kk' Hsome Hnone | key kw kk' Hf Hok]; subst.
    - cbn [exec]. repeat split; auto. left. split; [|auto]. unfold strict in Hs. destruct (ds_row st) as [r|]; [apply Hsome; exact Hs | exact Hnone].
    - cbn [exec]. destruct (l_advance_fup st key c ((c + 1) mod 65536) kw) as [st' [e|]] eqn:U.
      + apply adv_fail in U. destruct U as [-> ->]. repeat split; auto.
      + pose proof U as U'. apply adv_row in U. destruct U as (r & R0 & Hle & R1 & R2 & R3 & R4 & R5).
        split; [reflexivity|]. split; [exact R2|]. split; [unfold fb_down in *; now rewrite R5|].
        split; [unfold strict in *; rewrite R1; rewrite R0 in Hs; exact Hs|].
        right. split; [unfold past; rewrite R1; cbn [d_fup]; rewrite N.mod_small by lia; lia|].
        split; [exact Hok|]. unfold past. rewrite R0. lia.
  Qed.
  (* a handler whose compare-and-store comes after another's has succeeded: it fails *)
  Lemma step_prew_past st o kk : prew (Do o kk) -> fb_down st -> strict st -> past st ->
    let '(st', r, e) := exec apps st o in
    e = [] /\ ds_inbox st' = ds_inbox st /\ fb_down st' /\ strict st' /\ prew (kk r) /\ past st'.
  Proof.
    intros H Hfb Hs Hp. pose proof (step_prew st o kk H Hfb Hs) as S. destruct (exec apps st o) as [[st' r] e].
    destruct S as (A & B & C & Dd & [[W P] | (_ & _ & Hn)]); [|contradiction]. repeat split; auto.
  Qed.

  Lemma next_fdn_exec st key : fb_down st -> strict st -> past st ->
    let '(st', cn) := l_next_fdn st key in
    fb_down st' /\ strict st' /\ past st' /\ ds_inbox st' = ds_inbox st.
  Proof.
    intros Hfb Hs Hp. destruct (l_next_fdn st key) as [st' [cn|]] eqn:U.
    - apply next_row in U. destruct U as (r & R0 & _ & R1 & R2 & R3 & R4 & R5).
      unfold fb_down, strict, past in *. rewrite R1, R5. rewrite R0 in Hs, Hp. cbn. auto.
    - apply next_none in U. destruct U as [-> _]. auto.
  Qed.

  Lemma step_lim st o kk i k : lim i k (Do o kk) -> fb_down st -> strict st -> past st ->
    let '(st', r, e) := exec apps st o in
    fb_down st' /\ strict st' /\ past st' /\
    exists i' k', lim i' k' (kk r) /\ (length (ds_inbox st') + i' <= length (ds_inbox st) + i)%nat /\ (length (downs e) + k' <= k)%nat.
  Proof.
    intros H Hfb Hs Hp. inversion H as [| i0 k0 d c' kk' Hk | i0 k0 m kk' Hk | i0 k0 o' kk' Ho Hk]; subst.
    - cbn [exec]. repeat split; auto. exists i, k0. split; [apply Hk|]. cbn. lia.
    - cbn [exec]. pose proof (create_upstream_exec st m) as U. destruct (l_create_upstream st m) as [st' e]. destruct U as (R & F & L).
      split; [unfold fb_down in *; now rewrite F|]. split; [unfold strict in *; now rewrite R|]. split; [unfold past in *; now rewrite R|].
      exists i0, k. split; [apply Hk|]. cbn. lia.
    - destruct Ho as [Hb | [key ->]].
      + pose proof (benign_exec apps st o Hb Hfb) as B. destruct (exec apps st o) as [[st' r] e]. destruct B as (-> & Hr & F & R & I).
        split; [exact F|]. split; [unfold strict in *; now rewrite R|]. split; [unfold past in *; now rewrite R|].
        exists i, k. split; [now apply Hk|]. rewrite I. cbn. lia.
      + cbn [exec]. pose proof (next_fdn_exec st key Hfb Hs Hp) as U. destruct (l_next_fdn st key) as [st' cn]. destruct U as (F & S' & P & I).
        repeat split; auto. exists i, k. split; [apply Hk; exact I0 || (cbn; exact Logic.I)|]. rewrite I. cbn. lia.
  Qed.

  Lemma lim_halt i k p : lim i k p -> harmless_halt p.
  Proof. destruct 1; cbn; auto. Qed.
  Lemma prew_halt p : prew p -> harmless_halt p.
  Proof. destruct 1; cbn; auto. Qed.

  (* the situation at any point of any interleaving *)
  Definition cinv (st : dstate) (ps : list prog) (acc : list out) : Prop :=
    fb_down st /\ strict st /\
    ((Forall prew ps /\ (length (ds_inbox st) <= inbox0)%nat /\ downs acc = []) \/
     (* the counter had been accepted before any of these handlers ran: none of them will get anywhere *)
     (past st /\ Forall prew ps /\ (length (ds_inbox st) <= inbox0)%nat /\ downs acc = []) \/
     (past st /\ exists i k w, (length (ds_inbox st) + i <= S inbox0)%nat /\ (length (downs acc) + k <= 1)%nat /\
        (exists p, nth_error ps w = Some p /\ lim i k p) /\
        (forall j p, j <> w -> nth_error ps j = Some p -> prew p))).

  Lemma cinv_harmless st ps acc : cinv st ps acc -> Forall harmless_halt ps.
  Proof.
    intros (_ & _ & [(W & _) | [(_ & W & _) | (_ & i & k & w & _ & _ & (pw & Hw & Lw) & Ho)]]).
    - eapply Forall_impl; [|exact W]. apply prew_halt.
    - eapply Forall_impl; [|exact W]. apply prew_halt.
    - apply Forall_forall. intros p Hin. apply In_nth_error in Hin. destruct Hin as [j Hj].
      destruct (Nat.eq_dec j w) as [->|Hne]; [rewrite Hw in Hj; injection Hj as <-; eapply lim_halt; exact Lw | eapply prew_halt, Ho; eauto].
  Qed.
  (* what holds when the run stops, wherever it stops: at most one row and one frame more; and either nothing at all
     has happened, or the stored counter is past c (so that whoever comes later is refused) *)
  Definition cpost (st : dstate) (acc : list out) : Prop :=
    fb_down st /\ strict st /\ (length (ds_inbox st) <= S inbox0)%nat /\ (length (downs acc) <= 1)%nat /\
    (((length (ds_inbox st) <= inbox0)%nat /\ downs acc = []) \/ past st).
  Lemma cinv_bound st ps acc : cinv st ps acc -> cpost st acc.
  Proof.
    intros (Hfb & Hs & [(_ & Hi & Hd) | [(Hp & _ & Hi & Hd) | (Hp & i & k & w & Hi & Hk & _)]]); (split; [exact Hfb|]); (split; [exact Hs|]).
    - rewrite Hd. cbn. split; [lia|]. split; [lia|]. left. auto.
    - rewrite Hd. cbn. split; [lia|]. split; [lia|]. left. auto.
    - split; [lia|]. split; [lia|]. now right.
  Qed.

  Theorem interleaveN_copies : forall fuel sched st ps acc, cinv st ps acc ->
    cpost (fst (interleaveN apps sched fuel st ps acc)) (snd (interleaveN apps sched fuel st ps acc)).
  Proof.
    induction fuel as [|fuel IH]; intros sched st ps acc Hinv; cbn [interleaveN]; [cbn [fst snd]; now apply (cinv_bound st ps)|].
    destruct (choose (hd 0%nat sched) ps) as [i|].
    2:{ cbn [fst snd]. pose proof (cinv_bound st ps acc Hinv) as P. unfold cpost in *. rewrite downs_app, (final_outs_quiet ps (cinv_harmless _ _ _ Hinv)), app_nil_r. exact P. }
    destruct (nth_error ps i) as [[o0 | o k]|] eqn:Ei; try (cbn [fst snd]; now apply (cinv_bound st ps)).
    destruct Hinv as (Hfb & Hs & [(W & Hi & Hd) | [(Hp & W & Hi & Hd) | (Hp & ii & kk & w & Hi & Hk & (pw & Hw & Lw) & Ho)]]).
    - (* nobody has advanced the counter yet *)
      assert (Wi : prew (Do o k)) by (rewrite Forall_forall in W; apply W; eapply nth_error_In; exact Ei).
      pose proof (step_prew st o k Wi Hfb Hs) as S. destruct (exec apps st o) as [[st' r] e].
      destruct S as (-> & I' & F' & S' & [[W' _] | (P' & L' & _)]); apply IH.
      + split; [exact F'|]. split; [exact S'|]. left. rewrite app_nil_r. split; [|split; [now rewrite I' | exact Hd]].
        apply Forall_forall. intros p Hin. apply In_nth_error in Hin. destruct Hin as [j Hj].
        destruct (Nat.eq_dec j i) as [->|Hne].
        * rewrite (nth_replace_same i _ ps _ Ei) in Hj. injection Hj as <-. destruct (_ && _); [now constructor | exact W'].
        * rewrite (nth_replace_other i _ ps j Hne) in Hj. rewrite Forall_forall in W. apply W. eapply nth_error_In; exact Hj.
      + split; [exact F'|]. split; [exact S'|]. right. right. split; [exact P'|]. exists 1%nat, 1%nat, i. rewrite app_nil_r, Hd, I'. cbn [length].
        split; [lia|]. split; [lia|]. split.
        * eexists. split; [apply (nth_replace_same i _ ps _ Ei)|]. destruct (_ && _); [now constructor | exact L'].
        * intros j p Hne Hj. rewrite (nth_replace_other i _ ps j Hne) in Hj. rewrite Forall_forall in W. apply W. eapply nth_error_In; exact Hj.
    - (* the counter was accepted before: every compare-and-store fails *)
      assert (Wi : prew (Do o k)) by (rewrite Forall_forall in W; apply W; eapply nth_error_In; exact Ei).
      pose proof (step_prew_past st o k Wi Hfb Hs Hp) as S. destruct (exec apps st o) as [[st' r] e].
      destruct S as (-> & I' & F' & S' & W' & P'). apply IH.
      split; [exact F'|]. split; [exact S'|]. right. left. split; [exact P'|]. rewrite app_nil_r. split; [|split; [now rewrite I' | exact Hd]].
      apply Forall_forall. intros p Hin. apply In_nth_error in Hin. destruct Hin as [j Hj].
      destruct (Nat.eq_dec j i) as [->|Hne].
      + rewrite (nth_replace_same i _ ps _ Ei) in Hj. injection Hj as <-. destruct (_ && _); [now constructor | exact W'].
      + rewrite (nth_replace_other i _ ps j Hne) in Hj. rewrite Forall_forall in W. apply W. eapply nth_error_In; exact Hj.
    - destruct (Nat.eq_dec i w) as [->|Hne].
      + (* the handler whose compare-and-store succeeded *)
        rewrite Hw in Ei. injection Ei as ->.
        pose proof (step_lim st o k ii kk Lw Hfb Hs Hp) as S. destruct (exec apps st o) as [[st' r] e].
        destruct S as (F' & S' & P' & i' & k' & L' & Hi' & Hk'). apply IH.
        split; [exact F'|]. split; [exact S'|]. right. right. split; [exact P'|]. exists i', k', w. rewrite downs_app, app_length.
        split; [lia|]. split; [lia|]. split.
        * eexists. split; [apply (nth_replace_same w _ ps _ Hw)|]. destruct (_ && _); [now constructor | exact L'].
        * intros j p Hj Hpj. rewrite (nth_replace_other w _ ps j Hj) in Hpj. eapply Ho; eauto.
      + (* another handler: its compare-and-store fails, it stops *)
        assert (Wi : prew (Do o k)) by (eapply Ho; eauto).
        pose proof (step_prew_past st o k Wi Hfb Hs Hp) as S. destruct (exec apps st o) as [[st' r] e].
        destruct S as (-> & I' & F' & S' & W' & P'). apply IH.
        split; [exact F'|]. split; [exact S'|]. right. right. split; [exact P'|]. exists ii, kk, w. rewrite app_nil_r, I'.
        split; [exact Hi|]. split; [exact Hk|]. split.
        * exists pw. split; [|exact Lw]. rewrite (nth_replace_other i _ ps w); [exact Hw | congruence].
        * intros j p Hj Hpj. destruct (Nat.eq_dec j i) as [->|Hji].
          -- rewrite (nth_replace_same i _ ps _ Ei) in Hpj. injection Hpj as <-. destruct (_ && _); [now constructor | exact W'].
          -- rewrite (nth_replace_other i _ ps j Hji) in Hpj. eapply Ho; eauto.
  Qed.

  (* ... and when the counter had already been accepted before they started, nothing is recorded and nothing leaves *)
  Definition cinv_past (st : dstate) (ps : list prog) (acc : list out) : Prop :=
    fb_down st /\ strict st /\ past st /\ Forall prew ps /\ (length (ds_inbox st) <= inbox0)%nat /\ downs acc = [].
  Theorem interleaveN_replays : forall fuel sched st ps acc, cinv_past st ps acc ->
    fb_down (fst (interleaveN apps sched fuel st ps acc)) /\ strict (fst (interleaveN apps sched fuel st ps acc)) /\
    past (fst (interleaveN apps sched fuel st ps acc)) /\
    (length (ds_inbox (fst (interleaveN apps sched fuel st ps acc))) <= inbox0)%nat /\
    downs (snd (interleaveN apps sched fuel st ps acc)) = [].
  Proof.
    induction fuel as [|fuel IH]; intros sched st ps acc (Hfb & Hs & Hp & W & Hi & Hd); cbn [interleaveN]; [cbn [fst snd]; auto|].
    assert (Hh : Forall harmless_halt ps) by (eapply Forall_impl; [|exact W]; apply prew_halt).
    destruct (choose (hd 0%nat sched) ps) as [i|].
    2:{ cbn [fst snd]. rewrite downs_app, (final_outs_quiet ps Hh), app_nil_r. auto. }
    destruct (nth_error ps i) as [[o0 | o k]|] eqn:Ei; try (cbn [fst snd]; auto).
    assert (Wi : prew (Do o k)) by (rewrite Forall_forall in W; apply W; eapply nth_error_In; exact Ei).
    pose proof (step_prew_past st o k Wi Hfb Hs Hp) as S. destruct (exec apps st o) as [[st' r] e].
    destruct S as (-> & I' & F' & S' & W' & P'). apply IH.
    split; [exact F'|]. split; [exact S'|]. split; [exact P'|]. rewrite app_nil_r. split; [|split; [now rewrite I' | exact Hd]].
    apply Forall_forall. intros p Hin. apply In_nth_error in Hin. destruct Hin as [j Hj].
    destruct (Nat.eq_dec j i) as [->|Hne].
    - rewrite (nth_replace_same i _ ps _ Ei) in Hj. injection Hj as <-. destruct (_ && _); [now constructor | exact W'].
    - rewrite (nth_replace_other i _ ps j Hne) in Hj. rewrite Forall_forall in W. apply W. eapply nth_error_In; exact Hj.
  Qed.

  (* ---- the uplink handler of a frame carrying c is such a program ---- *)
  Lemma lim_enc_data dev p rx created now fin : downs fin = [] -> lim 0 1 (enc_data_prog E dev p rx created now fin).
  Proof.
    intros Hfin. unfold enc_data_prog. destruct (encode _); try (now constructor).
    apply L_quiet; [right; eexists; reflexivity|]. intros r _. destruct r as [| | | | |[cn|]]; try (now constructor).
    destruct (encode_message E _ _ _) as [buf| |]; try (now constructor).
    apply L_quiet; [now left|]. intros _ _.
    destruct (length buf =? 0)%nat; [now constructor|]. apply L_emit. intros _. now constructor.
  Qed.
  Lemma lim_send dev rx created now fin : downs fin = [] -> lim 0 1 (send_prog E D dev rx created now fin).
  Proof.
    intros Hfin. unfold send_prog. apply L_quiet; [now left|]. intros r Hr.
    destruct r as [| | |g| |]; try (now constructor). destruct g as [| |p]; try (now constructor).
    cbn in Hr. destruct (down_type_not_ja _ Hr) as [-> ->]. now apply lim_enc_data.
  Qed.
  Lemma lim_queue dev1 f rx now fin : downs fin = [] -> lim 0 1 (queue_prog E D dev1 f rx now fin).
  Proof.
    intros Hfin. unfold queue_prog.
    assert (After : lim 0 1 (Do SGetNextUnsent (fun r => match r with
             | XMsg (Some m) => Do (SSetPayload (m_data m) (m_port m) (m_ack m)) (fun _ =>
                                Do (SSetSentTime (m_created m) now (fcnt f)) (fun _ => send_prog E D dev1 rx (m_created m) now fin))
             | _ => send_prog E D dev1 rx 0 now fin end))).
    { apply L_quiet; [now left|]. intros r _. destruct r as [| |[m|]| | |]; try (now apply lim_send).
      apply L_quiet; [now left|]. intros _ _. apply L_quiet; [now left|]. intros _ _. now apply lim_send. }
    assert (Acks : lim 0 1 (if ack (fc f) then Do (SUpdateAckTime (fcnt f) now) (fun _ => Do SGetNextUnsent (fun r => match r with
             | XMsg (Some m) => Do (SSetPayload (m_data m) (m_port m) (m_ack m)) (fun _ =>
                                Do (SSetSentTime (m_created m) now (fcnt f)) (fun _ => send_prog E D dev1 rx (m_created m) now fin))
             | _ => send_prog E D dev1 rx 0 now fin end))
           else Do SResetAcks (fun _ => Do SGetNextUnsent (fun r => match r with
             | XMsg (Some m) => Do (SSetPayload (m_data m) (m_port m) (m_ack m)) (fun _ =>
                                Do (SSetSentTime (m_created m) now (fcnt f)) (fun _ => send_prog E D dev1 rx (m_created m) now fin))
             | _ => send_prog E D dev1 rx 0 now fin end)))).
    { destruct (ack (fc f)); (apply L_quiet; [now left|]); intros _ _; exact After. }
    destruct (mtype f =? ConfirmedDataUp); [|exact Acks]. apply L_quiet; [now left|]. intros _ _. exact Acks.
  Qed.

  Theorem uplink_prog_prew f rx n now : fcnt f = c -> prew (uplink_prog E D f rx n now).
  Proof.
    intros Hf. unfold uplink_prog. apply W_row; [|now constructor]. intros dev Hstrict.
    destruct (negb (mic_ok E f (rx_raw rx) dev)); [now constructor|].
    destruct (stale dev f) eqn:Est; [now constructor|].
    assert (Hle : (d_fup dev <=? fcnt f) = true).
    { unfold stale in Est. rewrite Hstrict in Est. cbn in Est. apply N.ltb_ge in Est. now apply N.leb_le. }
    rewrite Hle, Hf. apply W_cas.
    - intros e. rewrite Hstrict. destruct e; now constructor.
    - apply L_ins. intros r. destruct r as [[e|]| | | | |]; try (now constructor).
      apply L_quiet; [now left|]. intros r _. destruct r as [| | | |[|]|]; try (now constructor).
      now apply lim_queue.
  Qed.
End Copies.

(* any number of handlers of frames carrying one counter, from any state of a strict-counter device *)
Theorem concurrent_copies_recorded_and_answered_once E D apps c :
  c < 65535 ->
  forall (copies : list (frame * rxpacket * nat * N)), Forall (fun x => fcnt (fst (fst (fst x))) = c) copies ->
  forall st r, ds_row st = Some r -> d_relaxed r = false -> fb_down st ->
  forall sched fuel,
    let res := interleaveN apps sched fuel st
                 (map (fun x => uplink_prog E D (fst (fst (fst x))) (snd (fst (fst x))) (snd (fst x)) (snd x)) copies) [] in
    (length (ds_inbox (fst res)) <= S (length (ds_inbox st)))%nat /\ (length (downs (snd res)) <= 1)%nat.
Proof.
  intros Hc copies Hall st r Hr Hs Hfb sched fuel.
  cut (cpost c (length (ds_inbox st)) (fst (interleaveN apps sched fuel st (map (fun x => uplink_prog E D (fst (fst (fst x))) (snd (fst (fst x))) (snd (fst x)) (snd x)) copies) []))
             (snd (interleaveN apps sched fuel st (map (fun x => uplink_prog E D (fst (fst (fst x))) (snd (fst (fst x))) (snd (fst x)) (snd x)) copies) []))).
  { intros (_ & _ & A & B & _). cbv zeta. split; assumption. }
  apply (interleaveN_copies E D apps c Hc (length (ds_inbox st))).
  split; [exact Hfb|]. split; [unfold strict; now rewrite Hr|]. left. split; [|split; [lia | reflexivity]].
  apply Forall_forall. intros p Hin. apply in_map_iff in Hin. destruct Hin as (x & <- & Hx).
  rewrite Forall_forall in Hall. apply uplink_prog_prew. now apply Hall.
Qed.

(* ====================================================================================================== *)
(* C03 / C07: any number of uplink handlers of one device working on ANY frames, EVERY schedule: the stored
   uplink counter never moves back, and no two frames that leave carry the same downlink counter. *)
Section Data.
  Variable E D : list N -> list N -> list N.
  Variable apps : list N.
  Variable r0 : device.                 (* the device row before any of the handlers ran *)

  Definition plain (o : sop) : Prop :=
    benign o = true \/ (exists m, o = SCreateUpstream m) \/ (exists key a kw, o = SAdvanceUp key a ((a + 1) mod 65536) kw /\ a < 65535).

  Inductive phase := Pre | Hold (cn : N) | Post.
  (* Pre: may still reserve a downlink counter; Hold cn: has reserved cn and may emit one frame, which carries
     cn; Post: neither reserves nor emits *)
  Inductive ph : phase -> prog -> Prop :=
  | PH_halt s o : downs o = [] -> ph s (Halt o)
  | PH_op s o k : plain o -> (forall r, res_ok o r -> ph s (k r)) -> ph s (Do o k)
  | PH_next key k : (forall cn, cn < 65536 -> ph (Hold cn) (k (XCnt (Some cn)))) -> ph Post (k (XCnt None)) -> ph Pre (Do (SNextDn key) k)
  | PH_emit cn d c' k : down_fcnt d = cn -> (forall r, ph Post (k r)) -> ph (Hold cn) (Do (SEmit d c') k).

  Definition hold1 (s : phase) : list N := match s with Hold cn => [cn] | _ => [] end.
  Definition holds (phs : list phase) : list N := flat_map hold1 phs.
  Definition pre1 (s : phase) : nat := match s with Pre => 1%nat | _ => 0%nat end.
  Definition npre (phs : list phase) : nat := list_sum (map pre1 phs).

  Lemma holds_upd : forall i phs s s', nth_error phs i = Some s ->
    Permutation (hold1 s' ++ holds phs) (hold1 s ++ holds (upd i s' phs)).
  Proof.
    induction i as [|i IH]; intros [|h t] s s' H; cbn in H; try discriminate.
    - injection H as ->. cbn [upd holds flat_map]. rewrite !app_assoc. apply Permutation_app_tail. apply Permutation_app_comm.
    - cbn [upd holds flat_map]. fold (holds t). fold (holds (upd i s' t)).
      rewrite !app_assoc. rewrite (Permutation_app_comm (hold1 s') (hold1 h)), (Permutation_app_comm (hold1 s) (hold1 h)).
      rewrite <- !app_assoc. apply Permutation_app_head. now apply IH.
  Qed.
  Lemma npre_upd : forall i phs s s', nth_error phs i = Some s -> (npre (upd i s' phs) + pre1 s = npre phs + pre1 s')%nat.
  Proof.
    induction i as [|i IH]; intros [|h t] s s' H; cbn in H; try discriminate.
    - injection H as ->. unfold npre, list_sum. cbn [upd map fold_right]. lia.
    - specialize (IH t s s' H). unfold npre, list_sum in *. cbn [upd map fold_right]. lia.
  Qed.

  (* the state part: the row is the device's, in the same session, the uplink counter has not moved back; G is
     the number of the next downlink counter, not reduced modulo 2^16 *)
  Variable Bnd : N.                     (* what the unreduced counter can reach: its start plus the number of handlers *)
  Hypothesis HB : Bnd <= 65536.
  Definition dinv (st : dstate) (ps : list prog) (acc : list out) : Prop :=
    fb_down st /\
    exists r' G phs, ds_row st = Some r' /\ same_session r0 r' /\ d_fup r0 <= d_fup r' /\
      d_fdn r' = G mod 65536 /\ d_fdn r0 <= G /\ G + N.of_nat (npre phs) <= Bnd /\
      Forall2 ph phs ps /\
      NoDup (counters acc ++ holds phs) /\ Forall (fun x => d_fdn r0 <= x < G) (counters acc ++ holds phs).

  Lemma plain_exec st o r' : plain o -> fb_down st -> ds_row st = Some r' ->
    let '(st', r, e) := exec apps st o in
    e = [] /\ res_ok o r /\ fb_down st' /\
    exists r'', ds_row st' = Some r'' /\ same_session r' r'' /\ d_fup r' <= d_fup r'' /\ d_fdn r'' = d_fdn r'.
  Proof.
    intros [Hb | [[m ->] | (key & a & kw & -> & Ha)]] Hfb Hr.
    - pose proof (benign_exec apps st o Hb Hfb) as B. destruct (exec apps st o) as [[st' r] e]. destruct B as (-> & Hres & F & R & _).
      repeat split; auto. exists r'. rewrite R. split; [exact Hr|]. split; [apply same_session_refl|]. split; [lia | reflexivity].
    - cbn [exec]. pose proof (create_upstream_exec st m) as U. destruct (l_create_upstream st m) as [st' e]. destruct U as (R & F & _).
      split; [reflexivity|]. split; [exact I|]. split; [unfold fb_down in *; now rewrite F|].
      exists r'. rewrite R. split; [exact Hr|]. split; [apply same_session_refl|]. split; [lia | reflexivity].
    - cbn [exec]. destruct (l_advance_fup st key a ((a + 1) mod 65536) kw) as [st' [e|]] eqn:U.
      + apply adv_fail in U. destruct U as [-> ->]. repeat split; auto. exists r'. split; [exact Hr|]. split; [apply same_session_refl|]. split; [lia | reflexivity].
      + apply adv_row in U. destruct U as (r & R0 & Hle & R1 & R2 & R3 & R4 & R5). rewrite Hr in R0. injection R0 as <-.
        split; [reflexivity|]. split; [exact I|]. split; [unfold fb_down in *; now rewrite R5|].
        eexists. split; [exact R1|]. cbn [d_fup d_fdn]. split; [unfold same_session; cbn; tauto|]. split; [rewrite N.mod_small by lia; lia | reflexivity].
  Qed.

  Lemma ph_halt s p : ph s p -> harmless_halt p.
  Proof. destruct 1; cbn; auto. Qed.

  Lemma upd_same {A} : forall i (l : list A) x, nth_error l i = Some x -> upd i x l = l.
  Proof. induction i as [|i IH]; intros [|h t] x H; cbn in *; try discriminate; [now injection H as -> | now rewrite IH]. Qed.
  Lemma npre_pos i phs : nth_error phs i = Some Pre -> (1 <= npre phs)%nat.
  Proof. intros H. pose proof (npre_upd i phs Pre Post H) as X. cbn [pre1] in X. lia. Qed.

  (* what holds when the run stops, wherever it stops *)
  Definition dpost (st : dstate) (outs : list out) : Prop :=
    (exists r' G, fb_down st /\ ds_row st = Some r' /\ same_session r0 r' /\ d_fup r0 <= d_fup r' /\
       d_fdn r' = G mod 65536 /\ d_fdn r0 <= G /\ G <= Bnd /\ Forall (fun x => d_fdn r0 <= x < G) (counters outs)) /\
    NoDup (counters outs).
  Lemma dinv_bound st ps acc : dinv st ps acc -> dpost st acc.
  Proof.
    intros (Hfb & r' & G & phs & Hr & Hs & Hu & Hd & HG0 & HG & _ & Hnd & Hall). split; [|eapply NoDup_app_l; exact Hnd].
    exists r', G. split; [exact Hfb|]. split; [exact Hr|]. split; [exact Hs|]. split; [exact Hu|]. split; [exact Hd|]. split; [exact HG0|]. split; [lia|].
    apply Forall_app in Hall. tauto.
  Qed.
  Lemma dinv_harmless st ps acc : dinv st ps acc -> Forall harmless_halt ps.
  Proof.
    intros (_ & r' & G & phs & _ & _ & _ & _ & _ & _ & HF2 & _). induction HF2 as [|s p phs ps Hp _ IH]; constructor; [eapply ph_halt; exact Hp | exact IH].
  Qed.

  Theorem interleaveN_data : forall fuel sched st ps acc, dinv st ps acc ->
    dpost (fst (interleaveN apps sched fuel st ps acc)) (snd (interleaveN apps sched fuel st ps acc)).
  Proof.
    induction fuel as [|fuel IH]; intros sched st ps acc Hinv; cbn [interleaveN]; [cbn [fst snd]; now apply (dinv_bound st ps)|].
    destruct (choose (hd 0%nat sched) ps) as [i|].
    2:{ cbn [fst snd]. pose proof (dinv_bound st ps acc Hinv) as P. unfold dpost, counters in *. rewrite downs_app, (final_outs_quiet ps (dinv_harmless _ _ _ Hinv)), app_nil_r. exact P. }
    destruct (nth_error ps i) as [[o0 | o k]|] eqn:Ei; try (cbn [fst snd]; now apply (dinv_bound st ps)).
    destruct Hinv as (Hfb & r' & G & phs & Hr & Hs & Hu & Hd & HG0 & HG & HF2 & Hnd & Hall).
    destruct (Forall2_nth ph i phs ps (Do o k) HF2 Ei) as (s & Hsi & Hph).
    inversion Hph as [| s0 o' k' Hpl Hk | key k' Hsome Hnone | cn d c' k' Hcn Hk]; subst.
    - (* an operation that neither reserves nor emits *)
      pose proof (plain_exec st o r' Hpl Hfb Hr) as X. destruct (exec apps st o) as [[st' r] e].
      destruct X as (-> & Hres & F' & r'' & R'' & S'' & U'' & D''). apply IH.
      split; [exact F'|]. exists r'', G, phs. rewrite app_nil_r, replace_nth_upd.
      split; [exact R''|]. split; [eapply same_session_trans; eassumption|]. split; [lia|]. split; [congruence|]. split; [exact HG0|]. split; [exact HG|].
      split; [|split; assumption].
      rewrite <- (upd_same i phs s Hsi). apply Forall2_upd; [exact HF2|]. destruct (_ && _); [now constructor | now apply Hk].
    - (* NextFCntDn *)
      pose proof (npre_pos i phs Hsi) as Hpos.
      assert (HGlt : G < 65536) by lia.
      cbn [exec]. destruct (l_next_fdn st key) as [st' [cn|]] eqn:U.
      2:{ (* the device is no longer in the session the handler verified the frame in: nothing is reserved, the handler goes quiet *)
          apply next_none in U. destruct U as [-> _].
          pose proof (npre_upd i phs Pre Post Hsi) as Hn. cbn [pre1] in Hn.
          pose proof (holds_upd i phs Pre Post Hsi) as Hperm. cbn [hold1 app] in Hperm.
          apply IH. split; [exact Hfb|]. exists r', G, (upd i Post phs). rewrite app_nil_r, replace_nth_upd.
          split; [exact Hr|]. split; [exact Hs|]. split; [exact Hu|]. split; [exact Hd|]. split; [exact HG0|]. split; [lia|].
          split; [apply Forall2_upd; [exact HF2|]; destruct (_ && _); [now constructor | exact Hnone]|].
          assert (P2 : Permutation (counters acc ++ holds phs) (counters acc ++ holds (upd i Post phs))) by (apply Permutation_app_head; exact Hperm).
          split; [eapply Permutation_NoDup; [exact P2 | exact Hnd] | eapply Perm_Forall; [exact P2 | exact Hall]]. }
      apply next_row in U. destruct U as (rr & R0 & Hcn & R1 & R2 & R3 & R4 & R5). rewrite Hr in R0. injection R0 as <-.
      rewrite Hd, N.mod_small in Hcn by exact HGlt. subst cn.
      pose proof (npre_upd i phs Pre (Hold G) Hsi) as Hn. cbn [pre1] in Hn.
      pose proof (holds_upd i phs Pre (Hold G) Hsi) as Hperm. cbn [hold1 app] in Hperm.
      apply IH. split; [unfold fb_down in *; now rewrite R5|].
      eexists. exists (G + 1), (upd i (Hold G) phs). rewrite app_nil_r, replace_nth_upd.
      split; [exact R1|]. cbn [d_fup d_fdn]. split; [unfold same_session in *; cbn; tauto|]. split; [exact Hu|].
      split; [rewrite Hd, (N.mod_small G) by exact HGlt; reflexivity|]. split; [lia|]. split; [lia|].
      split; [apply Forall2_upd; [exact HF2|]; destruct (_ && _); [now constructor | now apply Hsome]|].
      assert (P2 : Permutation (G :: counters acc ++ holds phs) (counters acc ++ holds (upd i (Hold G) phs))).
      { etransitivity; [apply Permutation_middle|]. apply Permutation_app_head. exact Hperm. }
      split.
      + eapply Permutation_NoDup; [exact P2|]. constructor; [|exact Hnd].
        intros Hin. rewrite Forall_forall in Hall. specialize (Hall G Hin). lia.
      + eapply Perm_Forall; [exact P2|]. constructor; [lia|]. eapply Forall_impl; [|exact Hall]. cbn beta. intros x Hx. lia.
    - (* the frame leaves: it carries the reserved counter *)
      cbn [exec].
      pose proof (npre_upd i phs (Hold (down_fcnt d)) Post Hsi) as Hn. cbn [pre1] in Hn.
      pose proof (holds_upd i phs (Hold (down_fcnt d)) Post Hsi) as Hperm. cbn [hold1 app] in Hperm.
      apply IH. split; [exact Hfb|]. exists r', G, (upd i Post phs). rewrite replace_nth_upd.
      split; [exact Hr|]. split; [exact Hs|]. split; [exact Hu|]. split; [exact Hd|]. split; [exact HG0|]. split; [lia|].
      split; [apply Forall2_upd; [exact HF2|]; destruct (_ && _); [now constructor | apply Hk]|].
      assert (P2 : Permutation (counters acc ++ holds phs) (counters (acc ++ [ODown d]) ++ holds (upd i Post phs))).
      { rewrite counters_app. unfold counters at 2. cbn [downs flat_map map app]. rewrite <- app_assoc. apply Permutation_app_head. exact Hperm. }
      split; [eapply Permutation_NoDup; [exact P2 | exact Hnd] | eapply Perm_Forall; [exact P2 | exact Hall]].
  Qed.

  (* ---- the uplink handler is such a program ---- *)
  Lemma ph_enc_data dev p rx created now fin : downs fin = [] -> ph Pre (enc_data_prog E dev p rx created now fin).
  Proof.
    intros Hfin. unfold enc_data_prog. destruct (encode _); try (now constructor).
    apply PH_next; [|now constructor]. intros cn Hcn.
    destruct (encode_message E _ _ _) as [buf| |] eqn:Em; try (now constructor).
    apply PH_op; [left; reflexivity|]. intros _ _.
    destruct (length buf =? 0)%nat; [now constructor|]. apply PH_emit; [|intros _; now constructor].
    unfold down_fcnt. cbn [dl_raw]. rewrite (encode_message_fcnt _ _ _ _ _ Em). cbn [downlink_frame fcnt]. now apply N.mod_small.
  Qed.
  Lemma ph_send dev rx created now fin : downs fin = [] -> ph Pre (send_prog E D dev rx created now fin).
  Proof.
    intros Hfin. unfold send_prog. apply PH_op; [left; reflexivity|]. intros r Hr.
    destruct r as [| | |g| |]; try (now constructor). destruct g as [| |p]; try (now constructor).
    cbn in Hr. destruct (down_type_not_ja _ Hr) as [-> ->]. now apply ph_enc_data.
  Qed.
  Lemma ph_queue dev1 f rx now fin : downs fin = [] -> ph Pre (queue_prog E D dev1 f rx now fin).
  Proof.
    intros Hfin. unfold queue_prog.
    assert (After : ph Pre (Do SGetNextUnsent (fun r => match r with
             | XMsg (Some m) => Do (SSetPayload (m_data m) (m_port m) (m_ack m)) (fun _ =>
                                Do (SSetSentTime (m_created m) now (fcnt f)) (fun _ => send_prog E D dev1 rx (m_created m) now fin))
             | _ => send_prog E D dev1 rx 0 now fin end))).
    { apply PH_op; [left; reflexivity|]. intros r _. destruct r as [| |[m|]| | |]; try (now apply ph_send).
      apply PH_op; [left; reflexivity|]. intros _ _. apply PH_op; [left; reflexivity|]. intros _ _. now apply ph_send. }
    assert (Acks : ph Pre (if ack (fc f) then Do (SUpdateAckTime (fcnt f) now) (fun _ => Do SGetNextUnsent (fun r => match r with
             | XMsg (Some m) => Do (SSetPayload (m_data m) (m_port m) (m_ack m)) (fun _ =>
                                Do (SSetSentTime (m_created m) now (fcnt f)) (fun _ => send_prog E D dev1 rx (m_created m) now fin))
             | _ => send_prog E D dev1 rx 0 now fin end))
           else Do SResetAcks (fun _ => Do SGetNextUnsent (fun r => match r with
             | XMsg (Some m) => Do (SSetPayload (m_data m) (m_port m) (m_ack m)) (fun _ =>
                                Do (SSetSentTime (m_created m) now (fcnt f)) (fun _ => send_prog E D dev1 rx (m_created m) now fin))
             | _ => send_prog E D dev1 rx 0 now fin end)))).
    { destruct (ack (fc f)); (apply PH_op; [left; reflexivity|]); intros _ _; exact After. }
    destruct (mtype f =? ConfirmedDataUp); [|exact Acks]. apply PH_op; [left; reflexivity|]. intros _ _. exact Acks.
  Qed.

  Theorem uplink_prog_ph f rx n now : fcnt f < 65535 -> ph Pre (uplink_prog E D f rx n now).
  Proof.
    intros Hf. unfold uplink_prog. apply PH_op; [left; reflexivity|]. intros r _.
    destruct r as [| [dev|] | | | |]; try (now constructor).
    destruct (negb (mic_ok E f (rx_raw rx) dev)); [now constructor|].
    destruct (stale dev f); [now constructor|].
    assert (Body : forall dev1, ph Pre
      (Do (SCreateUpstream (mk_umsg dev1 rx (frm (frame_crypt E (d_nwkskey dev1) (d_appskey dev1) f)))) (fun r0 =>
         match r0 with
         | XErr None => Do (SGetApp (d_appeui dev1)) (fun r1 =>
             match r1 with
             | XApp true => queue_prog E D dev1 f rx now [OPub (mk_pub dev1 rx (frm (frame_crypt E (d_nwkskey dev1) (d_appskey dev1) f)))]
             | _ => Halt [] end)
         | _ => Halt [] end))).
    { intros dev1. apply PH_op; [right; left; eexists; reflexivity|]. intros r _.
      destruct r as [[e|]| | | | |]; try (now constructor).
      apply PH_op; [left; reflexivity|]. intros r _. destruct r as [| | | |[|]|]; try (now constructor). now apply ph_queue. }
    destruct (d_fup dev <=? fcnt f); [|apply Body].
    apply PH_op; [right; right; eexists; eexists; eexists; split; [reflexivity | exact Hf]|]. intros r _.
    destruct r as [[e|]| | | | |]; try (now constructor); [|apply Body].
    destruct e; try (now constructor). destruct (d_relaxed dev); [apply Body | now constructor].
  Qed.
End Data.

(* any number of uplink handlers of one device, any frames (copies, consecutive or unrelated counters), every
   schedule and run length, while fewer than 2^16 downlink counters of the session have been used *)
Lemma all_pre_phs {A} (ups : list A) : npre (map (fun _ => Pre) ups) = length ups /\ holds (map (fun _ => Pre) ups) = [].
Proof. unfold npre, list_sum. induction ups as [|u t [I1 I2]]; cbn; [auto | rewrite I1; auto]. Qed.

(* the same with what holds at the end spelled out: the stored counter has advanced by at most the number of
   handlers, and every counter that left lies between the old and the new stored counter *)
Theorem concurrent_uplinks_post E D apps :
  forall (ups : list (frame * rxpacket * nat * N)), Forall (fun x => fcnt (fst (fst (fst x))) < 65535) ups ->
  forall st r, ds_row st = Some r -> fb_down st -> d_fdn r < 65536 -> d_fdn r + N.of_nat (length ups) <= 65536 ->
  forall sched fuel,
    let res := interleaveN apps sched fuel st
                 (map (fun x => uplink_prog E D (fst (fst (fst x))) (snd (fst (fst x))) (snd (fst x)) (snd x)) ups) [] in
    dpost r (d_fdn r + N.of_nat (length ups)) (fst res) (snd res).
Proof.
  intros ups Hall st r Hr Hfb H16 Hroom sched fuel. apply (interleaveN_data E D apps r (d_fdn r + N.of_nat (length ups)) Hroom).
  split; [exact Hfb|]. exists r, (d_fdn r), (map (fun _ => Pre) ups).
  destruct (all_pre_phs ups) as [Hn Hh].
  split; [exact Hr|]. split; [apply same_session_refl|]. split; [lia|].
  split; [symmetry; now apply N.mod_small|]. split; [lia|]. split; [rewrite Hn; lia|].
  split; [|rewrite Hh; cbn; split; constructor].
  clear Hn Hh Hroom. induction ups as [|u t IHt]; cbn; constructor; inversion Hall; subst; [now apply uplink_prog_ph | now apply IHt].
Qed.

(* any number of uplink handlers of one device, any frames (copies, consecutive or unrelated counters), every
   schedule and run length, while fewer than 2^16 downlink counters of the session have been used *)
Theorem concurrent_uplinks_counters E D apps :
  forall (ups : list (frame * rxpacket * nat * N)), Forall (fun x => fcnt (fst (fst (fst x))) < 65535) ups ->
  forall st r, ds_row st = Some r -> fb_down st -> d_fdn r < 65536 -> d_fdn r + N.of_nat (length ups) <= 65536 ->
  forall sched fuel,
    let res := interleaveN apps sched fuel st
                 (map (fun x => uplink_prog E D (fst (fst (fst x))) (snd (fst (fst x))) (snd (fst x)) (snd x)) ups) [] in
    (exists r', ds_row (fst res) = Some r' /\ same_session r r' /\ d_fup r <= d_fup r') /\
    NoDup (counters (snd res)) /\ Forall (fun x => d_fdn r <= x) (counters (snd res)).
Proof.
  intros ups Hall st r Hr Hfb H16 Hroom sched fuel.
  destruct (concurrent_uplinks_post E D apps ups Hall st r Hr Hfb H16 Hroom sched fuel) as [(r' & G & _ & R & S & U & _ & _ & _ & F) ND].
  split; [eauto|]. split; [exact ND|]. eapply Forall_impl; [|exact F]. cbn beta. intros x Hx. lia.
Qed.

(* ---------- two handlers: the function the forced-schedule correspondence runs (Steps.interleave) ---------- *)
Definition sched2 (s : list bool) : list nat := map (fun b : bool => if b then 1%nat else 0%nat) s.
Lemma sched2_tl s : tl (sched2 s) = sched2 (tl s).
Proof. destruct s; reflexivity. Qed.
Lemma interleave_is_interleaveN apps : forall fuel sched st p q acc,
  interleave apps sched fuel st p q acc = interleaveN apps (sched2 sched) fuel st [p; q] acc.
Proof.
  induction fuel as [|fuel IH]; intros sched st p q acc; [reflexivity|]. cbn [interleave interleaveN].
  destruct p as [a | o1 k1], q as [b | o2 k2].
  - destruct sched as [|[|] t]; cbn; now rewrite app_nil_r.
  - assert (Hc : choose (hd 0%nat (sched2 sched)) [Halt a; Do o2 k2] = Some 1%nat) by (destruct sched as [|[|] t]; reflexivity).
    rewrite Hc. cbn [nth_error]. destruct (exec apps st o2) as [[st' r] e]. rewrite sched2_tl, IH.
    cbn [others_at_buffer at_buffer_read existsb orb]. rewrite andb_false_r. reflexivity.
  - assert (Hc : choose (hd 0%nat (sched2 sched)) [Do o1 k1; Halt b] = Some 0%nat) by (destruct sched as [|[|] t]; reflexivity).
    rewrite Hc. cbn [nth_error]. destruct (exec apps st o1) as [[st' r] e]. rewrite sched2_tl, IH.
    cbn [others_at_buffer at_buffer_read existsb orb]. rewrite andb_false_r. reflexivity.
  - destruct (hd false sched) eqn:Eh.
    + assert (Hc : choose (hd 0%nat (sched2 sched)) [Do o1 k1; Do o2 k2] = Some 1%nat) by (destruct sched as [|[|] t]; cbn in *; congruence).
      rewrite Hc. cbn [nth_error]. destruct (exec apps st o2) as [[st' r] e]. rewrite sched2_tl, IH.
      unfold dedupe. cbn [others_at_buffer existsb replace_nth]. rewrite orb_false_r. reflexivity.
    + assert (Hc : choose (hd 0%nat (sched2 sched)) [Do o1 k1; Do o2 k2] = Some 0%nat) by (destruct sched as [|[|] t]; cbn in *; congruence).
      rewrite Hc. cbn [nth_error]. destruct (exec apps st o1) as [[st' r] e]. rewrite sched2_tl, IH.
      unfold dedupe. cbn [others_at_buffer existsb replace_nth]. rewrite orb_false_r. reflexivity.
Qed.

(* two copies of one uplink (or any two frames carrying one counter), two gateways, every schedule *)
Theorem two_copies_recorded_and_answered_once E D apps :
  forall f1 rx1 n1 now1 f2 rx2 n2 now2, fcnt f1 < 65535 -> fcnt f2 = fcnt f1 ->
  forall st r, ds_row st = Some r -> d_relaxed r = false -> fb_down st ->
  forall sched fuel,
    let res := interleave apps sched fuel st (uplink_prog E D f1 rx1 n1 now1) (uplink_prog E D f2 rx2 n2 now2) [] in
    (length (ds_inbox (fst res)) <= S (length (ds_inbox st)))%nat /\ (length (downs (snd res)) <= 1)%nat.
Proof.
  intros f1 rx1 n1 now1 f2 rx2 n2 now2 Hc H2 st r Hr Hs Hfb sched fuel. cbv zeta. rewrite interleave_is_interleaveN.
  apply (concurrent_copies_recorded_and_answered_once E D apps (fcnt f1) Hc [(f1, rx1, n1, now1); (f2, rx2, n2, now2)]
           ltac:(repeat constructor; assumption) st r Hr Hs Hfb).
Qed.
(* any two uplinks of one device, every schedule: the stored uplink counter does not move back, and the answers
   carry different downlink counters, none below the stored one *)
Theorem two_uplinks_counters E D apps :
  forall f1 rx1 n1 now1 f2 rx2 n2 now2, fcnt f1 < 65535 -> fcnt f2 < 65535 ->
  forall st r, ds_row st = Some r -> fb_down st -> d_fdn r < 65535 ->
  forall sched fuel,
    let res := interleave apps sched fuel st (uplink_prog E D f1 rx1 n1 now1) (uplink_prog E D f2 rx2 n2 now2) [] in
    (exists r', ds_row (fst res) = Some r' /\ same_session r r' /\ d_fup r <= d_fup r') /\
    NoDup (counters (snd res)) /\ Forall (fun x => d_fdn r <= x) (counters (snd res)).
Proof.
  intros f1 rx1 n1 now1 f2 rx2 n2 now2 H1 H2 st r Hr Hfb Hd sched fuel. cbv zeta. rewrite interleave_is_interleaveN.
  apply (concurrent_uplinks_counters E D apps [(f1, rx1, n1, now1); (f2, rx2, n2, now2)]
           ltac:(repeat constructor; assumption) st r Hr Hfb); cbn; lia.
Qed.

(* the premises are met by the witness device and frames of SchedProof.v, and the old failing schedule is one instance *)
Example copies_premises_hold :
  fcnt (w_frame 5) < 65535 /\ d_relaxed (w_dev 5 3) = false /\ fb_down (w_st 5 3) /\
  length (ds_inbox (fst copies_result)) = 1%nat /\ counters (snd copies_result) = [3].
Proof. vm_compute. repeat split; auto. Qed.

(* the premises of the existence theorem (AnswerProof.confirmed_uplink_is_acknowledged) are met by the witness *)
From Lospan Require Import Proof.AnswerProof.
Example acknowledgement_premises_hold :
  mtype (w_frame 5) = ConfirmedDataUp /\ stale (w_dev 5 3) (w_frame 5) = false /\ sendable (w_st 5 3) /\
  valid_datr (w_rx (w_raw 5) 100 1000) /\ has_app [9] (d_appeui (w_dev 5 3)) = true /\
  map (fun d => N.testbit (nth 5 (dl_raw d) 0) 5) (downs (snd (prun [9] 30 (w_st 5 3) (w_prog 5 100 1000) []))) = [true].
Proof. vm_compute. repeat split; auto; discriminate. Qed.

(* ... and those of the delivery theorem (DeliveryProof.queued_message_is_transmitted): a confirmed message queued for
   the witness device leaves on its next uplink and the reference device reads it back *)
From Lospan Require Import Base.AES Spec.RefDevice Proof.DeliveryProof.
Definition w_msg : dmsg := {| m_eui := 1; m_data := [1; 2; 3]; m_port := 7; m_ack := true; m_created := 5; m_sent := 0; m_acktime := 0; m_fcntup := 0 |}.
Definition w_stq : dstate := {| ds_row := Some (w_dev 5 3); ds_nonces := []; ds_inbox := []; ds_outbox := [w_msg]; ds_fb := None |}.
Example delivery_premises_hold :
  l_get_next_unsent (booked w_stq (w_frame 5) 1) = Some w_msg /\ sendable w_stq /\
  map (fun d => ref_on_downlink aes_enc w_nwk w_app 19088743 (dl_raw d)) (downs (snd (prun [9] 30 w_stq (w_prog 5 100 1000) [])))
  = [Some (ConfirmedDataDown, true, 3, Some 7, [1; 2; 3])].
Proof. vm_compute. repeat split; auto. repeat constructor; discriminate. Qed.

(* ====================================================================================================== *)
(* C03 / C07, histories AND interleavings together: a history whose events are batches of uplinks handled at the same
   time (each batch under its own schedule, cut after any number of operations) and submissions of messages. *)
Lemma NoDup_app_disjoint {A} (l1 l2 : list A) : NoDup l1 -> NoDup l2 -> (forall x, In x l1 -> ~ In x l2) -> NoDup (l1 ++ l2).
Proof.
  induction l1 as [|a t IH]; cbn; intros H1 H2 Hd; [exact H2|]. inversion H1 as [|? ? Hn Ht]; subst. constructor.
  - rewrite in_app_iff. intros [Hi|Hi]; [exact (Hn Hi) | exact (Hd a (or_introl eq_refl) Hi)].
  - apply IH; [assumption | assumption | intros x Hx; apply Hd; now right].
Qed.

Section Batches.
  Variable E D : list N -> list N -> list N.
  Variable apps : list N.

  Inductive bevent :=
  | BUps (ups : list (frame * rxpacket * nat * N)) (sched : list nat) (fuel : nat) (restart : bool)
      (* uplinks handled at the same time, cut after fuel operations; then, if restart, the server is restarted
         (the durable tables stay, the output buffer is lost: Steps.recover) *)
  | BSub (m : dmsg).                                                                   (* a message is queued *)
  Definition handlers (ev : bevent) : nat := match ev with BUps ups _ _ _ => length ups | BSub _ => 0%nat end.
  Definition bev_ok (ev : bevent) : Prop :=
    match ev with BUps ups _ _ _ => Forall (fun x => fcnt (fst (fst (fst x))) < 65535) ups | BSub _ => True end.
  Definition bstep (st : dstate) (ev : bevent) : dstate * list out :=
    match ev with
    | BUps ups sched fuel restart =>
      let res := interleaveN apps sched fuel st (map (fun x => uplink_prog E D (fst (fst (fst x))) (snd (fst (fst x))) (snd (fst x)) (snd x)) ups) [] in
      ((if restart then recover (fst res) else fst res), snd res)
    | BSub m => (fst (l_create_downstream st m), [])
    end.
  Fixpoint brun (st : dstate) (evs : list bevent) : dstate * list out :=
    match evs with
    | [] => (st, [])
    | ev :: t => let r1 := bstep st ev in let r2 := brun (fst r1) t in (fst r2, snd r1 ++ snd r2)
    end.
  Definition total (evs : list bevent) : nat := list_sum (map handlers evs).

  Theorem batches_counters : forall evs st r G,
    ds_row st = Some r -> fb_down st -> d_fdn r = G mod 65536 -> G + N.of_nat (total evs) <= 65536 -> Forall bev_ok evs ->
    (exists r', ds_row (fst (brun st evs)) = Some r' /\ same_session r r' /\ d_fup r <= d_fup r') /\
    NoDup (counters (snd (brun st evs))) /\
    Forall (fun x => G <= x < G + N.of_nat (total evs)) (counters (snd (brun st evs))).
  Proof.
    induction evs as [|ev t IH]; intros st r G Hr Hfb Hd Hroom Hok; cbn [brun].
    { cbn [fst snd]. split; [exists r; split; [exact Hr|]; split; [apply same_session_refl | lia]|]. split; constructor. }
    inversion Hok as [|? ? Hev Ht]; subst.
    assert (Htot : total (ev :: t) = (handlers ev + total t)%nat) by reflexivity.
    destruct ev as [ups sched fuel restart | m]; cbn [bstep handlers] in *.
    - destruct ups as [|u ups'].
      + (* nobody to run *)
        assert (Hnil : interleaveN apps sched fuel st [] [] = (st, [])) by (destruct fuel; [reflexivity|]; cbn [interleaveN]; unfold choose; destruct (hd 0%nat sched); reflexivity).
        cbn [map]. rewrite Hnil. cbn [fst snd app]. rewrite Htot. cbn [length Nat.add]. rewrite Htot in Hroom. cbn [length Nat.add] in Hroom.
        destruct restart; [apply (IH (recover st) r G); auto; unfold fb_down, recover; cbn; exact I | apply (IH st r G); auto].
      + set (ups := u :: ups') in *.
        assert (HG : G < 65536) by (rewrite Htot in Hroom; unfold ups in Hroom; cbn [length] in Hroom; lia).
        assert (Hd' : d_fdn r = G) by (rewrite Hd; now apply N.mod_small).
        assert (H16 : d_fdn r < 65536) by lia.
        assert (Hroom1 : d_fdn r + N.of_nat (length ups) <= 65536) by (rewrite Htot in Hroom; lia).
        pose proof (concurrent_uplinks_post E D apps ups Hev st r Hr Hfb H16 Hroom1 sched fuel) as P. cbv zeta in P.
        set (res1 := interleaveN apps sched fuel st (map (fun x => uplink_prog E D (fst (fst (fst x))) (snd (fst (fst x))) (snd (fst x)) (snd x)) ups) []) in *.
        destruct P as [(r1 & G1 & F1 & R1 & S1 & U1 & D1 & L1 & B1 & C1) ND1].
        assert (Hroom2 : G1 + N.of_nat (total t) <= 65536) by (rewrite Htot in Hroom; lia).
        assert (IHr : (exists r2, ds_row (fst (brun (if restart then recover (fst res1) else fst res1) t)) = Some r2 /\ same_session r1 r2 /\ d_fup r1 <= d_fup r2) /\
                      NoDup (counters (snd (brun (if restart then recover (fst res1) else fst res1) t))) /\
                      Forall (fun x => G1 <= x < G1 + N.of_nat (total t)) (counters (snd (brun (if restart then recover (fst res1) else fst res1) t)))).
        { destruct restart; [apply (IH (recover (fst res1)) r1 G1); auto; unfold fb_down, recover; cbn; exact I | apply (IH (fst res1) r1 G1); auto]. }
        destruct IHr as ((r2 & R2 & S2 & U2) & ND2 & C2).
        cbn [fst snd]. split; [exists r2; split; [exact R2|]; split; [eapply same_session_trans; eassumption | lia]|].
        rewrite counters_app. split.
        * apply NoDup_app_disjoint; [exact ND1 | exact ND2|]. intros x H1 H2. rewrite Forall_forall in C1, C2.
          specialize (C1 x H1). specialize (C2 x H2). lia.
        * rewrite Htot. apply Forall_app. split; (eapply Forall_impl; [|eassumption]); cbn beta; intros x Hx; lia.
    - (* a submission: neither the row nor the type of the buffer entry changes *)
      destruct (lsub_props st m) as (L1 & _ & L3). cbn [fst snd app]. rewrite Htot. cbn [Nat.add].
      rewrite Htot in Hroom. cbn [Nat.add] in Hroom. apply (IH (fst (l_create_downstream st m)) r G); auto. now rewrite L1.
  Qed.
End Batches.

(* ====================================================================================================== *)
(* C03 / C09 over a whole history of redeliveries: batches of copies of one frame (each batch handled at the same
   time under its own schedule, cut anywhere), one batch after the other: the frame is recorded at most once and
   answered at most once in total. *)
Section CopyBatches.
  Variable E D : list N -> list N -> list N.
  Variable apps : list N.
  Variable c : N.
  Hypothesis Hc : c < 65535.

  Definition cbatch : Type := list (frame * rxpacket * nat * N) * list nat * nat.   (* the copies, the schedule, the cut *)
  Definition cbatch_ok (b : cbatch) : Prop := Forall (fun x => fcnt (fst (fst (fst x))) = c) (fst (fst b)).
  Definition cstep (st : dstate) (b : cbatch) : dstate * list out :=
    interleaveN apps (snd (fst b)) (snd b) st
      (map (fun x => uplink_prog E D (fst (fst (fst x))) (snd (fst (fst x))) (snd (fst x)) (snd x)) (fst (fst b))) [].
  Fixpoint crun (st : dstate) (bs : list cbatch) : dstate * list out :=
    match bs with
    | [] => (st, [])
    | b :: t => let r1 := cstep st b in let r2 := crun (fst r1) t in (fst r2, snd r1 ++ snd r2)
    end.

  Lemma progs_prew copies : Forall (fun x => fcnt (fst (fst (fst x))) = c) copies ->
    Forall (prew c) (map (fun x => uplink_prog E D (fst (fst (fst x))) (snd (fst (fst x))) (snd (fst x)) (snd x)) copies).
  Proof.
    intros H. apply Forall_forall. intros p Hin. apply in_map_iff in Hin. destruct Hin as (x & <- & Hx).
    rewrite Forall_forall in H. apply uplink_prog_prew. now apply H.
  Qed.

  (* once the counter is past c nothing more happens *)
  Lemma crun_past n0 : forall bs st, Forall cbatch_ok bs -> fb_down st -> strict st -> past c st -> (length (ds_inbox st) <= n0)%nat ->
    (length (ds_inbox (fst (crun st bs))) <= n0)%nat /\ downs (snd (crun st bs)) = [].
  Proof.
    induction bs as [|b t IH]; intros st Hok Hfb Hs Hp Hi; cbn [crun fst snd]; [auto|].
    inversion Hok as [|? ? Hb Ht]; subst.
    destruct (interleaveN_replays E D apps c Hc n0 (snd b) (snd (fst b)) st _ [] (conj Hfb (conj Hs (conj Hp (conj (progs_prew _ Hb) (conj Hi eq_refl))))))
      as (F1 & S1 & P1 & I1 & D1).
    destruct (IH (fst (cstep st b)) Ht F1 S1 P1 I1) as [I2 D2]. unfold cstep in *.
    split; [exact I2|]. rewrite downs_app, D1, D2. reflexivity.
  Qed.

  Theorem copies_history : forall bs st r, Forall cbatch_ok bs -> ds_row st = Some r -> d_relaxed r = false -> fb_down st ->
    (length (ds_inbox (fst (crun st bs))) <= S (length (ds_inbox st)))%nat /\ (length (downs (snd (crun st bs))) <= 1)%nat.
  Proof.
    intros bs st r Hok Hr Hrel Hfb.
    assert (Hs : strict st) by (unfold strict; now rewrite Hr).
    remember (length (ds_inbox st)) as n0 eqn:En.
    assert (Hi : (length (ds_inbox st) <= n0)%nat) by lia. clear En Hr Hrel r.
    revert st Hfb Hs Hi. induction bs as [|b t IH]; intros st Hfb Hs Hi; cbn [crun fst snd]; [cbn; lia|].
    inversion Hok as [|? ? Hb Ht]; subst.
    assert (Hinv : cinv c n0 st (map (fun x => uplink_prog E D (fst (fst (fst x))) (snd (fst (fst x))) (snd (fst x)) (snd x)) (fst (fst b))) []).
    { split; [exact Hfb|]. split; [exact Hs|]. left. split; [now apply progs_prew|]. split; [exact Hi | reflexivity]. }
    destruct (interleaveN_copies E D apps c Hc n0 (snd b) (snd (fst b)) st _ [] Hinv) as (F1 & S1 & I1 & D1 & [[I1' D1'] | P1]).
    - (* nothing has happened: the next batch starts as this one did *)
      destruct (IH Ht (fst (cstep st b)) F1 S1 I1') as [I2 D2]. unfold cstep in *.
      split; [exact I2|]. rewrite downs_app, D1'. exact D2.
    - (* the counter is past c: the rest of the history does nothing *)
      destruct (crun_past (S n0) t (fst (cstep st b)) Ht F1 S1 P1 I1) as [I2 D2]. unfold cstep in *.
      split; [exact I2|]. rewrite downs_app, D2, app_nil_r. exact D1.
  Qed.
End CopyBatches.
