From Lospan Require Import Base.Bytes Model.Router Spec.AbsRouter Proof.BitLemmas.
Open Scope N_scope.

Definition chan_q (r : router) (c : N) : list N := match nth_error (r_chans r) (N.to_nat c) with Some ch => rc_q ch | None => [] end.
Definition chan_closed (r : router) (c : N) : bool := match nth_error (r_chans r) (N.to_nat c) with Some ch => rc_closed ch | None => false end.
Fixpoint route_id (l : list (N * N)) (c : N) : option N :=
  match l with [] => None | (i, ch) :: t => if ch =? c then Some i else route_id t c end.

(* every channel number is routed at most once, routed channels exist and are open *)
Definition wf (r : router) : Prop :=
  NoDup (map snd (r_routes r)) /\
  Forall (fun rt => (N.to_nat (snd rt) < length (r_chans r))%nat /\ chan_closed r (snd rt) = false) (r_routes r).

Lemma nth_upd_same l c f : forall ch, nth_error l c = Some ch -> nth_error (upd_chan l c f) c = Some (f ch).
Proof. revert c; induction l as [|h t IH]; intros [|c] ch H; cbn in *; try discriminate; [now injection H as <- | now apply IH]. Qed.
Lemma nth_upd_other l c c' f : c <> c' -> nth_error (upd_chan l c f) c' = nth_error l c'.
Proof. revert c c'; induction l as [|h t IH]; intros [|c] [|c'] H; cbn; try reflexivity; try lia. apply IH. lia. Qed.
Lemma upd_length l c f : length (upd_chan l c f) = length l.
Proof. revert c; induction l as [|h t IH]; intros [|c]; cbn; auto. Qed.

Lemma route_id_none l c : ~ In c (map snd l) -> route_id l c = None.
Proof.
  induction l as [|[i ch] t IH]; cbn; [reflexivity|]. intros H. destruct (ch =? c) eqn:E; [apply N.eqb_eq in E; tauto|].
  apply IH. tauto.
Qed.

Lemma route_id_some_in l c j : route_id l c = Some j -> In (j, c) l.
Proof.
  induction l as [|[i ch] t IH]; cbn [route_id]; [discriminate|]. destruct (ch =? c) eqn:E.
  - apply N.eqb_eq in E. intros [= ->]. subst. now left.
  - intros H. right. now apply IH.
Qed.

(* publishing: the event is appended exactly to the channels routed for that identifier *)
Lemma pub_fold id ev : forall routes chans c,
  NoDup (map snd routes) ->
  match nth_error (fold_left (fun chans rt => if fst rt =? id then upd_chan chans (N.to_nat (snd rt)) (fun ch => {| rc_q := rc_q ch ++ [ev]; rc_closed := rc_closed ch |}) else chans) routes chans) (N.to_nat c),
        nth_error chans (N.to_nat c) with
  | Some ch', Some ch => rc_closed ch' = rc_closed ch /\
                         rc_q ch' = rc_q ch ++ (match route_id routes c with Some j => if id =? j then [ev] else [] | None => [] end)
  | None, None => True
  | _, _ => False
  end.
Proof.
  induction routes as [|[i ch0] t IH]; intros chans c Hnd; cbn [fold_left route_id fst snd].
  - destruct (nth_error chans (N.to_nat c)); cbn beta iota; [split; [reflexivity|now rewrite app_nil_r]|exact I].
  - cbn [map] in Hnd. inversion Hnd as [|? ? Hnot Hnd']; subst.
    destruct (ch0 =? c) eqn:Ec.
    + apply N.eqb_eq in Ec. subst ch0.
      specialize (IH (if i =? id then upd_chan chans (N.to_nat c) (fun ch => {| rc_q := rc_q ch ++ [ev]; rc_closed := rc_closed ch |}) else chans) c Hnd').
      rewrite (route_id_none t c Hnot) in IH. rewrite (N.eqb_sym id i).
      destruct (i =? id) eqn:Ei.
      * destruct (nth_error chans (N.to_nat c)) as [ch|] eqn:En.
        -- rewrite (nth_upd_same _ _ _ ch En) in IH. destruct (nth_error (fold_left _ t _) (N.to_nat c)); [|contradiction].
           cbn in IH. cbn beta iota. destruct IH as [I1 I2]. split; [exact I1|]. rewrite I2. cbn [rc_q]. now rewrite app_nil_r.
        -- assert (nth_error (upd_chan chans (N.to_nat c) (fun ch => {| rc_q := rc_q ch ++ [ev]; rc_closed := rc_closed ch |})) (N.to_nat c) = None).
           { apply nth_error_None. rewrite upd_length. now apply nth_error_None. }
           rewrite H in IH. exact IH.
      * destruct (nth_error chans (N.to_nat c)) as [ch|]; [|exact IH].
        destruct (nth_error (fold_left _ t _) (N.to_nat c)); [|contradiction]. exact IH.
    + apply N.eqb_neq in Ec.
      specialize (IH (if i =? id then upd_chan chans (N.to_nat ch0) (fun ch => {| rc_q := rc_q ch ++ [ev]; rc_closed := rc_closed ch |}) else chans) c Hnd').
      destruct (i =? id); [|exact IH].
      rewrite nth_upd_other in IH by lia. exact IH.
Qed.

Lemma remove_first_spec l c : let '(l', b) := remove_first l c in
  (b = true <-> In c (map snd l)) /\
  (forall c', c' <> c -> route_id l' c' = route_id l c') /\
  (NoDup (map snd l) -> NoDup (map snd l') /\ ~ In c (map snd l')) /\
  (forall x, In x l' -> In x l).
Proof.
  induction l as [|[i ch] t IH]; cbn [remove_first].
  - split; [split; [discriminate | intros []]|]. split; [reflexivity|]. split; [intros _; split; [constructor | intros []] | intros x []].
  - destruct (ch =? c) eqn:E.
    + apply N.eqb_eq in E. subst ch. split; [split; [intros _; now left | reflexivity]|].
      split; [intros c' Hc; cbn [route_id]; destruct (c =? c') eqn:E2; [apply N.eqb_eq in E2; congruence|reflexivity]|].
      split; [intros Hnd; cbn [map] in Hnd; inversion Hnd; subst; now split | intros x Hx; now right].
    + destruct (remove_first t c) as [t' b]. destruct IH as (I1 & I2 & I3 & I4). apply N.eqb_neq in E.
      split; [rewrite I1; cbn; split; [intros H; now right | intros [H|H]; [congruence|exact H]]|].
      split; [intros c' Hc; cbn [route_id]; destruct (ch =? c'); [reflexivity | now apply I2]|].
      split.
      * intros Hnd. cbn [map] in Hnd. inversion Hnd as [|? ? Hn Hnd']; subst. destruct (I3 Hnd') as [J1 J2].
        split; [cbn [map]; constructor; [|exact J1] | cbn; intros [H|H]; [congruence | contradiction]].
        intros Hin. apply Hn. apply in_map_iff in Hin. destruct Hin as (x & Hx1 & Hx2). apply in_map_iff. exists x. split; [exact Hx1 | now apply I4].
      * intros x [<-|Hx]; [now left | right; now apply I4].
Qed.

Lemma NoDup_app_snoc {A} (l : list A) x : NoDup l -> ~ In x l -> NoDup (l ++ [x]).
Proof.
  induction l as [|a t IH]; intros Hn Hx; cbn; [repeat constructor; auto|].
  inversion Hn as [|? ? Ha Ht]; subst. constructor.
  - intros Hin. apply in_app_or in Hin. destruct Hin as [Hin|[<-|[]]]; [contradiction|]. apply Hx. now left.
  - apply IH; [exact Ht|]. intros Hin. apply Hx. now right.
Qed.

Lemma route_id_app l i c c' : route_id (l ++ [(i, c)]) c' = match route_id l c' with Some j => Some j | None => if c =? c' then Some i else None end.
Proof. induction l as [|[j ch] t IH]; cbn [app route_id]; [reflexivity|]. destruct (ch =? c'); [reflexivity|exact IH]. Qed.

Lemma chan_q_closed_pub r id ev c : wf r ->
  let r' := rstep r (RPub id ev) in
  wf r' /\ length (r_chans r') = length (r_chans r) /\ r_routes r' = r_routes r /\ chan_closed r' c = chan_closed r c /\
  chan_q r' c = chan_q r c ++ (match route_id (r_routes r) c with Some j => if id =? j then [ev] else [] | None => [] end).
Proof.
  intros [W1 W2]. cbn [rstep]. set (f := fun chans rt => _).
  assert (Hlen : forall routes chans, length (fold_left f routes chans) = length chans).
  { induction routes as [|rt t IH]; intros chans; cbn [fold_left]; [reflexivity|]. rewrite IH. unfold f. destruct (fst rt =? id); [apply upd_length|reflexivity]. }
  assert (Hc : forall c0, chan_closed {| r_routes := r_routes r; r_chans := fold_left f (r_routes r) (r_chans r) |} c0 = chan_closed r c0 /\
                          chan_q {| r_routes := r_routes r; r_chans := fold_left f (r_routes r) (r_chans r) |} c0 =
                          chan_q r c0 ++ (match route_id (r_routes r) c0 with Some j => if id =? j then [ev] else [] | None => [] end)).
  { intros c0. unfold chan_closed, chan_q. cbn [r_chans]. pose proof (pub_fold id ev (r_routes r) (r_chans r) c0 W1) as P. fold f in P.
    destruct (nth_error (fold_left f (r_routes r) (r_chans r)) (N.to_nat c0)) as [ch'|]; destruct (nth_error (r_chans r) (N.to_nat c0)) as [ch|] eqn:En; try contradiction.
    - destruct P as [P1 P2]. now split.
    - split; [reflexivity|]. destruct (route_id (r_routes r) c0) as [j|] eqn:Er; [|reflexivity].
      exfalso. apply route_id_some_in in Er. rewrite Forall_forall in W2. destruct (W2 _ Er) as [A _]. cbn [snd] in A.
      apply nth_error_None in En. lia. }
  split; [|split; [apply Hlen|split; [reflexivity|apply Hc]]].
  split; [exact W1|]. cbn [r_routes r_chans]. rewrite Forall_forall in *. intros rt Hrt. specialize (W2 rt Hrt). destruct W2 as [A B].
  split; [now rewrite Hlen | rewrite (proj1 (Hc (snd rt))); exact B].
Qed.

Lemma step_sub r i c : wf r ->
  let r' := rstep r (RSub i) in
  wf r' /\ length (r_chans r') = S (length (r_chans r)) /\
  ((N.to_nat c < length (r_chans r))%nat -> chan_q r' c = chan_q r c /\ route_id (r_routes r') c = route_id (r_routes r) c) /\
  (N.to_nat c = length (r_chans r) -> chan_q r' c = [] /\ route_id (r_routes r') c = Some i).
Proof.
  intros [W1 W2]. cbn [rstep r_routes r_chans].
  assert (Hfresh : ~ In (N.of_nat (length (r_chans r))) (map snd (r_routes r))).
  { intros Hin. apply in_map_iff in Hin. destruct Hin as (rt & E & Hrt). rewrite Forall_forall in W2. destruct (W2 rt Hrt) as [A _]. lia. }
  split; [|split; [rewrite app_length; cbn; lia|split]].
  - split.
    + cbn [r_routes]. rewrite map_app. cbn [map snd]. apply NoDup_app_snoc; assumption.
    + cbn [r_routes r_chans]. apply Forall_app. split.
      * rewrite Forall_forall in *. intros rt Hrt. destruct (W2 rt Hrt) as [A B]. split; [rewrite app_length; cbn; lia|].
        unfold chan_closed in *. cbn [r_chans]. rewrite nth_error_app1 by exact A. exact B.
      * constructor; [|constructor]. cbn [snd]. split; [rewrite app_length, Nat2N.id; cbn; lia|].
        unfold chan_closed. cbn [r_chans]. rewrite Nat2N.id, nth_error_app2 by lia. rewrite Nat.sub_diag. reflexivity.
  - intros Hc. split.
    + unfold chan_q. cbn [r_chans]. now rewrite nth_error_app1.
    + rewrite route_id_app. destruct (route_id (r_routes r) c); [reflexivity|].
      destruct (N.of_nat (length (r_chans r)) =? c) eqn:E; [apply N.eqb_eq in E; lia|reflexivity].
  - intros Hc. split.
    + unfold chan_q. cbn [r_chans]. rewrite nth_error_app2 by lia. rewrite Hc, Nat.sub_diag. reflexivity.
    + rewrite route_id_app. assert (route_id (r_routes r) c = None) as ->.
      { apply route_id_none. intros Hin. apply Hfresh. replace (N.of_nat (length (r_chans r))) with c by lia. exact Hin. }
      replace (N.of_nat (length (r_chans r)) =? c) with true by (symmetry; apply N.eqb_eq; lia). reflexivity.
Qed.

Lemma step_unsub r c' c : wf r ->
  let r' := rstep r (RUnsub c') in
  wf r' /\ length (r_chans r') = length (r_chans r) /\ chan_q r' c = chan_q r c /\
  route_id (r_routes r') c = (if c' =? c then None else route_id (r_routes r) c).
Proof.
  intros [W1 W2]. cbn [rstep]. pose proof (remove_first_spec (r_routes r) c') as R.
  destruct (remove_first (r_routes r) c') as [rs found]. destruct R as (R1 & R2 & R3 & R4).
  destruct found.
  - destruct (R3 W1) as [N1 N2].
    assert (Hq : forall c0, chan_q {| r_routes := rs; r_chans := upd_chan (r_chans r) (N.to_nat c') (fun ch => {| rc_q := rc_q ch; rc_closed := true |}) |} c0 = chan_q r c0).
    { intros c0. unfold chan_q. cbn [r_chans]. destruct (N.eq_dec c' c0) as [->|Hne].
      - destruct (nth_error (r_chans r) (N.to_nat c0)) as [ch|] eqn:En; [now rewrite (nth_upd_same _ _ _ ch En)|].
        assert (nth_error (upd_chan (r_chans r) (N.to_nat c0) (fun ch => {| rc_q := rc_q ch; rc_closed := true |})) (N.to_nat c0) = None) as -> by (apply nth_error_None; rewrite upd_length; now apply nth_error_None).
        reflexivity.
      - rewrite nth_upd_other by lia. reflexivity. }
    split; [|split; [apply upd_length|split; [apply Hq|]]].
    + split; [exact N1|]. cbn [r_routes r_chans]. rewrite Forall_forall in *. intros rt Hrt. destruct (W2 rt (R4 rt Hrt)) as [A B].
      split; [now rewrite upd_length|]. unfold chan_closed in *. cbn [r_chans].
      assert (Hne : snd rt <> c') by (intros He; apply N2; apply in_map_iff; exists rt; split; [exact He|exact Hrt]).
      rewrite nth_upd_other by lia. exact B.
    + cbn [r_routes]. destruct (c' =? c) eqn:E; [apply N.eqb_eq in E; subst c'; now apply route_id_none|].
      apply N.eqb_neq in E. apply R2. congruence.
  - split; [now split|]. split; [reflexivity|]. split; [reflexivity|].
    destruct (c' =? c) eqn:E; [|reflexivity]. apply N.eqb_eq in E. subst c'.
    apply route_id_none. intros Hin. apply R1 in Hin. discriminate.
Qed.

(* the state of channel c so far, and what is still to come *)
Theorem router_delivers_from : forall ops r c, wf r ->
  ((N.to_nat c < length (r_chans r))%nat ->
   chan_q (fold_left rstep ops r) c = chan_q r c ++ expected ops (N.of_nat (length (r_chans r))) (route_id (r_routes r) c) c) /\
  ((length (r_chans r) <= N.to_nat c)%nat ->
   chan_q (fold_left rstep ops r) c = expected ops (N.of_nat (length (r_chans r))) None c).
Proof.
  induction ops as [|op t IH]; intros r c W; cbn [fold_left expected].
  - split; intros H; [now rewrite app_nil_r|]. unfold chan_q. assert (nth_error (r_chans r) (N.to_nat c) = None) as -> by (now apply nth_error_None). reflexivity.
  - destruct op as [i | c' | i e].
    + destruct (step_sub r i c W) as (W' & L & S1 & S2). destruct (IH (rstep r (RSub i)) c W') as [I1 I2].
      rewrite L in I1, I2. rewrite Nat2N.inj_succ, <- N.add_1_r in I1, I2.
      split; intros H.
      * destruct (S1 H) as [Q R]. replace (N.of_nat (length (r_chans r)) =? c) with false by (symmetry; apply N.eqb_neq; lia).
        rewrite I1 by lia. now rewrite Q, R.
      * destruct (Nat.eq_dec (N.to_nat c) (length (r_chans r))) as [He|Hne].
        -- destruct (S2 He) as [Q R]. replace (N.of_nat (length (r_chans r)) =? c) with true by (symmetry; apply N.eqb_eq; lia).
           rewrite I1 by lia. now rewrite Q, R.
        -- replace (N.of_nat (length (r_chans r)) =? c) with false by (symmetry; apply N.eqb_neq; lia). apply I2. lia.
    + destruct (step_unsub r c' c W) as (W' & L & Q & R). destruct (IH (rstep r (RUnsub c')) c W') as [I1 I2].
      rewrite L in I1, I2. split; intros H.
      * rewrite I1 by exact H. rewrite Q, R. destruct (c' =? c); reflexivity.
      * rewrite I2 by exact H. destruct (c' =? c); reflexivity.
    + destruct (chan_q_closed_pub r i e c W) as (W' & L & Rt & _ & Q). destruct (IH (rstep r (RPub i e)) c W') as [I1 I2].
      rewrite L in I1, I2. rewrite Rt in I1. split; intros H.
      * rewrite I1 by exact H. rewrite Q. destruct (route_id (r_routes r) c) as [j|]; [destruct (i =? j)|]; now rewrite <- app_assoc.
      * apply I2. exact H.
Qed.

(* every subscription receives exactly the events published for its identifier while it is
   subscribed, once each, in publication order - and nobody else's *)
Theorem router_delivers ops c : chan_q (rrun ops) c = expected ops 0 None c.
Proof.
  unfold rrun. destruct (router_delivers_from ops empty_router c) as [_ H].
  - split; [constructor|constructor].
  - apply H. cbn. lia.
Qed.

(* routed channels are open: nothing is ever delivered on a closed subscription, and a channel
   is closed only by removing its route, hence at most once *)
Theorem routed_channels_open ops : wf (rrun ops).
Proof.
  unfold rrun. assert (G : forall ops r, wf r -> wf (fold_left rstep ops r)).
  { induction ops0 as [|op t IH]; intros r W; cbn [fold_left]; [exact W|]. apply IH.
    destruct op as [i|c'|i e]; [exact (proj1 (step_sub r i 0 W)) | exact (proj1 (step_unsub r c' 0 W)) | exact (proj1 (chan_q_closed_pub r i e 0 W))]. }
  apply G. split; constructor.
Qed.
