(* Laws of the abstract registry (Spec/AbsRegistry.v): what was accepted is what every later read
   returns; other entities are untouched; a rejected request leaves nothing; a deleted entity is gone. *)
From Lospan Require Import Base.Bytes Model.RegistryTypes Spec.AbsRegistry Proof.BitLemmas.
Open Scope N_scope.

Definition dev_at (s : astore) (e : N) : option rdev := find (fun x => rd_eui x =? e) (a_devs s).
Definition app_at (s : astore) (e : N) : option rapp := find (fun x => ap_eui x =? e) (a_apps s).
Definition gw_at (s : astore) (e : N) : option gway := find (fun x => gw_eui x =? e) (a_gws s).
Definition inbox_of (s : astore) (e : N) : list upm := filter (fun x => up_eui x =? e) (a_ups s).
Definition outbox_of (s : astore) (e : N) : list downm := filter (fun x => dn_eui x =? e) (a_downs s).

(* ---- a rejected request leaves no partial record; reads write nothing ---- *)
Theorem rejected_leaves_nothing s o :
  snd (a_step s o) = RFailed \/ snd (a_step s o) = RNotFound -> fst (a_step s o) = s.
Proof.
  destruct o; cbn [a_step]; try (intros _; reflexivity);
    try match goal with |- context [match find ?f ?l with _ => _ end] => destruct (find f l) end;
    try match goal with |- context [if ?c then _ else _] => destruct c end; cbn [fst snd]; intros [H|H]; try discriminate; reflexivity.
Qed.

(* ---- each operation writes at most its own table ---- *)
Definition table_of (o : regop) : N :=
  match o with
  | CreateApplication _ | DeleteApplication _ => 1
  | CreateDevice _ | UpdateDevice _ | UpdateDeviceState _ _ _ _ | DeleteDevice _ | AdvanceFCntUp _ _ _ _ _ | NextFCntDn _ _ => 2
  | AddDevNonce _ _ => 3
  | CreateGateway _ | UpdateGateway _ | DeleteGateway _ => 4
  | CreateUpstreamMessage _ => 5
  | CreateDownstreamMessage _ | DeleteDownstreamMessage _ _ | SetMessageSentTime _ _ _ _ | UpdateMessageAckTime _ _ _ | ResetActiveAcks _ => 6
  | _ => 0
  end.
Theorem only_own_table s o :
  (table_of o <> 1 -> a_apps (fst (a_step s o)) = a_apps s) /\
  (table_of o <> 2 -> a_devs (fst (a_step s o)) = a_devs s) /\
  (table_of o <> 3 -> a_nonces (fst (a_step s o)) = a_nonces s) /\
  (table_of o <> 4 -> a_gws (fst (a_step s o)) = a_gws s) /\
  (table_of o <> 5 -> a_ups (fst (a_step s o)) = a_ups s) /\
  (table_of o <> 6 -> a_downs (fst (a_step s o)) = a_downs s).
Proof.
  destruct o; cbn [a_step table_of];
    try match goal with |- context [match find ?f ?l with _ => _ end] => destruct (find f l) end;
    try match goal with |- context [if ?c then _ else _] => destruct c end; cbn; repeat split; intros H; try reflexivity; now exfalso.
Qed.

(* ---- generic facts about find over append / filter / map ---- *)
Section Find.
  Context {A : Type} (key : A -> N).
  Lemma find_app_new l x e : existsb (fun y => key y =? key x) l = false ->
    find (fun y => key y =? e) (l ++ [x]) = if key x =? e then Some x else find (fun y => key y =? e) l.
  Proof.
    intros Hn. induction l as [|h t IH]; cbn.
    - destruct (key x =? e); reflexivity.
    - cbn in Hn. apply orb_false_iff in Hn. destruct Hn as [Hh Ht]. destruct (N.eqb_spec (key h) e) as [E|E].
      + destruct (N.eqb_spec (key x) e) as [E2|E2]; [|reflexivity]. exfalso. apply N.eqb_neq in Hh. congruence.
      + now apply IH.
  Qed.
  Lemma find_filter_other l e k : e <> k ->
    find (fun y => key y =? e) (filter (fun y => negb (key y =? k)) l) = find (fun y => key y =? e) l.
  Proof.
    intros Hne. induction l as [|h t IH]; [reflexivity|]. cbn. destruct (N.eqb_spec (key h) k) as [E|E]; cbn.
    - destruct (N.eqb_spec (key h) e) as [E2|E2]; [congruence | exact IH].
    - destruct (key h =? e); [reflexivity | exact IH].
  Qed.
  Lemma find_filter_same l e : find (fun y => key y =? e) (filter (fun y => negb (key y =? e)) l) = None.
  Proof.
    induction l as [|h t IH]; [reflexivity|]. cbn. destruct (N.eqb_spec (key h) e) as [E|E]; cbn; [exact IH|].
    apply N.eqb_neq in E. now rewrite E.
  Qed.
  Lemma filter_same_absent l e x : In x (filter (fun y => negb (key y =? e)) l) -> key x <> e.
  Proof. intros H. apply filter_In in H. destruct H as [_ H]. apply negb_true_iff, N.eqb_neq in H. exact H. Qed.
  Lemma find_map_upd l e k (f : A -> A) : (forall y, key (f y) = key y) ->
    find (fun y => key y =? e) (map (fun y => if key y =? k then f y else y) l)
    = if e =? k then option_map f (find (fun y => key y =? e) l) else find (fun y => key y =? e) l.
  Proof.
    intros Hk. induction l as [|h t IH]; cbn; [now destruct (e =? k)|].
    destruct (N.eqb_spec (key h) k) as [E|E].
    - rewrite Hk. destruct (N.eqb_spec (key h) e) as [E2|E2].
      + assert (e = k) by congruence. subst. now rewrite N.eqb_refl.
      + exact IH.
    - destruct (N.eqb_spec (key h) e) as [E2|E2]; [|exact IH].
      destruct (N.eqb_spec e k); [congruence | reflexivity].
  Qed.
End Find.

(* ---- devices ---- *)
Definition dev_target (o : regop) : option N :=
  match o with
  | CreateDevice d | UpdateDevice d => Some (rd_eui d)
  | UpdateDeviceState e _ _ _ | DeleteDevice e | AdvanceFCntUp e _ _ _ _ | NextFCntDn e _ => Some e
  | _ => None
  end.
Theorem device_untouched_by_others s o e : dev_target o <> Some e -> dev_at (fst (a_step s o)) e = dev_at s e.
Proof.
  intros Ht. unfold dev_at. destruct (N.eq_dec (table_of o) 2) as [E2|E2].
  2:{ now rewrite (proj1 (proj2 (only_own_table s o)) E2). }
  destruct o; cbn [table_of] in E2; try discriminate; cbn [dev_target] in Ht; cbn [a_step].
  - destruct (existsb _ (a_devs s)) eqn:Ex; cbn; [reflexivity|]. rewrite (find_app_new rd_eui) by exact Ex.
    destruct (N.eqb_spec (rd_eui d) e); [congruence|reflexivity].
  - destruct (existsb _ (a_devs s)); cbn; [|reflexivity]. rewrite (find_map_upd rd_eui) by reflexivity.
    destruct (N.eqb_spec e (rd_eui d)); [congruence|reflexivity].
  - destruct (existsb _ (a_devs s)); cbn; [|reflexivity]. rewrite (find_map_upd rd_eui) by reflexivity.
    destruct (N.eqb_spec e e0); [congruence|reflexivity].
  - destruct (existsb _ (a_devs s)); cbn; [|reflexivity]. apply (find_filter_other rd_eui). congruence.
  - (* AdvanceFCntUp *)
    destruct (existsb _ (a_devs s)); cbn; [|reflexivity].
    rewrite (map_ext _ (fun y => if rd_eui y =? e0 then (if (rd_fup y <=? accepted) && bytes_eqb (rd_nwkskey y) key then upd_dev_state y newfup (rd_fdn y) kw else y) else y))
      by (intros y; destruct (rd_eui y =? e0), (rd_fup y <=? accepted), (bytes_eqb (rd_nwkskey y) key); reflexivity).
    rewrite (find_map_upd rd_eui) by (intros y; destruct ((rd_fup y <=? accepted) && bytes_eqb (rd_nwkskey y) key); reflexivity).
    destruct (N.eqb_spec e e0); [congruence|reflexivity].
  - (* NextFCntDn *)
    destruct (find _ (a_devs s)); cbn; [|reflexivity].
    rewrite (map_ext _ (fun y => if rd_eui y =? e0 then (if bytes_eqb (rd_nwkskey y) key then upd_dev_state y (rd_fup y) ((rd_fdn y + 1) mod 65536) (rd_kw y) else y) else y))
      by (intros y; destruct (rd_eui y =? e0), (bytes_eqb (rd_nwkskey y) key); reflexivity).
    rewrite (find_map_upd rd_eui) by (intros y; destruct (bytes_eqb (rd_nwkskey y) key); reflexivity).
    destruct (N.eqb_spec e e0); [congruence|reflexivity].
Qed.
Theorem created_device_is_returned s d : snd (a_step s (CreateDevice d)) = ROk ->
  dev_at (fst (a_step s (CreateDevice d))) (rd_eui d) = Some d.
Proof.
  cbn [a_step]. destruct (existsb _ (a_devs s)) eqn:Ex; cbn; [discriminate|]. intros _. unfold dev_at. cbn.
  rewrite (find_app_new rd_eui) by exact Ex. now rewrite N.eqb_refl.
Qed.
Theorem updated_device_is_returned s d : snd (a_step s (UpdateDevice d)) = ROk ->
  dev_at (fst (a_step s (UpdateDevice d))) (rd_eui d) = option_map (fun old => upd_dev old d) (dev_at s (rd_eui d)).
Proof.
  cbn [a_step]. destruct (existsb _ (a_devs s)); cbn; [|discriminate]. intros _. unfold dev_at. cbn.
  rewrite (find_map_upd rd_eui) by reflexivity. now rewrite N.eqb_refl.
Qed.
Theorem device_state_update_is_returned s e fup fdn kw : snd (a_step s (UpdateDeviceState e fup fdn kw)) = ROk ->
  dev_at (fst (a_step s (UpdateDeviceState e fup fdn kw))) e = option_map (fun old => upd_dev_state old fup fdn kw) (dev_at s e).
Proof.
  cbn [a_step]. destruct (existsb _ (a_devs s)); cbn; [|discriminate]. intros _. unfold dev_at. cbn.
  rewrite (find_map_upd rd_eui) by reflexivity. now rewrite N.eqb_refl.
Qed.
(* AdvanceFCntUp is a compare-and-store within a session: whatever it answers, the device's expected uplink counter
   (and key warning) change exactly when the stored counter had not passed the accepted one AND the device still has the
   given network session key; it answers ROk exactly then *)
Theorem advance_is_compare_and_store s e key a nf kw :
  dev_at (fst (a_step s (AdvanceFCntUp e key a nf kw))) e
  = option_map (fun old => if (rd_fup old <=? a) && bytes_eqb (rd_nwkskey old) key then upd_dev_state old nf (rd_fdn old) kw else old) (dev_at s e).
Proof.
  cbn [a_step]. destruct (existsb _ (a_devs s)) eqn:Ex; cbn [fst].
  - unfold dev_at. cbn.
    rewrite (map_ext _ (fun y => if rd_eui y =? e then (if (rd_fup y <=? a) && bytes_eqb (rd_nwkskey y) key then upd_dev_state y nf (rd_fdn y) kw else y) else y))
      by (intros y; destruct (rd_eui y =? e), (rd_fup y <=? a), (bytes_eqb (rd_nwkskey y) key); reflexivity).
    rewrite (find_map_upd rd_eui) by (intros y; destruct ((rd_fup y <=? a) && bytes_eqb (rd_nwkskey y) key); reflexivity). now rewrite N.eqb_refl.
  - unfold dev_at. destruct (find _ (a_devs s)) as [d|] eqn:F; cbn [option_map]; [|reflexivity].
    apply find_some in F. destruct F as [Hin Hk].
    assert (H : (rd_eui d =? e) && (rd_fup d <=? a) && bytes_eqb (rd_nwkskey d) key = false).
    { destruct ((rd_eui d =? e) && (rd_fup d <=? a) && bytes_eqb (rd_nwkskey d) key) eqn:Hh; [|reflexivity]. exfalso.
      assert (existsb (fun x => (rd_eui x =? e) && (rd_fup x <=? a) && bytes_eqb (rd_nwkskey x) key) (a_devs s) = true) by (apply existsb_exists; eauto). congruence. }
    rewrite Hk in H. cbn [andb] in H. now rewrite H.
Qed.
Theorem advance_answers_found_iff_stored s e key a nf kw :
  snd (a_step s (AdvanceFCntUp e key a nf kw)) = ROk <-> exists d, In d (a_devs s) /\ rd_eui d = e /\ rd_fup d <= a /\ rd_nwkskey d = key.
Proof.
  cbn [a_step]. destruct (existsb _ (a_devs s)) eqn:Ex; cbn [snd].
  - split; [intros _|reflexivity]. apply existsb_exists in Ex. destruct Ex as (d & Hin & Hh). apply andb_true_iff in Hh.
    destruct Hh as [Hh H3]. apply andb_true_iff in Hh. destruct Hh as [H1 H2]. exists d. apply N.eqb_eq in H1. apply N.leb_le in H2. apply bytes_eqb_spec in H3. auto.
  - split; [discriminate|]. intros (d & Hin & H1 & H2 & H3). exfalso.
    assert (existsb (fun x => (rd_eui x =? e) && (rd_fup x <=? a) && bytes_eqb (rd_nwkskey x) key) (a_devs s) = true).
    { apply existsb_exists. exists d. split; [exact Hin|]. rewrite !andb_true_iff. split; [split; [now apply N.eqb_eq | now apply N.leb_le] | now apply bytes_eqb_spec]. }
    congruence.
Qed.
(* with one device per EUI, looking for "EUI e in session key" is looking at the device e and at its key *)
Lemma find_in_session s e (c : rdev -> bool) : NoDup (map rd_eui (a_devs s)) ->
  find (fun x => (rd_eui x =? e) && c x) (a_devs s) = match dev_at s e with Some d => if c d then Some d else None | None => None end.
Proof.
  unfold dev_at. induction (a_devs s) as [|h t IH]; intros Hn; [reflexivity|]. cbn [find map] in *. inversion Hn as [|? ? Hh Ht]; subst.
  destruct (N.eqb_spec (rd_eui h) e) as [E|E]; cbn [andb]; [|now apply IH].
  destruct (c h); [reflexivity|].
  (* no other row has this EUI *)
  assert (Hnone : forall l, ~ In e (map rd_eui l) -> find (fun x => (rd_eui x =? e) && c x) l = None).
  { clear. induction l as [|a l IHl]; intros Hn; [reflexivity|]. cbn [find map] in *.
    destruct (N.eqb_spec (rd_eui a) e) as [Ea|Ea]; [exfalso; apply Hn; now left|]. cbn [andb]. apply IHl. intros Hi. apply Hn. now right. }
  apply Hnone. now rewrite <- E.
Qed.
(* NextFCntDn is a fetch-and-increment within a session: the stored downlink counter is handed out and its successor
   (mod 2^16) stored - if the device still has the given network session key; otherwise nothing happens *)
Theorem next_is_fetch_and_increment s e key : NoDup (map rd_eui (a_devs s)) ->
  snd (a_step s (NextFCntDn e key)) = match dev_at s e with Some d => if bytes_eqb (rd_nwkskey d) key then RCnt (rd_fdn d) else RNotFound | None => RNotFound end /\
  dev_at (fst (a_step s (NextFCntDn e key))) e
  = option_map (fun old => if bytes_eqb (rd_nwkskey old) key then upd_dev_state old (rd_fup old) ((rd_fdn old + 1) mod 65536) (rd_kw old) else old) (dev_at s e).
Proof.
  intros Hn. cbn [a_step]. rewrite (find_in_session s e (fun x => bytes_eqb (rd_nwkskey x) key) Hn).
  destruct (dev_at s e) as [d|] eqn:F; cbn [option_map]; [|cbn [fst snd]; now rewrite F].
  destruct (bytes_eqb (rd_nwkskey d) key) eqn:K; cbn [fst snd]; [|split; [reflexivity | exact F]].
  split; [reflexivity|]. unfold dev_at in *. cbn [a_devs set_devs].
  rewrite (map_ext _ (fun y => if rd_eui y =? e then (if bytes_eqb (rd_nwkskey y) key then upd_dev_state y (rd_fup y) ((rd_fdn y + 1) mod 65536) (rd_kw y) else y) else y))
    by (intros y; destruct (rd_eui y =? e), (bytes_eqb (rd_nwkskey y) key); reflexivity).
  rewrite (find_map_upd rd_eui) by (intros y; destruct (bytes_eqb (rd_nwkskey y) key); reflexivity). rewrite N.eqb_refl, F. cbn [option_map]. now rewrite K.
Qed.
Theorem deleted_device_is_gone s e : snd (a_step s (DeleteDevice e)) = ROk ->
  dev_at (fst (a_step s (DeleteDevice e))) e = None /\ forall x, In x (a_devs (fst (a_step s (DeleteDevice e)))) -> rd_eui x <> e.
Proof.
  cbn [a_step]. destruct (existsb _ (a_devs s)); cbn; [|discriminate]. intros _. split.
  - apply (find_filter_same rd_eui).
  - intros x. apply (filter_same_absent rd_eui).
Qed.
(* what the reads return, in terms of the table *)
Theorem device_reads s :
  (forall e, snd (a_step s (GetDeviceByEUI e)) = match dev_at s e with Some d => RDev d (nonces_of s e) | None => RNotFound end) /\
  (forall e d n, In (d, n) (match snd (a_step s (GetDevicesByApplicationEUI e)) with RDevs l => l | _ => [] end)
                 <-> In d (a_devs s) /\ rd_app d = e /\ n = nonces_of s (rd_eui d)) /\
  (forall a d n, In (d, n) (match snd (a_step s (GetDeviceByDevAddr a)) with RDevs l => l | _ => [] end)
                 <-> In d (a_devs s) /\ rd_addr d = a /\ n = nonces_of s (rd_eui d)).
Proof.
  split; [reflexivity|]. split; intros k d n; cbn [a_step snd]; rewrite in_map_iff; split.
  - intros (x & Hx & Hin). apply filter_In in Hin. destruct Hin as [Hin Hk]. apply N.eqb_eq in Hk.
    unfold with_nonces in Hx. injection Hx as <- <-. tauto.
  - intros (Hin & Hk & ->). exists d. split; [reflexivity|]. apply filter_In. split; [exact Hin|]. now apply N.eqb_eq.
  - intros (x & Hx & Hin). apply filter_In in Hin. destruct Hin as [Hin Hk]. apply N.eqb_eq in Hk.
    unfold with_nonces in Hx. injection Hx as <- <-. tauto.
  - intros (Hin & Hk & ->). exists d. split; [reflexivity|]. apply filter_In. split; [exact Hin|]. now apply N.eqb_eq.
Qed.

(* at most one device per EUI, always *)
Definition unique_devs (s : astore) : Prop := NoDup (map rd_eui (a_devs s)).
Lemma NoDup_map_filter {A} (f : A -> N) p l : NoDup (map f l) -> NoDup (map f (filter p l)).
Proof.
  induction l as [|h t IH]; intros H; [constructor|]. cbn in *. inversion H as [|? ? Hn Ht]; subst.
  destruct (p h); cbn; [|now apply IH]. constructor; [|now apply IH].
  intros Hin. apply Hn. apply in_map_iff in Hin. destruct Hin as (x & Hx & Hf). apply filter_In in Hf. apply in_map_iff. exists x. tauto.
Qed.
Lemma NoDup_snoc {A} l (x : A) : NoDup l -> ~ In x l -> NoDup (l ++ [x]).
Proof.
  induction l as [|h t IH]; cbn; intros H Hn; [constructor; [intros []|constructor]|].
  inversion H as [|? ? Hh Ht]; subst. constructor; [|apply IH; tauto].
  rewrite in_app_iff. cbn. intros [Hi|[->|[]]]; tauto.
Qed.
Theorem one_device_per_eui s o : unique_devs s -> unique_devs (fst (a_step s o)).
Proof.
  unfold unique_devs. intros H. destruct (N.eq_dec (table_of o) 2) as [E2|E2].
  2:{ now rewrite (proj1 (proj2 (only_own_table s o)) E2). }
  destruct o; cbn [table_of] in E2; try discriminate; cbn [a_step].
  - destruct (existsb _ (a_devs s)) eqn:Ex; cbn; [exact H|]. rewrite map_app. cbn.
    apply NoDup_snoc; [exact H|]. intros Hin. apply in_map_iff in Hin. destruct Hin as (x & Hx & Hin).
    assert (existsb (fun x0 => rd_eui x0 =? rd_eui d) (a_devs s) = true) by (apply existsb_exists; exists x; split; [exact Hin | now apply N.eqb_eq]).
    congruence.
  - destruct (existsb _ (a_devs s)); cbn; [|exact H]. rewrite map_map.
    erewrite map_ext; [exact H|]. intros x. cbn. now destruct (rd_eui x =? rd_eui d).
  - destruct (existsb _ (a_devs s)); cbn; [|exact H]. rewrite map_map.
    erewrite map_ext; [exact H|]. intros x. cbn. now destruct (rd_eui x =? e).
  - destruct (existsb _ (a_devs s)); cbn; [|exact H]. now apply NoDup_map_filter.
  - destruct (existsb _ (a_devs s)); cbn; [|exact H]. rewrite map_map.
    erewrite map_ext; [exact H|]. intros x. cbn. now destruct ((rd_eui x =? e) && (rd_fup x <=? accepted) && bytes_eqb (rd_nwkskey x) key).
  - destruct (find _ (a_devs s)); cbn; [|exact H]. rewrite map_map.
    erewrite map_ext; [exact H|]. intros x. cbn. now destruct ((rd_eui x =? e) && bytes_eqb (rd_nwkskey x) key).
Qed.

(* ---- applications and gateways: same laws ---- *)
Definition app_target (o : regop) : option N :=
  match o with CreateApplication a => Some (ap_eui a) | DeleteApplication e => Some e | _ => None end.
Theorem application_laws s :
  (forall o e, app_target o <> Some e -> app_at (fst (a_step s o)) e = app_at s e) /\
  (forall a, snd (a_step s (CreateApplication a)) = ROk -> app_at (fst (a_step s (CreateApplication a))) (ap_eui a) = Some a) /\
  (forall e, snd (a_step s (DeleteApplication e)) = ROk -> app_at (fst (a_step s (DeleteApplication e))) e = None) /\
  (forall e, snd (a_step s (GetApplicationByEUI e)) = match app_at s e with Some a => RApp a | None => RNotFound end) /\
  snd (a_step s ListApplications) = RApps (a_apps s).
Proof.
  repeat split.
  - intros o e Ht. unfold app_at. destruct (N.eq_dec (table_of o) 1) as [E1|E1].
    2:{ now rewrite (proj1 (only_own_table s o) E1). }
    destruct o; cbn [table_of] in E1; try discriminate; cbn [app_target] in Ht; cbn [a_step].
    + destruct (existsb _ (a_apps s)) eqn:Ex; cbn; [reflexivity|]. rewrite (find_app_new ap_eui) by exact Ex.
      destruct (N.eqb_spec (ap_eui a) e); [congruence|reflexivity].
    + destruct (existsb _ (a_apps s)); cbn; [|reflexivity]. apply (find_filter_other ap_eui). congruence.
  - intros a. cbn [a_step]. destruct (existsb _ (a_apps s)) eqn:Ex; cbn; [discriminate|]. intros _. unfold app_at. cbn.
    rewrite (find_app_new ap_eui) by exact Ex. now rewrite N.eqb_refl.
  - intros e. cbn [a_step]. destruct (existsb _ (a_apps s)); cbn; [|discriminate]. intros _. apply (find_filter_same ap_eui).
Qed.
Definition gw_target (o : regop) : option N :=
  match o with CreateGateway g | UpdateGateway g => Some (gw_eui g) | DeleteGateway e => Some e | _ => None end.
Theorem gateway_laws s :
  (forall o e, gw_target o <> Some e -> gw_at (fst (a_step s o)) e = gw_at s e) /\
  (forall g, snd (a_step s (CreateGateway g)) = ROk -> gw_at (fst (a_step s (CreateGateway g))) (gw_eui g) = Some g) /\
  (forall g, snd (a_step s (UpdateGateway g)) = ROk ->
             gw_at (fst (a_step s (UpdateGateway g))) (gw_eui g) = option_map (fun old => upd_gw old g) (gw_at s (gw_eui g))) /\
  (forall e, snd (a_step s (DeleteGateway e)) = ROk -> gw_at (fst (a_step s (DeleteGateway e))) e = None) /\
  (forall e, snd (a_step s (GetGateway e)) = match gw_at s e with Some g => RGw g | None => RNotFound end) /\
  snd (a_step s GetGatewayList) = RGws (a_gws s).
Proof.
  repeat split.
  - intros o e Ht. unfold gw_at. destruct (N.eq_dec (table_of o) 4) as [E1|E1].
    2:{ now rewrite (proj1 (proj2 (proj2 (proj2 (only_own_table s o)))) E1). }
    destruct o; cbn [table_of] in E1; try discriminate; cbn [gw_target] in Ht; cbn [a_step].
    + destruct (existsb _ (a_gws s)) eqn:Ex; cbn; [reflexivity|]. rewrite (find_app_new gw_eui) by exact Ex.
      destruct (N.eqb_spec (gw_eui g) e); [congruence|reflexivity].
    + destruct (existsb _ (a_gws s)); cbn; [|reflexivity]. rewrite (find_map_upd gw_eui) by reflexivity.
      destruct (N.eqb_spec e (gw_eui g)); [congruence|reflexivity].
    + destruct (existsb _ (a_gws s)); cbn; [|reflexivity]. apply (find_filter_other gw_eui). congruence.
  - intros g. cbn [a_step]. destruct (existsb _ (a_gws s)) eqn:Ex; cbn; [discriminate|]. intros _. unfold gw_at. cbn.
    rewrite (find_app_new gw_eui) by exact Ex. now rewrite N.eqb_refl.
  - intros g. cbn [a_step]. destruct (existsb _ (a_gws s)); cbn; [|discriminate]. intros _. unfold gw_at. cbn.
    rewrite (find_map_upd gw_eui) by reflexivity. now rewrite N.eqb_refl.
  - intros e. cbn [a_step]. destruct (existsb _ (a_gws s)); cbn; [|discriminate]. intros _. apply (find_filter_same gw_eui).
Qed.

(* ---- nonces and messages: an accepted one is there from then on (until deleted, for downstream) ---- *)
Theorem nonce_laws s :
  (forall o e, (forall n, o <> AddDevNonce e n) -> nonces_of (fst (a_step s o)) e = nonces_of s e) /\
  (forall e n, snd (a_step s (AddDevNonce e n)) = ROk -> nonces_of (fst (a_step s (AddDevNonce e n))) e = nonces_of s e ++ [n]).
Proof.
  split.
  - intros o e Hn. unfold nonces_of. destruct (N.eq_dec (table_of o) 3) as [E|E].
    2:{ now rewrite (proj1 (proj2 (proj2 (only_own_table s o))) E). }
    destruct o; cbn [table_of] in E; try discriminate. cbn [a_step].
    destruct (existsb _ (a_nonces s)); cbn; [reflexivity|]. rewrite filter_app. cbn.
    destruct (N.eqb_spec e0 e) as [->|Hne]; [exfalso; now apply (Hn n)|]. cbn. now rewrite app_nil_r.
  - intros e n. cbn [a_step]. destruct (existsb _ (a_nonces s)); cbn; [discriminate|]. intros _. unfold nonces_of. cbn.
    rewrite filter_app. cbn. rewrite N.eqb_refl. now rewrite map_app.
Qed.
Theorem upstream_laws s :
  (forall o e, (forall m, o = CreateUpstreamMessage m -> up_eui m <> e) -> inbox_of (fst (a_step s o)) e = inbox_of s e) /\
  (forall m, snd (a_step s (CreateUpstreamMessage m)) = ROk ->
             inbox_of (fst (a_step s (CreateUpstreamMessage m))) (up_eui m) = inbox_of s (up_eui m) ++ [m]).
Proof.
  split.
  - intros o e Hn. unfold inbox_of. destruct (N.eq_dec (table_of o) 5) as [E|E].
    2:{ now rewrite (proj1 (proj2 (proj2 (proj2 (proj2 (only_own_table s o))))) E). }
    destruct o; cbn [table_of] in E; try discriminate. cbn [a_step].
    destruct (existsb _ (a_ups s)); cbn; [reflexivity|]. rewrite filter_app. cbn.
    destruct (N.eqb_spec (up_eui m) e) as [He|Hne]; [exfalso; now apply (Hn m)|]. now rewrite app_nil_r.
  - intros m. cbn [a_step]. destruct (existsb _ (a_ups s)); cbn; [discriminate|]. intros _. unfold inbox_of. cbn.
    rewrite filter_app. cbn. now rewrite N.eqb_refl.
Qed.
Definition down_target (o : regop) : option N :=
  match o with
  | CreateDownstreamMessage m => Some (dn_eui m)
  | DeleteDownstreamMessage e _ | SetMessageSentTime e _ _ _ | UpdateMessageAckTime e _ _ | ResetActiveAcks e => Some e
  | _ => None
  end.
Lemma filter_map_hit e (c : downm -> bool) (f : downm -> downm) l : (forall x, dn_eui (f x) = dn_eui x) ->
  filter (fun x => dn_eui x =? e) (map (fun x => if (dn_eui x =? e) && c x then f x else x) l)
  = map (fun x => if c x then f x else x) (filter (fun x => dn_eui x =? e) l).
Proof.
  intros Hf. induction l as [|h t IH]; [reflexivity|]. cbn [map filter].
  destruct (dn_eui h =? e) eqn:E1; cbn [andb map].
  - destruct (c h); [rewrite Hf|]; rewrite E1; now f_equal.
  - rewrite E1. exact IH.
Qed.
Theorem downstream_laws s :
  (forall o e, down_target o <> Some e -> outbox_of (fst (a_step s o)) e = outbox_of s e) /\
  (forall m, snd (a_step s (CreateDownstreamMessage m)) = ROk ->
             outbox_of (fst (a_step s (CreateDownstreamMessage m))) (dn_eui m) = outbox_of s (dn_eui m) ++ [m]) /\
  (forall e c, snd (a_step s (DeleteDownstreamMessage e c)) = ROk ->
               outbox_of (fst (a_step s (DeleteDownstreamMessage e c))) e = filter (fun x => negb (dn_created x =? c)%Z) (outbox_of s e)).
Proof.
  assert (Other : forall e e0 (c : downm -> bool) (f : downm -> downm) l, e0 <> e -> (forall x, dn_eui (f x) = dn_eui x) ->
    filter (fun x => dn_eui x =? e) (map (fun x => if (dn_eui x =? e0) && c x then f x else x) l) = filter (fun x => dn_eui x =? e) l).
  { intros e e0 c f l Hne Hf. induction l as [|h t IH]; [reflexivity|]. cbn [map filter].
    destruct (N.eqb_spec (dn_eui h) e0) as [E1|E1]; cbn [andb].
    - destruct (c h); [rewrite Hf|]; (replace (dn_eui h =? e) with false by (symmetry; apply N.eqb_neq; congruence)); exact IH.
    - destruct (dn_eui h =? e); [f_equal|]; exact IH. }
  repeat split.
  - intros o e Hn. unfold outbox_of. destruct (N.eq_dec (table_of o) 6) as [E|E].
    2:{ now rewrite (proj2 (proj2 (proj2 (proj2 (proj2 (only_own_table s o))))) E). }
    destruct o; cbn [table_of] in E; try discriminate; cbn [a_step down_target] in *.
    + destruct (existsb _ (a_downs s)); cbn; [reflexivity|]. rewrite filter_app. cbn.
      destruct (N.eqb_spec (dn_eui m) e) as [He|Hne]; [exfalso; apply Hn; now f_equal|]. now rewrite app_nil_r.
    + destruct (existsb _ (a_downs s)); cbn; [|reflexivity].
      assert (e0 <> e) by congruence.
      induction (a_downs s) as [|h t IH]; [reflexivity|]. cbn.
      destruct (N.eqb_spec (dn_eui h) e0) as [E1|E1]; cbn.
      * destruct (dn_created h =? created)%Z; cbn.
        -- destruct (N.eqb_spec (dn_eui h) e); [congruence | exact IH].
        -- destruct (dn_eui h =? e); [f_equal|]; exact IH.
      * destruct (dn_eui h =? e); [f_equal|]; exact IH.
    + destruct (existsb _ (a_downs s)); cbn [fst]; [|reflexivity]. cbn [a_downs set_downs]. apply Other; [congruence | reflexivity].
    + destruct (existsb _ (a_downs s)); cbn [fst]; [|reflexivity]. cbn [a_downs set_downs].
      rewrite (map_ext _ (fun x => if (dn_eui x =? e0) && ((dn_fcnt x =? fc) && (0 <? dn_sent x)%Z && (dn_acktime x =? 0)%Z) then dn_times x (dn_sent x) ackt (dn_fcnt x) else x))
        by (intros x; now rewrite !andb_assoc).
      apply Other; [congruence | reflexivity].
    + cbn [fst a_downs set_downs].
      rewrite (map_ext _ (fun x => if (dn_eui x =? e0) && ((0 <? dn_sent x)%Z && (dn_acktime x =? 0)%Z && dn_ack x) then dn_times x 0%Z (dn_acktime x) 0 else x))
        by (intros x; now rewrite !andb_assoc).
      apply Other; [congruence | reflexivity].
  - intros m. cbn [a_step]. destruct (existsb _ (a_downs s)); cbn; [discriminate|]. intros _. unfold outbox_of. cbn.
    rewrite filter_app. cbn. now rewrite N.eqb_refl.
  - intros e c. cbn [a_step]. destruct (existsb _ (a_downs s)); cbn; [|discriminate]. intros _. unfold outbox_of. cbn.
    induction (a_downs s) as [|h t IH]; [reflexivity|]. cbn.
    destruct (N.eqb_spec (dn_eui h) e) as [E1|E1]; cbn.
    + destruct (dn_created h =? c)%Z; cbn; [exact IH|]. apply N.eqb_eq in E1. rewrite E1. f_equal. exact IH.
    + apply N.eqb_neq in E1. rewrite E1. exact IH.
Qed.

(* the status operations, seen on the device's own queue: exactly the messages the condition names change,
   and only in their time / counter columns *)
Theorem message_status_laws s e :
  (forall c sent fc, outbox_of (fst (a_step s (SetMessageSentTime e c sent fc))) e
     = map (fun x => if (dn_created x =? c)%Z then dn_times x sent (dn_acktime x) fc else x) (outbox_of s e)) /\
  (forall fc ackt, outbox_of (fst (a_step s (UpdateMessageAckTime e fc ackt))) e
     = map (fun x => if (dn_fcnt x =? fc) && (0 <? dn_sent x)%Z && (dn_acktime x =? 0)%Z then dn_times x (dn_sent x) ackt (dn_fcnt x) else x) (outbox_of s e)) /\
  (outbox_of (fst (a_step s (ResetActiveAcks e))) e
     = map (fun x => if (0 <? dn_sent x)%Z && (dn_acktime x =? 0)%Z && dn_ack x then dn_times x 0%Z (dn_acktime x) 0 else x) (outbox_of s e)) /\
  (snd (a_step s (GetNextUnsentMessage e))
     = match sort_by dn_created (filter (fun x => (dn_sent x =? 0)%Z) (outbox_of s e)) with m :: _ => RDowns [m] | [] => RNotFound end).
Proof.
  unfold outbox_of. repeat split.
  - intros c sent fc. cbn [a_step]. destruct (existsb _ (a_downs s)) eqn:Ex; cbn [fst a_downs set_downs].
    + apply filter_map_hit. reflexivity.
    + (* no message of the device was created at c: nothing to change *)
      rewrite <- (map_id (filter _ (a_downs s))) at 1. apply map_ext_in. intros x Hx. apply filter_In in Hx. destruct Hx as [Hin He].
      destruct (dn_created x =? c)%Z eqn:Ec; [|reflexivity]. exfalso.
      assert (existsb (fun x0 => (dn_eui x0 =? e) && (dn_created x0 =? c)%Z) (a_downs s) = true) by (apply existsb_exists; exists x; now rewrite He, Ec).
      congruence.
  - intros fc ackt. cbn [a_step]. destruct (existsb _ (a_downs s)) eqn:Ex; cbn [fst a_downs set_downs].
    + rewrite (map_ext _ (fun x => if (dn_eui x =? e) && ((dn_fcnt x =? fc) && (0 <? dn_sent x)%Z && (dn_acktime x =? 0)%Z) then dn_times x (dn_sent x) ackt (dn_fcnt x) else x))
        by (intros x; now rewrite !andb_assoc).
      apply filter_map_hit. reflexivity.
    + rewrite <- (map_id (filter _ (a_downs s))) at 1. apply map_ext_in. intros x Hx. apply filter_In in Hx. destruct Hx as [Hin He].
      destruct ((dn_fcnt x =? fc) && (0 <? dn_sent x)%Z && (dn_acktime x =? 0)%Z) eqn:Ec; [|reflexivity]. exfalso.
      assert (existsb (fun x0 => (dn_eui x0 =? e) && (dn_fcnt x0 =? fc) && (0 <? dn_sent x0)%Z && (dn_acktime x0 =? 0)%Z) (a_downs s) = true).
      { apply existsb_exists. exists x. split; [exact Hin|]. rewrite <- !andb_assoc. rewrite He. cbn [andb]. rewrite !andb_assoc. exact Ec. }
      congruence.
  - cbn [a_step fst a_downs set_downs].
    rewrite (map_ext _ (fun x => if (dn_eui x =? e) && ((0 <? dn_sent x)%Z && (dn_acktime x =? 0)%Z && dn_ack x) then dn_times x 0%Z (dn_acktime x) 0 else x))
      by (intros x; now rewrite !andb_assoc).
    apply filter_map_hit. reflexivity.
  - cbn [a_step snd]. f_equal.
    assert (H : forall l, filter (fun x => (dn_eui x =? e) && (dn_sent x =? 0)%Z) l = filter (fun x => (dn_sent x =? 0)%Z) (filter (fun x => dn_eui x =? e) l)).
    { induction l as [|h t IH]; [reflexivity|]. cbn [filter]. destruct (dn_eui h =? e); cbn [andb filter]; [destruct (dn_sent h =? 0)%Z; now rewrite IH | exact IH]. }
    now rewrite H.
Qed.
