From Coq Require Import String.
From Lospan Require Import Base.Bytes Base.Outcome Model.CMAC Model.FrameTypes Model.Crypto Gen.Consts Model.MacCmd
  Model.Frame Model.Join Model.Store Model.Server Model.Steps Proof.BitLemmas Proof.LocalProof.
Open Scope N_scope.

Section StepsProof.
  Variable E D : list N -> list N -> list N.
  Variable apps : list N.

  (* ---------- prun to completion = the sequential model ---------- *)
  Lemma run_enc_data fuel st dev p rx created now fin acc : (3 <= fuel)%nat ->
    prun apps fuel st (enc_data_prog E dev p rx created now fin) acc
    = (fst (encoder_data E st dev p rx created now), acc ++ snd (encoder_data E st dev p rx created now) ++ fin).
  Proof.
    intros Hf. unfold enc_data_prog, encoder_data.
    destruct (encode (downlink_frame dev p 0)); cbn [prun fst snd app]; try reflexivity.
    destruct fuel as [|[|[|fuel]]]; try lia. cbn [prun exec].
    destruct (l_next_fdn st) as [st1 [cn|]]; cbn [prun fst snd app]; rewrite ?app_nil_r; [|reflexivity].
    destruct (encode_message E (d_nwkskey dev) (d_appskey dev) (downlink_frame dev p cn)) as [buf|e|]; cbn [prun exec fst snd app]; try reflexivity.
    rewrite app_nil_r. destruct (length buf =? 0)%nat; cbn [prun exec fst snd app]; [reflexivity|]. now rewrite <- app_assoc.
  Qed.
  Lemma run_enc_join fuel st dev j rx fin acc : (2 <= fuel)%nat ->
    prun apps fuel st (enc_join_prog E D dev j rx fin) acc
    = (fst (encoder_join E D st dev j rx), acc ++ snd (encoder_join E D st dev j rx) ++ fin).
  Proof.
    intros Hf. unfold enc_join_prog, encoder_join. destruct fuel as [|[|fuel]]; try lia. cbn [prun exec].
    destruct (l_update_device_state _ _) as [st1 [e|]]; cbn [prun fst snd app]; [now rewrite app_nil_r|]. rewrite app_nil_r.
    destruct (encode_join_accept E D (d_appkey dev) JoinAccept c_MaxSupportedVersion j) as [buf|e|]; cbn [prun exec fst snd app]; try reflexivity.
    now rewrite <- app_assoc.
  Qed.
  Lemma run_send fuel st dev rx created now fin acc : (4 <= fuel)%nat ->
    prun apps fuel st (send_prog E D dev rx created now fin) acc
    = (fst (send_for E D st dev rx created now), acc ++ snd (send_for E D st dev rx created now) ++ fin).
  Proof.
    intros Hf. unfold send_prog, send_for. destruct fuel as [|fuel]; try lia. cbn [prun exec].
    destruct (l_get_phy st (r_datr (rx_radio rx))) as [st1 [| |p]]; cbn [prun fst snd app]; rewrite ?app_nil_r; try reflexivity.
    destruct (po_mtype p =? JoinAccept).
    - destruct (po_ja p); apply run_enc_join; lia.
    - destruct (mtype_uplink (po_mtype p) || (po_mtype p =? RFU) || (po_mtype p =? Proprietary)); cbn [prun fst snd app]; [reflexivity|].
      apply run_enc_data. lia.
  Qed.
  Lemma run_queue fuel st dev1 f rx now fin acc : (9 <= fuel)%nat ->
    prun apps fuel st (queue_prog E D dev1 f rx now fin) acc
    = (fst (send_for E D (fst (pm_queue st f now)) dev1 rx (snd (pm_queue st f now)) now),
       acc ++ snd (send_for E D (fst (pm_queue st f now)) dev1 rx (snd (pm_queue st f now)) now) ++ fin).
  Proof.
    intros Hf. unfold queue_prog, pm_queue.
    assert (After : forall fuel' st4 acc', (7 <= fuel')%nat ->
      prun apps fuel' st4
        (Do SGetNextUnsent (fun r => match r with
           | XMsg (Some m) => Do (SSetPayload (m_data m) (m_port m) (m_ack m)) (fun _ =>
                              Do (SSetSentTime (m_created m) now (fcnt f)) (fun _ => send_prog E D dev1 rx (m_created m) now fin))
           | _ => send_prog E D dev1 rx 0 now fin end)) acc'
      = (let q := match l_get_next_unsent st4 with
                  | Some m => (l_set_sent_time (l_set_payload st4 (m_data m) (m_port m) (m_ack m)) (m_created m) now (fcnt f), m_created m)
                  | None => (st4, 0) end in
         (fst (send_for E D (fst q) dev1 rx (snd q) now), acc' ++ snd (send_for E D (fst q) dev1 rx (snd q) now) ++ fin))).
    { intros fuel' st4 acc' Hf'. destruct fuel' as [|[|[|fuel']]]; try lia. cbn [prun exec]. rewrite app_nil_r.
      destruct (l_get_next_unsent st4) as [m|]; cbn [fst snd].
      - cbn [prun exec]. rewrite !app_nil_r. apply run_send. lia.
      - apply run_send. lia. }
    destruct (mtype f =? ConfirmedDataUp).
    - destruct fuel as [|[|fuel]]; try lia. cbn [prun exec]. rewrite app_nil_r.
      destruct (ack (fc f)); cbn [prun exec]; rewrite app_nil_r; apply After; lia.
    - destruct fuel as [|fuel]; try lia.
      destruct (ack (fc f)); cbn [prun exec]; rewrite app_nil_r; apply After; lia.
  Qed.

  (* for the device whose key verifies the frame (the one the decrypter hands to processMessage) *)
  Theorem run_uplink_complete fuel st f rx n now : (13 <= fuel)%nat ->
    (forall r, ds_row st = Some r -> mic_ok E f (rx_raw rx) (load st r) = true) ->
    prun apps fuel st (uplink_prog E D f rx n now) [] = l_uplink E D apps st f rx n now.
  Proof.
    intros Hf Hmic. unfold uplink_prog, l_uplink. destruct fuel as [|fuel]; try lia. cbn [prun exec app].
    destruct (ds_row st) as [r|] eqn:Hrow; [|reflexivity]. rewrite (Hmic r eq_refl). cbn [negb]. unfold process_message.
    set (dev := load st r). destruct (stale dev f); [reflexivity|]. unfold pm_counter.
    assert (Body : forall fuel' st1 dev1, (11 <= fuel')%nat ->
      prun apps fuel' st1
        (Do (SCreateUpstream (mk_umsg dev1 rx (frm (frame_crypt E (d_nwkskey dev1) (d_appskey dev1) f)))) (fun r0 =>
           match r0 with
           | XErr None => Do (SGetApp (d_appeui dev1)) (fun r1 =>
               match r1 with
               | XApp true => queue_prog E D dev1 f rx now [OPub (mk_pub dev1 rx (frm (frame_crypt E (d_nwkskey dev1) (d_appskey dev1) f)))]
               | _ => Halt [] end)
           | _ => Halt [] end)) []
      = (let plain := frm (frame_crypt E (d_nwkskey dev1) (d_appskey dev1) f) in
         match l_create_upstream st1 (mk_umsg dev1 rx plain) with
         | (st2, Some _) => (st2, [])
         | (st2, None) =>
           if negb (has_app apps (d_appeui dev1)) then (st2, [])
           else let q := pm_queue st2 f now in let r := send_for E D (fst q) dev1 rx (snd q) now in
                (fst r, snd r ++ [OPub (mk_pub dev1 rx plain)])
         end)).
    { intros fuel' st1 dev1 Hf'. destruct fuel' as [|[|fuel']]; try lia. cbn [prun exec app].
      destruct (l_create_upstream st1 _) as [st2 [e|]]; cbn [prun exec app]; [reflexivity|].
      destruct (has_app apps (d_appeui dev1)); cbn [negb prun app]; [|reflexivity].
      rewrite run_queue by lia. reflexivity. }
    destruct (d_fup dev <=? fcnt f).
    - destruct fuel as [|fuel]; try lia. cbn [prun exec app].
      destruct (l_advance_fup st _ _ _) as [st1 [e|]] eqn:Eu; cbn [prun app].
      + apply adv_fail in Eu. destruct Eu as [-> ->]. destruct (d_relaxed dev); [apply Body; lia | reflexivity].
      + apply Body. lia.
    - apply Body. lia.
  Qed.

  Theorem run_join_complete fuel cfg st f rx appnonce newaddr : (11 <= fuel)%nat ->
    prun apps fuel st (join_prog E D cfg f rx appnonce newaddr) [] = join_local E D cfg apps st f rx appnonce newaddr.
  Proof.
    intros Hf. unfold join_prog, join_local. destruct fuel as [|[|[|fuel]]]; try lia. cbn [prun exec app].
    destruct (ds_row st) as [r|] eqn:Er; [|reflexivity]. set (dev := load st r).
    destruct (negb (buffer_mic E (d_appkey dev) (firstn 19 (rx_raw rx)) =? mic f)); [reflexivity|].
    cbn [prun exec app]. rewrite Er. fold dev.
    destruct (negb (d_appeui dev =? jr_appeui (jr f))); [reflexivity|].
    destruct (negb (cfg_disable_nonce_check cfg) && existsb (fun n => n =? jr_devnonce (jr f)) (d_nonces dev)); [reflexivity|].
    cbn [prun exec app]. destruct (has_app apps (jr_appeui (jr f))); cbn [negb]; [|reflexivity].
    assert (Rest : forall fuel' st1, (7 <= fuel')%nat ->
      prun apps fuel' st1
       (Do (SUpdateDevice
           {| d_eui := d_eui dev; d_addr := if d_addr dev =? 0 then newaddr else d_addr dev; d_appkey := d_appkey dev;
              d_appskey := appskey_from_nonces E (d_appkey dev) appnonce (cfg_netid cfg) (jr_devnonce (jr f));
              d_nwkskey := nwkskey_from_nonces E (d_appkey dev) appnonce (cfg_netid cfg) (jr_devnonce (jr f));
              d_appeui := d_appeui dev; d_state := d_state dev; d_fup := 0; d_fdn := 0; d_relaxed := d_relaxed dev;
              d_keywarn := d_keywarn dev; d_nonces := d_nonces dev |})
           (fun r0 => match r0 with
             | XErr None => Do (SSetJoinAccept {| ja_appnonce := appnonce; ja_netid := N.land (cfg_netid cfg) 4294967295;
                                                   ja_devaddr := devaddr_of_u32 (if d_addr dev =? 0 then newaddr else d_addr dev);
                                                   ja_rx1droffset := 0; ja_rx2dr := 5; ja_rxdelay := 1 |})
                 (fun _ => send_prog E D dev rx 0 0 [])
             | _ => Halt [] end)) []
      = match l_update_device st1
           {| d_eui := d_eui dev; d_addr := if d_addr dev =? 0 then newaddr else d_addr dev; d_appkey := d_appkey dev;
              d_appskey := appskey_from_nonces E (d_appkey dev) appnonce (cfg_netid cfg) (jr_devnonce (jr f));
              d_nwkskey := nwkskey_from_nonces E (d_appkey dev) appnonce (cfg_netid cfg) (jr_devnonce (jr f));
              d_appeui := d_appeui dev; d_state := d_state dev; d_fup := 0; d_fdn := 0; d_relaxed := d_relaxed dev;
              d_keywarn := d_keywarn dev; d_nonces := d_nonces dev |} with
        | (st2, Some _) => (st2, [])
        | (st2, None) =>
          send_for E D (l_set_join_accept st2 {| ja_appnonce := appnonce; ja_netid := N.land (cfg_netid cfg) 4294967295;
                                                ja_devaddr := devaddr_of_u32 (if d_addr dev =? 0 then newaddr else d_addr dev);
                                                ja_rx1droffset := 0; ja_rx2dr := 5; ja_rxdelay := 1 |})
            dev rx 0 0
        end).
    { intros fuel' st1 Hf'. destruct fuel' as [|[|fuel']]; try lia. cbn [prun exec app].
      destruct (l_update_device st1 _) as [st2 [e|]]; cbn [prun exec app]; [reflexivity|].
      rewrite run_send by lia. cbn [app]. rewrite app_nil_r. now destruct (send_for _ _ _ _ _ _ _). }
    destruct (cfg_disable_nonce_check cfg).
    - apply Rest. lia.
    - destruct fuel as [|fuel]; try lia. cbn [prun exec app].
      destruct (l_add_nonce st (jr_devnonce (jr f))) as [st1 [e|]] eqn:En; cbn [prun app]; [|apply Rest; lia].
      (* a failed insert leaves the state as it was *)
      unfold l_add_nonce in En. destruct (existsb _ _); inversion En; reflexivity.
  Qed.

  (* ---------- every intermediate state, under every crash point and every set of failed operations ---------- *)
  Fixpoint always (P : dstate -> Prop) (Q : dstate -> sop -> Prop) (st : dstate) (p : prog) {struct p} : Prop :=
    P st /\
    match p with
    | Halt _ => True
    | Do o k => Q st o /\ (let '(st', r, _) := exec apps st o in always P Q st' (k r)) /\
                (can_fail o = true -> always P Q st (k (failed o)))
    end.
  Lemma always_here P Q st p : always P Q st p -> P st.
  Proof. destruct p; cbn; tauto. Qed.
  Theorem always_prunf P Q : forall p st, always P Q st p -> forall fails i fuel acc, P (fst (prunf apps fails i fuel st p acc)).
  Proof.
    induction p as [o | o k IH]; intros st H fails i fuel acc; cbn [prunf].
    - cbn. exact (proj1 H).
    - destruct fuel as [|fuel]; [cbn; exact (proj1 H)|]. destruct H as (HP & HQ & Hex & Hfail).
      destruct (fails i && can_fail o) eqn:Ef.
      + apply IH. apply Hfail. now apply andb_true_iff in Ef.
      + destruct (exec apps st o) as [[st' r] e]. now apply IH.
  Qed.
  (* the sequence of operations is the one the gate hook lists: every operation runs in a state where Q holds *)
  Lemma always_mono (P P' : dstate -> Prop) Q : (forall st, P st -> P' st) -> forall p st, always P Q st p -> always P' Q st p.
  Proof.
    intros HPP. induction p as [o | o k IH]; intros st H; cbn in *; [split; [apply HPP|]; tauto|].
    destruct H as (HP & HQ & Hex & Hfail). split; [now apply HPP|]. split; [exact HQ|]. split.
    - destruct (exec apps st o) as [[st' r] e]. now apply IH.
    - intros Hc. now apply IH, Hfail.
  Qed.

  (* ---- the same with what has left for the gateway in view ---- *)
  Fixpoint alwaysA (P : dstate -> list out -> Prop) (st : dstate) (p : prog) (acc : list out) {struct p} : Prop :=
    P st acc /\
    match p with
    | Halt o => P st (acc ++ o)
    | Do o k => (let '(st', r, e) := exec apps st o in alwaysA P st' (k r) (acc ++ e)) /\
                (can_fail o = true -> alwaysA P st (k (failed o)) acc)
    end.
  Theorem alwaysA_prunf P : forall p st acc, alwaysA P st p acc ->
    forall fails i fuel, P (fst (prunf apps fails i fuel st p acc)) (snd (prunf apps fails i fuel st p acc)).
  Proof.
    induction p as [o | o k IH]; intros st acc H fails i fuel; cbn [prunf].
    - cbn. exact (proj2 H).
    - destruct fuel as [|fuel]; [cbn; exact (proj1 H)|]. destruct H as (HP & Hex & Hfail).
      destruct (fails i && can_fail o) eqn:Ef.
      + apply IH. apply Hfail. now apply andb_true_iff in Ef.
      + destruct (exec apps st o) as [[st' r] e]. now apply IH.
  Qed.

  (* ---- uplink of a strict-counter device ---- *)
  Section Uplink.
    Variable st0 : dstate.
    Variable r0 : device.
    Variable f : frame.
    Hypothesis Hrow0 : ds_row st0 = Some r0.
    Hypothesis Hstrict : d_relaxed r0 = false.
    Hypothesis Hfc : fcnt f < 65535.
    Hypothesis E_len : forall k b, length (E k b) = 16%nat.

    (* the inbox holds at most one more row than before, and if it does the stored counter is past the frame's *)
    Definition upinv (st : dstate) : Prop :=
      fb_down st /\ ds_nonces st = ds_nonces st0 /\
      exists r', ds_row st = Some r' /\ same_session r0 r' /\ d_fup r0 <= d_fup r' /\
        (ds_inbox st = ds_inbox st0 \/ ((exists m, ds_inbox st = ds_inbox st0 ++ [m]) /\ fcnt f < d_fup r')).
    (* a frame is handed to the gateway only when the counter after the one it carries is stored *)
    Definition emit_ok (st : dstate) (o : sop) : Prop :=
      match o with SEmit _ c => exists r', ds_row st = Some r' /\ d_fdn r' = (c + 1) mod 65536 | _ => True end.

    (* operations that touch neither the row, the inbox, the nonces nor the type of the buffer entry *)
    Definition benign (o : sop) : bool :=
      match o with
      | SGetRow | SGetApp _ | SSetAckFlag _ | SUpdateAckTime _ _ | SResetAcks | SGetNextUnsent | SSetPayload _ _ _ | SSetSentTime _ _ _ | SGetPhy _ => true
      | _ => false
      end.
    Lemma fb_down_get_phy st d : fb_down st -> fb_down (fst (l_get_phy st d)).
    Proof.
      unfold l_get_phy, fb_down. destruct (ds_fb st) as [fd|] eqn:Ef; [|cbn; now rewrite Ef].
      intros Hd. destruct (_ && _ && _); [cbn; auto|]. destruct (down_type_not_ja _ Hd) as [Hm _].
      destruct (0 <? _)%nat.
      - destruct (max_payload d) as [mn|]; [|cbn; now rewrite Ef]. destruct (_ <? _)%nat; cbn; now rewrite Hm.
      - cbn. now rewrite Hm.
    Qed.
    Lemma rest_get_phy st d : ds_row (fst (l_get_phy st d)) = ds_row st /\ ds_inbox (fst (l_get_phy st d)) = ds_inbox st /\
      ds_nonces (fst (l_get_phy st d)) = ds_nonces st.
    Proof.
      unfold l_get_phy. destruct (ds_fb st) as [fd|]; [|auto]. destruct (_ && _ && _); [cbn; auto|].
      destruct (0 <? _)%nat; [|cbn; auto]. destruct (max_payload d) as [mn|]; [|auto]. destruct (_ <? _)%nat; cbn; auto.
    Qed.
    Lemma benign_keeps st o : benign o = true -> upinv st -> upinv (fst (fst (exec apps st o))).
    Proof.
      intros Hb (Hfb & Hn & r' & Hr & Hs & Hle & Hin). destruct o; try discriminate; cbn [exec fst]; try (now split; [exact Hfb | split; [exact Hn | exists r'; tauto]]).
      - (* SSetAckFlag *) split; [|split; [exact Hn | exists r'; tauto]]. unfold fb_down, l_set_ack_flag in *. cbn.
        destruct (ds_fb st); cbn; [exact Hfb | now left].
      - (* SSetPayload *) split; [|split; [exact Hn | exists r'; tauto]]. unfold fb_down, l_set_payload. cbn. destruct ack; [now right | now left].
      - (* SGetPhy *) destruct (l_get_phy st datr) as [st' g] eqn:Eg. cbn [fst].
        pose proof (fb_down_get_phy st datr Hfb) as F. destruct (rest_get_phy st datr) as (A & B & C). rewrite Eg in *. cbn [fst] in *.
        split; [exact F|]. split; [congruence|]. exists r'. rewrite A, B. tauto.
    Qed.

    (* reserving the downlink counter keeps the uplink invariant *)
    Lemma next_keeps st key st1 c : upinv st -> l_next_fdn st key = (st1, Some c) ->
      upinv st1 /\ exists r1, ds_row st1 = Some r1 /\ d_fdn r1 = (c + 1) mod 65536.
    Proof.
      intros (Hfb & Hn & r' & Hr & Hs & Hle & Hin) U.
      apply next_row in U. destruct U as (rr & R0 & Hc & R1 & R2 & R3 & R4 & R5). rewrite Hr in R0. injection R0 as <-.
      split.
      - split; [unfold fb_down in *; now rewrite R5|]. split; [congruence|]. eexists. split; [exact R1|]. cbn [d_fup].
        split; [unfold same_session in *; cbn; tauto|]. split; [exact Hle|]. rewrite R2. exact Hin.
      - eexists. split; [exact R1|]. cbn [d_fdn]. now subst c.
    Qed.

    (* the encoder, working on a snapshot whose uplink counter is already past the frame's *)
    Lemma always_enc_data st dev p rx created now fin :
      upinv st -> fcnt f < d_fup dev -> d_fup r0 <= d_fup dev ->
      always upinv emit_ok st (enc_data_prog E dev p rx created now fin).
    Proof.
      intros Hinv Hd1 Hd2. unfold enc_data_prog.
      destruct (encode (downlink_frame dev p 0)); cbn [always]; try tauto.
      split; [exact Hinv|]. split; [exact I|]. split; [|intros _; cbn; tauto].
      cbn [exec]. destruct (l_next_fdn st) as [st1 [cn|]] eqn:U.
      2:{ apply next_none in U. destruct U as [-> _]. cbn. tauto. }
      destruct (next_keeps st _ st1 cn Hinv U) as (H1 & r1 & R1 & F1).
      destruct (encode_message E (d_nwkskey dev) (d_appskey dev) (downlink_frame dev p cn)) as [buf|e|]; cbn [always]; try tauto.
      split; [exact H1|]. split; [exact I|].
      assert (H2 : upinv (l_set_sent_time st1 created now (d_fup dev))) by (apply (benign_keeps st1 (SSetSentTime created now (d_fup dev))); auto).
      assert (Tail : forall st2, upinv st2 -> ds_row st2 = ds_row st1 ->
        always upinv emit_ok st2
          (if (length buf =? 0)%nat then Halt fin
           else Do (SEmit {| dl_raw := buf; dl_radio := rx_radio rx; dl_gw := rx_gw rx; dl_rx1delay := 1; dl_eui := d_eui dev |} cn) (fun _ => Halt fin))).
      { intros st2 Hu Hrow. destruct (length buf =? 0)%nat; cbn [always]; [tauto|]. split; [exact Hu|]. split.
        - cbn. exists r1. split; [now rewrite Hrow | exact F1].
        - split; [cbn; tauto | intros Hc; discriminate]. }
      split; [apply Tail; [exact H2 | reflexivity] | intros _; apply Tail; [exact H1 | reflexivity]].
    Qed.

    Lemma always_send st dev rx created now fin :
      upinv st -> fcnt f < d_fup dev -> d_fup r0 <= d_fup dev ->
      always upinv emit_ok st (send_prog E D dev rx created now fin).
    Proof.
      intros Hinv Hd1 Hd2. unfold send_prog. cbn [always]. split; [exact Hinv|]. split; [exact I|]. split; [|intros _; cbn; tauto].
      cbn [exec]. destruct (l_get_phy st (r_datr (rx_radio rx))) as [st1 g] eqn:Eg.
      pose proof (benign_keeps st (SGetPhy (r_datr (rx_radio rx))) eq_refl Hinv) as H1. cbn [exec] in H1. rewrite Eg in H1. cbn [fst] in H1.
      destruct g as [| |p]; cbn [always]; try tauto.
      (* the entry a data handler finds is a data entry *)
      assert (Hty : down_type (po_mtype p)).
      { destruct Hinv as (Hfb & _). unfold l_get_phy, fb_down in *. destruct (ds_fb st) as [fd|]; [|discriminate].
        destruct (_ && _ && _); [discriminate|]. destruct (0 <? _)%nat.
        - destruct (max_payload _); [|discriminate]. destruct (_ <? _)%nat; injection Eg as _ <-; exact Hfb.
        - injection Eg as _ <-. exact Hfb. }
      destruct (down_type_not_ja _ Hty) as [-> ->]. now apply always_enc_data.
    Qed.

    Lemma always_queue st dev1 rx now fin :
      upinv st -> fcnt f < d_fup dev1 -> d_fup r0 <= d_fup dev1 ->
      always upinv emit_ok st (queue_prog E D dev1 f rx now fin).
    Proof.
      intros Hinv Hd1 Hd2. unfold queue_prog.
      assert (After : forall st4, upinv st4 ->
        always upinv emit_ok st4
          (Do SGetNextUnsent (fun r => match r with
             | XMsg (Some m) => Do (SSetPayload (m_data m) (m_port m) (m_ack m)) (fun _ =>
                                Do (SSetSentTime (m_created m) now (fcnt f)) (fun _ => send_prog E D dev1 rx (m_created m) now fin))
             | _ => send_prog E D dev1 rx 0 now fin end))).
      { intros st4 H4. cbn [always]. split; [exact H4|]. split; [exact I|]. split; [|intros _; now apply always_send].
        cbn [exec]. destruct (l_get_next_unsent st4) as [m|]; [|now apply always_send].
        cbn [always]. split; [exact H4|]. split; [exact I|]. split; [|intros Hc; discriminate].
        cbn [exec]. pose proof (benign_keeps st4 (SSetPayload (m_data m) (m_port m) (m_ack m)) eq_refl H4) as H5. cbn [exec fst] in H5.
        split; [exact H5|]. split; [exact I|].
        pose proof (benign_keeps _ (SSetSentTime (m_created m) now (fcnt f)) eq_refl H5) as H6. cbn [exec fst] in H6.
        split; [now apply always_send | intros _; now apply always_send]. }
      assert (Acks : forall st3, upinv st3 ->
        always upinv emit_ok st3
          (if ack (fc f) then Do (SUpdateAckTime (fcnt f) now) (fun _ => Do SGetNextUnsent (fun r => match r with
             | XMsg (Some m) => Do (SSetPayload (m_data m) (m_port m) (m_ack m)) (fun _ =>
                                Do (SSetSentTime (m_created m) now (fcnt f)) (fun _ => send_prog E D dev1 rx (m_created m) now fin))
             | _ => send_prog E D dev1 rx 0 now fin end))
           else Do SResetAcks (fun _ => Do SGetNextUnsent (fun r => match r with
             | XMsg (Some m) => Do (SSetPayload (m_data m) (m_port m) (m_ack m)) (fun _ =>
                                Do (SSetSentTime (m_created m) now (fcnt f)) (fun _ => send_prog E D dev1 rx (m_created m) now fin))
             | _ => send_prog E D dev1 rx 0 now fin end)))).
      { intros st3 H3. destruct (ack (fc f)); cbn [always]; (split; [exact H3|]); (split; [exact I|]); split; try (intros _; now apply After).
        - apply After. exact (benign_keeps st3 (SUpdateAckTime (fcnt f) now) eq_refl H3).
        - apply After. exact (benign_keeps st3 SResetAcks eq_refl H3). }
      destruct (mtype f =? ConfirmedDataUp); [|now apply Acks].
      cbn [always]. split; [exact Hinv|]. split; [exact I|]. split; [|intros Hc; discriminate].
      apply Acks. exact (benign_keeps st (SSetAckFlag true) eq_refl Hinv).
    Qed.

    Theorem always_uplink rx n now : fb_down st0 ->
      always upinv emit_ok st0 (uplink_prog E D f rx n now).
    Proof.
      intros Hfb0.
      assert (H0 : upinv st0).
      { split; [exact Hfb0|]. split; [reflexivity|]. exists r0. split; [exact Hrow0|]. split; [apply same_session_refl|]. split; [lia | now left]. }
      unfold uplink_prog. cbn [always]. split; [exact H0|]. split; [exact I|]. split; [|intros _; cbn; tauto].
      cbn [exec]. rewrite Hrow0. set (dev := load st0 r0).
      destruct (negb (mic_ok E f (rx_raw rx) dev)); [cbn; tauto|].
      destruct (stale dev f) eqn:Est; [cbn; tauto|].
      (* strict and not stale: the counter is advanced first *)
      assert (Hle : (d_fup dev <=? fcnt f) = true).
      { unfold stale in Est. change (d_relaxed dev) with (d_relaxed r0) in Est. rewrite Hstrict in Est. cbn in Est.
        apply N.ltb_ge in Est. now apply N.leb_le. }
      rewrite Hle. set (kw := if (1 <? n)%nat then true else d_keywarn dev).
      set (dev1 := set_counters dev ((fcnt f + 1) mod 65536) (d_fdn dev) kw).
      assert (Hd1 : d_fup dev1 = fcnt f + 1) by (cbn; rewrite N.mod_small; lia).
      apply N.leb_le in Hle. change (d_fup dev) with (d_fup r0) in Hle.
      cbn [always]. split; [exact H0|]. split; [exact I|]. split; [|intros _; cbn; tauto].
      cbn [exec]. destruct (l_advance_fup st0 _ _ _) as [st1 [e|]] eqn:U.
      { apply adv_fail in U. destruct U as [-> ->]. change (d_relaxed dev) with (d_relaxed r0). rewrite Hstrict. cbn. tauto. }
      apply adv_row in U. destruct U as (rr & R0 & _ & R1 & R2 & R3 & R4 & R5). rewrite Hrow0 in R0. injection R0 as <-.
      assert (H1 : upinv st1).
      { split; [unfold fb_down in *; now rewrite R5|]. split; [exact R4|]. eexists. split; [exact R1|].
        split; [unfold same_session; cbn; tauto|]. split; [cbn [d_fup]; rewrite N.mod_small by lia; lia | left; exact R2]. }
      cbn [always]. split; [exact H1|]. split; [exact I|]. split; [|intros _; cbn; tauto].
      cbn [exec]. destruct (l_create_upstream st1 _) as [st2 [e|]] eqn:C.
      { assert (st2 = st1) by (unfold l_create_upstream in C; destruct (existsb _ _); inversion C; reflexivity). subst. cbn. tauto. }
      pose proof (inbox_create_upstream _ _ _ C) as Hin2.
      assert (H2 : upinv st2).
      { unfold l_create_upstream in C. destruct (existsb _ _); [discriminate|]. injection C as <-.
        destruct H1 as (F1 & N1 & r' & Hr' & S1 & L1 & _). split; [exact F1|]. split; [exact N1|]. exists r'. split; [exact Hr'|].
        split; [exact S1|]. split; [exact L1|]. right. split; [eexists; cbn; rewrite R2; reflexivity|].
        rewrite R1 in Hr'. injection Hr' as <-. cbn [d_fup]. rewrite N.mod_small by lia. lia. }
      cbn [always]. split; [exact H2|]. split; [exact I|]. split; [|intros _; cbn; tauto].
      cbn [exec]. destruct (has_app apps (d_appeui dev1)); [|cbn; tauto].
      apply always_queue; [exact H2 | rewrite Hd1; lia | rewrite Hd1; lia].
    Qed.

    (* C10, uplink clause: cut the handler anywhere, fail any of its operations, restart, and deliver the
       same frame again (as any retransmission): the inbox has gained at most one row in total *)
    Theorem uplink_recorded_at_most_once fails fuel rx n now rx' n' now' :
      fb_down st0 -> valid_datr rx' ->
      let st1 := recover (fst (prunf apps fails 0 fuel st0 (uplink_prog E D f rx n now) [])) in
      let st2 := fst (l_uplink E D apps st1 f rx' n' now') in
      (length (ds_inbox st2) <= S (length (ds_inbox st0)))%nat.
    Proof.
      intros Hfb0 Hd st1 st2.
      pose proof (always_prunf _ _ _ _ (always_uplink rx n now Hfb0) fails 0%nat fuel []) as Hinv.
      destruct Hinv as (_ & _ & r' & Hr & Hs & Hle & Hin).
      assert (Hr1 : ds_row st1 = Some r') by exact Hr.
      assert (Hfb1 : fb_down st1) by (unfold fb_down, st1, recover; cbn; exact I).
      destruct (l_uplink_summary E D E_len apps st1 f rx' n' now' r' Hr1 Hfb1 Hd) as (r'' & _ & _ & _ & _ & Hstale & _ & Hin2 & _).
      fold st2 in Hstale, Hin2. change (ds_inbox st1) with (ds_inbox (fst (prunf apps fails 0 fuel st0 (uplink_prog E D f rx n now) []))) in *.
      destruct Hin as [Hsame | [[m Hm] Hpast]].
      - rewrite Hsame in Hin2. destruct Hin2 as [-> | (_ & [m ->] & _)]; [lia | rewrite app_length; cbn; lia].
      - (* already recorded: the redelivered frame is stale *)
        assert (St : stale r' f = true).
        { unfold stale. destruct Hs as (_ & _ & _ & _ & _ & _ & Hrel). rewrite Hrel, Hstrict. cbn. now apply N.ltb_lt. }
        specialize (Hstale St). unfold st2. rewrite Hstale. cbn [fst]. change (ds_inbox st1) with (ds_inbox (fst (prunf apps fails 0 fuel st0 (uplink_prog E D f rx n now) []))).
        rewrite Hm, app_length. cbn. lia.
    Qed.

    (* ---- downlink clause: nothing has left and the stored downlink counter is the old one, or it is one past
       the counter the frame carries ---- *)
    Definition dninv (st : dstate) (acc : list out) : Prop :=
      upinv st /\
      exists r', ds_row st = Some r' /\
        ((downs acc = [] /\ d_fdn r' = d_fdn r0) \/ d_fdn r' = (d_fdn r0 + 1) mod 65536).
    Lemma benign_row st o : benign o = true -> ds_row (fst (fst (exec apps st o))) = ds_row st /\ snd (exec apps st o) = [].
    Proof.
      intros Hb. destruct o; try discriminate; cbn [exec fst snd]; try (split; reflexivity).
      destruct (l_get_phy st datr) as [st' g] eqn:Eg. cbn. split; [|reflexivity].
      destruct (rest_get_phy st datr) as (A & _). now rewrite Eg in A.
    Qed.
    Lemma benign_keepsA st o acc : benign o = true -> dninv st acc ->
      dninv (fst (fst (exec apps st o))) (acc ++ snd (exec apps st o)).
    Proof.
      intros Hb (Hu & r' & Hr & Hd). destruct (benign_row st o Hb) as [A B]. rewrite B, app_nil_r.
      split; [now apply benign_keeps|]. exists r'. rewrite A. tauto.
    Qed.

    (* before the counter is reserved: nothing has left and the stored counter is the old one *)
    Definition dninv0 (st : dstate) (acc : list out) : Prop :=
      upinv st /\ exists r', ds_row st = Some r' /\ downs acc = [] /\ d_fdn r' = d_fdn r0.
    Lemma dn0 st acc : dninv0 st acc -> dninv st acc.
    Proof. intros (Hu & r' & Hr & Ha & Hd). split; [exact Hu|]. exists r'. split; [exact Hr | left; now split]. Qed.
    Lemma benign_keepsA0 st o acc : benign o = true -> dninv0 st acc ->
      dninv0 (fst (fst (exec apps st o))) (acc ++ snd (exec apps st o)).
    Proof.
      intros Hb (Hu & r' & Hr & Hd). destruct (benign_row st o Hb) as [A B]. rewrite B, app_nil_r.
      split; [now apply benign_keeps|]. exists r'. rewrite A. tauto.
    Qed.

    Lemma alwaysA_enc_data_dn st dev p rx created now fin acc :
      dninv0 st acc -> downs fin = [] -> fcnt f < d_fup dev -> d_fup r0 <= d_fup dev -> d_fdn dev = d_fdn r0 ->
      alwaysA dninv st (enc_data_prog E dev p rx created now fin) acc.
    Proof.
      intros Hinv Hfin Hd1 Hd2 Hd3. unfold enc_data_prog.
      assert (Fin : forall st' a, dninv st' a -> dninv st' (a ++ fin)).
      { intros st' a (Hu & r' & Hr & Hd). split; [exact Hu|]. exists r'. split; [exact Hr|]. rewrite downs_app, Hfin, app_nil_r. exact Hd. }
      pose proof (dn0 _ _ Hinv) as HinvD.
      destruct (encode (downlink_frame dev p 0)); cbn [alwaysA]; try (split; [exact HinvD | now apply Fin]).
      split; [exact HinvD|]. split; [|intros _; cbn; split; [exact HinvD | now apply Fin]].
      cbn [exec]. destruct (l_next_fdn st) as [st1 [cn|]] eqn:U; rewrite ?app_nil_r.
      2:{ apply next_none in U. destruct U as [-> _]. cbn. split; [exact HinvD | now apply Fin]. }
      destruct Hinv as (Hu & r' & Hr & Ha & Hf0).
      destruct (next_keeps st _ st1 cn Hu U) as (U1 & r1 & R1 & F1).
      assert (Hcn : cn = d_fdn r0).
      { apply next_row in U. destruct U as (rr & R0 & Hc & _). rewrite Hr in R0. injection R0 as <-. congruence. }
      subst cn.
      assert (H1 : forall st2 a2, upinv st2 -> ds_row st2 = ds_row st1 -> dninv st2 a2).
      { intros st2 a2 Hu2 Hrow. split; [exact Hu2|]. exists r1. split; [now rewrite Hrow | right; exact F1]. }
      destruct (encode_message E (d_nwkskey dev) (d_appskey dev) (downlink_frame dev p (d_fdn r0))) as [buf|e|]; cbn [alwaysA];
        try (split; apply H1; [exact U1 | reflexivity | exact U1 | reflexivity]).
      split; [apply H1; [exact U1 | reflexivity]|].
      assert (U2 : upinv (l_set_sent_time st1 created now (d_fup dev))) by (apply (benign_keeps st1 (SSetSentTime created now (d_fup dev))); auto).
      assert (Tail : forall st2, upinv st2 -> ds_row st2 = ds_row st1 ->
        alwaysA dninv st2
          (if (length buf =? 0)%nat then Halt fin
           else Do (SEmit {| dl_raw := buf; dl_radio := rx_radio rx; dl_gw := rx_gw rx; dl_rx1delay := 1; dl_eui := d_eui dev |} (d_fdn r0)) (fun _ => Halt fin)) acc).
      { intros st2 Hu2 Hrow. destruct (length buf =? 0)%nat; cbn [alwaysA]; [split; now apply H1|].
        split; [now apply H1|]. split; [cbn; split; now apply H1 | intros Hc; discriminate]. }
      cbn [exec]. rewrite app_nil_r. split; [apply Tail; [exact U2 | reflexivity] | intros _; apply Tail; [exact U1 | reflexivity]].
    Qed.

    Lemma alwaysA_send_dn st dev rx created now fin acc :
      dninv0 st acc -> downs fin = [] -> fcnt f < d_fup dev -> d_fup r0 <= d_fup dev -> d_fdn dev = d_fdn r0 ->
      alwaysA dninv st (send_prog E D dev rx created now fin) acc.
    Proof.
      intros Hinv Hfin Hd1 Hd2 Hd3. unfold send_prog. cbn [alwaysA].
      assert (Fin : forall st' a, dninv st' a -> dninv st' (a ++ fin)).
      { intros st' a (Hu & r' & Hr & Hd). split; [exact Hu|]. exists r'. split; [exact Hr|]. rewrite downs_app, Hfin, app_nil_r. exact Hd. }
      pose proof (dn0 _ _ Hinv) as HinvD.
      split; [exact HinvD|]. split; [|intros _; cbn; split; [exact HinvD | now apply Fin]].
      pose proof (benign_keepsA0 st (SGetPhy (r_datr (rx_radio rx))) acc eq_refl Hinv) as H1.
      cbn [exec] in *. destruct (l_get_phy st (r_datr (rx_radio rx))) as [st1 g] eqn:Eg. cbn [fst snd] in H1. rewrite app_nil_r in *.
      pose proof (dn0 _ _ H1) as H1D.
      destruct g as [| |p]; cbn [alwaysA]; try (split; [exact H1D | now apply Fin]).
      assert (Hty : down_type (po_mtype p)).
      { destruct Hinv as ((Hfb & _) & _). unfold l_get_phy, fb_down in *. destruct (ds_fb st) as [fd|]; [|discriminate].
        destruct (_ && _ && _); [discriminate|]. destruct (0 <? _)%nat.
        - destruct (max_payload _); [|discriminate]. destruct (_ <? _)%nat; injection Eg as _ <-; exact Hfb.
        - injection Eg as _ <-. exact Hfb. }
      destruct (down_type_not_ja _ Hty) as [-> ->]. now apply alwaysA_enc_data_dn.
    Qed.

    Lemma alwaysA_queue_dn st dev1 rx now fin acc :
      dninv0 st acc -> downs fin = [] -> fcnt f < d_fup dev1 -> d_fup r0 <= d_fup dev1 -> d_fdn dev1 = d_fdn r0 ->
      alwaysA dninv st (queue_prog E D dev1 f rx now fin) acc.
    Proof.
      intros Hinv Hfin Hd1 Hd2 Hd3. unfold queue_prog.
      assert (After : forall st4, dninv0 st4 acc ->
        alwaysA dninv st4
          (Do SGetNextUnsent (fun r => match r with
             | XMsg (Some m) => Do (SSetPayload (m_data m) (m_port m) (m_ack m)) (fun _ =>
                                Do (SSetSentTime (m_created m) now (fcnt f)) (fun _ => send_prog E D dev1 rx (m_created m) now fin))
             | _ => send_prog E D dev1 rx 0 now fin end)) acc).
      { intros st4 H4. cbn [alwaysA]. split; [apply dn0; exact H4|]. split; [|intros _; now apply alwaysA_send_dn].
        cbn [exec]. rewrite app_nil_r. destruct (l_get_next_unsent st4) as [m|]; [|now apply alwaysA_send_dn].
        cbn [alwaysA]. split; [apply dn0; exact H4|]. split; [|intros Hc; discriminate].
        pose proof (benign_keepsA0 st4 (SSetPayload (m_data m) (m_port m) (m_ack m)) acc eq_refl H4) as H5. cbn [exec fst snd] in *. rewrite app_nil_r in *.
        split; [apply dn0; exact H5|].
        pose proof (benign_keepsA0 _ (SSetSentTime (m_created m) now (fcnt f)) acc eq_refl H5) as H6. cbn [exec fst snd] in H6. rewrite app_nil_r in H6.
        cbn [exec]. rewrite ?app_nil_r. split; [apply alwaysA_send_dn; assumption | intros _; apply alwaysA_send_dn; assumption]. }
      assert (Acks : forall st3, dninv0 st3 acc ->
        alwaysA dninv st3
          (if ack (fc f) then Do (SUpdateAckTime (fcnt f) now) (fun _ => Do SGetNextUnsent (fun r => match r with
             | XMsg (Some m) => Do (SSetPayload (m_data m) (m_port m) (m_ack m)) (fun _ =>
                                Do (SSetSentTime (m_created m) now (fcnt f)) (fun _ => send_prog E D dev1 rx (m_created m) now fin))
             | _ => send_prog E D dev1 rx 0 now fin end))
           else Do SResetAcks (fun _ => Do SGetNextUnsent (fun r => match r with
             | XMsg (Some m) => Do (SSetPayload (m_data m) (m_port m) (m_ack m)) (fun _ =>
                                Do (SSetSentTime (m_created m) now (fcnt f)) (fun _ => send_prog E D dev1 rx (m_created m) now fin))
             | _ => send_prog E D dev1 rx 0 now fin end))) acc).
      { intros st3 H3. destruct (ack (fc f)); cbn [alwaysA]; (split; [apply dn0; exact H3|]); split; try (intros _; now apply After); cbn [exec]; rewrite app_nil_r; apply After.
        - pose proof (benign_keepsA0 st3 (SUpdateAckTime (fcnt f) now) acc eq_refl H3) as H. cbn [exec fst snd] in H. now rewrite app_nil_r in H.
        - pose proof (benign_keepsA0 st3 SResetAcks acc eq_refl H3) as H. cbn [exec fst snd] in H. now rewrite app_nil_r in H. }
      destruct (mtype f =? ConfirmedDataUp); [|now apply Acks].
      cbn [alwaysA]. split; [apply dn0; exact Hinv|]. split; [|intros Hc; discriminate].
      cbn [exec]. rewrite app_nil_r. apply Acks.
      pose proof (benign_keepsA0 st (SSetAckFlag true) acc eq_refl Hinv) as H. cbn [exec fst snd] in H. now rewrite app_nil_r in H.
    Qed.

    Theorem alwaysA_uplink rx n now : fb_down st0 ->
      alwaysA dninv st0 (uplink_prog E D f rx n now) [].
    Proof.
      intros Hfb0.
      assert (U0 : upinv st0).
      { split; [exact Hfb0|]. split; [reflexivity|]. exists r0. split; [exact Hrow0|]. split; [apply same_session_refl|]. split; [lia | now left]. }
      assert (H00 : dninv0 st0 []) by (split; [exact U0|]; exists r0; split; [exact Hrow0 | now split]).
      pose proof (dn0 _ _ H00) as H0.
      unfold uplink_prog. cbn [alwaysA]. split; [exact H0|]. split; [|intros _; cbn; tauto].
      cbn [exec app]. rewrite Hrow0. set (dev := load st0 r0).
      destruct (negb (mic_ok E f (rx_raw rx) dev)); [cbn; tauto|].
      destruct (stale dev f) eqn:Est; [cbn; tauto|].
      assert (Hle : (d_fup dev <=? fcnt f) = true).
      { unfold stale in Est. change (d_relaxed dev) with (d_relaxed r0) in Est. rewrite Hstrict in Est. cbn in Est.
        apply N.ltb_ge in Est. now apply N.leb_le. }
      rewrite Hle. set (kw := if (1 <? n)%nat then true else d_keywarn dev).
      set (dev1 := set_counters dev ((fcnt f + 1) mod 65536) (d_fdn dev) kw).
      assert (Hd1 : d_fup dev1 = fcnt f + 1) by (cbn; rewrite N.mod_small; lia).
      apply N.leb_le in Hle. change (d_fup dev) with (d_fup r0) in Hle.
      cbn [alwaysA]. split; [exact H0|]. split; [|intros _; cbn; tauto].
      cbn [exec app]. destruct (l_advance_fup st0 _ _ _) as [st1 [e|]] eqn:U.
      { apply adv_fail in U. destruct U as [-> ->]. change (d_relaxed dev) with (d_relaxed r0). rewrite Hstrict. cbn. tauto. }
      apply adv_row in U. destruct U as (rr & R0 & _ & R1 & R2 & R3 & R4 & R5). rewrite Hrow0 in R0. injection R0 as <-.
      assert (U1 : upinv st1).
      { split; [unfold fb_down in *; now rewrite R5|]. split; [exact R4|]. eexists. split; [exact R1|].
        split; [unfold same_session; cbn; tauto|]. split; [cbn [d_fup]; rewrite N.mod_small by lia; lia | left; exact R2]. }
      assert (H10 : dninv0 st1 []) by (split; [exact U1|]; eexists; split; [exact R1 | now split]).
      pose proof (dn0 _ _ H10) as H1.
      cbn [alwaysA]. split; [exact H1|]. split; [|intros _; cbn; tauto].
      cbn [exec app]. destruct (l_create_upstream st1 _) as [st2 [e|]] eqn:C.
      { assert (st2 = st1) by (unfold l_create_upstream in C; destruct (existsb _ _); inversion C; reflexivity). subst. cbn. tauto. }
      assert (H20 : dninv0 st2 []).
      { unfold l_create_upstream in C. destruct (existsb _ _); [discriminate|]. injection C as <-. split.
        - destruct U1 as (F1 & N1 & r' & Hr' & S1 & L1 & _). split; [exact F1|]. split; [exact N1|]. exists r'. split; [exact Hr'|].
          split; [exact S1|]. split; [exact L1|]. right. split; [eexists; cbn; rewrite R2; reflexivity|].
          rewrite R1 in Hr'. injection Hr' as <-. cbn [d_fup]. rewrite N.mod_small by lia. lia.
        - eexists. split; [exact R1 | now split]. }
      pose proof (dn0 _ _ H20) as H2.
      cbn [alwaysA]. split; [exact H2|]. split; [|intros _; cbn; tauto].
      cbn [exec app]. destruct (has_app apps (d_appeui dev1)); [|cbn; tauto].
      apply alwaysA_queue_dn; [exact H20 | reflexivity | rewrite Hd1; lia | rewrite Hd1; lia | reflexivity].
    Qed.

    (* C10, downlink clause: wherever the handler is cut and whatever fails, if a frame has left for the
       gateway (it carries the counter that was stored when the handler started) then the stored counter
       is already one past it *)
    Theorem downlink_counter_stored_before_it_is_used fails fuel rx n now :
      fb_down st0 ->
      let res := prunf apps fails 0 fuel st0 (uplink_prog E D f rx n now) [] in
      downs (snd res) <> [] -> exists r', ds_row (recover (fst res)) = Some r' /\ d_fdn r' = (d_fdn r0 + 1) mod 65536.
    Proof.
      intros Hfb0 res Hd. pose proof (alwaysA_prunf _ _ _ _ (alwaysA_uplink rx n now Hfb0) fails 0%nat fuel) as (_ & r' & Hr & Hc).
      fold res in Hr, Hc. exists r'. split; [exact Hr|]. destruct Hc as [[Hn _] | Hc]; [contradiction | exact Hc].
    Qed.
  End Uplink.

  (* ---- join: the nonce is stored before the keys are replaced and before the accept leaves ---- *)
  Section JoinCrash.
    Variable st0 : dstate.
    Variable r0 : device.
    Variable cfg : config.
    Variable f : frame.
    Hypothesis Hrow0 : ds_row st0 = Some r0.
    Hypothesis Hcheck : cfg_disable_nonce_check cfg = false.
    Let nonce := jr_devnonce (jr f).

    Definition stored (st : dstate) : Prop := existsb (fun n => n =? nonce) (ds_nonces st) = true.
    (* nothing has left and the session is the old one, or the nonce is in the store *)
    Definition joininv (st : dstate) (acc : list out) : Prop :=
      ds_inbox st = ds_inbox st0 /\
      (stored st \/ (acc = [] /\ ds_row st = Some r0 /\ ds_nonces st = ds_nonces st0)).

    Lemma stored_keep st st' : ds_nonces st' = ds_nonces st -> stored st -> stored st'.
    Proof. unfold stored. now intros ->. Qed.
    Lemma joininv_stored st st' (acc' : list out) : ds_inbox st' = ds_inbox st -> ds_nonces st' = ds_nonces st ->
      ds_inbox st = ds_inbox st0 -> stored st -> joininv st' acc'.
    Proof. intros Hi Hn H0 Hs. split; [congruence | left; now apply (stored_keep st)]. Qed.

    Lemma alwaysA_enc_join st dev j rx acc : ds_inbox st = ds_inbox st0 -> stored st ->
      alwaysA joininv st (enc_join_prog E D dev j rx []) acc.
    Proof.
      intros Hi Hs. unfold enc_join_prog. cbn [alwaysA].
      assert (J : forall a, joininv st a) by (intros a; split; [exact Hi | now left]).
      split; [apply J|]. split; [|intros _; cbn; split; apply J].
      cbn [exec]. destruct (l_update_device_state st _) as [st1 [e|]] eqn:U.
      - apply uds_fail in U. subst. cbn. split; apply J.
      - apply uds_row in U. destruct U as (r1 & _ & _ & R2 & _ & R4 & _).
        assert (J1 : forall a, joininv st1 a) by (intros a; now apply (joininv_stored st)).
        destruct (encode_join_accept E D (d_appkey dev) JoinAccept c_MaxSupportedVersion j); cbn [alwaysA]; try (split; apply J1).
        split; [apply J1|]. split; [cbn; split; apply J1 | intros Hc; discriminate].
    Qed.
    Lemma alwaysA_enc_data st dev p rx c now acc : ds_inbox st = ds_inbox st0 -> stored st ->
      alwaysA joininv st (enc_data_prog E dev p rx c now []) acc.
    Proof.
      intros Hi Hs. unfold enc_data_prog.
      assert (J : forall a, joininv st a) by (intros a; split; [exact Hi | now left]).
      destruct (encode (downlink_frame dev p 0)); cbn [alwaysA]; try (split; apply J).
      split; [apply J|]. split; [|intros _; cbn; split; apply J].
      cbn [exec]. destruct (l_next_fdn st) as [st1 [cn|]] eqn:U.
      2:{ apply next_none in U. destruct U as [-> _]. cbn. split; apply J. }
      apply next_row in U. destruct U as (r1 & _ & _ & _ & R2 & _ & R4 & _).
      assert (J1 : forall a0, joininv st1 a0) by (intros a0; now apply (joininv_stored st)).
      destruct (encode_message E _ _ _) as [buf|e|]; cbn [alwaysA]; try (split; apply J1).
      split; [apply J1|].
      assert (J2 : forall a0, joininv (l_set_sent_time st1 c now (d_fup dev)) a0) by (intros a0; now apply (joininv_stored st1); try reflexivity; [congruence | now apply (stored_keep st)]).
      cbn [exec]. split.
      - destruct (length buf =? 0)%nat; cbn [alwaysA]; [split; apply J2|].
        split; [apply J2|]. split; [cbn; split; apply J2 | intros Hc; discriminate].
      - intros _. destruct (length buf =? 0)%nat; cbn [alwaysA]; [split; apply J1|].
        split; [apply J1|]. split; [cbn; split; apply J1 | intros Hc; discriminate].
    Qed.
    Lemma alwaysA_send st dev rx c now acc : ds_inbox st = ds_inbox st0 -> stored st ->
      alwaysA joininv st (send_prog E D dev rx c now []) acc.
    Proof.
      intros Hi Hs. unfold send_prog. cbn [alwaysA].
      assert (J : forall a, joininv st a) by (intros a; split; [exact Hi | now left]).
      split; [apply J|]. split; [|intros _; cbn; split; apply J].
      cbn [exec]. destruct (l_get_phy st (r_datr (rx_radio rx))) as [st1 g] eqn:Eg.
      destruct (rest_get_phy st (r_datr (rx_radio rx))) as (_ & B & C). rewrite Eg in B, C. cbn [fst] in B, C.
      assert (Hi1 : ds_inbox st1 = ds_inbox st0) by congruence.
      assert (Hs1 : stored st1) by now apply (stored_keep st).
      assert (J1 : forall a, joininv st1 a) by (intros a; split; [exact Hi1 | now left]).
      destruct g as [| |p]; cbn [alwaysA]; try (split; apply J1).
      destruct (po_mtype p =? JoinAccept).
      - destruct (po_ja p); now apply alwaysA_enc_join.
      - destruct (mtype_uplink (po_mtype p) || (po_mtype p =? RFU) || (po_mtype p =? Proprietary)); [cbn; split; apply J1|].
        now apply alwaysA_enc_data.
    Qed.

    Theorem alwaysA_join rx appnonce newaddr :
      alwaysA joininv st0 (join_prog E D cfg f rx appnonce newaddr) [].
    Proof.
      assert (J0 : joininv st0 []) by (split; [reflexivity | right; repeat split; exact Hrow0]).
      unfold join_prog. cbn [alwaysA]. split; [exact J0|]. split; [|intros _; cbn; tauto].
      cbn [exec]. rewrite Hrow0. set (dev := load st0 r0).
      destruct (negb (buffer_mic E (d_appkey dev) (firstn 19 (rx_raw rx)) =? mic f)); [cbn; tauto|].
      cbn [alwaysA]. split; [exact J0|]. split; [|intros _; cbn; tauto].
      cbn [exec]. rewrite Hrow0. fold dev.
      destruct (negb (d_appeui dev =? jr_appeui (jr f))); [cbn; tauto|].
      destruct (negb (cfg_disable_nonce_check cfg) && existsb (fun n => n =? jr_devnonce (jr f)) (d_nonces dev)); [cbn; tauto|].
      cbn [alwaysA]. split; [exact J0|]. split; [|intros _; cbn; tauto].
      cbn [exec]. destruct (has_app apps (jr_appeui (jr f))); [|cbn; tauto].
      rewrite Hcheck. cbn [alwaysA]. split; [exact J0|]. split; [|intros _; cbn; tauto].
      cbn [exec]. destruct (l_add_nonce st0 (jr_devnonce (jr f))) as [st1 [e|]] eqn:En.
      { unfold l_add_nonce in En. destruct (existsb _ _); inversion En; subst. cbn. tauto. }
      unfold l_add_nonce in En. destruct (existsb _ (ds_nonces st0)) eqn:Ex; [discriminate|]. injection En as <-.
      set (st1 := with_nonces st0 (ds_nonces st0 ++ [jr_devnonce (jr f)])).
      assert (Hs1 : stored st1).
      { unfold stored, st1, nonce. cbn. rewrite existsb_app. cbn. rewrite N.eqb_refl. now rewrite orb_true_r. }
      assert (Hi1 : ds_inbox st1 = ds_inbox st0) by reflexivity.
      assert (J1 : forall a, joininv st1 a) by (intros a; split; [exact Hi1 | now left]).
      cbn [alwaysA]. split; [apply J1|]. split; [|intros _; cbn; split; apply J1].
      cbn [exec]. destruct (l_update_device st1 _) as [st2 [e|]] eqn:U.
      { unfold l_update_device in U. destruct (ds_row st1); inversion U; subst. cbn. split; apply J1. }
      unfold l_update_device in U. destruct (ds_row st1) as [rr|]; [|discriminate]. injection U as <-.
      match goal with |- alwaysA _ ?s _ _ => set (st2 := s) end.
      assert (Hi2 : ds_inbox st2 = ds_inbox st0) by reflexivity.
      assert (Hs2 : stored st2) by exact Hs1.
      assert (J2 : forall a, joininv st2 a) by (intros a; split; [exact Hi2 | now left]).
      cbn [alwaysA]. split; [apply J2|]. split; [|intros Hc; discriminate].
      cbn [exec]. apply alwaysA_send; [reflexivity | exact Hs2].
    Qed.

    (* C10, join clause: cut the join handler anywhere, fail any of its operations: if a join-accept has
       left, or the session keys have been replaced, then the nonce is in the store - and after a restart the
       same join-request is refused *)
    Theorem join_nonce_durable_before_effects fails fuel rx appnonce newaddr :
      let res := prunf apps fails 0 fuel st0 (join_prog E D cfg f rx appnonce newaddr) [] in
      (snd res <> [] \/ ds_row (fst res) <> Some r0) -> stored (fst res).
    Proof.
      intros res H. pose proof (alwaysA_prunf _ _ _ _ (alwaysA_join rx appnonce newaddr) fails 0%nat fuel) as (_ & [Hs | (Ha & Hr & _)]); [exact Hs|].
      fold res in Ha, Hr. destruct H as [H | H]; contradiction.
    Qed.
    Theorem replayed_join_refused_after_crash fails fuel rx appnonce newaddr rx' an' na' :
      let res := prunf apps fails 0 fuel st0 (join_prog E D cfg f rx appnonce newaddr) [] in
      (snd res <> [] \/ ds_row (fst res) <> Some r0) ->
      join_local E D cfg apps (recover (fst res)) f rx' an' na' = (recover (fst res), []).
    Proof.
      intros res H. pose proof (join_nonce_durable_before_effects fails fuel rx appnonce newaddr H) as Hs. fold res in Hs.
      unfold join_local. destruct (ds_row (recover (fst res))) as [r|]; [|reflexivity].
      cbn [load d_appkey d_appeui d_nonces].
      destruct (negb (buffer_mic E (d_appkey r) (firstn 19 (rx_raw rx')) =? mic f)); [reflexivity|].
      destruct (negb (d_appeui r =? jr_appeui (jr f))); [reflexivity|].
      rewrite Hcheck. cbn [negb andb]. unfold stored, nonce in Hs. change (ds_nonces (recover (fst res))) with (ds_nonces (fst res)).
      now rewrite Hs.
    Qed.
  End JoinCrash.
End StepsProof.
