From Lospan Require Import Base.Bytes Base.Outcome Model.FrameTypes Gen.Consts Model.MacCmd Spec.MacLayout
  Proof.BitLemmas Proof.MacCmdProof.
From Coq Require Import Sorted.
Open Scope N_scope.

Definition cid_lt (a b : cmd) : Prop := c_cid a < c_cid b.
Definition cmds_len (l : list cmd) : nat := fold_right (fun c a => (cmd_len c + a)%nat) 0%nat l.

(* the invariant of a command set *)
Definition set_inv (s : cmdset) : Prop :=
  StronglySorted cid_lt (cs_cmds s) /\
  Forall (fun c => c_up c = mtype_uplink (cs_msg s)) (cs_cmds s) /\
  (Z.of_nat (set_encoded_length s) <= Z.max 0 (cs_max s))%Z.

Lemma insert_forall (P : cmd -> Prop) c l : P c -> Forall P l -> Forall P (insert_cmd c l).
Proof.
  intros Hc Hl. induction Hl as [|h t Hh Ht IH]; cbn [insert_cmd]; [now constructor|].
  destruct (c_cid c <? c_cid h); [repeat constructor; assumption|].
  destruct (c_cid c =? c_cid h); [constructor; assumption|]. constructor; assumption.
Qed.

Lemma insert_sorted c l : StronglySorted cid_lt l -> StronglySorted cid_lt (insert_cmd c l).
Proof.
  intros Hl. induction Hl as [|h t Ht IH Hh]; cbn [insert_cmd]; [repeat constructor|].
  destruct (c_cid c <? c_cid h) eqn:E1.
  - apply N.ltb_lt in E1. constructor; [constructor; assumption|].
    constructor; [exact E1|]. eapply Forall_impl; [|exact Hh]. unfold cid_lt. intros a Ha. lia.
  - destruct (c_cid c =? c_cid h) eqn:E2.
    + apply N.eqb_eq in E2. constructor; [assumption|].
      eapply Forall_impl; [|exact Hh]. unfold cid_lt. intros a Ha. lia.
    + apply N.ltb_ge in E1. apply N.eqb_neq in E2. constructor; [exact IH|].
      apply insert_forall; [unfold cid_lt; lia | exact Hh].
Qed.

Lemma insert_len c l : (cmds_len (insert_cmd c l) <= cmds_len l + cmd_len c)%nat.
Proof.
  unfold cmds_len. induction l as [|h t IH]; cbn [insert_cmd fold_right]; [lia|].
  destruct (c_cid c <? c_cid h); [cbn [fold_right]; lia|].
  destruct (c_cid c =? c_cid h); cbn [fold_right] in *; lia.
Qed.

Lemma new_set_inv msg max : set_inv (new_set msg max).
Proof. unfold set_inv, new_set; cbn. repeat split; [constructor | constructor | lia]. Qed.

Lemma set_add_inv s c : set_inv s -> set_inv (fst (set_add s c)).
Proof.
  intros (S1 & S2 & S3). unfold set_add.
  destruct (cs_max s <? Z.of_nat (set_encoded_length s + cmd_len c))%Z eqn:E1; [cbn; now repeat split|].
  destruct (negb (Bool.eqb (c_up c) (mtype_uplink (cs_msg s)))) eqn:E2; [cbn; now repeat split|].
  cbn [fst]. unfold set_inv; cbn [cs_cmds cs_max cs_msg].
  apply negb_false_iff, Bool.eqb_prop in E2. apply Z.ltb_ge in E1.
  repeat split.
  - now apply insert_sorted.
  - now apply insert_forall.
  - unfold set_encoded_length in *. cbn [cs_cmds].
    pose proof (insert_len c (cs_cmds s)) as L. unfold cmds_len in L. lia.
Qed.

(* a refused add leaves the set as it was *)
Lemma set_add_refused s c : snd (set_add s c) = false -> fst (set_add s c) = s.
Proof.
  unfold set_add.
  destruct (cs_max s <? Z.of_nat (set_encoded_length s + cmd_len c))%Z; [reflexivity|].
  destruct (negb (Bool.eqb (c_up c) (mtype_uplink (cs_msg s)))); [reflexivity|discriminate].
Qed.

Theorem set_adds_inv msg max (cs : list cmd) :
  set_inv (fold_left (fun s c => fst (set_add s c)) cs (new_set msg max)).
Proof.
  assert (G : forall s, set_inv s -> set_inv (fold_left (fun s c => fst (set_add s c)) cs s)).
  { induction cs as [|c t IH]; intros s Hs; cbn [fold_left]; [exact Hs|]. apply IH. now apply set_add_inv. }
  apply G, new_set_inv.
Qed.

(* a command whose field list has the shape of its struct *)
Definition shape_ok (c : cmd) : Prop :=
  exists l lay, layout_lookup layout_table (c_up c) (c_cid c) = Some (l, lay) /\ length (c_fields c) = length lay.

Lemma len0 {A} (l : list A) : length l = 0%nat -> l = [].
Proof. destruct l; [reflexivity|discriminate]. Qed.
Lemma lenS {A} (l : list A) n : length l = S n -> exists a t, l = a :: t /\ length t = n.
Proof. destruct l as [|a t]; [discriminate|]. intros [= H]. now exists a, t. Qed.
Ltac len_destruct H :=
  repeat match type of H with
  | length ?l = 0%nat => apply len0 in H; subst l
  | length ?l = S _ => let a := fresh "a" in let t := fresh "t" in let E := fresh "E" in
      apply lenS in H; destruct H as (a & t & E & H); subst l
  end.

Lemma shape_payload_len c : shape_ok c ->
  exists p, cmd_payload_enc (c_up c) (c_cid c) (c_fields c) = Some p /\ cmd_len c = S (length p).
Proof.
  intros (l & lay & L & Hn). destruct c as [up cid fs]; cbn [c_up c_cid c_fields] in *.
  destruct (mac_of_layout _ _ _ _ L) as [M _]. unfold cmd_len; cbn [c_up c_cid]. rewrite M.
  apply layout_lookup_in in L. cbn [In layout_table] in L.
  repeat (destruct L as [L|L];
    [injection L as <- <- <- <-; cbn [length] in Hn; len_destruct Hn;
     eexists; split; [reflexivity|]; cbn [length le_bytes firstn app]; reflexivity | ]).
  contradiction.
Qed.

(* what the set writes is exactly what it reports as its encoded length *)
Theorem set_encode_length buflen : forall l pos bs,
  Forall shape_ok l -> cmds_encode buflen pos l = Ok bs -> length bs = cmds_len l.
Proof.
  induction l as [|c t IH]; intros pos bs Hs; cbn [cmds_encode cmds_len fold_right].
  - intros [= <-]. reflexivity.
  - inversion Hs as [|? ? Hc Ht]; subst.
    destruct (shape_payload_len c Hc) as (p & P & Lc).
    unfold cmd_encode at 1. destruct (valid_buffer buflen pos c); [|discriminate].
    rewrite P. cbn [bind]. destruct (cmds_encode buflen (pos + length (u8 (c_cid c) :: p)) t) as [r| |] eqn:R; try discriminate.
    cbn [bind]. intros [= <-]. cbn [app length]. rewrite app_length, (IH _ _ Ht R).
    unfold cmds_len. lia.
Qed.
