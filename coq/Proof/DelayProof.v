(* The delay clause of C17 on the pipeline side: every downlink that leaves carries the receive-window delay that belongs to
   the frame it IS - five seconds when its MHDR says join-accept, one second otherwise - whichever handler sends it
   (an uplink's handler can collect a join-accept left in the device's buffer entry by a join handled at the same time,
   and a join's handler can find a data frame there), for every schedule of any handlers of a device. *)
From Coq Require Import String.
From Lospan Require Import Base.Bytes Base.Outcome Model.CMAC Model.FrameTypes Model.Crypto Gen.Consts Model.MacCmd
  Model.Frame Model.Join Model.Store Model.Server Model.Steps Proof.BitLemmas Proof.FrameEncodeProof Proof.LocalProof Proof.SchedProof.
Open Scope N_scope.

Definition ja_typed (d : downlink) : bool := hd 0 (dl_raw d) / 32 =? 1.
Definition delay_ok (d : downlink) : Prop := dl_rx1delay d = if ja_typed d then 5 else 1.

Lemma mhdr_type mt mj : mt < 8 -> mhdr_byte mt mj / 32 = mt.
Proof.
  intros Hm. assert (E4 : mhdr_byte mt mj = mhdr_byte mt (mj mod 4)).
  { unfold mhdr_byte. f_equal. change 3 with (N.ones 2). rewrite !N.land_ones. now rewrite N.mod_mod by discriminate. }
  rewrite E4, mhdr_byte_spec; [|exact Hm | now apply N.mod_upper_bound].
  pose proof (N.mod_upper_bound mj 4). rewrite N.div_add_l by discriminate. rewrite N.div_small; lia.
Qed.

Lemma encode_first f buf : encode f = Ok buf -> hd 0 buf = mhdr_byte (mtype f) (major f).
Proof.
  unfold encode. destruct (_ || _ || _); [discriminate|]. destruct (15 <? _); [discriminate|].
  destruct (set_encode _ _ _) as [fo| |]; cbn [bind]; try discriminate.
  destruct (223 <? _); [discriminate|]. destruct (_ && _); [discriminate|].
  match goal with |- (do body <- ?b; _) = _ -> _ => destruct b as [body| |] end; cbn [bind]; try discriminate.
  destruct (_ <? _)%nat; [discriminate|]. intros [= <-]. reflexivity.
Qed.
Lemma encode_message_first E nk ak f buf : encode_message E nk ak f = Ok buf -> hd 0 buf = mhdr_byte (mtype f) (major f).
Proof.
  unfold encode_message. destruct (encode _) as [b1| |]; cbn [bind]; try discriminate.
  destruct (_ <? _)%nat; [discriminate|]. intros H. apply encode_first in H. exact H.
Qed.

(* the buffer entry holds a message type (three bits) *)
Definition fb_small (st : dstate) : Prop := match ds_fb st with Some fd => fo_mtype fd < 8 | None => True end.
Definition small_res (o : sop) (r : sres) : Prop :=
  match o, r with SGetPhy _, XPhy (GetOk p) => po_mtype p < 8 | _, _ => True end.

Lemma exec_small apps st o : fb_small st ->
  fb_small (fst (fst (exec apps st o))) /\ small_res o (snd (fst (exec apps st o))) /\
  match o with SEmit d _ => snd (exec apps st o) = [ODown d] | _ => snd (exec apps st o) = [] end.
Proof.
  intros H. destruct o; cbn [exec small_res]; try (split; [exact H | split; [exact I | reflexivity]]).
  - unfold l_update_device_state. destruct (ds_row st); cbn; auto.
  - unfold l_advance_fup. destruct (ds_row st); [destruct (_ && _)|]; cbn; auto.
  - unfold l_next_fdn. destruct (ds_row st); [destruct (negb _)|]; cbn; auto.
  - unfold l_create_upstream. destruct (existsb _ _); cbn; auto.
  - split; [|split; [exact I | reflexivity]]. unfold fb_small, l_set_ack_flag in *. cbn. destruct (ds_fb st); [exact H | cbn; reflexivity].
  - split; [|split; [exact I | reflexivity]]. unfold fb_small, l_set_payload. cbn. destruct ack; reflexivity.
  - (* GetPHYPayloadForDevice *)
    unfold l_get_phy, fb_small in *. destruct (ds_fb st) as [fd|] eqn:Ef; [|cbn; rewrite Ef; auto].
    assert (Hfd' : (if fo_mtype fd =? JoinAccept then UnconfirmedDataDown else fo_mtype fd) < 8) by (destruct (_ =? _); [reflexivity | exact H]).
    destruct (_ && _ && _); [cbn; auto|]. destruct (0 <? _)%nat.
    + destruct (max_payload datr) as [mn|]; [|cbn; rewrite Ef; auto]. destruct (_ <? _)%nat; cbn; auto.
    + cbn. auto.
  - unfold l_add_nonce. destruct (existsb _ _); cbn; auto.
  - unfold l_update_device. destruct (ds_row st); cbn; auto.
  - split; [|split; [exact I | reflexivity]]. unfold fb_small, l_set_join_accept. cbn. reflexivity.
Qed.

(* handlers whose every hand-over satisfies the clause *)
Inductive dly : prog -> Prop :=
| dly_halt o : downs o = [] -> dly (Halt o)
| dly_emit d c k : delay_ok d -> (forall r, dly (k r)) -> dly (Do (SEmit d c) k)
| dly_do o k : (forall d c, o <> SEmit d c) -> (forall r, small_res o r -> dly (k r)) -> dly (Do o k).

Lemma Forall_replace_dly i p : forall ps, Forall dly ps -> dly p -> Forall dly (replace_nth i p ps).
Proof. induction i as [|i IH]; intros [|h t] H Hp; cbn; auto; inversion H; subst; constructor; auto. Qed.
Lemma final_outs_dly ps : Forall dly ps -> downs (final_outs ps) = [].
Proof.
  induction 1 as [|p t Hp _ IH]; [reflexivity|]. unfold final_outs in *. cbn [flat_map]. rewrite downs_app, IH, app_nil_r.
  destruct Hp; [assumption | reflexivity | reflexivity].
Qed.

Theorem interleaveN_delay apps : forall fuel sched st ps acc,
  fb_small st -> Forall dly ps -> Forall delay_ok (downs acc) ->
  Forall delay_ok (downs (snd (interleaveN apps sched fuel st ps acc))).
Proof.
  induction fuel as [|fuel IH]; intros sched st ps acc Hs Hp Ha; cbn [interleaveN]; [exact Ha|].
  destruct (choose (hd 0%nat sched) ps) as [i|]; [|cbn [snd]; rewrite downs_app, (final_outs_dly ps Hp), app_nil_r; exact Ha].
  destruct (nth_error ps i) as [[o0 | o k]|] eqn:Ei; try (cbn [snd]; exact Ha).
  assert (Hi : dly (Do o k)) by (rewrite Forall_forall in Hp; apply Hp; eapply nth_error_In; exact Ei).
  pose proof (exec_small apps st o Hs) as (S1 & S2 & S3). destruct (exec apps st o) as [[st' r] e]. cbn [fst snd] in *.
  apply IH; [exact S1| |].
  - apply Forall_replace_dly; [exact Hp|]. destruct (_ && _); [now constructor|].
    inversion Hi as [| d c k' Hd Hk | o' k' Hn Hk]; subst; [apply Hk | apply Hk; exact S2].
  - rewrite downs_app. apply Forall_app. split; [exact Ha|].
    inversion Hi as [| d c k' Hd Hk | o' k' Hn Hk]; subst.
    + rewrite S3. cbn. constructor; [exact Hd | constructor].
    + destruct o; try (rewrite S3; apply Forall_nil). exfalso. eapply Hn. reflexivity.
Qed.

Section Handlers.
  Variable E D : list N -> list N -> list N.

  Lemma dly_enc_join dev j rx fin : downs fin = [] -> dly (enc_join_prog E D dev j rx fin).
  Proof.
    intros Hf. unfold enc_join_prog. apply dly_do; [discriminate|]. intros [[e|]| | | | |] _; try (now constructor).
    destruct (encode_join_accept _ _ _ _ _ _) as [buf| |] eqn:Ej; try (now constructor).
    apply dly_emit; [|intros _; now constructor].
    unfold delay_ok, ja_typed. cbn [dl_raw dl_rx1delay]. unfold encode_join_accept in Ej. cbn [negb N.eqb Pos.eqb JoinAccept] in Ej.
    destruct (joinacc_payload j) as [p| |]; cbn [bind] in Ej; try discriminate. injection Ej as <-. cbn [hd].
    rewrite mhdr_type by reflexivity. reflexivity.
  Qed.
  Lemma dly_enc_data dev p rx created now fin : downs fin = [] -> po_mtype p < 8 -> po_mtype p <> JoinAccept ->
    dly (enc_data_prog E dev p rx created now fin).
  Proof.
    intros Hf H8 Hja. unfold enc_data_prog. destruct (encode _); try (now constructor).
    apply dly_do; [discriminate|]. intros [| | | | |[c|]] _; try (now constructor).
    destruct (encode_message E _ _ _) as [buf| |] eqn:Em; try (now constructor).
    apply dly_do; [discriminate|]. intros _ _. destruct (length buf =? 0)%nat; [now constructor|].
    apply dly_emit; [|intros _; now constructor].
    unfold delay_ok, ja_typed. cbn [dl_raw dl_rx1delay]. rewrite (encode_message_first _ _ _ _ _ Em). cbn [downlink_frame mtype major].
    rewrite mhdr_type by exact H8. destruct (po_mtype p =? 1) eqn:E1; [apply N.eqb_eq in E1; contradiction | reflexivity].
  Qed.
  Lemma dly_send dev rx created now fin : downs fin = [] -> dly (send_prog E D dev rx created now fin).
  Proof.
    intros Hf. unfold send_prog. apply dly_do; [discriminate|]. intros r Hr.
    destruct r as [| | |g| |]; try (now constructor). destruct g as [| |p]; try (now constructor). cbn in Hr.
    destruct (po_mtype p =? JoinAccept) eqn:Eja; [destruct (po_ja p); now apply dly_enc_join|].
    destruct (_ || _ || _); [now constructor|]. apply dly_enc_data; [exact Hf | exact Hr | now apply N.eqb_neq].
  Qed.
  Lemma dly_queue dev1 f rx now fin : downs fin = [] -> dly (queue_prog E D dev1 f rx now fin).
  Proof.
    intros Hf. unfold queue_prog.
    assert (A : dly (Do SGetNextUnsent (fun r => match r with
        | XMsg (Some m) => Do (SSetPayload (m_data m) (m_port m) (m_ack m)) (fun _ =>
                           Do (SSetSentTime (m_created m) now (fcnt f)) (fun _ => send_prog E D dev1 rx (m_created m) now fin))
        | _ => send_prog E D dev1 rx 0 now fin end))).
    { apply dly_do; [discriminate|]. intros [| |[m|]| | |] _; try (now apply dly_send).
      apply dly_do; [discriminate|]. intros _ _. apply dly_do; [discriminate|]. intros _ _. now apply dly_send. }
    assert (B : dly (if ack (fc f) then Do (SUpdateAckTime (fcnt f) now) (fun _ => Do SGetNextUnsent (fun r => match r with
        | XMsg (Some m) => Do (SSetPayload (m_data m) (m_port m) (m_ack m)) (fun _ =>
                           Do (SSetSentTime (m_created m) now (fcnt f)) (fun _ => send_prog E D dev1 rx (m_created m) now fin))
        | _ => send_prog E D dev1 rx 0 now fin end))
      else Do SResetAcks (fun _ => Do SGetNextUnsent (fun r => match r with
        | XMsg (Some m) => Do (SSetPayload (m_data m) (m_port m) (m_ack m)) (fun _ =>
                           Do (SSetSentTime (m_created m) now (fcnt f)) (fun _ => send_prog E D dev1 rx (m_created m) now fin))
        | _ => send_prog E D dev1 rx 0 now fin end)))).
    { destruct (ack (fc f)); (apply dly_do; [discriminate|]); intros _ _; exact A. }
    destruct (mtype f =? ConfirmedDataUp); [apply dly_do; [discriminate|]; intros _ _; exact B | exact B].
  Qed.

  Theorem uplink_prog_dly f rx n now : dly (uplink_prog E D f rx n now).
  Proof.
    unfold uplink_prog. apply dly_do; [discriminate|]. intros [|[dev|]| | | |] _; try (now constructor).
    destruct (negb _); [now constructor|]. destruct (stale dev f); [now constructor|].
    assert (Body : forall dev1, dly (
      Do (SCreateUpstream (mk_umsg dev1 rx (frm (frame_crypt E (d_nwkskey dev1) (d_appskey dev1) f)))) (fun r =>
        match r with
        | XErr None => Do (SGetApp (d_appeui dev1)) (fun r => match r with
            | XApp true => queue_prog E D dev1 f rx now [OPub (mk_pub dev1 rx (frm (frame_crypt E (d_nwkskey dev1) (d_appskey dev1) f)))]
            | _ => Halt [] end)
        | _ => Halt [] end))).
    { intros dev1. apply dly_do; [discriminate|]. intros [[e|]| | | | |] _; try (now constructor).
      apply dly_do; [discriminate|]. intros [| | | |[|]|] _; try (now constructor). now apply dly_queue. }
    destruct (d_fup dev <=? fcnt f); [|apply Body].
    apply dly_do; [discriminate|]. intros [[[| |]|]| | | | |] _; try (now constructor); try apply Body.
    destruct (d_relaxed dev); [apply Body | now constructor].
  Qed.

  Theorem join_prog_dly cfg f rx appnonce newaddr : dly (join_prog E D cfg f rx appnonce newaddr).
  Proof.
    unfold join_prog. apply dly_do; [discriminate|]. intros [|[dev0|]| | | |] _; try (now constructor).
    destruct (negb _); [now constructor|].
    apply dly_do; [discriminate|]. intros [|[dev|]| | | |] _; try (now constructor).
    destruct (negb (d_appeui dev =? _)); [now constructor|]. destruct (_ && _); [now constructor|].
    apply dly_do; [discriminate|]. intros [| | | |[|]|] _; try (now constructor).
    match goal with |- dly (if _ then ?rest else _) => assert (Rest : dly rest) end.
    { apply dly_do; [discriminate|]. intros [[e|]| | | | |] _; try (now constructor).
      apply dly_do; [discriminate|]. intros _ _. now apply dly_send. }
    destruct (cfg_disable_nonce_check cfg); [exact Rest|].
    apply dly_do; [discriminate|]. intros [[e|]| | | | |] _; try (now constructor). exact Rest.
  Qed.
End Handlers.

(* Any pool of join and uplink handlers of a device (any frames), every schedule and run length, from any state whose
   buffer entry holds a message type: every downlink that leaves has the delay of its own frame type. *)
Inductive handler E D : prog -> Prop :=
| h_uplink f rx n now : handler E D (uplink_prog E D f rx n now)
| h_join cfg f rx appnonce newaddr : handler E D (join_prog E D cfg f rx appnonce newaddr).

Theorem delay_follows_the_frame_type E D apps ps sched fuel st :
  Forall (handler E D) ps -> fb_small st ->
  Forall delay_ok (downs (snd (interleaveN apps sched fuel st ps []))).
Proof.
  intros Hh Hs. apply interleaveN_delay; [exact Hs | | constructor].
  eapply Forall_impl; [|exact Hh]. intros p [f rx n now | cfg f rx an na]; [apply uplink_prog_dly | apply join_prog_dly].
Qed.

(* witnesses with the concrete cipher: a join-accept leaves with five seconds, a data answer with one *)
From Lospan Require Import Base.AES Proof.SessionProof.
Example delays_of_the_witness_runs :
  map (fun d => (dl_rx1delay d, ja_typed d)) (downs (snd sj_result)) = [(5, true)] /\
  map (fun d => (dl_rx1delay d, ja_typed d)) (downs (snd copies_result)) = [(1, false)] /\
  fb_small (w_st 5 3).
Proof. vm_compute. repeat split. Qed.
