(* C09, existence: an accepted confirmed uplink IS answered - by exactly one downlink, and that downlink has the
   ACK bit set - whenever what is queued for the device can be sent at all (ports 1..223, as the service accepts). *)
From Coq Require Import String.
From Lospan Require Import Base.Bytes Base.Outcome Model.CMAC Model.FrameTypes Model.Crypto Gen.Consts Model.MacCmd
  Model.Frame Model.Join Model.Store Model.Server Proof.BitLemmas Proof.CryptoProof Proof.FrameEncodeProof Proof.EncodableProof
  Proof.LocalProof Proof.QueueProof.
Open Scope N_scope.

Definition port_ok (p : N) : Prop := 1 <= p <= 223.
(* what waits in the buffer entry and in the queue can be sent *)
Definition sendable (st : dstate) : Prop :=
  match ds_fb st with Some fd => fo_payload fd = [] \/ port_ok (fo_port fd) | None => True end /\
  Forall (fun m => port_ok (m_port m)) (ds_outbox st).

Lemma max_payload_fits datr mn : max_payload datr = Some mn -> max_without_fopts mn <= 230.
Proof.
  unfold max_payload. destruct (assoc_str eu868_datr datr) as [dr|]; [|discriminate].
  unfold eu868_payload. cbn [assoc_n].
  repeat (destruct (_ =? dr); [intros [= <-]; vm_compute; discriminate|]). discriminate.
Qed.

(* a data downlink built from a buffer read can be marshalled *)
Lemma encode_downlink_ok dev p c : down_type (po_mtype p) -> (po_frm p = [] \/ port_ok (po_port p)) -> (length (po_frm p) <= 230)%nat ->
  exists b, encode (downlink_frame dev p c) = Ok b.
Proof.
  intros Ht Hp Hl. unfold encode, downlink_frame. cbn [mtype major f_devaddr fc fcnt fopts fport frm maccmds mic new_phy].
  assert (Hm : (po_mtype p =? JoinAccept) || (po_mtype p =? JoinRequest) || (po_mtype p =? Proprietary) = false) by (destruct Ht as [-> | ->]; reflexivity).
  rewrite Hm. cbn [new_set set_encoded_length cs_cmds fold_right set_encode cmds_encode bind set_size length].
  change (15 <? N.land (N.of_nat 0) 255) with false. cbv iota.
  destruct (length (po_frm p) =? 0)%nat eqn:E0.
  - apply Nat.eqb_eq in E0. cbn [andb Nat.ltb Nat.leb]. change (223 <? 0) with false. cbv iota.
    rewrite E0. cbn. eexists. reflexivity.
  - apply Nat.eqb_neq in E0. destruct Hp as [Hp | [Hp1 Hp2]]; [rewrite Hp in E0; cbn in E0; congruence|].
    replace (223 <? po_port p) with false by (symmetry; apply N.ltb_ge; lia).
    replace (po_port p =? 0) with false by (symmetry; apply N.eqb_neq; lia). cbn [andb]. cbv iota.
    replace (0 <? length (po_frm p))%nat with true by (symmetry; apply Nat.ltb_lt; lia).
    cbn [length app]. unfold buffer_size.
    match goal with |- context [(255 <=? ?n)%nat] => replace (255 <=? n)%nat with false by (symmetry; apply Nat.leb_gt; cbn; lia) end.
    match goal with |- context [(255 <? ?n)%nat] => replace (255 <? n)%nat with false by (symmetry; apply Nat.ltb_ge; cbn; lia) end.
    cbn [bind]. 
    match goal with |- context [(255 <? ?n)%nat] => replace (255 <? n)%nat with false by (symmetry; apply Nat.ltb_ge; repeat (progress cbn [length] || rewrite app_length || rewrite le_bytes_length); lia) end.
    eexists. reflexivity.
Qed.

Lemma ports_upd st g sel : (forall m, m_port (g m) = m_port m) ->
  Forall (fun m => port_ok (m_port m)) (ds_outbox st) -> Forall (fun m => port_ok (m_port m)) (ds_outbox (upd_outbox st g sel)).
Proof.
  intros Hg H. unfold upd_outbox. cbn [ds_outbox with_outbox]. rewrite Forall_forall in *. intros y Hy.
  apply in_map_iff in Hy. destruct Hy as (x & <- & Hx). destruct (sel x); [rewrite Hg|]; now apply H.
Qed.

(* after the bookkeeping of a confirmed uplink the buffer entry exists, asks for an acknowledgement, is a data
   entry, and what it holds can be sent *)
Lemma pm_queue_entry st f now : mtype f = ConfirmedDataUp -> fb_down st -> sendable st ->
  exists fd, ds_fb (fst (pm_queue st f now)) = Some fd /\ fo_ack fd = true /\ down_type (fo_mtype fd) /\
             (fo_payload fd = [] \/ port_ok (fo_port fd)).
Proof.
  intros Hm Hfb [Hs1 Hs2]. unfold pm_queue. rewrite Hm. change (ConfirmedDataUp =? ConfirmedDataUp) with true. cbv iota.
  set (st3 := l_set_ack_flag st true).
  assert (H3 : exists fd, ds_fb st3 = Some fd /\ fo_ack fd = true /\ down_type (fo_mtype fd) /\ (fo_payload fd = [] \/ port_ok (fo_port fd))).
  { unfold st3, l_set_ack_flag, fb_down in *. cbn [ds_fb with_fbe]. eexists. split; [reflexivity|]. cbn [fo_ack fo_mtype fo_payload fo_port].
    destruct (ds_fb st) as [fd0|]; cbn; [tauto | split; [reflexivity|]; split; [now left | now left]]. }
  assert (P3 : Forall (fun m => port_ok (m_port m)) (ds_outbox st3)) by exact Hs2.
  set (st4 := if ack (fc f) then l_update_ack_time st3 (fcnt f) now else l_reset_active_acks st3).
  assert (F4 : ds_fb st4 = ds_fb st3) by (unfold st4; destruct (ack (fc f)); reflexivity).
  assert (P4 : Forall (fun m => port_ok (m_port m)) (ds_outbox st4)).
  { unfold st4. destruct (ack (fc f)); [unfold l_update_ack_time | unfold l_reset_active_acks]; apply ports_upd; auto. }
  destruct (l_get_next_unsent st4) as [m|] eqn:En; cbn [fst].
  - apply next_unsent_is_oldest in En. destruct En as [Hin _]. rewrite Forall_forall in P4. specialize (P4 m Hin).
    destruct H3 as (fd & Hfd & Ha & _ & _). unfold l_set_sent_time, upd_outbox, l_set_payload. cbn [ds_fb with_outbox with_fbe].
    rewrite F4, Hfd. eexists. split; [reflexivity|]. cbn [fo_ack fo_mtype fo_payload fo_port].
    split; [exact Ha|]. split; [destruct (m_ack m); [now right | now left] | now right].
  - rewrite F4. exact H3.
Qed.

Lemma get_phy_answer st datr fd : ds_fb st = Some fd -> fo_ack fd = true -> down_type (fo_mtype fd) ->
  (fo_payload fd = [] \/ port_ok (fo_port fd)) -> max_payload datr <> None ->
  exists st' p, l_get_phy st datr = (st', GetOk p) /\ po_ack p = true /\ down_type (po_mtype p) /\
    (po_frm p = [] \/ port_ok (po_port p)) /\ (length (po_frm p) <= 230)%nat /\ ds_row st' = ds_row st.
Proof.
  intros Hfd Ha Ht Hp Hd. unfold l_get_phy. rewrite Hfd, Ha. cbn [negb]. rewrite andb_false_r.
  destruct (0 <? length (fo_payload fd))%nat eqn:E0.
  - destruct (max_payload datr) as [mn|] eqn:Em; [|contradiction]. pose proof (max_payload_fits _ _ Em) as Hfit.
    assert (Hport : port_ok (fo_port fd)).
    { destruct Hp as [Hp|Hp]; [|exact Hp]. rewrite Hp in E0. discriminate. }
    destruct (N.to_nat (max_without_fopts mn) <? length (fo_payload fd))%nat eqn:Ex.
    + eexists. eexists. split; [reflexivity|]. cbn [po_ack po_mtype po_frm po_port ds_row with_fbe].
      repeat split; auto. rewrite firstn_length. lia.
    + apply Nat.ltb_ge in Ex. eexists. eexists. split; [reflexivity|]. cbn [po_ack po_mtype po_frm po_port ds_row with_fbe].
      repeat split; auto. lia.
  - eexists. eexists. split; [reflexivity|]. cbn [po_ack po_mtype po_frm po_port ds_row with_fbe length]. repeat split; auto. lia.
Qed.

Section Answer.
  Variable E D : list N -> list N -> list N.
  Hypothesis E_len : forall k b, length (E k b) = 16%nat.

  (* the frame the encoder emits for a buffer read that asks for an acknowledgement has the ACK bit (bit 5 of FCtrl) set *)
  Lemma encoded_ack_bit nk ak dev p c buf : down_type (po_mtype p) -> po_ack p = true ->
    encode_message E nk ak (downlink_frame dev p c) = Ok buf -> N.testbit (nth 5 buf 0) 5 = true.
  Proof.
    intros Ht Ha. unfold encode_message. destruct (encode _) as [b1| |]; cbn [bind]; try discriminate.
    destruct (_ <? _)%nat; [discriminate|]. intros Hb.
    apply encode_is_the_specified_layout in Hb.
    2:{ unfold frame_wf. cbn [set_mic frame_crypt set_frm downlink_frame mtype major f_devaddr fopts new_phy new_set cs_cmds devaddr_of_u32 nwkid nwkaddr].
        split; [destruct Ht as [-> | ->]; vm_compute; reflexivity|]. split; [vm_compute; reflexivity|].
        split; [change 128 with (2 ^ 7); change 127 with (N.ones 7); rewrite N.land_ones; apply N.mod_upper_bound; discriminate|].
        split; [change 33554432 with (2 ^ 25); change 33554431 with (N.ones 25); rewrite N.land_ones; apply N.mod_upper_bound; discriminate | constructor]. }
    destruct Hb as (fo & body & Hfo & _ & _ & ->).
    cbn [set_mic frame_crypt set_frm downlink_frame fopts new_phy new_set set_encode cs_cmds cmds_encode] in Hfo. injection Hfo as <-.
    cbn [set_mic frame_crypt set_frm downlink_frame fc adr adrackreq ack fpending classb]. rewrite Ha.
    unfold spec_layout. cbn [app le_bytes nth length]. cbn [b2n orb]. destruct (po_pending p); vm_compute; reflexivity.
  Qed.

  (* C09, existence: an accepted confirmed uplink of a registered application is answered by exactly one downlink,
     which has the ACK bit set - with or without queued data, whatever the frame counter of the answer *)
  Theorem confirmed_uplink_is_acknowledged apps st f rx n now r :
    ds_row st = Some r -> fb_down st -> valid_datr rx -> sendable st ->
    mtype f = ConfirmedDataUp -> stale r f = false ->
    (forall x, In x (ds_inbox st) -> u_ts x <> rx_ts rx) -> has_app apps (d_appeui r) = true ->
    exists dl, downs (snd (l_uplink E D apps st f rx n now)) = [dl] /\ N.testbit (nth 5 (dl_raw dl) 0) 5 = true /\ dl_eui dl = d_eui r.
  Proof.
    intros Hr Hfb Hd Hsend Hm Hs Hts Happ. unfold l_uplink. rewrite Hr. unfold process_message. rewrite stale_load, Hs.
    destruct (pm_counter st (load st r) f n) as [[st1 dev1]|] eqn:Ec.
    2:{ exfalso. unfold pm_counter in Ec. cbn [load d_fup] in Ec. destruct (d_fup r <=? fcnt f) eqn:Ecmp; [|discriminate].
        unfold l_advance_fup in Ec. rewrite Hr, Ecmp in Ec. cbn [load d_nwkskey] in Ec. rewrite keq_refl in Ec. discriminate. }
    destruct (pm_counter_spec st (load st r) f n st1 dev1 r Hr eq_refl eq_refl eq_refl eq_refl Ec)
      as (r1 & R1 & S1 & Fd1 & Eu1 & Kn1 & Ka1 & Ad1 & I1 & O1 & B1 & N1 & Hc).
    cbn [load d_eui d_nwkskey d_appskey d_addr d_appeui d_fdn] in *.
    assert (Hae : d_appeui dev1 = d_appeui r).
    { unfold pm_counter in Ec. cbn [load d_fup d_fdn d_keywarn] in Ec. destruct (d_fup r <=? fcnt f).
      - destruct (l_advance_fup _ _ _ _ _) as [x [[]|]]; cbn [load d_relaxed] in Ec; try discriminate.
        + destruct (d_relaxed r); [|discriminate]. injection Ec as _ <-. reflexivity.
        + injection Ec as _ <-. reflexivity.
      - injection Ec as _ <-. reflexivity. }
    unfold l_create_upstream. cbn [mk_umsg u_ts]. rewrite I1.
    replace (existsb (fun x => u_ts x =? rx_ts rx) (ds_inbox st)) with false.
    2:{ symmetry. apply not_true_is_false. intros He. apply existsb_exists in He. destruct He as (x & Hx & Ex).
        apply N.eqb_eq in Ex. exact (Hts x Hx Ex). }
    rewrite Hae, Happ. cbn [negb]. cbv zeta.
    match goal with |- context [pm_queue ?s f now] => set (st2 := s) end.
    assert (Hfb2 : fb_down st2) by (unfold fb_down, st2 in *; cbn [ds_fb with_inbox]; now rewrite B1).
    assert (Hsend2 : sendable st2) by (unfold sendable, st2 in *; cbn [ds_fb ds_outbox with_inbox]; now rewrite B1, O1).
    destruct (pm_queue_entry st2 f now Hm Hfb2 Hsend2) as (fd & Hfd & Hack & Hty & Hport).
    destruct (pm_queue_props st2 f now) as (Q1 & _).
    set (q := pm_queue st2 f now) in *.
    destruct (get_phy_answer (fst q) (r_datr (rx_radio rx)) fd Hfd Hack Hty Hport Hd) as (st5 & p & Eg & Pa & Pt & Pp & Pl & R5).
    unfold send_for. rewrite Eg. destruct (down_type_not_ja _ Pt) as [-> ->].
    unfold encoder_data.
    destruct (encode_downlink_ok dev1 p 0 Pt Pp Pl) as [b0 T]. rewrite T.
    assert (Hrow5 : ds_row st5 = Some r1) by (rewrite R5, Q1; unfold st2; cbn [ds_row with_inbox]; exact R1).
    assert (Hk5 : d_nwkskey r1 = d_nwkskey dev1) by (destruct S1 as (_ & _ & _ & _ & Sk & _); congruence).
    unfold l_next_fdn. rewrite Hrow5, Hk5, keq_refl. cbn [negb].
    destruct (trial_decides E E_len dev1 p b0 (d_nwkskey dev1) (d_appskey dev1) (d_fdn r1) T) as [buf Em]. rewrite Em.
    pose proof (encode_message_length E D _ _ _ _ Em) as L.
    replace (length buf =? 0)%nat with false by (symmetry; apply Nat.eqb_neq; lia).
    cbn [fst snd]. rewrite downs_app. cbn [downs flat_map app].
    eexists. split; [reflexivity|]. cbn [dl_raw dl_eui]. split; [eapply encoded_ack_bit; eassumption | exact Eu1].
  Qed.

  (* ---- "what is queued can be sent" is an invariant of every history whose submissions carry sendable ports ---- *)
  Lemma sendable_eq st st' : ds_fb st' = ds_fb st -> ds_outbox st' = ds_outbox st -> sendable st -> sendable st'.
  Proof. unfold sendable. now intros -> ->. Qed.
  Lemma sendable_upd st g sel : (forall m, m_port (g m) = m_port m) -> sendable st -> sendable (upd_outbox st g sel).
  Proof. intros Hg [H1 H2]. split; [exact H1 | now apply ports_upd]. Qed.

  Lemma sendable_queue st f now : sendable st -> sendable (fst (pm_queue st f now)).
  Proof.
    intros Hs. unfold pm_queue.
    set (st3 := if mtype f =? ConfirmedDataUp then l_set_ack_flag st true else st).
    assert (H3 : sendable st3).
    { unfold st3. destruct (mtype f =? ConfirmedDataUp); [|exact Hs]. destruct Hs as [H1 H2]. split; [|exact H2].
      unfold l_set_ack_flag. cbn [ds_fb with_fbe fo_payload fo_port]. destruct (ds_fb st); [exact H1 | now left]. }
    set (st4 := if ack (fc f) then l_update_ack_time st3 (fcnt f) now else l_reset_active_acks st3).
    assert (H4 : sendable st4) by (unfold st4; destruct (ack (fc f)); [unfold l_update_ack_time | unfold l_reset_active_acks]; apply sendable_upd; auto).
    destruct (l_get_next_unsent st4) as [m|] eqn:En; cbn [fst]; [|exact H4].
    apply next_unsent_is_oldest in En. destruct En as [Hin _]. destruct H4 as [_ P4]. pose proof P4 as P4'.
    rewrite Forall_forall in P4. specialize (P4 m Hin).
    unfold l_set_sent_time. apply sendable_upd; [reflexivity|]. split; [|exact P4'].
    unfold l_set_payload. cbn [ds_fb with_fbe fo_payload fo_port]. now right.
  Qed.
  Lemma sendable_get_phy st d : sendable st -> sendable (fst (l_get_phy st d)).
  Proof.
    intros [H1 H2]. unfold l_get_phy. destruct (ds_fb st) as [fd|] eqn:Ef; [|cbn [fst]; split; [now rewrite Ef | exact H2]].
    destruct ((length (fo_payload fd) =? 0)%nat && negb (fo_mtype fd =? JoinAccept) && negb (fo_ack fd)); [split; [exact I | exact H2]|].
    destruct (0 <? length (fo_payload fd))%nat eqn:E0.
    - destruct (max_payload d) as [mn|]; [|cbn [fst]; split; [now rewrite Ef | exact H2]].
      assert (Hp : port_ok (fo_port fd)) by (destruct H1 as [H1|H1]; [rewrite H1 in E0; discriminate | exact H1]).
      destruct (N.to_nat (max_without_fopts mn) <? length (fo_payload fd))%nat; cbn [fst]; (split; [|exact H2]); cbn [ds_fb with_fbe fo_payload fo_port]; now right.
    - cbn [fst]. split; [|exact H2]. cbn [ds_fb with_fbe fo_payload fo_port]. exact H1.
  Qed.
  Lemma sendable_encoder_data st dev p rx c now : sendable st -> sendable (fst (encoder_data E st dev p rx c now)).
  Proof.
    intros Hs. unfold encoder_data. destruct (encode _); try exact Hs.
    destruct (l_next_fdn st) as [st1 [cn|]] eqn:U.
    - apply next_row in U. destruct U as (r0 & _ & _ & _ & _ & U4 & _ & U6).
      assert (H1 : sendable st1) by (apply (sendable_eq st); auto).
      destruct (encode_message _ _ _ _); cbn [fst]; try exact H1. unfold l_set_sent_time. now apply sendable_upd.
    - apply next_none in U. destruct U as [-> _]. exact Hs.
  Qed.
  Lemma sendable_uds st dev : sendable st -> sendable (fst (l_update_device_state st dev)).
  Proof. intros Hs. unfold l_update_device_state. destruct (ds_row st); exact Hs. Qed.
  Lemma sendable_encoder_join st dev j rx : sendable st -> sendable (fst (encoder_join E D st dev j rx)).
  Proof.
    intros Hs. unfold encoder_join. pose proof (sendable_uds st (set_counters dev 0 0 (d_keywarn dev)) Hs) as H.
    destruct (l_update_device_state _ _) as [st1 [e|]]; cbn [fst] in *; [exact H|]. destruct (encode_join_accept _ _ _ _ _ _); exact H.
  Qed.
  Lemma sendable_send_for st dev rx c now : sendable st -> sendable (fst (send_for E D st dev rx c now)).
  Proof.
    intros Hs. unfold send_for. pose proof (sendable_get_phy st (r_datr (rx_radio rx)) Hs) as G.
    destruct (l_get_phy st _) as [st1 [| |p]]; cbn [fst] in *; try exact G.
    destruct (po_mtype p =? JoinAccept); [destruct (po_ja p); now apply sendable_encoder_join|].
    destruct (_ || _); [exact G | now apply sendable_encoder_data].
  Qed.
  Theorem sendable_uplink apps st f rx n now : sendable st -> sendable (fst (l_uplink E D apps st f rx n now)).
  Proof.
    intros Hs. unfold l_uplink. destruct (ds_row st) as [r|]; [|exact Hs]. unfold process_message.
    destruct (stale _ f); [exact Hs|].
    destruct (pm_counter st (load st r) f n) as [[st1 dev1]|] eqn:Ec; [|exact Hs].
    assert (H1 : sendable st1).
    { unfold pm_counter in Ec. destruct (d_fup (load st r) <=? fcnt f).
      - destruct (l_advance_fup st _ _ _) as [x [e|]] eqn:U.
        + apply adv_fail in U. destruct U as [-> ->]. destruct (d_relaxed (load st r)); [|discriminate]. now injection Ec as <- _.
        + injection Ec as <- _. apply adv_row in U. destruct U as (r0 & _ & _ & _ & _ & U3 & _ & U5). apply (sendable_eq st); auto.
      - now injection Ec as <- _. }
    destruct (l_create_upstream st1 _) as [st2 e] eqn:Cu.
    assert (H2 : sendable st2) by (unfold l_create_upstream in Cu; destruct (existsb _ _); injection Cu as <- _; [exact H1 | apply (sendable_eq st1); auto]).
    destruct e; [exact H2|]. destruct (negb _); [exact H2|]. cbv zeta. cbn [fst].
    apply sendable_send_for. now apply sendable_queue.
  Qed.
  Definition ev_sendable (ev : levent) : Prop := match ev with LSub m => port_ok (m_port m) | _ => True end.
  Theorem sendable_history apps : forall evs st, sendable st -> Forall ev_sendable evs -> sendable (fst (fst (run E D apps st evs))).
  Proof.
    induction evs as [|ev t IH]; intros st Hs Hev; [exact Hs|]. inversion Hev as [|? ? H1 H2]; subst. cbn [run fst].
    apply IH; [|exact H2]. destruct ev as [f rx n now | m]; cbn [lstep].
    - now apply sendable_uplink.
    - cbn [fst]. unfold l_create_downstream. destruct (existsb _ _); cbn [fst]; [exact Hs|].
      destruct Hs as [A B]. split; [exact A|]. cbn [ds_outbox with_outbox]. apply Forall_app. split; [exact B | constructor; [exact H1 | constructor]].
  Qed.
End Answer.
