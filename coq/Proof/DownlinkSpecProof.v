(* What leaves for a device is, byte for byte, a LoRaWAN 1.0 data downlink: the reference end device of
   Spec/RefDevice.v (written from the specification over the bytes on the air) accepts it under the device's
   session keys and recovers exactly the message type, the ACK flag, the frame counter, the port and the queued
   plaintext (C02: frames the library encodes follow the specification; C06: delivered faithfully). *)
From Coq Require Import String.
From Lospan Require Import Base.Bytes Base.Outcome Model.CMAC Model.FrameTypes Model.Crypto Gen.Consts Model.MacCmd
  Model.Frame Model.Join Model.Store Model.Server Spec.RFC4493 Spec.RefDevice Proof.BitLemmas Proof.CMACProof Proof.CryptoProof
  Proof.FrameEncodeProof Proof.EncodableProof Proof.LocalProof Proof.ServerProof Proof.JoinProof Proof.QueueProof Proof.AnswerProof.
From Coq Require Import ZifyNat ZifyN ZifyBool.
Ltac Zify.zify_post_hook ::= Z.div_mod_to_equations.
Open Scope N_scope.

Section DownlinkSpec.
  Variable E D : list N -> list N -> list N.
  Hypothesis E_block : forall k b, length (E k b) = 16%nat /\ bytes_ok (E k b) = true.
  Let E_len : forall k b, length (E k b) = 16%nat := fun k b => proj1 (E_block k b).

  (* the keystream of the model is the specified one, in both directions *)
  Lemma keystream_is_ref_dir (key : list N) (up : bool) (addr fcnt : N) : forall k i, (N.to_nat i + k < 256)%nat ->
    keystream E key up addr fcnt i k = ref_stream E key (if up then 0 else 1) addr fcnt (i + 1) k.
  Proof.
    induction k as [|k IH]; intros i Hi; cbn [keystream ref_stream]; [reflexivity|].
    rewrite IH by lia. unfold a_block, ref_a. rewrite (N.mod_small (i + 1) 256) by lia. reflexivity.
  Qed.
  Lemma ref_crypt_recovers (key : list N) (up : bool) (addr fcnt : N) p : (length p <= 242)%nat ->
    ref_crypt E key (if up then 0 else 1) addr fcnt (payload_crypt E key up addr fcnt p) = p.
  Proof.
    intros Hl.
    assert (Heq : forall x, length x = length p -> ref_crypt E key (if up then 0 else 1) addr fcnt x = payload_crypt E key up addr fcnt x).
    { intros x Hx. unfold ref_crypt, payload_crypt. rewrite keystream_is_ref_dir; [reflexivity|]. change (N.to_nat 0) with 0%nat. rewrite Hx.
      assert ((length p + 15) / 16 <= 16)%nat by lia. lia. }
    rewrite Heq by (apply payload_crypt_length; exact E_len). now apply payload_crypt_involution.
  Qed.

  Lemma mic4_wf k m : length (mic4 E k m) = 4%nat /\ bytes_ok (mic4 E k m) = true.
  Proof.
    unfold mic4. rewrite <- (cmac_is_rfc E E_block k m []). fold (cmac E k m).
    destruct (cmac_wf E E_block k m) as [L O]. split; [rewrite firstn_length; lia | now apply firstn_bytes_ok].
  Qed.

  (* the first eight octets of a data downlink without options *)
  Definition pre8 (mt a : N) (ackb pend : bool) (c : N) : list N :=
    [mt * 32 + 0] ++ le_bytes 4 a ++ [b2n false * 128 + b2n false * 64 + b2n ackb * 32 + b2n pend * 16 + N.of_nat 0] ++ le_bytes 2 c.

  (* the reference device on eight header octets, a body and four MIC octets *)
  Lemma ref_reads_bytes nk ak b0 a0 a1 a2 a3 fcb c0 c1 body M4 a c mt ackb :
    length M4 = 4%nat -> b0 / 32 = mt -> (mt = 3 \/ mt = 5) -> le_val [a0; a1; a2; a3] = a -> le_val [c0; c1] = c ->
    fcb mod 16 = 0 -> ((fcb / 32) mod 2 =? 1) = ackb ->
    M4 = ref_mic E nk 1 a c (b0 :: a0 :: a1 :: a2 :: a3 :: fcb :: c0 :: c1 :: body) ->
    ref_on_downlink E nk ak a (b0 :: a0 :: a1 :: a2 :: a3 :: fcb :: c0 :: c1 :: (body ++ M4))
    = Some (mt, ackb, c,
            match body with [] => None | port :: _ => Some port end,
            match body with [] => [] | port :: enc => ref_crypt E (if port =? 0 then nk else ak) 1 a c enc end).
  Proof.
    intros LM Hb0 Hmt Va Vc Hfol Hack Hmic. unfold ref_on_downlink. cbn [length nth skipn firstn].
    rewrite app_length, LM, Va, Vc, Hb0, Hfol, Hack. change (N.to_nat 0) with 0%nat.
    destruct (S (S (S (S (S (S (S (S (length body + 4)))))))) <? 12)%nat eqn:E1; [apply Nat.ltb_lt in E1; lia|].
    replace ((mt =? 3) || (mt =? 5)) with true by (destruct Hmt as [-> | ->]; reflexivity).
    rewrite N.eqb_refl. cbn [negb orb].
    destruct (S (S (S (S (S (S (S (S (length body + 4)))))))) <? 12 + 0)%nat eqn:E2; [apply Nat.ltb_lt in E2; lia|].
    replace (S (S (S (S (S (S (S (S (length body + 4)))))))) - 4)%nat with (8 + length body)%nat by lia.
    cbn [Nat.add firstn skipn]. rewrite firstn_app_exact, skipn_app_exact.
    rewrite <- Hmic. replace (bytes_eqb M4 M4) with true by (symmetry; now apply bytes_eqb_spec). cbn [negb].
    replace (S (S (S (S (S (S (S (S (length body + 4)))))))) - 12 - 0)%nat with (length body) by lia.
    rewrite firstn_app_exact. destruct body; reflexivity.
  Qed.

  Lemma devaddr_parts a : a < 4294967296 -> nwkid (devaddr_of_u32 a) * 33554432 + nwkaddr (devaddr_of_u32 a) = a.
  Proof.
    intros Ha. unfold devaddr_of_u32. cbn [nwkid nwkaddr]. rewrite land_127, land_33554431, N.shiftr_div_pow2.
    change (2 ^ 25) with 33554432. lia.
  Qed.
  Lemma downlink_wf dev p c x : down_type (po_mtype p) -> frame_wf (set_frm (downlink_frame dev p c) x) /\ forall m, frame_wf (set_mic (set_frm (downlink_frame dev p c) x) m).
  Proof.
    intros Ht.
    assert (W : forall f, mtype f = po_mtype p -> major f = 0 -> f_devaddr f = devaddr_of_u32 (d_addr dev) -> cs_cmds (fopts f) = [] -> frame_wf f).
    { intros f H1 H2 H3 H4. unfold frame_wf. rewrite H1, H2, H3, H4. cbn [devaddr_of_u32 nwkid nwkaddr].
      split; [destruct Ht as [-> | ->]; vm_compute; reflexivity|]. split; [reflexivity|].
      split; [change 128 with (2 ^ 7); change 127 with (N.ones 7); rewrite N.land_ones; apply N.mod_upper_bound; discriminate|].
      split; [change 33554432 with (2 ^ 25); change 33554431 with (N.ones 25); rewrite N.land_ones; apply N.mod_upper_bound; discriminate | constructor]. }
    split; [|intros m]; apply W; reflexivity.
  Qed.
  Lemma spec_layout_msg mt mj a f1 f2 f3 f4 c body m :
    firstn (length (spec_layout mt mj a f1 f2 f3 f4 c [] body m) - 4) (spec_layout mt mj a f1 f2 f3 f4 c [] body m)
    = [mt * 32 + mj] ++ le_bytes 4 a ++ [b2n f1 * 128 + b2n f2 * 64 + b2n f3 * 32 + b2n f4 * 16 + N.of_nat 0] ++ le_bytes 2 c ++ body.
  Proof.
    set (pre := [mt * 32 + mj] ++ le_bytes 4 a ++ [b2n f1 * 128 + b2n f2 * 64 + b2n f3 * 32 + b2n f4 * 16 + N.of_nat 0] ++ le_bytes 2 c ++ body).
    assert (H : spec_layout mt mj a f1 f2 f3 f4 c [] body m = pre ++ le_bytes 4 m).
    { unfold spec_layout, pre. change (@length N []) with 0%nat. rewrite <- !app_assoc. reflexivity. }
    rewrite H, app_length, le_bytes_length. replace (length pre + 4 - 4)%nat with (length pre) by lia. apply firstn_app_exact.
  Qed.

  (* C02 / C06: the frame the encoder emits, read by a conformant device holding the session keys *)
  Theorem downlink_is_read_by_the_reference_device nk ak dev p c buf :
    down_type (po_mtype p) -> c < 65536 -> d_addr dev < 4294967296 ->
    (po_frm p = [] \/ port_ok (po_port p)) -> (length (po_frm p) <= 230)%nat ->
    encode_message E nk ak (downlink_frame dev p c) = Ok buf ->
    ref_on_downlink E nk ak (d_addr dev) buf
    = Some (po_mtype p, po_ack p, c, match po_frm p with [] => None | _ => Some (po_port p) end, po_frm p).
  Proof.
    intros Ht Hc Ha Hp Hl. unfold encode_message, frame_crypt.
    set (key := if fport (downlink_frame dev p c) =? 0 then nk else ak).
    set (enc := payload_crypt E key (mtype_uplink (mtype (downlink_frame dev p c))) (devaddr_u32 (f_devaddr (downlink_frame dev p c))) (fcnt (downlink_frame dev p c)) (frm (downlink_frame dev p c))).
    destruct (downlink_wf dev p c enc Ht) as [W1 W2].
    destruct (encode (set_frm (downlink_frame dev p c) enc)) as [b1| |] eqn:E1; cbn [bind]; try discriminate.
    destruct (length b1 <? 4)%nat; [discriminate|]. intros E2.
    apply encode_is_the_specified_layout in E1; [|exact W1]. apply encode_is_the_specified_layout in E2; [|apply W2].
    destruct E1 as (fo1 & body1 & Hfo1 & _ & Hb1 & ->). destruct E2 as (fo2 & body2 & Hfo2 & _ & Hb2 & ->).
    cbn [set_mic set_frm downlink_frame fopts new_phy new_set set_encode cs_cmds cmds_encode] in Hfo1, Hfo2.
    injection Hfo1 as <-. injection Hfo2 as <-.
    cbn [set_mic set_frm downlink_frame mtype major f_devaddr fc fcnt mic adr adrackreq ack fpending classb] in *.
    rewrite (devaddr_parts _ Ha), (devaddr_u32_of _ Ha) in *. rewrite orb_false_r in *.
    change c_MaxSupportedVersion with 0 in *.
    assert (Hup : mtype_uplink (po_mtype p) = false) by (destruct Ht as [-> | ->]; reflexivity).
    rewrite Hup in *.
    (* the body: nothing, or the port and the encrypted payload *)
    assert (Lenc : length enc = length (po_frm p)) by (unfold enc; cbn [downlink_frame frm]; apply payload_crypt_length; exact E_len).
    assert (Hbody : forall f' body, frm f' = enc -> fport f' = po_port p -> set_size (maccmds f') = 0%nat -> body_of f' body ->
              body = match po_frm p with [] => [] | _ => po_port p :: enc end).
    { intros f' body F1 F2 F3 [(B1 & _ & ->) | [(B1 & B2 & _) | (B1 & _ & ->)]].
      - rewrite F1, F2. destruct (po_frm p); [rewrite F1 in B1; destruct enc; [congruence | discriminate]|reflexivity].
      - rewrite F3 in B2. lia.
      - rewrite F1 in B1. rewrite B1 in Lenc. destruct (po_frm p); [reflexivity | discriminate]. }
    pose proof (Hbody (set_frm (downlink_frame dev p c) enc) body1 eq_refl eq_refl eq_refl Hb1) as HB1.
    match type of Hb2 with body_of ?f2 _ => pose proof (Hbody f2 body2 eq_refl eq_refl eq_refl Hb2) as HB2 end.
    clear Hb1 Hb2 Hbody. subst body1 body2.
    set (body := match po_frm p with [] => [] | _ => po_port p :: enc end) in *.
    rewrite spec_layout_msg. cbn [b2n].
    set (msg := [po_mtype p * 32 + 0] ++ le_bytes 4 (d_addr dev) ++ [0 * 128 + 0 * 64 + b2n (po_ack p) * 32 + b2n (po_pending p) * 16 + N.of_nat 0] ++ le_bytes 2 c ++ body).
    assert (Lb : (length body <= 231)%nat) by (unfold body; destruct (po_frm p) eqn:Ef0; cbn [length]; lia).
    assert (Lmsg : (length msg < 256)%nat) by (unfold msg; rewrite !app_length, !le_bytes_length; cbn [length]; lia).
    rewrite (data_mic_is_spec E D E_block nk false (d_addr dev) c msg Lmsg).
    destruct (mic4_wf nk (ref_b0 1 (d_addr dev) c (length msg) ++ msg)) as [L4 O4]. fold (ref_mic E nk 1 (d_addr dev) c msg) in L4, O4.
    assert (Hm4 : le_bytes 4 (le_val (ref_mic E nk 1 (d_addr dev) c msg)) = ref_mic E nk 1 (d_addr dev) c msg).
    { rewrite <- L4 at 1. now apply le_bytes_le_val. }
    unfold spec_layout. rewrite Hm4. cbn [b2n].
    match goal with |- ref_on_downlink _ _ _ _ ?l = _ =>
      replace l with ((po_mtype p * 32 + 0) :: (d_addr dev mod 256) :: ((d_addr dev / 256) mod 256) :: ((d_addr dev / 256 / 256) mod 256) :: ((d_addr dev / 256 / 256 / 256) mod 256)
            :: (0 * 128 + 0 * 64 + b2n (po_ack p) * 32 + b2n (po_pending p) * 16 + N.of_nat 0) :: (c mod 256) :: ((c / 256) mod 256) :: (body ++ ref_mic E nk 1 (d_addr dev) c msg))
        by reflexivity end.
    rewrite (ref_reads_bytes nk ak _ _ _ _ _ _ _ _ body _ (d_addr dev) c (po_mtype p) (po_ack p)).
    - f_equal. unfold body. destruct (po_frm p) as [|x t] eqn:Ef; [reflexivity|]. f_equal.
      unfold enc, key. cbn [downlink_frame fport frm mtype f_devaddr fcnt]. rewrite Hup, (devaddr_u32_of _ Ha), Ef.
      apply (ref_crypt_recovers _ false). lia.
    - exact L4.
    - lia.
    - destruct Ht; auto.
    - change [d_addr dev mod 256; (d_addr dev / 256) mod 256; (d_addr dev / 256 / 256) mod 256; (d_addr dev / 256 / 256 / 256) mod 256] with (le_bytes 4 (d_addr dev)).
      now apply le_val_le_bytes.
    - change [c mod 256; (c / 256) mod 256] with (le_bytes 2 c). now apply le_val_le_bytes.
    - destruct (po_ack p), (po_pending p); cbn [b2n]; reflexivity.
    - destruct (po_ack p), (po_pending p); cbn [b2n]; reflexivity.
    - reflexivity.
  Qed.
End DownlinkSpec.
