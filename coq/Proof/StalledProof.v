(* A subscriber that has stopped reading costs nobody else an event (C20: "delivered ... to every current subscriber of
   that identifier that keeps reading"). The router of Model/Router.v takes every subscriber to be reading; here some
   subscriptions (stalled c = true) have stopped: their channel takes events until it holds cap of them, and a publication
   that finds it full waits and goes on without delivering (the ten-second escape of Publish). Everything else is the
   router of Model/Router.v. Theorem: for every operation sequence, every choice of stalled subscriptions and every
   capacity, each subscription that keeps reading receives exactly what it receives when everybody reads - which C20_delivery
   identifies with the events published for its identifier between its Subscribe and its Unsubscribe - the routing tables
   and the closed flags are the same, and a stalled subscription holds a prefix of at most cap events. *)
From Lospan Require Import Base.Bytes Model.Router Spec.AbsRouter Proof.RouterProof.
Open Scope N_scope.

Section Stalled.
  Variable stalled : N -> bool.
  Variable cap : nat.

  Definition deliver_s (c ev : N) (ch : rchan) : rchan :=
    if stalled c && (cap <=? length (rc_q ch))%nat then ch
    else {| rc_q := rc_q ch ++ [ev]; rc_closed := rc_closed ch |}.

  Definition rstep_s (r : router) (op : rop) : router :=
    match op with
    | RPub id ev =>
      {| r_routes := r_routes r;
         r_chans := fold_left (fun chans rt => if fst rt =? id then upd_chan chans (N.to_nat (snd rt)) (deliver_s (snd rt) ev) else chans)
                              (r_routes r) (r_chans r) |}
    | _ => rstep r op
    end.
  Definition rrun_s (ops : list rop) : router := fold_left rstep_s ops empty_router.

  (* the two routers' channel lists, position by position from position k on: same closed flag, and the same queue
     wherever the subscription keeps reading; a stalled one holds at most cap events... *)
  Definition view (k : nat) (q : list N) : list N := if stalled (N.of_nat k) then firstn cap q else q.
  Fixpoint relk (k : nat) (l' l : list rchan) : Prop :=
    match l', l with
    | [], [] => True
    | h' :: t', h :: t =>
      rc_closed h' = rc_closed h /\ rc_q h' = view k (rc_q h) /\ relk (S k) t' t
    | _, _ => False
    end.

  Lemma relk_upd f' f : forall l' l k i,
    relk k l' l ->
    (forall h' h, rc_closed h' = rc_closed h -> rc_q h' = view (k + i) (rc_q h) ->
       rc_closed (f' h') = rc_closed (f h) /\ rc_q (f' h') = view (k + i) (rc_q (f h))) ->
    relk k (upd_chan l' i f') (upd_chan l i f).
  Proof.
    induction l' as [|h' t' IH]; intros l k i H Hf; destruct l as [|h t]; simpl in H; try contradiction.
    - destruct i; exact I.
    - destruct H as (Hc & Hq & Ht). destruct i as [|i]; simpl.
      + rewrite Nat.add_0_r in Hf. destruct (Hf h' h Hc Hq) as (A & B). repeat split; assumption.
      + repeat split; try assumption. apply IH; [exact Ht|]. intros a b. replace (S k + i)%nat with (k + S i)%nat by lia. apply Hf.
  Qed.

  Lemma relk_snoc x : (forall k, rc_q x = view k (rc_q x)) -> forall l' l k, relk k l' l -> relk k (l' ++ [x]) (l ++ [x]).
  Proof.
    intros Hx.
    induction l' as [|h' t' IH]; intros l k H; destruct l as [|h t]; simpl in H; try contradiction; simpl.
    - repeat split; try reflexivity. exact (Hx k).
    - destruct H as (Hc & Hq & Ht). repeat split; try assumption. apply IH, Ht.
  Qed.

  Lemma relk_length : forall l' l k, relk k l' l -> length l' = length l.
  Proof.
    induction l' as [|h' t' IH]; intros l k H; destruct l as [|h t]; simpl in H; try contradiction; simpl; [reflexivity|].
    f_equal. destruct H as (_ & _ & Ht). exact (IH _ _ Ht).
  Qed.

  Lemma relk_nth : forall l' l k i, relk k l' l ->
    match nth_error l' i, nth_error l i with
    | Some a, Some b => rc_closed a = rc_closed b /\ rc_q a = view (k + i) (rc_q b)
    | None, None => True
    | _, _ => False
    end.
  Proof.
    induction l' as [|h' t' IH]; intros l k i H; destruct l as [|h t]; simpl in H; try contradiction.
    - destruct i; exact I.
    - destruct H as (Hc & Hq & Ht). destruct i as [|i]; simpl.
      + rewrite Nat.add_0_r. split; assumption.
      + specialize (IH t (S k) i Ht). replace (S k + i)%nat with (k + S i)%nat in IH by lia. exact IH.
  Qed.

  Lemma pub_fold_rel id ev : forall routes l' l, relk 0 l' l ->
    relk 0 (fold_left (fun chans rt => if fst rt =? id then upd_chan chans (N.to_nat (snd rt)) (deliver_s (snd rt) ev) else chans) routes l')
           (fold_left (fun chans rt => if fst rt =? id then upd_chan chans (N.to_nat (snd rt)) (fun ch => {| rc_q := rc_q ch ++ [ev]; rc_closed := rc_closed ch |}) else chans) routes l).
  Proof.
    induction routes as [|rt routes IH]; intros l' l H; simpl; [exact H|].
    apply IH. destruct (fst rt =? id); [|exact H].
    apply relk_upd; [exact H|]. intros h' h Hc Hq. change (0 + N.to_nat (snd rt))%nat with (N.to_nat (snd rt)) in *.
    unfold view in *. rewrite N2Nat.id in *.
    unfold deliver_s. destruct (stalled (snd rt)) eqn:Hs; simpl.
    - destruct (Nat.leb_spec cap (length (rc_q h'))) as [Hl | Hl]; simpl; (split; [exact Hc|]).
      + rewrite Hq in Hl. rewrite firstn_length in Hl. rewrite firstn_app. replace (cap - length (rc_q h))%nat with 0%nat by lia.
        simpl. rewrite app_nil_r. exact Hq.
      + rewrite Hq in Hl. rewrite firstn_length in Hl.
        rewrite Hq. rewrite (firstn_all2 (rc_q h)) by lia. rewrite firstn_all2; [reflexivity|]. rewrite app_length. simpl. lia.
    - split; [exact Hc|]. rewrite Hq. reflexivity.
  Qed.

  Definition rel (r' r : router) : Prop := r_routes r' = r_routes r /\ relk 0 (r_chans r') (r_chans r).

  Lemma rel_step r' r op : rel r' r -> rel (rstep_s r' op) (rstep r op).
  Proof.
    intros (Hr & Hc). destruct op as [id | c | id ev]; unfold rel; simpl.
    - rewrite Hr, (relk_length _ _ _ Hc). split; [reflexivity|]. apply relk_snoc; [|exact Hc].
      intros k. unfold view. simpl. destruct (stalled (N.of_nat k)); [rewrite firstn_nil|]; reflexivity.
    - rewrite Hr. destruct (remove_first (r_routes r) c) as [rs found]. destruct found; simpl; [|split; assumption].
      split; [reflexivity|]. apply relk_upd; [exact Hc|]. intros h' h A B. simpl. split; [reflexivity|exact B].
    - rewrite Hr. split; [reflexivity|]. apply pub_fold_rel, Hc.
  Qed.

  Lemma rel_run : forall ops r' r, rel r' r -> rel (fold_left rstep_s ops r') (fold_left rstep ops r).
  Proof. induction ops as [|op ops IH]; intros r' r H; simpl; [exact H|]. apply IH, rel_step, H. Qed.

  Theorem stalled_subscribers_cost_nobody_else : forall ops,
    r_routes (rrun_s ops) = r_routes (rrun ops) /\
    (forall c, chan_closed (rrun_s ops) c = chan_closed (rrun ops) c) /\
    (forall c, chan_q (rrun_s ops) c = if stalled c then firstn cap (expected ops 0 None c) else expected ops 0 None c).
  Proof.
    intros ops. assert (H : rel (rrun_s ops) (rrun ops)) by (apply rel_run; split; [reflexivity | exact I]).
    destruct H as (Hr & Hc). split; [exact Hr|]. split.
    - intros c. unfold chan_closed. pose proof (relk_nth _ _ 0%nat (N.to_nat c) Hc) as X.
      destruct (nth_error (r_chans (rrun_s ops)) (N.to_nat c)), (nth_error (r_chans (rrun ops)) (N.to_nat c)); try contradiction; [apply X | reflexivity].
    - intros c. rewrite <- router_delivers. unfold chan_q. pose proof (relk_nth _ _ 0%nat (N.to_nat c) Hc) as X.
      destruct (nth_error (r_chans (rrun_s ops)) (N.to_nat c)), (nth_error (r_chans (rrun ops)) (N.to_nat c)); try contradiction.
      + simpl in X. unfold view in X. rewrite N2Nat.id in X. apply X.
      + destruct (stalled c); [rewrite firstn_nil|]; reflexivity.
  Qed.
End Stalled.

(* the scenario the harness runs on the real router: capacity 2, readers 0..2 and 4, subscription 3 has stopped reading,
   three events: the readers get all three, the stalled one holds the first two *)
Example stalled_scenario :
  let ops := [RSub 7; RSub 7; RSub 7; RSub 7; RSub 7; RPub 7 1; RPub 7 2; RPub 7 3] in
  let r := rrun_s (fun c => c =? 3) 2 ops in
  map (chan_q r) [0; 1; 2; 3; 4] = [[1; 2; 3]; [1; 2; 3]; [1; 2; 3]; [1; 2]; [1; 2; 3]].
Proof. vm_compute. reflexivity. Qed.
