From Coq Require Import String.
From Lospan Require Import Base.Bytes Base.Outcome Model.CMAC Model.FrameTypes Model.Crypto Gen.Consts Model.MacCmd
  Model.Frame Model.Join Model.Store Model.Server Spec.RFC4493 Spec.MacLayout Spec.LoRaFrame Spec.RefDevice
  Proof.BitLemmas Proof.CMACProof Proof.CryptoProof Proof.FrameProof Proof.FrameSpecProof.
Open Scope N_scope.

(* the message type the decoder reports is the one in the MHDR *)
Lemma decode_mtype v sp f : bytes_ok v = true -> decode (mk_slice v sp) = Ok f -> mtype f = nth 0 v 0 / 32.
Proof.
  intros Hok Hdec.
  destruct (Nat.lt_ge_cases (length v) 12) as [Hs|Hl].
  { unfold decode in Hdec. rewrite slen_mk in Hdec. change (N.to_nat c_MinimumMessageSize) with 12%nat in Hdec.
    replace (length v <? 12)%nat with true in Hdec by (symmetry; apply Nat.ltb_lt; lia). discriminate. }
  destruct (split_header v Hl) as (b0 & a0 & a1 & a2 & a3 & fcb & c0 & c1 & rest & Hv & Hr).
  assert (Hb0 : b0 < 256) by (subst v; apply (nth_error_bytes_ok _ 0%nat b0 Hok); reflexivity).
  destruct (byte_facts2 b0 Hb0) as (M1 & _).
  destruct (N.eq_dec (mhdr_major b0) 0) as [Hm|Hm].
  2:{ subst v. unfold decode in Hdec. rewrite slen_mk in Hdec. change (N.to_nat c_MinimumMessageSize) with 12%nat in Hdec. cbn [length] in Hdec.
      replace (S (S (S (S (S (S (S (S (length rest)))))))) <? 12)%nat with false in Hdec by (symmetry; apply Nat.ltb_ge; lia).
      rewrite rd_mk in Hdec. cbn [nth_error bind] in Hdec. fold (mhdr_major b0) in Hdec.
      replace (c_MaxSupportedVersion <? mhdr_major b0) with true in Hdec by (symmetry; apply N.ltb_lt; change c_MaxSupportedVersion with 0; lia).
      discriminate. }
  destruct (is_data_mtype (mhdr_mtype b0)) eqn:Hd.
  - rewrite (decode_data v sp _ _ _ _ _ _ _ _ _ Hv Hr Hm Hd) in Hdec.
    destruct (Nat.lt_ge_cases (length rest) (N.to_nat (N.land fcb 15) + 4)) as [Hsh|Hlo].
    + subst v. destruct (macpayload_short (mhdr_mtype b0) 0 (le_val (skipn (length (b0 :: a0 :: a1 :: a2 :: a3 :: fcb :: c0 :: c1 :: rest) - 4) (b0 :: a0 :: a1 :: a2 :: a3 :: fcb :: c0 :: c1 :: rest))) b0 a0 a1 a2 a3 fcb c0 c1 rest sp Hsh) as (e & E1 & _).
      rewrite E1 in Hdec. discriminate.
    + subst v. rewrite macpayload_long in Hdec by exact Hlo. injection Hdec as <-.
      unfold data_result. cbn [nth].
      destruct (firstn _ _) as [|port pl]; [|destruct (port =? 0)]; cbn [mtype]; unfold mhdr_mtype; now rewrite M1.
  - rewrite (decode_nondata v sp _ _ _ _ _ _ _ _ _ Hv Hr Hm Hd) in Hdec. cbv zeta in Hdec. subst v. cbn [nth].
    destruct (mhdr_mtype b0 =? JoinRequest).
    { destruct (joinreq_decode _ 1); cbn [bind] in Hdec; try discriminate. injection Hdec as <-.
      cbn [mtype with_jr f_base]. unfold mhdr_mtype; now rewrite M1. }
    destruct (mhdr_mtype b0 =? JoinAccept).
    { destruct (joinacc_decode _ 1); cbn [bind] in Hdec; try discriminate. injection Hdec as <-.
      cbn [mtype with_ja f_base]. unfold mhdr_mtype; now rewrite M1. }
    discriminate.
Qed.

Lemma decode_length v sp f : decode (mk_slice v sp) = Ok f -> (12 <= length v)%nat.
Proof.
  intros Hdec. destruct (Nat.lt_ge_cases (length v) 12) as [Hs|Hl]; [|exact Hl].
  unfold decode in Hdec. rewrite slen_mk in Hdec. change (N.to_nat c_MinimumMessageSize) with 12%nat in Hdec.
  replace (length v <? 12)%nat with true in Hdec by (symmetry; apply Nat.ltb_lt; lia). discriminate.
Qed.


Lemma filter_none {A} (f : A -> bool) l : (forall x, In x l -> f x = false) -> filter f l = [].
Proof.
  induction l as [|a t IH]; intros H; [reflexivity|]. cbn [filter].
  rewrite (H a (or_introl eq_refl)). apply IH. intros x Hx. apply H. now right.
Qed.

(* ---------- the device table ---------- *)
Lemma dt_get_put_same t e st : dt_get (dt_put t e st) e = st.
Proof.
  induction t as [|[k x] r IH]; cbn [dt_put dt_get]; [now rewrite N.eqb_refl|].
  destruct (k =? e) eqn:E; cbn [dt_get]; rewrite E; [reflexivity|exact IH].
Qed.
Lemma dt_get_put_other t e e' st : e <> e' -> dt_get (dt_put t e st) e' = dt_get t e'.
Proof.
  intros Hne. induction t as [|[k x] r IH]; cbn [dt_put dt_get].
  - destruct (e =? e') eqn:E; [apply N.eqb_eq in E; contradiction|reflexivity].
  - destruct (k =? e) eqn:E; cbn [dt_get].
    + apply N.eqb_eq in E. subst k. destruct (e =? e') eqn:E2; [apply N.eqb_eq in E2; contradiction|reflexivity].
    + destruct (k =? e'); [reflexivity|exact IH].
Qed.

(* a candidate returned by GetDeviceByDevAddr is a stored row with that address *)
Definition registered (t : dtab) (r : device) : Prop := exists e st, In (e, st) t /\ ds_row st = Some r.
Lemma dt_by_devaddr_in t a x : In x (dt_by_devaddr t a) ->
  exists r, registered t r /\ d_addr r = a /\ d_nwkskey x = d_nwkskey r /\ d_eui x = d_eui r.
Proof.
  unfold dt_by_devaddr. rewrite in_flat_map. intros ([e st] & Hin & Hx). cbn [snd] in Hx.
  destruct (ds_row st) as [r|] eqn:Er; [|contradiction].
  destruct (d_addr r =? a) eqn:Ea; [|contradiction]. destruct Hx as [<-|[]].
  exists r. split; [now exists e, st|]. apply N.eqb_eq in Ea. now split.
Qed.

Section ServerProof.
  Variable E D : list N -> list N -> list N.
  Hypothesis E_block : forall k b, length (E k b) = 16%nat /\ bytes_ok (E k b) = true.

  (* the MIC the model computes is the specified one (B0 | msg under RFC 4493), for messages below 256 bytes *)
  Lemma data_mic_is_spec key up addr fcnt msg : (length msg < 256)%nat ->
    data_mic E key up addr fcnt msg = le_val (ref_mic E key (if up then 0 else 1) addr fcnt msg).
  Proof.
    intros Hl. unfold data_mic, ref_mic, mic4, mic_of_tag, cmac.
    rewrite (cmac_is_rfc E E_block). unfold b0_block, ref_b0.
    replace (N.of_nat (length msg) mod 256) with (N.of_nat (length msg)) by (symmetry; apply N.mod_small; lia).
    reflexivity.
  Qed.

  (* "authentic": an uplink data frame whose MIC verifies, over exactly the received bytes, under the
     non-zero network session key of a registered device that owns the frame's address *)
  Definition authentic (s : srv) (raw : list N) (dv : device) : Prop :=
    exists g, spec_decode raw = Some g /\ s_major g = 0 /\ (s_mtype g = 2 \/ s_mtype g = 4) /\
      registered (s_tab s) dv /\ d_addr dv = s_addr g /\ key_empty (d_nwkskey dv) = false /\
      le_val (ref_mic E (d_nwkskey dv) 0 (s_addr g) (s_fcnt g) (firstn (length raw - 4) raw)) = s_mic g.

  Theorem no_effect_unless_authentic s rx an na now :
    bytes_ok (rx_raw rx) = true -> (length (rx_raw rx) < 256)%nat ->
    nth 0 (rx_raw rx) 0 / 32 <> 0 ->
    (forall dv, ~ authentic s (rx_raw rx) dv) ->
    rx_event E D s rx an na now = (s, []).
  Proof.
    intros Hok Hlen Hnj Hna. unfold rx_event.
    destruct (decode (mk_slice (rx_raw rx) [])) as [f| |] eqn:Hdec; try reflexivity.
    pose proof (decode_mtype _ _ _ Hok Hdec) as Hmt.
    destruct (mtype f =? JoinRequest) eqn:Ej.
    { apply N.eqb_eq in Ej. unfold JoinRequest in Ej. congruence. }
    destruct ((mtype f =? UnconfirmedDataUp) || (mtype f =? ConfirmedDataUp)) eqn:Eu; [|reflexivity].
    assert (Hdata : is_data_mtype (mtype f) = true).
    { unfold is_data_mtype. apply orb_true_iff in Eu. destruct Eu as [->| ->]; [now rewrite orb_true_r | reflexivity]. }
    destruct (decode_follows_spec _ _ _ Hok Hdec Hdata) as (g & Hg & A).
    destruct A as (A1 & A2 & A3 & A4 & _ & _ & _ & _ & _ & _ & A11 & _ & A13 & _).
    unfold uplink_data.
    pose proof (decode_length _ _ _ Hdec) as H12. change (N.to_nat c_MinimumMessageSize) with 12%nat.
    replace (length (rx_raw rx) <? 12)%nat with false by (symmetry; apply Nat.ltb_ge; lia).
    rewrite filter_none; [reflexivity|].
    intros x Hx. apply dt_by_devaddr_in in Hx. destruct Hx as (r & Hreg & Haddr & Hk & _).
    unfold mic_ok. rewrite Hk. destruct (key_empty (d_nwkskey r)) eqn:Ek; [reflexivity|]. cbn [negb andb].
    apply N.eqb_neq. intros Hmic. apply (Hna r).
    exists g. repeat split; auto.
    - rewrite <- A1. apply orb_true_iff in Eu. unfold UnconfirmedDataUp, ConfirmedDataUp in Eu.
      destruct Eu as [Eu|Eu]; apply N.eqb_eq in Eu; auto.
    - now rewrite Haddr.
    - rewrite data_mic_is_spec in Hmic by (rewrite firstn_length; lia).
      assert (Hup : mtype_uplink (mtype f) = true).
      { unfold mtype_uplink. apply orb_true_iff in Eu. destruct Eu as [->| ->]; [now rewrite orb_true_r | now rewrite !orb_true_r]. }
      rewrite Hup, A4, A11, A13 in Hmic. exact Hmic.
  Qed.



  (* ---------- outputs carry the EUI of the device they were produced for ---------- *)
  Definition out_eui (o : out) : N := match o with ODown d => dl_eui d | OPub p => pb_eui p end.

  Lemma encoder_data_outs st dev p rx c now : Forall (fun o => out_eui o = d_eui dev) (snd (encoder_data E st dev p rx c now)).
  Proof.
    unfold encoder_data. destruct (encode _); try constructor.
    destruct (l_next_fdn st) as [st1 [cn|]]; cbn [snd]; try constructor.
    destruct (encode_message _ _ _ _) as [bf| |]; cbn [snd]; try constructor.
    destruct (length bf =? 0)%nat; repeat constructor.
  Qed.
  Lemma encoder_join_outs st dev j rx : Forall (fun o => out_eui o = d_eui dev) (snd (encoder_join E D st dev j rx)).
  Proof.
    unfold encoder_join. destruct (l_update_device_state _ _) as [st1 [e|]]; cbn [snd]; try constructor.
    destruct (encode_join_accept _ _ _ _ _ _); cbn [snd]; repeat constructor.
  Qed.
  Lemma send_for_outs st dev rx c now : Forall (fun o => out_eui o = d_eui dev) (snd (send_for E D st dev rx c now)).
  Proof.
    unfold send_for. destruct (l_get_phy st _) as [st1 [| |p]]; cbn [snd]; try constructor.
    destruct (po_mtype p =? JoinAccept); [destruct (po_ja p); apply encoder_join_outs|].
    destruct (_ || _); [constructor | apply encoder_data_outs].
  Qed.

  Lemma pm_counter_eui st dev f n st1 dev1 : pm_counter st dev f n = Some (st1, dev1) -> d_eui dev1 = d_eui dev.
  Proof.
    unfold pm_counter. destruct (d_fup dev <=? fcnt f).
    - destruct (l_advance_fup _ _ _ _ _) as [x [[]|]]; try discriminate.
      + destruct (d_relaxed dev); [|discriminate]. intros [= _ <-]. reflexivity.
      + intros [= _ <-]. reflexivity.
    - intros [= _ <-]. reflexivity.
  Qed.

  Lemma process_message_outs apps st dv f rx n now :
    Forall (fun o => out_eui o = d_eui dv) (snd (process_message E D apps st dv f rx n now)).
  Proof.
    unfold process_message. destruct (stale dv f); [constructor|].
    destruct (pm_counter st dv f n) as [[st1 dev1]|] eqn:Ec; [|constructor].
    apply pm_counter_eui in Ec.
    destruct (l_create_upstream st1 _) as [st2 [e|]]; [constructor|].
    destruct (negb (has_app apps _)); [constructor|]. cbn [snd].
    apply Forall_app. split; [rewrite <- Ec; apply send_for_outs | repeat constructor; exact Ec].
  Qed.

  (* an uplink changes nothing for a device whose key did not verify it *)
  Theorem uplink_isolation s f rx now e :
    let matching := filter (mic_ok E f (rx_raw rx)) (dt_by_devaddr (s_tab s) (devaddr_u32 (f_devaddr f))) in
    (forall dv, In dv matching -> d_eui dv <> e) ->
    dt_get (s_tab (fst (uplink_data E D s f rx now))) e = dt_get (s_tab s) e /\
    Forall (fun o => out_eui o <> e) (snd (uplink_data E D s f rx now)).
  Proof.
    intros matching Hne. unfold uplink_data. destruct (_ <? _)%nat; [cbn; split; [reflexivity|constructor]|].
    fold matching. generalize (length matching) as n. revert Hne. generalize matching as l. clear matching.
    intros l Hne n.
    assert (G : forall acc, dt_get (s_tab (fst acc)) e = dt_get (s_tab s) e -> Forall (fun o => out_eui o <> e) (snd acc) ->
      let r := fold_left (fun acc dv =>
                   let '(st', o1) := process_message E D (s_apps s) (dt_get (s_tab (fst acc)) (d_eui dv)) dv f rx n now in
                   (with_tab (fst acc) (dt_put (s_tab (fst acc)) (d_eui dv) st'), snd acc ++ o1)) l acc in
      dt_get (s_tab (fst r)) e = dt_get (s_tab s) e /\ Forall (fun o => out_eui o <> e) (snd r)).
    { induction l as [|dv t IH]; intros acc H1 H2; cbn [fold_left]; [now split|].
      apply IH.
      - intros x Hx. apply Hne. now right.
      - pose proof (process_message_outs (s_apps s) (dt_get (s_tab (fst acc)) (d_eui dv)) dv f rx n now) as Ho.
        destruct (process_message E D _ _ dv f rx n now) as [st' o1]. cbn [fst with_tab s_tab].
        rewrite dt_get_put_other by (apply Hne; now left). exact H1.
      - pose proof (process_message_outs (s_apps s) (dt_get (s_tab (fst acc)) (d_eui dv)) dv f rx n now) as Ho.
        destruct (process_message E D _ _ dv f rx n now) as [st' o1]. cbn [snd] in *.
        apply Forall_app. split; [exact H2|]. eapply Forall_impl; [|exact Ho]. cbn beta. intros o Hoe. rewrite Hoe. apply Hne. now left. }
    apply G; [reflexivity | constructor].
  Qed.
End ServerProof.
