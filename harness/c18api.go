//go:build verif && !no_c18

package main

import (
	"context"
	"fmt"
	"math"
	"math/rand"
	"os"
	"sort"
	"strings"
	"time"

	"github.com/lab5e/lospan/pkg/apiserver"
	"github.com/lab5e/lospan/pkg/keys"
	"github.com/lab5e/lospan/pkg/pb/lospan"
	"github.com/lab5e/lospan/pkg/protocol"
	"github.com/lab5e/lospan/pkg/server"
	"google.golang.org/grpc/status"
)

// the service object, called directly (no transport)
func (r *regWorld) openAPI() {
	ma, _ := protocol.NewMA([]byte{0xA5, 0x5A, 0x3C})
	kg, err := keys.NewEUIKeyGenerator(ma, 0x1234, r.st)
	if err != nil {
		fmt.Fprintln(os.Stderr, "keygen:", err)
		os.Exit(3)
	}
	router := server.NewEventRouter[protocol.EUI, *server.PayloadMessage](2)
	api, err := apiserver.New(r.st, &kg, &router)
	if err != nil {
		fmt.Fprintln(os.Stderr, "apiserver:", err)
		os.Exit(3)
	}
	r.api = api
}

func aErr(err error) string { return fmt.Sprintf("E%d", uint32(status.Code(err))) }
func optTxt(s *string) string {
	if s == nil {
		return "~"
	}
	return rTxt(*s)
}
func canonEUI(s string) string {
	e, err := protocol.EUIFromString(s)
	if err != nil {
		return "badeui(" + rTxt(s) + ")"
	}
	return rEUI(e)
}
func aApp(a *lospan.Application) string {
	return "app(" + canonEUI(a.Eui) + "," + rTxt(a.GetTag()) + ")"
}
func aDev(d *lospan.Device) string {
	n := make([]int, len(d.DevNonces))
	for i, v := range d.DevNonces {
		n[i] = int(v)
	}
	sort.Ints(n)
	ns := make([]string, len(n))
	for i, v := range n {
		ns[i] = fmt.Sprint(v)
	}
	return fmt.Sprintf("adev(%s,%08x,%s,%s,%s,%s,%d,%d,%d,%s,%s,%s,%s)", canonEUI(d.GetEui()), d.GetDevAddr(), rBytes(d.AppKey),
		rBytes(d.AppSessionKey), rBytes(d.NetworkSessionKey), canonEUI(d.GetApplicationEui()), int32(d.GetState()),
		d.GetFrameCountUp(), d.GetFrameCountDown(), rB(d.GetRelaxedCounter()), rB(d.GetKeyWarning()), rTxt(d.GetTag()), strings.Join(ns, "+"))
}
func aGw(g *lospan.Gateway) string {
	return fmt.Sprintf("gw(%s,%s,%s,%s,%s,%s)", canonEUI(g.Eui), eighths(g.GetLatitude()), eighths(g.GetLongitude()), eighths(g.GetAltitude()),
		rTxt(g.GetIp()), rB(g.GetStrictIp()))
}
func aUp(m *lospan.UpstreamMessage) string {
	return fmt.Sprintf("up(%s,%s,%s,%s,%d,%s,%s,%s,%08x)", canonEUI(m.Eui), rI64(m.Timestamp), rBytes(m.Payload), canonEUI(m.GatewayEui),
		m.Rssi, eighths(m.Snr), eighths(m.Frequency), rTxt(m.DataRate), m.DevAddr)
}
func aDown(m *lospan.DownstreamMessage) string {
	return fmt.Sprintf("adown(%s,%s,%d,%s,%s,%s,%s)", canonEUI(m.Eui), rBytes(m.Payload), m.Port, rB(m.Ack), rI64(m.GetCreated()),
		rI64(m.GetSent()), rI64(m.GetAckTime()))
}

// an EUI as a client might type it
func euiText(rng *rand.Rand, e protocol.EUI) string {
	switch rng.Intn(36) {
	case 0, 6, 7:
		return strings.ToUpper(e.String())
	case 1, 8, 9:
		return strings.ReplaceAll(e.String(), "-", "")
	case 2, 10:
		return " " + e.String() + "\t"
	case 3:
		return e.String()[:20]
	case 4:
		return "zz-" + e.String()[3:]
	case 5:
		return ""
	default:
		return e.String()
	}
}
func ptr[T any](v T) *T { return &v }

type devReqText struct {
	eui, app                    string
	state, addr                 string
	k1, k2, k3                  string
	relaxed, kw, fdn, fup       string
	genEUI, genK1, genK2, genK3 string
	genAddr                     string
}

func (t devReqText) String() string {
	return strings.Join([]string{t.eui, t.app, t.state, t.addr, t.k1, t.k2, t.k3, t.relaxed, t.kw, t.fdn, t.fup, t.genEUI, t.genK1, t.genK2, t.genK3, t.genAddr}, ",")
}
func optBytes(b []byte) string {
	if b == nil {
		return "~"
	}
	return rBytes(b)
}

func (p *pools) devReq(create bool) (*lospan.Device, devReqText) {
	rng := p.rng
	req := &lospan.Device{}
	t := devReqText{eui: "~", app: "~", state: "~", addr: "~", k1: "~", k2: "~", k3: "~", relaxed: "~", kw: "~", fdn: "~", fup: "~",
		genEUI: "0000000000000000", genK1: strings.Repeat("00", 16), genK2: strings.Repeat("00", 16), genK3: strings.Repeat("00", 16), genAddr: "00000000"}
	if !(create && rng.Intn(10) == 0) {
		s := euiText(rng, p.eui())
		req.Eui = &s
		t.eui = rTxt(s)
	}
	if rng.Intn(12) != 0 {
		s := euiText(rng, p.app())
		req.ApplicationEui = &s
		t.app = rTxt(s)
	}
	kind := rng.Intn(4) // 0 nil, 1 OTAA, 2 ABP, 3 disabled
	if !create && rng.Intn(4) != 0 {
		kind = 0
	}
	if kind != 0 {
		st := lospan.DeviceState(kind)
		if rng.Intn(15) == 0 {
			st = lospan.DeviceState([]int32{0, 4, 7}[rng.Intn(3)])
		}
		req.State = &st
		t.state = fmt.Sprint(int32(st))
	}
	someBytes := func(p int) []byte { // p: probability (in 10) of a well-formed 16-byte key
		switch r := rng.Intn(10); {
		case r < p:
			return genKey(rng)
		case r < p+1:
			return []byte{}
		case r < p+2:
			return randBytes(rng, []int{1, 15, 17, 32}[rng.Intn(4)])
		default:
			return nil
		}
	}
	otaa := kind == 1 || (kind == 0 && create)
	abp := kind == 2
	if otaa {
		req.AppKey = someBytes(6)
		if rng.Intn(8) == 0 {
			req.AppSessionKey = someBytes(6)
		}
		if rng.Intn(8) == 0 {
			req.DevAddr = ptr(p.ad())
		}
	} else if abp {
		req.AppSessionKey = someBytes(6)
		req.NetworkSessionKey = someBytes(6)
		if rng.Intn(4) != 0 {
			req.DevAddr = ptr(p.ad())
		}
		if rng.Intn(8) == 0 {
			req.AppKey = someBytes(6)
		}
	} else {
		if rng.Intn(2) == 0 {
			req.AppKey = someBytes(6)
		}
		if rng.Intn(2) == 0 {
			req.AppSessionKey = someBytes(6)
		}
		if rng.Intn(2) == 0 {
			req.NetworkSessionKey = someBytes(6)
		}
		if rng.Intn(2) == 0 {
			req.DevAddr = ptr(p.ad())
		}
	}
	t.k1, t.k2, t.k3 = optBytes(req.AppKey), optBytes(req.AppSessionKey), optBytes(req.NetworkSessionKey)
	if req.DevAddr != nil {
		t.addr = fmt.Sprintf("%08x", *req.DevAddr)
	}
	if rng.Intn(2) == 0 {
		req.RelaxedCounter = ptr(rng.Intn(2) == 0)
		t.relaxed = rB(*req.RelaxedCounter)
	}
	if rng.Intn(2) == 0 {
		req.KeyWarning = ptr(rng.Intn(2) == 0)
		t.kw = rB(*req.KeyWarning)
	}
	cnt := func() int32 {
		return []int32{0, 65535, 32768, int32(rng.Intn(65536)), 65536, -1, math.MaxInt32, math.MinInt32}[rng.Intn(8)]
	}
	if rng.Intn(2) == 0 {
		req.FrameCountDown = ptr(cnt())
		t.fdn = fmt.Sprint(*req.FrameCountDown)
	}
	if rng.Intn(2) == 0 {
		req.FrameCountUp = ptr(cnt())
		t.fup = fmt.Sprint(*req.FrameCountUp)
	}
	return req, t
}

func (p *pools) gwReq() (*lospan.Gateway, string) {
	rng := p.rng
	req := &lospan.Gateway{Eui: euiText(rng, p.gw())}
	ipT, ipP := "~", "~"
	if rng.Intn(10) != 0 {
		var s string
		switch rng.Intn(6) {
		case 0:
			s = "not an ip"
		case 1:
			s = "1.2.3.256"
		case 2:
			s = "::ffff:10.1.2.3"
		default:
			s = someIP(rng).String()
		}
		req.Ip = &s
		ipT = rTxt(s)
		if ip := parseIP(s); ip != nil {
			ipP = rTxt(ip.String())
		}
	}
	opt := func(lim int) (*float32, string) {
		if rng.Intn(3) == 0 {
			return nil, "~"
		}
		v := someEighth(rng, lim)
		return &v, eighths(v)
	}
	var la, lo, al string
	req.Latitude, la = opt(100)
	req.Longitude, lo = opt(400)
	req.Altitude, al = opt(9000)
	st := "~"
	if rng.Intn(2) == 0 {
		req.StrictIp = ptr(rng.Intn(2) == 0)
		st = rB(*req.StrictIp)
	}
	return req, strings.Join([]string{rTxt(req.Eui), ipT, ipP, la, lo, al, st}, ",")
}

func (r *regWorld) apiOp(p *pools) (string, string) {
	rng := p.rng
	ctx := context.Background()
	api := r.api
	switch k := rng.Intn(30); {
	case k < 3:
		req := &lospan.CreateApplicationRequest{}
		t := "~"
		if rng.Intn(6) != 0 {
			s := euiText(rng, p.app())
			req.Eui = &s
			t = rTxt(s)
		}
		a, err := api.CreateApplication(ctx, req)
		gen := "0000000000000000"
		if err != nil {
			return "Aca:" + t + ":" + gen, aErr(err)
		}
		return "Aca:" + t + ":" + canonEUI(a.Eui), aApp(a)
	case k < 5:
		s := euiText(rng, p.app())
		a, err := api.GetApplication(ctx, &lospan.GetApplicationRequest{Eui: s})
		if err != nil {
			return "Aga:" + rTxt(s), aErr(err)
		}
		return "Aga:" + rTxt(s), aApp(a)
	case k < 6:
		s := euiText(rng, p.app())
		a, err := api.DeleteApplication(ctx, &lospan.DeleteApplicationRequest{Eui: s})
		if err != nil {
			return "Ada:" + rTxt(s), aErr(err)
		}
		return "Ada:" + rTxt(s), aApp(a)
	case k < 7:
		l, err := api.ListApplications(ctx, &lospan.ListApplicationsRequest{})
		if err != nil {
			return "Ala", aErr(err)
		}
		var o []string
		for _, a := range l.Applications {
			o = append(o, aApp(a))
		}
		return "Ala", "apps[" + sortedJoin(o) + "]"
	case k < 11, k < 14:
		create := k < 11
		req, t := p.devReq(create)
		var d *lospan.Device
		var err error
		if create {
			d, err = api.CreateDevice(ctx, req)
		} else {
			d, err = api.UpdateDevice(ctx, req)
		}
		name := map[bool]string{true: "Acd:", false: "Aud:"}[create]
		if err != nil {
			return name + t.String(), aErr(err)
		}
		t.genEUI = canonEUI(d.GetEui())
		t.genK1, t.genK2, t.genK3 = hx(d.AppKey), hx(d.AppSessionKey), hx(d.NetworkSessionKey)
		t.genAddr = fmt.Sprintf("%08x", d.GetDevAddr())
		return name + t.String(), aDev(d)
	case k < 16:
		s := euiText(rng, p.eui())
		d, err := api.GetDevice(ctx, &lospan.GetDeviceRequest{Eui: s})
		if err != nil {
			return "Agd:" + rTxt(s), aErr(err)
		}
		return "Agd:" + rTxt(s), aDev(d)
	case k < 17:
		s := euiText(rng, p.eui())
		d, err := api.DeleteDevice(ctx, &lospan.DeleteDeviceRequest{Eui: s})
		if err != nil {
			return "Add:" + rTxt(s), aErr(err)
		}
		return "Add:" + rTxt(s), aDev(d)
	case k < 19:
		s := euiText(rng, p.app())
		l, err := api.ListDevices(ctx, &lospan.ListDeviceRequest{ApplicationEui: s})
		if err != nil {
			return "Ald:" + rTxt(s), aErr(err)
		}
		var o []string
		for _, d := range l.Devices {
			o = append(o, aDev(d))
		}
		return "Ald:" + rTxt(s), "devs[" + sortedJoin(o) + "]"
	case k < 21, k < 22:
		create := k < 21
		req, t := p.gwReq()
		var g *lospan.Gateway
		var err error
		preOp, preObs := "", ""
		if !create && rng.Intn(4) != 0 {
			// an update of a gateway that exists: it is registered first, with every field given, so that the update's omitted
			// fields (position, altitude, the strict-IP switch) have stored values to keep; a read follows the update
			req.Eui = p.gw().String()
			t = rTxt(req.Eui) + t[strings.Index(t, ","):]
			ip := someIP(rng).String()
			full := &lospan.Gateway{Eui: req.Eui, Ip: &ip, Latitude: ptr(someEighth(rng, 90)), Longitude: ptr(someEighth(rng, 360)),
				Altitude: ptr(someEighth(rng, 9000)), StrictIp: ptr(rng.Intn(3) != 0)}
			ft := strings.Join([]string{rTxt(full.Eui), rTxt(ip), rTxt(parseIP(ip).String()), eighths(*full.Latitude), eighths(*full.Longitude), eighths(*full.Altitude), rB(*full.StrictIp)}, ",")
			g0, err0 := api.CreateGateway(ctx, full)
			preOp = "Acg:" + ft + ";"
			if err0 != nil {
				preObs = aErr(err0) + "|"
			} else {
				preObs = aGw(g0) + "|"
			}
		}
		if create {
			g, err = api.CreateGateway(ctx, req)
		} else {
			g, err = api.UpdateGateway(ctx, req)
		}
		name := map[bool]string{true: "Acg:", false: "Aug:"}[create]
		postOp, postObs := "", ""
		if preOp != "" {
			g2, err2 := api.GetGateway(ctx, &lospan.GetGatewayRequest{Eui: req.Eui})
			postOp = ";Agg:" + rTxt(req.Eui)
			if err2 != nil {
				postObs = "|" + aErr(err2)
			} else {
				postObs = "|" + aGw(g2)
			}
		}
		if err != nil {
			return preOp + name + t + postOp, preObs + aErr(err) + postObs
		}
		return preOp + name + t + postOp, preObs + aGw(g) + postObs
	case k < 23:
		s := euiText(rng, p.gw())
		g, err := api.GetGateway(ctx, &lospan.GetGatewayRequest{Eui: s})
		if err != nil {
			return "Agg:" + rTxt(s), aErr(err)
		}
		return "Agg:" + rTxt(s), aGw(g)
	case k < 24:
		s := euiText(rng, p.gw())
		g, err := api.DeleteGateway(ctx, &lospan.DeleteGatewayRequest{Eui: s})
		if err != nil {
			return "Adg:" + rTxt(s), aErr(err)
		}
		return "Adg:" + rTxt(s), aGw(g)
	case k < 25:
		l, err := api.ListGateways(ctx, &lospan.ListGatewaysRequest{})
		if err != nil {
			return "Alg", aErr(err)
		}
		var o []string
		for _, g := range l.Gateways {
			o = append(o, aGw(g))
		}
		return "Alg", "gws[" + sortedJoin(o) + "]"
	case k < 26:
		s := euiText(rng, p.eui())
		l, err := api.Inbox(ctx, &lospan.InboxRequest{Eui: s})
		if err != nil {
			return "Ain:" + rTxt(s), aErr(err)
		}
		var o []string
		for _, m := range l.Messages {
			o = append(o, aUp(m))
		}
		return "Ain:" + rTxt(s), "ups[" + strings.Join(o, ";") + "]"
	case k < 28:
		s := euiText(rng, p.eui())
		l, err := api.Outbox(ctx, &lospan.OutboxRequest{Eui: s})
		if err != nil {
			return "Aout:" + rTxt(s), aErr(err)
		}
		var o []string
		for _, m := range l.Messages {
			o = append(o, aDown(m))
		}
		return "Aout:" + rTxt(s), "adowns[" + strings.Join(o, ";") + "]"
	default:
		s := euiText(rng, p.eui())
		payload := randBytes(rng, rng.Intn(30))
		port := []int32{0, 1, 223, 224, 255, 256, -1, int32(1 + rng.Intn(223)), int32(rng.Intn(256))}[rng.Intn(9)]
		ack := rng.Intn(2) == 0
		time.Sleep(2 * time.Millisecond) // created_time is the clock in ms and part of the key
		before := time.Now().UnixMilli()
		m, err := api.SendMessage(ctx, &lospan.DownstreamMessage{Eui: s, Payload: payload, Port: port, Ack: ack})
		now := before
		if err == nil {
			now = m.GetCreated()
		}
		op := fmt.Sprintf("Asend:%s:%s:%d:%s:%s", rTxt(s), rBytes(payload), port, rB(ack), rI64(now))
		if err != nil {
			return op, aErr(err)
		}
		return op, aDown(m)
	}
}
