//go:build verif && !no_c18

package main

import (
	"fmt"
	"math"
	"math/rand"
	"net"
	"os"
	"sort"
	"strings"

	"github.com/lab5e/lospan/pkg/model"
	"github.com/lab5e/lospan/pkg/pb/lospan"
	"github.com/lab5e/lospan/pkg/protocol"
	"github.com/lab5e/lospan/pkg/storage"
)

func init() { suites["C18"] = suiteC18 }

// ---- canonical rendering of what a read returned (the same text the model prints) ----
func rEUI(e protocol.EUI) string { return fmt.Sprintf("%016x", uint64(e.ToInt64())) }
func rI64(v int64) string        { return fmt.Sprintf("%016x", uint64(v)) }
func rB(b bool) string {
	if b {
		return "1"
	}
	return "0"
}
func rTxt(s string) string {
	if s == "" {
		return "-"
	}
	return hx([]byte(s))
}
func rBytes(b []byte) string {
	if len(b) == 0 {
		return "-"
	}
	return hx(b)
}
func eighths(f float32) string {
	v := float64(f) * 8
	if v != math.Trunc(v) {
		return fmt.Sprintf("inexact(%v)", f)
	}
	return fmt.Sprintf("%d", int64(v))
}
func rApp(a model.Application) string { return "app(" + rEUI(a.AppEUI) + "," + rTxt(a.Tag) + ")" }
func rDev(d model.Device) string {
	n := make([]int, len(d.DevNonceHistory))
	for i, v := range d.DevNonceHistory {
		n[i] = int(v)
	}
	sort.Ints(n)
	ns := make([]string, len(n))
	for i, v := range n {
		ns[i] = fmt.Sprint(v)
	}
	return fmt.Sprintf("dev(%s,%08x,%s,%s,%s,%s,%d,%d,%d,%s,%s,%s,%s)", rEUI(d.DeviceEUI), d.DevAddr.ToUint32(),
		hx(d.AppKey.Key[:]), hx(d.AppSKey.Key[:]), hx(d.NwkSKey.Key[:]), rEUI(d.AppEUI), uint8(d.State), d.FCntUp, d.FCntDn,
		rB(d.RelaxedCounter), rB(d.KeyWarning), rTxt(d.Tag), strings.Join(ns, "+"))
}
func rGw(g model.Gateway) string {
	return fmt.Sprintf("gw(%s,%s,%s,%s,%s,%s)", rEUI(g.GatewayEUI), eighths(g.Latitude), eighths(g.Longitude), eighths(g.Altitude),
		rTxt(g.IP.String()), rB(g.StrictIP))
}
func rUp(m model.UpstreamMessage) string {
	return fmt.Sprintf("up(%s,%s,%s,%s,%d,%s,%s,%s,%08x)", rEUI(m.DeviceEUI), rI64(m.Timestamp), rBytes(m.Data), rEUI(m.GatewayEUI),
		m.RSSI, eighths(m.SNR), eighths(m.Frequency), rTxt(m.DataRate), m.DevAddr.ToUint32())
}
func rDown(m model.DownstreamMessage) string {
	return fmt.Sprintf("down(%s,%s,%d,%s,%s,%s,%s,%d)", rEUI(m.DeviceEUI), rTxt(m.Data), m.Port, rB(m.Ack), rI64(m.CreatedTime),
		rI64(m.SentTime), rI64(m.AckTime), m.FCntUp)
}
func sortedJoin(l []string) string { sort.Strings(l); return strings.Join(l, ";") }
func rErr(err error) string {
	if err == storage.ErrNotFound {
		return "nf"
	}
	return "err"
}

// ---- value pools: boundary values first, random otherwise ----
type pools struct {
	rng  *rand.Rand
	euis []protocol.EUI
	apps []protocol.EUI
	gws  []protocol.EUI
	addr []uint32
	ts   []int64
}

func someEUI(rng *rand.Rand) protocol.EUI {
	var v uint64
	switch rng.Intn(8) {
	case 0:
		v = 0
	case 1:
		v = 1
	case 2:
		v = 1<<63 - 1
	case 3:
		v = 1 << 63
	case 4:
		v = math.MaxUint64
	default:
		v = rng.Uint64()
	}
	return protocol.EUIFromInt64(int64(v))
}
func someAddr(rng *rand.Rand) uint32 {
	switch rng.Intn(8) {
	case 0:
		return 0
	case 1:
		return 1
	case 2:
		return 0x7fffffff
	case 3:
		return 0x80000000
	case 4:
		return 0xffffffff
	case 5:
		return 0x01ffffff
	default:
		return rng.Uint32()
	}
}
func someI64(rng *rand.Rand) int64 {
	switch rng.Intn(8) {
	case 0:
		return 0
	case 1:
		return -1
	case 2:
		return math.MinInt64
	case 3:
		return math.MaxInt64
	case 4:
		return 1
	default:
		return int64(rng.Uint64())
	}
}
func someU16(rng *rand.Rand) uint16 {
	switch rng.Intn(6) {
	case 0:
		return 0
	case 1:
		return 65535
	case 2:
		return 32768
	case 3:
		return 32767
	default:
		return uint16(rng.Intn(65536))
	}
}
func someKey(rng *rand.Rand) protocol.AESKey {
	var k protocol.AESKey
	copy(k.Key[:], genKey(rng))
	return k
}
func someTag(rng *rand.Rand) string {
	switch rng.Intn(10) {
	case 0:
		return ""
	case 1:
		return strings.Repeat("x", 128)
	case 2:
		return "blåbærsyltetøy ✓ 漢字"
	case 3:
		return `it's "quoted"; DROP TABLE lora_devices; --`
	case 4:
		return "nul\x00inside"
	case 5:
		return "12345"
	case 6:
		return " leading and trailing "
	case 7:
		return "1e5"
	default:
		b := make([]byte, 1+rng.Intn(20))
		for i := range b {
			b[i] = byte(32 + rng.Intn(95))
		}
		return string(b)
	}
}
func someEighth(rng *rand.Rand, lim int) float32 {
	switch rng.Intn(5) {
	case 0:
		return 0
	case 1:
		return float32(lim)
	case 2:
		return float32(-lim)
	default:
		return float32(rng.Intn(2*lim*8+1)-lim*8) / 8
	}
}
func someIP(rng *rand.Rand) net.IP {
	switch rng.Intn(7) {
	case 0:
		return net.ParseIP("127.0.0.1")
	case 1:
		return net.ParseIP("::1")
	case 2:
		return net.ParseIP("2001:db8::8a2e:370:7334")
	case 3:
		return net.ParseIP("255.255.255.255")
	case 4:
		return net.ParseIP("0.0.0.0")
	case 5:
		return net.IPv4(byte(rng.Intn(256)), byte(rng.Intn(256)), byte(rng.Intn(256)), byte(rng.Intn(256))).To4()
	default:
		b := make(net.IP, 16)
		rng.Read(b)
		return b
	}
}

func newPools(rng *rand.Rand) *pools {
	p := &pools{rng: rng}
	for i := 0; i < 4; i++ {
		p.euis = append(p.euis, someEUI(rng))
		p.apps = append(p.apps, someEUI(rng))
		p.gws = append(p.gws, someEUI(rng))
		p.addr = append(p.addr, someAddr(rng))
		p.ts = append(p.ts, someI64(rng))
	}
	return p
}
func (p *pools) eui() protocol.EUI { return p.euis[p.rng.Intn(len(p.euis))] }
func (p *pools) app() protocol.EUI { return p.apps[p.rng.Intn(len(p.apps))] }
func (p *pools) gw() protocol.EUI  { return p.gws[p.rng.Intn(len(p.gws))] }
func (p *pools) ad() uint32        { return p.addr[p.rng.Intn(len(p.addr))] }
func (p *pools) t() int64          { return p.ts[p.rng.Intn(len(p.ts))] }

func (p *pools) device() model.Device {
	rng := p.rng
	st := []model.DeviceState{0, 1, 8}[rng.Intn(3)] // the three defined states (the service reports any other as DISABLED)
	return model.Device{DeviceEUI: p.eui(), DevAddr: protocol.DevAddrFromUint32(p.ad()), AppKey: someKey(rng), AppSKey: someKey(rng),
		NwkSKey: someKey(rng), AppEUI: p.app(), State: st, FCntUp: someU16(rng), FCntDn: someU16(rng),
		RelaxedCounter: rng.Intn(2) == 0, KeyWarning: rng.Intn(2) == 0, Tag: someTag(rng), DevNonceHistory: someHistory(rng)}
}

// the nonce log a caller may leave in the struct it hands to CreateDevice / UpdateDevice (the storage
// layer keeps nonces in their own table, fed by AddDevNonce; what is in the struct is not stored)
func someHistory(rng *rand.Rand) []uint16 {
	switch rng.Intn(4) {
	case 0:
		return []uint16{someU16(rng)}
	case 1:
		a := someU16(rng)
		return []uint16{a, someU16(rng), a}
	default:
		return nil
	}
}
func devText(d model.Device) string {
	return fmt.Sprintf("%s,%08x,%s,%s,%s,%s,%d,%d,%d,%s,%s,%s", rEUI(d.DeviceEUI), d.DevAddr.ToUint32(), hx(d.AppKey.Key[:]),
		hx(d.AppSKey.Key[:]), hx(d.NwkSKey.Key[:]), rEUI(d.AppEUI), uint8(d.State), d.FCntUp, d.FCntDn, rB(d.RelaxedCounter),
		rB(d.KeyWarning), rTxt(d.Tag)) + "," + histText(d.DevNonceHistory)
}
func histText(h []uint16) string {
	if len(h) == 0 {
		return "-"
	}
	s := make([]string, len(h))
	for i, v := range h {
		s[i] = fmt.Sprint(v)
	}
	return strings.Join(s, "+")
}
func (p *pools) gateway() model.Gateway {
	rng := p.rng
	return model.Gateway{GatewayEUI: p.gw(), IP: someIP(rng), StrictIP: rng.Intn(2) == 0, Latitude: someEighth(rng, 90),
		Longitude: someEighth(rng, 180), Altitude: someEighth(rng, 9000)}
}
func gwText(g model.Gateway) string {
	return fmt.Sprintf("%s,%s,%s,%s,%s,%s", rEUI(g.GatewayEUI), eighths(g.Latitude), eighths(g.Longitude), eighths(g.Altitude),
		rTxt(g.IP.String()), rB(g.StrictIP))
}
func (p *pools) upstream() model.UpstreamMessage {
	rng := p.rng
	n := []int{0, 1, 2, 3, 4, 5, 222, 255, rng.Intn(60)}[rng.Intn(9)]
	rssi := []int32{0, -120, math.MinInt32, math.MaxInt32, int32(rng.Intn(200) - 150)}[rng.Intn(5)]
	datr := []string{"SF7BW125", "SF12BW125", "", "50000", "SF7BW125 ✓"}[rng.Intn(5)]
	return model.UpstreamMessage{DeviceEUI: p.eui(), Timestamp: p.t(), Data: randBytes(rng, n), GatewayEUI: p.gw(), RSSI: rssi,
		SNR: someEighth(rng, 30), Frequency: someEighth(rng, 900), DataRate: datr, DevAddr: protocol.DevAddrFromUint32(p.ad())}
}
func upText(m model.UpstreamMessage) string {
	return fmt.Sprintf("%s,%s,%s,%s,%d,%s,%s,%s,%08x", rEUI(m.DeviceEUI), rI64(m.Timestamp), rBytes(m.Data), rEUI(m.GatewayEUI),
		m.RSSI, eighths(m.SNR), eighths(m.Frequency), rTxt(m.DataRate), m.DevAddr.ToUint32())
}
func (p *pools) downstream() model.DownstreamMessage {
	rng := p.rng
	return model.DownstreamMessage{DeviceEUI: p.eui(), Data: hx(randBytes(rng, rng.Intn(40))), Port: uint8([]int{0, 1, 255, rng.Intn(256)}[rng.Intn(4)]),
		Ack: rng.Intn(2) == 0, CreatedTime: p.t(), SentTime: []int64{0, someI64(rng)}[rng.Intn(2)], AckTime: []int64{0, someI64(rng)}[rng.Intn(2)],
		FCntUp: someU16(rng)}
}
func downText(m model.DownstreamMessage) string {
	return fmt.Sprintf("%s,%s,%d,%s,%s,%s,%s,%d", rEUI(m.DeviceEUI), rTxt(m.Data), m.Port, rB(m.Ack), rI64(m.CreatedTime),
		rI64(m.SentTime), rI64(m.AckTime), m.FCntUp)
}

type regWorld struct {
	conn string
	st   *storage.Storage
	api  lospan.LospanServer
}

func parseIP(s string) net.IP { return net.ParseIP(s) }

func (r *regWorld) open() {
	st, err := storage.CreateStorage(r.conn)
	if err != nil {
		fmt.Fprintln(os.Stderr, "storage:", err)
		os.Exit(3)
	}
	r.st = st
	r.openAPI()
}
func (r *regWorld) reopen() {
	r.st.Close()
	r.st.VerifCloseDB()
	r.open()
}

// one storage-layer operation: its text for the model and what the code answered
func (r *regWorld) storageOp(p *pools) (string, string) {
	rng := p.rng
	st := r.st
	res := func(err error) string {
		if err == nil {
			return "ok"
		}
		return rErr(err)
	}
	if rng.Intn(9) == 0 {
		// the queue's status operations: sent, acknowledged, reset, next unsent
		e := p.eui()
		switch rng.Intn(4) {
		case 0:
			c, sent, fc := p.t(), p.t(), someU16(rng)
			return fmt.Sprintf("ss:%s:%s:%s:%d", rEUI(e), rI64(c), rI64(sent), fc), res(st.SetMessageSentTime(e, c, sent, fc))
		case 1:
			fc, at := someU16(rng), p.t()
			return fmt.Sprintf("ua:%s:%d:%s", rEUI(e), fc, rI64(at)), res(st.UpdateMessageAckTime(e, fc, at))
		case 2:
			return "ra:" + rEUI(e), res(st.ResetActiveAcks(e))
		default:
			m, err := st.GetNextUnsentMessage(e)
			if err != nil {
				return "nu:" + rEUI(e), rErr(err)
			}
			return "nu:" + rEUI(e), "downs[" + rDown(m) + "]"
		}
	}
	if rng.Intn(10) == 0 {
		// the two single-statement counter operations: compare-and-store, fetch-and-increment
		e := p.eui()
		// the session key the caller verified the frame under: the stored one (a read, not part of the sequence) or another
		key := someKey(rng)
		if rng.Intn(3) > 0 {
			if cur, err := st.GetDeviceByEUI(e); err == nil {
				key = cur.NwkSKey
			}
		}
		if rng.Intn(2) == 0 {
			a, nf, kw := someU16(rng), someU16(rng), rng.Intn(2) == 0
			if rng.Intn(2) == 0 {
				nf = a + 1
			}
			return fmt.Sprintf("af:%s:%s:%d:%d:%s", rEUI(e), hx(key.Key[:]), a, nf, rB(kw)), res(st.AdvanceFCntUp(e, key, a, nf, kw))
		}
		c, err := st.NextFCntDn(e, key)
		if err != nil {
			return "nd:" + rEUI(e) + ":" + hx(key.Key[:]), rErr(err)
		}
		return "nd:" + rEUI(e) + ":" + hx(key.Key[:]), fmt.Sprintf("cnt:%d", c)
	}
	switch k := rng.Intn(44); {
	case k < 3:
		a := model.Application{AppEUI: p.app(), Tag: someTag(rng)}
		return "ca:" + rEUI(a.AppEUI) + ":" + rTxt(a.Tag), res(st.CreateApplication(a))
	case k < 4:
		e := p.app()
		return "da:" + rEUI(e), res(st.DeleteApplication(e))
	case k < 6:
		e := p.app()
		a, err := st.GetApplicationByEUI(e)
		if err != nil {
			return "ga:" + rEUI(e), rErr(err)
		}
		return "ga:" + rEUI(e), rApp(a)
	case k < 7:
		l, err := st.ListApplications()
		if err != nil {
			return "la", rErr(err)
		}
		var o []string
		for _, a := range l {
			o = append(o, rApp(a))
		}
		return "la", "apps[" + sortedJoin(o) + "]"
	case k < 11:
		d := p.device()
		return "cd:" + devText(d), res(st.CreateDevice(d, d.AppEUI))
	case k < 13:
		d := p.device()
		return "ud:" + devText(d), res(st.UpdateDevice(d))
	case k < 15:
		d := model.Device{DeviceEUI: p.eui(), FCntUp: someU16(rng), FCntDn: someU16(rng), KeyWarning: rng.Intn(2) == 0}
		return fmt.Sprintf("us:%s:%d:%d:%s", rEUI(d.DeviceEUI), d.FCntUp, d.FCntDn, rB(d.KeyWarning)), res(st.UpdateDeviceState(d))
	case k < 16:
		e := p.eui()
		return "dd:" + rEUI(e), res(st.DeleteDevice(e))
	case k < 19:
		e := p.eui()
		d, err := st.GetDeviceByEUI(e)
		if err != nil {
			return "gd:" + rEUI(e), rErr(err)
		}
		return "gd:" + rEUI(e), rDev(d)
	case k < 21:
		a := p.ad()
		l, err := st.GetDeviceByDevAddr(protocol.DevAddrFromUint32(a))
		if err != nil {
			return fmt.Sprintf("gda:%08x", a), rErr(err)
		}
		var o []string
		for _, d := range l {
			o = append(o, rDev(d))
		}
		return fmt.Sprintf("gda:%08x", a), "devs[" + sortedJoin(o) + "]"
	case k < 23:
		e := p.app()
		l, err := st.GetDevicesByApplicationEUI(e)
		if err != nil {
			return "gdp:" + rEUI(e), rErr(err)
		}
		var o []string
		for _, d := range l {
			o = append(o, rDev(d))
		}
		return "gdp:" + rEUI(e), "devs[" + sortedJoin(o) + "]"
	case k < 26:
		e, n := p.eui(), someU16(rng)
		return fmt.Sprintf("an:%s:%d", rEUI(e), n), res(st.AddDevNonce(model.Device{DeviceEUI: e}, n))
	case k < 28:
		g := p.gateway()
		return "cg:" + gwText(g), res(st.CreateGateway(g))
	case k < 29:
		g := p.gateway()
		return "ug:" + gwText(g), res(st.UpdateGateway(g))
	case k < 30:
		e := p.gw()
		return "dg:" + rEUI(e), res(st.DeleteGateway(e))
	case k < 32:
		e := p.gw()
		g, err := st.GetGateway(e)
		if err != nil {
			return "gg:" + rEUI(e), rErr(err)
		}
		return "gg:" + rEUI(e), rGw(g)
	case k < 33:
		l, err := st.GetGatewayList()
		if err != nil {
			return "lg", rErr(err)
		}
		var o []string
		for _, g := range l {
			o = append(o, rGw(g))
		}
		return "lg", "gws[" + sortedJoin(o) + "]"
	case k < 36:
		m := p.upstream()
		return "cu:" + upText(m), res(st.CreateUpstreamMessage(m.DeviceEUI, m))
	case k < 38:
		e := p.eui()
		lim := []int{-1, 0, 1, 2, 1000}[rng.Intn(5)]
		l, err := st.ListUpstreamMessages(e, lim)
		if err != nil {
			return fmt.Sprintf("lu:%s:%d", rEUI(e), lim), rErr(err)
		}
		var o []string
		for _, m := range l {
			o = append(o, rUp(m))
		}
		return fmt.Sprintf("lu:%s:%d", rEUI(e), lim), "ups[" + strings.Join(o, ";") + "]"
	case k < 40:
		m := p.downstream()
		return "cm:" + downText(m), res(st.CreateDownstreamMessage(m.DeviceEUI, m))
	case k < 41:
		e, c := p.eui(), p.t()
		return "dm:" + rEUI(e) + ":" + rI64(c), res(st.DeleteDownstreamMessage(e, c))
	case k < 43:
		e := p.eui()
		l, err := st.ListDownstreamMessages(e)
		if err != nil {
			return "lm:" + rEUI(e), rErr(err)
		}
		var o []string
		for _, m := range l {
			o = append(o, rDown(m))
		}
		return "lm:" + rEUI(e), "downs[" + strings.Join(o, ";") + "]"
	default:
		r.reopen()
		return "x", "ok"
	}
}

func registryCase(rng *rand.Rand, w *Writer, n int) {
	dir, err := os.MkdirTemp(scratchDir(), "verifreg")
	if err != nil {
		fmt.Fprintln(os.Stderr, "tmpdir:", err)
		os.Exit(3)
	}
	defer os.RemoveAll(dir)
	r := &regWorld{conn: "file:" + dir + "/db.sqlite?_pragma=busy_timeout(20000)&_pragma=synchronous(off)"}
	r.open()
	p := newPools(rng)
	var ops, obs []string
	for i := 0; i < n; i++ {
		var o, a string
		if rng.Intn(5) < 2 {
			o, a = r.apiOp(p)
		} else {
			o, a = r.storageOp(p)
		}
		ops = append(ops, o)
		obs = append(obs, a)
		w.Count("registry.op." + strings.SplitN(o, ":", 2)[0])
		w.Count("registry.res." + strings.SplitN(strings.SplitN(a, "(", 2)[0], "[", 2)[0])
	}
	r.st.Close()
	r.st.VerifCloseDB()
	w.Case("registry", []string{"ops=" + strings.Join(ops, ";")}, strings.Join(obs, "|"))
}

func suiteC18(rng *rand.Rand, tier string, w *Writer) {
	n := 120
	if tier == "thorough" {
		n = 2500
	}
	for i := 0; i < n; i++ {
		registryCase(rng, w, 20+rng.Intn(60))
	}
	codecCases(rng, w, 4*n)
}

// ---- field codecs on arbitrary text ----
func someText(rng *rand.Rand, alphabet string, n int) string {
	b := make([]byte, n)
	for i := range b {
		b[i] = alphabet[rng.Intn(len(alphabet))]
	}
	return string(b)
}
func codecCases(rng *rand.Rand, w *Writer, n int) {
	hexish := "0123456789abcdefABCDEF"
	noisy := "0123456789abcdefABCDEF-- \t\ng+_x"
	for i := 0; i < n; i++ {
		var s string
		switch rng.Intn(6) {
		case 0:
			s = someText(rng, hexish, rng.Intn(12))
		case 1:
			s = someText(rng, noisy, rng.Intn(12))
		case 2:
			s = fmt.Sprintf("%08x", someAddr(rng))
		case 3:
			s = fmt.Sprintf("%X", someAddr(rng))
		case 4:
			s = strings.Repeat("0", rng.Intn(20)) + fmt.Sprintf("%x", someAddr(rng))
		default:
			s = fmt.Sprintf("%x", rng.Uint64()>>uint(rng.Intn(40)))
		}
		o := "err"
		if a, err := protocol.DevAddrFromString(s); err == nil {
			o = fmt.Sprintf("%08x", a.ToUint32())
		}
		w.Case("codec", []string{"k=devaddr", "s=" + rTxt(s)}, o)
		w.Count("codec.devaddr." + map[bool]string{true: "err", false: "ok"}[o == "err"])
	}
	for i := 0; i < n; i++ {
		e := someEUI(rng)
		var s string
		switch rng.Intn(8) {
		case 0:
			s = e.String()
		case 1:
			s = strings.ToUpper(e.String())
		case 2:
			s = " \t" + e.String() + "\n "
		case 3:
			s = strings.ReplaceAll(e.String(), "-", "")
		case 4:
			s = someText(rng, noisy, rng.Intn(26))
		case 5:
			s = e.String()[:rng.Intn(24)]
		case 6:
			b := []byte(e.String())
			b[rng.Intn(len(b))] = noisy[rng.Intn(len(noisy))]
			s = string(b)
		default:
			s = someText(rng, hexish+"-", 16+rng.Intn(9))
		}
		o := "err"
		if v, err := protocol.EUIFromString(s); err == nil {
			o = rEUI(v)
		}
		w.Case("codec", []string{"k=eui", "s=" + rTxt(s)}, o)
		w.Count("codec.eui." + map[bool]string{true: "err", false: "ok"}[o == "err"])
		w.Case("codec", []string{"k=euistr", "v=" + rEUI(e)}, rTxt(e.String())+","+rI64(e.ToInt64())+","+rEUI(protocol.EUIFromInt64(e.ToInt64())))
	}
	for i := 0; i < n; i++ {
		k := someKey(rng)
		var s string
		switch rng.Intn(6) {
		case 0:
			s = k.String()
		case 1:
			s = strings.ToUpper(k.String())
		case 2:
			b := []byte(k.String())
			for j := 0; j < 3; j++ {
				p := rng.Intn(len(b))
				b = append(b[:p], append([]byte{' '}, b[p:]...)...)
			}
			s = string(b)
		case 3:
			s = k.String()[:rng.Intn(33)]
		case 4:
			s = someText(rng, noisy, rng.Intn(40))
		default:
			s = k.String() + someText(rng, hexish, 1+rng.Intn(4))
		}
		o := "err"
		if v, err := protocol.AESKeyFromString(s); err == nil {
			o = hx(v.Key[:])
		}
		w.Case("codec", []string{"k=key", "s=" + rTxt(s)}, o)
		w.Count("codec.key." + map[bool]string{true: "err", false: "ok"}[o == "err"])
	}
}
