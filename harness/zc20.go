//go:build verif && !no_c20

package main

import "math/rand"

// The events the router carries are published by the pipeline's uplink handlers; "delivered exactly once, in publication
// order" is about what the subscriber gets to read, also when it reads a little later than the publisher publishes. C20's
// check therefore runs the bursts of five devices heard at one instant on the real pipeline (the application's subscriber reads
// the five events after all five frames have been handled): five events, each with its own device, payload and gateway.
func init() {
	r20 := suites["C20"]
	suites["C20"] = func(rng *rand.Rand, tier string, w *Writer) {
		r20(rng, tier, w)
		n := 8
		if tier == "thorough" {
			n = 100
		}
		for i := 0; i < n; i++ {
			burstCase(rng, w, "schedC09")
		}
	}
}
