//go:build verif && !no_c12

package main

import (
	"fmt"
	"math/rand"

	"github.com/lab5e/lospan/pkg/protocol"
)

func init() { suites["C12"] = suiteC12 }

type encFrame struct {
	mt              protocol.MType
	major           uint8
	nwkid           uint8
	nwkaddr         uint32
	adr, adrackreq  bool
	ack, pend, clsb bool
	fcnt            uint16
	fopts           []setOp
	port            uint8
	frm             []byte
	cmds            []setOp
	mic             uint32
	foptsMax        int
}

func opsStr(ops []setOp) string {
	s := ""
	for i, o := range ops {
		if i > 0 {
			s += ","
		}
		u := 0
		if o.up {
			u = 1
		}
		vs := ""
		for j, x := range o.vals {
			if j > 0 {
				vs += "/"
			}
			vs += fmt.Sprint(x)
		}
		s += fmt.Sprintf("a:%d:%d:%s", u, o.cid, vs)
	}
	return s
}

func encCase(w *Writer, e encFrame) {
	p := protocol.NewPHYPayload(e.mt)
	p.MHDR.MajorVersion = e.major
	p.MACPayload.FHDR.DevAddr = protocol.DevAddr{NwkID: e.nwkid, NwkAddr: e.nwkaddr}
	p.MACPayload.FHDR.FCtrl = protocol.FCtrl{ADR: e.adr, ADRACKReq: e.adrackreq, ACK: e.ack, FPending: e.pend, ClassB: e.clsb}
	p.MACPayload.FHDR.FCnt = e.fcnt
	if e.foptsMax != 15 {
		p.MACPayload.FHDR.FOpts = protocol.NewMACCommandSet(e.mt, e.foptsMax)
	}
	for _, o := range e.fopts {
		c := newMAC(o.up, o.cid)
		macSetFields(c, o.vals)
		p.MACPayload.FHDR.FOpts.Add(c)
	}
	for _, o := range e.cmds {
		c := newMAC(o.up, o.cid)
		macSetFields(c, o.vals)
		p.MACPayload.MACCommands.Add(c)
	}
	p.MACPayload.FPort = e.port
	p.MACPayload.FRMPayload = e.frm
	p.MIC = e.mic
	obs := ""
	func() {
		defer func() {
			if r := recover(); r != nil {
				obs = "PANIC"
			}
		}()
		b, err := p.MarshalBinary()
		if err != nil {
			obs = fmt.Sprintf("err%d", errCode(err))
			return
		}
		obs = "ok:" + hx(b) + " " + phyDecodeObs(b, nil)
	}()
	w.Case("phyenc", []string{kv("mt", int(e.mt)), kv("mj", e.major), kv("nwkid", e.nwkid), kv("nwkaddr", e.nwkaddr),
		fmt.Sprintf("fc=%d%d%d%d%d", b01(e.adr), b01(e.adrackreq), b01(e.ack), b01(e.pend), b01(e.clsb)), kv("fcnt", e.fcnt),
		kv("foptsmax", e.foptsMax), "fopts=" + opsStr(e.fopts), kv("port", e.port), kv("frm", e.frm), "cmds=" + opsStr(e.cmds), fmt.Sprintf("mic=%08x", e.mic)}, obs)
	w.Count(fmt.Sprintf("phyenc.mt=%d", e.mt))
}

func genOps(rng *rand.Rand, up bool, n int) []setOp {
	var ops []setOp
	for j := 0; j < n; j++ {
		u := up
		if rng.Intn(10) == 0 {
			u = !u
		}
		cid := macCIDs[rng.Intn(len(macCIDs))]
		proto := newMAC(u, cid)
		kinds := macFieldKinds(proto)
		vals := make([]uint64, len(kinds))
		for k := range kinds {
			vals[k] = genFieldVal(rng, kinds[k])
		}
		ops = append(ops, setOp{up: u, cid: cid, vals: vals})
	}
	return ops
}

func suiteC12(rng *rand.Rand, tier string, w *Writer) {
	n := 1500
	if tier == "thorough" {
		n = 20000
	}
	genPhyStream(rng, w, n)
	// all 256 MHDR x a sample of FCtrl over a fixed tail (thorough: all 256 x 256)
	tail := []byte{0x04, 0x03, 0x02, 0x81, 0x00, 0x01, 0x00, 0x02, 0x03, 0x05, 0x06, 0x11, 0x22, 0x0a, 0xde, 0xad, 0xbe, 0xef, 1, 2, 3, 4}
	for mh := 0; mh < 256; mh++ {
		for fc := 0; fc < 256; fc++ {
			if tier != "thorough" && (mh*7+fc*3)%16 != int(rng.Int31n(16)) {
				continue
			}
			f := append([]byte{byte(mh)}, tail...)
			f[5] = byte(fc)
			phyCase(w, f, nil, "mhdr-fctrl-sweep")
		}
	}
	// encode direction
	ne := 600
	if tier == "thorough" {
		ne = 8000
	}
	for i := 0; i < ne; i++ {
		mt := []protocol.MType{2, 3, 4, 5, 2, 3, 4, 5, 6, 0, 1, 7}[rng.Intn(12)]
		e := encFrame{mt: mt, foptsMax: 15}
		if rng.Intn(10) == 0 {
			e.major = uint8(rng.Intn(4))
		}
		e.nwkid = uint8(rng.Intn(128))
		if rng.Intn(10) == 0 {
			e.nwkid = uint8(rng.Intn(256))
		}
		e.nwkaddr = rng.Uint32() & 0x1FFFFFF
		if rng.Intn(10) == 0 {
			e.nwkaddr = rng.Uint32()
		}
		e.adr, e.adrackreq, e.ack, e.pend, e.clsb = rng.Intn(2) == 0, rng.Intn(2) == 0, rng.Intn(2) == 0, rng.Intn(2) == 0, rng.Intn(2) == 0
		e.fcnt = uint16(rng.Intn(65536))
		if rng.Intn(2) == 0 {
			e.fopts = genOps(rng, mt.Uplink(), rng.Intn(6))
		}
		if rng.Intn(40) == 0 {
			e.foptsMax = 16 + rng.Intn(300)
			e.fopts = genOps(rng, mt.Uplink(), 4+rng.Intn(8))
		}
		switch rng.Intn(5) {
		case 0:
			e.port = uint8(rng.Intn(256))
		case 1:
			e.port = uint8(rng.Intn(256))
			e.cmds = genOps(rng, mt.Uplink(), 1+rng.Intn(5))
		default:
			e.port = []uint8{0, 1, 2, 223, 224, 255, uint8(1 + rng.Intn(223))}[rng.Intn(7)]
			l := rng.Intn(40)
			if rng.Intn(4) == 0 {
				l = 200 + rng.Intn(56)
			}
			e.frm = randBytes(rng, l)
			if rng.Intn(5) == 0 {
				e.cmds = genOps(rng, mt.Uplink(), 1+rng.Intn(3))
			}
		}
		e.mic = rng.Uint32()
		encCase(w, e)
	}
}
