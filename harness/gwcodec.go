//go:build verif

package main

import (
	"fmt"
	"math/rand"

	"github.com/lab5e/lospan/pkg/gateway"
)

// "Encoding and decoding of the six packet types are mutual inverses": GwPacket.MarshalBinary and UnmarshalBinary themselves,
// for all six types (the forwarder only ever marshals the three it sends and unmarshals what gateways send), against
// gw_marshal / gw_unmarshal of Model/Gateway.v; and the implementation's own round trip.
func gwCodecCase(rng *rand.Rand, w *Writer) {
	if rng.Intn(3) == 0 {
		// arbitrary bytes into the decoder
		data := randBytes(rng, rng.Intn(30))
		if len(data) > 3 && rng.Intn(2) == 0 {
			data[3] = byte(rng.Intn(7))
		}
		var p gateway.GwPacket
		obs := ""
		func() {
			defer func() {
				if r := recover(); r != nil {
					obs = "PANIC"
				}
			}()
			if err := p.UnmarshalBinary(data); err != nil {
				obs = "err"
				return
			}
			obs = fmt.Sprintf("ok:%d:%d:%d:%x:%s", p.ProtocolVersion, p.Token, p.Identifier, uint64(p.GatewayEUI.ToInt64()), hx([]byte(p.JSONString)))
		}()
		w.Case("gwcodec", []string{"dir=u", kv("data", data)}, obs)
		w.Count("gwcodec.unmarshal")
		return
	}
	ident := []int{0, 1, 2, 3, 4, 5, 5, 3, 0, 2, 7, 99}[rng.Intn(12)]
	js := randBytes(rng, []int{0, 0, 1, 2, 17, 40, 200}[rng.Intn(7)])
	p := gateway.GwPacket{ProtocolVersion: uint8(rng.Intn(256)), Token: uint16(rng.Intn(65536)), Identifier: ident,
		GatewayEUI: eui64(genEUI(rng)), JSONString: string(js), Host: "10.0.0.1", Port: 1700}
	obs := ""
	func() {
		defer func() {
			if r := recover(); r != nil {
				obs = "PANIC"
			}
		}()
		b, err := p.MarshalBinary()
		if err != nil {
			obs = "err"
			return
		}
		var q gateway.GwPacket
		rt := 0
		if err := q.UnmarshalBinary(b); err == nil && q.ProtocolVersion == p.ProtocolVersion && q.Token == p.Token && q.Identifier == p.Identifier {
			rt = 1
			if (ident == gateway.PushData || ident == gateway.PullData) && q.GatewayEUI != p.GatewayEUI {
				rt = 0
			}
			if (ident == gateway.PushData || ident == gateway.PullResp || ident == gateway.TxAck) && q.JSONString != p.JSONString {
				rt = 0
			}
		}
		obs = fmt.Sprintf("ok:%s:%d", hx(b), rt)
	}()
	w.Case("gwcodec", []string{"dir=m", fmt.Sprintf("ver=%d", p.ProtocolVersion), fmt.Sprintf("token=%d", p.Token), fmt.Sprintf("ident=%d", ident),
		fmt.Sprintf("eui=%x", uint64(p.GatewayEUI.ToInt64())), kv("json", js)}, obs)
	w.Count(fmt.Sprintf("gwcodec.marshal.ident=%d", ident))
}

func init() {
	g15 := suites["C15"]
	suites["C15"] = func(rng *rand.Rand, tier string, w *Writer) {
		g15(rng, tier, w)
		n := 600
		if tier == "thorough" {
			n = 12000
		}
		for i := 0; i < n; i++ {
			gwCodecCase(rng, w)
		}
	}
}
