//go:build verif && !no_c14

package main

import (
	"bytes"
	"crypto/aes"
	"fmt"
	"math/rand"
	"reflect"
	"sync"

	"github.com/lab5e/lospan/pkg/cmac"
	"github.com/lab5e/lospan/pkg/protocol"
)

func init() { suites["C14"] = suiteC14 }

// the key is handed over in one buffer that is overwritten in place from call to call (a caller that keeps its key in a
// fixed buffer): the result depends on the bytes in it at the time of the call, and the function leaves them alone
var cmacKeyBuf = make([]byte, 16)

func cmacCase(w *Writer, key0, msg []byte, spare int, fill byte) {
	key := key0
	if len(key0) == 16 {
		copy(cmacKeyBuf, key0)
		key = cmacKeyBuf
	}
	// the message is a sub-slice of a larger array: spare capacity, then sentinels
	arr := make([]byte, len(msg)+spare+8)
	copy(arr, msg)
	for i := len(msg); i < len(arr); i++ {
		arr[i] = fill ^ byte(i*7)
	}
	before := append([]byte{}, arr...)
	view := arr[0 : len(msg) : len(msg)+spare]
	obs := ""
	func() {
		defer func() {
			if r := recover(); r != nil {
				obs = "PANIC"
			}
		}()
		tag, err := cmac.AESCMAC(key, view)
		if err != nil {
			obs = "ERR"
			return
		}
		// spare as the model sees it: bytes between len and cap; sentinels must be intact too
		if !bytes.Equal(arr[len(msg)+spare:], before[len(msg)+spare:]) || !bytes.Equal(arr[:len(msg)], before[:len(msg)]) || !bytes.Equal(key, key0) {
			obs = hx(tag) + " CORRUPT"
			return
		}
		obs = hx(tag) + " " + hx(arr[len(msg):len(msg)+spare])
	}()
	w.Case("cmac", []string{kv("key", key0), kv("msg", msg), kv("spare", before[len(msg):len(msg)+spare])}, obs)
	w.Count(fmt.Sprintf("cmac.len%%16=%d", len(msg)%16))
	if spare > 0 && len(msg)%16 != 0 {
		w.Count("cmac.nontrivial(spare>0,partial-block)")
	}
}

// "pure": several callers at once, each with its own key and messages, get what they get alone (a scratch buffer shared
// between calls would show here and nowhere else)
func cmacConcurrent(rng *rand.Rand, w *Writer) {
	const ngo, nmsg, rounds = 8, 24, 40
	type job struct {
		key, msg, want []byte
	}
	jobs := make([][]job, ngo)
	for g := range jobs {
		key := genKey(rng)
		for i := 0; i < nmsg; i++ {
			msg := randBytes(rng, []int{0, 1, 15, 16, 17, 32, 40, 64}[rng.Intn(8)])
			want, err := cmac.AESCMAC(key, msg) // alone
			if err != nil {
				return
			}
			jobs[g] = append(jobs[g], job{key, msg, want})
		}
	}
	bad := make(chan string, ngo)
	start := make(chan struct{})
	var wg sync.WaitGroup
	for g := 0; g < ngo; g++ {
		wg.Add(1)
		go func(g int) {
			defer wg.Done()
			<-start
			for r := 0; r < rounds; r++ {
				for _, j := range jobs[g] {
					got, err := cmac.AESCMAC(j.key, j.msg)
					if err != nil || !bytes.Equal(got, j.want) {
						select {
						case bad <- fmt.Sprintf("caller-%d-got-%s-alone-%s", g, hx(got), hx(j.want)):
						default:
						}
						return
					}
				}
			}
		}(g)
	}
	close(start)
	wg.Wait()
	obs := "ok"
	select {
	case b := <-bad:
		obs = b
	default:
	}
	w.Case("cmacconc", []string{"k=callers"}, obs)
	w.Count("cmac.concurrent-callers")
}

func suiteC14(rng *rand.Rand, tier string, w *Writer) {
	for i := 0; i < 4; i++ {
		cmacConcurrent(rng, w)
	}
	// concrete AES of the model vs crypto/aes
	nAES := 40
	for i := 0; i < nAES; i++ {
		key := genKey(rng)
		blk := randBytes(rng, 16)
		c, _ := aes.NewCipher(key)
		enc := make([]byte, 16)
		dec := make([]byte, 16)
		c.Encrypt(enc, blk)
		c.Decrypt(dec, blk)
		w.Case("aes", []string{kv("key", key), kv("block", blk)}, hx(enc)+" "+hx(dec))
	}
	// CMAC: every length 0..maxLen, spare 0..64
	maxLen, reps := 160, 1
	if tier == "thorough" {
		maxLen, reps = 1024, 2
	}
	for n := 0; n <= maxLen; n++ {
		for r := 0; r < reps; r++ {
			spare := rng.Intn(65)
			if r == 0 && n%3 == 0 {
				spare = []int{0, 1, 15, 16, 17, 64}[rng.Intn(6)]
			}
			cmacCase(w, genKey(rng), randBytes(rng, n), spare, byte(rng.Intn(256)))
		}
	}
	// keys at the boundaries of the subkey derivation (RFC 4493 2.3): L = AES(K, 0) or K1 with a first octet of
	// exactly 0x80, 0x7f, 0xff, 0x00, 0x01 - found by rejection sampling; used only to choose inputs
	for _, first := range []byte{0x80, 0x7f, 0xff, 0x00, 0x01, 0x81} {
		for which := 0; which < 2; which++ {
			key := subkeyBoundaryKey(rng, which, first)
			for _, n := range []int{0, 1, 16, 17, 40} {
				cmacCase(w, key, randBytes(rng, n), rng.Intn(20), byte(rng.Intn(256)))
			}
			w.Count("cmac.subkey-boundary")
		}
	}
	// the design-round witness: 5 visible bytes of a 32-byte 0xEE array
	{
		arr := bytes.Repeat([]byte{0xEE}, 5)
		cmacCase(w, make([]byte, 16), arr, 27, 0xEE)
	}
	// frame cipher: payload lengths 0..255, ports, directions
	step := 1
	for n := 0; n <= 255; n += step {
		for _, mt := range []protocol.MType{protocol.UnconfirmedDataUp, protocol.ConfirmedDataDown} {
			if tier != "thorough" && (n+int(mt))%2 == 1 && n > 40 {
				continue
			}
			port := uint8(rng.Intn(224))
			if rng.Intn(4) == 0 {
				port = 0
			}
			nk, ak := genKey(rng), genKey(rng)
			addr := rng.Uint32()
			fcnt := uint16(rng.Intn(65536))
			pl := randBytes(rng, n)
			p := protocol.NewPHYPayload(mt)
			p.MACPayload.FHDR.DevAddr = protocol.DevAddrFromUint32(addr)
			p.MACPayload.FHDR.FCnt = fcnt
			p.MACPayload.FHDR.FCtrl.ADR = rng.Intn(2) == 0
			p.MACPayload.FPort = port
			p.MACPayload.FRMPayload = append([]byte{}, pl...)
			p.MIC = rng.Uint32()
			var nwk, app protocol.AESKey
			copy(nwk.Key[:], nk)
			copy(app.Key[:], ak)
			orig := p
			orig.MACPayload.FRMPayload = nil
			// the bytes the caller handed in, and a second frame value that shares them (the decrypter applies the cipher to a
			// copy of one decoded frame per candidate device): the cipher returns its result and leaves those bytes alone
			held := p.MACPayload.FRMPayload
			q := p
			p.Decrypt(nwk, app)
			once := append([]byte{}, p.MACPayload.FRMPayload...)
			pure := bytes.Equal(held, pl)
			q.Decrypt(nwk, app)
			pure = pure && bytes.Equal(q.MACPayload.FRMPayload, once) && bytes.Equal(held, pl)
			p.Decrypt(nwk, app)
			twice := append([]byte{}, p.MACPayload.FRMPayload...)
			after := p
			after.MACPayload.FRMPayload = nil
			same := reflect.DeepEqual(orig, after) && bytes.Equal(pl, p.MACPayload.FRMPayload[:len(pl)]) && pure
			w.Case("cipher", []string{kv("nwk", nk), kv("app", ak), kv("mtype", int(mt)), fmt.Sprintf("addr=%x", addr),
				kv("fcnt", fcnt), kv("port", port), kv("frm", pl)}, hx(once)+" "+hx(twice)+" "+kv("", same)[1:])
			w.Count(fmt.Sprintf("cipher.blocks=%d", (n+15)/16))
		}
	}
}

// a key whose L = AES(key, 0^128) (which = 0) or whose K1 = dbl(L) (which = 1) starts with the given octet
func subkeyBoundaryKey(rng *rand.Rand, which int, first byte) []byte {
	dbl := func(b []byte) []byte {
		o := make([]byte, 16)
		for i := 0; i < 16; i++ {
			o[i] = b[i] << 1
			if i < 15 {
				o[i] |= b[i+1] >> 7
			}
		}
		if b[0]&0x80 != 0 {
			o[15] ^= 0x87
		}
		return o
	}
	key := make([]byte, 16)
	for try := 0; try < 200000; try++ {
		rng.Read(key)
		c, _ := aes.NewCipher(key)
		l := make([]byte, 16)
		c.Encrypt(l, make([]byte, 16))
		v := l
		if which == 1 {
			v = dbl(l)
		}
		if v[0] == first {
			return key
		}
	}
	return key
}
